#!/usr/bin/env python3
"""Generates corpus/C08/python_slices.txt ONCE from CPython's own slice resolution.

    python3 corpus/C08/gen_python_slices.py > corpus/C08/python_slices.txt

Every line is `a b n start stop`: `slice(a, b).indices(n)` evaluated by the CPython interpreter that ran
this script (step 1; `-` stands for None).  Nothing else is computed here: the table is an anchor that is
independent of the Rust oracle and of the Lean specification `pySlice`, both of which are checked against
it on every run of `./check C08` (harness/src/bin/c08.rs embeds the file).  Bounds are limited to what the
Rust integer types can hold (-2^63 .. 2^64-1, and both bounds of a line fit one common type), n to usize.
The generator is deterministic (fixed seed); the committed table was produced with CPython 3.11.7.
"""
import random
import sys

rnd = random.Random(20260927)
I64_MIN, I64_MAX, U64_MAX = -(2 ** 63), 2 ** 63 - 1, 2 ** 64 - 1
rows = []
seen = set()


def common_type(vals):
    vals = [v for v in vals if v is not None]
    return all(I64_MIN <= v <= I64_MAX for v in vals) or all(0 <= v <= U64_MAX for v in vals)


def add(a, b, n):
    if not common_type([a, b]) or not (0 <= n <= U64_MAX) or (a, b, n) in seen:
        return
    seen.add((a, b, n))
    start, stop, step = slice(a, b).indices(n)
    assert step == 1
    sh = lambda v: "-" if v is None else str(v)
    rows.append(f"{sh(a)} {sh(b)} {n} {start} {stop}")


# dense small part: every n in 0..6, every bound in -n-2..n+2 and None
for n in range(0, 7):
    bs = [None] + list(range(-n - 2, n + 3))
    for a in bs:
        for b in bs:
            add(a, b, n)
# the axis length of the crate's own test (10) and some others, bounds around 0, ±n, ±2n
for n in [10, 13, 40, 127, 128, 255, 256, 65535, 2 ** 31, 2 ** 32, 2 ** 63 - 1, 2 ** 63, U64_MAX]:
    marks = [None, 0, 1, -1, 2, -2, n - 1, n, n + 1, -n + 1, -n, -n - 1, 2 * n, -2 * n, 2 * n - 1, -2 * n + 1,
             I64_MIN, I64_MIN + 1, I64_MAX, I64_MAX - 1, U64_MAX, U64_MAX - 1, 2 ** 63, n // 2, -(n // 2)]
    for a in marks:
        for b in rnd.sample(marks, 9) + [None]:
            add(a, b, n)
# random part
def pick(n):
    k = rnd.randrange(6)
    if k == 0:
        return None
    if k == 1:
        return rnd.randint(-70, 70)
    if k == 2:
        return n * rnd.randint(-2, 2) + rnd.randint(-2, 2)
    if k == 3:
        return rnd.randint(I64_MIN, I64_MAX)
    if k == 4:
        return rnd.randint(0, U64_MAX)
    return rnd.choice([I64_MIN, I64_MAX, U64_MAX, 0, -1])

target = len(rows) + 600
while len(rows) < target:
    n = rnd.choice([rnd.randint(0, 64), rnd.randint(0, 2 ** 20), rnd.randint(0, U64_MAX), 2 ** rnd.randint(0, 63)])
    add(pick(n), pick(n), n)

sys.stdout.write("# a b n start stop  =  slice(a, b).indices(n)[:2] as evaluated by CPython; - = None\n")
sys.stdout.write("\n".join(rows) + "\n")
