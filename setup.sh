#!/bin/sh
# MANIFEST.setup_cmd: build the framework from files on disk only (offline).
cd "$(dirname "$0")" && exec ./check --setup
