#!/bin/sh
# MANIFEST.setup_cmd: build the framework from files on disk only (offline).
set -e
cd "$(dirname "$0")"
export CARGO_NET_OFFLINE=true
cp -n /repo/Cargo.lock harness/Cargo.lock 2>/dev/null || true
(cd harness && cargo build --offline -q)
mkdir -p .work/setup/generated lean/SurfModel/Generated evidence replays
# regenerate the tables the Lean project imports, then build everything once
if [ -s generated_tables.txt ]; then
  ./harness/target/debug/verif-harness tables .work/setup/generated $(cat generated_tables.txt)
  for t in $(cat generated_tables.txt); do cp .work/setup/generated/$t.lean lean/SurfModel/Generated/$t.lean; done
fi
(cd lean && lake build)
