#!/usr/bin/env python3
"""tools/seedall.py [Cxx ...]: for every seeded change under /root/seedout/<Cxx>/m<k>/ not yet processed:
 1. validate it independently in a scratch worktree (patch applies to HEAD, `cargo build`, the crate's test suite
    passes with the patch, the demonstration fails with the patch and passes without);
 2. run the property's check against it (tools/seedrun.sh: private copies, nothing in /repo or /verif is touched);
 3. keep confirmed changes under /verif/seeded/<Cxx>-m<k>/ (patch.diff, demo.rs, notes.md, meta.json)."""
import json, os, re, shutil, subprocess, sys, time
OUT = "/root/seedout"
VAL = "/root/seedval"
KEEP = "/verif/seeded"
props = {json.loads(l)["id"]: json.loads(l) for l in open("/verif/properties.jsonl")}

def sh(cmd, cwd=None, timeout=3600):
    p = subprocess.run(cmd, shell=True, cwd=cwd, capture_output=True, text=True, timeout=timeout)
    return p.returncode, (p.stdout + p.stderr)

def validate(pid, k, d):
    wt = f"{VAL}/{pid}-{k}-{os.getpid()}"
    sh(f"git -C /repo worktree remove --force {wt}")
    os.makedirs(VAL, exist_ok=True)
    rc, out = sh(f"git -C /repo worktree add --detach {wt} HEAD")
    if rc: return {"ok": False, "why": "worktree: " + out[-300:]}
    res = {"ok": False}
    try:
        shutil.copy("/repo/Cargo.lock", wt + "/Cargo.lock")
        os.makedirs(wt + "/tests", exist_ok=True)
        shutil.copy(d + "/demo.rs", wt + "/tests/verif_seed_demo.rs")
        env = "CARGO_NET_OFFLINE=true "
        rc, out = sh(env + "cargo test --offline --test verif_seed_demo 2>&1 | tail -15", cwd=wt)
        res["demo_without_patch"] = "pass" if ("test result: ok" in out and "FAILED" not in out) else "FAIL"
        res["demo_without_patch_tail"] = out[-600:]
        rc, out = sh(f"git apply {d}/patch.diff", cwd=wt)
        if rc:
            res["why"] = "patch does not apply: " + out[-300:]
            return res
        rc, out = sh(env + "cargo build --offline 2>&1 | tail -5", cwd=wt)
        res["build_with_patch"] = "ok" if "error" not in out else "ERROR"
        rc, out = sh(env + "cargo test --offline --lib 2>&1 | grep 'test result' ; cargo test --offline --doc 2>&1 | grep 'test result'", cwd=wt)
        res["suite_with_patch"] = " | ".join(l.strip() for l in out.splitlines() if "test result" in l)
        suite_ok = "62 passed; 0 failed" in out and out.count("0 failed") >= 2
        rc, out = sh(env + "cargo test --offline --test verif_seed_demo 2>&1 | tail -25", cwd=wt)
        res["demo_with_patch"] = "FAIL" if ("FAILED" in out or "panicked" in out or "error: test failed" in out) else "pass"
        res["demo_with_patch_tail"] = out[-800:]
        res["ok"] = (res["demo_without_patch"] == "pass" and res["build_with_patch"] == "ok" and suite_ok
                     and res["demo_with_patch"] == "FAIL")
        return res
    finally:
        sh(f"git -C /repo worktree remove --force {wt}")
        shutil.rmtree(wt, ignore_errors=True)

def detect(pid, d):
    rc, out = sh(f"/verif/tools/seedrun.sh {d}/patch.diff {pid}", timeout=7200)
    lines = [l for l in out.splitlines() if l.startswith("VIOLATION") or l.startswith("KNOWN-FINDING") or "corr-mismatch" in l or "obligations" in l]
    vio = [l for l in lines if l.startswith("VIOLATION")]
    rep = None
    if vio:
        m = re.search(r"replay=(\S+)", vio[0])
        if m:
            try:
                rep = json.load(open(os.environ.get("SEEDRUN_BASE", "/root/seedrun") + "/verif/" + m.group(1)))
            except Exception:
                rep = None
    return {"exit": rc, "lines": lines[-6:], "detected": bool(vio),
            "with_failing_input": bool(vio) and "no-failing-input-found" not in vio[0],
            "replay_excerpt": json.dumps(rep)[:1200] if rep else None}

def recheck(want):
    """Re-validate and re-run every kept seeded change against the CURRENT /repo HEAD; a change that no longer
    applies or no longer breaks the property (because a later fix: commit touched the same code) keeps its earlier
    verdict and gets status = stale with the reason."""
    head = subprocess.run("git -C /repo rev-parse --short HEAD", shell=True, capture_output=True, text=True).stdout.strip()
    for name in sorted(os.listdir(KEEP)):
        d = f"{KEEP}/{name}"
        if not os.path.exists(d + "/meta.json"): continue
        pid = name.split("-")[0]
        if want and pid not in want: continue
        meta = json.load(open(d + "/meta.json"))
        v = validate(pid, name.split("-", 1)[1], d)
        if not v["ok"]:
            meta["status"] = "stale"
            meta["stale_reason"] = {"repo_head": head, "validation": {k: v[k] for k in v if not k.endswith("_tail")},
                                    "note": "the change no longer applies to, or no longer breaks the property on, the current HEAD (later fix: commits changed the same code); the verdict recorded below was obtained at meta.repo_head"}
            print(name, "STALE", json.dumps(meta["stale_reason"]["validation"]), flush=True)
        else:
            det = detect(pid, d)
            meta["status"] = "current"
            meta.pop("stale_reason", None)
            meta["check_result"] = det
            meta["repo_head"] = head
            print(name, "detected" if det["detected"] else "MISSED", det["lines"][-1:], flush=True)
        json.dump(meta, open(d + "/meta.json", "w"), indent=1)


def main():
    if len(sys.argv) > 1 and sys.argv[1] == "--recheck":
        return recheck(sys.argv[2:])
    want = sys.argv[1:]
    for pid in sorted(os.listdir(OUT)):
        if not os.path.isdir(f"{OUT}/{pid}") or (want and pid not in want): continue
        if not os.path.exists(f"/verif/checks/{pid}.json"): continue
        for mk in sorted(os.listdir(f"{OUT}/{pid}")):
            d = f"{OUT}/{pid}/{mk}"
            if not (os.path.isdir(d) and os.path.exists(d + "/patch.diff") and os.path.exists(d + "/demo.rs")): continue
            dst = f"{KEEP}/{pid}-{mk}"
            if os.path.exists(dst + "/meta.json") or os.path.exists(d + "/rejected.json"): continue
            t0 = time.time()
            v = validate(pid, mk, d)
            print(pid, mk, "validated" if v["ok"] else "REJECTED", json.dumps({k: v[k] for k in v if not k.endswith("_tail")}), flush=True)
            if not v["ok"]:
                json.dump(v, open(d + "/rejected.json", "w"), indent=1)
                continue
            det = detect(pid, d)
            print(pid, mk, "detected" if det["detected"] else "MISSED", det["lines"][-2:], flush=True)
            os.makedirs(dst, exist_ok=True)
            for f in ("patch.diff", "demo.rs", "notes.md"):
                if os.path.exists(f"{d}/{f}"): shutil.copy(f"{d}/{f}", f"{dst}/{f}")
            notes = open(d + "/notes.md").read() if os.path.exists(d + "/notes.md") else ""
            meta = {"id": f"{pid}-{mk}", "property": pid, "property_title": props[pid]["title"],
                    "origin": "independent sub-agent given only the property text and a scratch worktree of /repo",
                    "needs_to_manifest": notes[:1500],
                    "validation": {k: v[k] for k in v if not k.endswith("_tail")},
                    "validation_cmds": ["git worktree add --detach <scratch> HEAD", "cargo test --offline --test verif_seed_demo (without patch: pass)",
                                        "git apply patch.diff", "cargo build --offline", "cargo test --offline --lib / --doc (62 + 1 pass)",
                                        "cargo test --offline --test verif_seed_demo (with patch: fails)"],
                    "check_cmd": f"tools/seedrun.sh seeded/{pid}-{mk}/patch.diff {pid}",
                    "check_result": det, "repo_head": subprocess.run("git -C /repo rev-parse --short HEAD", shell=True, capture_output=True, text=True).stdout.strip(),
                    "wall_s": round(time.time() - t0)}
            json.dump(meta, open(dst + "/meta.json", "w"), indent=1)

main()
