#!/usr/bin/env python3
"""Regenerates MANIFEST.json from checks.json (single source for per-property commands and texts)."""
import json, os, subprocess
ROOT = os.path.dirname(os.path.dirname(os.path.abspath(__file__)))
cfg = {f[:-5]: json.load(open(os.path.join(ROOT, "checks", f))) for f in sorted(os.listdir(os.path.join(ROOT, "checks"))) if f.endswith(".json")}
props = [json.loads(l)["id"] for l in open(os.path.join(ROOT, "properties.jsonl"))]
hooks = subprocess.run(["git", "-C", "/repo", "log", "--format=%h", "--grep=^verif:"], capture_output=True, text=True).stdout.split()
checks = []
for p in props:
    if p not in cfg or cfg[p].get("disabled") or not cfg[p].get("reviewed"):
        continue
    c = cfg[p]
    checks.append({
        "property_id": p,
        "quick_cmd": f"./check {p} --tier quick",
        "thorough_cmd": f"./check {p} --tier thorough",
        "evidence_file": f"/verif/evidence/{p}.json",
        "replay_cmd_template": f"./check {p} --replay {{path}}",
        "engine": "lean4-proof+correspondence",
        "level_claimed": {"category": "proof", "text": c["level_text"], "design_ref": c.get("design_ref", f"DESIGN.md section 5, {p}")},
        "level_note": c["level_note"],
        "technique": c.get("technique", "Lean 4 theorems over an executable model + differential correspondence with the Rust implementation"),
    })
na = [{"property_id": p, "reason": (cfg.get(p, {}).get("na_reason") or "no check registered in this revision: model and theorems for this property are not yet built (DESIGN.md section 8 gives the order of work); nothing is claimed for it")}
      for p in props if p not in cfg or cfg[p].get("disabled") or not cfg[p].get("reviewed")]
m = {
    "version": 1,
    "setup_cmd": "./setup.sh",
    "hooks": {
        "guard": "cargo feature verif-hooks",
        "enable": "harness/Cargo.toml depends on /repo by path with features = [\"verif-hooks\"]; every check runs `cargo build --offline` of the harness, which rebuilds /repo's working tree with the feature on",
        "baseline_off_cmd": "cd /repo && cargo test --workspace --no-fail-fast --offline",
        "source_commits": list(reversed(hooks)),
        "add_only": True,
    },
    "engines": [{"name": "lean4-proof+correspondence", "path": "/verif/check", "serves_properties": [c["property_id"] for c in checks],
                 "kind_free_text": "Lean 4 theorems about executable models (lean/SurfModel, lean/SurfProofs), axiom audit, compiled model driver; Rust harness (harness/) runs the implementation in-process on the same requests and applies independent oracles"}],
    "checks": checks,
    "not_applicable": na,
    "notes": "See DESIGN.md. Verdict rule: oracle failure on the implementation => VIOLATION with the failing input; broken theorem/audit/correspondence without a failing input after a widened search => VIOLATION ... no-failing-input-found.",
}
json.dump(m, open(os.path.join(ROOT, "MANIFEST.json"), "w"), indent=1)
print("checks:", [c["property_id"] for c in checks], "n/a:", len(na))
