#!/bin/sh
# tools/try_patch.sh [-R] <patch.diff> Cxx [check args]: apply a patch to /repo's working tree under the
# exclusive repo lock, run ./check Cxx, restore the tree (git checkout -- .).
set -u
mkdir -p /verif/.work
rev=""
if [ "$1" = "-R" ]; then rev="-R"; shift; fi
patch=$1; shift
exec 9>/verif/.work/repo.lock
flock -x 9
if [ -n "$(git -C /repo status --porcelain --untracked-files=no)" ]; then echo "/repo working tree not clean"; exit 2; fi
git -C /repo apply $rev "$patch" || { echo "patch does not apply"; exit 2; }
(cd /verif && VERIF_REPO_LOCKED=1 ./check "$@")
rc=$?
git -C /repo checkout -- .
echo "try_patch: check exit code = $rc"
exit $rc
