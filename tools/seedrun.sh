#!/bin/sh
# tools/seedrun.sh <patch.diff> Cxx [check args]
# Runs ./check Cxx against a PRIVATE copy of /verif and a PRIVATE worktree of /repo with the patch applied,
# so that neither /repo nor /verif is disturbed and no lock is needed (for mutation experiments while other
# checks are running). Private area: $SEEDRUN_BASE, default /root/seedrun (removed with `tools/seedrun.sh --clean`);
# several instances with different SEEDRUN_BASE may run in parallel.
set -u
BASE=${SEEDRUN_BASE:-/root/seedrun}
if [ "$1" = "--clean" ]; then
  git -C /repo worktree remove --force $BASE/repo 2>/dev/null
  rm -rf $BASE; exit 0
fi
patch=$(realpath "$1"); shift
mkdir -p $BASE
exec 8>$BASE/lock; flock -x 8
if [ ! -d $BASE/repo ]; then git -C /repo worktree add --detach $BASE/repo HEAD >/dev/null 2>&1 || exit 2; fi
git -C $BASE/repo checkout -q --detach $(git -C /repo rev-parse HEAD) && git -C $BASE/repo checkout -q -- . || exit 2
rsync -a --delete --exclude .git --exclude .work --exclude replays --exclude evidence --exclude harness/target /verif/ $BASE/verif/
mkdir -p $BASE/verif/harness && sed -i "s#path = \"/repo\"#path = \"$BASE/repo\"#" $BASE/verif/harness/Cargo.toml
cp -n /repo/Cargo.lock $BASE/verif/harness/Cargo.lock 2>/dev/null
cp -n /repo/Cargo.lock $BASE/repo/Cargo.lock 2>/dev/null
git -C $BASE/repo apply "$patch" || { echo "patch does not apply"; exit 2; }
(cd $BASE/verif && VERIF_REPO_LOCKED=1 ./check "$@")
rc=$?
git -C $BASE/repo checkout -q -- .
echo "seedrun: check exit code = $rc"
exit $rc
