#!/bin/sh
# tools/try_revert.sh "<commit subject substring>" Cxx [check args]: reverse-apply a fix commit in /repo's
# working tree, run the check, restore the tree. Confirms that a repaired defect is detected when it returns.
# tools/try_patch.sh does the same for an arbitrary patch file. Both hold the exclusive repo lock, so
# concurrently running checks (which hold it shared) never see the modified tree.
set -u
h=$(git -C /repo log --format='%h %s' | grep -F "$1" | head -1 | cut -d' ' -f1)
[ -n "$h" ] || { echo "no such commit"; exit 2; }
shift
git -C /repo show "$h" > /verif/.work/revert.$$.diff
exec /verif/tools/try_patch.sh -R /verif/.work/revert.$$.diff "$@"
