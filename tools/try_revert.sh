#!/bin/sh
# tools/try_revert.sh "<commit subject substring>" Cxx : reverse-apply a fix commit in /repo's working tree,
# run the check, restore the tree.  Used to confirm that each repaired defect is detected when it returns.
set -u
h=$(git -C /repo log --format='%h %s' | grep -F "$1" | head -1 | cut -d' ' -f1)
[ -n "$h" ] || { echo "no such commit"; exit 2; }
git -C /repo show "$h" | git -C /repo apply -R || exit 2
(cd /verif && ./check "$2" ${3:-})
rc=$?
git -C /repo checkout -- .
echo "rc=$rc"
