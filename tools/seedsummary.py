#!/usr/bin/env python3
"""Writes seeded/SUMMARY.md from seeded/*/meta.json."""
import json, os, glob
rows = []
for f in sorted(glob.glob("/verif/seeded/*/meta.json")):
    m = json.load(open(f))
    cr = m["check_result"]
    stale = m.get("status") == "stale"
    verdict = "MISSED" if not cr["detected"] else ("VIOLATION with failing input" if cr["with_failing_input"] else "VIOLATION no-failing-input-found")
    first = m["needs_to_manifest"].strip().splitlines()
    title = next((l.strip("# ").strip() for l in first if l.strip()), "")[:140]
    if stale:
        verdict += " (at " + m["repo_head"] + "; stale at current HEAD: superseded by later fix commits)"
    rows.append((m["id"], m["property"], title, verdict))
out = ["# Seeded changes and the verdict of the property's check\n",
       "Each change compiles, passes the crate's 62 tests + doctest, and breaks the property (its demo fails with the",
       "patch and passes without). `tools/seedrun.sh seeded/<id>/patch.diff <Cxx>` reproduces the verdict.\n",
       "| id | property | change | verdict of ./check |", "|---|---|---|---|"]
for r in rows:
    out.append("| " + " | ".join(x.replace("|", "/") for x in r) + " |")
n = len(rows); d = sum(1 for r in rows if r[3] != "MISSED"); w = sum(1 for r in rows if r[3].startswith("VIOLATION with"))
out.append(f"\n{n} seeded changes kept; {d} reported as VIOLATION ({w} with a concrete failing input), {n - d} missed.")
open("/verif/seeded/SUMMARY.md", "w").write("\n".join(out) + "\n")
print(out[-1])
