import SurfModel.TextLayout
import SurfModel.Decoders
/-!
# C09 — `tty_writer()` as a whole: tokenizer (C03) ∘ `TTYCommandDecoder` payload decoding (C02/C06) ∘
`TTYCellWriter::write` (`SurfModel.TextLayout.ttySession`)

The driver installs the command automaton dumped from the implementation (`c09 table command …`, the table
format of C02/C15) and runs `ttySession` over it on the chunked bytes (`c09 ttys …`), so the model of the whole
byte path of `tty_writer()` is tied to the code by correspondence.
-/
namespace SurfModel.TextTty
open SurfModel.Tokenizer SurfModel.Sgr SurfModel.Stream SurfModel.Decoders SurfModel.TextLayout SurfModel.Shape
  SurfModel.Automata

def b2n (b : Bool) : Nat := if b then 1 else 0

/-- `RGBA` as the number `r g b a` (big endian), the colour numbers of `SurfModel.TextLayout.Face` -/
def packColor (c : Rgba) : Nat := ((c.r * 256 + c.g) * 256 + c.b) * 256 + c.a
def unpackColor (n : Nat) : Rgba := ⟨n / 16777216, n / 65536 % 256, n / 256 % 256, n % 256⟩

/-- the writer's `Face` from the unpacked face of the SGR model: the `FaceAttrs` word has the underline style
in the low three bits, then bold, italic, blink, reverse, strike -/
def packFace (d : DFace) : Face :=
  ⟨d.fg.map packColor, d.bg.map packColor,
   d.under + 8 * (b2n d.bold + 2 * b2n d.italic + 4 * b2n d.blink + 8 * b2n d.reverse + 16 * b2n d.strike)⟩

def unpackFace (f : Face) : DFace :=
  { fg := f.fg.map unpackColor, bg := f.bg.map unpackColor, under := f.attrs % 8,
    bold := f.attrs / 8 % 2 == 1, italic := f.attrs / 16 % 2 == 1, blink := f.attrs / 32 % 2 == 1,
    reverse := f.attrs / 64 % 2 == 1, strike := f.attrs / 128 % 2 == 1 }

/-- the `match cmd` of `TTYCellWriter::write` on what `TTYCommandDecoder::decode` returns -/
def cmdOfEvent : Except Stop SurfModel.Payload.Event → SurfModel.TextLayout.Cmd
  | .ok (SurfModel.Payload.Event.char c) => SurfModel.TextLayout.Cmd.char c
  | .ok (SurfModel.Payload.Event.command m) =>
    SurfModel.TextLayout.Cmd.face fun f => packFace (SurfModel.Sgr.apply m (unpackFace f))
  | _ => SurfModel.TextLayout.Cmd.other

/-- the payload decoder of `tty_writer()` -/
def ttyInterp {σ : Type} (A : TAuto σ) (it : Item σ) : SurfModel.TextLayout.Cmd := cmdOfEvent (commandOfItem A it)

/-! ## sequences of calls on ONE `TerminalWriter`

The writer's own `Utf8Decoder` (field `decoder`, used by `impl io::Write for TerminalWriter`) lives as long as
the writer: a write that ended with a decoding error, or in the middle of a character, is followed by further
writes on the same decoder. `utf8_writer()` / `tty_writer()` / `put_fmt` create a fresh decoder per call. -/

inductive SOp where
  /-- `put_cell(cell)` -/
  | put (c : Cell)
  /-- `put_char(c)` -/
  | chr (c : Nat)
  /-- `put_glyph(glyph)` = `put_cell(Cell::new_glyph(self.face(), glyph))` -/
  | glyph (h w : Nat) (fb : List Nat)
  /-- `put_image(image)` = `put_cell(Cell::new_image(image))` -/
  | image (ph pw : Nat)
  /-- `put_text(&text)`: every cell of the text through `put_cell`, results ignored -/
  | text (cells : List Cell)
  /-- `put_fmt(&str, face)`: the face is swapped, the string goes through a fresh `utf8_writer()`, the face is put back -/
  | fmt (face : Option Face) (bytes : List UInt8)
  /-- `Write::write(&mut writer, buf)`: the writer's own decoder -/
  | write (bytes : List UInt8)
  /-- `writer.by_ref().utf8_writer().write(buf)`: a fresh decoder -/
  | utf8 (bytes : List UInt8)
  /-- `writer.by_ref().tty_writer().write(buf)`: a fresh decoder -/
  | tty (bytes : List UInt8)
  | setFace (f : Face)
  | setWraps (b : Bool)
  | setCursor (r c : Nat)

/-- one call: the writer, its own decoder, what the call returned (`t`/`f`, `ok`/`err`, `-`) -/
def runOp (A : TAuto Nat) (w : Writer) (d : USt Nat) : SOp → Except Fault (Writer × USt Nat × String)
  | .put c => match putCell w c with
    | none => .error .panic
    | some (w', b) => .ok (w', d, if b then "t" else "f")
  | .chr c => match putChar w c with
    | none => .error .panic
    | some (w', b) => .ok (w', d, if b then "t" else "f")
  | .glyph h gw fb => match putCell w ⟨w.face, .glyph h gw fb⟩ with
    | none => .error .panic
    | some (w', b) => .ok (w', d, if b then "t" else "f")
  | .image ph pw => match putCell w ⟨Face.dflt, .image ph pw⟩ with
    | none => .error .panic
    | some (w', b) => .ok (w', d, if b then "t" else "f")
  | .text cells => match putCells w cells with
    | none => .error .panic
    | some w' => .ok (w', d, "-")
  | .fmt face bytes =>
    let old := w.face
    let w1 := match face with | some f => { w with face := f } | none => w
    match SurfModel.TextLayout.write utf8Auto putChar w1 (uinit utf8Auto) bytes with
    | .error e => .error e
    | .ok (w2, _, _) => .ok (match face with | some _ => { w2 with face := old } | none => w2, d, "-")
  | .write bytes => match SurfModel.TextLayout.write utf8Auto putChar w d bytes with
    | .error e => .error e
    | .ok (w', d', ok) => .ok (w', d', if ok then "ok" else "err")
  | .utf8 bytes => match SurfModel.TextLayout.write utf8Auto putChar w (uinit utf8Auto) bytes with
    | .error e => .error e
    | .ok (w', _, ok) => .ok (w', d, if ok then "ok" else "err")
  | .tty bytes => match ttyWrite A.toAuto (ttyInterp A) w (init A.toAuto) bytes with
    | .error e => .error e
    | .ok (w', _) => .ok (w', d, "ok")
  | .setFace f => .ok ({ w with face := f }, d, "-")
  | .setWraps b => .ok ({ w with wraps := b }, d, "-")
  | .setCursor r c => .ok (w.setCursor r c, d, "-")

def runScript (A : TAuto Nat) : Writer → USt Nat → List SOp → List String → Except Fault (Writer × List String)
  | w, _, [], acc => .ok (w, acc.reverse)
  | w, d, op :: ops, acc =>
    match runOp A w d op with
    | .error e => .error e
    | .ok (w', d', r) => runScript A w' d' ops (s!"{r}{w'.st.row}.{w'.st.col}" :: acc)

/-- ops are separated by `|`: `P<cell>`, `C<code>`, `G<h>x<w>[:code…]`, `I<ph>x<pw>`, `X<cell>;<cell>…` (`X-` empty),
`M<face|->;<hex>`, `W<hex>`, `U<hex>`, `T<hex>`, `F<face>`, `R<0|1>`, `S<r>,<c>` -/
def parseSOp (s : String) : Option SOp :=
  match s.toList with
  | 'P' :: r => (parseCell (String.ofList r)).map SOp.put
  | 'C' :: r => (String.ofList r).toNat?.map SOp.chr
  | 'G' :: r => match parseKind (String.ofList ('g' :: r)) with
    | some (.glyph h w fb) => some (.glyph h w fb)
    | _ => none
  | 'I' :: r => (parseDims (String.ofList r)).map fun d => SOp.image d.1 d.2
  | 'X' :: r =>
    let body := String.ofList r
    if body == "-" then some (.text []) else ((body.splitOn ";").mapM parseCell).map SOp.text
  | 'M' :: r => match (String.ofList r).splitOn ";" with
    | [f, hx] => do
      let bytes ← SurfModel.Proto.unhex hx
      if f == "-" then pure (.fmt none bytes) else pure (.fmt (some (← parseFace f)) bytes)
    | _ => none
  | 'W' :: r => (SurfModel.Proto.unhex (String.ofList r)).map SOp.write
  | 'U' :: r => (SurfModel.Proto.unhex (String.ofList r)).map SOp.utf8
  | 'T' :: r => (SurfModel.Proto.unhex (String.ofList r)).map SOp.tty
  | 'F' :: r => (parseFace (String.ofList r)).map SOp.setFace
  | 'R' :: r => some (.setWraps (String.ofList r == "1"))
  | 'S' :: r => (parsePos (String.ofList r)).map fun p => SOp.setCursor p.1 p.2
  | _ => none

/-- requests (after `c09`) that need the installed table:
* `table command <n> <rows>` — install the dumped command automaton; answers `ok <n>`
* `ttys <H> <W> <chain> <ctx> <wraps> <wface> <widths> <chunks>` — `tty_writer()` fed the chunks
* `script <H> <W> <chain> <ctx> <wraps> <wface> <widths> <ops>` — a sequence of calls on one writer -/
def handle (rows : Option (Array Wire.Row)) : List String → Option (Array Wire.Row) × String
  | ["table", "command", _, table] =>
    match (table.splitOn ";").mapM Wire.parseRow with
    | none => (rows, "bad-table")
    | some rs => (some rs.toArray, s!"ok {rs.length}")
  | ["ttys", h, w, chain, ctx, wraps, wface, widths, chunks] =>
    match rows, h.toNat?, w.toNat?, parseChain chain, parseCtx ctx widths, parseFace wface, parseChunksHex chunks with
    | some rs, some h, some w, some ops, some ctx, some face, some chunks =>
      let A := rowsAuto rs
      match ttySession A.toAuto (ttyInterp A) (mkWriter ctx h w ops (wraps == "1") face (0, 0)) (init A.toAuto) chunks with
      | .error e => (rows, showFault e)
      | .ok (wr, _) => (rows, s!"{",".intercalate (chunks.map fun _ => "ok")} {showEnd wr}")
    | _, _, _, _, _, _, _ => (rows, "bad-op")
  | ["script", h, w, chain, ctx, wraps, wface, widths, ops] =>
    match rows, h.toNat?, w.toNat?, parseChain chain, parseCtx ctx widths, parseFace wface, (ops.splitOn "|").mapM parseSOp with
    | some rs, some h, some w, some chn, some ctx, some face, some sops =>
      match runScript (rowsAuto rs) (mkWriter ctx h w chn (wraps == "1") face (0, 0)) (uinit utf8Auto) sops [] with
      | .error e => (rows, showFault e)
      | .ok (wr, tr) => (rows, s!"{joinS tr} {showEnd wr}")
    | _, _, _, _, _, _, _ => (rows, "bad-op")
  | _ => (rows, "bad-op")

end SurfModel.TextTty
