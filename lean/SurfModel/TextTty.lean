import SurfModel.TextLayout
import SurfModel.Decoders
/-!
# C09 — `tty_writer()` as a whole: tokenizer (C03) ∘ `TTYCommandDecoder` payload decoding (C02/C06) ∘
`TTYCellWriter::write` (`SurfModel.TextLayout.ttySession`)

The driver installs the command automaton dumped from the implementation (`c09 table command …`, the table
format of C02/C15) and runs `ttySession` over it on the chunked bytes (`c09 ttys …`), so the model of the whole
byte path of `tty_writer()` is tied to the code by correspondence.
-/
namespace SurfModel.TextTty
open SurfModel.Tokenizer SurfModel.Sgr SurfModel.Stream SurfModel.Decoders SurfModel.TextLayout SurfModel.Shape
  SurfModel.Automata

def b2n (b : Bool) : Nat := if b then 1 else 0

/-- `RGBA` as the number `r g b a` (big endian), the colour numbers of `SurfModel.TextLayout.Face` -/
def packColor (c : Rgba) : Nat := ((c.r * 256 + c.g) * 256 + c.b) * 256 + c.a
def unpackColor (n : Nat) : Rgba := ⟨n / 16777216, n / 65536 % 256, n / 256 % 256, n % 256⟩

/-- the writer's `Face` from the unpacked face of the SGR model: the `FaceAttrs` word has the underline style
in the low three bits, then bold, italic, blink, reverse, strike -/
def packFace (d : DFace) : Face :=
  ⟨d.fg.map packColor, d.bg.map packColor,
   d.under + 8 * (b2n d.bold + 2 * b2n d.italic + 4 * b2n d.blink + 8 * b2n d.reverse + 16 * b2n d.strike)⟩

def unpackFace (f : Face) : DFace :=
  { fg := f.fg.map unpackColor, bg := f.bg.map unpackColor, under := f.attrs % 8,
    bold := f.attrs / 8 % 2 == 1, italic := f.attrs / 16 % 2 == 1, blink := f.attrs / 32 % 2 == 1,
    reverse := f.attrs / 64 % 2 == 1, strike := f.attrs / 128 % 2 == 1 }

/-- the `match cmd` of `TTYCellWriter::write` on what `TTYCommandDecoder::decode` returns -/
def cmdOfEvent : Except Stop SurfModel.Payload.Event → SurfModel.TextLayout.Cmd
  | .ok (SurfModel.Payload.Event.char c) => SurfModel.TextLayout.Cmd.char c
  | .ok (SurfModel.Payload.Event.command m) =>
    SurfModel.TextLayout.Cmd.face fun f => packFace (SurfModel.Sgr.apply m (unpackFace f))
  | _ => SurfModel.TextLayout.Cmd.other

/-- the payload decoder of `tty_writer()` -/
def ttyInterp {σ : Type} (A : TAuto σ) (it : Item σ) : SurfModel.TextLayout.Cmd := cmdOfEvent (commandOfItem A it)

/-- requests (after `c09`) that need the installed table:
* `table command <n> <rows>` — install the dumped command automaton; answers `ok <n>`
* `ttys <H> <W> <chain> <ctx> <wraps> <wface> <widths> <chunks>` — `tty_writer()` fed the chunks -/
def handle (rows : Option (Array Wire.Row)) : List String → Option (Array Wire.Row) × String
  | ["table", "command", _, table] =>
    match (table.splitOn ";").mapM Wire.parseRow with
    | none => (rows, "bad-table")
    | some rs => (some rs.toArray, s!"ok {rs.length}")
  | ["ttys", h, w, chain, ctx, wraps, wface, widths, chunks] =>
    match rows, h.toNat?, w.toNat?, parseChain chain, parseCtx ctx widths, parseFace wface, parseChunksHex chunks with
    | some rs, some h, some w, some ops, some ctx, some face, some chunks =>
      let A := rowsAuto rs
      match ttySession A.toAuto (ttyInterp A) (mkWriter ctx h w ops (wraps == "1") face (0, 0)) (init A.toAuto) chunks with
      | .error e => (rows, showFault e)
      | .ok (wr, _) => (rows, s!"{",".intercalate (chunks.map fun _ => "ok")} {showEnd wr}")
    | _, _, _, _, _, _, _ => (rows, "bad-op")
  | _ => (rows, "bad-op")

end SurfModel.TextTty
