import SurfModel.Proto
import SurfModel.Slice
/-!
# C07 — model of `Shape`, the `Surface`/`SurfaceMut` accessors and their iterators (src/surface.rs)

A surface is `(Shape, data : List α)`: `data` is the whole backing slice of the root (`Surface::data`),
the shape says which cells of it belong to the view.  Every accessor returns, next to its result, the
offsets into `data` it touched (ghost output; on the Rust side these are the addresses handed out).
Indexing `data[offset]` panics in Rust when out of range: these are explicit `none` outcomes here
(`Option` around the whole result), `slice::get` is an ordinary `Option` result.

Integers: every value computed from in-window positions is bounded by `data.length` (an allocated slice)
and is an unbounded `Nat` here.  Caller-supplied values are different: `n` of `Iterator::nth` and the
position passed to `insert` can be anything up to `usize::MAX`.  The iterator index is a `usize` that is
advanced with `saturating_add` (`satAdd`, 64-bit `usize`), and the index computation of `insert`
(`pos.row * width + pos.col`) is checked arithmetic: overflow is the explicit outcome `none` (the debug
profile panics; the release profile wraps — see `checks/C07.json`).  `get`/`get_mut`/`set` only compare the
caller's position with the extents.  The three `usize` subtractions in `Shape::view` cannot underflow
because `view_bounds` returns `start < end` (`SurfProofs.C07.C07_view_no_underflow`).

The second half of the file is the *specification*: plain matrices `List (List α)`, Python slicing of
a list, matrix transposition.  It does not mention strides or offsets.
-/
namespace SurfModel.Shape
open SurfModel.Slice

/-- `pub struct Shape` -/
structure Shape where
  start : Nat
  end_ : Nat
  width : Nat
  height : Nat
  row_stride : Nat
  col_stride : Nat
  deriving Repr, DecidableEq

/-- `Shape::offset` -/
def Shape.offset (s : Shape) (row col : Nat) : Nat :=
  s.start + row * s.row_stride + col * s.col_stride

/-- `Shape::index` -/
def Shape.index (s : Shape) (row col : Nat) : Nat := row * s.width + col

/-- `Shape::nth` -/
def Shape.nth (s : Shape) (n : Nat) : Option (Nat × Nat) :=
  if s.width == 0 then none else
  let row := n / s.width
  let col := n - row * s.width
  if row < s.height then some (row, col) else none

/-- `impl From<Size> for Shape` -/
def Shape.from (height width : Nat) : Shape :=
  { start := 0, end_ := height * width, width := width, height := height, row_stride := width, col_stride := 1 }

/-- `Shape::view` -/
def Shape.view (s : Shape) (rows cols : Sel) : Shape :=
  match viewBounds cols s.width, viewBounds rows s.height with
  | some (col_start, col_end), some (row_start, row_end) =>
    let width := col_end - col_start
    let height := row_end - row_start
    let start := s.offset row_start col_start
    let end_ := s.offset (row_end - 1) col_end
    { s with width := width, height := height, start := start, end_ := end_ }
  | _, _ => { height := 0, width := 0, row_stride := 0, col_stride := 0, start := 0, end_ := 0 }

/-- the shape computed by `Surface::transpose` -/
def Shape.transpose (s : Shape) : Shape :=
  { s with width := s.height, height := s.width, col_stride := s.row_stride, row_stride := s.col_stride }

/-- `Surface::is_empty` -/
def Shape.isEmpty (s : Shape) : Bool := s.start ≥ s.end_

/-- one step of a chain: `view`/`view_mut`/`view_owned` (all three only call `Shape::view`) or `transpose` -/
inductive Op where
  | view (rows cols : Sel)
  | transpose
  deriving Repr, DecidableEq

def Shape.apply (s : Shape) : Op → Shape
  | .view rows cols => s.view rows cols
  | .transpose => s.transpose

def Shape.chain (ops : List Op) (s : Shape) : Shape := ops.foldl Shape.apply s

/-! ## accessors; results carry the offset (address) of every item handed out -/

/-- `Surface::get` / `SurfaceMut::get_mut`: offset of the reference and the value behind it -/
def get (sh : Shape) (data : List α) (row col : Nat) : Option (Nat × α) :=
  if row ≥ sh.height || col ≥ sh.width then none
  else
    let off := sh.offset row col
    match data[off]? with
    | some x => some (off, x)
    | none => none

/-- `SurfaceMut::get_mut` (same statements as `get`, on `data_mut()`) -/
def getMut (sh : Shape) (data : List α) (row col : Nat) : Option (Nat × α) :=
  if row ≥ sh.height || col ≥ sh.width then none
  else
    let off := sh.offset row col
    match data[off]? with
    | some x => some (off, x)
    | none => none

/-- `usize::MAX` (64-bit) -/
def usizeMax : Nat := 2 ^ 64 - 1

/-- `usize::saturating_add` -/
def satAdd (a b : Nat) : Nat := if a + b > usizeMax then usizeMax else a + b

/-- `SurfaceIter::nth`: new `index`, yielded (offset, item) -/
def iterNth (sh : Shape) (data : List α) (index n : Nat) : Nat × Option (Nat × α) :=
  let index := satAdd (satAdd index n) 1
  match sh.nth (index - 1) with
  | none => (index, none)
  | some (row, col) =>
    let off := sh.offset row col
    match data[off]? with
    | some x => (index, some (off, x))
    | none => (index, none)

/-- `SurfaceMutIter::nth`: new `index`, offset of the `&mut` produced by the `unsafe` block -/
def iterMutNth (sh : Shape) (len : Nat) (index n : Nat) : Nat × Option Nat :=
  let index := satAdd (satAdd index n) 1
  match sh.nth (index - 1) with
  | none => (index, none)
  | some (row, col) =>
    let offset := sh.offset row col
    if offset ≥ len then (index, none) else (index, some offset)

/-- `for x in surface.iter()`: `next()` until `None`; `none` = fuel exhausted (excluded by `C07_iter`) -/
def iterGo (sh : Shape) (data : List α) : Nat → Nat → Option (List (Nat × α))
  | 0, _ => none
  | fuel + 1, index =>
    match iterNth sh data index 0 with
    | (_, none) => some []
    | (index', some x) => (iterGo sh data fuel index').map (x :: ·)

def iter (sh : Shape) (data : List α) : Option (List (Nat × α)) :=
  iterGo sh data (sh.height * sh.width + 1) 0

def iterMutGo (sh : Shape) (len : Nat) : Nat → Nat → Option (List Nat)
  | 0, _ => none
  | fuel + 1, index =>
    match iterMutNth sh len index 0 with
    | (_, none) => some []
    | (index', some off) => (iterMutGo sh len fuel index').map (off :: ·)

def iterMut (sh : Shape) (len : Nat) : Option (List Nat) :=
  iterMutGo sh len (sh.height * sh.width + 1) 0

/-- `SurfaceIter::position` / `SurfaceMutIter::position`: position of the element yielded next -/
def iterPosition (sh : Shape) (index : Nat) : Nat × Nat :=
  match sh.nth index with
  | some p => p
  | none => (sh.height, 0)

/-- `SurfacePosIter::next` (`iter().with_position()`): the position is read BEFORE the inner iterator advances -/
def posIterNext (sh : Shape) (data : List α) (index : Nat) : Nat × Option ((Nat × Nat) × (Nat × α)) :=
  let pos := iterPosition sh index
  match iterNth sh data index 0 with
  | (index', none) => (index', none)
  | (index', some x) => (index', some (pos, x))

/-- `SurfacePosMutIter::next` (`iter_mut().with_position()`) -/
def posIterMutNext (sh : Shape) (len : Nat) (index : Nat) : Nat × Option ((Nat × Nat) × Nat) :=
  let pos := iterPosition sh index
  match iterMutNth sh len index 0 with
  | (index', none) => (index', none)
  | (index', some off) => (index', some (pos, off))

/-- the position iterators do not override `nth`: `Iterator::nth` of std = `next` until the first `None`,
`n` times, then `next` (this is also what `skip` and `step_by` call) -/
def posIterNth (sh : Shape) (data : List α) : Nat → Nat → Nat × Option ((Nat × Nat) × (Nat × α))
  | 0, index => posIterNext sh data index
  | n + 1, index =>
    match posIterNext sh data index with
    | (index', none) => (index', none)
    | (index', some _) => posIterNth sh data n index'

def posIterMutNth (sh : Shape) (len : Nat) : Nat → Nat → Nat × Option ((Nat × Nat) × Nat)
  | 0, index => posIterMutNext sh len index
  | n + 1, index =>
    match posIterMutNext sh len index with
    | (index', none) => (index', none)
    | (index', some _) => posIterMutNth sh len n index'

def posIterNthSeq (sh : Shape) (data : List α) : List Nat → Nat → List (Option ((Nat × Nat) × (Nat × α)))
  | [], _ => []
  | k :: ks, index =>
    let (index', r) := posIterNth sh data k index
    r :: posIterNthSeq sh data ks index'

def posIterMutNthSeq (sh : Shape) (len : Nat) : List Nat → Nat → List (Option ((Nat × Nat) × Nat))
  | [], _ => []
  | k :: ks, index =>
    let (index', r) := posIterMutNth sh len k index
    r :: posIterMutNthSeq sh len ks index'

/-- a sequence of `it.nth(k)` calls on one iterator -/
def iterNthSeq (sh : Shape) (data : List α) : List Nat → Nat → List (Option (Nat × α))
  | [], _ => []
  | k :: ks, index =>
    let (index', r) := iterNth sh data index k
    r :: iterNthSeq sh data ks index'

def iterMutNthSeq (sh : Shape) (len : Nat) : List Nat → Nat → List (Option Nat)
  | [], _ => []
  | k :: ks, index =>
    let (index', r) := iterMutNth sh len index k
    r :: iterMutNthSeq sh len ks index'

/-- `for i in l { s = f(i, s) }` where the body may panic -/
def forIn? (l : List ι) (f : ι → σ → Option σ) (s : σ) : Option σ :=
  match l with
  | [] => some s
  | i :: rest =>
    match f i s with
    | none => none
    | some s' => forIn? rest f s'

/-- state of a mutating loop: the data and the offsets written so far -/
structure MutSt (α : Type) where
  data : List α
  touched : List Nat

/-- `data[off] = x` (index panic = `none`) -/
def MutSt.write (st : MutSt α) (off : Nat) (x : α) : Option (MutSt α) :=
  if off < st.data.length then some { data := st.data.set off x, touched := st.touched ++ [off] } else none

/-- `SurfaceMut::fill` -/
def fill (sh : Shape) (data : List α) (item : α) : Option (MutSt α) :=
  forIn? (List.range sh.height) (fun row st =>
    forIn? (List.range sh.width) (fun col st =>
      st.write (sh.offset row col) item) st) { data := data, touched := [] }

/-- `SurfaceMut::clear` (`dflt` = `Default::default()`) -/
def clear (sh : Shape) (data : List α) (dflt : α) : Option (MutSt α) :=
  forIn? (List.range sh.height) (fun row st =>
    forIn? (List.range sh.width) (fun col st =>
      st.write (sh.offset row col) dflt) st) { data := data, touched := [] }

/-- body of the loops of `SurfaceMut::fill_with`; state is `(data, touched, tmp)`, the two `mem::replace`
are spelled out -/
def fillWithStep (sh : Shape) (f : Nat → Nat → α → α) (row col : Nat) (s : MutSt α × α) : Option (MutSt α × α) :=
  let offset := sh.offset row col
  let (st, tmp) := s
  -- let item = replace(&mut data[offset], tmp)
  match st.data[offset]? with
  | none => none
  | some item =>
    let d1 := st.data.set offset tmp
    -- tmp = replace(&mut data[offset], fill(pos, item))
    match d1[offset]? with
    | none => none
    | some tmp' =>
      some ({ data := d1.set offset (f row col item), touched := st.touched ++ [offset] }, tmp')

/-- `SurfaceMut::fill_with` (`dflt` = `Default::default()`, the initial `tmp`) -/
def fillWith (sh : Shape) (data : List α) (dflt : α) (f : Nat → Nat → α → α) : Option (MutSt α) :=
  (forIn? (List.range sh.height) (fun row (st : MutSt α × α) =>
    forIn? (List.range sh.width) (fun col (st : MutSt α × α) => fillWithStep sh f row col st) st)
    ({ data := data, touched := [] }, dflt)).map (·.1)

/-- the `zip` loop of `SurfaceMut::insert` -/
def insertGo (sh : Shape) : List α → Nat → MutSt α → MutSt α
  | [], _, st => st
  | src :: rest, index, st =>
    match iterMutNth sh st.data.length index 0 with
    | (_, none) => st
    | (index', some off) => insertGo sh rest index' { data := st.data.set off src, touched := st.touched ++ [off] }

/-- `SurfaceMut::insert`; `none` = the index computation `pos.row * width + pos.col` overflows `usize`
(panic in the debug profile) -/
def insert (sh : Shape) (data : List α) (row col : Nat) (items : List α) : Option (MutSt α) :=
  if row * sh.width > usizeMax then none else
  if row * sh.width + col > usizeMax then none else
  let index := row * sh.width + col
  let it := if index > 0 then (iterMutNth sh data.length 0 (index - 1)).1 else 0
  some (insertGo sh items it { data := data, touched := [] })

/-- `SurfaceMut::set`: `none` = one of the two `assert!`s (or the slice index) panics; otherwise the new
data, the offset written and the old value that is returned -/
def set (sh : Shape) (data : List α) (row col : Nat) (item : α) : Option (MutSt α × α) :=
  if ¬ row < sh.height then none else
  if ¬ col < sh.width then none else
  let off := sh.offset row col
  match data[off]? with
  | none => none
  | some old => some ({ data := data.set off item, touched := [off] }, old)

/-- `Surface::map` (`SurfaceOwned::new_with` pushes row-major); result data and the offsets read -/
def map (sh : Shape) (data : List α) (f : Nat → Nat → α → β) : Option (List β × List Nat) :=
  forIn? (List.range sh.height) (fun row st =>
    forIn? (List.range sh.width) (fun col (st : List β × List Nat) =>
      let off := sh.offset row col
      match data[off]? with
      | none => none
      | some x => some (st.1 ++ [f row col x], st.2 ++ [off])) st) ([], [])

/-! ## Specification: windows of plain matrices -/

/-- Python `l[sel]` for a list (`sel` a slice, or a single index kept as a length-one axis) -/
def pyTake (sel : Sel) (l : List β) : List β :=
  match pySlice sel l.length with
  | none => []
  | some (s, e) => (l.drop s).take (e - s)

/-- sub-matrix `[row[cols] for row in M[rows]]` -/
def msub (rows cols : Sel) (M : List (List α)) : List (List α) := (pyTake rows M).map (pyTake cols)

/-- number of columns of a matrix given by its rows -/
def mwidth : List (List α) → Nat
  | [] => 0
  | row :: _ => row.length

/-- column `c` of a matrix -/
def mcol (M : List (List α)) (c : Nat) : List α := M.filterMap (·[c]?)

/-- matrix transpose: row `c` of the result is column `c` of `M` -/
def mtranspose (M : List (List α)) : List (List α) := (List.range (mwidth M)).map (mcol M)

def specOp (M : List (List α)) : Op → List (List α)
  | .view rows cols => msub rows cols M
  | .transpose => mtranspose M

def specChain (ops : List Op) (M : List (List α)) : List (List α) := ops.foldl specOp M

/-- the `h × w` matrix stored row-major in `data` -/
def reshape (h w : Nat) (data : List α) : List (List α) :=
  (List.range h).map fun r => (data.drop (r * w)).take w

/-- entry `(r, c)` of a matrix, if there is one -/
def cellAt (M : List (List α)) (r c : Nat) : Option α := (M[r]?).bind (·[c]?)

/-! ## line protocol

`c07 <op> <h> <w> <extra> <chain> <args…>`; the root is `SurfaceOwned::from_vec`-like: `h * w + extra` cells,
`data[i] = i + 1`.
chain: `-` or steps separated by `/`; a step is `T` or `V;<rowsel>;<colsel>`; a selector is
`idxS:i`, `idxU:i`, `range:a:b`, `from:a`, `to:b`, `incl:a:b`, `toIncl:b`, `full`. -/

def parseSelTok (s : String) : Option Sel :=
  match s.splitOn ":" with
  | ["idxS", i] => do pure (.idxS (← i.toInt?))
  | ["idxU", i] => do pure (.idxU (← i.toNat?))
  | ["range", a, b] => do pure (.range (← a.toInt?) (← b.toInt?))
  | ["from", a] => do pure (.from (← a.toInt?))
  | ["to", b] => do pure (.to (← b.toInt?))
  | ["incl", a, b] => do pure (.incl (← a.toInt?) (← b.toInt?))
  | ["toIncl", b] => do pure (.toIncl (← b.toInt?))
  | ["full"] => some .full
  | _ => none

def parseOp (s : String) : Option Op :=
  match s.splitOn ";" with
  | ["T"] => some .transpose
  | ["V", r, c] => do pure (.view (← parseSelTok r) (← parseSelTok c))
  | _ => none

def parseChain (s : String) : Option (List Op) :=
  if s == "-" then some [] else (s.splitOn "/").mapM parseOp

def joinC (l : List String) : String := if l.isEmpty then "-" else ",".intercalate l

def showCell : Option (Nat × Nat) → String
  | none => "x"
  | some (off, v) => s!"{off}:{v}"

def showOff : Option Nat → String
  | none => "x"
  | some off => toString off

def rootData (h w extra : Nat) : List Nat := (List.range (h * w + extra)).map (· + 1)

/-- test function used for `fill_with` and `map` on both sides -/
def tf (r c x : Nat) : Nat := 1000 + x * 100 + r * 10 + c

/-- canvas after a mutator; the write order is printed where the Rust side can observe it (`fill_with`) -/
def showMut (withTouched : Bool) : Option (MutSt Nat) → String
  | none => "panic"
  | some st =>
    if withTouched then s!"{joinC (st.data.map toString)} {joinC (st.touched.map toString)}"
    else joinC (st.data.map toString)

def showRows (M : List (List Nat)) : String :=
  let rows := M.filter (fun r => !r.isEmpty)
  if rows.isEmpty then "-" else ";".intercalate (rows.map fun r => ",".intercalate (r.map toString))

/-- flattened `row,col` pairs -/
def natPairs : List Nat → List (Nat × Nat)
  | r :: c :: rest => (r, c) :: natPairs rest
  | _ => []

def sortNat (l : List Nat) : List Nat := (l.toArray.qsort (· < ·)).toList

def run (op : String) (h w extra : Nat) (ops : List Op) (args : List String) : String :=
  let sh := Shape.chain ops (Shape.from h w)
  let data := rootData h w extra
  match op, args with
  | "grid", [] =>
    let cells := (List.range (sh.height + 2)).flatMap fun r =>
      (List.range (sh.width + 2)).map fun c => showCell (get sh data r c)
    -- the extents of a window without cells are not part of the observable behaviour that is compared
    if sh.height * sh.width == 0 then s!"empty {if sh.isEmpty then 1 else 0}"
    else s!"{sh.height} {sh.width} {if sh.isEmpty then 1 else 0} {joinC cells}"
  | "probe", [ps] =>
    -- `get` at caller-chosen (far away) positions: flattened `row,col` pairs
    match Proto.natList? ps with
    | none => "bad-op"
    | some l =>
      joinC ((natPairs l).map fun p => showCell (get sh data p.1 p.2))
  | "probemut", [ps] =>
    match Proto.natList? ps with
    | none => "bad-op"
    | some l =>
      joinC ((natPairs l).map fun p => showCell (getMut sh data p.1 p.2))
  | "gridmut", [] =>
    let cells := (List.range (sh.height + 2)).flatMap fun r =>
      (List.range (sh.width + 2)).map fun c => showCell (getMut sh data r c)
    if sh.height * sh.width == 0 then "empty" else joinC cells
  | "set", [r, c, v] =>
    match r.toNat?, c.toNat?, v.toNat? with
    | some r, some c, some v =>
      match set sh data r c v with
      | none => "panic"
      | some (st, old) => s!"{joinC (st.data.map toString)} {old}"
    | _, _, _ => "bad-op"
  | "iter", [] =>
    match iter sh data with
    | none => "fuel"
    | some l => joinC (l.map fun x => showCell (some x))
  | "itermut", [] =>
    match iterMut sh data.length with
    | none => "fuel"
    | some l => joinC (l.map toString)
  | "nth", [ks] =>
    match Proto.natList? ks with
    | none => "bad-op"
    | some ks => joinC ((iterNthSeq sh data ks 0).map showCell)
  | "nthmut", [ks] =>
    match Proto.natList? ks with
    | none => "bad-op"
    | some ks => joinC ((iterMutNthSeq sh data.length ks 0).map showOff)
  | "posnth", [ks] =>
    -- skips are small here: `n` is executed as `n` calls of `next`
    match Proto.natList? ks with
    | none => "bad-op"
    | some ks => joinC ((posIterNthSeq sh data ks 0).map fun
        | none => "x"
        | some ((r, c), (off, v)) => s!"{r}.{c}:{off}:{v}")
  | "posnthmut", [ks] =>
    match Proto.natList? ks with
    | none => "bad-op"
    | some ks => joinC ((posIterMutNthSeq sh data.length ks 0).map fun
        | none => "x"
        | some ((r, c), off) => s!"{r}.{c}:{off}")
  | "fill", [v] =>
    match v.toNat? with
    | none => "bad-op"
    | some v => showMut false (fill sh data v)
  | "clear", [] => showMut false (clear sh data 0)
  | "fillwith", [] =>
    -- the order of the calls is not compared (the property fixes it for iteration only)
    showMut true ((fillWith sh data 0 tf).map fun st => { st with touched := sortNat st.touched })
  | "insert", [r, c, items] =>
    match r.toNat?, c.toNat?, Proto.natList? items with
    | some r, some c, some items => showMut false (insert sh data r c items)
    | _, _, _ => "bad-op"
  | "map", [] =>
    match map sh data tf with
    | none => "panic"
    | some (d, offs) => s!"{joinC (d.map toString)} {joinC ((sortNat offs).map toString)}"
  | "spec", [] => showRows (specChain ops (reshape h w data))
  | _, _ => "bad-op"

def handle : List String → String
  | op :: h :: w :: extra :: chain :: args =>
    match h.toNat?, w.toNat?, extra.toNat?, parseChain chain with
    | some h, some w, some extra, some ops => run op h w extra ops args
    | _, _, _, _ => "bad-op"
  | _ => "bad-op"

end SurfModel.Shape
