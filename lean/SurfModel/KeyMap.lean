import SurfModel.Proto
import SurfModel.KeyParse
/-!
# Model of `KeyMap<V>` and the stateful matcher (`src/keys.rs`)

`KeyMap<V> { mapping: BTreeMap<Key, Result<V, KeyMap<V>>> }` is a trie.  The model keeps every `BTreeMap` as an
association list **sorted by key** (iteration order is observable through `for_each`), written as one plain
inductive type: a map is `nil`, or an entry `key ↦ Ok(v)` (`val`) / `key ↦ Err(submap)` (`sub`) followed by the
rest of the entries.  (This is the nested type `List (Key × (V ⊕ Map))` with the list constructors inlined, which
gives structural recursion and induction over the whole trie.)

Keys are natural numbers here: the order-preserving injective code `SurfModel.KeyParse.Key.code` of a `Key`
(derived `Ord`); the line protocol at the end converts.
-/
namespace SurfModel.KeyMap

inductive Map (V : Type) where
  | nil : Map V
  /-- `k ↦ Ok(v)` then the remaining entries -/
  | val (k : Nat) (v : V) (rest : Map V) : Map V
  /-- `k ↦ Err(m)` then the remaining entries -/
  | sub (k : Nat) (m : Map V) (rest : Map V) : Map V

/-- a `BTreeMap` value: `Result<V, KeyMap<V>>` -/
inductive Entry (V : Type) where
  | val (v : V)
  | sub (m : Map V)

variable {V : Type}

def Map.cons (k : Nat) (e : Entry V) (rest : Map V) : Map V :=
  match e with
  | .val v => .val k v rest
  | .sub m => .sub k m rest

/-- `BTreeMap::get` -/
def getE : Map V → Nat → Option (Entry V)
  | .nil, _ => none
  | .val k' v r, k => if k' = k then some (.val v) else getE r k
  | .sub k' m r, k => if k' = k then some (.sub m) else getE r k

/-- `BTreeMap::insert`: replaces the entry of an equal key, otherwise inserts at the sorted position -/
def ins : Map V → Nat → Entry V → Map V
  | .nil, k, e => Map.cons k e .nil
  | .val k' v' r, k, e =>
    if k < k' then Map.cons k e (.val k' v' r)
    else if k = k' then Map.cons k e r
    else .val k' v' (ins r k e)
  | .sub k' m' r, k, e =>
    if k < k' then Map.cons k e (.sub k' m' r)
    else if k = k' then Map.cons k e r
    else .sub k' m' (ins r k e)

/-- one step of `register_rec`: the sub-map under `k` after `entry(k).and_modify(Ok → Err(new)).or_insert(Err(new))` -/
def childOf (m : Map V) (k : Nat) : Map V :=
  match getE m k with
  | some (.sub m') => m'
  | _ => .nil

/-- `KeyMap::register`, new map.  `register_rec` walks all keys but the last: an `Ok` entry on the way is
    replaced by a fresh empty sub-map, a missing entry is created as an empty sub-map; then the value is
    `insert`ed at the last key, replacing whatever was there (value or whole sub-map).  The empty chord
    registers nothing. -/
def register : Map V → List Nat → V → Map V
  | m, [], _ => m
  | m, [k], v => ins m k (.val v)
  | m, k :: k2 :: ks, v => ins m k (.sub (register (childOf m k) (k2 :: ks) v))

/-- `KeyMap::register`, return value: what `insert` at the end of the path replaced -/
def registerPrev : Map V → List Nat → Option (Entry V)
  | _, [] => none
  | m, [k] => getE m k
  | m, k :: k2 :: ks =>
    match getE m k with
    | some (.sub m') => registerPrev m' (k2 :: ks)
    | _ => none

/-- `KeyMap::for_each`: `chord.push(key)`, call back or descend, `chord.pop()`; `pre` is the chord stack -/
def forEachRec (pre : List Nat) : Map V → List (List Nat × V)
  | .nil => []
  | .val k v r => (pre ++ [k], v) :: forEachRec pre r
  | .sub k m r => forEachRec (pre ++ [k]) m ++ forEachRec pre r

def forEach (m : Map V) : List (List Nat × V) := forEachRec [] m

/-- `KeyMap::register_override`: `other.for_each(|chord, value| self.register(chord, value.clone()))` -/
def registerOverride (m other : Map V) : Map V :=
  (forEach other).foldl (fun acc cv => register acc cv.1 cv.2) m

inductive Res (V : Type) where
  | success (v : V)
  | failure
  | continue_
  deriving DecidableEq, Repr

/-- `KeyMap::lookup`: the `try_fold` over the keys stops at a missing key (`Failure`) or at a value
    (`Success` if it was the last key, else `Failure`); running out of keys inside a sub-map is `Continue` -/
def lookup : Map V → List Nat → Res V
  | _, [] => .continue_
  | m, k :: ks =>
    match getE m k with
    | none => .failure
    | some (.val v) => if ks.isEmpty then .success v else .failure
    | some (.sub m') => lookup m' ks

/-- the `for _ in 0..2` loop of `lookup_state`; result = (chord left in the caller's vector, returned value) -/
def lookupStateLoop (m : Map V) (key : Nat) : Nat → List Nat → List Nat × Option V
  | 0, chord => (chord, none)
  | n + 1, chord =>
    match lookup m chord with
    | .continue_ => (chord, none)
    | .failure => lookupStateLoop m key n [key]
    | .success v => ([], some v)

/-- `KeyMap::lookup_state` (= `KeyMapHandler::handle` on its own state) -/
def lookupState (m : Map V) (chord : List Nat) (key : Nat) : List Nat × Option V :=
  lookupStateLoop m key 2 (chord ++ [key])

/-- feed keys one at a time; returns the final state and the value fired (or not) at each key -/
def feed (m : Map V) : List Nat → List Nat → List Nat × List (Option V)
  | st, [] => (st, [])
  | st, k :: ks =>
    let r := lookupState m st k
    let r' := feed m r.1 ks
    (r'.1, r.2 :: r'.2)

/-! ## `KeyMapHandler<O>`: the matcher that owns its table and its pending keys -/

/-- `struct KeyMapHandler { keymap, state }` -/
structure Handler (V : Type) where
  keymap : Map V
  state : List Nat

/-- `KeyMapHandler::new` -/
def Handler.new : Handler V := ⟨.nil, []⟩

/-- `KeyMapHandler::register`: registers on the table; the pending keys are left alone -/
def Handler.register (h : Handler V) (c : List Nat) (v : V) : Handler V :=
  { h with keymap := SurfModel.KeyMap.register h.keymap c v }

/-- `KeyMapHandler::clear`: `self.keymap.clear(); self.state.clear();` -/
def Handler.clear (_h : Handler V) : Handler V := ⟨.nil, []⟩

/-- `KeyMapHandler::handle`: `self.keymap.lookup_state(&mut self.state, key)` -/
def Handler.handle (h : Handler V) (k : Nat) : Handler V × Option V :=
  let r := lookupState h.keymap h.state k
  ({ h with state := r.1 }, r.2)

/-- feed keys to a handler one at a time -/
def Handler.feed : Handler V → List Nat → Handler V × List (Option V)
  | h, [] => (h, [])
  | h, k :: ks =>
    let r := h.handle k
    let r' := Handler.feed r.1 ks
    (r'.1, r.2 :: r'.2)

/-! ## line protocol

`c18 km <op> …` runs a script on two maps `A`, `B` (values are naturals) and a matcher state; one answer per op:

* `ra=<chord>=<v>` / `rb=…`  register on `A` / `B`; answer `r`
                             (`kmrep`: the returned previous entry: `-`, `v<old>`, `m(<enum>)`)
* `l=<chord>`                `A.lookup` → `S<v>` | `C` | `F`
* `e` / `eb`                 `for_each` of `A` / `B` → `[chord=v;chord=v…]`
* `o`                        `A.register_override(&B)`
* `k=<key>`                  `A.lookup_state(&mut state, key)` → `N` | `S<v>`
                             (`kmrep`: the key vector left in `state`)
* `s=<chord>`                set the matcher state
* `c`                        `A.clear()`
* `hr=<chord>=<v>`, `hc`, `hk=<key>`  `register`, `clear`, `handle` of a `KeyMapHandler` `H` (answers `r`, `c`, `N` | `S<v>`)

chords = keys (`Variant:payload:bits`) joined by `,`; `-` = empty chord.
`c18 kmrep <op> …` runs the same kind of script and prints only the representation answers, so that the check can
tell a change of behaviour (a `km` line differs) from a change of representation only (only `kmrep` lines differ). -/

open SurfModel.KeyParse in
def readChord (s : String) : Option (List Key) :=
  if s == "-" then some [] else (s.splitOn ",").mapM readKey

structure St where
  a : Map Nat := .nil
  b : Map Nat := .nil
  state : List Nat := []
  /-- a `KeyMapHandler` -/
  h : Handler Nat := Handler.new
  /-- wire form of every key code seen in the request (codes are injective) -/
  names : List (Nat × String) := []

open SurfModel.KeyParse in
def St.intern (st : St) (ks : List Key) : St × List Nat :=
  ({ st with names := ks.foldl (fun acc k =>
      if (acc.lookup k.code).isSome then acc else (k.code, showKey k) :: acc) st.names }, ks.map Key.code)

def St.showChord (st : St) (c : List Nat) : String :=
  if c.isEmpty then "-" else
  ",".intercalate (c.map fun k => match st.names.lookup k with | some s => s | none => s!"?{k}")

def St.showEnum (st : St) (l : List (List Nat × Nat)) : String :=
  ";".intercalate (l.map fun cv => s!"{st.showChord cv.1}={cv.2}")

def St.showPrev (st : St) : Option (Entry Nat) → String
  | none => "-"
  | some (.val v) => s!"v{v}"
  | some (.sub m) => s!"m({st.showEnum (forEach m)})"

def showRes : Res Nat → String
  | .success v => s!"S{v}"
  | .continue_ => "C"
  | .failure => "F"

/-- one op: new state, the answer as far as its *effect* goes (`km` lines), and — for registrations and matcher
    keys — the API-observable *representation* (`kmrep` lines): the previous entry `register` returned, the
    key vector `lookup_state` left behind -/
def step (st : St) (op : String) : St × String × Option String :=
  match op.splitOn "=" with
  | ["ra", c, v] =>
    match readChord c, v.toNat? with
    | some c, some v =>
      let (st, c) := st.intern c
      ({ st with a := register st.a c v }, "r", some (st.showPrev (registerPrev st.a c)))
    | _, _ => (st, "bad-op", none)
  | ["rb", c, v] =>
    match readChord c, v.toNat? with
    | some c, some v =>
      let (st, c) := st.intern c
      ({ st with b := register st.b c v }, "r", some (st.showPrev (registerPrev st.b c)))
    | _, _ => (st, "bad-op", none)
  | ["l", c] =>
    match readChord c with
    | some c => let (st, c) := st.intern c; (st, showRes (lookup st.a c), none)
    | none => (st, "bad-op", none)
  | ["e"] => (st, s!"[{st.showEnum (forEach st.a)}]", none)
  | ["eb"] => (st, s!"[{st.showEnum (forEach st.b)}]", none)
  | ["o"] => ({ st with a := registerOverride st.a st.b }, "o", none)
  | ["k", k] =>
    match readChord k with
    | some [k] =>
      let (st, c) := st.intern [k]
      match c with
      | [k] =>
        let r := lookupState st.a st.state k
        let st := { st with state := r.1 }
        (st, (match r.2 with | none => "N" | some v => s!"S{v}"), some (st.showChord r.1))
      | _ => (st, "bad-op", none)
    | _ => (st, "bad-op", none)
  | ["s", c] =>
    match readChord c with
    | some c => let (st, c) := st.intern c; ({ st with state := c }, "s", none)
    | none => (st, "bad-op", none)
  | ["c"] => ({ st with a := .nil }, "c", none)
  | ["hr", c, v] =>
    match readChord c, v.toNat? with
    | some c, some v => let (st, c) := st.intern c; ({ st with h := st.h.register c v }, "r", none)
    | _, _ => (st, "bad-op", none)
  | ["hc"] => ({ st with h := st.h.clear }, "c", none)
  | ["hk", k] =>
    match readChord k with
    | some [k] =>
      let (st, c) := st.intern [k]
      match c with
      | [k] =>
        let r := st.h.handle k
        ({ st with h := r.1 }, (match r.2 with | none => "N" | some v => s!"S{v}"), none)
      | _ => (st, "bad-op", none)
    | _ => (st, "bad-op", none)
  | _ => (st, "bad-op", none)

def runScript : St → List String → List String → List String → List String × List String
  | _, [], eff, rep => (eff.reverse, rep.reverse)
  | st, op :: ops, eff, rep =>
    let r := step st op
    runScript r.1 ops (r.2.1 :: eff) (match r.2.2 with | some x => x :: rep | none => rep)

def showOrd (a b : Nat) : String := if a < b then "lt" else if a = b then "eq" else "gt"

open SurfModel.KeyParse in
/-- `cmp <key> <key>`: `Ord::cmp` of two keys = comparison of their codes;
    `cmpn`: of their names only (variant position, then payload); `cmpm`: of their modifier sets only (the bits) -/
def handleCmp (which : String) (a b : String) : String :=
  match readKey a, readKey b with
  | some a, some b =>
    if which == "cmp" then showOrd a.code b.code
    else if which == "cmpn" then showOrd (a.name.rank * 2 ^ 64 + a.name.payload) (b.name.rank * 2 ^ 64 + b.name.payload)
    else showOrd a.mode b.mode
  | _, _ => "bad-op"

def handle : List String → String
  | "km" :: ops => " ".intercalate (runScript {} ops [] []).1
  | "kmrep" :: ops => " ".intercalate (runScript {} ops [] []).2
  | ["cmp", a, b] => handleCmp "cmp" a b
  | ["cmpn", a, b] => handleCmp "cmpn" a b
  | ["cmpm", a, b] => handleCmp "cmpm" a b
  | rest => SurfModel.KeyParse.handle rest

end SurfModel.KeyMap
