import SurfModel.Proto
import SurfModel.Serde
import SurfModel.ViewLayout
/-!
# Model of the glyph / text / view-tree deserialisers
(`src/view/mod.rs` `ViewDeserializer`, `src/view/text.rs` `TextDeserializer`, `src/view/flex.rs`
`Flex::from_json_value`, `src/view/container.rs` `from_json_value`, the visitors of `src/glyph.rs`)

The deserialisers produce a view tree of the C10 model (`SurfModel.ViewLayout.V`) directly: the dispatch on
`"type"`, every field access (`Value::get`, last occurrence of a repeated key: a `serde_json::Value` keeps the
last one), every typed sub-deserialiser (`usize`, `f64`, `i32`, `Size`, `Margins`, `Align`, `Axis`, `Justify`,
`Face`, `[Scalar; 4]`, `BBox`, `FillRule`), defaults, required members, the `finite && > 0` filter of flex
factors, and the image visitor of `SurfModel.Serde` for `image` / `image_ascii`.

Outcomes: a value, `invalid` (every `Err` of the code: serde errors and `ParseError`s are not told apart) and
`panic`.  The only arithmetic the deserialisers perform on numbers taken from the document is the image
visitor's (`checked_mul`, per-pixel offsets, `new_with`), whose overflow / index outcomes are explicit in
`SurfModel.Serde` and surface here as `panic`; all other document numbers are only *converted* (serde's checked
integer conversions: out of range is `invalid`) and stored.  Float arithmetic (`BBox::new`, `Glyph::new`) cannot
panic and is not represented.

Not modelled, entering as parameters (`Ext`): the text of the document → value step of `serde_json` (syntax,
recursion limit 128: the model starts at a parsed value `JV`), the buffer schedule of `read_to_end`, the colour
table and the float arithmetic of the `/alpha` suffix, `unicode-width`, and **rasterize**: whether an SVG path
string / a scene value is accepted (`pathOk`, `sceneOk`).  The assumption about rasterize is that these two
return `Ok` or `Err` (they are total functions here); rasterize 0.6.9 is known to violate it for an arc with
a zero radius (unbounded allocation) — outside the property, recorded in `checks/C19.json`.
The UTF-8 cell writer behind `put_fmt` hands every character of a (valid) string to `put_char` (C09).
The view cache of `ViewDeserializer` is `None` (as in the harness): `ref` gives the view that draws nothing.

Recursion: `deViewF` / `collectF` recurse on a fuel argument; `deView` / `deText` start them with
`j.size` (the number of nodes) which is proved sufficient (`SurfProofs/Lemmas/SerdeView.lean`: more fuel never changes the answer).
-/
namespace SurfModel.SerdeView
open SurfModel.Serde SurfModel.ViewLayout

/-- a JSON number as `serde_json` keeps it -/
inductive Num where
  | pos (n : Nat)                    -- `PosInt(u64)`
  | neg (i : Int)                    -- `NegInt(i64)`, `i < 0`
  | float (num : Int) (den : Nat)    -- `Float(f64)`: always finite, here as the exact rational `num / den`
  deriving Repr

/-- a parsed JSON value; objects keep their members in document order, repeated keys included -/
inductive JV where
  | null
  | bool (b : Bool)
  | num (n : Num)
  | str (s : List Char)
  | arr (items : List JV)
  | obj (members : List (List Char × JV))
  deriving Repr

mutual
/-- number of nodes of a value: the fuel of the recursive deserialisers -/
def JV.size : JV → Nat
  | .arr xs => 1 + sizeList xs
  | .obj ms => 1 + sizeMembers ms
  | _ => 1
def sizeList : List JV → Nat
  | [] => 0
  | x :: xs => x.size + sizeList xs + 1
def sizeMembers : List (List Char × JV) → Nat
  | [] => 0
  | m :: ms => m.2.size + sizeMembers ms + 1
end

inductive DErr where
  | invalid
  | panic
  deriving Repr, DecidableEq

abbrev R (α : Type) := Except DErr α

/-- `r?` followed by the rest of the function -/
def andThen (r : R α) (f : α → R β) : R β :=
  match r with
  | .ok x => f x
  | .error e => .error e

/-- what the model does not contain -/
structure Ext where
  sched : Nat → List Nat
  named : List Char → Option RGBA
  alpha : List Char → Option (UInt8 → UInt8)
  width : Char → Nat
  pathOk : List Char → Bool
  sceneOk : JV → Bool

/-! ## access -/

/-- `Map::get`: a `Value` object holds the last of repeated keys -/
def getKey : List (List Char × JV) → List Char → Option JV
  | [], _ => none
  | (k', v) :: r, k =>
    match getKey r k with
    | some x => some x
    | none => if k' = k then some v else none

/-- `Value::get(key)` -/
def JV.get : JV → List Char → Option JV
  | .obj ms, k => getKey ms k
  | _, _ => none

/-- the members a `Value` object holds: for every key its last value (first-occurrence order) -/
def dedup : List (List Char × JV) → List (List Char × JV)
  | [] => []
  | (k, v) :: r =>
    if (getKey r k).isSome then dedup r else (k, v) :: dedup r

/-! ## scalars -/

def deUsize : JV → R Nat
  | .num (.pos n) => if n < USIZE then .ok n else .error .invalid
  | _ => .error .invalid

/-- `f64::deserialize`: every JSON number -/
def deF64 : JV → R F64
  | .num (.pos n) => .ok (.fin n 1)
  | .num (.neg i) => .ok (.fin i 1)
  | .num (.float a b) => .ok (.fin a b)
  | _ => .error .invalid

def deI32 : JV → R Int
  | .num (.pos n) => if n < 2 ^ 31 then .ok n else .error .invalid
  | .num (.neg i) => if -(2 ^ 31 : Int) ≤ i then .ok i else .error .invalid
  | _ => .error .invalid

/-- `Value::as_i64` -/
def asI64 : JV → Option Int
  | .num (.pos n) => if n < 2 ^ 63 then some n else none
  | .num (.neg i) => some i
  | _ => none

/-- a unit-variant enum from a `Value`: the variant name as a string, or an object with that single key and
    `null`; answer = position in `names` -/
def deUnitEnum (names : List (List Char)) : JV → R Nat
  | .str s => match names.idxOf? s with
    | some i => .ok i
    | none => .error .invalid
  | .obj ms =>
    match dedup ms with
    | [(k, .null)] => match names.idxOf? k with
      | some i => .ok i
      | none => .error .invalid
    | _ => .error .invalid
  | _ => .error .invalid

def sHorizontal := "horizontal".toList
def sVertical := "vertical".toList

def deAxis (j : JV) : R Axis :=
  match deUnitEnum [sHorizontal, sVertical] j with
  | .ok 0 => .ok .hor
  | .ok _ => .ok .ver
  | .error e => .error e

def deJustify (j : JV) : R Justify :=
  match deUnitEnum ["start".toList, "center".toList, "end".toList, "space-between".toList, "space-around".toList,
      "space-evenly".toList] j with
  | .ok 0 => .ok .start
  | .ok 1 => .ok .center
  | .ok 2 => .ok .end_
  | .ok 3 => .ok .spaceBetween
  | .ok 4 => .ok .spaceAround
  | .ok _ => .ok .spaceEvenly
  | .error e => .error e

def alignNames : List (List Char) :=
  ["start".toList, "center".toList, "end".toList, "expand".toList, "shrink".toList]

/-- `Align::deserialize`: five unit variants and the newtype variant `{"offset": i32}` -/
def deAlign (j : JV) : R Align :=
  match j with
  | .obj ms =>
    match dedup ms with
    | [(k, v)] =>
      if k = "offset".toList then
        match deI32 v with
        | .ok o => .ok (.offset o)
        | .error e => .error e
      else match deUnitEnum alignNames j with
        | .ok 0 => .ok .start | .ok 1 => .ok .center | .ok 2 => .ok .end_ | .ok 3 => .ok .expand
        | .ok _ => .ok .shrink
        | .error e => .error e
    | _ => .error .invalid
  | _ =>
    match deUnitEnum alignNames j with
    | .ok 0 => .ok .start | .ok 1 => .ok .center | .ok 2 => .ok .end_ | .ok 3 => .ok .expand
    | .ok _ => .ok .shrink
    | .error e => .error e

/-- a field of a derived struct read from a `Value` object: absent → `dflt`, present → must convert -/
def fieldUsize (ms : List (List Char × JV)) (k : List Char) (dflt : Option Nat) : R Nat :=
  match getKey ms k with
  | some v => deUsize v
  | none => match dflt with
    | some d => .ok d
    | none => .error .invalid

/-- `Size::deserialize` from a `Value`: object with `height` and `width`, or a sequence of exactly two -/
def deSizeV : JV → R ViewLayout.Size
  | .obj ms =>
    match fieldUsize ms "height".toList none, fieldUsize ms "width".toList none with
    | .ok h, .ok w => .ok ⟨h, w⟩
    | _, _ => .error .invalid
  | .arr [a, b] =>
    match deUsize a, deUsize b with
    | .ok h, .ok w => .ok ⟨h, w⟩
    | _, _ => .error .invalid
  | _ => .error .invalid

/-- elements of a derived `visit_seq` whose fields all have defaults: missing ones are defaulted -/
def seqUsize : List JV → Nat → R (List Nat)
  | _, 0 => .ok []
  | [], n + 1 => match seqUsize [] n with
    | .ok r => .ok (0 :: r)
    | .error e => .error e
  | x :: xs, n + 1 =>
    match deUsize x, seqUsize xs n with
    | .ok v, .ok r => .ok (v :: r)
    | _, _ => .error .invalid

/-- `Margins::deserialize`: `left`, `right`, `top`, `bottom`, each `#[serde(default)]` -/
def deMargins : JV → R Margins
  | .obj ms =>
    match fieldUsize ms "left".toList (some 0), fieldUsize ms "right".toList (some 0),
          fieldUsize ms "top".toList (some 0), fieldUsize ms "bottom".toList (some 0) with
    | .ok l, .ok r, .ok t, .ok b => .ok ⟨l, r, t, b⟩
    | _, _, _, _ => .error .invalid
  | .arr xs =>
    if xs.length > 4 then .error .invalid
    else match seqUsize xs 4 with
      | .ok [l, r, t, b] => .ok ⟨l, r, t, b⟩
      | _ => .error .invalid
  | _ => .error .invalid

/-- `FaceDeserializer`: a string through `Face::from_str_named` -/
def deFace (ext : Ext) : JV → R Face
  | .str s => match parseFaceWith ext.alpha ext.named s with
    | .ok f => .ok f
    | .error _ => .error .invalid
  | _ => .error .invalid

/-- `RGBADeserializer` -/
def deColor (ext : Ext) : JV → R RGBA
  | .str s => match parseRGBAWith ext.alpha ext.named s with
    | .ok c => .ok c
    | .error _ => .error .invalid
  | _ => .error .invalid

/-- a sequence of exactly `n` numbers (`[Scalar; 4]`, the 4-tuple of `BBox`) -/
def deFloats (n : Nat) : JV → R Unit
  | .arr xs => if xs.length = n ∧ xs.all (fun x => match deF64 x with | .ok _ => true | .error _ => false)
      then .ok () else .error .invalid
  | _ => .error .invalid

/-! ## characters -/

/-- a character as `Cell::layout` sees it -/
def chOf (ext : Ext) (c : Char) : Ch :=
  if c = '\n' then .nl else if c = '\r' then .cr else if c = '\t' then .tab else .w (ext.width c)

/-! ## glyph -/

/-- one member in the `match` of `GlyphFrameDeserializer::visit_map` -/
def frameMember (ext : Ext) (m : List Char × JV) : R Unit :=
  if m.1 = "margin".toList ∨ m.1 = "border_width".toList ∨ m.1 = "border_radius".toList ∨ m.1 = "padding".toList then
    deFloats 4 m.2
  else if m.1 = "border_color".toList ∨ m.1 = "fill_color".toList then
    match deColor ext m.2 with
    | .ok _ => .ok ()
    | .error e => .error e
  else .ok ()

def allOk (f : α → R Unit) : List α → R Unit
  | [] => .ok ()
  | x :: xs => match f x with
    | .ok _ => allOk f xs
    | .error e => .error e

/-- `typed` = the visitor reads the JSON text itself (every member in document order, repeated keys included);
    otherwise it reads a `serde_json::Value`, which holds one value per key -/
def deFrame (ext : Ext) (typed : Bool) : JV → R Unit
  | .obj ms => allOk (frameMember ext) (if typed then ms else dedup ms)
  | _ => .error .invalid

/-- derived `Size` visitor on the JSON text: a repeated field is an error (`Serde.Size.de`) -/
def deSizeT : JV → R ViewLayout.Size
  | .obj ms =>
    match Serde.Size.de (.map (ms.map fun m =>
        (if m.1 = "height".toList then SKey.height else if m.1 = "width".toList then SKey.width else SKey.other,
         match m.2 with | .num (.pos n) => UVal.num n | _ => UVal.bad))) with
    | some sz => .ok ⟨sz.height, sz.width⟩
    | none => .error .invalid
  | j => deSizeV j

/-- accumulator of `GlyphDeserializer::visit_map`: which of `path` / `scene` were seen, size, fallback -/
structure GAcc where
  path : Bool
  scene : Bool
  size : Option ViewLayout.Size
  fallback : List Char

/-- `Size` inside the glyph visitor: from the JSON text (`typed`) or from a `Value` -/
def deSizeG (typed : Bool) (j : JV) : R ViewLayout.Size := if typed then deSizeT j else deSizeV j

def glyphMember (ext : Ext) (typed : Bool) (acc : GAcc) (m : List Char × JV) : R GAcc :=
  if m.1 = "scene".toList then
    if ext.sceneOk m.2 then .ok { acc with scene := true } else .error .invalid
  else if m.1 = "path".toList then
    match m.2 with
    | .str s => if ext.pathOk s then .ok { acc with path := true } else .error .invalid
    | _ => .error .invalid
  else if m.1 = "view_box".toList then
    match deFloats 4 m.2 with
    | .ok _ => .ok acc
    | .error e => .error e
  else if m.1 = "fallback".toList then
    match m.2 with
    | .str s => .ok { acc with fallback := s }
    | _ => .error .invalid
  else if m.1 = "fill_rule".toList then
    match deUnitEnum ["nonzero".toList, "evenodd".toList] m.2 with
    | .ok _ => .ok acc
    | .error e => .error e
  else if m.1 = "size".toList then
    match deSizeG typed m.2 with
    | .ok s => .ok { acc with size := some s }
    | .error e => .error e
  else if m.1 = "frame".toList then
    match deFrame ext typed m.2 with
    | .ok _ => .ok acc
    | .error e => .error e
  else .ok acc

def glyphLoop (ext : Ext) (typed : Bool) : List (List Char × JV) → GAcc → R GAcc
  | [], acc => .ok acc
  | m :: ms, acc => match glyphMember ext typed acc m with
    | .ok acc' => glyphLoop ext typed ms acc'
    | .error e => .error e

/-- `GlyphDeserializer`: size (default 1 × 3) and fallback characters of the glyph -/
def deGlyphWith (ext : Ext) (typed : Bool) : JV → R (Nat × Nat × List Ch)
  | .obj ms =>
    match glyphLoop ext typed (if typed then ms else dedup ms) ⟨false, false, none, []⟩ with
    | .error e => .error e
    | .ok acc =>
      if acc.path ≠ acc.scene then
        let size := acc.size.getD ⟨1, 3⟩
        .ok (size.h, size.w, acc.fallback.map (chOf ext))
      else .error .invalid      -- "must contain either scene or path"
  | _ => .error .invalid

/-- the glyph visitor on a `serde_json::Value` (inside a view or a text) -/
def deGlyph (ext : Ext) (j : JV) : R (Nat × Nat × List Ch) := deGlyphWith ext false j

/-! ## JSON value → the entries of the image visitor -/

def utf8 (s : List Char) : List UInt8 := (String.ofList s).toUTF8.toList

def JV.toJson : JV → Json
  | .null => .null
  | .bool b => .bool b
  | .num (.pos n) => .nat n
  | .num _ => .num
  | .str s => .str (utf8 s)
  | .arr _ => .arr []          -- below `size` only numbers matter; deeper structure is irrelevant to the visitor
  | .obj _ => .obj []

/-- the image members one level deep (`size` may be an array or an object of numbers) -/
def imageJson : JV → Json
  | .obj ms => .obj ((dedup ms).map fun m => (utf8 m.1, match m.2 with
      | .arr xs => .arr (xs.map JV.toJson)
      | .obj ns => .obj ((dedup ns).map fun n => (utf8 n.1, n.2.toJson))
      | v => v.toJson))
  | v => v.toJson

/-- `Image::deserialize(value)`: pixel height and width of the image -/
def deImageV (ext : Ext) (j : JV) : R (Nat × Nat) :=
  match deImage ext.sched (imageJson j) with
  | .ok img => .ok (img.shape.height, img.shape.width)
  | .err => .error .invalid
  | .panic => .error .panic
  | .pending => .error .panic   -- excluded for sufficient schedules

/-- `ImageAsciiView::layout`: `height / 2 + height % 2` rows for an image `height` pixels high, the `+` being a
    `usize` addition in a build with overflow checks (`panic` on overflow).  This is arithmetic of the view's
    *layout*, on a number taken from the document; C10's model takes the size of such a leaf (`V.fixed`) as
    given, so it is computed (checked) here, where the leaf is built. -/
def asciiRows (height : Nat) : R Nat :=
  match add? (height / 2) (height % 2) with
  | some rows => .ok rows
  | none => .error .panic

/-! ## text -/

structure TState where
  cells : List TCell
  wraps : Bool

/-- one call of `collect_rec`, the recursive calls going through `recur` -/
def collectStep (ext : Ext) (recur : TState → JV → R TState) (st : TState) : JV → R TState
  | .str s => .ok { st with cells := st.cells ++ s.map (fun c => TCell.ch (chOf ext c)) }
  | .obj ms =>
    andThen (match getKey ms "face".toList with
      | some f => andThen (deFace ext f) (fun _ => .ok ())
      | none => .ok ()) fun _ =>
    let st := match getKey ms "wraps".toList with
      | some (.bool b) => { st with wraps := b }
      | _ => st
    match getKey ms "glyph".toList with
    | some g => andThen (deGlyph ext g) fun p => .ok { st with cells := st.cells ++ [TCell.glyph p.1 p.2.1 p.2.2] }
    | none =>
      match getKey ms "text".toList with
      | some t => recur st t
      | none => .ok st
  | .arr xs =>
    xs.foldl (fun acc x => match acc with
      | .ok s => recur s x
      | .error e => .error e) (.ok st)
  | _ => .error .invalid

def collectF (ext : Ext) : Nat → TState → JV → R TState
  | 0, _, _ => .error .invalid
  | fuel + 1, st, j => collectStep ext (collectF ext fuel) st j

/-- `TextDeserializer`: `Text::new()` wraps -/
def deText (ext : Ext) (j : JV) : R V :=
  andThen (collectF ext j.size ⟨[], true⟩ j) fun st => .ok (.text st.cells st.wraps)

/-! ## view tree -/

/-- `r?`: an `Option` result of a field deserialiser as an outcome -/
def orInvalid : Option α → R α
  | some x => .ok x
  | none => .error .invalid

/-- an optional member: absent → `dflt`, present → must deserialise -/
def optField (value : JV) (k : List Char) (de : JV → R α) (dflt : α) : R α :=
  match value.get k with
  | some x => de x
  | none => .ok dflt

/-- `seed.deserialize(value.get(k)?)`: a required member holding a view -/
def viewMember (recur : JV → R V) (value : JV) (k : List Char) : R V :=
  match value.get k with
  | some v => recur v
  | none => .error .invalid

/-- one element of `children` in `Flex::from_json_value` -/
def flexChild (ext : Ext) (recur : JV → R V) (value : JV) : R Child :=
  if (value.get "type".toList).isSome then
    andThen (recur value) fun v => .ok (.mk none .shrink false v)
  else
    andThen (optField value "flex".toList (fun f => andThen (deF64 f) fun x => .ok (jsonFilter x)) none) fun flex =>
    andThen (optField value "align".toList deAlign .shrink) fun align =>
    andThen (optField value "face".toList (fun f => andThen (deFace ext f) fun _ => .ok true) false) fun face =>
    andThen (viewMember recur value "view".toList) fun v => .ok (.mk flex align face v)

def mapR (f : α → R β) : List α → R (List β)
  | [] => .ok []
  | x :: xs => match f x with
    | .error e => .error e
    | .ok y => match mapR f xs with
      | .ok ys => .ok (y :: ys)
      | .error e => .error e

/-- `Flex::from_json_value` -/
def viewFlex (ext : Ext) (recur : JV → R V) (value : JV) : R V :=
  andThen (optField value "direction".toList deAxis .hor) fun dir =>
  andThen (optField value "justify".toList deJustify .start) fun justify =>
  match value.get "children".toList with
  | none => .ok (.flex dir justify [])
  | some (.arr values) => andThen (mapR (flexChild ext recur) values) fun cs => .ok (.flex dir justify cs)
  | some _ => .error .invalid

/-- `container::from_json_value` -/
def viewContainer (ext : Ext) (recur : JV → R V) (value : JV) : R V :=
  andThen (optField value "face".toList
    (fun f => andThen (deFace ext f) fun face => .ok (decide (face ≠ Face.default))) false) fun face =>
  andThen (optField value "vertical".toList deAlign .shrink) fun av =>
  andThen (optField value "horizontal".toList deAlign .shrink) fun ah =>
  andThen (optField value "margins".toList deMargins ⟨0, 0, 0, 0⟩) fun margins =>
  andThen (optField value "size".toList deSizeV ⟨0, 0⟩) fun size =>
  andThen (viewMember recur value "child".toList) fun v => .ok (.container size av ah margins face v)

/-- `tag_from_json_value`: `view` and `tag` are required -/
def viewTag (recur : JV → R V) (value : JV) : R V :=
  if (value.get "view".toList).isSome ∧ (value.get "tag".toList).isSome then
    andThen (viewMember recur value "view".toList) fun c => .ok (.tag c)
  else .error .invalid

/-- the body of `ViewDeserializer::deserialize`, the recursive calls going through `recur` -/
def viewStep (ext : Ext) (recur : JV → R V) (value : JV) : R V :=
  match value.get "type".toList with
  | some (.str ty) =>
    if ty = "text".toList then
      andThen (collectF ext value.size ⟨[], true⟩ value) fun st => .ok (.text st.cells st.wraps)
    else if ty = "trace-layout".toList then viewMember recur value "view".toList
    else if ty = "flex".toList then viewFlex ext recur value
    else if ty = "container".toList then viewContainer ext recur value
    else if ty = "glyph".toList then
      andThen (deGlyph ext value) fun p => .ok (.glyph p.1 p.2.1 p.2.2)
    else if ty = "image".toList then
      andThen (deImageV ext value) fun p => .ok (.image p.1 p.2)
    else if ty = "image_ascii".toList then
      andThen (deImageV ext value) fun p => andThen (asciiRows p.1) fun rows => .ok (.fixed 0 rows p.2)
    else if ty = "color".toList then
      .error .invalid                  -- a string deserialiser handed the (object) value
    else if ty = "tag".toList then viewTag recur value
    else if ty = "ref".toList then
      match (value.get "ref".toList).bind asI64 with
      | some _ => .ok .optNone
      | none => .error .invalid
    else .error .invalid               -- no handlers registered
  | _ => .error .invalid

def deViewF (ext : Ext) : Nat → JV → R V
  | 0, _ => .error .invalid
  | fuel + 1, j => viewStep ext (deViewF ext fuel) j

/-- `ViewDeserializer::deserialize` -/
def deView (ext : Ext) (j : JV) : R V := deViewF ext j.size j

/-- `Glyph::deserialize` from JSON text, as a view -/
def deGlyphV (ext : Ext) (j : JV) : R V :=
  andThen (deGlyphWith ext true j) fun p => .ok (.glyph p.1 p.2.1 p.2.2)

end SurfModel.SerdeView
