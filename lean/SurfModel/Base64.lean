import SurfModel.Proto
import SurfModel.Generated.Base64Tables
/-!
# Model of the streaming base64 codec (property C14)

Mirrors `Base64Encoder` (src/encoder.rs) and `Base64Decoder` (src/decoder.rs) of the repaired tree,
statement by statement:

* encoder: 3-byte carry `buffer`/`size`, one 4-character group written to the inner writer whenever the
  carry is full, padding on `finish`;
* decoder: `buffer_fill` reads 4 bytes at a time from the underlying reader — looping on short reads and
  on `Interrupted` — decodes them into the 64-byte buffer while `buffer_size + 3 <= 64`; `read` copies
  from the buffer into the caller's slice until the slice is full or the input is exhausted.

The two tables are not written here: they are `SurfModel.Generated.Base64Tables`, regenerated from the
compiled crate on every run.

Modelling conventions
* every Rust indexing / slicing operation that can panic is an explicit check with outcome `panic`;
* the inner writer of the encoder is an in-memory `Vec<u8>` (`write_all` appends and cannot fail);
* the decoder's `buffer: [u8; 64]` + `buffer_size` is the list of its first `buffer_size` bytes — the bytes
  behind `buffer_size` are never read by the code (`buffer()` is the only reader);
* the underlying reader is `Reader`: the bytes still to be delivered and a schedule, one entry per `read`
  call: `0` = the call fails with `ErrorKind::Interrupted`, `m+1` = the call delivers at most `m+1`
  bytes; when the schedule is used up every call delivers at most `tail` bytes (`tail = 0`: as much as is
  asked for) — so "one byte per call, for ever" is `sched = [], tail = 1`.

The specification `rfcEncode` (RFC 4648 §4, written independently of the code: bit groups as numbers,
alphabet by ranges) is at the end, before the line protocol.
-/
set_option linter.unusedVariables false
namespace SurfModel.Base64
open SurfModel.Generated.Base64Tables

/-! ## tables -/

/-- `BASE64_ENCODE[i as usize]` — `none` = index out of bounds (panic) -/
def encAt (i : UInt8) : Option UInt8 := (encodeTable[i.toNat]?).map UInt8.ofNat

/-- `BASE64_DECODE[i as usize]` — `none` = index out of bounds (panic) -/
def decAt (i : UInt8) : Option UInt8 := (decodeTable[i.toNat]?).map UInt8.ofNat

/-- `b'='` -/
def pad : UInt8 := 61

/-! ## encoder -/

/-- `[u8; 3]` -/
structure Buf3 where
  b0 : UInt8
  b1 : UInt8
  b2 : UInt8
deriving Repr, DecidableEq

/-- `buffer[i] = b` — `none` = index out of bounds -/
def Buf3.set (x : Buf3) (i : Nat) (b : UInt8) : Option Buf3 :=
  match i with
  | 0 => some { x with b0 := b }
  | 1 => some { x with b1 := b }
  | 2 => some { x with b2 := b }
  | _ => none

def Buf3.toList (x : Buf3) : List UInt8 := [x.b0, x.b1, x.b2]

/-- `Base64Encoder<Vec<u8>>` -/
structure Enc where
  /-- everything written to the inner writer so far -/
  inner : List UInt8
  buffer : Buf3
  size : Nat
deriving Repr, DecidableEq

def Enc.new : Enc := { inner := [], buffer := ⟨0, 0, 0⟩, size := 0 }

/-- the four characters of a full group, as computed in `write` (and in the innermost branch of `finish`) -/
def encode3 (s0 s1 s2 : UInt8) : Option (List UInt8) :=
  match encAt (s0 >>> 2),
        encAt (((s0 <<< 4) ||| (s1 >>> 4)) &&& 0x3f),
        encAt (((s1 <<< 2) ||| (s2 >>> 6)) &&& 0x3f),
        encAt (s2 &&& 0x3f) with
  | some d0, some d1, some d2, some d3 => some [d0, d1, d2, d3]
  | _, _, _, _ => none

/-- `finish` with two carried bytes -/
def encode2 (s0 s1 : UInt8) : Option (List UInt8) :=
  match encAt (s0 >>> 2),
        encAt (((s0 <<< 4) ||| (s1 >>> 4)) &&& 0x3f),
        encAt ((s1 <<< 2) &&& 0x3f) with
  | some d0, some d1, some d2 => some [d0, d1, d2, pad]
  | _, _, _ => none

/-- `finish` with one carried byte -/
def encode1 (s0 : UInt8) : Option (List UInt8) :=
  match encAt (s0 >>> 2), encAt ((s0 <<< 4) &&& 0x3f) with
  | some d0, some d1 => some [d0, d1, pad, pad]
  | _, _ => none

/-- outcome of an encoder operation; the inner `Vec` never fails -/
inductive EncRes (α : Type) where
  | ok (v : α)
  | panic
deriving Repr, DecidableEq

/-- body of the `for b in buf` loop of `write` -/
def writeByte (e : Enc) (b : UInt8) : EncRes Enc :=
  match e.buffer.set e.size b with           -- self.buffer[self.size] = b
  | none => .panic
  | some buffer =>
    let size := e.size + 1                    -- self.size += 1
    if size = 3 then
      match encode3 buffer.b0 buffer.b1 buffer.b2 with
      | none => .panic
      | some dst => .ok { inner := e.inner ++ dst, buffer := buffer, size := 0 }
    else .ok { e with buffer := buffer, size := size }

/-- `Write::write(buf)` (always consumes the whole slice) -/
def write (e : Enc) : List UInt8 → EncRes Enc
  | [] => .ok e
  | b :: rest =>
    match writeByte e b with
    | .panic => .panic
    | .ok e' => write e' rest

/-- a sequence of `write` calls -/
def writes (e : Enc) : List (List UInt8) → EncRes Enc
  | [] => .ok e
  | c :: rest =>
    match write e c with
    | .panic => .panic
    | .ok e' => writes e' rest

/-- `finish`: the inner writer's final contents -/
def finish (e : Enc) : EncRes (List UInt8) :=
  if e.size > 3 then .panic                   -- buffer[..size]
  else
    match e.buffer.toList.take e.size with
    | [] => .ok e.inner
    | [s0] =>
      match encode1 s0 with
      | none => .panic
      | some dst => .ok (e.inner ++ dst)
    | [s0, s1] =>
      match encode2 s0 s1 with
      | none => .panic
      | some dst => .ok (e.inner ++ dst)
    | s0 :: s1 :: s2 :: _ =>
      match encode3 s0 s1 s2 with
      | none => .panic
      | some dst => .ok (e.inner ++ dst)

/-- `new`, the given `write` calls, `finish` -/
def encodeChunks (chunks : List (List UInt8)) : EncRes (List UInt8) :=
  match writes Enc.new chunks with
  | .panic => .panic
  | .ok e => finish e

/-- `Write::flush`: `self.inner.flush()` — forwards to the inner writer (a `Vec`: nothing to do); the carry
    (`buffer`, `size`) is not touched and nothing is emitted -/
def flush (e : Enc) : EncRes Enc := .ok e

/-- what a caller does with the encoder before `finish` -/
inductive EncOp where
  | write (bytes : List UInt8)
  | flush
deriving Repr, DecidableEq

/-- a sequence of `write` / `flush` calls -/
def runOps (e : Enc) : List EncOp → EncRes Enc
  | [] => .ok e
  | .write c :: rest =>
    match write e c with
    | .panic => .panic
    | .ok e' => runOps e' rest
  | .flush :: rest =>
    match flush e with
    | .panic => .panic
    | .ok e' => runOps e' rest

/-- `new`, the given `write` / `flush` calls, `finish` -/
def encodeOps (ops : List EncOp) : EncRes (List UInt8) :=
  match runOps Enc.new ops with
  | .panic => .panic
  | .ok e => finish e

/-- the bytes handed to `write`, in order (specification side: flushes carry no data) -/
def written : List EncOp → List UInt8
  | [] => []
  | .write c :: rest => c ++ written rest
  | .flush :: rest => written rest

/-! ## the encoder over an arbitrary inner writer

`Enc` above is the encoder over a `Vec<u8>`, whose `write` always takes everything. For any other
`io::Write` the hand-over of a finished group matters: the code uses `self.inner.write_all(&dst)?`, i.e. all
four symbols arrive in the inner writer or an error is returned. `Sink` is an inner writer whose `write` may
accept only a prefix of the buffer (`sched`/`tail` as for `Reader`: `0` = the call fails with `Interrupted`,
`m+1` = at most `m+1` bytes are accepted; after the schedule at most `tail` per call, `0` = no restriction)
and that may be full (`room = some r`: `r` more bytes fit, then `write` returns `Ok(0)`, like
`Cursor<&mut [u8]>` at its end). `writeAll` is the loop of `std::io::Write::write_all`. After an I/O error the
run ends (the caller gives up; the encoder is not used any further). -/

structure Sink where
  /-- everything the inner writer has accepted so far -/
  arrived : List UInt8
  sched : List Nat
  tail : Nat
  room : Option Nat
deriving Repr, DecidableEq

inductive WrRes where
  | interrupted
  | accepted (n : Nat)
deriving Repr, DecidableEq

/-- how many bytes of a buffer of `len` bytes a call with per-call maximum `per` accepts -/
def Sink.take (s : Sink) (per len : Nat) : Nat :=
  match s.room with
  | none => min len per
  | some r => min (min len per) r

/-- one `write(buf)` call on the inner writer -/
def Sink.write (s : Sink) (buf : List UInt8) : WrRes × Sink :=
  match s.sched with
  | 0 :: rest => (.interrupted, { s with sched := rest })
  | (m + 1) :: rest =>
    let k := s.take (m + 1) buf.length
    (.accepted k, { s with arrived := s.arrived ++ buf.take k, sched := rest, room := s.room.map (· - k) })
  | [] =>
    let k := s.take (if s.tail = 0 then buf.length else s.tail) buf.length
    (.accepted k, { s with arrived := s.arrived ++ buf.take k, room := s.room.map (· - k) })

theorem Sink.write_sched_le (s : Sink) (buf : List UInt8) : (s.write buf).2.sched.length ≤ s.sched.length := by
  unfold Sink.write; split <;> simp_all

theorem Sink.write_interrupted (s s' : Sink) (buf : List UInt8) (h : s.write buf = (.interrupted, s')) :
    s'.sched.length < s.sched.length := by
  unfold Sink.write at h; split at h <;> simp_all
  · obtain ⟨_, rfl⟩ := h; simp_all

theorem Sink.take_le (s : Sink) (per len : Nat) : s.take per len ≤ len := by
  unfold Sink.take; split <;> omega

theorem Sink.write_accepted_le (s s' : Sink) (buf : List UInt8) (k : Nat) (h : s.write buf = (.accepted k, s')) :
    k ≤ buf.length := by
  unfold Sink.write at h
  split at h
  · simp at h
  · simp only [Prod.mk.injEq, WrRes.accepted.injEq] at h; rw [← h.1]; exact Sink.take_le ..
  · simp only [Prod.mk.injEq, WrRes.accepted.injEq] at h; rw [← h.1]; exact Sink.take_le ..

/-- `io::Write::write_all`: `true` = `Ok(())`, `false` = an error (`WriteZero`) -/
def Sink.writeAll (s : Sink) (buf : List UInt8) : Bool × Sink :=
  if hb : buf.length = 0 then (true, s)                          -- while !buf.is_empty()
  else
    match h : s.write buf with
    | (.interrupted, s') => Sink.writeAll s' buf               -- Interrupted => {}
    | (.accepted 0, s') => (false, s')                         -- Ok(0) => return Err(WriteZero)
    | (.accepted (k + 1), s') => Sink.writeAll s' (buf.drop (k + 1))   -- Ok(n) => buf = &buf[n..]
termination_by s.sched.length + buf.length
decreasing_by
  · have := Sink.write_interrupted s s' buf h; omega
  · have h1 := Sink.write_sched_le s buf; rw [h] at h1
    have h2 := Sink.write_accepted_le s s' buf (k + 1) h
    simp only [List.length_drop] at *; omega

/-- `Base64Encoder<W>` for an arbitrary inner writer -/
structure EncS where
  inner : Sink
  buffer : Buf3
  size : Nat
deriving Repr, DecidableEq

def EncS.new (inner : Sink) : EncS := { inner := inner, buffer := ⟨0, 0, 0⟩, size := 0 }

/-- outcome of an operation of the encoder over a sink; on an I/O error what has arrived so far is kept -/
inductive SinkRes (α : Type) where
  | ok (v : α)
  | ioerr (inner : Sink)
  | panic
deriving Repr, DecidableEq

/-- body of the `for b in buf` loop of `write`, the group handed over with `write_all` -/
def writeByteS (e : EncS) (b : UInt8) : SinkRes EncS :=
  match e.buffer.set e.size b with
  | none => .panic
  | some buffer =>
    let size := e.size + 1
    if size = 3 then
      match encode3 buffer.b0 buffer.b1 buffer.b2 with
      | none => .panic
      | some dst =>
        match e.inner.writeAll dst with                         -- self.inner.write_all(&dst)?
        | (false, inner) => .ioerr inner
        | (true, inner) => .ok { inner := inner, buffer := buffer, size := 0 }
    else .ok { e with buffer := buffer, size := size }

def writeS (e : EncS) : List UInt8 → SinkRes EncS
  | [] => .ok e
  | b :: rest =>
    match writeByteS e b with
    | .panic => .panic
    | .ioerr s => .ioerr s
    | .ok e' => writeS e' rest

/-- a sequence of `write` / `flush` calls (the sink's `flush` succeeds and changes nothing) -/
def runOpsS (e : EncS) : List EncOp → SinkRes EncS
  | [] => .ok e
  | .write c :: rest =>
    match writeS e c with
    | .panic => .panic
    | .ioerr s => .ioerr s
    | .ok e' => runOpsS e' rest
  | .flush :: rest => runOpsS e rest

/-- `finish`: the inner writer is handed back -/
def finishS (e : EncS) : SinkRes Sink :=
  if e.size > 3 then .panic
  else
    match e.buffer.toList.take e.size with
    | [] => .ok e.inner
    | [s0] =>
      match encode1 s0 with
      | none => .panic
      | some dst => match e.inner.writeAll dst with | (false, s) => .ioerr s | (true, s) => .ok s
    | [s0, s1] =>
      match encode2 s0 s1 with
      | none => .panic
      | some dst => match e.inner.writeAll dst with | (false, s) => .ioerr s | (true, s) => .ok s
    | s0 :: s1 :: s2 :: _ =>
      match encode3 s0 s1 s2 with
      | none => .panic
      | some dst => match e.inner.writeAll dst with | (false, s) => .ioerr s | (true, s) => .ok s

/-- `new(sink)`, the given `write` / `flush` calls, `finish` -/
def encodeOpsS (inner : Sink) (ops : List EncOp) : SinkRes Sink :=
  match runOpsS (EncS.new inner) ops with
  | .panic => .panic
  | .ioerr s => .ioerr s
  | .ok e => finishS e

/-! ## the underlying reader -/

structure Reader where
  data : List UInt8
  sched : List Nat
  /-- per-call maximum once the schedule is used up; `0` = no restriction -/
  tail : Nat
deriving Repr, DecidableEq

inductive RdRes where
  | interrupted
  | bytes (bs : List UInt8)
deriving Repr, DecidableEq

/-- one `read(&mut buf[..want])` call on the underlying reader -/
def Reader.read (r : Reader) (want : Nat) : RdRes × Reader :=
  match r.sched with
  | [] =>
    let k := if r.tail = 0 then want else min want r.tail
    (.bytes (r.data.take k), { r with data := r.data.drop k })
  | 0 :: s => (.interrupted, { r with sched := s })
  | (m + 1) :: s =>
    (.bytes (r.data.take (min want (m + 1))), { r with data := r.data.drop (min want (m + 1)), sched := s })

theorem Reader.read_sched_le (r : Reader) (want : Nat) : (r.read want).2.sched.length ≤ r.sched.length := by
  unfold Reader.read; split <;> simp_all

theorem Reader.read_interrupted (r : Reader) (want : Nat) (r' : Reader)
    (h : r.read want = (.interrupted, r')) : r'.sched.length < r.sched.length := by
  unfold Reader.read at h; split at h <;> simp_all
  · obtain ⟨_, rfl⟩ := h; simp_all

/-! ## decoder -/

/-- `Base64Decoder<R>`; `buffer` = `self.buffer[..self.buffer_size]` -/
structure Dec where
  read : Reader
  buffer : List UInt8
  offset : Nat
deriving Repr, DecidableEq

def Dec.new (r : Reader) : Dec := { read := r, buffer := [], offset := 0 }

/-- `decode_u8x4` — `none` = table index out of bounds -/
def decodeU8x4 (i0 i1 i2 i3 : UInt8) : Option (List UInt8) :=
  match decAt i0, decAt i1, decAt i2, decAt i3 with
  | some o0, some o1, some o2, some o3 =>
    some [(o0 <<< 2) ||| (o1 >>> 4), (o1 <<< 4) ||| (o2 >>> 2), (o2 <<< 6) ||| o3]
  | _, _, _, _ => none

/-- `decode_size` -/
def decodeSize (i2 i3 : UInt8) : Nat :=
  if i2 = pad then 1 else if i3 = pad then 2 else 3

/-- the inner `while size < input.len()` loop of `buffer_fill`; `input` = `input[..size]` -/
def fill4 (r : Reader) (input : List UInt8) : List UInt8 × Reader :=
  if _h4 : input.length < 4 then
    match h : r.read (4 - input.length) with
    | (.interrupted, r') => fill4 r' input                      -- Interrupted => continue
    | (.bytes [], r') => (input, r')                            -- Ok(0) => break
    | (.bytes (b :: bs), r') => fill4 r' (input ++ b :: bs)     -- Ok(read) => size += read
  else (input, r)
termination_by r.sched.length + (4 - input.length)
decreasing_by
  · have := Reader.read_interrupted r _ r' h; omega
  · have := Reader.read_sched_le r (4 - input.length); rw [h] at this
    simp only [List.length_append, List.length_cons] at *; omega

/-- outcome of `buffer_fill`: the state is kept on a parse error (the decoder stays usable) -/
inductive FillRes where
  | ok (d : Dec)
  | err (d : Dec)
  | panic
deriving Repr, DecidableEq

theorem decodeSize_pos (i2 i3 : UInt8) : 1 ≤ decodeSize i2 i3 := by
  unfold decodeSize; split
  · omega
  · split <;> omega

/-- the outer `while self.buffer_size + 3 <= self.buffer.len()` loop of `buffer_fill` -/
def fillLoop (d : Dec) : FillRes :=
  if _hc : d.buffer.length + 3 ≤ 64 then
    match fill4 d.read [] with
    | ([], r') => .ok { d with read := r' }                                  -- size == 0 => break
    | ([i0, i1, i2, i3], r') =>
      match decodeU8x4 i0 i1 i2 i3 with
      | none => .panic
      | some out =>
        -- self.buffer[self.buffer_size..self.buffer_size + out_size].copy_from_slice(&out[..out_size])
        if hp : d.buffer.length + decodeSize i2 i3 > 64 ∨ decodeSize i2 i3 > out.length then .panic
        else fillLoop { d with read := r', buffer := d.buffer ++ out.take (decodeSize i2 i3) }
    | (_, r') => .err { d with read := r' }                                  -- size != 4
  else .ok d
termination_by 64 - d.buffer.length
decreasing_by
  simp only [List.length_append, List.length_take]
  have := decodeSize_pos i2 i3
  omega

/-- `buffer_fill` -/
def bufferFill (d : Dec) : FillRes :=
  fillLoop (if d.offset = d.buffer.length then { d with buffer := [], offset := 0 } else d)

/-- outcome of `Read::read` -/
inductive ReadRes where
  | ok (out : List UInt8) (d : Dec)
  | err (d : Dec)
  | panic
deriving Repr, DecidableEq

/-- the `while out_offset < out.len()` loop of `read`; `n` = `out.len()`, `out` = `out[..out_offset]` -/
def readLoop (d : Dec) (n : Nat) (out : List UInt8) : ReadRes :=
  if hn : out.length < n then
    if d.offset > d.buffer.length then .panic           -- self.buffer(): &buffer[offset..size]
    else
      match (if d.buffer.length - d.offset = 0 then bufferFill d else .ok d) with
      | .panic => .panic
      | .err d' => .err d'                               -- `?`
      | .ok d' =>
        if d'.offset > d'.buffer.length then .panic
        else
          let buffer := d'.buffer.drop d'.offset
          if hb : buffer.length = 0 then .ok out d'      -- break
          else
            let size := min buffer.length (n - out.length)
            readLoop { d' with offset := d'.offset + size } n (out ++ buffer.take size)
  else .ok out d
termination_by n - out.length
decreasing_by
  simp only [List.length_append, List.length_take]
  have hb' : (List.drop d'.offset d'.buffer).length ≠ 0 := hb
  omega

/-- `Read::read(&mut out[..n])` -/
def read (d : Dec) (n : Nat) : ReadRes := readLoop d n []

/-- the results of a sequence of `read` calls with the given buffer sizes; the decoder stays in use after an
    error, a panic ends the sequence -/
def readSeq (d : Dec) : List Nat → List ReadRes
  | [] => []
  | n :: rest =>
    match read d n with
    | .panic => [.panic]
    | .err d' => .err d' :: readSeq d' rest
    | .ok out d' => .ok out d' :: readSeq d' rest

/-- what a caller sees who reads with the given buffer sizes until end of input:
    `eof` = a non-empty buffer got `Ok(0)`; `pending` = the list of sizes ended first -/
inductive Outcome where
  | eof (bytes : List UInt8)
  | error (bytes : List UInt8)
  | panic
  | pending (bytes : List UInt8)
deriving Repr, DecidableEq

def readAll (d : Dec) (sizes : List Nat) (acc : List UInt8 := []) : Outcome :=
  match sizes with
  | [] => .pending acc
  | n :: rest =>
    match read d n with
    | .panic => .panic
    | .err _ => .error acc
    | .ok out d' => if 0 < n ∧ out = [] then .eof acc else readAll d' rest (acc ++ out)

/-- the same caller reading from an in-memory byte slice (`impl Read for &[u8]`) — reference behaviour -/
def sliceReadAll (data : List UInt8) (sizes : List Nat) (acc : List UInt8 := []) : Outcome :=
  match sizes with
  | [] => .pending acc
  | n :: rest =>
    if 0 < n ∧ data = [] then .eof acc else sliceReadAll (data.drop n) rest (acc ++ data.take n)

/-! ## specification: RFC 4648 §4 -/

/-- Table 1 of RFC 4648: value → character code: `A`–`Z`, `a`–`z`, `0`–`9`, `+`, `/` -/
def rfcAlphabet : List Nat :=
  (List.range 26).map (· + 65) ++ (List.range 26).map (· + 97) ++ (List.range 10).map (· + 48) ++ [43, 47]

def rfcChar (sextet : Nat) : UInt8 := UInt8.ofNat (rfcAlphabet.getD sextet 0)

/-- 24-bit groups, most significant sextet first; a final group of 8 bits is padded with four zero bits to
    two characters and `==`, one of 16 bits with two zero bits to three characters and `=`. -/
def rfcEncode : List UInt8 → List UInt8
  | [] => []
  | [a] =>
    let n := a.toNat * 16
    [rfcChar (n / 64), rfcChar (n % 64), 61, 61]
  | [a, b] =>
    let n := (a.toNat * 256 + b.toNat) * 4
    [rfcChar (n / 4096), rfcChar (n / 64 % 64), rfcChar (n % 64), 61]
  | a :: b :: c :: rest =>
    let n := a.toNat * 65536 + b.toNat * 256 + c.toNat
    rfcChar (n / 262144) :: rfcChar (n / 4096 % 64) :: rfcChar (n / 64 % 64) :: rfcChar (n % 64) :: rfcEncode rest

/-! ## the client of the decoder inside the crate: `Deserialize for Image` (src/image.rs)

`Base64Decoder::new(data_raw.as_bytes()).read_to_end(&mut data).map_err(..)?`, then the size check
`data.len() == height * width * channels` and the pixels built from `data`. `read_to_end` keeps offering
non-empty buffers until one gets `Ok(0)`; it is modelled as `readAll` over more 32-byte buffers than the text
has symbols (the sizes std really uses are compared call by call by the `dec` requests of the harness). -/

/-- `read_to_end` over an in-memory text: `none` = an error was returned -/
def readToEnd (text : List UInt8) : Option (List UInt8) :=
  match readAll (Dec.new ⟨text, [], 0⟩) (List.replicate (text.length + 1) 32) with
  | .eof b => some b
  | _ => none

/-- RGBA bytes of the pixels `Deserialize for Image` builds from `data` (`channels` ∈ {1, 3, 4}) -/
def imagePixels (channels : Nat) : List UInt8 → List UInt8
  | [] => []
  | v :: rest =>
    if channels = 1 then v :: v :: v :: 255 :: imagePixels channels rest
    else match channels, rest with
      | 3, g :: b :: rest' => v :: g :: b :: 255 :: imagePixels channels rest'
      | 4, g :: b :: a :: rest' => v :: g :: b :: a :: imagePixels channels rest'
      | _, _ => []
termination_by l => l.length
decreasing_by all_goals simp_all <;> omega

/-- the `data` / `channels` / `size` part of the image deserialiser: `none` = the document is rejected,
    `some px` = accepted with these RGBA bytes -/
def imageAccept (h w channels : Nat) (text : List UInt8) : Option (List UInt8) :=
  match readToEnd text with
  | none => none
  | some data =>
    if (channels = 1 ∨ channels = 3 ∨ channels = 4) ∧ data.length = h * w * channels
    then some (imagePixels channels data) else none

/-! ## line protocol -/
open SurfModel.Proto

def showEnc : EncRes (List UInt8) → String
  | .ok v => "ok " ++ hex v
  | .panic => "panic"

def showRead : ReadRes → String
  | .panic => "panic"
  | .err _ => "err"
  | .ok out _ => "ok:" ++ hex out

/-- one entry per `read` call: `ok:<hex>`, `err`; a panic ends the trace -/
def reads (d : Dec) (sizes : List Nat) : List String := (readSeq d sizes).map showRead

def showOutcome : Outcome → String
  | .eof b => "eof " ++ hex b
  | .error b => "error " ++ hex b
  | .panic => "panic"
  | .pending b => "pending " ++ hex b

/--
* `enc <chunk>…`                 model of new / write(chunk)… / finish   → `ok <hex>` | `panic`
* `encops <chunk|flush>…`        the same with `flush` calls in between  → `ok <hex>` | `panic`
* `encsink <sched> <tail> <room|-> <chunk|flush>…`  the same over a sink with short writes; answers with what
                                 arrived in the sink                      → `ok <hex>` | `ioerr <hex>` | `panic`
* `dec <text> <sched> <tail> <sizes>`   model of one `read` per size       → trace joined by `,`
* `all <text> <sched> <tail> <sizes>`   `readAll`                           → `eof <hex>` | `error <hex>` | …
* `image <h> <w> <channels> <text>`  `imageAccept`: the crate's client of the decoder → `ok <rgba hex>` | `reject`
* `spec <data>`                  `rfcEncode`                                → `<hex>`
-/
def handle : List String → String
  | "enc" :: chunks =>
    match chunks.mapM unhex with
    | some cs => showEnc (encodeChunks cs)
    | none => "bad-op"
  | "encops" :: toks =>
    match toks.mapM (fun t => if t == "flush" then some EncOp.flush else (unhex t).map EncOp.write) with
    | some ops => showEnc (encodeOps ops)
    | none => "bad-op"
  | "encsink" :: sc :: tl :: rm :: toks =>
    match natList? sc, tl.toNat?, (if rm == "-" then some none else rm.toNat?.map some),
          toks.mapM (fun t => if t == "flush" then some EncOp.flush else (unhex t).map EncOp.write) with
    | some sc, some tl, some rm, some ops =>
      match encodeOpsS ⟨[], sc, tl, rm⟩ ops with
      | .ok s => "ok " ++ hex s.arrived
      | .ioerr s => "ioerr " ++ hex s.arrived
      | .panic => "panic"
    | _, _, _, _ => "bad-op"
  | ["dec", t, s, tl, z] =>
    match unhex t, natList? s, tl.toNat?, natList? z with
    | some t, some s, some tl, some z =>
      let tr := reads (Dec.new ⟨t, s, tl⟩) z
      if tr.isEmpty then "-" else ",".intercalate tr
    | _, _, _, _ => "bad-op"
  | ["all", t, s, tl, z] =>
    match unhex t, natList? s, tl.toNat?, natList? z with
    | some t, some s, some tl, some z => showOutcome (readAll (Dec.new ⟨t, s, tl⟩) z)
    | _, _, _, _ => "bad-op"
  | ["image", h, w, ch, t] =>
    match h.toNat?, w.toNat?, ch.toNat?, unhex t with
    | some h, some w, some ch, some t =>
      match imageAccept h w ch t with
      | none => "reject"
      | some px => "ok " ++ hex px
    | _, _, _, _ => "bad-op"
  | ["selfcheck", _] => "agree"   -- harness-internal cross-checks of crate accessors it reads results through
  | ["spec", d] =>
    match unhex d with
    | some d => hex (rfcEncode d)
    | none => "bad-op"
  | _ => "bad-op"

end SurfModel.Base64
