import SurfModel.Tokenizer
import SurfModel.Grammar
/-!
C03, the set of recognised sequences: comparison of a dumped production DFA (installed with `c03 dfa …`)
with the automaton of the Lean transcription of the documented grammar (`SurfModel.Grammar`: `eventRe`,
`commandRe`, `utf8CanonicalRe`) — language (accepting after every word, dead / alive on every byte) and
terminal flags, tags ignored (which pattern names a sequence is not C03's business). The comparison is the
exhaustive product exploration `SurfModel.Automata.Wire.bisim` of C15, run on the tag-free automaton.
-/
namespace SurfModel.TokLang
open SurfModel.Automata SurfModel.Tokenizer SurfModel.Grammar

/-- the same automaton without tags -/
def stripTags (n : NFA) : NFA := { n with states := n.states.map fun st => { st with tag := none } }

/-- a dumped table in the row format of `Wire.bisim`, without tags -/
def rowsOf (t : Table) : Array Wire.Row :=
  (Array.range t.flags.size).map fun s =>
    { acc := t.accepting s, term := t.terminal s, tags := [],
      next := (Array.range 256).map fun b =>
        let x := t.trans.getD (256 * s + b) 0
        if x = 0 then none else some (x - 1) }

/-- `ok <states>` when the dumped automaton recognises exactly the sequences of the grammar (and flags the
same states terminal), otherwise `diff <hex of a distinguishing word> <what differs>` -/
def langBisim (re : Re) (t : Table) : String := Wire.bisim (stripTags re.toNFA) (rowsOf t)

/-- requests after `c03`: `lang <table name> event|command|utf8`, everything else as `Tokenizer.handle` -/
def handle (ts : Tables) : List String → Tables × String
  | ["lang", name, which] =>
    let re? : Option Re := match which with
      | "event" => some eventRe
      | "command" => some commandRe
      | "utf8" => some utf8CanonicalRe
      | _ => none
    match ts.find name, re? with
    | some t, some re => (ts, langBisim re t)
    | _, _ => (ts, "bad-op")
  | other => Tokenizer.handle ts other

end SurfModel.TokLang
