import SurfModel.Protocol
import SurfModel.Payload
/-! ## line protocol: `proto msg <wire>` → `<hex of print> <showEvent of denote>`

Cross-check of this transcription of the protocols with the harness' own (Rust) transcription. -/
namespace SurfModel.Protocol
open SurfModel.Vt SurfModel.Sgr SurfModel.Grammar SurfModel.Payload SurfModel.Proto

def parseBit (s : String) : Option Bool :=
  if s == "1" then some true else if s == "0" then some false else none

def parseOptNat' (s : String) : Option (Option Nat) :=
  if s == "-" then some none else s.toNat?.map some

def parseNats (s : String) : Option (List Nat) :=
  if s == "-" then some [] else (s.splitOn ",").mapM (·.toNat?)

def parseName (s : String) : Option ColorName :=
  if s == "fg" then some .foreground else if s == "bg" then some .background
  else if s.startsWith "p" then (s.drop 1).toNat?.map ColorName.palette else none

def parseEnd (s : String) : Option OscEnd :=
  if s == "st" then some .st else if s == "bel" then some .bel else none

def parseChannel (s : String) : Option Channel :=
  match s.splitOn "." with
  | [d, v] => do pure ⟨← d.toNat?, ← v.toNat?⟩
  | _ => none

def parseForm (s : String) : Option ColorForm :=
  if s == "s" then some .semi else if s == "c" then some .colon else if s == "cs" then some .colonSpace else none

def parseItem (s : String) : Option SgrItem :=
  if s == "reset" then some .reset
  else if s == "bold1" then some (.bold true) else if s == "bold0" then some (.bold false)
  else if s == "italic1" then some (.italic true) else if s == "italic0" then some (.italic false)
  else if s == "blink1" then some (.blink true) else if s == "blink0" then some (.blink false)
  else if s == "strike1" then some (.strike true) else if s == "strike0" then some (.strike false)
  else if s == "ul21" then some .doubleUnderline
  else if s == "empty" then some .empty
  else if s.startsWith "ulc" then (s.drop 3).toNat?.map SgrItem.underlineColon
  else if s.startsWith "ul" then (s.drop 2).toNat?.map SgrItem.underline
  else if s.startsWith "pal" then
    match (s.drop 3).toString.splitOn "." with
    | [role, i, f] => do pure (.palette (← role.toNat?) (← i.toNat?) (← if f == "c" then some true else if f == "s" then some false else none))
    | _ => none
  else if s.startsWith "named" then
    match (s.drop 5).toString.splitOn "." with
    | [bg, i] => do pure (.named (← parseBit bg) (← i.toNat?))
    | _ => none
  else if s.startsWith "rgb" then
    match (s.drop 3).toString.splitOn "." with
    | [role, r, g, b, f] => do pure (.rgb (← role.toNat?) (← r.toNat?) (← g.toNat?) (← b.toNat?) (← parseForm f))
    | _ => none
  else none

def parseItems (s : String) : Option (List SgrItem) :=
  if s == "-" then some [] else (s.splitOn ",").mapM parseItem

def parseDecMode (n : Nat) : Option PrivateMode := PrivateMode.all.find? fun m => m.number == n
def parseDecStatus (n : Nat) : Option ReportStatus := ReportStatus.all.find? fun m => m.value == n

def parsePair (s : String) : Option (List Nat × List Nat) :=
  match s.splitOn "=" with
  | [k, v] => do pure (← unhexN k, ← unhexN v)
  | _ => none

def parseMsg : List String → Option Msg
  | ["key", i] => i.toNat?.map Msg.key
  | ["text", c] => c.toNat?.map Msg.text
  | ["mouse", code, x, y, p] => do pure (.mouse (← code.toNat?) (← x.toNat?) (← y.toNat?) (← parseBit p))
  | ["cursor", r, c] => do pure (.cursor (← r.toNat?) (← c.toNat?))
  | ["size", a, b, c, d] => do pure (.size (← a.toNat?) (← b.toNat?) (← c.toNat?) (← d.toNat?))
  | ["decmode", m, s] => do pure (.decMode (← m.toNat?.bind parseDecMode) (← s.toNat?.bind parseDecStatus))
  | ["da", t, l] => do pure (.deviceAttrs (← parseNats l) (← parseBit t))
  | ["color", n, e, "hash", r, g, b, u] => do
    pure (.color (← parseName n) (.hash (← r.toNat?) (← g.toNat?) (← b.toNat?) (← parseBit u)) (← parseEnd e))
  | ["color", n, e, "rgb", r, g, b, u] => do
    pure (.color (← parseName n) (.rgb (← parseChannel r) (← parseChannel g) (← parseChannel b) (← parseBit u)) (← parseEnd e))
  | ["facereport", items] => (parseItems items).map Msg.faceReport
  | ["sgr", items] => (parseItems items).map Msg.sgr
  | ["tcok", u, l] => do
    let es ← if l == "-" then some [] else (l.splitOn ";").mapM parsePair
    pure (.termcapOk es (← parseBit u))
  | ["tcfail", u, l] => do
    let ns ← if l == "-" then some [] else (l.splitOn ";").mapM unhexN
    pure (.termcapFail ns (← parseBit u))
  | ["kbd", f] => f.toNat?.map Msg.keyboardLevel
  | ["csiu", code, alts, mods] => do pure (.csiU (← code.toNat?) (← parseNats alts) (← parseOptNat' mods))
  | ["kitty", id, n, p, e] => do
    let err ← if e == "ok" then some none else if e.startsWith "e" then (unhexN (e.drop 1).toString).map some else none
    pure (.kittyImage (← id.toNat?) (← parseOptNat' n) (← parseOptNat' p) err)
  | ["paste", t] => (unhexN t).map Msg.paste
  | _ => none

def handle : List String → String
  | "msg" :: rest =>
    match parseMsg rest with
    | some m => s!"{hexN (print m)} {showEvent (denote m)}"
    | none => "bad-msg"
  | _ => "bad-op"

/-- `gram match <family index> <hex>` → `1` / `0`: the verified matcher `Re.matchB` on the grammar of the family;
    `gram mbisim <family index> | <n> <table>` → bisimulation of a production matcher compiled on its own with the
    model automaton of that operand of the combined choice -/
def handleGram : List String → Option String
  | ["match", k, h] =>
    match k.toNat?.bind Family.ofIndex, SurfModel.Proto.unhex h with
    | some k, some w => some (if (grammar k).matchB w then "1" else "0")
    | _, _ => some "bad-op"
  | "mbisim" :: k :: "|" :: [_, table] =>
    match k.toNat?.bind Family.ofIndex, (table.splitOn ";").mapM SurfModel.Automata.Wire.parseRow with
    | some k, some rows => some (SurfModel.Automata.Wire.bisim (eventAlt k).toNFA rows.toArray)
    | _, _ => some "bad-op"
  | _ => none

end SurfModel.Protocol
