import SurfModel.Sgr
import SurfModel.Grammar
import SurfModel.Event
/-!
# Payload decoders of `src/decoder.rs` (shared by C02 and C04)

Models of every `Matcher::decode` body and of the helpers they call (`numbers_decode`, `key_value_decode`,
`hex_decode`, `utf8_decode`, `parse_color`, `keyboard_decode_key`, `DecMode::from_usize`, …), statement by
statement, with every slice index and every subtraction explicit.  Bytes are `Nat`s below 256 (the convention
of `SurfModel.Vt` / `SurfModel.Sgr`, whose `numberDecode`, `sgrFace` and `apply` are reused here).

Outcome of a decoder: `Res = Except Stop (Option Event)`
* `.ok (some e)` — `Some(event)`;
* `.ok none` — `None` (the tokenizer then hands the bytes on as `Raw`);
* `.error .panic` — an index / slice / subtraction of the Rust code fails (debug profile: overflow checks on);
* `.error .ext` — the outcome is decided by code outside the crate that is not modelled: `RGBA::from_str` of
  `rasterize` on a named colour or on a colour with `/alpha` suffix (only `parse_color` can give it).

Strings.  A Rust `String` is represented by its UTF-8 bytes; `validUtf8` is `std::str::from_utf8(..).is_ok()`
(well-formed sequences of Unicode Table 3-7) and `utf8Lossy` is `String::from_utf8_lossy` (every maximal
invalid subpart becomes U+FFFD).  Termcap names and values are built with `char::from(u8)`: they are
represented by their Latin-1 byte values.
-/
namespace SurfModel.Payload
open SurfModel.Vt SurfModel.Sgr SurfModel.Grammar

/-! ## outcomes -/

inductive Stop where
  | panic
  | ext
  deriving Repr, DecidableEq

/-! ## events -/

/-- `mode as usize` -/
def DecMode.code : DecMode → Nat
  | .visibleCursor => 25 | .autoWrap => 7 | .sixelScrolling => 80 | .mouseReport => 1000
  | .mouseMotions => 1003 | .mouseSGR => 1006 | .altScreen => 1049 | .synchronizedOutput => 2026
  | .bracketedPaste => 2004

def DecMode.all : List DecMode :=
  [.visibleCursor, .autoWrap, .sixelScrolling, .mouseReport, .mouseMotions, .mouseSGR, .altScreen,
   .synchronizedOutput, .bracketedPaste]

/-- `DecMode::from_usize`: first entry of the array with that discriminant -/
def DecMode.fromUsize (code : Nat) : Option DecMode := DecMode.all.find? fun m => m.code == code

def DecModeStatus.code : DecModeStatus → Nat
  | .notRecognized => 0 | .enabled => 1 | .disabled => 2 | .permanentlyEnabled => 3 | .permanentlyDisabled => 4

def DecModeStatus.all : List DecModeStatus :=
  [.notRecognized, .enabled, .disabled, .permanentlyEnabled, .permanentlyDisabled]

/-- `DecModeStatus::from_usize` -/
def DecModeStatus.fromUsize (code : Nat) : Option DecModeStatus :=
  DecModeStatus.all.find? fun s => s.code == code

abbrev Res := Except Stop (Option Event)

/-! ## slices and checked arithmetic -/

/-- `a - b` on `usize` (overflow checks on) -/
def sub? (a b : Nat) : Except Stop Nat := if b ≤ a then .ok (a - b) else .error .panic

/-- `&data[a..b]` -/
def slice? (data : List Nat) (a b : Nat) : Except Stop (List Nat) :=
  if a ≤ b ∧ b ≤ data.length then .ok ((data.drop a).take (b - a)) else .error .panic

/-- `data[i]` -/
def index? (data : List Nat) (i : Nat) : Except Stop Nat :=
  match data[i]? with
  | some b => .ok b
  | none => .error .panic

/-- `slice.splitn(2, |b| *b == sep)`: first piece and, if there was a separator, everything after it -/
def splitn2 (sep : Nat) : List Nat → List Nat × Option (List Nat)
  | [] => ([], none)
  | b :: bs =>
    if b = sep then ([], some bs)
    else let r := splitn2 sep bs; (b :: r.1, r.2)

/-- `numbers_decode(data, sep)`: `data.split(sep).filter_map(number_decode)` (an empty piece decodes to 0) -/
def numbersDecode (data : List Nat) (sep : Nat) : List Nat := (splitBy sep data).filterMap numberDecode

/-- `key_value_decode(sep, data)`: pieces without `=` are dropped -/
def keyValueDecode (sep : Nat) (data : List Nat) : List (List Nat × List Nat) :=
  (splitBy sep data).filterMap fun kv =>
    match splitn2 61 kv with
    | (key, some value) => some (key, value)
    | (_, none) => none

def hexVal? (b : Nat) : Option Nat :=
  if 65 ≤ b ∧ b ≤ 70 then some (b - 65 + 10)
  else if 97 ≤ b ∧ b ≤ 102 then some (b - 97 + 10)
  else if 48 ≤ b ∧ b ≤ 57 then some (b - 48)
  else none

/-- `hex_decode(slice)` collected: pairs of hex digits until the first pair that is not hexadecimal;
    `pair[1]` of a trailing single hex digit is an index out of bounds -/
def hexDecode : List Nat → Except Stop (List Nat)
  | [] => .ok []
  | [a] => match hexVal? a with
    | none => .ok []
    | some _ => .error .panic
  | a :: b :: rest =>
    match hexVal? a with
    | none => .ok []
    | some x =>
      match hexVal? b with
      | none => .ok []
      | some y =>
        match hexDecode rest with
        | .ok l => .ok ((x * 16 + y) :: l)
        | .error e => .error e

/-! ## UTF-8 (std) -/

def isCont (b : Nat) : Bool := 128 ≤ b && b ≤ 191

/-- second byte of a three byte sequence with lead `b` (Table 3-7) -/
def second3 (b c : Nat) : Bool :=
  (b == 0xE0 && 0xA0 ≤ c && c ≤ 0xBF) || (0xE1 ≤ b && b ≤ 0xEC && isCont c) ||
  (b == 0xED && 0x80 ≤ c && c ≤ 0x9F) || (0xEE ≤ b && b ≤ 0xEF && isCont c)

/-- second byte of a four byte sequence with lead `b` -/
def second4 (b c : Nat) : Bool :=
  (b == 0xF0 && 0x90 ≤ c && c ≤ 0xBF) || (0xF1 ≤ b && b ≤ 0xF3 && isCont c) ||
  (b == 0xF4 && 0x80 ≤ c && c ≤ 0x8F)

/-- The sequence that starts with lead byte `b` followed by `rest`: is it well formed, and how many bytes does
    it (or, if it is not, its maximal invalid subpart) take — the loop body of `Utf8Chunks::next`. -/
def utf8Head (b : Nat) (rest : List Nat) : Bool × Nat :=
  if b < 128 then (true, 1)
  else if 0xC2 ≤ b ∧ b ≤ 0xDF then
    match rest with
    | c :: _ => if isCont c then (true, 2) else (false, 1)
    | [] => (false, 1)
  else if 0xE0 ≤ b ∧ b ≤ 0xEF then
    match rest with
    | c :: d :: _ => if second3 b c then (if isCont d then (true, 3) else (false, 2)) else (false, 1)
    | [c] => if second3 b c then (false, 2) else (false, 1)
    | [] => (false, 1)
  else if 0xF0 ≤ b ∧ b ≤ 0xF4 then
    match rest with
    | c :: d :: e :: _ =>
      if second4 b c then (if isCont d then (if isCont e then (true, 4) else (false, 3)) else (false, 2))
      else (false, 1)
    | [c, d] => if second4 b c then (if isCont d then (false, 3) else (false, 2)) else (false, 1)
    | [c] => if second4 b c then (false, 2) else (false, 1)
    | [] => (false, 1)
  else (false, 1)

theorem utf8Head_pos (b : Nat) (rest : List Nat) : 1 ≤ (utf8Head b rest).2 := by
  unfold utf8Head
  repeat' split
  all_goals simp

/-- `std::str::from_utf8(bytes).is_ok()` -/
def validUtf8 : List Nat → Bool
  | [] => true
  | b :: rest =>
    let h := utf8Head b rest
    h.1 && validUtf8 (rest.drop (h.2 - 1))
termination_by l => l.length
decreasing_by
  simp only [List.length_drop, List.length_cons]
  omega

/-- `String::from_utf8_lossy(bytes)` as bytes: U+FFFD is `EF BF BD` -/
def utf8Lossy : List Nat → List Nat
  | [] => []
  | b :: rest =>
    let h := utf8Head b rest
    (if h.1 then (b :: rest).take h.2 else [0xEF, 0xBF, 0xBD]) ++ utf8Lossy (rest.drop (h.2 - 1))
termination_by l => l.length
decreasing_by
  simp only [List.length_drop, List.length_cons]
  omega

/-- `char::from_u32(code).is_some()`: a Unicode scalar value -/
def isScalar (code : Nat) : Bool := code < 0xD800 || (0xE000 ≤ code && code < 0x110000)

/-- `utf8_decode(slice)`: `first & mask`, then `code = code << 6 | byte & 63` per further byte (u32; at most
    21 bits are produced, nothing is shifted out); `char::from_u32_unchecked` asserts validity in the debug
    profile -/
def utf8Decode (data : List Nat) : Except Stop Nat :=
  match data with
  | [] => .error .panic
  | first :: rest =>
    let init : Except Stop Nat := match data.length with
      | 1 => .ok (first % 128)
      | 2 => .ok (first % 32)
      | 3 => .ok (first % 16)
      | 4 => .ok (first % 8)
      | _ => .error .panic
    match init with
    | .error e => .error e
    | .ok code =>
      let code := rest.foldl (fun code byte => code * 64 + byte % 64) code
      if isScalar code then .ok code else .error .panic

/-! ## keys -/

/-- `keyboard_decode_key(code)` -/
def keyboardDecodeKey (code : Nat) : Option KeyName :=
  if code = 27 then some .esc
  else if code = 13 then some .enter
  else if code = 9 then some .tab
  else if code = 127 then some .backspace
  else if 57376 ≤ code ∧ code ≤ 57398 then some (.f (code - 57376 + 13))
  else if code ≤ 4294967295 ∧ ¬ (57344 ≤ code ∧ code ≤ 63743) then
    (if isScalar code then some (.char code) else none)
  else none

/-! ## colours -/

/-- outcome of `RGBA::from_str` (rasterize) -/
inductive ColorParse where
  | ok (c : Rgba)
  | err
  | ext
  deriving Repr, DecidableEq

/-- index of the last `/` (`str::rfind`) -/
def rfindSlash : List Nat → Option Nat
  | [] => none
  | b :: rest =>
    match rfindSlash rest with
    | some i => some (i + 1)
    | none => if b = 47 then some 0 else none

def isNameByte (b : Nat) : Bool := (97 ≤ b && b ≤ 122) || (48 ≤ b && b ≤ 57) || b == 45

/-- the two hex digits of one channel of `#rrggbb(aa)`; `none` = `ColorError::HexExpected` -/
def hexPair? (a b : Nat) : Option Nat :=
  match hexVal? a, hexVal? b with
  | some x, some y => some (x * 16 + y)
  | _, _ => none

/-- `RGBA::from_str_named(color, &SVG_COLORS)` of rasterize: `#rrggbb` and `#rrggbbaa` are modelled; named
    colours (lower case letter followed by letters, digits and `-`) and `/alpha` suffixes are not (`ext`) -/
def rasterParse (s : List Nat) : ColorParse :=
  let cut := rfindSlash s
  let body := match cut with
    | some i => s.take i
    | none => s
  let hashForm := body.head? == some 35 && (body.length == 7 || body.length == 9)
  let nameForm := (match body.head? with | some b => 97 ≤ b && b ≤ 122 | none => false) && body.all isNameByte
  if nameForm || (cut.isSome && hashForm) then .ext
  else if hashForm then
    match body with
    | [_, r1, r2, g1, g2, b1, b2] =>
      (match hexPair? r1 r2, hexPair? g1 g2, hexPair? b1 b2 with
       | some r, some g, some b => .ok ⟨r, g, b, 255⟩
       | _, _, _ => .err)
    | [_, r1, r2, g1, g2, b1, b2, a1, a2] =>
      (match hexPair? r1 r2, hexPair? g1 g2, hexPair? b1 b2, hexPair? a1 a2 with
       | some r, some g, some b, some a => .ok ⟨r, g, b, a⟩
       | _, _, _, _ => .err)
    | _ => .err
  else .err

def hexValue (ds : List Nat) : Option Nat :=
  ds.foldl (fun acc d => match acc, hexVal? d with
    | some a, some v => some (a * 16 + v)
    | _, _ => none) (some 0)

/-- `parse_component(string)`: `usize::from_str_radix(string, 16)` (an optional leading `+` is accepted and
    counts for `string.len()`), scaled by the length of the string -/
def parseComponent (c : List Nat) : Option Nat :=
  if c.length < 1 ∨ 4 < c.length then none else
  let digits := if c.head? == some 43 then c.drop 1 else c
  if digits.isEmpty then none else
  match hexValue digits with
  | none => none
  | some value =>
    let v := match c.length with
      | 4 => value / 256
      | 3 => value / 16
      | 2 => value
      | _ => value * 17
    some (min v 255)

def stripPrefixN : List Nat → List Nat → Option (List Nat)
  | [], s => some s
  | _ :: _, [] => none
  | c :: l, d :: s => if c = d then stripPrefixN l s else none

/-- `parse_color(color_str)` on the bytes of a valid UTF-8 string -/
def parseColor (s : List Nat) : Except Stop (Option Rgba) :=
  match rasterParse s with
  | .ext => .error .ext
  | .ok c => .ok (some c)
  | .err =>
    match stripPrefixN [114, 103, 98, 58] s with
    | none => .ok none
    | some rgb =>
      match splitBy 47 rgb with
      | r :: g :: b :: _ =>
        (match parseComponent r with
         | none => .ok none
         | some r =>
           match parseComponent g with
           | none => .ok none
           | some g =>
             match parseComponent b with
             | none => .ok none
             | some b => .ok (some ⟨r, g, b, 255⟩))
      | _ => .ok none

/-! ## the `Matcher::decode` bodies -/

/-- `CursorPositionMatcher::decode` -/
def decodeCursorPosition (data : List Nat) : Res :=
  match sub? data.length 1 with
  | .error e => .error e
  | .ok n =>
    match slice? data 2 n with
    | .error e => .error e
    | .ok body =>
      let nums := numbersDecode body 59
      match nums[0]? with
      | none => .ok none
      | some r =>
        if r = 0 then .ok none else
        match nums[1]? with
        | none => .ok none
        | some c => if c = 0 then .ok none else .ok (some (.cursorPosition (r - 1) (c - 1)))

/-- `DecModeMatcher::decode` -/
def decodeDecMode (data : List Nat) : Res :=
  match sub? data.length 2 with
  | .error e => .error e
  | .ok n =>
    match slice? data 3 n with
    | .error e => .error e
    | .ok body =>
      let nums := numbersDecode body 59
      match nums[0]? with
      | none => .ok none
      | some m =>
        match DecMode.fromUsize m with
        | none => .ok none
        | some mode =>
          match nums[1]? with
          | none => .ok none
          | some s =>
            match DecModeStatus.fromUsize s with
            | none => .ok none
            | some status => .ok (some (.decMode mode status))

/-- `DeviceAttrsMatcher::decode` -/
def decodeDeviceAttrs (data : List Nat) : Res :=
  match sub? data.length 1 with
  | .error e => .error e
  | .ok n =>
    match slice? data 3 n with
    | .error e => .error e
    | .ok body => .ok (some (.deviceAttrs (Automata.sortDedup ((numbersDecode body 59).filter (0 < ·)))))

/-- `GraphicRenditionMatcher::decode` -/
def decodeSgrBody (data : List Nat) : Except Stop FMod :=
  match sub? data.length 1 with
  | .error e => .error e
  | .ok n =>
    match slice? data 2 n with
    | .error e => .error e
    | .ok body => .ok (sgrFace body)

def decodeSgr (data : List Nat) : Res :=
  match decodeSgrBody data with
  | .error e => .error e
  | .ok m => .ok (some (.command m))

/-- the `for (key, value) in key_value_decode(..)` loop of `KittyImageMatcher::decode`; `none` = early `None` -/
def kittyFields : List (List Nat × List Nat) → Nat → Option Nat → Option (Nat × Option Nat)
  | [], id, placement => some (id, placement)
  | (key, value) :: rest, id, placement =>
    if key = [105] then
      match numberDecode value with
      | none => none
      | some v => kittyFields rest v placement
    else if key = [112] then
      match numberDecode value with
      | none => none
      | some v => kittyFields rest id (some v)
    else kittyFields rest id placement

/-- `KittyImageMatcher::decode` -/
def decodeKittyImage (data : List Nat) : Res :=
  match sub? data.length 2 with
  | .error e => .error e
  | .ok n =>
    match slice? data 3 n with
    | .error e => .error e
    | .ok body =>
      let parts := splitn2 59 body
      match kittyFields (keyValueDecode 44 parts.1) 0 none with
      | none => .ok none
      | some (id, placement) =>
        match parts.2 with
        | none => .ok none
        | some msg =>
          let error := if msg = [79, 75] then none else some (utf8Lossy msg)
          .ok (some (.kittyImage id placement error))

/-- `KittyKeyboardMatcher::decode` -/
def decodeKittyKeyboard (data : List Nat) : Res :=
  match sub? data.length 1 with
  | .error e => .error e
  | .ok n =>
    match slice? data 2 n with
    | .error e => .error e
    | .ok d =>
      if d.head? = some 63 then
        match slice? d 1 d.length with
        | .error e => .error e
        | .ok digits =>
          match numberDecode digits with
          | none => .ok none
          | some level => .ok (some (.keyboardLevel level))
      else
        let fields := splitBy 59 d
        match fields with
        | [] => .ok none
        | codes :: more =>
          match keyboardDecodeKey ((numbersDecode codes 58).head?.getD 1) with
          | none => .ok none
          | some name =>
            match more with
            | [] => .ok (some (.key ⟨name, 0⟩))
            | modes :: _ =>
              let ms := numbersDecode modes 58
              let mode := match ms.head? with
                | some m => if m > 1 then (m - 1) % 4294967296 % 512 else 0
                | none => 0
              let eventType := (ms[1]?).getD 0
              if eventType ≠ 0 then .ok none else .ok (some (.key ⟨name, mode⟩))

/-- name of the button of an SGR mouse report -/
def mouseName (event : Nat) : KeyName :=
  let button := event % 4
  if event / 64 % 2 = 1 then
    (if button = 0 then .mouseWheelDown else if button = 1 then .mouseWheelUp else .mouseMove)
  else if button = 0 then .mouseLeft
  else if button = 1 then .mouseMiddle
  else if button = 2 then .mouseRight
  else .mouseMove

/-- `MouseEventMatcher::decode` -/
def decodeMouse (data : List Nat) : Res :=
  match sub? data.length 1 with
  | .error e => .error e
  | .ok n =>
    match slice? data 3 n with
    | .error e => .error e
    | .ok body =>
      let nums := numbersDecode body 59
      match nums[0]? with
      | none => .ok none
      | some event =>
        match nums[1]? with
        | none => .ok none
        | some c =>
          if c = 0 then .ok none else
          match nums[2]? with
          | none => .ok none
          | some r =>
            if r = 0 then .ok none else
            match index? data n with
            | .error e => .error e
            | .ok last =>
              let mode := event / 4 % 8 + (if last = 77 then modPress else 0)
              .ok (some (.mouse (mouseName event) mode (r - 1) (c - 1)))

/-- `OSControlMatcher::decode` -/
def decodeOsc (data : List Nat) : Res :=
  match sub? data.length 1 with
  | .error e => .error e
  | .ok n1 =>
    match index? data n1 with
    | .error e => .error e
    | .ok last =>
      let stop : Except Stop Nat := if last = 7 then .ok n1 else sub? data.length 2
      match stop with
      | .error e => .error e
      | .ok n =>
        match slice? data 2 n with
        | .error e => .error e
        | .ok body =>
          match splitBy 59 body with
          | [] => .ok none
          | idBytes :: args =>
            match numberDecode idBytes with
            | none => .ok none
            | some id =>
              let named : Option (ColorName × List (List Nat)) :=
                if id = 10 then some (.foreground, args)
                else if id = 11 then some (.background, args)
                else if id = 4 then
                  (match args with
                   | [] => none
                   | ix :: args' =>
                     match numberDecode ix with
                     | none => none
                     | some i => some (.palette i, args'))
                else none
              match named with
              | none => .ok none
              | some (name, rest) =>
                match rest with
                | [] => .ok none
                | text :: _ =>
                  if validUtf8 text then
                    match parseColor text with
                    | .error e => .error e
                    | .ok none => .ok none
                    | .ok (some c) => .ok (some (.color name c))
                  else .ok none

/-- `ReportSettingMatcher::decode` -/
def decodeReportSetting (data : List Nat) : Res :=
  match index? data 2 with
  | .error e => .error e
  | .ok code =>
    match sub? data.length 2 with
    | .error e => .error e
    | .ok n =>
      match slice? data 5 n with
      | .error e => .error e
      | .ok payload =>
        if code ≠ 49 then .ok none
        else if payload.getLast? = some 109 then
          .ok (some (.faceGet (apply (sgrFace payload.dropLast) {})))
        else .ok none

/-- the success loop of `TermCapMatcher::decode` -/
def termcapPairs : List (List Nat × List Nat) → List (List Nat × Option (List Nat)) →
    Except Stop (List (List Nat × Option (List Nat)))
  | [], m => .ok m
  | (key, value) :: rest, m =>
    match hexDecode key with
    | .error e => .error e
    | .ok k =>
      match hexDecode value with
      | .error e => .error e
      | .ok v => termcapPairs rest (mapInsert k (some v) m)

/-- the failure loop of `TermCapMatcher::decode` -/
def termcapNames : List (List Nat) → List (List Nat × Option (List Nat)) →
    Except Stop (List (List Nat × Option (List Nat)))
  | [], m => .ok m
  | key :: rest, m =>
    match hexDecode key with
    | .error e => .error e
    | .ok k => termcapNames rest (mapInsert k none m)

/-- `TermCapMatcher::decode` -/
def decodeTermcap (data : List Nat) : Res :=
  match index? data 2 with
  | .error e => .error e
  | .ok code =>
    match sub? data.length 2 with
    | .error e => .error e
    | .ok n =>
      match slice? data 5 n with
      | .error e => .error e
      | .ok body =>
        let m := if code = 49 then termcapPairs (keyValueDecode 59 body) []
          else termcapNames (splitBy 59 body) []
        match m with
        | .error e => .error e
        | .ok m => .ok (some (.termcap m))

/-- `&chunk[3..chunk.len() - 1]` of one half of the size report, then two numbers -/
def sizePair (chunk : List Nat) : Except Stop (Option (Nat × Nat)) :=
  match sub? chunk.length 1 with
  | .error e => .error e
  | .ok n =>
    match slice? chunk 3 n with
    | .error e => .error e
    | .ok body =>
      let nums := numbersDecode body 59
      match nums[0]?, nums[1]? with
      | some h, some w => .ok (some (h, w))
      | _, _ => .ok none

/-- `TermSizeMatcher::decode` -/
def decodeTermSize (data : List Nat) : Res :=
  match splitBy 27 data with
  | _ :: cell :: more =>
    (match sizePair cell with
     | .error e => .error e
     | .ok none => .ok none
     | .ok (some (ch, cw)) =>
       match more with
       | [] => .ok none
       | pixel :: _ =>
         match sizePair pixel with
         | .error e => .error e
         | .ok none => .ok none
         | .ok (some (ph, pw)) => .ok (some (.size ch cw ph pw)))
  | _ => .ok none

/-- `UTF8Matcher::decode` mapped to a key (event decoder) -/
def decodeUtf8 (data : List Nat) : Res :=
  match utf8Decode data with
  | .error e => .error e
  | .ok c => .ok (some (.key ⟨.char c, 0⟩))

/-- `BracketedPasteMatcher::decode` -/
def decodePaste (data : List Nat) : Res :=
  match sub? data.length 6 with
  | .error e => .error e
  | .ok n =>
    match slice? data 6 n with
    | .error e => .error e
    | .ok text => if validUtf8 text then .ok (some (.paste text)) else .ok none

/-- `Matcher::decode` of the event matcher of a family (`BasicEventsMatcher::decode` is `None`) -/
def decode : Family → List Nat → Res
  | .keys, _ => .ok none
  | .cursorPosition, d => decodeCursorPosition d
  | .decMode, d => decodeDecMode d
  | .deviceAttrs, d => decodeDeviceAttrs d
  | .sgr, d => decodeSgr d
  | .kittyImage, d => decodeKittyImage d
  | .kittyKeyboard, d => decodeKittyKeyboard d
  | .mouse, d => decodeMouse d
  | .osc, d => decodeOsc d
  | .reportSetting, d => decodeReportSetting d
  | .termcap, d => decodeTermcap d
  | .termSize, d => decodeTermSize d
  | .utf8, d => decodeUtf8 d
  | .paste, d => decodePaste d

/-- `Matcher::decode` of the command matcher with the given index (0 SGR, 1 UTF-8) -/
def decodeCommand (index : Nat) (data : List Nat) : Res :=
  match index with
  | 0 => decodeSgr data
  | 1 =>
    (match utf8Decode data with
     | .error e => .error e
     | .ok c => .ok (some (.char c)))
  | _ => .error .panic

/-- what `MatcherDecoder::decode_byte` makes of an accepted token with least tag `tag`: `Item(event)` tags
    carry the event, `Matcher(index)` tags call `matchers[index].decode(buffer)` -/
def decodeTok (tag : Nat) (data : List Nat) : Res :=
  if tag < matcherBase then
    match Key.ofCode tag with
    | some k => .ok (some (.key k))
    | none => .error .panic
  else
    match Family.ofIndex (tag - matcherBase) with
    | some k => decode k data
    | none => .error .panic

def decodeCommandTok (tag : Nat) (data : List Nat) : Res :=
  if tag < matcherBase then .error .panic else decodeCommand (tag - matcherBase) data

/-- `TTYEventDecoder::decode` on one item of the tokenizer: an undecodable token and unrecognised bytes
    become `Raw` -/
def eventOfTok (tag : Nat) (data : List Nat) : Except Stop Event :=
  match decodeTok tag data with
  | .error e => .error e
  | .ok (some e) => .ok e
  | .ok none => .ok (.raw data)

/-! ## canonical text (twin of `harness/src/bin/c04/events.rs`) -/

open SurfModel.Proto

def hexN (bs : List Nat) : String := hex (bs.map UInt8.ofNat)

def showNats (l : List Nat) : String := if l.isEmpty then "-" else ",".intercalate (l.map toString)

def showKeyName (n : KeyName) : String := s!"{n.variant.1}.{n.variant.2}"

def showTri3 : Option Bool → String
  | none => "-" | some true => "1" | some false => "0"

def showFModTok (m : FMod) : String :=
  s!"sgr:{showBit m.reset}/{showRgba m.fg}/{showRgba m.bg}/{showOptNat m.underline}/{showRgba m.underlineColor}/{showTri3 m.bold}{showTri3 m.italic}{showTri3 m.blink}{showTri3 m.strike}"

def showFaceTok (f : DFace) : String :=
  s!"face:{showRgba f.fg}/{showRgba f.bg}/{f.under}/{showBit f.bold}{showBit f.italic}{showBit f.blink}{showBit f.reverse}{showBit f.strike}"

def showEvent : Event → String
  | .key k => s!"key:{showKeyName k.name}.{k.mode}"
  | .mouse n m r c => s!"mouse:{showKeyName n}.{m}@{r},{c}"
  | .cursorPosition r c => s!"cpr:{r},{c}"
  | .size a b c d => s!"size:{a},{b},{c},{d}"
  | .decMode m s => s!"decmode:{m.code},{s.code}"
  | .kittyImage id p e =>
    let p := match p with | some p => toString p | none => "-"
    let e := match e with | none => "ok" | some msg => s!"e{hexN msg}"
    s!"kitty:{id},{p},{e}"
  | .keyboardLevel n => s!"kbd:{n}"
  | .termcap m =>
    if m.isEmpty then "termcap:-" else
    "termcap:" ++ ";".intercalate (m.map fun kv =>
      let v := match kv.2 with | none => "!" | some v => hexN v
      s!"{hexN kv.1}={v}")
  | .deviceAttrs l => s!"da:{showNats l}"
  | .raw b => s!"raw:{hexN b}"
  | .color n c =>
    let n := match n with | .foreground => "fg" | .background => "bg" | .palette i => s!"p{i}"
    s!"color:{n}={showRgba (some c)}"
  | .faceGet f => showFaceTok f
  | .command m => showFModTok m
  | .paste t => s!"paste:{hexN t}"
  | .char c => s!"char:{c}"

def showRes : Res → String
  | .error .panic => "panic"
  | .error .ext => "ext"
  | .ok none => "none"
  | .ok (some e) => s!"some {showEvent e}"

/-! ## line protocol

`pay decode <family index> <hex>`   → `showRes (decode k bytes)`
`pay cdecode <index> <hex>`         → command matcher
`pay tok <tag> <hex>`               → `decodeTok`
`pay decmode <n>` / `pay decstatus <n>` → discriminant or `none`
`pay kbdkey <n>`                    → `keyboard_decode_key`
`pay color <hex>`                   → `parse_color`
`pay utf8 <hex>`                    → `validUtf8` and `utf8Lossy`
-/
def handle : List String → String
  | ["decode", k, d] =>
    match k.toNat?.bind Family.ofIndex, unhexN d with
    | some k, some ds => showRes (decode k ds)
    | _, _ => "bad-op"
  | ["cdecode", k, d] =>
    match k.toNat?, unhexN d with
    | some k, some ds => showRes (decodeCommand k ds)
    | _, _ => "bad-op"
  | ["tok", t, d] =>
    match t.toNat?, unhexN d with
    | some t, some ds => showRes (decodeTok t ds)
    | _, _ => "bad-op"
  | ["decmode", n] =>
    match n.toNat? with
    | some n => (match DecMode.fromUsize n with | some m => toString m.code | none => "none")
    | none => "bad-op"
  | ["decstatus", n] =>
    match n.toNat? with
    | some n => (match DecModeStatus.fromUsize n with | some m => toString m.code | none => "none")
    | none => "bad-op"
  | ["kbdkey", n] =>
    match n.toNat? with
    | some n => (match keyboardDecodeKey n with | some k => showKeyName k | none => "none")
    | none => "bad-op"
  | ["color", d] =>
    match unhexN d with
    | some ds =>
      (match parseColor ds with
       | .error .ext => "ext"
       | .error .panic => "panic"
       | .ok none => "none"
       | .ok (some c) => showRgba (some c))
    | none => "bad-op"
  | ["utf8", d] =>
    match unhexN d with
    | some ds => s!"{showBit (validUtf8 ds)} {hexN (utf8Lossy ds)}"
    | none => "bad-op"
  | _ => "bad-op"

end SurfModel.Payload
