import SurfModel.Proto
import SurfModel.Generated.SixelLevel
import SurfModel.Generated.SixelCache
/-!
# C12 — model of `SixelImageHandler::draw` (src/image.rs) and a reference sixel interpreter

Two independent halves.

* **Encoder** (`encode`): the code of `draw` from the pair `(palette, qimg)` returned by
  `Image::quantize` on: DCS header, raster attributes, palette definition (channel reduction
  `round(v / 2.55)` enters as the regenerated tables `SurfModel.Generated.SixelLevel`), then per band
  (six rows) and per colour of the band the line `#c … $`, with shift (`?` / `!n?`) and repeat (`!n`)
  compression exactly as coded.  The iteration order of the `HashMap<usize, Vec<_>>` holding the lines of
  one band is a parameter `order : band ↦ list of colours`.  The LRU cache of encoded images is `Handler`.
* **Reference interpreter** (`sixel`): written from the sixel chapter of the VT330/VT340 programmer
  reference (DCS P1;P2;P3 q … ST; `"` raster attributes; `#` colour introducer; `!` repeat; `$` graphics
  carriage return; `-` graphics new line; data characters `?`..`~`, least significant bit = top pixel).
  It does not use any definition of the encoder.

Bytes are handled as `Nat` codes internally (`encodeN`, `sixelN`); `encode` / `sixel` are the `UInt8` views.
-/
namespace SurfModel.Sixel
open SurfModel.Generated.SixelLevel

/-- an opaque colour: palette entries carry 0..255 channels, interpreter registers 0..100 levels -/
structure RGB where
  r : Nat
  g : Nat
  b : Nat
  deriving Repr, DecidableEq, Inhabited

/-! ## Encoder -/

/-- Rust `{}` of an unsigned integer: decimal digits, most significant first, as ASCII codes -/
def decimal (n : Nat) : List Nat :=
  if n < 10 then [48 + n] else decimal (n / 10) ++ [48 + n % 10]
decreasing_by omega

/-- the output of `Image::quantize`: a `SurfaceOwned<usize>` of palette indices -/
structure QImg where
  w : Nat
  h : Nat
  rows : List (List Nat)
  deriving Repr

/-- `qimg.get(Position::new(row, col))` with the code's default `0` of `[0usize; 6]` -/
def QImg.get (q : QImg) (row col : Nat) : Nat :=
  match q.rows[row]? with
  | none => 0
  | some r => if col < q.w then r.getD col 0 else 0

/-- `(v as f32 / 2.55).round() as u8` per channel: regenerated tables -/
def level (c : RGB) : RGB := ⟨levelR.getD c.r 0, levelG.getD c.g 0, levelB.getD c.b 0⟩

/-- `((v as f32 / 2.55).round() * 2.55) as u8`: what `draw` does to every channel of every pixel before it
hands the image to `quantize` (`tab` is the level table of the channel) -/
def preChannel (tab : List Nat) (v : Nat) : Nat := tab.getD v 0 * 255 / 100

def preReduce (c : RGB) : RGB := ⟨preChannel levelR c.r, preChannel levelG c.g, preChannel levelB c.b⟩

/-- `b"\x1bPq"` -/
def header : List Nat := [0x1b, 80, 113]

/-- `write!("\"1;1;{};{}", qimg.width(), qimg.height())` -/
def rasterAttrs (w h : Nat) : List Nat := [34, 49, 59, 49, 59] ++ decimal w ++ [59] ++ decimal h

/-- `write!("#{};2;{};{};{}", index, red, green, blue)` -/
def colorDef (index : Nat) (c : RGB) : List Nat :=
  let l := level c
  [35] ++ decimal index ++ [59, 50, 59] ++ decimal l.r ++ [59] ++ decimal l.g ++ [59] ++ decimal l.b

def paletteDefFrom (i : Nat) : List RGB → List Nat
  | [] => []
  | c :: cs => colorDef i c ++ paletteDefFrom (i + 1) cs

/-- `for (index, color) in palette.colors().iter().enumerate()` -/
def paletteDef (pal : List RGB) : List Nat := paletteDefFrom 0 pal

/-- the six palette indices of column `col` in band `b`: `sixel[i] = qimg.get(row + i, col)` -/
def sixelAt (q : QImg) (b col : Nat) : List Nat :=
  (List.range 6).map fun i => q.get (6 * b + i) col

/-- `for (s_index, s_color) in sixel.iter().enumerate() { if s_color == color { code |= 1 << s_index } }` -/
def codeFrom (c : Nat) (i : Nat) : List Nat → Nat
  | [] => 0
  | s :: rest => (if s = c then 2 ^ i else 0) + codeFrom c (i + 1) rest

def codeOf (c : Nat) (six : List Nat) : Nat := codeFrom c 0 six

/-- what the band assembly emits for one colour, before bytes: a literal sixel or `!n` + sixel -/
inductive Tok where
  | lit (code : Nat)
  | rep (n : Nat) (code : Nat)
  deriving Repr, DecidableEq

/-- emit `n` copies of `code` the way the source does (both for the blank shift and for the run):
`!n code` when `n > 3`, else `n` literals -/
def emit (n code : Nat) : List Tok := if n > 3 then [.rep n code] else List.replicate n (.lit code)

/-- length of the run of items `(col+1, code), (col+2, code), …` at the head of `rest`
(the `while let Some(..) = codes.peek()` loop) -/
def runLen (col code : Nat) : List (Nat × Nat) → Nat
  | [] => 0
  | (c, k) :: rest => if c = col + 1 ∧ k = code then 1 + runLen (col + 1) code rest else 0

def dropRun (col code : Nat) : List (Nat × Nat) → List (Nat × Nat)
  | [] => []
  | (c, k) :: rest => if c = col + 1 ∧ k = code then dropRun (col + 1) code rest else (c, k) :: rest

theorem dropRun_length (col code : Nat) (l : List (Nat × Nat)) :
    (dropRun col code l).length ≤ l.length := by
  induction l generalizing col with
  | nil => simp [dropRun]
  | cons p r ih =>
    obtain ⟨c, k⟩ := p
    simp only [dropRun]
    split
    · have := ih (col + 1); simp; omega
    · simp

/-- one colour's line of a band (`while let Some((column, code)) = codes.next()`): items are
`(column, sixel code + 63)` in ascending column order, `offset` is the column the cursor is at -/
def encodeLine (offset : Nat) : List (Nat × Nat) → List Tok
  | [] => []
  | (col, code) :: rest =>
    let reps := 1 + runLen col code rest
    emit (col - offset) 63 ++ emit reps code ++ encodeLine (col + reps) (dropRun col code rest)
termination_by l => l.length
decreasing_by
  have := dropRun_length col code rest
  simp; omega

/-- `encodeLine` with the one subtraction of the loop that can panic in Rust made explicit:
`let shift = column - offset;` on `usize` — `none` = overflow panic.  It never happens for the vectors the
band assembly builds (`SurfProofs.C12.C12_no_underflow`), which is why `encodeLine` may use `Nat` subtraction. -/
def encodeLine? (offset : Nat) : List (Nat × Nat) → Option (List Tok)
  | [] => some []
  | (col, code) :: rest =>
    if col < offset then none else
    let reps := 1 + runLen col code rest
    match encodeLine? (col + reps) (dropRun col code rest) with
    | none => none
    | some ts => some (emit (col - offset) 63 ++ emit reps code ++ ts)
termination_by l => l.length
decreasing_by
  have := dropRun_length col code rest
  simp; omega

def Tok.bytes : Tok → List Nat
  | .lit c => [c]
  | .rep n c => [33] ++ decimal n ++ [c]

def tokBytes (ts : List Tok) : List Nat := ts.flatMap Tok.bytes

/-- `sixel_lines.entry(color).or_default().push(item)`; the map is kept as an association list in order of
first insertion (the order is never used: the iteration order is the parameter `order`) -/
def pushItem : List (Nat × List (Nat × Nat)) → Nat → Nat × Nat → List (Nat × List (Nat × Nat))
  | [], c, it => [(c, [it])]
  | (k, v) :: rest, c, it => if k = c then (k, v ++ [it]) :: rest else (k, v) :: pushItem rest c it

/-- `unique_colors.clear(); unique_colors.extend(sixel.iter().copied())`: the column's colours, each once
(a `HashSet`; the order in which it is walked is irrelevant because every colour pushes to its own vector) -/
def uniqueColours : List Nat → List Nat
  | [] => []
  | a :: l => if a ∈ l then uniqueColours l else a :: uniqueColours l

/-- body of `for col in 0..img.width()` -/
def collectColumn (q : QImg) (b : Nat) (m : List (Nat × List (Nat × Nat))) (col : Nat) :
    List (Nat × List (Nat × Nat)) :=
  let six := sixelAt q b col
  (uniqueColours six).foldl (fun m c => pushItem m c (col, codeOf c six + 63)) m

/-- `sixel_lines` after the column loop of band `b` -/
def collectBand (q : QImg) (b : Nat) : List (Nat × List (Nat × Nat)) :=
  (List.range q.w).foldl (collectColumn q b) []

/-- the `Vec<(usize, u8)>` stored under key `c` -/
def bandLine (q : QImg) (b c : Nat) : List (Nat × Nat) := ((collectBand q b).lookup c).getD []

/-- what that vector is (`SurfProofs.Lemmas.SixelEnc.bandLine_eq`): every column whose six pixels contain
`c`, in ascending column order, with the code of `c`'s bits plus 63 -/
def lineItems (q : QImg) (b c : Nat) : List (Nat × Nat) :=
  (List.range q.w).filterMap fun col =>
    let six := sixelAt q b col
    if c ∈ six then some (col, codeOf c six + 63) else none

/-- `#c` + line + `$` for the vector `items` stored under `c` -/
def colorLineOf (c : Nat) (items : List (Nat × Nat)) : List Nat :=
  [35] ++ decimal c ++ tokBytes (encodeLine 0 items) ++ [36]

def colorLine (q : QImg) (b c : Nat) : List Nat := colorLineOf c (bandLine q b c)

/-- one band: fill the map, then the lines of the colours in hash-map order, then `-` -/
def encodeBand (q : QImg) (b : Nat) (colours : List Nat) : List Nat :=
  let m := collectBand q b
  colours.flatMap (fun c => colorLineOf c ((m.lookup c).getD [])) ++ [45]

theorem encodeBand_def (q : QImg) (b : Nat) (colours : List Nat) :
    encodeBand q b colours = colours.flatMap (colorLine q b) ++ [45] := rfl

/-- `for row in (0..qimg.height()).step_by(6)`: band indices `0 .. ceil(h / 6)` -/
def bandCount (h : Nat) : Nat := (h + 5) / 6

def encodeN (pal : List RGB) (q : QImg) (order : Nat → List Nat) : List Nat :=
  header ++ rasterAttrs q.w q.h ++ paletteDef pal
    ++ (List.range (bandCount q.h)).flatMap (fun b => encodeBand q b (order b))
    ++ [0x1b, 92]

/-- `let height = (img.height() / 6) * 6;` -/
def truncHeight (h : Nat) : Nat := h / 6 * 6

/-- The bytes `draw` writes for `(palette, qimg)` when the band maps iterate in `order`. -/
def encode (pal : List RGB) (q : QImg) (order : Nat → List Nat) : List UInt8 :=
  (encodeN pal q order).map UInt8.ofNat

/-- the colours present in band `b` (keys of the band's hash map), ascending, without duplicates -/
def insertSorted (c : Nat) : List Nat → List Nat
  | [] => [c]
  | d :: ds => if c < d then c :: d :: ds else if c = d then d :: ds else d :: insertSorted c ds

def bandColours (q : QImg) (b : Nat) : List Nat :=
  (List.range q.w).foldl (fun acc col => (sixelAt q b col).foldl (fun acc c => insertSorted c acc) acc) []

/-- canonical order: colours ascending -/
def sortedOrder (q : QImg) : Nat → List Nat := fun b => bandColours q b

/-! ### the cache of encoded images

`imgs: LruCache<u64, Vec<u8>>` (unbounded, most recently used first here), `size` = sum of the cached
lengths, `IMAGE_CACHE_SIZE` = the regenerated `imageCacheSize`.  `key` is `img.hash()`, `enc` what a fresh encoding of the image
would give at this moment (it depends on the iteration order of a new `HashMap`, so it is an argument). -/

/-- `IMAGE_CACHE_SIZE`, regenerated from the implementation on every run -/
def imageCacheSize : Nat := SurfModel.Generated.SixelCache.imageCacheSize

structure Handler where
  imgs : List (Nat × List UInt8)
  size : Nat
  /-- the budget the eviction loop compares `size` with: `IMAGE_CACHE_SIZE` for every handler made by
  `SixelImageHandler::new` (the verification hook `verif_c12::with_cache_size` makes others) -/
  cap : Nat
  deriving Repr

def Handler.new : Handler := ⟨[], 0, imageCacheSize⟩

/-- `verif_c12::with_cache_size` -/
def Handler.withCap (cap : Nat) : Handler := ⟨[], 0, cap⟩

/-- `while self.size > cache_size { pop_lru; self.size -= lru_image.len() }` on the list with the least
recently used entry first (`size - lru.length` cannot underflow: `SurfProofs.C12.C12_no_underflow`) -/
def evictLru (cap : Nat) : List (Nat × List UInt8) → Nat → List (Nat × List UInt8) × Nat
  | [], size => ([], size)
  | (k, lru) :: rest, size =>
    if size > cap then evictLru cap rest (size - lru.length) else ((k, lru) :: rest, size)

/-- `evictLru` with `self.size -= lru_image.len()` as the checked `usize` subtraction it is: `none` = panic -/
def evictLru? (cap : Nat) : List (Nat × List UInt8) → Nat → Option (List (Nat × List UInt8) × Nat)
  | [], size => some ([], size)
  | (k, lru) :: rest, size =>
    if size > cap then (if size < lru.length then none else evictLru? cap rest (size - lru.length))
    else some ((k, lru) :: rest, size)

def evict (cap : Nat) (imgs : List (Nat × List UInt8)) (size : Nat) : List (Nat × List UInt8) × Nat :=
  let (kept, size) := evictLru cap imgs.reverse size
  (kept.reverse, size)

/-- `draw`: a hit writes the cached bytes (and makes the entry most recently used); a miss encodes,
writes, inserts and evicts -/
def Handler.draw (hd : Handler) (key : Nat) (enc : List UInt8) : List UInt8 × Handler :=
  match hd.imgs.lookup key with
  | some bytes => (bytes, { hd with imgs := (key, bytes) :: hd.imgs.filter (fun e => e.1 != key) })
  | none =>
    let (imgs, size) := evict hd.cap ((key, enc) :: hd.imgs) (hd.size + enc.length)
    (enc, ⟨imgs, size, hd.cap⟩)

/-- `SixelImageHandler::erase`: writes nothing and leaves the cache alone (what is drawn next paints over
the old picture; the encoded copy stays available for the next draw) -/
def Handler.erase (hd : Handler) (_key : Nat) : Handler := hd

/-! ### handing the bytes to the sink

Both branches of `draw` hand their bytes over with `out.write_all(..)?` (`std::io::Write::write_all`): the
sink's `write` is called until everything has been taken; `Ok(0)` is the error `WriteZero`, the error kind
`Interrupted` is retried, any other error ends the call (what was taken before stays taken).  `draw` writes
to the sink before it touches the cache on a miss, so a failed first draw leaves the handler unchanged. -/

/-- what one call of the sink's `write` answers -/
inductive Resp where
  /-- `Ok(min n buf.len())` -/
  | accept (n : Nat)
  /-- `Err(ErrorKind::Interrupted)` -/
  | interrupted
  /-- any other error -/
  | fail
  deriving Repr, DecidableEq

/-- `write_all(buf)` against a sink that answers its successive `write` calls by `script` and takes
everything once the script is used up: (bytes that arrived, `Ok`?, rest of the script) -/
def writeAll : List Resp → List UInt8 → List UInt8 → List UInt8 × Bool × List Resp
  | script, [], acc => (acc, true, script)
  | [], b :: buf, acc => (acc ++ b :: buf, true, [])
  | .accept n :: rs, b :: buf, acc =>
    if n = 0 then (acc, false, rs) else writeAll rs ((b :: buf).drop n) (acc ++ (b :: buf).take n)
  | .interrupted :: rs, b :: buf, acc => writeAll rs (b :: buf) acc
  | .fail :: rs, _ :: _, acc => (acc, false, rs)

/-- `draw` into a scripted sink: (bytes that arrived, `Ok`?, handler afterwards, rest of the script) -/
def Handler.drawTo (hd : Handler) (key : Nat) (enc : List UInt8) (script : List Resp) :
    List UInt8 × Bool × Handler × List Resp :=
  match hd.imgs.lookup key with
  | some bytes =>
    -- `self.imgs.get(..)` has refreshed the entry before the bytes are handed over
    let (arrived, ok, rest) := writeAll script bytes []
    (arrived, ok, { hd with imgs := (key, bytes) :: hd.imgs.filter (fun e => e.1 != key) }, rest)
  | none =>
    let (arrived, ok, rest) := writeAll script enc []
    -- `out.write_all(..)?` comes before `self.imgs.put(..)`: an error leaves the cache as it was
    if ok then (arrived, ok, (hd.draw key enc).2, rest) else (arrived, ok, hd, rest)

/-! ## Reference sixel interpreter -/

/-- the picture an interpreter ends with -/
structure Raster where
  /-- size declared by the raster attributes (bounding box of what was painted when there are none) -/
  width : Nat
  height : Nat
  /-- `height` rows of `width` pixels; `none` = never painted -/
  pix : List (List (Option RGB))
  /-- number of pixels painted outside `width × height` -/
  outside : Nat
  /-- colour registers defined, latest definition first -/
  registers : List (Nat × RGB)
  deriving Repr

def Raster.get (r : Raster) (x y : Nat) : Option RGB := (r.pix.getD y []).getD x none

/-- which control function is collecting numeric parameters -/
inductive Pending where
  | idle
  | raster
  | color
  | repeat
  deriving Repr, DecidableEq

structure St where
  pend : Pending := .idle
  /-- completed parameters, last first -/
  params : List Nat := []
  /-- parameter being read (`none`: no digit yet = default) -/
  cur : Option Nat := none
  /-- colour registers: number ↦ RGB levels, latest definition first -/
  regs : List (Nat × RGB) := []
  /-- selected register -/
  color : Option Nat := none
  /-- repeat count waiting for its data character -/
  rep : Option Nat := none
  x : Nat := 0
  band : Nat := 0
  declared : Option (Nat × Nat) := none
  seenData : Bool := false
  /-- rows of pixels, grown on demand -/
  canvas : List (List (Option RGB)) := []
  outside : Nat := 0
  deriving Repr

/-- `l` with position `i` replaced by `f (l[i] or d)`, padding with `d` -/
def modifyPad {α} (d : α) (f : α → α) : List α → Nat → List α
  | [], 0 => [f d]
  | [], i + 1 => d :: modifyPad d f [] i
  | a :: l, 0 => f a :: l
  | a :: l, i + 1 => a :: modifyPad d f l i

def canvasGet (cv : List (List (Option RGB))) (x y : Nat) : Option RGB := (cv.getD y []).getD x none

def paintPixel (cv : List (List (Option RGB))) (x y : Nat) (c : RGB) : List (List (Option RGB)) :=
  modifyPad [] (fun row => modifyPad none (fun _ => some c) row x) cv y

def isOutside (declared : Option (Nat × Nat)) (x y : Nat) : Bool :=
  match declared with
  | none => false
  | some (w, h) => x ≥ w || y ≥ h

/-- one data character with pattern `bits` (= code − 63) at column `x` of band `band`: bit `i`
(least significant = top) set ⇒ pixel `(x, 6·band + i)` takes colour `c` -/
def paintBits (declared : Option (Nat × Nat)) (c : RGB) (x band bits : Nat) :
    Nat → List (List (Option RGB)) × Nat → List (List (Option RGB)) × Nat
  | 0, acc => acc
  | i + 1, acc =>
    let (cv, out) := paintBits declared c x band bits i acc
    if bits.testBit i then
      (paintPixel cv x (6 * band + i) c, if isOutside declared x (6 * band + i) then out + 1 else out)
    else (cv, out)

/-- the same character `n` times at columns `x, x+1, …` -/
def paintRun (declared : Option (Nat × Nat)) (c : RGB) (band bits : Nat) :
    Nat → Nat → List (List (Option RGB)) × Nat → List (List (Option RGB)) × Nat
  | _, 0, acc => acc
  | x, n + 1, acc => paintRun declared c band bits (x + 1) n (paintBits declared c x band bits 6 acc)

/-- all parameters of the pending control function, in order; an omitted parameter is `0` -/
def St.allParams (st : St) : List Nat := (st.cur.getD 0 :: st.params).reverse

def St.clear (st : St) : St := { st with pend := .idle, params := [], cur := none }

/-- the control function whose parameters have all been read takes effect -/
def finalize (st : St) : Option St :=
  match st.pend with
  | .idle => some st
  | .raster =>
    -- `" Pan ; Pad ; Ph ; Pv` — must precede all sixel data
    if st.seenData then none else
    match st.allParams with
    | [_, _, ph, pv] => some { st.clear with declared := some (ph, pv) }
    | [_, _] => some st.clear
    | [_] => some st.clear
    | _ => none
  | .color =>
    match st.allParams with
    | [pc] => if pc < 256 then some { st.clear with color := some pc } else none
    | [pc, pu, px, py, pz] =>
      -- `# Pc ; Pu ; Px ; Py ; Pz`, Pu = 2: RGB in percent (Pu = 1, HLS, is not supported here)
      if pc < 256 ∧ pu = 2 ∧ px ≤ 100 ∧ py ≤ 100 ∧ pz ≤ 100 then
        some { st.clear with regs := (pc, ⟨px, py, pz⟩) :: st.regs, color := some pc }
      else none
    | _ => none
  | .repeat =>
    match st.allParams with
    | [n] => some { st.clear with rep := some (if n = 0 then 1 else n) }
    | _ => none

/-- a byte that is neither digit nor `;`, with no control function pending -/
def stepGround (st : St) (b : Nat) : Option St :=
  if 63 ≤ b ∧ b ≤ 126 then
    match st.color with
    | none => none
    | some k =>
      match st.regs.lookup k with
      | none => none
      | some c =>
        let n := st.rep.getD 1
        let (cv, out) := paintRun st.declared c st.band (b - 63) st.x n (st.canvas, st.outside)
        some { st with canvas := cv, outside := out, x := st.x + n, rep := none, seenData := true }
  else if st.rep.isSome then none    -- `!n` must be followed by a data character
  else if b = 34 then some { st with pend := .raster }
  else if b = 35 then some { st with pend := .color }
  else if b = 33 then some { st with pend := .repeat }
  else if b = 36 then some { st with x := 0 }
  else if b = 45 then some { st with x := 0, band := st.band + 1 }
  else none

def step (st : St) (b : Nat) : Option St :=
  if 48 ≤ b ∧ b ≤ 57 then
    if st.pend = .idle then none else some { st with cur := some (st.cur.getD 0 * 10 + (b - 48)) }
  else if b = 59 then
    if st.pend = .idle then none else some { st with params := st.cur.getD 0 :: st.params, cur := none }
  else
    match finalize st with
    | none => none
    | some st' => stepGround st' b

def run (st : St) : List Nat → Option St
  | [] => some st
  | b :: bs => match step st b with
    | none => none
    | some st' => run st' bs

/-- `DCS P1 ; P2 ; P3 q`: returns what follows the final `q` -/
def stripParams : List Nat → Option (List Nat)
  | [] => none
  | b :: bs => if (48 ≤ b ∧ b ≤ 57) ∨ b = 59 then stripParams bs else if b = 113 then some bs else none

def stripDCS : List Nat → Option (List Nat)
  | 0x1b :: 80 :: rest => stripParams rest
  | 0x90 :: rest => stripParams rest
  | _ => none

/-- the string terminator must end the input: `ESC \` or the 8-bit ST -/
def stripST (l : List Nat) : Option (List Nat) :=
  match l.reverse with
  | 92 :: 0x1b :: bodyRev => some bodyRev.reverse
  | 0x9c :: bodyRev => some bodyRev.reverse
  | _ => none

def maxRowLen (cv : List (List (Option RGB))) : Nat := cv.foldl (fun m row => max m row.length) 0

def St.toRaster (st : St) : Raster :=
  let (w, h) := match st.declared with
    | some wh => wh
    | none => (maxRowLen st.canvas, st.canvas.length)
  { width := w, height := h,
    pix := (List.range h).map fun y => (List.range w).map fun x => canvasGet st.canvas x y,
    outside := st.outside, registers := st.regs }

def sixelN (bytes : List Nat) : Option Raster :=
  match stripDCS bytes with
  | none => none
  | some rest =>
    match stripST rest with
    | none => none
    | some body =>
      match run {} body with
      | none => none
      | some st =>
        match finalize st with
        | none => none
        | some st' => if st'.rep.isSome then none else some st'.toRaster

/-- The reference interpreter. -/
def sixel (bytes : List UInt8) : Option Raster := sixelN (bytes.map UInt8.toNat)

/-! ## line protocol

* `enc <w> <h> <pal hex: 3 bytes per colour> <q hex: 2 bytes per pixel, row-major>` — the model of the
  code with the canonical colour order (ascending in every band), as hex
* `dec <hex>` — the reference interpreter on implementation bytes:
  `ok <w> <h> <all|holes> <outside> <regs≤256> <3 bytes per pixel hex>` or `none`
* `sum <hex>` — the same without the pixels
* `handover <miss|hit> <pattern> <reps> <len>` — `draw` of an image whose encoding has `len` bytes into a sink
  whose `write` calls answer `pattern` (`aN` accept N, `i` interrupted, `f` fail, separated by `.`)
  repeated `reps` times: `<ok|err> <bytes arrived> <cached|not-cached>`
* `pre <r> <g> <b>` — the channel reduction applied before quantisation
* `draw <w> <h> <pal hex> <q hex>` — `draw` on a cache miss for a view of `w × h` pixels whose truncated,
  reduced image quantises to `(pal, q)`: nothing (`-`) when the view has no column or fewer than six rows,
  else as `enc` with the height truncated to a multiple of six
* `cache <budget> <key:len,…>` — the cache model with that budget on a sequence of draws: `h`/`m` and `size`
  after every draw, then `| size key:len,…` (most recently used first)
-/

def chunk3 : List UInt8 → List RGB
  | r :: g :: b :: rest => ⟨r.toNat, g.toNat, b.toNat⟩ :: chunk3 rest
  | _ => []

def chunk2 : List UInt8 → List Nat
  | a :: b :: rest => (a.toNat * 256 + b.toNat) :: chunk2 rest
  | _ => []

def rowsOf (w : Nat) : Nat → List Nat → List (List Nat)
  | 0, _ => []
  | h + 1, l => l.take w :: rowsOf w h (l.drop w)

def showRaster (r : Raster) (withPixels : Bool) : String :=
  let flat := r.pix.flatMap id
  let full := flat.all Option.isSome && flat.length == r.width * r.height
  let pixels := flat.flatMap fun p => match p with
    | some c => [UInt8.ofNat c.r, UInt8.ofNat c.g, UInt8.ofNat c.b]
    | none => [255, 255, 255]
  let regs := (r.registers.map (·.1)).eraseDups.length
  s!"ok {r.width} {r.height} {if full then "all" else "holes"} {r.outside} {if regs ≤ 256 then "regs-ok" else "regs-over"}"
    ++ (if withPixels then " " ++ Proto.hex pixels else "")

def handle : List String → String
  | ["enc", w, h, pal, qs] =>
    match w.toNat?, h.toNat?, Proto.unhex pal, Proto.unhex qs with
    | some w, some h, some pal, some qs =>
      let q : QImg := ⟨w, h, rowsOf w h (chunk2 qs)⟩
      Proto.hex (encode (chunk3 pal) q (sortedOrder q))
    | _, _, _, _ => "bad-op"
  | ["dec", bytes] =>
    match Proto.unhex bytes with
    | some bs => match sixel bs with
      | some r => showRaster r true
      | none => "none"
    | none => "bad-op"
  | ["draw", w, h, pal, qs] =>
    match w.toNat?, h.toNat?, Proto.unhex pal, Proto.unhex qs with
    | some w, some h, some pal, some qs =>
      let th := truncHeight h
      if w = 0 ∨ th = 0 then Proto.hex []
      else
        let q : QImg := ⟨w, th, rowsOf w th (chunk2 qs)⟩
        Proto.hex (encode (chunk3 pal) q (sortedOrder q))
    | _, _, _, _ => "bad-op"
  | ["handover", branch, pattern, reps, len] =>
    let resp? : String → Option Resp := fun t =>
      if t == "i" then some .interrupted else if t == "f" then some .fail
      else if t.startsWith "a" then (t.drop 1).toNat?.map .accept else none
    match (pattern.splitOn ".").mapM resp?, reps.toNat?, len.toNat? with
    | some pat, some reps, some len =>
      let script := (List.replicate reps pat).flatten
      let enc : List UInt8 := (List.range len).map fun i => UInt8.ofNat (i % 251)
      let hd : Handler := if branch == "hit" then (Handler.new.draw 1 enc).2 else Handler.new
      let (arrived, ok, hd', _) := hd.drawTo 1 enc script
      s!"{if ok then "ok" else "err"} {arrived.length} {if (hd'.imgs.lookup 1).isSome then "cached" else "not-cached"}"
    | _, _, _ => "bad-op"
  | ["cache", budget, ops] =>
    match budget.toNat?, (if ops == "-" then some [] else (ops.splitOn ",").mapM fun o =>
        match o.splitOn ":" with
        | [k, l] => do pure ((← k.toNat?), (← l.toNat?))
        | _ => none) with
    | some budget, some ops =>
      let (hd, trace) := ops.foldl (fun (acc : Handler × String) (op : Nat × Nat) =>
        let hit := (acc.1.imgs.lookup op.1).isSome
        let hd := (acc.1.draw op.1 (List.replicate op.2 0)).2
        (hd, acc.2 ++ s!"{if hit then "h" else "m"}{hd.size} ")) (Handler.withCap budget, "")
      let content := hd.imgs.map fun e => s!"{e.1}:{e.2.length}"
      s!"{trace}| {hd.size} {if content.isEmpty then "-" else ",".intercalate content}"
    | _, _ => "bad-op"
  | ["pre", r, g, b] =>
    match r.toNat?, g.toNat?, b.toNat? with
    | some r, some g, some b => let c := preReduce ⟨r, g, b⟩; s!"{c.r} {c.g} {c.b}"
    | _, _, _ => "bad-op"
  | ["sum", bytes] =>
    match Proto.unhex bytes with
    | some bs => match sixel bs with
      | some r => showRaster r false
      | none => "none"
    | none => "bad-op"
  | _ => "bad-op"

end SurfModel.Sixel
