import SurfModel.Proto
import SurfModel.SerdeView
/-!
# Line protocol for the view deserialiser model (driver side only; nothing here is used by a theorem)

`c19 doc <kind> <L|V> <glyphs> <widths> <token>…`
* kind: `view` | `text` | `glyph`
* `L`: answer `ok` + the layout trees under the fixed constraints (documents on C10's exact grid),
  `V`: verdict only (`ok` / `err` / `panic`)
* widths: `cp:w` items separated by `,` (`-` = none) for the characters that are not printable ASCII
* tokens (prefix form of the value): `N` null, `T` / `F` booleans, `P<n>` / `M<i>` integers, `R<m>p<e>` the
  float `m · 2^e`, `S<code points separated by .>` (`S-` empty), `A<n>` array of the next n values,
  `O<n>` object of the next n members (key string token, then value)
The harness has already asked rasterize about every `path` string and every `scene` value of the document and
replaced them by the strings `ok` / `bad` (resp. `T` / `F`): `pathOk`, `sceneOk` of the model are these answers.
-/
namespace SurfModel.SerdeView
open SurfModel.Serde SurfModel.ViewLayout SurfModel.Proto

def readStr (s : String) : Option (List Char) :=
  if s == "-" then some [] else (s.splitOn ".").mapM (fun x => x.toNat?.map Char.ofNat)

/-- `m · 2^e` as a fraction -/
def dyadic (m e : Int) : Num :=
  if e ≥ 0 then .float (m * (2 : Int) ^ e.toNat) 1 else .float m (2 ^ (-e).toNat)

partial def parseJV : List String → Option (JV × List String)
  | [] => none
  | t :: ts =>
    let tag := (t.take 1).toString
    let rest := (t.drop 1).toString
    if t == "N" then some (.null, ts)
    else if t == "T" then some (.bool true, ts)
    else if t == "F" then some (.bool false, ts)
    else if tag == "P" then rest.toNat?.map fun n => (.num (.pos n), ts)
    else if tag == "M" then rest.toInt?.map fun i => (.num (.neg i), ts)
    else if tag == "R" then
      match rest.splitOn "p" with
      | [m, e] => do pure (.num (dyadic (← m.toInt?) (← e.toInt?)), ts)
      | _ => none
    else if tag == "S" then (readStr rest).map fun s => (.str s, ts)
    else if tag == "A" then do
      let n ← rest.toNat?
      let mut items : Array JV := #[]
      let mut cur := ts
      for _ in [0:n] do
        let (v, r) ← parseJV cur
        items := items.push v
        cur := r
      pure (.arr items.toList, cur)
    else if tag == "O" then do
      let n ← rest.toNat?
      let mut items : Array (List Char × JV) := #[]
      let mut cur := ts
      for _ in [0:n] do
        match cur with
        | k :: r0 =>
          let key ← readStr ((k.drop 1).toString)
          let (v, r) ← parseJV r0
          items := items.push (key, v)
          cur := r
        | [] => none
      pure (.obj items.toList, cur)
    else none

/-- a literal `f32::from_str` accepts: `[+-] (digits [. digits*] | . digits+) [e [+-] digits+]`, `inf`,
    `infinity`, `nan` in any case -/
def isF32Literal (s : List Char) : Bool :=
  let s := match s with | '+' :: r => r | '-' :: r => r | _ => s
  let low := String.ofList (s.map Char.toLower)
  if low == "inf" || low == "infinity" || low == "nan" then true else
  let digits := s.takeWhile Char.isDigit
  let r1 := s.dropWhile Char.isDigit
  let (frac, r2, dot) := match r1 with
    | '.' :: r => (r.takeWhile Char.isDigit, r.dropWhile Char.isDigit, true)
    | _ => ([], r1, false)
  let mantOk := !digits.isEmpty || (dot && !frac.isEmpty)
  let expOk := match r2 with
    | [] => true
    | c :: r =>
      if c == 'e' || c == 'E' then
        let r := match r with | '+' :: x => x | '-' :: x => x | _ => r
        !r.isEmpty && r.all Char.isDigit
      else false
  mantOk && expOk

def readWidths (s : String) : Option (List (Nat × Nat)) :=
  if s == "-" then some [] else
  (s.splitOn ",").mapM fun item => match item.splitOn ":" with
    | [a, b] => do pure (← a.toNat?, ← b.toNat?)
    | _ => none

/-- the harness' colour table (`color_table()` of c19.rs) -/
def protoColors : List (List Char × RGBA) :=
  [("purple".toList, ⟨177, 98, 134, 255⟩), ("gruv-red-2".toList, ⟨204, 36, 29, 128⟩), ("é".toList, ⟨1, 2, 3, 0⟩),
   ("#12".toList, ⟨9, 9, 9, 9⟩)]

def protoExt (widths : List (Nat × Nat)) : Ext where
  sched := defaultSched
  named := fun n => protoColors.lookup n
  alpha := fun s => if isF32Literal s then some id else none
  width := fun c => match widths.lookup c.toNat with
    | some w => w
    | none => if 32 ≤ c.toNat ∧ c.toNat < 127 then 1 else 0
  pathOk := fun s => s == "ok".toList
  sceneOk := fun j => match j with | .bool true => true | _ => false

/-- the constraints under which layouts are compared: (min h, min w, max h, max w) -/
def protoCts : List Ct :=
  [⟨⟨0, 0⟩, ⟨6, 12⟩⟩, ⟨⟨3, 7⟩, ⟨3, 7⟩⟩, ⟨⟨0, 0⟩, ⟨0, 0⟩⟩, ⟨⟨2, 2⟩, ⟨40, 50⟩⟩, ⟨⟨0, 0⟩, ⟨1, 1000⟩⟩]

def showLayouts (v : V) (glyphs : Bool) : String :=
  " ".intercalate (protoCts.map fun ct =>
    match v.layout ⟨glyphs, ⟨37, 15⟩⟩ ct with
    | .ok t => showLT t
    | .error e => showPanic e)

def handleDoc : List String → String
  | kind :: mode :: glyphs :: widths :: toks =>
    match readWidths widths, parseJV toks with
    | some ws, some (j, []) =>
      let ext := protoExt ws
      let r := if kind == "view" then deView ext j else if kind == "text" then deText ext j else deGlyphV ext j
      match r with
      | .error .invalid => "err"
      | .error .panic => "panic"
      | .ok v => if mode == "L" then "ok " ++ showLayouts v (glyphs == "1") else "ok"
    | _, _ => "bad-op"
  | _ => "bad-op"

end SurfModel.SerdeView
