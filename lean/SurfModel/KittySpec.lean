import SurfModel.KittyB64
/-!
# Kitty graphics protocol — reference interpreter and property monitor (specification side of C11)

Written from the protocol description (https://sw.kovidgoyal.net/kitty/graphics-protocol/), independent of
`src/image.rs`:

* `lex`      : byte stream → bodies of the `ESC _ G … ESC \` application-programming-commands, everything else
               in the stream (CSI sequences, `ESC 7`, text) is skipped;
* `parseBody`: `key=value,key=value;payload` → control keys and payload text;
* `assemble` : chunked transfers (`m=1 … m=0`) are reassembled, the text is base64-decoded;
               `a=t|T` transmit, `a=p` put, `a=d` delete; absent `i` / `p` are `0` = *unspecified*;
* `kittyWith`: the composition, `none` on anything malformed; the base64 decoder applied to the reassembled
               text is the parameter `dec`;
* `kitty`    : `kittyWith` the strict RFC 4648 decoder `rfcDecode` (C11 also instantiates `dec` with the
               identity — the reassembled text itself — and with the model of the crate's streaming
               `Base64Decoder` under an arbitrary reader schedule, see `SurfProofs/C11.lean`);
* `Mon`      : the client-visible bookkeeping a terminal does (which image ids hold which pixel data, which
               placements exist) with the rules C11 states; `accepts` runs it over a history.
-/
namespace SurfModel.KittySpec
open SurfModel.KittyB64

/-! ## lexical layer -/

inductive Mode
  | ground | esc | und | body | bodyEsc | other | otherEsc | bad
  deriving DecidableEq, Repr

structure LexSt where
  mode : Mode
  /-- body collected so far, reversed -/
  cur : List UInt8
  /-- complete bodies, latest first -/
  out : List (List UInt8)

/-- one byte of the stream. `ESC _ G` opens a graphics command, `ESC \` closes it; an `ESC` inside a body
that is not followed by `\` is malformed; other APC strings are skipped up to their `ESC \`. -/
def lexStep (s : LexSt) (b : UInt8) : LexSt :=
  match s.mode with
  | .ground => if b = 27 then { s with mode := .esc } else s
  | .esc => if b = 95 then { s with mode := .und } else if b = 27 then s else { s with mode := .ground }
  | .und =>
    if b = 71 then { s with mode := .body, cur := [] }
    else if b = 27 then { s with mode := .otherEsc } else { s with mode := .other }
  | .body => if b = 27 then { s with mode := .bodyEsc } else { s with cur := b :: s.cur }
  | .bodyEsc =>
    if b = 92 then { mode := .ground, cur := [], out := s.cur.reverse :: s.out } else { s with mode := .bad }
  | .other => if b = 27 then { s with mode := .otherEsc } else s
  | .otherEsc =>
    if b = 92 then { s with mode := .ground } else if b = 27 then s else { s with mode := .other }
  | .bad => s

def lexInit : LexSt := ⟨.ground, [], []⟩

/-- bodies of the graphics commands of a stream; `none` if a command is unterminated or malformed -/
def lex (bs : List UInt8) : Option (List (List UInt8)) :=
  let s := bs.foldl lexStep lexInit
  if s.mode = .ground then some s.out.reverse else none

/-! ## control data -/

/-- part before the first `sep`, part after it (empty when there is none) -/
def cut (sep : UInt8) : List UInt8 → List UInt8 × List UInt8
  | [] => ([], [])
  | b :: rest => if b = sep then ([], rest) else ((cut sep rest).1.cons b, (cut sep rest).2)

/-- split at every `sep` -/
def splitOn (sep : UInt8) : List UInt8 → List (List UInt8)
  | [] => [[]]
  | b :: rest =>
    if b = sep then [] :: splitOn sep rest
    else match splitOn sep rest with
      | [] => [[b]]
      | h :: t => (b :: h) :: t

inductive Val
  | num (n : Nat)
  | raw (bs : List UInt8)
  deriving DecidableEq, Repr

def isDigit (b : UInt8) : Bool := 48 ≤ b.toNat && b.toNat ≤ 57

/-- decimal value of a digit string -/
def readNat (ds : List UInt8) : Nat := ds.foldl (fun acc d => acc * 10 + (d.toNat - 48)) 0

def parseVal (v : List UInt8) : Val := if v.all isDigit then .num (readNat v) else .raw v

def parseItem : List UInt8 → Option (UInt8 × Val)
  | k :: e :: c :: v => if e = 61 then some (k, parseVal (c :: v)) else none
  | _ => none

structure Raw where
  keys : List (UInt8 × Val)
  payload : List UInt8
  deriving DecidableEq, Repr

def parseBody (body : List UInt8) : Option Raw :=
  let c := (cut 59 body).1
  let p := (cut 59 body).2
  if c = [] then some ⟨[], p⟩
  else match (splitOn 44 c).mapM parseItem with
    | some items => some ⟨items, p⟩
    | none => none

def Raw.find (r : Raw) (k : UInt8) : Option Val := r.keys.lookup k

/-- numeric key with default -/
def Raw.numD (r : Raw) (k : UInt8) (d : Nat) : Option Nat :=
  match r.find k with
  | none => some d
  | some (.num n) => some n
  | some (.raw _) => none

/-- single character key with default -/
def Raw.chrD (r : Raw) (k : UInt8) (d : UInt8) : Option UInt8 :=
  match r.find k with
  | none => some d
  | some (.raw [c]) => some c
  | some _ => none

/-! ## commands -/

inductive KCmd
  /-- `a=t` (`display = false`) or `a=T`: image data for id `id`; `fmt` = `f`, `w` = `s`, `h` = `v`,
      `comp` = `o`, `data` = reassembled base64-decoded payload, `chunks` = sizes of the payload chunks
      in the order received (all but the last carried `m=1`, the last `m=0` or no `m`) -/
  | transmit (display : Bool) (id fmt w h : Nat) (comp : Option Val) (data : List UInt8) (chunks : List Nat)
  /-- `a=p`: display image `id` as placement `pid` at the cursor -/
  | put (id pid : Nat)
  /-- `a=d`: delete, `what` = `d` (default `a`) -/
  | delete (what : UInt8) (id pid : Nat)
  deriving DecidableEq, Repr

/-- a transfer completed: first command's keys, all chunks in order; `dec` decodes the reassembled text -/
def finishTx (dec : List UInt8 → Option (List UInt8)) (first : Raw) (chunks : List (List UInt8)) : Option KCmd :=
  match first.chrD 97 116, first.numD 105 0, first.numD 102 32, first.numD 115 0, first.numD 118 0,
        dec chunks.flatten with
  | some a, some id, some f, some s, some v, some data =>
    some (.transmit (a == 84) id f s v (first.find 111) data (chunks.map List.length))
  | _, _, _, _, _, _ => none

structure AsmSt where
  /-- chunked transfer in progress: first command, chunks so far (latest first) -/
  pending : Option (Raw × List (List UInt8))
  /-- commands, latest first -/
  out : List KCmd
  ok : Bool

def asmFail (st : AsmSt) : AsmSt := { st with ok := false }

def asmEmit (st : AsmSt) : Option KCmd → AsmSt
  | some c => { st with pending := none, out := c :: st.out }
  | none => asmFail st

def asmStep (dec : List UInt8 → Option (List UInt8)) (st : AsmSt) (r : Raw) : AsmSt :=
  match st.pending with
  | some (first, chunks) =>
    -- while a chunked transfer is open every command continues it; only `m` matters
    match r.numD 109 0 with
    | some 0 => asmEmit st (finishTx dec first (r.payload :: chunks).reverse)
    | some 1 => { st with pending := some (first, r.payload :: chunks) }
    | _ => asmFail st
  | none =>
    match r.chrD 97 116 with
    | none => asmFail st
    | some a =>
      if a = 116 ∨ a = 84 then
        match r.numD 109 0 with
        | some 0 => asmEmit st (finishTx dec r [r.payload])
        | some 1 => { st with pending := some (r, [r.payload]) }
        | _ => asmFail st
      else if a = 112 then
        match r.numD 105 0, r.numD 112 0 with
        | some i, some p => asmEmit st (some (.put i p))
        | _, _ => asmFail st
      else if a = 100 then
        match r.chrD 100 97, r.numD 105 0, r.numD 112 0 with
        | some d, some i, some p => asmEmit st (some (.delete d i p))
        | _, _, _ => asmFail st
      else asmFail st

def asmInit : AsmSt := ⟨none, [], true⟩

def assemble (dec : List UInt8 → Option (List UInt8)) (raws : List Raw) : Option (List KCmd) :=
  let st := raws.foldl (asmStep dec) asmInit
  if st.ok ∧ st.pending.isNone then some st.out.reverse else none

/-- The reference interpreter: the graphics commands a terminal reads from a byte stream, the payload text of
a transmission decoded by `dec`. -/
def kittyWith (dec : List UInt8 → Option (List UInt8)) (bs : List UInt8) : Option (List KCmd) :=
  match lex bs with
  | none => none
  | some bodies =>
    match bodies.mapM parseBody with
    | none => none
    | some raws => assemble dec raws

/-- The reference interpreter with the strict RFC 4648 decoder. -/
def kitty (bs : List UInt8) : Option (List KCmd) := kittyWith rfcDecode bs

/-! ## what a deletion addresses (protocol: `d=i` deletes the placements of image `i`; with `p` only that
placement; `p=0` / absent = all placements of the image) -/

def deletes (what id pid : Nat) (placement : Nat × Nat) : Bool :=
  what == 105 && id == placement.1 && (pid == 0 || pid == placement.2)

/-! ## the property monitor -/

/-- pixel content: width, height, RGBA bytes row-major -/
structure Content where
  w : Nat
  h : Nat
  pix : List UInt8
  deriving DecidableEq, Repr

/-- a placement made by a draw event -/
structure Placed where
  ct : Content
  row : Nat
  col : Nat
  id : Nat
  pid : Nat
  deriving DecidableEq, Repr

structure Mon where
  /-- image ids whose pixel data the terminal holds and for which no error was reported since -/
  live : List (Nat × Content)
  /-- placements created by draw events and not erased since -/
  placed : List Placed

def Mon.init : Mon := ⟨[], []⟩

/-- events of a history as the property sees them -/
inductive SEv
  | draw (ct : Content) (row col : Nat)
  | erase (ct : Content) (pos : Option (Nat × Nat))
  /-- the terminal reported an error for image `id` (and, if given, its placement `placement`) -/
  | error (id : Nat) (placement : Option Nat)
  | other
  deriving Repr

/-! ### cursor addressing (`CSI row ; col H`), as far as the property needs it: where a re-draw goes -/

/-- after `ESC [`: `digits ; digits H` → zero-based (row, col) -/
def parseCup (rest : List UInt8) : Option (Nat × Nat) :=
  let a := rest.takeWhile isDigit
  match rest.dropWhile isDigit with
  | c :: r2 =>
    if c = 59 then
      let b := r2.takeWhile isDigit
      match r2.dropWhile isDigit with
      | d :: _ => if d = 72 ∧ a ≠ [] ∧ b ≠ [] then some (readNat a - 1, readNat b - 1) else none
      | [] => none
    else none
  | [] => none

/-- target of the first cursor-position command of a byte stream -/
def cursorTarget : List UInt8 → Option (Nat × Nat)
  | [] => none
  | b :: rest => if b = 27 ∧ rest.head? = some 91 then parseCup rest.tail else cursorTarget rest

/-- placement ids this client hands out (32 bit, non-zero); anything else in a response is foreign -/
def ownPlacement (p : Nat) : Bool := 1 ≤ p && p < 4294967296

def chunkRules (chunks : List Nat) : Bool := chunks.all (· ≤ 4096) && chunks.all (· % 4 == 0)

/-- rules that hold for every command whatever event caused it: ids are never 0; pixel data is RGBA,
uncompressed, of the declared size, in legal chunks, and not sent again while the terminal holds it —
neither under the same id nor, the same pixel content, under any other id;
a placement refers to an image the terminal holds; deletions are by image id (`d=i`, data kept) -/
def Mon.feed (m : Mon) : KCmd → Option Mon
  | .transmit display id fmt w h comp data chunks =>
    if id ≠ 0 ∧ display = false ∧ fmt = 32 ∧ comp = none ∧ (m.live.lookup id).isNone
        ∧ m.live.all (fun e => e.2 != ⟨w, h, data⟩) ∧ chunkRules chunks
        ∧ data.length = 4 * (w * h) ∧ 0 < w ∧ 0 < h
    then some { m with live := (id, ⟨w, h, data⟩) :: m.live } else none
  | .put id pid => if id ≠ 0 ∧ pid ≠ 0 ∧ (m.live.lookup id).isSome then some m else none
  | .delete what id _ => if what = 105 ∧ id ≠ 0 then some m else none

def Mon.feedAll (m : Mon) : List KCmd → Option Mon
  | [] => some m
  | c :: cs => match m.feed c with
    | some m' => m'.feedAll cs
    | none => none

/-- the shape a draw must have: (optional transmission of this id,) one placement -/
def drawShape : List KCmd → Option (Nat × Nat)
  | [.put id pid] => some (id, pid)
  | [.transmit _ tid _ _ _ _ _ _, .put id pid] => if tid = id then some (id, pid) else none
  | _ => none

def Mon.step (m : Mon) (ev : SEv) (bytes : List UInt8) : Option Mon :=
  match kitty bytes with
  | none => none
  | some cmds =>
    let m0 : Mon := match ev with
      | .error id _ => { m with live := m.live.filter (fun e => e.1 != id) }
      | _ => m
    match m0.feedAll cmds with
    | none => none
    | some m1 =>
      match ev with
      | .draw ct row col =>
        if ct.w = 0 ∨ ct.h = 0 then (if cmds = [] then some m1 else none)
        else match drawShape cmds with
          | some (id, pid) =>
            -- the placement shows exactly this content
            if m1.live.lookup id = some ct then some { m1 with placed := ⟨ct, row, col, id, pid⟩ :: m1.placed }
            else none
          | none => none
      | .erase ct pos =>
        match cmds, pos with
        | [.delete what id pid], some (row, col) =>
          -- addresses precisely the placements made by drawing this content at this position
          if pid ≠ 0 ∧ m1.placed.all (fun p =>
              deletes what.toNat id pid (p.id, p.pid) == (p.ct == ct && p.row == row && p.col == col))
          then some { m1 with placed := m1.placed.filter (fun p => !deletes what.toNat id pid (p.id, p.pid)) }
          else none
        | [.delete what id pid], none =>
          if m1.placed.all (fun p => deletes what.toNat id pid (p.id, p.pid) == (p.ct == ct))
          then some { m1 with placed := m1.placed.filter (fun p => !deletes what.toNat id pid (p.id, p.pid)) }
          else none
        | _, _ => none
      | .error id (some p) =>
        -- a re-draw answering an error response that names one of our placements must restore that
        -- placement: same image, same placement id, at the position where it was made
        if cmds = [] ∨ ownPlacement p = false then some m1
        else match drawShape cmds, cursorTarget bytes, m1.live.lookup id with
          | some (id', pid'), some (row, col), some ct =>
            if id' = id ∧ pid' = p ∧ m1.placed.all (fun q => !(q.id == id && q.pid == p) || (q.row == row && q.col == col))
            then some { m1 with placed := ⟨ct, row, col, id, p⟩ :: m1.placed } else none
          | _, _, _ => none
      | _ => some m1

/-- run the monitor over a history of (event, bytes the handler wrote for it) -/
def accepts : Mon → List (SEv × List UInt8) → Bool
  | _, [] => true
  | m, (ev, bytes) :: rest =>
    match m.step ev bytes with
    | some m' => accepts m' rest
    | none => false

/-- index of the first rejected step -/
def firstReject : Mon → Nat → List (SEv × List UInt8) → Option Nat
  | _, _, [] => none
  | m, k, (ev, bytes) :: rest =>
    match m.step ev bytes with
    | some m' => firstReject m' (k + 1) rest
    | none => some k

end SurfModel.KittySpec
