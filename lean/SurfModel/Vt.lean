import SurfModel.Proto
/-!
# C05 — model of `TTYEncoder::encode` (src/encoder.rs) and a reference VT/xterm interpreter

Bytes are `Nat`s below 256 (plain `Nat` keeps `omega` usable).  Three layers:

* `encode caps cmd : List Nat` — the model of the Rust encoder, statement by statement;
* `run` / `parse` — an ECMA-48 / xterm control-sequence parser (ground, escape, CSI parameter /
  intermediate / final, OSC, DCS, ST) written as a byte-at-a-time state machine after the VT500
  parser, independent of the encoder; `sem` maps framed sequences to terminal operations;
* `meaning caps cmd : List Op` — what each command is specified to do.

The 256-colour palette index and the 4-level grey index of a colour are *inputs* here (fields `pal`
and `lvl` of `Color`): which entry is chosen is property C20; C05 only needs that exactly one palette
entry is selected per colour.
-/
namespace SurfModel.Vt

/-! ## decimal and hexadecimal printing (Rust `{}` / `{:02x}` / `{:x}`) -/

def showNat (n : Nat) : List Nat :=
  if h : n < 10 then [48 + n] else showNat (n / 10) ++ [48 + n % 10]
termination_by n
decreasing_by omega

def hexDigit (d : Nat) : Nat := if d < 10 then 48 + d else 87 + d

/-- `{:02x}` of a byte -/
def hex2 (b : Nat) : List Nat := [hexDigit (b / 16), hexDigit (b % 16)]

/-- `{:x}` of a byte: no padding -/
def hexX (b : Nat) : List Nat := if b < 16 then [hexDigit b] else hex2 b

/-- UTF-8 encoding of a code point (Rust `write!(out, "{}", c)`) -/
def utf8 (cp : Nat) : List Nat :=
  if cp < 0x80 then [cp]
  else if cp < 0x800 then [0xC0 + cp / 64, 0x80 + cp % 64]
  else if cp < 0x10000 then [0xE0 + cp / 4096, 0x80 + cp / 64 % 64, 0x80 + cp % 64]
  else [0xF0 + cp / 262144, 0x80 + cp / 4096 % 64, 0x80 + cp / 64 % 64, 0x80 + cp % 64]

/-! ## commands -/

/-- a colour as the encoder sees it: RGBA plus the implementation's reductions of it -/
structure Color where
  r : Nat
  g : Nat
  b : Nat
  a : Nat
  /-- index chosen on a 256-colour terminal (C20) -/
  pal : Nat
  /-- level 0..3 chosen on a grey terminal (C20) -/
  lvl : Nat
  deriving Repr, DecidableEq

inductive Depth where | trueColor | eightBit | gray
  deriving Repr, DecidableEq

structure Caps where
  depth : Depth
  kitty : Bool
  deriving Repr, DecidableEq

/-- `Face`: colours and the unpacked `FaceAttrs` (underline style 0 = none … 5 = dashed) -/
structure Face where
  fg : Option Color
  bg : Option Color
  under : Nat
  bold : Bool
  italic : Bool
  blink : Bool
  reverse : Bool
  strike : Bool
  deriving Repr, DecidableEq

structure FaceModify where
  reset : Bool
  fg : Option Color
  bg : Option Color
  underline : Option Nat
  underlineColor : Option Color
  bold : Option Bool
  italic : Option Bool
  blink : Option Bool
  strike : Option Bool
  deriving Repr, DecidableEq

inductive TermColor where | background | foreground | palette (i : Nat)
  deriving Repr, DecidableEq

/-- `TerminalCommand` without `Image`, `ImageErase` (ignored by the encoder) and `Raw` (verbatim) -/
inductive Cmd where
  | char (cp : Nat)
  | face (f : Face)
  | faceModify (m : FaceModify)
  | faceGet
  | decModeSet (enable : Bool) (mode : Nat)
  | decModeGet (mode : Nat)
  | cursorGet
  | cursorTo (row col : Nat)
  | cursorMove (row col : Int)
  | cursorSave
  | cursorRestore
  | eraseLineLeft
  | eraseLineRight
  | eraseLine
  | eraseScreen
  | eraseChars (n : Nat)
  | scroll (n : Int)
  | scrollRegion (start stop : Nat)
  | reset
  | termcap (names : List (List Nat))
  | color (name : TermColor) (c : Option Color)
  | title (text : List Nat)
  | deviceAttrs
  | keyboardLevel (n : Nat)
  deriving Repr, DecidableEq

/-- `usize::MAX` of a 64-bit target (assumption of the check: the harness runs on x86-64; on a 32-bit
target the constant would be `2 ^ 32 - 1` and nothing else changes) -/
def usizeMax : Nat := 2 ^ 64 - 1
/-- `usize::saturating_add(1)`: `n + 1` below `usize::MAX`; AT `usize::MAX` the value stays
`usize::MAX` — as a one-based screen position this is "a line / column beyond any screen" (terminals
clamp positions to the screen), not the successor of the zero-based position -/
def satSucc (n : Nat) : Nat := if n + 1 > usizeMax then usizeMax else n + 1

def altScreen : Nat := 1049
/-- `decoder::KEYBOARD_LEVEL` -/
def keyboardLevelDefault : Nat := 5

def ESC : Nat := 27
def csiB : List Nat := [27, 91]          -- ESC [
def stB : List Nat := [27, 92]           -- ESC \

def str (s : String) : List Nat := s.toList.map Char.toNat

/-- `Chunks::drain(b";")` -/
def joinSemi : List (List Nat) → List Nat
  | [] => []
  | [c] => c
  | c :: cs => c ++ 59 :: joinSemi cs

inductive Role where | fg | bg | ul
  deriving Repr, DecidableEq

/-- `color_sgr_encode`: the chunks pushed for one colour -/
def colorChunks (c : Color) (d : Depth) (role : Role) : List (List Nat) :=
  match d with
  | .trueColor =>
    [match role with | .fg => [51, 56] | .bg => [52, 56] | .ul => [53, 56],
     [50], showNat c.r, showNat c.g, showNat c.b]
  | .eightBit =>
    [match role with | .fg => [51, 56] | .bg => [52, 56] | .ul => [53, 56],
     [53], showNat c.pal]
  | .gray =>
    let index := match c.lvl with | 0 => 30 | 1 => 90 | 2 => 37 | _ => 97
    match role with
    | .fg => [showNat index]
    | .bg => [showNat (index + 10)]
    | .ul => []

def optChunks (c : Option Color) (d : Depth) (role : Role) : List (List Nat) :=
  match c with | none => [] | some c => colorChunks c d role

def underChunk : Nat → List (List Nat)
  | 1 => [[52]]
  | 2 => [[52, 58, 50]]
  | 3 => [[52, 58, 51]]
  | 4 => [[52, 58, 52]]
  | 5 => [[52, 58, 53]]
  | _ => []

def flagChunk (on : Bool) (code : List Nat) : List (List Nat) := if on then [code] else []

def faceChunks (f : Face) (d : Depth) : List (List Nat) :=
  [[48]] ++ optChunks f.fg d .fg ++ optChunks f.bg d .bg ++ underChunk f.under
    ++ flagChunk f.bold [49] ++ flagChunk f.italic [51] ++ flagChunk f.blink [53]
    ++ flagChunk f.reverse [55] ++ flagChunk f.strike [57]

def triChunk (v : Option Bool) (on off : List Nat) : List (List Nat) :=
  match v with | none => [] | some true => [on] | some false => [off]

def faceModifyChunks (m : FaceModify) (d : Depth) : List (List Nat) :=
  (if m.reset then [[48]] else []) ++ optChunks m.fg d .fg ++ optChunks m.bg d .bg
    ++ (match m.underline with
        | none => []
        | some 0 => [[50, 52]]
        | some k => underChunk k)
    ++ optChunks m.underlineColor d .ul
    ++ triChunk m.bold [49] [50, 50] ++ triChunk m.italic [51] [50, 51]
    ++ triChunk m.blink [53] [50, 53] ++ triChunk m.strike [57] [50, 57]

def kittyLevel (caps : Caps) (level : Nat) : List Nat :=
  if caps.kitty then csiB ++ [61] ++ showNat level ++ [117] else []

/-- `{}` of `RGBA` -/
def showColor (c : Color) : List Nat :=
  [35] ++ hex2 c.r ++ hex2 c.g ++ hex2 c.b ++ (if c.a ≠ 255 then hex2 c.a else [])

/-- colour specification of an OSC colour command: `#rrggbb[aa]`, or `?` to query -/
def specBytes (c : Option Color) : List Nat := match c with | some c => showColor c | none => [63]

def joinNames : List (List Nat) → List Nat
  | [] => []
  | [n] => n.flatMap hexX
  | n :: ns => n.flatMap hexX ++ 59 :: joinNames ns

/-- `TTYEncoder::encode` -/
def encode (caps : Caps) : Cmd → List Nat
  | .decModeSet enable mode =>
    (if !enable && mode == altScreen then kittyLevel caps 0 else [])
      ++ csiB ++ [63] ++ showNat mode ++ [if enable then 104 else 108]
      ++ (if enable && mode == altScreen then kittyLevel caps keyboardLevelDefault else [])
  | .decModeGet mode => csiB ++ [63] ++ showNat mode ++ [36, 112]
  | .cursorTo row col => csiB ++ showNat (satSucc row) ++ [59] ++ showNat (satSucc col) ++ [72]
  | .cursorMove row col =>
    (if col > 0 then csiB ++ showNat col.toNat ++ [67]
     else if col < 0 then csiB ++ showNat col.natAbs ++ [68] else [])
    ++ (if row > 0 then csiB ++ showNat row.toNat ++ [66]
        else if row < 0 then csiB ++ showNat row.natAbs ++ [65] else [])
  | .cursorGet => csiB ++ [54, 110]
  | .cursorSave => [27, 55]
  | .cursorRestore => [27, 56]
  | .eraseLineRight => csiB ++ [75]
  | .eraseLineLeft => csiB ++ [49, 75]
  | .eraseLine => csiB ++ [50, 75]
  | .eraseScreen => csiB ++ [50, 74]
  | .eraseChars n => if n = 0 then [] else csiB ++ showNat n ++ [88]
  | .face f => csiB ++ joinSemi (faceChunks f caps.depth) ++ [109]
  | .faceModify m =>
    let chunks := faceModifyChunks m caps.depth
    if chunks.isEmpty then [] else csiB ++ joinSemi chunks ++ [109]
  | .faceGet => [27, 80, 36, 113, 109] ++ stB
  | .reset => [27, 99]
  | .char cp => utf8 cp
  | .scroll n =>
    if n < 0 then csiB ++ showNat n.natAbs ++ [84]
    else if n > 0 then csiB ++ showNat n.toNat ++ [83] else []
  | .scrollRegion start stop =>
    if stop > start then csiB ++ showNat (satSucc start) ++ [59] ++ showNat (satSucc stop) ++ [114]
    else csiB ++ [114]
  | .termcap names => [27, 80, 43, 113] ++ joinNames names ++ stB
  | .color name c =>
    [27, 93] ++ (match name with
        | .background => [49, 49, 59]
        | .foreground => [49, 48, 59]
        | .palette i => [52, 59] ++ showNat i ++ [59])
      ++ specBytes c ++ stB
  | .title text => [27, 93, 48, 59] ++ text ++ stB
  | .deviceAttrs => csiB ++ [99]
  | .keyboardLevel n => kittyLevel caps n

/-! ## reference interpreter, layer 1: ECMA-48 framing as a byte-at-a-time state machine -/

inductive Seq where
  | print (cp : Nat)
  | c0 (b : Nat)
  | esc (inter : List Nat) (fin : Nat)
  /-- parameter bytes 0x30..0x3f (raw), intermediates 0x20..0x2f, final 0x40..0x7e -/
  | csi (params : List Nat) (inter : List Nat) (fin : Nat)
  | osc (data : List Nat)
  | dcs (data : List Nat)
  | bad (b : Nat)
  deriving Repr, DecidableEq

inductive PState where
  | ground
  | utf8 (need acc : Nat)
  | escape (inter : List Nat)
  | csi (params inter : List Nat)
  | osc (data : List Nat)
  | oscEsc (data : List Nat)
  | dcs (data : List Nat)
  | dcsEsc (data : List Nat)
  deriving Repr, DecidableEq

def stepGround (b : Nat) : PState × List Seq :=
  if b = 27 then (.escape [], [])
  else if b < 32 ∨ b = 127 then (.ground, [.c0 b])
  else if b < 128 then (.ground, [.print b])
  else if 0xC0 ≤ b ∧ b < 0xE0 then (.utf8 1 (b - 0xC0), [])
  else if 0xE0 ≤ b ∧ b < 0xF0 then (.utf8 2 (b - 0xE0), [])
  else if 0xF0 ≤ b ∧ b < 0xF8 then (.utf8 3 (b - 0xF0), [])
  else (.ground, [.bad b])

def stepEscape (inter : List Nat) (b : Nat) : PState × List Seq :=
  if b = 27 then (.escape [], [])
  else if 0x20 ≤ b ∧ b < 0x30 then (.escape (inter ++ [b]), [])
  else if inter = [] ∧ b = 91 then (.csi [] [], [])
  else if inter = [] ∧ b = 93 then (.osc [], [])
  else if inter = [] ∧ b = 80 then (.dcs [], [])
  else if 0x30 ≤ b ∧ b < 0x7f then (.ground, [.esc inter b])
  else (.ground, [.bad b])

def step : PState → Nat → PState × List Seq
  | .ground, b => stepGround b
  | .utf8 need acc, b =>
    if 0x80 ≤ b ∧ b < 0xC0 then
      (if need ≤ 1 then (.ground, [.print (acc * 64 + (b - 0x80))])
       else (.utf8 (need - 1) (acc * 64 + (b - 0x80)), []))
    else
      let r := stepGround b
      (r.1, .bad b :: r.2)
  | .escape inter, b => stepEscape inter b
  | .csi params inter, b =>
    if b = 27 then (.escape [], [])
    else if 0x30 ≤ b ∧ b < 0x40 then
      (if inter = [] then (.csi (params ++ [b]) [], []) else (.ground, [.bad b]))
    else if 0x20 ≤ b ∧ b < 0x30 then (.csi params (inter ++ [b]), [])
    else if 0x40 ≤ b ∧ b < 0x7f then (.ground, [.csi params inter b])
    else (.csi params inter, [.c0 b])
  | .osc data, b =>
    if b = 7 then (.ground, [.osc data])
    else if b = 27 then (.oscEsc data, [])
    else (.osc (data ++ [b]), [])
  | .oscEsc data, b =>
    if b = 92 then (.ground, [.osc data])
    else
      let r := stepEscape [] b
      (r.1, .bad 27 :: r.2)
  | .dcs data, b =>
    if b = 27 then (.dcsEsc data, [])
    else (.dcs (data ++ [b]), [])
  | .dcsEsc data, b =>
    if b = 92 then (.ground, [.dcs data])
    else
      let r := stepEscape [] b
      (r.1, .bad 27 :: r.2)

/-- run the parser over a byte string: final state and the sequences recognised, in order -/
def run : PState → List Nat → PState × List Seq
  | s, [] => (s, [])
  | s, b :: bs =>
    let r := step s b
    let r' := run r.1 bs
    (r'.1, r.2 ++ r'.2)

/-! ## layer 2: meaning of framed sequences -/

/-- split at every `sep` (always at least one piece) -/
def splitBy (sep : Nat) : List Nat → List (List Nat)
  | [] => [[]]
  | b :: bs =>
    if b = sep then [] :: splitBy sep bs
    else match splitBy sep bs with
      | [] => [[b]]
      | p :: ps => (b :: p) :: ps

def isDigit (b : Nat) : Bool := 48 ≤ b && b ≤ 57

/-- a decimal parameter: empty = default (`none`) -/
def readNat? (ds : List Nat) : Option (Option Nat) :=
  if ds = [] then some none
  else if ds.all isDigit then some (some (ds.foldl (fun acc d => acc * 10 + (d - 48)) 0))
  else none

/-- `Ps ; Ps : Ps ; …` → parameters with sub-parameters; `none` when not numeric -/
def params? (ps : List Nat) : Option (List (List (Option Nat))) :=
  (splitBy 59 ps).mapM fun p => (splitBy 58 p).mapM readNat?

inductive SgrOp where
  | reset
  | bold | italic | blink | reverse | strike
  | normalIntensity | noItalic | noBlink | noStrike | noReverse
  | fgDefault | bgDefault | ulDefault
  /-- 0 none, 1 straight, 2 double, 3 curly, 4 dotted, 5 dashed -/
  | underline (style : Nat)
  | fgRgb (r g b : Nat) | bgRgb (r g b : Nat) | ulRgb (r g b : Nat)
  | fgIdx (i : Nat) | bgIdx (i : Nat) | ulIdx (i : Nat)
  | unknown (ps : List (Option Nat))
  deriving Repr, DecidableEq

def colorOp (role : Role) : (Nat × Nat × Nat) ⊕ Nat → SgrOp
  | .inl (r, g, b) => match role with | .fg => .fgRgb r g b | .bg => .bgRgb r g b | .ul => .ulRgb r g b
  | .inr i => match role with | .fg => .fgIdx i | .bg => .bgIdx i | .ul => .ulIdx i

/-- SGR parameter list → attribute operations (xterm ctlseqs, "Character Attributes (SGR)").
Semicolon form `38;2;r;g;b` / `38;5;n` consumes the following parameters; colon form carries them
as sub-parameters (`38:2::r:g:b`, `38:2:r:g:b`, `38:5:n`). -/
def sgrSem : List (List (Option Nat)) → List SgrOp
  | [] => []
  | [some 38] :: [some 2] :: [some r] :: [some g] :: [some b] :: rest => .fgRgb r g b :: sgrSem rest
  | [some 48] :: [some 2] :: [some r] :: [some g] :: [some b] :: rest => .bgRgb r g b :: sgrSem rest
  | [some 58] :: [some 2] :: [some r] :: [some g] :: [some b] :: rest => .ulRgb r g b :: sgrSem rest
  | [some 38] :: [some 5] :: [some i] :: rest => .fgIdx i :: sgrSem rest
  | [some 48] :: [some 5] :: [some i] :: rest => .bgIdx i :: sgrSem rest
  | [some 58] :: [some 5] :: [some i] :: rest => .ulIdx i :: sgrSem rest
  | p :: rest =>
    (match p with
      | [none] | [some 0] => SgrOp.reset
      | [some 1] => .bold
      | [some 3] => .italic
      | [some 4] => .underline 1
      | [some 4, some k] => if k ≤ 5 then .underline k else .unknown p
      | [some 5] => .blink
      | [some 7] => .reverse
      | [some 9] => .strike
      | [some 21] => .underline 2
      | [some 22] => .normalIntensity
      | [some 23] => .noItalic
      | [some 24] => .underline 0
      | [some 25] => .noBlink
      | [some 27] => .noReverse
      | [some 29] => .noStrike
      | [some 39] => .fgDefault
      | [some 49] => .bgDefault
      | [some 59] => .ulDefault
      | [some 38, some 2, _, some r, some g, some b] => .fgRgb r g b
      | [some 48, some 2, _, some r, some g, some b] => .bgRgb r g b
      | [some 58, some 2, _, some r, some g, some b] => .ulRgb r g b
      | [some 38, some 2, some r, some g, some b] => .fgRgb r g b
      | [some 48, some 2, some r, some g, some b] => .bgRgb r g b
      | [some 58, some 2, some r, some g, some b] => .ulRgb r g b
      | [some 38, some 5, some i] => .fgIdx i
      | [some 48, some 5, some i] => .bgIdx i
      | [some 58, some 5, some i] => .ulIdx i
      | [some n] =>
        if 30 ≤ n ∧ n ≤ 37 then .fgIdx (n - 30)
        else if 40 ≤ n ∧ n ≤ 47 then .bgIdx (n - 40)
        else if 90 ≤ n ∧ n ≤ 97 then .fgIdx (n - 90 + 8)
        else if 100 ≤ n ∧ n ≤ 107 then .bgIdx (n - 100 + 8)
        else .unknown p
      | _ => .unknown p) :: sgrSem rest

/-- terminal operations -/
inductive Op where
  | print (cp : Nat)
  | cup (row col : Nat)
  | cuu (n : Nat) | cud (n : Nat) | cuf (n : Nat) | cub (n : Nat)
  | el (k : Nat) | ed (k : Nat) | ech (n : Nat)
  | su (n : Nat) | sd (n : Nat)
  | decstbm (region : Option (Nat × Nat))
  | decset (mode : Nat) | decrst (mode : Nat) | decrqm (mode : Nat)
  | dsrCursor
  | decsc | decrc | ris | da1
  | sgr (ops : List SgrOp)
  | decrqssSgr
  | xtgettcap (names : List (List Nat))
  /-- OSC 10 / 11 / 4;i with a colour spec (`#rrggbb` as three numbers) or `?` -/
  | oscColor (name : TermColor) (spec : Option (Nat × Nat × Nat))
  | title (text : List Nat)
  | kittyKeyboard (flags : Nat)
  | other (s : Seq)
  deriving Repr, DecidableEq

def unhexDigit? (c : Nat) : Option Nat :=
  if 48 ≤ c ∧ c ≤ 57 then some (c - 48)
  else if 97 ≤ c ∧ c ≤ 102 then some (c - 87)
  else if 65 ≤ c ∧ c ≤ 70 then some (c - 55)
  else none

def unhexPairs? : List Nat → Option (List Nat)
  | [] => some []
  | [_] => none
  | a :: b :: rest => do
    let x ← unhexDigit? a
    let y ← unhexDigit? b
    let r ← unhexPairs? rest
    pure ((x * 16 + y) :: r)

/-- `#rrggbb` -/
def colorSpec? : List Nat → Option (Nat × Nat × Nat)
  | [35, a, b, c, d, e, f] => do
    let r ← unhexPairs? [a, b, c, d, e, f]
    match r with
    | [x, y, z] => some (x, y, z)
    | _ => none
  | _ => none

def oscColorOp (name : TermColor) (spec : List Nat) (dflt : Op) : Op :=
  if spec = [63] then .oscColor name none
  else match colorSpec? spec with
    | some c => .oscColor name (some c)
    | none => dflt

/-- OSC 0 / 2 (title), 10 / 11 / 4 (colours) -/
def semOsc : List Nat → Op
  | 48 :: 59 :: text => .title text
  | 50 :: 59 :: text => .title text
  | 49 :: 48 :: 59 :: spec => oscColorOp .foreground spec (.other (.osc (49 :: 48 :: 59 :: spec)))
  | 49 :: 49 :: 59 :: spec => oscColorOp .background spec (.other (.osc (49 :: 49 :: 59 :: spec)))
  | 52 :: 59 :: rest =>
    (match splitBy 59 rest with
     | [idx, spec] =>
       (match readNat? idx with
        | some (some i) => oscColorOp (.palette i) spec (.other (.osc (52 :: 59 :: rest)))
        | _ => .other (.osc (52 :: 59 :: rest)))
     | _ => .other (.osc (52 :: 59 :: rest)))
  | data => .other (.osc data)

/-- DECRQSS for SGR, XTGETTCAP -/
def semDcs : List Nat → Op
  | [36, 113, 109] => .decrqssSgr
  | 43 :: 113 :: rest =>
    (match (splitBy 59 rest).mapM unhexPairs? with
     | some names => .xtgettcap names
     | none => .other (.dcs (43 :: 113 :: rest)))
  | data => .other (.dcs data)

/-- a count parameter: absent and 0 both stand for the default 1 (ECMA-48 8.3; xterm ctlseqs) -/
def count1 (p : Option Nat) : Nat := match p with | none => 1 | some 0 => 1 | some k => k

/-- CSI without private marker and without intermediates: final byte and numeric parameters -/
def semCsiPlain (dflt : Op) (fin : Nat) (p : List (List (Option Nat))) : Op :=
  match fin, p with
  | 72, [[r], [c]] => .cup (count1 r) (count1 c)
  | 72, [[r]] => .cup (count1 r) 1
  | 65, [[n]] => .cuu (count1 n)
  | 66, [[n]] => .cud (count1 n)
  | 67, [[n]] => .cuf (count1 n)
  | 68, [[n]] => .cub (count1 n)
  | 74, [[k]] => .ed (k.getD 0)
  | 75, [[k]] => .el (k.getD 0)
  | 88, [[n]] => .ech (count1 n)
  | 83, [[n]] => .su (count1 n)
  | 84, [[n]] => .sd (count1 n)
  | 114, [[none]] => .decstbm none
  | 114, [[some t], [some b]] => .decstbm (some (t, b))
  | 110, [[some 6]] => .dsrCursor
  | 99, [[none]] | 99, [[some 0]] => .da1
  | 109, p => .sgr (sgrSem p)
  | _, _ => dflt

/-- `CSI ? Pm h|l`, `CSI ? Ps $ p` -/
def semCsiPrivate (dflt : Op) (p : Option (List (List (Option Nat)))) (inter : List Nat) (fin : Nat) : Op :=
  match p, inter, fin with
  | some [[some m]], [], 104 => .decset m
  | some [[some m]], [], 108 => .decrst m
  | some [[some m]], [36], 112 => .decrqm m
  | _, _, _ => dflt

/-- `CSI = flags u` (kitty keyboard protocol) -/
def semCsiEq (dflt : Op) (p : Option (List (List (Option Nat)))) (inter : List Nat) (fin : Nat) : Op :=
  match p, inter, fin with
  | some [[some f]], [], 117 => .kittyKeyboard f
  | _, _, _ => dflt

def semCsi (ps inter : List Nat) (fin : Nat) : Op :=
  let dflt := Op.other (.csi ps inter fin)
  match ps with
  | 63 :: ps' => semCsiPrivate dflt (params? ps') inter fin
  | 61 :: ps' => semCsiEq dflt (params? ps') inter fin
  | _ =>
    match params? ps, inter with
    | some p, [] => semCsiPlain dflt fin p
    | _, _ => dflt

def sem : Seq → Op
  | .print cp => .print cp
  | .esc [] 55 => .decsc
  | .esc [] 56 => .decrc
  | .esc [] 99 => .ris
  | .csi ps inter fin => semCsi ps inter fin
  | .osc data => semOsc data
  | .dcs data => semDcs data
  | s => .other s

/-- the interpreter: operations performed by a byte string read from the ground state; `none` when
the string ends inside a control sequence -/
def interp (bs : List Nat) : Option (List Op) :=
  match run .ground bs with
  | (.ground, seqs) => some (seqs.map sem)
  | _ => none

/-! ## what each command is specified to do -/

/-- what selecting colour `c` for `role` means at depth `d`: the RGB triple in true colour, ONE palette
entry otherwise — `pal` on a 256-colour terminal, one of the entries 0 / 8 / 7 / 15 on a grey one.
Spec decision: on a grey terminal an UNDERLINE colour means nothing (there is no 16-colour SGR code for
the underline colour), so there "one palette entry per colour" is deliberately not demanded. -/
def colorMeaning (c : Color) (d : Depth) (role : Role) : List SgrOp :=
  match d with
  | .trueColor => [colorOp role (.inl (c.r, c.g, c.b))]
  | .eightBit => [colorOp role (.inr c.pal)]
  | .gray =>
    let idx := match c.lvl with | 0 => 0 | 1 => 8 | 2 => 7 | _ => 15
    match role with
    | .fg => [.fgIdx idx]
    | .bg => [.bgIdx idx]
    | .ul => []

def optMeaning (c : Option Color) (d : Depth) (role : Role) : List SgrOp :=
  match c with | none => [] | some c => colorMeaning c d role

def flagOp (on : Bool) (op : SgrOp) : List SgrOp := if on then [op] else []
def triOp (v : Option Bool) (on off : SgrOp) : List SgrOp :=
  match v with | none => [] | some true => [on] | some false => [off]

def faceMeaning (f : Face) (d : Depth) : List SgrOp :=
  [.reset] ++ optMeaning f.fg d .fg ++ optMeaning f.bg d .bg
    ++ (if 1 ≤ f.under ∧ f.under ≤ 5 then [.underline f.under] else [])
    ++ flagOp f.bold .bold ++ flagOp f.italic .italic ++ flagOp f.blink .blink
    ++ flagOp f.reverse .reverse ++ flagOp f.strike .strike

def faceModifyMeaning (m : FaceModify) (d : Depth) : List SgrOp :=
  (if m.reset then [.reset] else []) ++ optMeaning m.fg d .fg ++ optMeaning m.bg d .bg
    ++ (match m.underline with | none => [] | some k => if k ≤ 5 then [.underline k] else [])
    ++ optMeaning m.underlineColor d .ul
    ++ triOp m.bold .bold .normalIntensity ++ triOp m.italic .italic .noItalic
    ++ triOp m.blink .blink .noBlink ++ triOp m.strike .strike .noStrike

def kittyMeaning (caps : Caps) (level : Nat) : List Op :=
  if caps.kitty then [.kittyKeyboard level] else []

/-- The specification: the terminal operations each command stands for.  It is written from the
documentation of `TerminalCommand` and xterm's ctlseqs, not from the encoder; where the command's
documentation leaves a choice, the choice made here is a SPEC DECISION (it coincides with what the
encoder does, and a change of the encoder in these places needs a change of this specification):

* `Scroll(0)`, `CursorMove{0,0}`, `EraseChars(0)`, an empty `FaceModify` → no operation at all (a
  parameter 0 would be read by a terminal as the default 1);
* `ScrollRegion{start, end}` with `end ≤ start` → reset the region to the whole screen (`CSI r`);
* positions are one-based on the wire: `row + 1`, saturating at `usize::MAX` (`satSucc`; theorem
  `C05_meaning_plain` states the plain `+ 1` below `usize::MAX`, `C05_saturated` the corner);
* `DecModeSet{AltScreen}` on a terminal with the kitty keyboard protocol is bracketed with the
  keyboard level: enable → `DECSET 1049` THEN level `KEYBOARD_LEVEL`; disable → level 0 THEN
  `DECRST 1049` (the level is per screen: it is lowered while still on the alternate screen);
  `KeyboardLevel` means nothing on a terminal without the protocol;
* `Face` means: reset, then select (SGR 0 first, so nothing of the previous face survives);
* `CursorMove` is the column move followed by the row move. -/
def meaning (caps : Caps) : Cmd → List Op
  | .char cp => [.print cp]
  | .face f => [.sgr (faceMeaning f caps.depth)]
  | .faceModify m =>
    let ops := faceModifyMeaning m caps.depth
    if ops.isEmpty then [] else [.sgr ops]
  | .faceGet => [.decrqssSgr]
  | .decModeSet enable mode =>
    (if !enable && mode == altScreen then kittyMeaning caps 0 else [])
      ++ [if enable then .decset mode else .decrst mode]
      ++ (if enable && mode == altScreen then kittyMeaning caps keyboardLevelDefault else [])
  | .decModeGet mode => [.decrqm mode]
  | .cursorGet => [.dsrCursor]
  | .cursorTo row col => [.cup (satSucc row) (satSucc col)]
  | .cursorMove row col =>
    (if col > 0 then [.cuf col.toNat] else if col < 0 then [.cub col.natAbs] else [])
      ++ (if row > 0 then [.cud row.toNat] else if row < 0 then [.cuu row.natAbs] else [])
  | .cursorSave => [.decsc]
  | .cursorRestore => [.decrc]
  | .eraseLineRight => [.el 0]
  | .eraseLineLeft => [.el 1]
  | .eraseLine => [.el 2]
  | .eraseScreen => [.ed 2]
  | .eraseChars n => if n = 0 then [] else [.ech n]
  | .scroll n => if n < 0 then [.sd n.natAbs] else if n > 0 then [.su n.toNat] else []
  | .scrollRegion start stop =>
    if stop > start then [.decstbm (some (satSucc start, satSucc stop))] else [.decstbm none]
  | .reset => [.ris]
  | .termcap names => [.xtgettcap names]
  | .color name c => [.oscColor name (c.map fun c => (c.r, c.g, c.b))]
  | .title text => [.title text]
  | .deviceAttrs => [.da1]
  | .keyboardLevel n => kittyMeaning caps n

/-! ## SGR semantics on an attribute state (specification, shared by C05 and C06) -/

/-- the attribute state of a terminal as far as SGR can change it -/
structure Attr where
  fg : Option ((Nat × Nat × Nat) ⊕ Nat)
  bg : Option ((Nat × Nat × Nat) ⊕ Nat)
  ul : Option ((Nat × Nat × Nat) ⊕ Nat)
  under : Nat
  bold : Bool
  italic : Bool
  blink : Bool
  reverse : Bool
  strike : Bool
  deriving DecidableEq

def Attr.default : Attr := ⟨none, none, none, 0, false, false, false, false, false⟩

/-- ECMA-48 / xterm meaning of one SGR operation -/
def applySgr (a : Attr) : SgrOp → Attr
  | .reset => Attr.default
  | .bold => { a with bold := true }
  | .italic => { a with italic := true }
  | .blink => { a with blink := true }
  | .reverse => { a with reverse := true }
  | .strike => { a with strike := true }
  | .normalIntensity => { a with bold := false }
  | .noItalic => { a with italic := false }
  | .noBlink => { a with blink := false }
  | .noStrike => { a with strike := false }
  | .noReverse => { a with reverse := false }
  | .fgDefault => { a with fg := none }
  | .bgDefault => { a with bg := none }
  | .ulDefault => { a with ul := none }
  | .underline k => { a with under := k }
  | .fgRgb r g b => { a with fg := some (.inl (r, g, b)) }
  | .bgRgb r g b => { a with bg := some (.inl (r, g, b)) }
  | .ulRgb r g b => { a with ul := some (.inl (r, g, b)) }
  | .fgIdx i => { a with fg := some (.inr i) }
  | .bgIdx i => { a with bg := some (.inr i) }
  | .ulIdx i => { a with ul := some (.inr i) }
  | .unknown _ => a

/-! ## validity domain of the property -/

def Color.valid (c : Color) : Prop := c.r < 256 ∧ c.g < 256 ∧ c.b < 256 ∧ c.a < 256 ∧ c.pal < 256 ∧ c.lvl < 4

/-- a printable code point: Unicode scalar value that is not a C0/C1 control or DEL -/
def printable (cp : Nat) : Prop :=
  32 ≤ cp ∧ ¬ (127 ≤ cp ∧ cp < 160) ∧ cp < 0x110000 ∧ ¬ (0xD800 ≤ cp ∧ cp < 0xE000)

/-- payload bytes of a title: no C0 control, no DEL (UTF-8 text passes through unchanged) -/
def textByte (b : Nat) : Prop := 32 ≤ b ∧ b ≠ 127 ∧ b < 256

/-- bytes of a capability name: any byte of a UTF-8 string without C0 controls (the encoder writes each
byte with `{:x}`, which has two digits exactly from 16 on; real names are printable ASCII) -/
def nameByte (b : Nat) : Prop := 32 ≤ b ∧ b < 256

/-! ## line protocol -/

open SurfModel.Proto

def nats (bs : List UInt8) : List Nat := bs.map (·.toNat)
def showBytes (bs : List Nat) : String := hex (bs.map UInt8.ofNat)
def unhexN (s : String) : Option (List Nat) := (unhex s).map nats

def parseColor (s : String) : Option (Option Color) :=
  if s == "-" then some none else
  match (s.splitOn ",").mapM (·.toNat?) with
  | some [r, g, b, a, pal, lvl] => some (some ⟨r, g, b, a, pal, lvl⟩)
  | _ => none

def parseTri (s : String) : Option (Option Bool) :=
  if s == "-" then some none else if s == "1" then some (some true) else if s == "0" then some (some false) else none
def parseBool (s : String) : Option Bool :=
  if s == "1" then some true else if s == "0" then some false else none
def parseOptNat (s : String) : Option (Option Nat) :=
  if s == "-" then some none else s.toNat?.map some

def parseCaps (s : String) : Option Caps :=
  match s.toList with
  | [d, k] => do
    let depth ← (if d == 'T' then some Depth.trueColor else if d == 'E' then some .eightBit else if d == 'G' then some .gray else none)
    let kitty ← (if k == 'k' then some true else if k == 'n' then some false else none)
    pure ⟨depth, kitty⟩
  | _ => none

def parseCmd : List String → Option Cmd
  | ["char", cp] => do pure (.char (← cp.toNat?))
  | ["face", fg, bg, under, bold, italic, blink, reverse, strike] => do
    pure (.face ⟨← parseColor fg, ← parseColor bg, ← under.toNat?, ← parseBool bold, ← parseBool italic,
      ← parseBool blink, ← parseBool reverse, ← parseBool strike⟩)
  | ["faceModify", reset, fg, bg, ul, ulc, bold, italic, blink, strike] => do
    pure (.faceModify ⟨← parseBool reset, ← parseColor fg, ← parseColor bg, ← parseOptNat ul, ← parseColor ulc,
      ← parseTri bold, ← parseTri italic, ← parseTri blink, ← parseTri strike⟩)
  | ["faceGet"] => some .faceGet
  | ["decModeSet", e, m] => do pure (.decModeSet (← parseBool e) (← m.toNat?))
  | ["decModeGet", m] => do pure (.decModeGet (← m.toNat?))
  | ["cursorGet"] => some .cursorGet
  | ["cursorTo", r, c] => do pure (.cursorTo (← r.toNat?) (← c.toNat?))
  | ["cursorMove", r, c] => do pure (.cursorMove (← r.toInt?) (← c.toInt?))
  | ["cursorSave"] => some .cursorSave
  | ["cursorRestore"] => some .cursorRestore
  | ["eraseLineLeft"] => some .eraseLineLeft
  | ["eraseLineRight"] => some .eraseLineRight
  | ["eraseLine"] => some .eraseLine
  | ["eraseScreen"] => some .eraseScreen
  | ["eraseChars", n] => do pure (.eraseChars (← n.toNat?))
  | ["scroll", n] => do pure (.scroll (← n.toInt?))
  | ["scrollRegion", s, e] => do pure (.scrollRegion (← s.toNat?) (← e.toNat?))
  | ["reset"] => some .reset
  | ["termcap", names] =>
    if names == "-" then some (.termcap []) else do
      pure (.termcap (← (names.splitOn ",").mapM unhexN))
  | ["color", name, c] => do
    let n ← (if name == "bg" then some TermColor.background else if name == "fg" then some .foreground
             else (name.toNat?).map .palette)
    pure (.color n (← parseColor c))
  | ["title", t] => do pure (.title (← unhexN t))
  | ["deviceAttrs"] => some .deviceAttrs
  | ["keyboardLevel", n] => do pure (.keyboardLevel (← n.toNat?))
  | _ => none

/-- `c05 encode <caps> <cmd…>` → bytes of the model encoder;
`c05 check <caps> <hexbytes> <cmd…>` → `ok` iff the reference interpreter reads the given bytes
(produced by the implementation) as exactly `meaning caps cmd`. -/
def handle : List String → String
  | "encode" :: caps :: rest =>
    match parseCaps caps, parseCmd rest with
    | some caps, some cmd => showBytes (encode caps cmd)
    | _, _ => "bad-op"
  | "check" :: caps :: bytes :: rest =>
    match parseCaps caps, unhexN bytes, parseCmd rest with
    | some caps, some bs, some cmd =>
      if interp bs = some (meaning caps cmd) then "ok"
      else s!"differs: interp={repr (interp bs)} meaning={repr (meaning caps cmd)}"
    | _, _, _ => "bad-op"
  | _ => "bad-op"

end SurfModel.Vt
