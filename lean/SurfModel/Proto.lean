/-!
Line protocol shared by all model drivers: one request per line, tokens separated by single spaces;
one answer per line.  Bytes travel as lowercase hex (`-` for the empty string).
-/
namespace SurfModel.Proto

def tokens (line : String) : List String :=
  (line.trimAscii.toString.splitOn " ").filter (· ≠ "")

def hexDigit? (c : Char) : Option Nat :=
  if '0' ≤ c ∧ c ≤ '9' then some (c.toNat - '0'.toNat)
  else if 'a' ≤ c ∧ c ≤ 'f' then some (c.toNat - 'a'.toNat + 10)
  else none

def unhexAux : List Char → List UInt8 → Option (List UInt8)
  | [], acc => some acc.reverse
  | [_], _ => none
  | a :: b :: rest, acc => do
    let x ← hexDigit? a
    let y ← hexDigit? b
    unhexAux rest (UInt8.ofNat (x * 16 + y) :: acc)

/-- `-` is the empty byte string -/
def unhex (s : String) : Option (List UInt8) :=
  if s == "-" then some [] else unhexAux s.toList []

def hexNib (n : Nat) : Char := if n < 10 then Char.ofNat (48 + n) else Char.ofNat (87 + n)

def hex (bs : List UInt8) : String :=
  if bs.isEmpty then "-" else
  String.ofList (bs.flatMap fun b => [hexNib (b.toNat / 16), hexNib (b.toNat % 16)])

/-- comma separated naturals, `-` = empty list -/
def natList? (s : String) : Option (List Nat) :=
  if s == "-" then some [] else (s.splitOn ",").mapM (·.toNat?)

def showNatList (l : List Nat) : String :=
  if l.isEmpty then "-" else ",".intercalate (l.map toString)

partial def loop (handle : List String → String) (h out : IO.FS.Stream) : IO Unit := do
  let line ← h.getLine
  if line.isEmpty then return ()
  out.putStrLn (handle (tokens line))
  loop handle h out

/-- `main` of every driver -/
def serve (handle : List String → String) : IO Unit := do
  let out ← IO.getStdout
  loop handle (← IO.getStdin) out
  out.flush

end SurfModel.Proto
