import SurfModel.Stream
import SurfModel.Protocol
/-!
# C04 — finite checks on a dumped production DFA, evaluated by the driver on every run

`sdCheck` (self-delimiting + terminal states have no edges, `SurfModel.Stream`) and, here, the exception set of
literal keys pinned against the specification: every spelling of the naming table is accepted, ends in a
terminal state exactly when it is not one of the six `prefixKeys` of the specification, and the accepting
non-terminal states of the table are exactly the states of those six.
-/
namespace SurfModel.StreamCheck
open SurfModel.Tokenizer SurfModel.Grammar SurfModel.Protocol SurfModel.Automata SurfModel.Stream

open Wire in
/-- the state of the table after the bytes `w` -/
def runRows (rows : Array Row) (w : List Nat) : Option Nat :=
  runA (rowsAuto rows).toAuto (rowsAuto rows).start (bytes w)

open Wire in
/-- every spelling of the naming table is accepted, in a terminal state iff it is not a prefix key -/
def keysTermCheck (rows : Array Row) : Bool :=
  protoKeys.all fun p =>
    match runRows rows p.1 with
    | some q => (rowsAuto rows).accepting q && ((rowsAuto rows).terminal q == !prefixKeys.contains p.1)
    | none => false

open Wire in
/-- the accepting non-terminal states are exactly the (pairwise different) states of the prefix keys -/
def prefixExactCheck (rows : Array Row) : Bool :=
  let states := prefixKeys.filterMap (runRows rows)
  states.length == prefixKeys.length && states.eraseDups.length == states.length &&
    (List.range rows.size).all fun s =>
      !((rowsAuto rows).accepting s && !(rowsAuto rows).terminal s) || states.contains s

/-- codes of the keys spelled by the prefix keys, ascending -/
def prefixKeyCodes : List Nat :=
  sortDedup (prefixKeys.filterMap fun w => (protoKeys.find? fun p => p.1 == w).map fun p => p.2.code)

open Wire in
/-- answer of `sd … | table`: `ok <number of prefix keys> <their key codes>` when all three checks pass -/
def report (rows : Array Row) : String :=
  if !sdCheck rows then
    match rows.toList.zipIdx.find? fun p => !rowOk p.1 with
    | some p => s!"fail state {p.2}"
    | none => "fail"
  else if !keysTermCheck rows then
    match protoKeys.find? fun p =>
        match runRows rows p.1 with
        | some q => !((rowsAuto rows).accepting q && ((rowsAuto rows).terminal q == !prefixKeys.contains p.1))
        | none => true with
    | some p => s!"fail key {SurfModel.Proto.hex (bytes p.1)}"
    | none => "fail key"
  else if !prefixExactCheck rows then "fail prefix-keys"
  else s!"ok {prefixKeys.length} {SurfModel.Proto.showNatList prefixKeyCodes}"

open Wire SurfModel.Payload in
/-- `sd <name> | <n> <table>` installs the dumped table and reports the checks; `sd stream <hex>` runs the
    composed model of `TTYEventDecoder` over the installed table -/
def handleWith (rows : Array Row) : List String → Array Row × String
  | _ :: "|" :: [_, table] =>
    match (table.splitOn ";").mapM parseRow with
    | some rs => (rs.toArray, report rs.toArray)
    | none => (rows, "bad-table")
  | ["stream", h] =>
    match SurfModel.Proto.unhex h with
    | some bs => (rows, showEvents (decodeEvents (rowsAuto rows) bs))
    | none => (rows, "bad-op")
  | _ => (rows, "bad-op")

end SurfModel.StreamCheck
