import SurfModel.Kitty
/-!
# `KittyImageHandler` writing into a writer that may fail — C11

`draw`, `erase` and `handle` propagate every I/O error of `out` with `?`. This file repeats the model of
`SurfModel/Kitty.lean` with the writer made explicit: a `Writer` accepts `budget` more bytes and then fails
(`none`: never fails); every `write!` / `write_all` of the source is one `writeAll`, an error ends the
function at that statement. What matters for C11 is where the handler's bookkeeping (`imgs`, `suppress`)
changes relative to the writes: `entry.insert(img.clone())` comes after the chunk loop and before the
placement is written; `handle` removes the entry before it writes anything, sets `suppress = 2` after the
cursor commands and restores it only if the re-draw succeeded.
-/
namespace SurfModel.KittyWrite
open SurfModel.Kitty SurfModel.KittySpec

/-- bytes accepted so far; how many more will be accepted (`none` = no limit) -/
structure Writer where
  out : List UInt8
  budget : Option Nat

def Writer.new (budget : Option Nat) : Writer := ⟨[], budget⟩

/-- `Write::write_all` (and `write!`): all of `bs` or, when the budget ends inside it, the part that fits
and an error -/
def Writer.writeAll (w : Writer) (bs : List UInt8) : Writer × Bool :=
  match w.budget with
  | none => (⟨w.out ++ bs, none⟩, true)
  | some b =>
    if bs.length ≤ b then (⟨w.out ++ bs, some (b - bs.length)⟩, true)
    else (⟨w.out ++ bs.take b, some 0⟩, false)

section
variable (hash : Image → UInt64)

/-- the chunk loop of `draw`: header (`write!`), data, epilogue — three writes per chunk -/
def emitChunksW (id h w q count : Nat) : Nat → List (List UInt8) → Writer → Writer × Bool
  | _, [], wr => (wr, true)
  | index, chunk :: rest, wr =>
    let more := if index + 1 < count then 1 else 0
    let ctrl : List (UInt8 × List UInt8) :=
      if index = 0 then
        [(97, [116]), (102, [51, 50]), (105, decimal id), (118, decimal h), (115, decimal w),
         (109, decimal more), (113, decimal q)]
      else [(109, decimal more), (113, decimal q)]
    let r1 := wr.writeAll ([27, 95, 71] ++ renderCtrl ctrl ++ [59])
    if r1.2 then
      let r2 := r1.1.writeAll chunk
      if r2.2 then
        let r3 := r2.1.writeAll [27, 92]
        if r3.2 then emitChunksW id h w q count (index + 1) rest r3.1 else (r3.1, false)
      else (r2.1, false)
    else (r1.1, false)

/-- `KittyImageHandler::draw` into `wr`: new handler state, writer, `Ok`/`Err` -/
def drawW (h : Handler) (img : Image) (row col : Nat) (wr : Writer) : Handler × Writer × Bool :=
  if img.isEmpty then (h, wr, true)
  else
    let id := idOf hash img
    let q := h.suppress.getD 0
    let cs := chunks 4096 (payloadOf img)
    if h.contains id then
      let r := wr.writeAll (putBytes id (placementId row col) q)
      (h, r.1, r.2)
    else
      let r := emitChunksW id img.shape.height img.shape.width q cs.length 0 cs wr
      if r.2 then
        -- remember that image data has been sent
        let h' : Handler := { h with imgs := (id, img) :: h.imgs }
        let r2 := r.1.writeAll (putBytes id (placementId row col) q)
        (h', r2.1, r2.2)
      else (h, r.1, false)

/-- `KittyImageHandler::erase` into `wr` -/
def eraseW (img : Image) (pos : Option (Nat × Nat)) (wr : Writer) : Writer × Bool :=
  wr.writeAll (erase hash img pos)

/-- `KittyImageHandler::handle` into `wr`: state, writer, `Ok(handled)` / `Err` -/
def handleEventW (h : Handler) (ev : Event) (wr : Writer) : Handler × Writer × Option Bool :=
  match ev with
  | .kittyImage id placement error =>
    if error then
      let pos := placement.map placementToPos
      let removed := h.imgs.lookup id
      let h1 : Handler := { h with imgs := h.imgs.filter (fun e => e.1 != id) }
      match removed, pos with
      | some img, some (row, col) =>
        let r1 := wr.writeAll [27, 55]                       -- CursorSave
        if r1.2 then
          let r2 := r1.1.writeAll (cursorTo row col)          -- CursorTo(pos)
          if r2.2 then
            let suppress := h1.suppress
            let d := drawW hash { h1 with suppress := some 2 } img row col r2.1
            if d.2.2 then
              -- `self.suppress = suppress` is reached only when the re-draw succeeded
              let h2 : Handler := { d.1 with suppress := suppress }
              let r3 := d.2.1.writeAll [27, 56]               -- CursorRestore
              (h2, r3.1, if r3.2 then some true else none)
            else (d.1, d.2.1, none)
          else (h1, r2.1, none)
        else (h1, r1.1, none)
      | _, _ => (h1, wr, some true)
    else (h, wr, some true)
  | .other => (h, wr, some false)

/-- one event of a history and the budget of the writer it gets (`none`: a working writer);
result: state, bytes that reached the terminal, outcome (`none` = `Err`, `some none` = `Ok(())`,
`some (some b)` = `Ok(b)`) -/
def stepW (h : Handler) (ev : Ev) (budget : Option Nat) : Handler × List UInt8 × Option (Option Bool) :=
  match ev with
  | .draw img row col =>
    let r := drawW hash h img row col (Writer.new budget)
    (r.1, r.2.1.out, if r.2.2 then some none else none)
  | .erase img pos =>
    let r := eraseW hash img pos (Writer.new budget)
    (h, r.1.out, if r.2 then some none else none)
  | .resp id placement error =>
    let r := handleEventW hash h (.kittyImage id placement error) (Writer.new budget)
    (r.1, r.2.1.out, r.2.2.map some)
  | .other =>
    let r := handleEventW hash h .other (Writer.new budget)
    (r.1, r.2.1.out, r.2.2.map some)

end

/-! ## line protocol: `c11 modelw q<0|1> img … (ev … | evw <budget> ev …)…` -/
open SurfModel.Proto

/-- a handler call with the budget of its writer, or the mode switch `handler = handler.quiet()`
(`KittyImageHandler::quiet`: `Self { suppress: Some(1), ..self }` — the record of transmitted images is
carried over, only the `q=` flag of later commands changes) -/
abbrev HEv := Option (Ev × Option Nat)

/-- events with budgets: `evw <budget>` before an `ev …` group; `ev q` = switch to quiet -/
def parseEvs (imgs : List (Image × UInt64)) : List String → Option Nat → List HEv →
    Option (List HEv)
  | [], _, acc => some acc.reverse
  | "ev" :: "q" :: rest, _, acc => parseEvs imgs rest none (none :: acc)
  | "evw" :: b :: rest, _, acc => do parseEvs imgs rest (some (← b.toNat?)) acc
  | "ev" :: "d" :: k :: row :: col :: rest, bud, acc => do
    parseEvs imgs rest none (some (.draw (← nthImg imgs k) (← row.toNat?) (← col.toNat?), bud) :: acc)
  | "ev" :: "e" :: k :: row :: col :: rest, bud, acc => do
    let pos ← match ← optNat? row, ← optNat? col with
      | some r, some c => some (some (r, c))
      | none, none => some none
      | _, _ => none
    parseEvs imgs rest none (some (.erase (← nthImg imgs k) pos, bud) :: acc)
  | "ev" :: "r" :: id :: pl :: err :: rest, bud, acc => do
    parseEvs imgs rest none (some (.resp (← id.toNat?) (← optNat? pl) (err == "1"), bud) :: acc)
  | "ev" :: "x" :: rest, bud, acc => parseEvs imgs rest none (some (.other, bud) :: acc)
  | _, _, _ => none

def parseImgs : List String → List (Image × UInt64) → Option (List (Image × UInt64) × List String)
  | "img" :: hs :: st :: en :: w :: h :: rs :: cs :: dat :: rest, acc => do
    let px ← rgbaOfBytes (← unhex dat) []
    let img : Image := ⟨px.toArray, ⟨← st.toNat?, ← en.toNat?, ← w.toNat?, ← h.toNat?, ← rs.toNat?, ← cs.toNat?⟩⟩
    parseImgs rest (acc ++ [(img, UInt64.ofNat (← hs.toNat?))])
  | rest, acc => some (acc, rest)

/-- per event: bytes, then `!` for `Err`, `:t` / `:f` for `Ok(true)` / `Ok(false)` -/
def showRunW (hash : Image → UInt64) : Handler → List HEv → List String
  | _, [] => []
  | h, none :: rest => "-" :: showRunW hash h.quiet rest
  | h, some (ev, bud) :: rest =>
    let r := stepW hash h ev bud
    let tag := match r.2.2 with
      | none => "!"
      | some none => ""
      | some (some true) => ":t"
      | some (some false) => ":f"
    (hex r.2.1 ++ tag) :: showRunW hash r.1 rest

def handle : List String → String
  | q :: rest =>
    match parseImgs rest [] with
    | some (imgs, rest') =>
      match parseEvs imgs rest' none [] with
      | some evs =>
        let h0 := if q == "q1" then Handler.new.quiet else Handler.new
        " ".intercalate (showRunW (hashOf imgs) h0 evs)
      | none => "bad-op"
    | none => "bad-op"
  | _ => "bad-op"

end SurfModel.KittyWrite
