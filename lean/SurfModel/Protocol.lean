import SurfModel.Event
import SurfModel.NamingTable
/-!
# C04 — what a terminal sends: the protocols, written from the protocol documents

A `Msg` is one self-contained thing a terminal can legitimately send, with every transmitted parameter and
every freedom of spelling explicit.  `print : Msg → List Nat` spells it as bytes according to the protocol
documents (xterm ctlseqs: `CSI … ~` / `CSI 1 ; m X` / `SS3 X` keys, SGR mouse `CSI < b ; x ; y M/m`, CPR
`CSI r ; c R`, XTWINOPS replies `CSI 8 ; h ; w t` and `CSI 4 ; h ; w t`, DECRPM `CSI ? Pd ; Ps $ y`, DA1
`CSI ? … c`, OSC 4 / 10 / 11 colour replies with `rgb:h/h/h` (X11, 1–4 hex digits per channel, either case) or
`#rrggbb`, DECRPSS `DCS 1 $ r … m ST`, XTGETTCAP `DCS 1 + r name=value ; … ST` / `DCS 0 + r name ; … ST`; kitty
keyboard protocol `CSI code[:alt…] [; 1+mods] u` and `CSI ? flags u`; kitty graphics response
`APC G i=…[,I=…][,p=…] ; OK|msg ST`; bracketed paste `CSI 200 ~ text CSI 201 ~`; SGR `CSI … m` with the ECMA-48 /
ITU T.416 / xterm parameter forms; UTF-8 text).  `denote : Msg → Event` is the event those bytes denote.

What is shared with the decoder model and what is not.  This file does NOT import `SurfModel.Payload` (the
models of the decoder's code).  It shares with it, through `SurfModel.Event`, only the vocabulary in which a
result is expressed: the `Event` type with its enumerations (`DecMode`, `DecModeStatus`, `ColorName`, `Key` /
`KeyName`), C06's face records (`Sgr.FMod`, `Sgr.DFace`, `Sgr.Rgba`) and the canonical container forms
(`mapInsert` for maps, `Automata.sortDedup` for sets), plus `Vt.showNat` / `Vt.utf8` / `Vt.hex2` (decimal, UTF-8
and hexadecimal *printing*, from C05).  Everything that relates numbers and names is written here from the
documents: DEC private mode numbers (`PrivateMode.number`), DECRPM status values, the xterm 256 colour palette
(`xtermPalette`), X11 channel scaling, kitty functional key codes, what text is (`TextOk`: a sequence of Unicode
scalar values other than ESC, UTF-8 encoded), what a scalar value is (`Scalar`).  Where the property defers to
the library — the *names* of keys (`protoKeys`, `SurfModel/NamingTable.lean`), of mouse buttons (`buttonName`)
and the 16 named colours (`namedColors`) — the table here is a transcription of the library's fixed naming
table, pinned against the implementation by re-checked table theorems; its known oddities are kept on purpose
(`CSI 7 ~` is Insert, CR and TAB arrive as ctrl+m and ctrl+i, SGR mouse code 64 is named wheel *down*).
-/
namespace SurfModel.Protocol
open SurfModel.Vt SurfModel.Sgr SurfModel.Grammar SurfModel.Payload

/-! ## printing helpers -/

def ESCb : Nat := 27
def ST : List Nat := [27, 92]

/-- lower case hexadecimal with exactly `n` digits (most significant first) -/
def hexFixed : Nat → Nat → List Nat
  | 0, _ => []
  | n + 1, v => hexFixed n (v / 16) ++ [hexDigit (v % 16)]

def hexDigitUpper (d : Nat) : Nat := if d < 10 then 48 + d else 55 + d

/-- one hex digit in the chosen case -/
def hexDigitC (upper : Bool) (d : Nat) : Nat := if upper then hexDigitUpper d else hexDigit d

/-- hexadecimal with exactly `n` digits in the chosen case -/
def hexFixedC (upper : Bool) : Nat → Nat → List Nat
  | 0, _ => []
  | n + 1, v => hexFixedC upper n (v / 16) ++ [hexDigitC upper (v % 16)]

/-- two hex digits of a byte, lower or upper case -/
def hexByte (upper : Bool) (b : Nat) : List Nat :=
  if upper then [hexDigitUpper (b / 16), hexDigitUpper (b % 16)] else hex2 b

def hexString (upper : Bool) (s : List Nat) : List Nat := s.flatMap (hexByte upper)

/-- parameters separated by `sep` -/
def joinWith (sep : Nat) : List (List Nat) → List Nat
  | [] => []
  | [c] => c
  | c :: rest => c ++ sep :: joinWith sep rest

/-! ## mouse: the library's button naming -/

/-- name of an SGR mouse button code: bits 0–1 button, bit 6 wheel; bits 2–4 are modifiers, bit 5 motion -/
def buttonName (code : Nat) : KeyName :=
  match code / 64 % 2, code % 4 with
  | 0, 0 => .mouseLeft
  | 0, 1 => .mouseMiddle
  | 0, 2 => .mouseRight
  | 0, _ => .mouseMove
  | _, 0 => .mouseWheelDown
  | _, 1 => .mouseWheelUp
  | _, _ => .mouseMove

/-! ## colours -/

/-- one channel of `rgb:…`: number of hex digits (1–4) and the transmitted value -/
structure Channel where
  digits : Nat
  value : Nat
  deriving Repr, DecidableEq

/-- X11 scaling of an n-digit channel to 16 bits (digit replication), of which a byte colour keeps the
    most significant 8 bits -/
def Channel.byte (c : Channel) : Nat :=
  let v16 := match c.digits with
    | 1 => c.value * 0x1111
    | 2 => c.value * 0x101
    | 3 => c.value * 16 + c.value / 256
    | _ => c.value
  v16 / 256

inductive ColorSpec where
  /-- `#rrggbb`, hex digits in lower or upper case -/
  | hash (r g b : Nat) (upper : Bool)
  /-- `rgb:r/g/b`, hex digits in lower or upper case -/
  | rgb (r g b : Channel) (upper : Bool)
  deriving Repr, DecidableEq

def ColorSpec.print : ColorSpec → List Nat
  | .hash r g b upper => 35 :: (hexFixedC upper 2 r ++ hexFixedC upper 2 g ++ hexFixedC upper 2 b)
  | .rgb r g b upper =>
    [114, 103, 98, 58] ++ hexFixedC upper r.digits r.value ++ [47] ++ hexFixedC upper g.digits g.value ++ [47] ++
      hexFixedC upper b.digits b.value

def ColorSpec.rgba : ColorSpec → Rgba
  | .hash r g b _ => ⟨r, g, b, 255⟩
  | .rgb r g b _ => ⟨r.byte, g.byte, b.byte, 255⟩

def Channel.Valid (c : Channel) : Prop := 1 ≤ c.digits ∧ c.digits ≤ 4 ∧ c.value < 16 ^ c.digits

def ColorSpec.Valid : ColorSpec → Prop
  | .hash r g b _ => r < 256 ∧ g < 256 ∧ b < 256
  | .rgb r g b _ => r.Valid ∧ g.Valid ∧ b.Valid

/-! ## the xterm 256 colour palette -/

/-- the 16 named colours: the library's fixed table (`COLORS`), pinned against the implementation by
    `SurfProofs.ProtoPalette.named_colors_pinned` -/
def namedColors : List Rgba :=
  [⟨0, 0, 0, 255⟩, ⟨128, 0, 0, 255⟩, ⟨0, 128, 0, 255⟩, ⟨128, 128, 0, 255⟩, ⟨0, 0, 128, 255⟩, ⟨128, 0, 128, 255⟩,
   ⟨0, 128, 128, 255⟩, ⟨192, 192, 192, 255⟩, ⟨128, 128, 128, 255⟩, ⟨255, 0, 0, 255⟩, ⟨0, 255, 0, 255⟩,
   ⟨255, 255, 0, 255⟩, ⟨0, 0, 255, 255⟩, ⟨255, 0, 255, 255⟩, ⟨0, 255, 255, 255⟩, ⟨255, 255, 255, 255⟩]

/-- level of one channel of the 6 × 6 × 6 colour cube: 0, 95, 135, 175, 215, 255 -/
def cubeLevel (k : Nat) : Nat := if k = 0 then 0 else 55 + 40 * k

/-- xterm: 0–15 named colours, 16–231 the colour cube `16 + 36 r + 6 g + b`, 232–255 the grey ramp `8 + 10 i` -/
def xtermPalette (i : Nat) : Rgba :=
  if i < 16 then namedColors.getD i ⟨0, 0, 0, 255⟩
  else if i < 232 then
    ⟨cubeLevel ((i - 16) / 36), cubeLevel ((i - 16) / 6 % 6), cubeLevel ((i - 16) % 6), 255⟩
  else ⟨8 + 10 * (i - 232), 8 + 10 * (i - 232), 8 + 10 * (i - 232), 255⟩

/-! ## SGR items -/

inductive ColorForm where
  /-- `38 ; 2 ; r ; g ; b` -/
  | semi
  /-- `38 : 2 : r : g : b` -/
  | colon
  /-- `38 : 2 : : r : g : b` (empty colour space) -/
  | colonSpace
  deriving Repr, DecidableEq

inductive SgrItem where
  | reset
  | bold (on : Bool)
  | italic (on : Bool)
  | blink (on : Bool)
  | strike (on : Bool)
  /-- 0 off (`24`), 1 straight (`4`), 2 double (`4:2`), 3 curly, 4 dotted, 5 dashed -/
  | underline (style : Nat)
  /-- role 0 foreground, 1 background, 2 underline colour -/
  | rgb (role : Nat) (r g b : Nat) (form : ColorForm)
  /-- palette colour `38 ; 5 ; n` or `38 : 5 : n` (also 48, 58) -/
  | palette (role : Nat) (index : Nat) (colon : Bool)
  /-- named colour 0–15: foreground `30+i` / `90+(i-8)`, background `40+i` / `100+(i-8)` -/
  | named (background : Bool) (index : Nat)
  /-- `21`: doubly underlined (ECMA-48) -/
  | doubleUnderline
  /-- `4 : s` with `s` in 0..5 (`4:0` no underline, `4:1` straight) -/
  | underlineColon (style : Nat)
  /-- an empty parameter: default, i.e. reset (`CSI m` is `[empty]`) -/
  | empty
  deriving Repr, DecidableEq

def roleCode (role : Nat) : Nat := match role with | 0 => 38 | 1 => 48 | _ => 58

def SgrItem.print : SgrItem → List Nat
  | .reset => [48]
  | .bold true => [49]
  | .bold false => [50, 50]
  | .italic true => [51]
  | .italic false => [50, 51]
  | .blink true => [53]
  | .blink false => [50, 53]
  | .strike true => [57]
  | .strike false => [50, 57]
  | .underline 0 => [50, 52]
  | .underline 1 => [52]
  | .underline s => [52, 58] ++ showNat s
  | .rgb role r g b .semi =>
    showNat (roleCode role) ++ [59, 50, 59] ++ showNat r ++ [59] ++ showNat g ++ [59] ++ showNat b
  | .rgb role r g b .colon =>
    showNat (roleCode role) ++ [58, 50, 58] ++ showNat r ++ [58] ++ showNat g ++ [58] ++ showNat b
  | .rgb role r g b .colonSpace =>
    showNat (roleCode role) ++ [58, 50, 58, 58] ++ showNat r ++ [58] ++ showNat g ++ [58] ++ showNat b
  | .palette role i false => showNat (roleCode role) ++ [59, 53, 59] ++ showNat i
  | .palette role i true => showNat (roleCode role) ++ [58, 53, 58] ++ showNat i
  | .named false i => showNat (if i < 8 then 30 + i else 82 + i)
  | .named true i => showNat (if i < 8 then 40 + i else 92 + i)
  | .doubleUnderline => [50, 49]
  | .underlineColon s => [52, 58] ++ showNat s
  | .empty => []

/-- set the colour of a role -/
def setRole (m : FMod) (role : Nat) (c : Rgba) : FMod :=
  match role with
  | 0 => { m with fg := some c }
  | 1 => { m with bg := some c }
  | _ => { m with underlineColor := some c }

/-- effect of one item on the record of requested changes -/
def SgrItem.apply (m : FMod) : SgrItem → FMod
  | .reset => { reset := true }
  | .bold on => { m with bold := some on }
  | .italic on => { m with italic := some on }
  | .blink on => { m with blink := some on }
  | .strike on => { m with strike := some on }
  | .underline s => { m with underline := some s }
  | .rgb 0 r g b _ => { m with fg := some ⟨r, g, b, 255⟩ }
  | .rgb 1 r g b _ => { m with bg := some ⟨r, g, b, 255⟩ }
  | .rgb _ r g b _ => { m with underlineColor := some ⟨r, g, b, 255⟩ }
  | .palette role i _ => setRole m role (xtermPalette i)
  | .named false i => { m with fg := some (xtermPalette i) }
  | .named true i => { m with bg := some (xtermPalette i) }
  | .doubleUnderline => { m with underline := some 2 }
  | .underlineColon s => { m with underline := some s }
  | .empty => { reset := true }

def SgrItem.Valid : SgrItem → Prop
  | .underline s => s ≤ 5
  | .rgb role r g b _ => role ≤ 2 ∧ r < 256 ∧ g < 256 ∧ b < 256
  | .palette role i _ => role ≤ 2 ∧ i < 256
  | .named _ i => i < 16
  | .underlineColon s => s ≤ 5
  | _ => True

def sgrParams (items : List SgrItem) : List Nat := joinWith 59 (items.map SgrItem.print)

def sgrMeaning (items : List SgrItem) : FMod := items.foldl SgrItem.apply {}

/-- SGR semantics of a record of changes on the default rendition (DECRPSS reports the current rendition) -/
def faceOf (m : FMod) : DFace :=
  { fg := m.fg, bg := m.bg, under := m.underline.getD 0, bold := m.bold.getD false,
    italic := m.italic.getD false, blink := m.blink.getD false, reverse := false,
    strike := m.strike.getD false }

/-! ## DEC private modes and DECRPM status values (xterm ctlseqs, VT510 DECRPM) -/

inductive PrivateMode where
  /-- DECTCEM -/
  | cursorVisible
  /-- DECAWM -/
  | autoWrap
  /-- DECSDM -/
  | sixelScrolling
  /-- X11 mouse button tracking -/
  | mouseButtons
  /-- any-event mouse tracking -/
  | mouseAnyMotion
  /-- SGR mouse encoding -/
  | mouseSgr
  /-- alternate screen with cursor save -/
  | altScreen
  /-- synchronized output -/
  | synchronizedOutput
  /-- bracketed paste -/
  | bracketedPaste
  deriving Repr, DecidableEq

/-- `Pd` of `CSI ? Pd h` -/
def PrivateMode.number : PrivateMode → Nat
  | .cursorVisible => 25 | .autoWrap => 7 | .sixelScrolling => 80 | .mouseButtons => 1000
  | .mouseAnyMotion => 1003 | .mouseSgr => 1006 | .altScreen => 1049 | .synchronizedOutput => 2026
  | .bracketedPaste => 2004

/-- the library's name of the mode -/
def PrivateMode.name : PrivateMode → DecMode
  | .cursorVisible => .visibleCursor | .autoWrap => .autoWrap | .sixelScrolling => .sixelScrolling
  | .mouseButtons => .mouseReport | .mouseAnyMotion => .mouseMotions | .mouseSgr => .mouseSGR
  | .altScreen => .altScreen | .synchronizedOutput => .synchronizedOutput | .bracketedPaste => .bracketedPaste

def PrivateMode.all : List PrivateMode :=
  [.cursorVisible, .autoWrap, .sixelScrolling, .mouseButtons, .mouseAnyMotion, .mouseSgr, .altScreen,
   .synchronizedOutput, .bracketedPaste]

/-- `Ps` of DECRPM: 0 not recognized, 1 set, 2 reset, 3 permanently set, 4 permanently reset -/
inductive ReportStatus where
  | notRecognized | set | reset | permanentlySet | permanentlyReset
  deriving Repr, DecidableEq

def ReportStatus.value : ReportStatus → Nat
  | .notRecognized => 0 | .set => 1 | .reset => 2 | .permanentlySet => 3 | .permanentlyReset => 4

def ReportStatus.name : ReportStatus → DecModeStatus
  | .notRecognized => .notRecognized | .set => .enabled | .reset => .disabled
  | .permanentlySet => .permanentlyEnabled | .permanentlyReset => .permanentlyDisabled

def ReportStatus.all : List ReportStatus := [.notRecognized, .set, .reset, .permanentlySet, .permanentlyReset]

/-! ## text -/

/-- a Unicode scalar value -/
def Scalar (c : Nat) : Prop := c < 0xD800 ∨ (0xE000 ≤ c ∧ c < 0x110000)

/-- UTF-8 encoding of a sequence of code points -/
def encText (cps : List Nat) : List Nat := cps.flatMap utf8

/-- text: a sequence of Unicode scalar values other than ESC, UTF-8 encoded -/
def TextOk (t : List Nat) : Prop := ∃ cps : List Nat, (∀ c ∈ cps, Scalar c ∧ c ≠ 27) ∧ t = encText cps

/-! ## messages -/

inductive OscEnd where
  | st | bel
  deriving Repr, DecidableEq

inductive Msg where
  /-- a key in one of its spellings: `i` indexes `protoKeys` -/
  | key (i : Nat)
  /-- printable text: one Unicode scalar value in UTF-8 -/
  | text (c : Nat)
  /-- SGR mouse report `CSI < code ; x ; y M|m` -/
  | mouse (code x y : Nat) (press : Bool)
  /-- CPR `CSI row ; col R` (1-based) -/
  | cursor (row col : Nat)
  /-- XTWINOPS 18 and 14 replies `CSI 8 ; h ; w t CSI 4 ; h ; w t` -/
  | size (cellHeight cellWidth pixelHeight pixelWidth : Nat)
  /-- DECRPM `CSI ? mode ; status $ y` -/
  | decMode (mode : PrivateMode) (status : ReportStatus)
  /-- DA1 `CSI ? a ; b ; … c`, optionally with a trailing `;` -/
  | deviceAttrs (attrs : List Nat) (trailing : Bool)
  /-- OSC 10 / 11 / 4 colour reply -/
  | color (name : ColorName) (spec : ColorSpec) (fin : OscEnd)
  /-- DECRPSS reply to `DECRQSS m`: `DCS 1 $ r params m ST` -/
  | faceReport (items : List SgrItem)
  /-- XTGETTCAP success `DCS 1 + r name=value ; … ST` (names and values hex encoded) -/
  | termcapOk (entries : List (List Nat × List Nat)) (upper : Bool)
  /-- XTGETTCAP failure `DCS 0 + r name ; … ST` -/
  | termcapFail (names : List (List Nat)) (upper : Bool)
  /-- kitty keyboard `CSI ? flags u` -/
  | keyboardLevel (flags : Nat)
  /-- kitty keyboard `CSI code[:alt…] [; 1+mods] u`; `mods = none`: field omitted -/
  | csiU (code : Nat) (alts : List Nat) (mods : Option Nat)
  /-- kitty graphics response `APC G i=id[,I=number][,p=placement] ; OK|message ST` -/
  | kittyImage (id : Nat) (number : Option Nat) (placement : Option Nat) (error : Option (List Nat))
  /-- bracketed paste -/
  | paste (text : List Nat)
  /-- SGR sequence `CSI params m` -/
  | sgr (items : List SgrItem)
  deriving Repr

def oscNumber : ColorName → List Nat
  | .foreground => showNat 10
  | .background => showNat 11
  | .palette i => showNat 4 ++ [59] ++ showNat i

def OscEnd.bytes : OscEnd → List Nat
  | .st => ST
  | .bel => [7]

def csiUCodes (code : Nat) (alts : List Nat) : List Nat := joinWith 58 ((code :: alts).map showNat)

def print : Msg → List Nat
  | .key i => (protoKeys[i]?.map (·.1)).getD []
  | .text c => utf8 c
  | .mouse code x y press =>
    CSI ++ [60] ++ showNat code ++ [59] ++ showNat x ++ [59] ++ showNat y ++ [if press then 77 else 109]
  | .cursor r c => CSI ++ showNat r ++ [59] ++ showNat c ++ [82]
  | .size ch cw ph pw =>
    CSI ++ [56, 59] ++ showNat ch ++ [59] ++ showNat cw ++ [116] ++
    CSI ++ [52, 59] ++ showNat ph ++ [59] ++ showNat pw ++ [116]
  | .decMode m s => CSI ++ [63] ++ showNat m.number ++ [59] ++ showNat s.value ++ [36, 121]
  | .deviceAttrs attrs trailing =>
    CSI ++ [63] ++ joinWith 59 (attrs.map showNat) ++ (if trailing then [59] else []) ++ [99]
  | .color name spec fin => [27, 93] ++ oscNumber name ++ [59] ++ spec.print ++ fin.bytes
  | .faceReport items => [27, 80, 49, 36, 114] ++ sgrParams items ++ [109] ++ ST
  | .termcapOk entries upper =>
    [27, 80, 49, 43, 114] ++
      joinWith 59 (entries.map fun e => hexString upper e.1 ++ [61] ++ hexString upper e.2) ++ ST
  | .termcapFail names upper =>
    [27, 80, 48, 43, 114] ++ joinWith 59 (names.map (hexString upper)) ++ ST
  | .keyboardLevel flags => CSI ++ [63] ++ showNat flags ++ [117]
  | .csiU code alts mods =>
    CSI ++ csiUCodes code alts ++
      (match mods with | some m => 59 :: showNat (m + 1) | none => []) ++ [117]
  | .kittyImage id number placement error =>
    [27, 95, 71, 105, 61] ++ showNat id ++
      (match number with | some n => [44, 73, 61] ++ showNat n | none => []) ++
      (match placement with | some p => [44, 112, 61] ++ showNat p | none => []) ++ [59] ++
      (match error with | some msg => msg | none => [79, 75]) ++ ST
  | .paste text => CSI ++ [50, 48, 48, 126] ++ text ++ CSI ++ [50, 48, 49, 126]
  | .sgr items => CSI ++ sgrParams items ++ [109]

/-- name of a kitty `CSI u` key code: C0 names, F13–F35, otherwise the character itself -/
def csiUName (code : Nat) : KeyName :=
  if code = 27 then .esc else if code = 13 then .enter else if code = 9 then .tab
  else if code = 127 then .backspace
  else if 57376 ≤ code ∧ code ≤ 57398 then .f (code - 57376 + 13)
  else .char code

/-- the event a message denotes -/
def denote : Msg → Event
  | .key i => .key ((protoKeys[i]?.map (·.2)).getD ⟨.esc, 0⟩)
  | .text c => .key ⟨.char c, 0⟩
  | .mouse code x y press =>
    .mouse (buttonName code) (code / 4 % 8 + (if press then modPress else 0)) (y - 1) (x - 1)
  | .cursor r c => .cursorPosition (r - 1) (c - 1)
  | .size ch cw ph pw => .size ch cw ph pw
  | .decMode m s => .decMode m.name s.name
  | .deviceAttrs attrs _ => .deviceAttrs (Automata.sortDedup attrs)
  | .color name spec _ => .color name spec.rgba
  | .faceReport items => .faceGet (faceOf (sgrMeaning items))
  | .termcapOk entries _ => .termcap (entries.foldl (fun m e => mapInsert e.1 (some e.2) m) [])
  | .termcapFail names _ => .termcap (names.foldl (fun m n => mapInsert n none m) [])
  | .keyboardLevel flags => .keyboardLevel flags
  | .csiU code _ mods => .key ⟨csiUName code, mods.getD 0⟩
  | .kittyImage id _ placement error => .kittyImage id placement error
  | .paste text => .paste text
  | .sgr items => .command (sgrMeaning items)

def Msg.family : Msg → Family
  | .key _ => .keys
  | .text _ => .utf8
  | .mouse .. => .mouse
  | .cursor .. => .cursorPosition
  | .size .. => .termSize
  | .decMode .. => .decMode
  | .deviceAttrs .. => .deviceAttrs
  | .color .. => .osc
  | .faceReport _ => .reportSetting
  | .termcapOk .. => .termcap
  | .termcapFail .. => .termcap
  | .keyboardLevel _ => .kittyKeyboard
  | .csiU .. => .kittyKeyboard
  | .kittyImage .. => .kittyImage
  | .paste _ => .paste
  | .sgr _ => .sgr

/-- the tag under which the event automaton recognises a message: the code of its key for literal keys
    (`MatcherTag::Item`), the tag of its family otherwise (`MatcherTag::Matcher(index)`) -/
def Msg.tag : Msg → Nat
  | .key i => ((protoKeys[i]?.map Prod.snd).getD ⟨.esc, 0⟩).code
  | m => m.family.tag

/-- a code a kitty `CSI u` report can carry and the library names: not a private use functional key other
    than F13–F35, a scalar value -/
def CsiUCodeOk (code : Nat) : Prop :=
  Scalar code ∧ (57344 ≤ code ∧ code ≤ 63743 → 57376 ≤ code ∧ code ≤ 57398)

/-- parameter ranges: every numeric parameter fits a machine word (in particular 1..65535 coordinates, every
    modifier mask, every button code); coordinates are 1-based -/
def Msg.Valid : Msg → Prop
  | .key i => i < protoKeys.length
  | .text c => Scalar c ∧ 32 ≤ c ∧ c ≠ 127
  | .mouse code x y _ => code ≤ usizeMax ∧ 1 ≤ x ∧ x ≤ usizeMax ∧ 1 ≤ y ∧ y ≤ usizeMax
  | .cursor r c => 1 ≤ r ∧ r ≤ usizeMax ∧ 1 ≤ c ∧ c ≤ usizeMax
  | .size ch cw ph pw => ch ≤ usizeMax ∧ cw ≤ usizeMax ∧ ph ≤ usizeMax ∧ pw ≤ usizeMax
  | .decMode _ _ => True
  | .deviceAttrs attrs _ => attrs ≠ [] ∧ ∀ a ∈ attrs, 1 ≤ a ∧ a ≤ usizeMax
  | .color name spec _ => spec.Valid ∧ (∀ i, name = .palette i → i ≤ usizeMax)
  | .faceReport items => ∀ it ∈ items, it.Valid
  | .termcapOk entries _ =>
    ∀ e ∈ entries, e.1 ≠ [] ∧ e.2 ≠ [] ∧ (∀ b ∈ e.1, b < 256) ∧ ∀ b ∈ e.2, b < 256
  | .termcapFail names _ => names ≠ [] ∧ ∀ n ∈ names, n ≠ [] ∧ ∀ b ∈ n, b < 256
  | .keyboardLevel flags => flags ≤ usizeMax
  | .csiU code alts mods =>
    CsiUCodeOk code ∧ (∀ a ∈ alts, a ≤ usizeMax) ∧ ∀ m, mods = some m → m < 256
  | .kittyImage id number placement error =>
    id ≤ usizeMax ∧ (∀ n, number = some n → n ≤ usizeMax) ∧ (∀ p, placement = some p → p ≤ usizeMax) ∧
      ∀ msg, error = some msg → TextOk msg ∧ msg ≠ [79, 75]
  | .paste t => TextOk t
  | .sgr items => items ≠ [] ∧ ∀ it ∈ items, it.Valid

/-- The other documented ambiguity: the introducers ESC, CSI (`ESC [`), OSC (`ESC ]`), APC (`ESC _`), SS3 (`ESC O`)
    and DCS (`ESC P`) are themselves spellings of keys (esc, alt+[, alt+], alt+_, shift+alt+o, shift+alt+p) and at
    the same time proper prefixes of longer sequences.  These six — and no other spelling of the naming table —
    are not self-delimiting: followed by input that continues them they resolve to the longer sequence. -/
def prefixKeys : List (List Nat) := [[27], [27, 91], [27, 93], [27, 95], [27, 79], [27, 80]]

/-- the documented ambiguity of the legacy encodings: `CSI 1 ; n R` (n = 2..8) is F3 with modifiers, not a
    cursor position report -/
def Msg.Ambiguous : Msg → Prop
  | .cursor r c => r = 1 ∧ 2 ≤ c ∧ c ≤ 8
  | _ => False

end SurfModel.Protocol

