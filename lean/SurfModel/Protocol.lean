import SurfModel.Payload
import SurfModel.NamingTable
/-!
# C04 — what a terminal sends: the protocols, written from the protocol documents

A `Msg` is one self-contained thing a terminal can legitimately send, with every transmitted parameter and
every freedom of spelling explicit.  `print : Msg → List Nat` spells it as bytes according to the protocol
documents (xterm ctlseqs: `CSI … ~` / `CSI 1 ; m X` / `SS3 X` keys, SGR mouse `CSI < b ; x ; y M/m`, CPR
`CSI r ; c R`, XTWINOPS replies `CSI 8 ; h ; w t` and `CSI 4 ; h ; w t`, DECRPM `CSI ? Pd ; Ps $ y`, DA1
`CSI ? … c`, OSC 4 / 10 / 11 colour replies with `rgb:h/h/h` (X11, 1–4 hex digits per channel) or `#rrggbb`,
DECRPSS `DCS 1 $ r … m ST`, XTGETTCAP `DCS 1 + r name=value ; … ST` / `DCS 0 + r name ; … ST`; kitty keyboard
protocol `CSI code[:alt…] [; 1+mods] u` and `CSI ? flags u`; kitty graphics response `APC G i=…[,p=…] ; OK|msg
ST`; bracketed paste `CSI 200 ~ text CSI 201 ~`; SGR `CSI … m`; UTF-8 text).  `denote : Msg → Event` is the
event those bytes denote; key and button *names* follow the library's fixed naming table (`protoKeys`,
`buttonName`), as the property prescribes.  Nothing here refers to the decoder's code.
-/
namespace SurfModel.Protocol
open SurfModel.Vt SurfModel.Sgr SurfModel.Grammar SurfModel.Payload

/-! ## printing helpers -/

def ESCb : Nat := 27
def ST : List Nat := [27, 92]

/-- lower case hexadecimal with exactly `n` digits (most significant first) -/
def hexFixed : Nat → Nat → List Nat
  | 0, _ => []
  | n + 1, v => hexFixed n (v / 16) ++ [hexDigit (v % 16)]

def hexDigitUpper (d : Nat) : Nat := if d < 10 then 48 + d else 55 + d

/-- two hex digits of a byte, lower or upper case -/
def hexByte (upper : Bool) (b : Nat) : List Nat :=
  if upper then [hexDigitUpper (b / 16), hexDigitUpper (b % 16)] else hex2 b

def hexString (upper : Bool) (s : List Nat) : List Nat := s.flatMap (hexByte upper)

/-- parameters separated by `sep` -/
def joinWith (sep : Nat) : List (List Nat) → List Nat
  | [] => []
  | [c] => c
  | c :: rest => c ++ sep :: joinWith sep rest

/-! ## mouse: the library's button naming -/

/-- name of an SGR mouse button code: bits 0–1 button, bit 6 wheel; bits 2–4 are modifiers, bit 5 motion -/
def buttonName (code : Nat) : KeyName :=
  match code / 64 % 2, code % 4 with
  | 0, 0 => .mouseLeft
  | 0, 1 => .mouseMiddle
  | 0, 2 => .mouseRight
  | 0, _ => .mouseMove
  | _, 0 => .mouseWheelDown
  | _, 1 => .mouseWheelUp
  | _, _ => .mouseMove

/-! ## colours -/

/-- one channel of `rgb:…`: number of hex digits (1–4) and the transmitted value -/
structure Channel where
  digits : Nat
  value : Nat
  deriving Repr, DecidableEq

/-- X11 scaling of an n-digit channel to 16 bits (digit replication), of which a byte colour keeps the
    most significant 8 bits -/
def Channel.byte (c : Channel) : Nat :=
  let v16 := match c.digits with
    | 1 => c.value * 0x1111
    | 2 => c.value * 0x101
    | 3 => c.value * 16 + c.value / 256
    | _ => c.value
  v16 / 256

inductive ColorSpec where
  /-- `#rrggbb` -/
  | hash (r g b : Nat)
  /-- `rgb:r/g/b` -/
  | rgb (r g b : Channel)
  deriving Repr, DecidableEq

def ColorSpec.print : ColorSpec → List Nat
  | .hash r g b => 35 :: (hex2 r ++ hex2 g ++ hex2 b)
  | .rgb r g b =>
    [114, 103, 98, 58] ++ hexFixed r.digits r.value ++ [47] ++ hexFixed g.digits g.value ++ [47] ++
      hexFixed b.digits b.value

def ColorSpec.rgba : ColorSpec → Rgba
  | .hash r g b => ⟨r, g, b, 255⟩
  | .rgb r g b => ⟨r.byte, g.byte, b.byte, 255⟩

def Channel.Valid (c : Channel) : Prop := 1 ≤ c.digits ∧ c.digits ≤ 4 ∧ c.value < 16 ^ c.digits

def ColorSpec.Valid : ColorSpec → Prop
  | .hash r g b => r < 256 ∧ g < 256 ∧ b < 256
  | .rgb r g b => r.Valid ∧ g.Valid ∧ b.Valid

/-! ## SGR items -/

inductive ColorForm where
  /-- `38 ; 2 ; r ; g ; b` -/
  | semi
  /-- `38 : 2 : r : g : b` -/
  | colon
  /-- `38 : 2 : : r : g : b` (empty colour space) -/
  | colonSpace
  deriving Repr, DecidableEq

inductive SgrItem where
  | reset
  | bold (on : Bool)
  | italic (on : Bool)
  | blink (on : Bool)
  | strike (on : Bool)
  /-- 0 off (`24`), 1 straight (`4`), 2 double (`4:2`), 3 curly, 4 dotted, 5 dashed -/
  | underline (style : Nat)
  /-- role 0 foreground, 1 background, 2 underline colour -/
  | rgb (role : Nat) (r g b : Nat) (form : ColorForm)
  deriving Repr, DecidableEq

def roleCode (role : Nat) : Nat := match role with | 0 => 38 | 1 => 48 | _ => 58

def SgrItem.print : SgrItem → List Nat
  | .reset => [48]
  | .bold true => [49]
  | .bold false => [50, 50]
  | .italic true => [51]
  | .italic false => [50, 51]
  | .blink true => [53]
  | .blink false => [50, 53]
  | .strike true => [57]
  | .strike false => [50, 57]
  | .underline 0 => [50, 52]
  | .underline 1 => [52]
  | .underline s => [52, 58] ++ showNat s
  | .rgb role r g b .semi =>
    showNat (roleCode role) ++ [59, 50, 59] ++ showNat r ++ [59] ++ showNat g ++ [59] ++ showNat b
  | .rgb role r g b .colon =>
    showNat (roleCode role) ++ [58, 50, 58] ++ showNat r ++ [58] ++ showNat g ++ [58] ++ showNat b
  | .rgb role r g b .colonSpace =>
    showNat (roleCode role) ++ [58, 50, 58, 58] ++ showNat r ++ [58] ++ showNat g ++ [58] ++ showNat b

/-- effect of one item on the record of requested changes -/
def SgrItem.apply (m : FMod) : SgrItem → FMod
  | .reset => { reset := true }
  | .bold on => { m with bold := some on }
  | .italic on => { m with italic := some on }
  | .blink on => { m with blink := some on }
  | .strike on => { m with strike := some on }
  | .underline s => { m with underline := some s }
  | .rgb 0 r g b _ => { m with fg := some ⟨r, g, b, 255⟩ }
  | .rgb 1 r g b _ => { m with bg := some ⟨r, g, b, 255⟩ }
  | .rgb _ r g b _ => { m with underlineColor := some ⟨r, g, b, 255⟩ }

def SgrItem.Valid : SgrItem → Prop
  | .underline s => s ≤ 5
  | .rgb role r g b _ => role ≤ 2 ∧ r < 256 ∧ g < 256 ∧ b < 256
  | _ => True

def sgrParams (items : List SgrItem) : List Nat := joinWith 59 (items.map SgrItem.print)

def sgrMeaning (items : List SgrItem) : FMod := items.foldl SgrItem.apply {}

/-- SGR semantics of a record of changes on the default rendition (DECRPSS reports the current rendition) -/
def faceOf (m : FMod) : DFace :=
  { fg := m.fg, bg := m.bg, under := m.underline.getD 0, bold := m.bold.getD false,
    italic := m.italic.getD false, blink := m.blink.getD false, reverse := false,
    strike := m.strike.getD false }

/-! ## messages -/

inductive OscEnd where
  | st | bel
  deriving Repr, DecidableEq

inductive Msg where
  /-- a key in one of its spellings: `i` indexes `protoKeys` -/
  | key (i : Nat)
  /-- printable text: one Unicode scalar value in UTF-8 -/
  | text (c : Nat)
  /-- SGR mouse report `CSI < code ; x ; y M|m` -/
  | mouse (code x y : Nat) (press : Bool)
  /-- CPR `CSI row ; col R` (1-based) -/
  | cursor (row col : Nat)
  /-- XTWINOPS 18 and 14 replies `CSI 8 ; h ; w t CSI 4 ; h ; w t` -/
  | size (cellHeight cellWidth pixelHeight pixelWidth : Nat)
  /-- DECRPM `CSI ? mode ; status $ y` -/
  | decMode (mode : DecMode) (status : DecModeStatus)
  /-- DA1 `CSI ? a ; b ; … c`, optionally with a trailing `;` -/
  | deviceAttrs (attrs : List Nat) (trailing : Bool)
  /-- OSC 10 / 11 / 4 colour reply -/
  | color (name : ColorName) (spec : ColorSpec) (fin : OscEnd)
  /-- DECRPSS reply to `DECRQSS m`: `DCS 1 $ r params m ST` -/
  | faceReport (items : List SgrItem)
  /-- XTGETTCAP success `DCS 1 + r name=value ; … ST` (names and values hex encoded) -/
  | termcapOk (entries : List (List Nat × List Nat)) (upper : Bool)
  /-- XTGETTCAP failure `DCS 0 + r name ; … ST` -/
  | termcapFail (names : List (List Nat)) (upper : Bool)
  /-- kitty keyboard `CSI ? flags u` -/
  | keyboardLevel (flags : Nat)
  /-- kitty keyboard `CSI code[:alt…] [; 1+mods] u`; `mods = none`: field omitted -/
  | csiU (code : Nat) (alts : List Nat) (mods : Option Nat)
  /-- kitty graphics response `APC G i=id[,p=placement] ; OK|message ST` -/
  | kittyImage (id : Nat) (placement : Option Nat) (error : Option (List Nat))
  /-- bracketed paste -/
  | paste (text : List Nat)
  /-- SGR sequence `CSI params m` -/
  | sgr (items : List SgrItem)
  deriving Repr

def oscNumber : ColorName → List Nat
  | .foreground => showNat 10
  | .background => showNat 11
  | .palette i => showNat 4 ++ [59] ++ showNat i

def OscEnd.bytes : OscEnd → List Nat
  | .st => ST
  | .bel => [7]

def csiUCodes (code : Nat) (alts : List Nat) : List Nat := joinWith 58 ((code :: alts).map showNat)

def print : Msg → List Nat
  | .key i => (protoKeys[i]?.map (·.1)).getD []
  | .text c => utf8 c
  | .mouse code x y press =>
    CSI ++ [60] ++ showNat code ++ [59] ++ showNat x ++ [59] ++ showNat y ++ [if press then 77 else 109]
  | .cursor r c => CSI ++ showNat r ++ [59] ++ showNat c ++ [82]
  | .size ch cw ph pw =>
    CSI ++ [56, 59] ++ showNat ch ++ [59] ++ showNat cw ++ [116] ++
    CSI ++ [52, 59] ++ showNat ph ++ [59] ++ showNat pw ++ [116]
  | .decMode m s => CSI ++ [63] ++ showNat m.code ++ [59] ++ showNat s.code ++ [36, 121]
  | .deviceAttrs attrs trailing =>
    CSI ++ [63] ++ joinWith 59 (attrs.map showNat) ++ (if trailing then [59] else []) ++ [99]
  | .color name spec fin => [27, 93] ++ oscNumber name ++ [59] ++ spec.print ++ fin.bytes
  | .faceReport items => [27, 80, 49, 36, 114] ++ sgrParams items ++ [109] ++ ST
  | .termcapOk entries upper =>
    [27, 80, 49, 43, 114] ++
      joinWith 59 (entries.map fun e => hexString upper e.1 ++ [61] ++ hexString upper e.2) ++ ST
  | .termcapFail names upper =>
    [27, 80, 48, 43, 114] ++ joinWith 59 (names.map (hexString upper)) ++ ST
  | .keyboardLevel flags => CSI ++ [63] ++ showNat flags ++ [117]
  | .csiU code alts mods =>
    CSI ++ csiUCodes code alts ++
      (match mods with | some m => 59 :: showNat (m + 1) | none => []) ++ [117]
  | .kittyImage id placement error =>
    [27, 95, 71, 105, 61] ++ showNat id ++
      (match placement with | some p => [44, 112, 61] ++ showNat p | none => []) ++ [59] ++
      (match error with | some msg => msg | none => [79, 75]) ++ ST
  | .paste text => CSI ++ [50, 48, 48, 126] ++ text ++ CSI ++ [50, 48, 49, 126]
  | .sgr items => CSI ++ sgrParams items ++ [109]

/-- name of a kitty `CSI u` key code: C0 names, F13–F35, otherwise the character itself -/
def csiUName (code : Nat) : KeyName :=
  if code = 27 then .esc else if code = 13 then .enter else if code = 9 then .tab
  else if code = 127 then .backspace
  else if 57376 ≤ code ∧ code ≤ 57398 then .f (code - 57376 + 13)
  else .char code

/-- the event a message denotes -/
def denote : Msg → Event
  | .key i => .key ((protoKeys[i]?.map (·.2)).getD ⟨.esc, 0⟩)
  | .text c => .key ⟨.char c, 0⟩
  | .mouse code x y press =>
    .mouse (buttonName code) (code / 4 % 8 + (if press then modPress else 0)) (y - 1) (x - 1)
  | .cursor r c => .cursorPosition (r - 1) (c - 1)
  | .size ch cw ph pw => .size ch cw ph pw
  | .decMode m s => .decMode m s
  | .deviceAttrs attrs _ => .deviceAttrs (Automata.sortDedup attrs)
  | .color name spec _ => .color name spec.rgba
  | .faceReport items => .faceGet (faceOf (sgrMeaning items))
  | .termcapOk entries _ => .termcap (entries.foldl (fun m e => mapInsert e.1 (some e.2) m) [])
  | .termcapFail names _ => .termcap (names.foldl (fun m n => mapInsert n none m) [])
  | .keyboardLevel flags => .keyboardLevel flags
  | .csiU code _ mods => .key ⟨csiUName code, mods.getD 0⟩
  | .kittyImage id placement error => .kittyImage id placement error
  | .paste text => .paste text
  | .sgr items => .command (sgrMeaning items)

def Msg.family : Msg → Family
  | .key _ => .keys
  | .text _ => .utf8
  | .mouse .. => .mouse
  | .cursor .. => .cursorPosition
  | .size .. => .termSize
  | .decMode .. => .decMode
  | .deviceAttrs .. => .deviceAttrs
  | .color .. => .osc
  | .faceReport _ => .reportSetting
  | .termcapOk .. => .termcap
  | .termcapFail .. => .termcap
  | .keyboardLevel _ => .kittyKeyboard
  | .csiU .. => .kittyKeyboard
  | .kittyImage .. => .kittyImage
  | .paste _ => .paste
  | .sgr _ => .sgr

/-- the tag under which the event automaton recognises a message: the code of its key for literal keys
    (`MatcherTag::Item`), the tag of its family otherwise (`MatcherTag::Matcher(index)`) -/
def Msg.tag : Msg → Nat
  | .key i => ((protoKeys[i]?.map Prod.snd).getD ⟨.esc, 0⟩).code
  | m => m.family.tag

/-- a string of text: well-formed UTF-8 without ESC -/
def TextOk (t : List Nat) : Prop := validUtf8 t = true ∧ 27 ∉ t ∧ ∀ b ∈ t, b < 256

/-- a code a kitty `CSI u` report can carry and the library names: not a private use functional key other
    than F13–F35, a scalar value -/
def CsiUCodeOk (code : Nat) : Prop :=
  isScalar code = true ∧ (57344 ≤ code ∧ code ≤ 63743 → 57376 ≤ code ∧ code ≤ 57398)

/-- parameter ranges: every numeric parameter fits a machine word (in particular 1..65535 coordinates, every
    modifier mask, every button code); coordinates are 1-based -/
def Msg.Valid : Msg → Prop
  | .key i => i < protoKeys.length
  | .text c => isScalar c = true ∧ 32 ≤ c ∧ c ≠ 127
  | .mouse code x y _ => code ≤ usizeMax ∧ 1 ≤ x ∧ x ≤ usizeMax ∧ 1 ≤ y ∧ y ≤ usizeMax
  | .cursor r c => 1 ≤ r ∧ r ≤ usizeMax ∧ 1 ≤ c ∧ c ≤ usizeMax
  | .size ch cw ph pw => ch ≤ usizeMax ∧ cw ≤ usizeMax ∧ ph ≤ usizeMax ∧ pw ≤ usizeMax
  | .decMode _ _ => True
  | .deviceAttrs attrs _ => attrs ≠ [] ∧ ∀ a ∈ attrs, 1 ≤ a ∧ a ≤ usizeMax
  | .color name spec _ => spec.Valid ∧ (∀ i, name = .palette i → i ≤ usizeMax)
  | .faceReport items => ∀ it ∈ items, it.Valid
  | .termcapOk entries _ =>
    ∀ e ∈ entries, e.1 ≠ [] ∧ e.2 ≠ [] ∧ (∀ b ∈ e.1, b < 256) ∧ ∀ b ∈ e.2, b < 256
  | .termcapFail names _ => names ≠ [] ∧ ∀ n ∈ names, n ≠ [] ∧ ∀ b ∈ n, b < 256
  | .keyboardLevel flags => flags ≤ usizeMax
  | .csiU code alts mods =>
    CsiUCodeOk code ∧ (∀ a ∈ alts, a ≤ usizeMax) ∧ ∀ m, mods = some m → m < 256
  | .kittyImage id placement error =>
    id ≤ usizeMax ∧ (∀ p, placement = some p → p ≤ usizeMax) ∧
      ∀ msg, error = some msg → TextOk msg ∧ msg ≠ [79, 75]
  | .paste t => TextOk t
  | .sgr items => items ≠ [] ∧ ∀ it ∈ items, it.Valid

/-- the documented ambiguity of the legacy encodings: `CSI 1 ; n R` (n = 2..8) is F3 with modifiers, not a
    cursor position report -/
def Msg.Ambiguous : Msg → Prop
  | .cursor r c => r = 1 ∧ 2 ≤ c ∧ c ≤ 8
  | _ => False

end SurfModel.Protocol

/-! ## line protocol: `proto msg <wire>` → `<hex of print> <showEvent of denote>`

Cross-check of this transcription of the protocols with the harness' own (Rust) transcription. -/
namespace SurfModel.Protocol
open SurfModel.Vt SurfModel.Sgr SurfModel.Grammar SurfModel.Payload SurfModel.Proto

def parseBit (s : String) : Option Bool :=
  if s == "1" then some true else if s == "0" then some false else none

def parseOptNat' (s : String) : Option (Option Nat) :=
  if s == "-" then some none else s.toNat?.map some

def parseNats (s : String) : Option (List Nat) :=
  if s == "-" then some [] else (s.splitOn ",").mapM (·.toNat?)

def parseName (s : String) : Option ColorName :=
  if s == "fg" then some .foreground else if s == "bg" then some .background
  else if s.startsWith "p" then (s.drop 1).toNat?.map ColorName.palette else none

def parseEnd (s : String) : Option OscEnd :=
  if s == "st" then some .st else if s == "bel" then some .bel else none

def parseChannel (s : String) : Option Channel :=
  match s.splitOn "." with
  | [d, v] => do pure ⟨← d.toNat?, ← v.toNat?⟩
  | _ => none

def parseForm (s : String) : Option ColorForm :=
  if s == "s" then some .semi else if s == "c" then some .colon else if s == "cs" then some .colonSpace else none

def parseItem (s : String) : Option SgrItem :=
  if s == "reset" then some .reset
  else if s == "bold1" then some (.bold true) else if s == "bold0" then some (.bold false)
  else if s == "italic1" then some (.italic true) else if s == "italic0" then some (.italic false)
  else if s == "blink1" then some (.blink true) else if s == "blink0" then some (.blink false)
  else if s == "strike1" then some (.strike true) else if s == "strike0" then some (.strike false)
  else if s.startsWith "ul" then (s.drop 2).toNat?.map SgrItem.underline
  else if s.startsWith "rgb" then
    match (s.drop 3).toString.splitOn "." with
    | [role, r, g, b, f] => do pure (.rgb (← role.toNat?) (← r.toNat?) (← g.toNat?) (← b.toNat?) (← parseForm f))
    | _ => none
  else none

def parseItems (s : String) : Option (List SgrItem) :=
  if s == "-" then some [] else (s.splitOn ",").mapM parseItem

def parseDecMode (n : Nat) : Option DecMode := DecMode.all.find? fun m => m.code == n
def parseDecStatus (n : Nat) : Option DecModeStatus := DecModeStatus.all.find? fun m => m.code == n

def parsePair (s : String) : Option (List Nat × List Nat) :=
  match s.splitOn "=" with
  | [k, v] => do pure (← unhexN k, ← unhexN v)
  | _ => none

def parseMsg : List String → Option Msg
  | ["key", i] => i.toNat?.map Msg.key
  | ["text", c] => c.toNat?.map Msg.text
  | ["mouse", code, x, y, p] => do pure (.mouse (← code.toNat?) (← x.toNat?) (← y.toNat?) (← parseBit p))
  | ["cursor", r, c] => do pure (.cursor (← r.toNat?) (← c.toNat?))
  | ["size", a, b, c, d] => do pure (.size (← a.toNat?) (← b.toNat?) (← c.toNat?) (← d.toNat?))
  | ["decmode", m, s] => do pure (.decMode (← m.toNat?.bind parseDecMode) (← s.toNat?.bind parseDecStatus))
  | ["da", t, l] => do pure (.deviceAttrs (← parseNats l) (← parseBit t))
  | ["color", n, e, "hash", r, g, b] => do
    pure (.color (← parseName n) (.hash (← r.toNat?) (← g.toNat?) (← b.toNat?)) (← parseEnd e))
  | ["color", n, e, "rgb", r, g, b] => do
    pure (.color (← parseName n) (.rgb (← parseChannel r) (← parseChannel g) (← parseChannel b)) (← parseEnd e))
  | ["facereport", items] => (parseItems items).map Msg.faceReport
  | ["sgr", items] => (parseItems items).map Msg.sgr
  | ["tcok", u, l] => do
    let es ← if l == "-" then some [] else (l.splitOn ";").mapM parsePair
    pure (.termcapOk es (← parseBit u))
  | ["tcfail", u, l] => do
    let ns ← if l == "-" then some [] else (l.splitOn ";").mapM unhexN
    pure (.termcapFail ns (← parseBit u))
  | ["kbd", f] => f.toNat?.map Msg.keyboardLevel
  | ["csiu", code, alts, mods] => do pure (.csiU (← code.toNat?) (← parseNats alts) (← parseOptNat' mods))
  | ["kitty", id, p, e] => do
    let err ← if e == "ok" then some none else if e.startsWith "e" then (unhexN (e.drop 1).toString).map some else none
    pure (.kittyImage (← id.toNat?) (← parseOptNat' p) err)
  | ["paste", t] => (unhexN t).map Msg.paste
  | _ => none

def handle : List String → String
  | "msg" :: rest =>
    match parseMsg rest with
    | some m => s!"{hexN (print m)} {showEvent (denote m)}"
    | none => "bad-msg"
  | _ => "bad-op"

end SurfModel.Protocol
