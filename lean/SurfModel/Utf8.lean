import SurfModel.Automata
import SurfModel.Tokenizer
import SurfModel.Vt
/-!
# C02, UTF-8 part — model of `utf8_nfa`, `utf8_decode` and `Utf8Decoder` of `src/decoder.rs`

* `utf8Re mode` — the expression `utf8_nfa(mode)` builds, combinator call by combinator call
  (`a + b + c` is `sequence([sequence([a, b]), c])`), so that `Re.toNFA` reproduces the implementation's
  numbering (checked on every run by dump equality).  The nine alternatives are the nine rows of
  "Well-Formed UTF-8 Byte Sequences" (Unicode Standard, Table 3-7); the one-byte row depends on the mode.
* `utf8Decode` — `utf8_decode` exactly as coded: `slice[0]`, a `match` on the length, shift-and-or over the
  remaining bytes in `u32`, and then `char::from_u32_unchecked`.  The model returns the *number* handed to
  `from_u32_unchecked`; that this number is a Unicode scalar value whenever the bytes were accepted by the
  automaton is a theorem (`SurfProofs.C02.C02_scalar`), not a check.
* `Utf8Decoder` is `SurfModel.Tokenizer.udecode` (C03) run over the compiled automaton of `utf8Re 0`
  (`dfaAuto`), followed by `utf8Decode` on the bytes of every character item (`Utf8Decoder::consume`).
-/
namespace SurfModel.Utf8
open SurfModel.Automata SurfModel.Tokenizer

/-- `range(low, high)` of `utf8_nfa` -/
def range (lo hi : UInt8) : Re := .pred [(lo, hi)]

/-- `utf8_tail` -/
def tail : Re := range 0x80 0xbf

/-- `utf8_one`: 0 `Canonical` (`b >> 7 == 0`), 1 `Printable` (`b' '..=b'~'`),
    2 `NotEscape` (`b >> 7 == 0 && b != 0x1b`) -/
def oneRanges (mode : Nat) : List (UInt8 × UInt8) :=
  match mode with
  | 0 => [(0, 127)]
  | 1 => [(32, 126)]
  | _ => [(0, 26), (28, 127)]

/-- `utf8_nfa(mode)` -/
def utf8Re (mode : Nat) : Re :=
  .alt [
    .pred (oneRanges mode),
    .seq [range 0xc2 0xdf, tail],
    .seq [.seq [range 0xe0 0xe0, range 0xa0 0xbf], tail],
    .seq [.seq [range 0xe1 0xec, tail], tail],
    .seq [.seq [range 0xed 0xed, range 0x80 0x9f], tail],
    .seq [.seq [range 0xee 0xef, tail], tail],
    .seq [.seq [.seq [range 0xf0 0xf0, range 0x90 0xbf], tail], tail],
    .seq [.seq [.seq [range 0xf1 0xf3, tail], tail], tail],
    .seq [.seq [.seq [range 0xf4 0xf4, range 0x80 0x8f], tail], tail]]

/-! ## utf8_decode -/

/-- truncation to `u32` (`<<=` on a `u32` drops the high bits, it does not panic) -/
def u32 (x : Nat) : Nat := x % 4294967296

/-- loop body: `code <<= 6; code |= (*byte as u32) & 63` -/
def pushTail (code : Nat) (byte : UInt8) : Nat := u32 (code <<< 6) ||| (byte.toNat &&& 63)

/-- `utf8_decode(slice)`: the `u32` handed to `char::from_u32_unchecked`.
    `.error .panic`: `slice[0]` on an empty slice, or the `_ => panic!(…)` arm of the length match. -/
def utf8Decode (slice : List UInt8) : Except Fault Nat :=
  match slice with
  | [] => .error .panic
  | first :: rest =>
    let f := first.toNat
    let code : Option Nat :=
      match slice.length with
      | 1 => some (f &&& 127)
      | 2 => some (f &&& 31)
      | 3 => some (f &&& 15)
      | 4 => some (f &&& 7)
      | _ => none
    match code with
    | none => .error .panic
    | some code => .ok (rest.foldl pushTail code)

/-- what `char::from_u32_unchecked` requires of its argument -/
def isScalar (c : Nat) : Bool := decide (c < 0x110000) && !(decide (0xD800 ≤ c) && decide (c ≤ 0xDFFF))

/-! ## Utf8Decoder -/

/-- the compiled automaton seen through the `DFA` API, as the tokenizer models of C03 take it -/
def dfaAuto (d : DFA) : Auto DState :=
  { start := d.start, step := d.transition, accepting := d.isAccepting, terminal := d.isTerminal }

/-- `UTF8DFA` -/
def utf8Auto : Auto DState := dfaAuto (utf8Re 0).toNFA.compile

/-- result of one `Utf8Decoder::decode` call that returned something -/
inductive UOut where
  /-- `Ok(Some(c))`: the number `utf8_decode` handed to `from_u32_unchecked` -/
  | chr (code : Nat)
  /-- `Err(InvalidInput)`: the bytes dropped -/
  | err (bytes : List UInt8)
deriving Repr, BEq, DecidableEq

/-- `Utf8Decoder::consume` on a character item of the byte-level model -/
def consume : UItem → Except Fault UOut
  | .chr bytes =>
    match utf8Decode bytes with
    | .ok c => .ok (.chr c)
    | .error e => .error e
  | .err bytes => .ok (.err bytes)

def consumeAll : List UItem → Except Fault (List UOut)
  | [] => .ok []
  | it :: rest =>
    match consume it with
    | .error e => .error e
    | .ok o =>
      match consumeAll rest with
      | .error e => .error e
      | .ok os => .ok (o :: os)

/-- `consume` on the results of every read -/
def consumeReads : List (List UItem) → Except Fault (List (List UOut))
  | [] => .ok []
  | items :: rest =>
    match consumeAll items with
    | .error e => .error e
    | .ok os =>
      match consumeReads rest with
      | .error e => .error e
      | .ok more => .ok (os :: more)

/-- `Utf8Decoder` fed read by read (each read until `Ok(None)`): the results of every read and the decoder
    state at the end (`buf` = bytes held back) -/
def utf8Stream (A : Auto DState) (chunks : List (List UInt8)) : Except Fault (List (List UOut) × USt DState) :=
  match ufeedAll A (uinit A) chunks with
  | .error e => .error e
  | .ok (per, s) =>
    match consumeReads per with
    | .error e => .error e
    | .ok outs => .ok (outs, s)

/-- the bytes a result stands for: the standard encoding of the character, or the bytes dropped -/
def UOut.bytes : UOut → List UInt8
  | .chr c => (SurfModel.Vt.utf8 c).map UInt8.ofNat
  | .err b => b

/-! ## line protocol -/
open SurfModel.Proto

def showUOut : UOut → String
  | .chr c => s!"c:{c}"
  | .err b => s!"e:{hexNE b}"

def showUOuts (l : List UOut) : String := if l.isEmpty then "-" else ",".intercalate (l.map showUOut)

/-- requests (after the family word `c02`):
* `nfa <mode>` — dump of `(utf8Re mode).toNFA` (must equal `utf8_nfa(mode).verif_dump()`)
* `dec <hex>` — `utf8Decode`: `ok <code>` or `panic`
* `match <mode> <hex> …` — `Re.matchB (utf8Re mode)` per word
* `utf8 <chunks>` — model of `Utf8Decoder` over the compiled model automaton
* `enc <code>` — `SurfModel.Vt.utf8` (the encoder's side, used as specification) -/
def handle : List String → String
  | ["nfa", mode] =>
    match mode.toNat? with
    | some m => Wire.showNFA (utf8Re m).toNFA
    | none => "bad-op"
  | ["dec", h] =>
    match unhex h with
    | some w =>
      match utf8Decode w with
      | .ok c => s!"ok {c}"
      | .error e => showFault e
    | none => "bad-op"
  | "match" :: mode :: ws =>
    match mode.toNat?, ws.mapM unhex with
    | some m, some ws => " ".intercalate (ws.map fun w => Wire.b01 ((utf8Re m).matchB w))
    | _, _ => "bad-op"
  | ["utf8", chunks] =>
    match parseChunks chunks with
    | some cs =>
      match utf8Stream utf8Auto cs with
      | .error e => showFault e
      | .ok (per, s) => "/".intercalate (per.map showUOuts) ++ s!" buf={hex s.buf}"
    | none => "bad-op"
  | ["enc", c] =>
    match c.toNat? with
    | some c => hex ((SurfModel.Vt.utf8 c).map UInt8.ofNat)
    | none => "bad-op"
  | _ => "bad-op"

end SurfModel.Utf8
