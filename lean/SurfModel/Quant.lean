import SurfModel.Proto
/-!
# C13 — model of colour quantisation (src/image.rs)

`KDTree::new` / `KDTree::find` (nearest colour), `OcTreePath`, `OcTree::{insert, prune, prune_until,
build_palette}`, `ColorPalette::from_image` (with its sampling rule and the crate's LCG `Rnd`) and
`Image::quantize` without dithering, and with Floyd–Steinberg dithering as long as every error term
is zero.

Conventions
* a colour is its `to_rgb()` triple; pixels arrive already composited over the background
  (`bg.blend_over(c)` is float code of the `rasterize` crate: uninterpreted, evaluated by the harness);
* accumulators are `usize` in the code and never come near `2^64` (255 · pixel count); the model
  uses `Nat`;
* every Rust panic that can be written down is an explicit outcome (`none` in the `Option` valued
  octree functions, `Res.panic` at the top), never a default value;
* the `while` loop of `prune_until` carries fuel; running out of it is the outcome `Res.hang`.
-/
namespace SurfModel.Quant

/-- `RGBA::to_rgb()` -/
structure RGB where
  r : Nat
  g : Nat
  b : Nat
  deriving Repr, DecidableEq, Inhabited

/-- `color[dim]` on a `[u8; 3]` -/
def RGB.get (c : RGB) (d : Fin 3) : Nat :=
  match d with
  | 0 => c.r
  | 1 => c.g
  | 2 => c.b

def sqr (x : Int) : Int := x * x

/-- `dist` of `KDTree::find` (`i32`; at most 3·255² for `u8` components) -/
def dist (a b : RGB) : Int :=
  sqr ((a.r : Int) - (b.r : Int)) + sqr ((a.g : Int) - (b.g : Int)) + sqr ((a.b : Int) - (b.b : Int))

/-! ## k-d tree -/

/-- the node arena `Vec<KDNode>` with `Option<usize>` links, as a tree (`nil` = `None`) -/
inductive KD where
  | nil
  | node (color : RGB) (colorIndex : Nat) (dim : Fin 3) (left right : KD)
  deriving Repr, Inhabited

/-- `(dim + 1) % 3` -/
def nextDim (d : Fin 3) : Fin 3 := ⟨(d.val + 1) % 3, Nat.mod_lt _ (by decide)⟩

/-- key order of `colors.sort_by_key(|(_, c)| c[dim])` -/
def keyLe (dim : Fin 3) (a b : Nat × RGB) : Bool := decide (a.2.get dim ≤ b.2.get dim)

/-- `build_rec`: stable sort by the split dimension, median at `len / 2`, children from the two
    halves, the node itself read at `colors[index]`. -/
def buildRec (dim : Fin 3) (colors : List (Nat × RGB)) : KD :=
  match hc : colors with
  | [] => .nil
  | [(i, c)] => .node c i dim .nil .nil
  | a :: b :: rest =>
    let sorted := (a :: b :: rest).mergeSort (keyLe dim)
    have hlen : sorted.length = rest.length + 2 := by simp [sorted]
    let index := sorted.length / 2
    let dimNext := nextDim dim
    let left := buildRec dimNext (sorted.take index)
    let right := buildRec dimNext (sorted.drop (index + 1))
    let p := sorted[index]'(by omega)
    .node p.2 p.1 dim left right
termination_by colors.length
decreasing_by
  all_goals simp only [List.length_take, List.length_drop, List.length_cons, List.length_mergeSort] at *
  all_goals omega

def enumFrom : Nat → List RGB → List (Nat × RGB)
  | _, [] => []
  | n, c :: cs => (n, c) :: enumFrom (n + 1) cs

/-- `KDTree::new` -/
def kdNew (colors : List RGB) : KD := buildRec 0 (enumFrom 0 colors)

/-- first half of one level of `find_rec`: the better of the node and the near child's answer -/
def pickGuess (target c : RGB) (idx : Nat) (near : Option (RGB × Nat × Int)) : RGB × Nat × Int :=
  let nodeDist := dist target c
  match near with
  | none => (c, idx, nodeDist)
  | some (g, gi, gd) => if gd ≥ nodeDist then (c, idx, nodeDist) else (g, gi, gd)

/-- one level of `find_rec` given the answer for the near child; the far child is searched only
    when the splitting plane is closer than the current guess -/
def combine (target c : RGB) (idx : Nat) (d : Fin 3)
    (near : Option (RGB × Nat × Int)) (far : Unit → Option (RGB × Nat × Int)) : RGB × Nat × Int :=
  let guess := pickGuess target c idx near
  let otherDist := sqr ((target.get d : Int) - (c.get d : Int))
  if otherDist ≥ guess.2.2 then guess
  else
    match far () with
    | none => guess
    | some (o, oi, od) => if od < guess.2.2 then (o, oi, od) else guess

/-- `find_rec`; result = (node colour, node colour index, squared distance) -/
def findRec (target : RGB) : KD → Option (RGB × Nat × Int)
  | .nil => none
  | .node c idx d l r =>
    if target.get d < c.get d then
      some (combine target c idx d (findRec target l) (fun _ => findRec target r))
    else
      some (combine target c idx d (findRec target r) (fun _ => findRec target l))

/-- `KDTree::find`; `none` = panic (`nodes.len() - 1` on an empty arena) -/
def kdFind (t : KD) (color : RGB) : Option (Nat × RGB) :=
  match findRec color t with
  | none => none
  | some (c, i, _) => some (i, c)

/-- `ColorPalette` -/
structure Palette where
  colors : List RGB
  kd : KD

/-- `ColorPalette::new` -/
def Palette.new (colors : List RGB) : Option Palette :=
  if colors.isEmpty then none else some ⟨colors, kdNew colors⟩

/-- `ColorPalette::find` -/
def Palette.find (p : Palette) (c : RGB) : Option (Nat × RGB) := kdFind p.kd c

/-! ## octree -/

/-- `OcTreeLeaf` -/
structure Leaf where
  redAcc : Nat
  greenAcc : Nat
  blueAcc : Nat
  colorCount : Nat
  index : Nat
  deriving Repr, DecidableEq, Inhabited

def Leaf.new : Leaf := ⟨0, 0, 0, 0, 0⟩
def Leaf.fromRgb (c : RGB) : Leaf := ⟨c.r, c.g, c.b, 1, 0⟩
/-- `leaf += rgba` -/
def Leaf.addRgb (l : Leaf) (c : RGB) : Leaf :=
  { l with redAcc := l.redAcc + c.r, greenAcc := l.greenAcc + c.g, blueAcc := l.blueAcc + c.b,
           colorCount := l.colorCount + 1 }
/-- `leaf += other_leaf` -/
def Leaf.addLeaf (l o : Leaf) : Leaf :=
  { l with redAcc := l.redAcc + o.redAcc, greenAcc := l.greenAcc + o.greenAcc,
           blueAcc := l.blueAcc + o.blueAcc, colorCount := l.colorCount + o.colorCount }
/-- `to_rgba`: `none` = division by zero panic; `as u8` truncates -/
def Leaf.toRgb (l : Leaf) : Option RGB :=
  if l.colorCount = 0 then none
  else some ⟨(l.redAcc / l.colorCount) % 256, (l.greenAcc / l.colorCount) % 256,
             (l.blueAcc / l.colorCount) % 256⟩

/-- `OcTreeInfo` -/
structure Info where
  leafCount : Nat
  colorCount : Nat
  minColorCount : Option Nat
  deriving Repr, DecidableEq, Inhabited

def Info.empty : Info := ⟨0, 0, none⟩

def Info.join (a b : Info) : Info :=
  { leafCount := a.leafCount + b.leafCount
    colorCount := a.colorCount + b.colorCount
    minColorCount := match a.minColorCount, b.minColorCount with
      | some c0, some c1 => some (min c0 c1)
      | none, some c1 => some c1
      | some c0, none => some c0
      | none, none => none }

/-- `OcTreeNode`; `Tree(Box<OcTree>)` carries the three fields of `OcTree`, the array
    `children: [OcTreeNode; 8]` as eight fields -/
inductive Node where
  | empty
  | leaf (l : Leaf)
  | tree (info : Info) (removed : Leaf) (c0 c1 c2 c3 c4 c5 c6 c7 : Node)

instance : Inhabited Node := ⟨.empty⟩

/-- `[OcTreeNode; 8]` -/
structure Ch where
  c0 : Node
  c1 : Node
  c2 : Node
  c3 : Node
  c4 : Node
  c5 : Node
  c6 : Node
  c7 : Node

/-- `children[i]` (the index type keeps `i < 8`: `OcTreePath` masks with `0b111`) -/
def Ch.get (cs : Ch) (i : Fin 8) : Node :=
  match i with
  | 0 => cs.c0 | 1 => cs.c1 | 2 => cs.c2 | 3 => cs.c3 | 4 => cs.c4 | 5 => cs.c5 | 6 => cs.c6 | 7 => cs.c7

/-- `children[i] = n` -/
def Ch.set (cs : Ch) (i : Fin 8) (n : Node) : Ch :=
  match i with
  | 0 => { cs with c0 := n } | 1 => { cs with c1 := n } | 2 => { cs with c2 := n }
  | 3 => { cs with c3 := n } | 4 => { cs with c4 := n } | 5 => { cs with c5 := n }
  | 6 => { cs with c6 := n } | 7 => { cs with c7 := n }

def Ch.empty : Ch := ⟨.empty, .empty, .empty, .empty, .empty, .empty, .empty, .empty⟩

/-- `Tree(Box::new(OcTree { info, removed, children }))` -/
def Node.mkTree (info : Info) (removed : Leaf) (cs : Ch) : Node :=
  .tree info removed cs.c0 cs.c1 cs.c2 cs.c3 cs.c4 cs.c5 cs.c6 cs.c7

/-- lazy selection among eight alternatives -/
def sel8 {α : Type} (i : Fin 8) (a0 a1 a2 a3 a4 a5 a6 a7 : Unit → α) : α :=
  match i with
  | 0 => a0 () | 1 => a1 () | 2 => a2 () | 3 => a3 () | 4 => a4 () | 5 => a5 () | 6 => a6 () | 7 => a7 ()

def allIdx : List (Fin 8) := [0, 1, 2, 3, 4, 5, 6, 7]

/-- `OcTreeNode::info` — for a `Tree` the *stored* summary -/
def nodeInfo : Node → Info
  | .empty => Info.empty
  | .leaf l => ⟨1, l.colorCount, some l.colorCount⟩
  | .tree info _ _ _ _ _ _ _ _ _ => info

/-- `OcTreeInfo::from_slice` -/
def fromSlice (cs : Ch) : Info :=
  allIdx.foldl (fun acc i => acc.join (nodeInfo (cs.get i))) Info.empty

def Node.isEmpty : Node → Bool
  | .empty => true
  | _ => false

/-- `tree.children.iter().all(OcTreeNode::is_empty)` -/
def allEmpty (cs : Ch) : Bool := allIdx.all fun i => (cs.get i).isEmpty

/-- `OcTree` (also the root) -/
structure OcTree where
  info : Info
  removed : Leaf
  children : Ch

def OcTree.new : OcTree := ⟨Info.empty, Leaf.new, Ch.empty⟩

def OcTree.toNode (t : OcTree) : Node := Node.mkTree t.info t.removed t.children

/-- `node_update(index, |_| n)`: store the child, recompute the summary from the children -/
def OcTree.nodeUpdate (t : OcTree) (i : Fin 8) (n : Node) : OcTree :=
  let cs := t.children.set i n
  { t with children := cs, info := fromSlice cs }

/-- one `OcTreePath::next` on the packed `u32` state -/
def pathStep (state : Nat) : Fin 8 × Nat :=
  let bits := state &&& 0x00808080
  let state' := (state <<< 1) &&& 0x00fefefe
  let value := ((bits >>> 21) ||| (bits >>> 14) ||| (bits >>> 7)) &&& 0b111
  (⟨value, Nat.and_lt_two_pow _ (by decide : 7 < 2 ^ 3)⟩, state')

def pathGo : Nat → Nat → List (Fin 8)
  | 0, _ => []
  | n + 1, s => (pathStep s).1 :: pathGo n (pathStep s).2

/-- all eight items of `OcTreePath::new(rgba)` -/
def pathOf (c : RGB) : List (Fin 8) := pathGo 8 ((c.r <<< 16) ||| (c.g <<< 8) ||| c.b)

/-- `insert_rec`; `none` = `unreachable!()` -/
def insertRec (node : Node) (path : List (Fin 8)) (c : RGB) : Option Node :=
  match path with
  | index :: rest =>
    match node with
    | .empty =>
      match insertRec .empty rest c with
      | none => none
      | some n => some (OcTree.new.nodeUpdate index n).toNode
    | .leaf l => some (.leaf (l.addRgb c))
    | .tree info removed c0 c1 c2 c3 c4 c5 c6 c7 =>
      let cs : Ch := ⟨c0, c1, c2, c3, c4, c5, c6, c7⟩
      match insertRec (cs.get index) rest c with
      | none => none
      | some n => some ((OcTree.mk info removed cs).nodeUpdate index n).toNode
  | [] =>
    match node with
    | .empty => some (.leaf (Leaf.fromRgb c))
    | .leaf l => some (.leaf (l.addRgb c))
    | .tree _ _ _ _ _ _ _ _ _ _ => none

/-- `OcTree::insert`; `none` = panic -/
def OcTree.insert (t : OcTree) (c : RGB) : Option OcTree :=
  match pathOf c with
  | [] => none
  | index :: rest =>
    match insertRec (t.children.get index) rest c with
    | none => none
    | some n => some (t.nodeUpdate index n)

/-- `argmin_color_count`: first child with the least `info().min_color_count` -/
def argminColorCount (cs : Ch) : Option (Fin 8) :=
  (allIdx.foldl (fun (best : Option (Fin 8 × Nat)) i =>
    match (nodeInfo (cs.get i)).minColorCount with
    | none => best
    | some m =>
      match best with
      | none => some (i, m)
      | some (_, bm) => if m < bm then some (i, m) else best) none).map (·.1)

/-- `prune_rec`, arm `Leaf(leaf)`: the leaf goes into `removed`; `tree.info` is *not* recomputed -/
def pruneLeafArm (info : Info) (removed : Leaf) (cs : Ch) (index : Fin 8) (leaf : Leaf) : Node :=
  let removed := removed.addLeaf leaf
  let cs := cs.set index .empty
  if allEmpty cs then .leaf removed else Node.mkTree info removed cs

/-- `prune_rec`, arm `Tree(child_tree)` once the recursive call has returned `child` -/
def pruneTreeArm (info : Info) (removed : Leaf) (cs : Ch) (index : Fin 8) (child : Node) : Node :=
  let cs' := cs.set index .empty
  match child with
  | .leaf leaf =>
    if allEmpty cs' then .leaf (removed.addLeaf leaf)
    else ((OcTree.mk info removed cs').nodeUpdate index child).toNode
  | _ => ((OcTree.mk info removed cs').nodeUpdate index child).toNode

/-- `prune_rec(tree)`; the argument is a `Box<OcTree>`, i.e. always a `tree` node (other shapes are
    not a call the code can make and answer `none`); `none` = `unreachable!` -/
def pruneRec : Node → Option Node
  | .empty => none
  | .leaf _ => none
  | .tree info removed c0 c1 c2 c3 c4 c5 c6 c7 =>
    let cs : Ch := ⟨c0, c1, c2, c3, c4, c5, c6, c7⟩
    match argminColorCount cs with
    | none => some (.leaf removed)
    | some index =>
      match cs.get index with
      | .empty => none
      | .leaf leaf => some (pruneLeafArm info removed cs index leaf)
      | .tree _ _ _ _ _ _ _ _ _ _ =>
        -- `prune_rec(child_tree)` on `children[index]`
        match sel8 index (fun _ => pruneRec c0) (fun _ => pruneRec c1) (fun _ => pruneRec c2)
            (fun _ => pruneRec c3) (fun _ => pruneRec c4) (fun _ => pruneRec c5)
            (fun _ => pruneRec c6) (fun _ => pruneRec c7) with
        | none => none
        | some child => some (pruneTreeArm info removed cs index child)

/-- `OcTree::prune`; NOTE the `Leaf` arm: the leaf is dropped into `removed` and `info` is *not*
    recomputed. -/
def OcTree.prune (t : OcTree) : Option OcTree :=
  match argminColorCount t.children with
  | none => some t
  | some index =>
    match t.children.get index with
    | .empty => none
    | .leaf leaf =>
      some { t with removed := t.removed.addLeaf leaf, children := t.children.set index .empty }
    | .tree _ _ _ _ _ _ _ _ _ _ =>
      match pruneRec (t.children.get index) with
      | none => none
      | some child =>
        some ({ t with children := t.children.set index .empty }.nodeUpdate index child)

/-- outcome of the top-level functions -/
inductive Res (α : Type) where
  | ok (a : α)
  | panic
  | hang
  deriving Repr

def Node.size : Node → Nat
  | .empty => 0
  | .leaf _ => 1
  | .tree _ _ c0 c1 c2 c3 c4 c5 c6 c7 =>
    2 + c0.size + c1.size + c2.size + c3.size + c4.size + c5.size + c6.size + c7.size

def OcTree.size (t : OcTree) : Nat := t.toNode.size

def pruneLoop (pruneCount : Nat) : Nat → OcTree → Res OcTree
  | 0, _ => .hang
  | fuel + 1, t =>
    if t.info.leafCount > pruneCount then
      match t.prune with
      | none => .panic
      | some t' => pruneLoop pruneCount fuel t'
    else .ok t

/-- `prune_until`; the fuel `size + 1` suffices (proved in `SurfProofs.C13`) -/
def OcTree.pruneUntil (t : OcTree) (colorCount : Nat) : Res OcTree :=
  pruneLoop (max colorCount 8) (t.size + 1) t

/-- the leaves in the order `build_palette` visits them -/
def Node.leaves : Node → List Leaf
  | .empty => []
  | .leaf l => [l]
  | .tree _ _ c0 c1 c2 c3 c4 c5 c6 c7 =>
    c0.leaves ++ c1.leaves ++ c2.leaves ++ c3.leaves ++ c4.leaves ++ c5.leaves ++ c6.leaves ++ c7.leaves

def OcTree.leaves (t : OcTree) : List Leaf := t.toNode.leaves

def mapToRgb : List Leaf → Option (List RGB)
  | [] => some []
  | l :: ls =>
    match l.toRgb with
    | none => none
    | some c =>
      match mapToRgb ls with
      | none => none
      | some cs => some (c :: cs)

/-- `build_palette` (the `leaf.index` bookkeeping for `OcTree::find` is not observable through
    `from_image` and is left out); `none` = division by zero in `to_rgba` -/
def OcTree.buildPalette (t : OcTree) : Option (List RGB) := mapToRgb t.leaves

/-! ## `ColorPalette::from_image` -/

/-- `common::Rnd` -/
def rndStep (state : Nat) : Nat × Nat :=
  let s := ((state * 214013 + 2531011) % 2 ^ 32) &&& 0x7fffffff
  (s >>> 16, s)

/-- `Rnd::next_u32` -/
def rndNextU32 (state : Nat) : Nat × Nat :=
  let (a, s1) := rndStep state
  let (b, s2) := rndStep s1
  ((((a &&& 0xffff) <<< 16) % 2 ^ 32) ||| (b &&& 0xffff), s2)

/-- `while let Some(color) = colors.nth(rnd.next_u32() % sample)`: `skip` items are still to be
    skipped before the next one is taken -/
def sampleGo (sample : Nat) : Nat → Nat → List RGB → List RGB
  | _, _, [] => []
  | 0, st, c :: rest =>
    let (v, st') := rndNextU32 st
    c :: sampleGo sample (v % sample) st' rest
  | skip + 1, st, _ :: rest => sampleGo sample skip st rest

def samplePixels (sample : Nat) (pixels : List RGB) : List RGB :=
  let (v, st) := rndNextU32 0
  sampleGo sample (v % sample) st pixels

def insertAll : OcTree → List RGB → Option OcTree
  | t, [] => some t
  | t, c :: cs =>
    match t.insert c with
    | none => none
    | some t' => insertAll t' cs

/-- `(height * width / palette_size.saturating_mul(100)) as u32` (`usize` = 64 bit);
    `none` = division by zero panic (`palette_size = 0`) -/
def sampleRate (height width paletteSize : Nat) : Option Nat :=
  let d := min (paletteSize * 100) (2 ^ 64 - 1)
  if d = 0 then none else some ((height * width / d) % 2 ^ 32)

/-- `ColorPalette::from_image` on the composited pixels (row-major); `ok none` = `None` -/
def fromImage (pixels : List RGB) (height width paletteSize : Nat) : Res (Option Palette) :=
  if pixels.isEmpty then .ok none else
  match sampleRate height width paletteSize with
  | none => .panic
  | some sample =>
    let chosen := if sample < 2 then pixels else samplePixels sample pixels
    match insertAll OcTree.new chosen with
    | none => .panic
    | some octree =>
      match octree.pruneUntil paletteSize with
      | .panic => .panic
      | .hang => .hang
      | .ok octree =>
        match octree.buildPalette with
        | none => .panic
        | some colors => .ok (Palette.new colors)

/-! ## `Image::quantize` -/

/-- without dithering: every pixel is looked up in the palette; `none` = panic -/
def quantizePlain (p : Palette) : List RGB → Option (List Nat)
  | [] => some []
  | c :: cs =>
    match p.find c with
    | none => none
    | some (i, _) =>
      match quantizePlain p cs with
      | none => none
      | some is => some (i :: is)

inductive DitherRes where
  | ok (indices : List Nat)
  | panic
  /-- a non-zero error term arose: outside the modelled domain -/
  | inexact
  deriving Repr

/-- Floyd–Steinberg, zero-error case: as long as every pixel is matched by a palette colour exactly,
    every error term is `0.0`, `errors[col+1].add(color)` returns `color` and the loop is the plain
    one. -/
def quantizeDither (p : Palette) : List RGB → DitherRes
  | [] => .ok []
  | c :: cs =>
    match p.find c with
    | none => .panic
    | some (i, qc) =>
      if qc = c then
        match quantizeDither p cs with
        | .ok is => .ok (i :: is)
        | r => r
      else .inexact

/-- Floyd–Steinberg in general.  The colour handed to the lookup for a pixel is
    `errors[col + 1].add(color)`: `f32` arithmetic on the diffused error, clamped to bytes — *some*
    RGB triple.  The error terms are not modelled; `looked` lists the colours that were looked up
    (one per pixel, arbitrary), and the loop over them is the plain one. -/
def quantizeLooked (p : Palette) (looked : List RGB) : Option (List Nat) := quantizePlain p looked

inductive QRes where
  /-- `quantize` returned `None` -/
  | none
  | panic
  | hang
  | ok (palette : List RGB) (indices : List Nat)
  /-- dithering with a non-zero error: palette only -/
  | inexact (palette : List RGB)
  deriving Repr

/-- `Image::quantize(palette_size, dither, bg)` on the composited pixels -/
def quantize (pixels : List RGB) (height width paletteSize : Nat) (dither : Bool) : QRes :=
  match fromImage pixels height width paletteSize with
  | .panic => .panic
  | .hang => .hang
  | .ok none => .none
  | .ok (some p) =>
    if dither then
      match quantizeDither p pixels with
      | .ok is => .ok p.colors is
      | .panic => .panic
      | .inexact => .inexact p.colors
    else
      match quantizePlain p pixels with
      | none => .panic
      | some is => .ok p.colors is

/-- `Image::quantize(palette_size, true, bg)` with the dithering adjustments abstracted: the palette
    comes from the pixels, the lookups are made for `looked` -/
def quantizeDithered (pixels : List RGB) (height width paletteSize : Nat) (looked : List RGB) : QRes :=
  match fromImage pixels height width paletteSize with
  | .panic => .panic
  | .hang => .hang
  | .ok none => .none
  | .ok (some p) =>
    match quantizeLooked p looked with
    | none => .panic
    | some is => .ok p.colors is

/-! ## line protocol -/
open SurfModel.Proto

def rgbOfBytes : List UInt8 → Option (List RGB)
  | [] => some []
  | r :: g :: b :: rest =>
    match rgbOfBytes rest with
    | none => none
    | some cs => some (⟨r.toNat, g.toNat, b.toNat⟩ :: cs)
  | _ => none

def parseColors (s : String) : Option (List RGB) :=
  match unhex s with
  | none => none
  | some bs => rgbOfBytes bs

def hexByte (n : Nat) : String := String.ofList [hexNib (n / 16 % 16), hexNib (n % 16)]
def showRgb (c : RGB) : String := hexByte c.r ++ hexByte c.g ++ hexByte c.b
def showColors (cs : List RGB) : String := if cs.isEmpty then "-" else String.join (cs.map showRgb)

/-- least distance over a palette and how many entries attain it -/
def minCount (pal : List RGB) (q : RGB) : Option (Int × Nat) :=
  pal.foldl (fun acc c =>
    let d := dist q c
    match acc with
    | none => some (d, 1)
    | some (m, n) => if d < m then some (d, 1) else if d = m then some (m, n + 1) else some (m, n)) none

/-- canonical answer for one lookup: the distance of the returned entry, and its index when the
    nearest entry is unique (another equally near index is the same answer) -/
def showFind (pal : List RGB) (q : RGB) (i : Nat) (c : RGB) : String :=
  let d := dist q c
  match minCount pal q with
  | some (m, 1) => if m = d then s!"{d}:{i}" else s!"{d}:!"
  | _ => s!"{d}:~"

def showFinds (pal : List RGB) (kd : KD) (qs : List RGB) : String :=
  ",".intercalate (qs.map fun q =>
    match kdFind kd q with
    | none => "panic"
    | some (i, c) => showFind pal q i c)

def showCanon (pal : List RGB) (pixels : List RGB) (is : List Nat) : String :=
  ",".intercalate ((pixels.zip is).map fun (q, i) =>
    match pal[i]? with
    | none => "oob"
    | some c => showFind pal q i c)

/-- as `to_digraph` prints it: `min_color_count.unwrap_or(0)` -/
def showOptNat : Option Nat → String
  | none => "0"
  | some n => toString n

def dumpNode : Node → String
  | .empty => ""
  | .leaf l => match l.toRgb with
    | none => s!"L(div0.{l.colorCount})"
    | some c => s!"L({showRgb c}.{l.colorCount})"
  | .tree info _ c0 c1 c2 c3 c4 c5 c6 c7 =>
    s!"T({info.leafCount}.{showOptNat info.minColorCount})[" ++ dumpNode c0 ++ dumpNode c1
      ++ dumpNode c2 ++ dumpNode c3 ++ dumpNode c4 ++ dumpNode c5 ++ dumpNode c6
      ++ dumpNode c7 ++ "]"

def showPalette : Option (List RGB) → String
  | none => "panic"
  | some cs => showColors cs

/-- ops: `n` = prune_until(n), `p` = prune(), `-` = nothing -/
def runOct (t : OcTree) : List String → Res OcTree
  | [] => .ok t
  | op :: ops =>
    if op == "p" then
      match t.prune with
      | none => .panic
      | some t' => runOct t' ops
    else match op.toNat? with
      | none => runOct t ops
      | some k =>
        match t.pruneUntil k with
        | .ok t' => runOct t' ops
        | r => r

def handle : List String → String
  | ["kd", pal, qs] =>
    match parseColors pal, parseColors qs with
    | some pal, some qs =>
      match Palette.new pal with
      | none => "none"
      | some p => showFinds pal p.kd qs
    | _, _ => "bad-op"
  | ["oct", ops, cols] =>
    match parseColors cols with
    | none => "bad-op"
    | some cols =>
      match insertAll OcTree.new cols with
      | none => "panic"
      | some t =>
        match runOct t (ops.splitOn ",") with
        | .panic => "panic"
        | .hang => "hang"
        | .ok t => s!"shape={dumpNode t.toNode} pal={showPalette t.buildPalette}"
  | ["octpal", ops, cols] =>
    match parseColors cols with
    | none => "bad-op"
    | some cols =>
      match insertAll OcTree.new cols with
      | none => "panic"
      | some t =>
        match runOct t (ops.splitOn ",") with
        | .panic => "panic"
        | .hang => "hang"
        | .ok t => s!"pal={showPalette t.buildPalette}"
  | ["pal", h, w, k, px] =>
    match h.toNat?, w.toNat?, k.toNat?, parseColors px with
    | some h, some w, some k, some px =>
      match fromImage px h w k with
      | .panic => "panic"
      | .hang => "hang"
      | .ok none => "none"
      | .ok (some p) => s!"pal={showColors p.colors}"
    | _, _, _, _ => "bad-op"
  | ["quant", h, w, k, d, px] =>
    match h.toNat?, w.toNat?, k.toNat?, parseColors px with
    | some h, some w, some k, some px =>
      match quantize px h w k (d == "1") with
      | .none => "none"
      | .panic => "panic"
      | .hang => "hang"
      | .ok pal is => s!"pal={showColors pal} idx={showCanon pal px is}"
      | .inexact pal => s!"pal={showColors pal} inexact"
    | _, _, _, _ => "bad-op"
  | _ => "bad-op"

end SurfModel.Quant
