import SurfModel.Sgr
/-!
# C06 — the reference SGR machine with the inexpressible parameters ignored

The public `FaceModify` record has no field for "default foreground / background" (SGR 39 / 49) nor for
reverse video (SGR 7 / 27): the decoder ignores these four parameters (known finding `C06-inexpressible`).
To judge everything ELSE in a parameter string that contains one of them, `refApplyX` is the reference
machine `Sgr.refApply` in which exactly the four operations these parameters denote are no-ops; on strings
without them the two coincide (`SurfProofs.C06.refApplyX_eq`).
-/
namespace SurfModel.Sgr
open SurfModel.Vt

/-- the operations a face-modification record cannot express: SGR 7, 27, 39, 49 -/
def inexpressibleOp : SgrOp → Bool
  | .reverse | .noReverse | .fgDefault | .bgDefault => true
  | _ => false

/-- `applySgr` with the inexpressible operations ignored -/
def applySgrX (a : Attr) (op : SgrOp) : Attr := if inexpressibleOp op then a else applySgr a op

/-- reference: SGR parameter bytes applied to a face with SGR semantics, parameters 7 / 27 / 39 / 49 ignored -/
def refApplyX (data : List Nat) (f : DFace) : Option Attr :=
  (params? data).map fun ps => normAttr ((sgrSem ps).foldl applySgrX (attrOfDFace f))

open SurfModel.Proto in
/-- `c06 refx <hex> <face…>`: the reference with the inexpressible parameters ignored; everything else as
`Sgr.handle`. -/
def handleX : List String → String
  | "refx" :: d :: face => match unhexN d, parseDFace face with
    | some ds, some f => (match refApplyX ds f with | some a => showAttr a | none => "not-numeric")
    | _, _ => "bad-op"
  | rest => handle rest

end SurfModel.Sgr
