import SurfModel.Kitty
import SurfModel.Base64
/-!
# `KittyImageHandler::draw` with the payload streamed through `Base64Encoder` — C11

`SurfModel/Kitty.lean` computes the payload of a transmission by its result (`payloadOf`: RFC 4648 text of all
pixel bytes).  The code does not: it creates a `Base64Encoder` over a `Vec`, feeds it **one `write_all` of the
four RGBA bytes per pixel**, in the order of `img.iter()`, and takes the `Vec` back with `finish()`:

```rust
let mut payload_write = Base64Encoder::new(Vec::new());
for color in img.iter() {
    payload_write.write_all(&color.to_rgba())?;
}
let payload = payload_write.finish()?;
```

This file mirrors that literally on top of C14's model of the encoder (`SurfModel.Base64`: `Enc.new`, `write`,
`finish` with the 3-byte carry, the alphabet read from the regenerated `BASE64_ENCODE` table; an out-of-range
index is the explicit outcome `panic`).  `Write::write_all(buf)` on `Base64Encoder` is one `write(buf)`: `write`
always consumes the whole slice, and the inner `Vec` never fails.

`drawStreaming`, `handleEventStreaming`, `stepStreaming`, `runStreaming` are `draw`, `handleEvent`, `step`, `run`
of `SurfModel/Kitty.lean` with that payload computation (and the outcome `panic` propagated);
`SurfProofs/Lemmas/KittyStream.lean` proves them equal to the result-based functions, panic-free, for every image
(C14_encode).  The line protocol's `model` requests are answered by the streaming functions.
-/
namespace SurfModel.KittyStream
open SurfModel.Kitty
open SurfModel.Base64 (Enc EncRes)

/-- the `for color in img.iter() { payload_write.write_all(&color.to_rgba())?; }` loop: `SurfaceIter` (see
`Image.iterGo`: same fuel, same two exits) with the loop body `write` of the pixel's four bytes -/
def streamGo (img : Image) : Nat → Nat → Enc → EncRes Enc
  | 0, _, e => .ok e
  | k + 1, index, e =>
    match img.shape.nth index with
    | none => .ok e
    | some (row, col) =>
      match img.data[img.shape.offset row col]? with
      | none => .ok e
      | some c =>
        match SurfModel.Base64.write e c.bytes with          -- write_all(&color.to_rgba())
        | .panic => .panic
        | .ok e' => streamGo img k (index + 1) e'

/-- `Base64Encoder::new(Vec::new())`, the loop, `finish()` -/
def payloadStreaming (img : Image) : EncRes (List UInt8) :=
  match streamGo img (img.shape.width * img.shape.height) 0 Enc.new with
  | .panic => .panic
  | .ok e => SurfModel.Base64.finish e

section
variable (hash : Image → UInt64)

/-- `KittyImageHandler::draw`, the payload computed where the code computes it (inside the `Entry::Vacant`
branch, before anything is written) and by streaming -/
def drawStreaming (h : Handler) (img : Image) (row col : Nat) : EncRes (Handler × List UInt8) :=
  if img.isEmpty then .ok (h, [])
  else
    let id := idOf hash img
    let q := h.suppress.getD 0
    if h.contains id then .ok (h, putBytes id (placementId row col) q)
    else
      match payloadStreaming img with
      | .panic => .panic
      | .ok payload =>
        let cs := chunks 4096 payload
        .ok ({ h with imgs := (id, img) :: h.imgs },
             emitChunks id img.shape.height img.shape.width q cs.length 0 cs ++ putBytes id (placementId row col) q)

/-- `KittyImageHandler::handle` over `drawStreaming` -/
def handleEventStreaming (h : Handler) : Event → EncRes (Handler × List UInt8 × Bool)
  | .kittyImage id placement error =>
    if error then
      let pos := placement.map placementToPos
      let removed := h.imgs.lookup id
      let h1 : Handler := { h with imgs := h.imgs.filter (fun e => e.1 != id) }
      match removed, pos with
      | some img, some (row, col) =>
        let suppress := h1.suppress
        match drawStreaming hash { h1 with suppress := some 2 } img row col with
        | .panic => .panic
        | .ok d => .ok ({ d.1 with suppress := suppress }, [27, 55] ++ cursorTo row col ++ d.2 ++ [27, 56], true)
      | _, _ => .ok (h1, [], true)
    else .ok (h, [], true)
  | .other => .ok (h, [], false)

/-- one event: new handler, bytes written, the "handled" flag of `handle` (`none` for draw / erase) -/
def stepStreaming (h : Handler) : Ev → EncRes (Handler × List UInt8 × Option Bool)
  | .draw img row col =>
    match drawStreaming hash h img row col with
    | .panic => .panic
    | .ok d => .ok (d.1, d.2, none)
  | .erase img pos => .ok (h, erase hash img pos, none)
  | .resp id placement error =>
    match handleEventStreaming hash h (.kittyImage id placement error) with
    | .panic => .panic
    | .ok r => .ok (r.1, r.2.1, some r.2.2)
  | .other =>
    match handleEventStreaming hash h .other with
    | .panic => .panic
    | .ok r => .ok (r.1, r.2.1, some r.2.2)

/-- bytes written per event; a panic ends the history -/
def runStreaming (h : Handler) : List Ev → EncRes (List (List UInt8))
  | [] => .ok []
  | ev :: rest =>
    match stepStreaming hash h ev with
    | .panic => .panic
    | .ok s =>
      match runStreaming s.1 rest with
      | .panic => .panic
      | .ok outs => .ok (s.2.1 :: outs)

end

/-! ## line protocol: `c11 model …` answered by the streaming model, everything else by `Kitty.handle` -/
open SurfModel.Proto

/-- same output format as `Kitty.showRun`; a panic prints `panic` and ends the history -/
def showRunStreaming (hash : Image → UInt64) : Handler → List Ev → List String
  | _, [] => []
  | h, ev :: rest =>
    match stepStreaming hash h ev with
    | .panic => ["panic"]
    | .ok s =>
      (hex s.2.1 ++ (match s.2.2 with | none => "" | some true => ":t" | some false => ":f"))
        :: showRunStreaming hash s.1 rest

def handle : List String → String
  | "model" :: q :: rest =>
    match parseReq rest ⟨q == "q1", [], []⟩ with
    | some req =>
      let h0 := if req.quiet then Handler.new.quiet else Handler.new
      " ".intercalate (showRunStreaming (hashOf req.imgs) h0 req.evs)
    | none => "bad-op"
  | req => SurfModel.Kitty.handle req

end SurfModel.KittyStream
