import SurfModel.Kitty
import SurfModel.Base64
/-!
# `KittyImageHandler::draw` with the payload streamed through `Base64Encoder` — C11

`SurfModel/Kitty.lean` computes the payload of a transmission by its result (`payloadOf`: RFC 4648 text of all
pixel bytes).  The code does not: it creates a `Base64Encoder` over a `Vec`, feeds it **one `write_all` of the
four RGBA bytes per pixel**, in the order of `img.iter()`, and takes the `Vec` back with `finish()`:

```rust
let mut payload_write = Base64Encoder::new(Vec::new());
for color in img.iter() {
    payload_write.write_all(&color.to_rgba())?;
}
let payload = payload_write.finish()?;
```

This file mirrors that literally on top of C14's model of the encoder (`SurfModel.Base64`: `Enc.new`, `write`,
`finish` with the 3-byte carry, the alphabet read from the regenerated `BASE64_ENCODE` table; an out-of-range
index is the explicit outcome `panic`).  `Write::write_all(buf)` on `Base64Encoder` is one `write(buf)`: `write`
always consumes the whole slice, and the inner `Vec` never fails.

`drawStreaming`, `handleEventStreaming`, `stepStreaming`, `runStreaming` are `draw`, `handleEvent`, `step`, `run`
of `SurfModel/Kitty.lean` with that payload computation (and the outcome `panic` propagated);
`SurfProofs/Lemmas/KittyStream.lean` proves them equal to the result-based functions, panic-free, for every image
(C14_encode).  The line protocol's `model` requests are answered by the streaming functions.
-/
namespace SurfModel.KittyStream
open SurfModel.Kitty
open SurfModel.Base64 (Enc EncRes Buf3)

/-- the `for color in img.iter() { payload_write.write_all(&color.to_rgba())?; }` loop: `SurfaceIter` (see
`Image.iterGo`: same fuel, same two exits) with the loop body `write` of the pixel's four bytes -/
def streamGo (img : Image) : Nat → Nat → Enc → EncRes Enc
  | 0, _, e => .ok e
  | k + 1, index, e =>
    match img.shape.nth index with
    | none => .ok e
    | some (row, col) =>
      match img.data[img.shape.offset row col]? with
      | none => .ok e
      | some c =>
        match SurfModel.Base64.write e c.bytes with          -- write_all(&color.to_rgba())
        | .panic => .panic
        | .ok e' => streamGo img k (index + 1) e'

/-- `Base64Encoder::new(Vec::new())`, the loop, `finish()` -/
def payloadStreaming (img : Image) : EncRes (List UInt8) :=
  match streamGo img (img.shape.width * img.shape.height) 0 Enc.new with
  | .panic => .panic
  | .ok e => SurfModel.Base64.finish e

/-! ### compiled form of `payloadStreaming`

C14's encoder model keeps the inner `Vec` as a `List` and appends each 4-character group at its end — quadratic
in the payload length when executed.  For execution only, `payloadStreaming` is replaced (`@[csimp]`, i.e. by a
kernel-checked equation, `payloadStreaming_eq_fast`) by `payloadStreamingFast`: the same `write` / `finish`
functions of the encoder model, applied pixel by pixel to an encoder whose inner writer has been emptied, the
pieces written being collected and concatenated at the end.  This is sound because `write` and `finish` only
ever append to the inner writer (`write_prefix`, `finish_prefix`).  Theorems are stated about
`payloadStreaming`; nothing refers to the fast form. -/

def prefixInner (p : List UInt8) : EncRes Enc → EncRes Enc
  | .panic => .panic
  | .ok e => .ok { e with inner := p ++ e.inner }

theorem writeByte_prefix (p : List UInt8) (e : Enc) (b : UInt8) :
    SurfModel.Base64.writeByte { e with inner := p ++ e.inner } b = prefixInner p (SurfModel.Base64.writeByte e b) := by
  unfold SurfModel.Base64.writeByte
  simp only
  cases e.buffer.set e.size b with
  | none => rfl
  | some buffer =>
    simp only
    split
    · cases SurfModel.Base64.encode3 buffer.b0 buffer.b1 buffer.b2 with
      | none => rfl
      | some dst => simp [prefixInner, List.append_assoc]
    · rfl

theorem write_prefix (p : List UInt8) : ∀ (bs : List UInt8) (e : Enc),
    SurfModel.Base64.write { e with inner := p ++ e.inner } bs = prefixInner p (SurfModel.Base64.write e bs)
  | [], e => rfl
  | b :: rest, e => by
    simp only [SurfModel.Base64.write, writeByte_prefix]
    cases SurfModel.Base64.writeByte e b with
    | panic => rfl
    | ok e' => exact write_prefix p rest e'

theorem finish_prefix (p : List UInt8) (e : Enc) :
    SurfModel.Base64.finish { e with inner := p ++ e.inner }
      = match SurfModel.Base64.finish e with | .panic => .panic | .ok t => .ok (p ++ t) := by
  unfold SurfModel.Base64.finish
  simp only
  split
  · rfl
  · split
    · rfl
    · split <;> simp [List.append_assoc]
    · split <;> simp [List.append_assoc]
    · split <;> simp [List.append_assoc]

def streamGoFast (img : Image) : Nat → Nat → List (List UInt8) → Buf3 → Nat → EncRes (List (List UInt8) × Buf3 × Nat)
  | 0, _, acc, buf, size => .ok (acc, buf, size)
  | k + 1, index, acc, buf, size =>
    match img.shape.nth index with
    | none => .ok (acc, buf, size)
    | some (row, col) =>
      match img.data[img.shape.offset row col]? with
      | none => .ok (acc, buf, size)
      | some c =>
        match SurfModel.Base64.write ⟨[], buf, size⟩ c.bytes with
        | .panic => .panic
        | .ok e' => streamGoFast img k (index + 1) (e'.inner :: acc) e'.buffer e'.size

def payloadStreamingFast (img : Image) : EncRes (List UInt8) :=
  match streamGoFast img (img.shape.width * img.shape.height) 0 [] ⟨0, 0, 0⟩ 0 with
  | .panic => .panic
  | .ok (acc, buf, size) =>
    match SurfModel.Base64.finish ⟨[], buf, size⟩ with
    | .panic => .panic
    | .ok t => .ok (acc.reverse.flatten ++ t)

theorem streamGo_fast (img : Image) : ∀ (k index : Nat) (acc : List (List UInt8)) (buf : Buf3) (size : Nat),
    streamGo img k index ⟨acc.reverse.flatten, buf, size⟩
      = match streamGoFast img k index acc buf size with
        | .panic => .panic
        | .ok (acc', buf', size') => .ok ⟨acc'.reverse.flatten, buf', size'⟩ := by
  intro k
  induction k with
  | zero => intro index acc buf size; rfl
  | succ k ih =>
    intro index acc buf size
    simp only [streamGo, streamGoFast]
    cases img.shape.nth index with
    | none => rfl
    | some rc =>
      obtain ⟨row, col⟩ := rc
      simp only []
      cases img.data[img.shape.offset row col]? with
      | none => rfl
      | some c =>
        simp only []
        have hp := write_prefix acc.reverse.flatten c.bytes ⟨[], buf, size⟩
        simp only [List.append_nil] at hp
        rw [hp]
        cases SurfModel.Base64.write ⟨[], buf, size⟩ c.bytes with
        | panic => rfl
        | ok e' =>
          simp only [prefixInner]
          have := ih (index + 1) (e'.inner :: acc) e'.buffer e'.size
          simpa using this

@[csimp] theorem payloadStreaming_eq_fast : @payloadStreaming = @payloadStreamingFast := by
  funext img
  unfold payloadStreaming payloadStreamingFast
  have h := streamGo_fast img (img.shape.width * img.shape.height) 0 [] ⟨0, 0, 0⟩ 0
  simp only [List.reverse_nil, List.flatten_nil] at h
  rw [show Enc.new = ⟨[], ⟨0, 0, 0⟩, 0⟩ from rfl, h]
  cases streamGoFast img (img.shape.width * img.shape.height) 0 [] ⟨0, 0, 0⟩ 0 with
  | panic => rfl
  | ok r =>
    obtain ⟨acc, buf, size⟩ := r
    simp only []
    have hf := finish_prefix acc.reverse.flatten ⟨[], buf, size⟩
    simp only [List.append_nil] at hf
    rw [hf]

section
variable (hash : Image → UInt64)

/-- `KittyImageHandler::draw`, the payload computed where the code computes it (inside the `Entry::Vacant`
branch, before anything is written) and by streaming -/
def drawStreaming (h : Handler) (img : Image) (row col : Nat) : EncRes (Handler × List UInt8) :=
  if img.isEmpty then .ok (h, [])
  else
    let id := idOf hash img
    let q := h.suppress.getD 0
    if h.contains id then .ok (h, putBytes id (placementId row col) q)
    else
      match payloadStreaming img with
      | .panic => .panic
      | .ok payload =>
        let cs := chunks 4096 payload
        .ok ({ h with imgs := (id, img) :: h.imgs },
             emitChunks id img.shape.height img.shape.width q cs.length 0 cs ++ putBytes id (placementId row col) q)

/-- `KittyImageHandler::handle` over `drawStreaming` -/
def handleEventStreaming (h : Handler) : Event → EncRes (Handler × List UInt8 × Bool)
  | .kittyImage id placement error =>
    if error then
      let pos := placement.map placementToPos
      let removed := h.imgs.lookup id
      let h1 : Handler := { h with imgs := h.imgs.filter (fun e => e.1 != id) }
      match removed, pos with
      | some img, some (row, col) =>
        let suppress := h1.suppress
        match drawStreaming hash { h1 with suppress := some 2 } img row col with
        | .panic => .panic
        | .ok d => .ok ({ d.1 with suppress := suppress }, [27, 55] ++ cursorTo row col ++ d.2 ++ [27, 56], true)
      | _, _ => .ok (h1, [], true)
    else .ok (h, [], true)
  | .other => .ok (h, [], false)

/-- one event: new handler, bytes written, the "handled" flag of `handle` (`none` for draw / erase) -/
def stepStreaming (h : Handler) : Ev → EncRes (Handler × List UInt8 × Option Bool)
  | .draw img row col =>
    match drawStreaming hash h img row col with
    | .panic => .panic
    | .ok d => .ok (d.1, d.2, none)
  | .erase img pos => .ok (h, erase hash img pos, none)
  | .resp id placement error =>
    match handleEventStreaming hash h (.kittyImage id placement error) with
    | .panic => .panic
    | .ok r => .ok (r.1, r.2.1, some r.2.2)
  | .other =>
    match handleEventStreaming hash h .other with
    | .panic => .panic
    | .ok r => .ok (r.1, r.2.1, some r.2.2)

/-- bytes written per event; a panic ends the history -/
def runStreaming (h : Handler) : List Ev → EncRes (List (List UInt8))
  | [] => .ok []
  | ev :: rest =>
    match stepStreaming hash h ev with
    | .panic => .panic
    | .ok s =>
      match runStreaming s.1 rest with
      | .panic => .panic
      | .ok outs => .ok (s.2.1 :: outs)

end

/-! ## line protocol: `c11 model …` answered by the streaming model, everything else by `Kitty.handle` -/
open SurfModel.Proto

/-- same output format as `Kitty.showRun`; a panic prints `panic` and ends the history -/
def showRunStreaming (hash : Image → UInt64) : Handler → List Ev → List String
  | _, [] => []
  | h, ev :: rest =>
    match stepStreaming hash h ev with
    | .panic => ["panic"]
    | .ok s =>
      (hex s.2.1 ++ (match s.2.2 with | none => "" | some true => ":t" | some false => ":f"))
        :: showRunStreaming hash s.1 rest

def handle : List String → String
  | "model" :: q :: rest =>
    match parseReq rest ⟨q == "q1", [], []⟩ with
    | some req =>
      let h0 := if req.quiet then Handler.new.quiet else Handler.new
      " ".intercalate (showRunStreaming (hashOf req.imgs) h0 req.evs)
    | none => "bad-op"
  | req => SurfModel.Kitty.handle req

end SurfModel.KittyStream
