import SurfModel.Proto
import SurfModel.Shape
import SurfModel.Tokenizer
/-!
# C09 — model of `Cell::size`, `Cell::layout`, `TerminalWriter` (`put_cell`, `io::Write`), the
`utf8_writer` / `tty_writer` adaptors (src/render.rs) and of `Text` / `str` as views (src/view/text.rs)

* A character is its code point (`Nat`); its unicode width is the parameter `Ctx.width`, supplied per
  run for the characters used (`unicode-width` is not modelled).
* A surface is C07's `(Shape, data)`; every write goes through `Shape.offset` / `get` of
  `SurfModel/Shape.lean` and is recorded in the ghost list `touched`.
* `data[offset]` with an offset outside the backing slice panics in Rust: `none` here.
* Integers: the fit test `cursor.col.checked_add(w).is_some_and(|end| end <= max_width)` and the
  `saturating_add` of the tracked height are modelled over `usize` (`U = 2^64`); the remaining additions
  (`cursor.row += 1`, `cursor.col += …` bounded by the maximum width) are unbounded: the row grows by at
  most one per cell laid out (`SurfProofs.C09.C09_row_bound`), so it cannot reach `2^64`.
* Faces: `Face::overlay` for opaque colours (`dst.blend_over(src) = src`); colours are numbers.
-/
namespace SurfModel.TextLayout
open SurfModel.Slice SurfModel.Shape SurfModel.Tokenizer

set_option linter.unusedVariables false

/-- `usize::MAX + 1` -/
def U : Nat := 2 ^ 64

/-- `a.saturating_add(b)` on `usize` -/
def satAdd (a b : Nat) : Nat := if a + b < U then a + b else U - 1

/-! ## faces and cells -/

/-- `Face` with opaque colours -/
structure Face where
  fg : Option Nat
  bg : Option Nat
  attrs : Nat
  deriving Repr, DecidableEq

def Face.dflt : Face := ⟨none, none, 0⟩

/-- one colour channel of `Face::overlay` -/
def overlayColor : Option Nat → Option Nat → Option Nat
  | some _, some src => some src     -- `dst.blend_over(src)`, `src` opaque
  | c, none => c
  | none, c => c

/-- `Face::overlay`: `other` on top of `self` -/
def Face.overlay (self other : Face) : Face :=
  { fg := overlayColor self.fg other.fg
    bg := overlayColor self.bg other.bg
    attrs := if other.attrs = 0 then self.attrs else other.attrs }

/-- `CellKind` -/
inductive Kind where
  /-- `Char(c)` -/
  | chr (c : Nat)
  /-- `Image(img)`: size of the image in pixels -/
  | image (ph pw : Nat)
  /-- `Glyph(g)`: `g.size()` in cells, `g.fallback_str()` -/
  | glyph (h w : Nat) (fallback : List Nat)
  deriving Repr, DecidableEq

/-- `Cell` -/
structure Cell where
  face : Face
  kind : Kind
  deriving Repr, DecidableEq

/-- `Cell::overlay` -/
def Cell.overlay (self other : Cell) : Cell :=
  { face := self.face.overlay other.face, kind := other.kind }

/-- what `ViewContext` contributes, plus the unicode width of the characters used -/
structure Ctx where
  hasGlyphs : Bool
  ppcH : Nat
  ppcW : Nat
  width : Nat → Nat

/-- `Image::size_cells(pixels_per_cell)` -/
def sizeCells (ppcH ppcW ph pw : Nat) : Nat × Nat :=
  if ppcH = 0 ∨ ppcW = 0 ∨ ph = 0 ∨ pw = 0 then (0, 0)
  else
    let roundUp := fun (a b : Nat) => if a % b = 0 then a / b else a / b + 1
    (roundUp ph ppcH, roundUp pw ppcW)

/-- `Cell::size` as `(height, width)` -/
def Kind.size (ctx : Ctx) : Kind → Nat × Nat
  | .chr c => (1, ctx.width c)
  | .glyph h w fb => if ctx.hasGlyphs then (h, w) else (1, (fb.map ctx.width).sum)
  | .image ph pw => sizeCells ctx.ppcH ctx.ppcW ph pw

/-! ## `Cell::layout` -/

/-- `cursor: Position` and the tracked `size: Size` -/
structure LSt where
  row : Nat
  col : Nat
  sw : Nat
  sh : Nat
  deriving Repr, DecidableEq

def LSt.init : LSt := ⟨0, 0, 0, 0⟩

/-- `'\n'` -/
def layoutNl (s : LSt) : LSt :=
  { row := s.row + 1, col := 0, sw := max s.sw s.col, sh := max s.sh (s.row + 1) }

/-- `'\r'` -/
def layoutCr (s : LSt) : LSt := { s with col := 0 }

/-- `'\t'`: `cursor.col += (8 - cursor.col % 8).min(max_width.saturating_sub(cursor.col))` -/
def layoutTab (maxW : Nat) (s : LSt) : LSt :=
  let col := s.col + min (8 - s.col % 8) (maxW - s.col)
  { s with col := col, sw := max s.sw col }

/-- the part of `Cell::layout` after the special characters, for a cell of size `(h, w)` -/
def layoutSized (maxW : Nat) (wraps : Bool) (h w : Nat) (s : LSt) : LSt × Option (Nat × Nat) :=
  if h = 0 ∨ w = 0 then (s, none)
  else if s.col + w < U ∧ s.col + w ≤ maxW then
    -- enough space to put cell
    ({ row := s.row, col := s.col + w, sw := max s.sw (s.col + w), sh := max s.sh (satAdd s.row h) },
      some (s.row, s.col))
  else if !wraps then (s, none)
  else
    -- put new line, put cell unconditionally
    let row := s.row + 1
    let col := min w maxW
    ({ row := row, col := col, sw := max s.sw col, sh := max (max s.sh row) (satAdd row h) },
      some (row, 0))

/-- `Cell::layout(ctx, max_width, wraps, &mut size, &mut cursor) -> Option<Position>` -/
def cellLayout (ctx : Ctx) (maxW : Nat) (wraps : Bool) (k : Kind) (s : LSt) : LSt × Option (Nat × Nat) :=
  match k with
  | .chr c =>
    if c = 10 then (layoutNl s, none)
    else if c = 13 then (layoutCr s, none)
    else if c = 9 then (layoutTab maxW s, none)
    else layoutSized maxW wraps 1 (ctx.width c) s
  | k => layoutSized maxW wraps (k.size ctx).1 (k.size ctx).2 s

/-- a sequence of `Cell::layout` calls on the same `size` / `cursor`; the positions returned are kept -/
def layoutRun (ctx : Ctx) (maxW : Nat) (wraps : Bool) : List Kind → LSt → LSt × List (Option (Nat × Nat))
  | [], s => (s, [])
  | k :: ks, s =>
    let r := cellLayout ctx maxW wraps k s
    let t := layoutRun ctx maxW wraps ks r.1
    (t.1, r.2 :: t.2)

/-! ## `TerminalWriter` -/

/-- fields of `TerminalWriter`; `surf` is `(shape, data)`, `touched` is the ghost list of offsets written -/
structure Writer where
  ctx : Ctx
  wraps : Bool
  face : Face
  st : LSt
  shape : Shape
  data : List Cell
  touched : List Nat

/-- `TerminalWriter::new` -/
def Writer.new (ctx : Ctx) (shape : Shape) (data : List Cell) : Writer :=
  { ctx := ctx, wraps := true, face := Face.dflt, st := LSt.init, shape := shape, data := data, touched := [] }

/-- `TerminalWriter::set_cursor` -/
def Writer.setCursor (w : Writer) (row col : Nat) : Writer :=
  { w with st := { w.st with col := min col w.shape.width, row := min row w.shape.height } }

/-- body of the two loops filling skipped cells with the current face -/
def fillStep (sh : Shape) (face : Face) (start end_ : Nat) (row col : Nat) (st : MutSt Cell) : Option (MutSt Cell) :=
  let offset := sh.offset row col
  if start ≤ offset ∧ offset < end_ then
    -- `let cell = &mut data[offset]; cell.face = cell.face.overlay(&face)`
    match st.data[offset]? with
    | none => none
    | some cell =>
      some { data := st.data.set offset { cell with face := cell.face.overlay face }, touched := st.touched ++ [offset] }
  else some st

/-- `for row in cursor_start.row..min(cursor.row + 1, shape.height) { for col in 0..shape.width { … } }` -/
def fillFace (sh : Shape) (face : Face) (startRow startCol endRow endCol : Nat) (st : MutSt Cell) : Option (MutSt Cell) :=
  let start := sh.offset startRow startCol
  let end_ := sh.offset endRow endCol
  forIn? (List.range' startRow (min (endRow + 1) sh.height - startRow)) (fun row st =>
    forIn? (List.range sh.width) (fun col st => fillStep sh face start end_ row col st) st) st

/-- `put_cell` after the glyph fallback branch; `none` = index panic -/
def putPlain (w : Writer) (cell : Cell) : Option (Writer × Bool) :=
  let face := w.face.overlay cell.face
  let start := w.st
  let r := cellLayout w.ctx w.shape.width w.wraps cell.kind w.st
  match r.2 with
  | some (row, col) =>
    -- `self.surf.get_mut(pos)`
    match get w.shape w.data row col with
    | some (off, old) =>
      some ({ w with st := r.1, data := w.data.set off (old.overlay { cell with face := face }),
                     touched := w.touched ++ [off] }, true)
    | none => some ({ w with st := r.1 }, false)
  | none =>
    if start.row ≠ r.1.row ∨ start.col ≠ r.1.col then
      -- cursor has been moved by a special character: fill skipped cells with the current face
      match fillFace w.shape face start.row start.col r.1.row r.1.col { data := w.data, touched := w.touched } with
      | none => none
      | some m => some ({ w with st := r.1, data := m.data, touched := m.touched }, true)
    else some ({ w with st := r.1 }, true)

/-- `glyph.fallback_str().chars().all(|c| self.put_cell(Cell::new_char(cell.face, c)))` -/
def putFallback (w : Writer) (face : Face) : List Nat → Option (Writer × Bool)
  | [] => some (w, true)
  | c :: cs =>
    match putPlain w ⟨face, .chr c⟩ with
    | none => none
    | some (w', true) => putFallback w' face cs
    | some (w', false) => some (w', false)

/-- `CellWrite::put_cell` of `TerminalWriter` -/
def putCell (w : Writer) (cell : Cell) : Option (Writer × Bool) :=
  match cell.kind with
  | .glyph _ _ fb => if w.ctx.hasGlyphs then putPlain w cell else putFallback w cell.face fb
  | _ => putPlain w cell

/-- `CellWrite::put_char` -/
def putChar (w : Writer) (c : Nat) : Option (Writer × Bool) := putCell w ⟨w.face, .chr c⟩

/-- a sequence of `put_cell` calls whose results are ignored (`put_text`, `Text::render`, `str::render`) -/
def putCells (w : Writer) : List Cell → Option Writer
  | [] => some w
  | c :: cs =>
    match putCell w c with
    | none => none
    | some (w', _) => putCells w' cs

/-! ## `impl io::Write for TerminalWriter`, `Utf8CellWriter` — generic in the sink -/

/-- `utf8_decode` (first byte masked by the length, six bits per continuation byte) -/
def utf8Decode (bs : List UInt8) : Option Nat :=
  match bs with
  | [] => none
  | first :: rest =>
    let mask : Option Nat := match bs.length with
      | 1 => some 128 | 2 => some 32 | 3 => some 16 | 4 => some 8 | _ => none
    mask.map fun m => rest.foldl (fun code b => code * 64 + b.toNat % 64) (first.toNat % m)

/-- the loop of `write`: `while let Some(ch) = self.decoder.decode(&mut cur)? { if !put_char(ch) { return Ok(buf.len()) } }`.
`put` is the sink's `put_char` (`none` = panic). Result flag: `true` = `Ok(_)`, `false` = `Err(InvalidInput)`. -/
def writeGo {σ π : Type} (A : Auto σ) (put : π → Nat → Option (π × Bool)) :
    Nat → π → USt σ → List UInt8 → Except Fault (π × USt σ × Bool)
  | 0, _, _, _ => .error .outOfFuel
  | fuel + 1, p, d, buf =>
    match udecode A d buf with
    | .error e => .error e
    | .ok (none, d', _) => .ok (p, d', true)
    | .ok (some (.err _), d', _) => .ok (p, d', false)
    | .ok (some (.chr bs), d', rest) =>
      match utf8Decode bs with
      | none => .error .panic
      | some ch =>
        match put p ch with
        | none => .error .panic
        | some (p', false) => .ok (p', d', true)
        | some (p', true) => writeGo A put fuel p' d' rest

/-- one `write(buf)` call -/
def write {σ π : Type} (A : Auto σ) (put : π → Nat → Option (π × Bool)) (p : π) (d : USt σ) (buf : List UInt8) :
    Except Fault (π × USt σ × Bool) :=
  writeGo A put (buf.length + 1) p d buf

/-- a caller handing the pieces of a byte stream to `write` one after the other and giving up at the
first error (`write_all`, `write!`): the sink at the end and the results of the calls made -/
def session {σ π : Type} (A : Auto σ) (put : π → Nat → Option (π × Bool)) :
    π → USt σ → List (List UInt8) → Except Fault (π × List Bool)
  | p, _, [] => .ok (p, [])
  | p, d, chunk :: chunks =>
    match write A put p d chunk with
    | .error e => .error e
    | .ok (p', _, false) => .ok (p', [false])
    | .ok (p', d', true) =>
      match session A put p' d' chunks with
      | .error e => .error e
      | .ok (p'', rs) => .ok (p'', true :: rs)

/-! ## `TTYCellWriter` -/

/-- what `TTYCellWriter::write` distinguishes in a decoded `TerminalCommand` -/
inductive Cmd where
  /-- `Char(c)` -/
  | char (c : Nat)
  /-- `FaceModify(m)`: `face ↦ m.apply(face)` -/
  | face (f : Face → Face)
  /-- `Image(img, _)` -/
  | image (ph pw : Nat)
  /-- everything else is skipped -/
  | other

/-- body of the loop of `TTYCellWriter::write` (the result of `put_char` / `put_image` is ignored) -/
def applyCmd (w : Writer) : Cmd → Option Writer
  | .char c => (putChar w c).map (·.1)
  | .face f => some { w with face := f w.face }
  | .image ph pw => (putCell w ⟨Face.dflt, .image ph pw⟩).map (·.1)
  | .other => some w

def applyCmds (w : Writer) : List Cmd → Option Writer
  | [] => some w
  | c :: cs =>
    match applyCmd w c with
    | none => none
    | some w' => applyCmds w' cs

/-- `TTYCellWriter::write`: `while let Some(cmd) = self.decoder.decode(&mut cur)? { … }` is the loop of
`Decoder::decode_into` (`decodeInto`) with the body applied to every item in order; `interp` is the
payload decoder of `TTYCommandDecoder` (C02/C04/C06). -/
def ttyWrite {σ : Type} (A : Auto σ) (interp : Item σ → Cmd) (w : Writer) (d : DSt σ) (buf : List UInt8) :
    Except Fault (Writer × DSt σ) :=
  match decodeInto A d buf with
  | .error e => .error e
  | .ok (items, d') =>
    match applyCmds w (items.map interp) with
    | none => .error .panic
    | some w' => .ok (w', d')

def ttySession {σ : Type} (A : Auto σ) (interp : Item σ → Cmd) :
    Writer → DSt σ → List (List UInt8) → Except Fault (Writer × DSt σ)
  | w, d, [] => .ok (w, d)
  | w, d, chunk :: chunks =>
    match ttyWrite A interp w d chunk with
    | .error e => .error e
    | .ok (w', d') => ttySession A interp w' d' chunks

/-! ## `Text`, `str` -/

/-- `Text` -/
structure Text where
  cells : List Cell
  wraps : Bool
  face : Face

/-- `Text::new` -/
def Text.new : Text := { cells := [], wraps := true, face := Face.dflt }

/-- `CellWrite::put_cell` of `Text` -/
def Text.putCell (t : Text) (cell : Cell) : Option (Text × Bool) :=
  some ({ t with cells := t.cells ++ [{ cell with face := t.face.overlay cell.face }] }, true)

/-- `CellWrite::put_char` of `Text` -/
def Text.putChar (t : Text) (c : Nat) : Option (Text × Bool) := t.putCell ⟨t.face, .chr c⟩

/-- what `Text::layout` and `put_cell` make of one cell: without glyph support the fallback characters of
a glyph, one by one, in the glyph cell's face -/
def expandCell (ctx : Ctx) (cell : Cell) : List Cell :=
  match cell.kind with
  | .glyph _ _ fb => if ctx.hasGlyphs then [cell] else fb.map fun c => ⟨cell.face, .chr c⟩
  | _ => [cell]

/-- `Text::layout` before the clamp: final cursor / tracked size and the positions assigned (ghost) -/
def Text.layoutRun (ctx : Ctx) (maxW : Nat) (t : Text) : LSt × List (Option (Nat × Nat)) :=
  TextLayout.layoutRun ctx maxW t.wraps ((t.cells.flatMap (expandCell ctx)).map (·.kind)) LSt.init

/-- `BoxConstraint { min, max }` -/
structure Ct where
  minH : Nat
  minW : Nat
  maxH : Nat
  maxW : Nat
  deriving Repr, DecidableEq

/-- `BoxConstraint::loose(Size::new(maxH, maxW))` -/
def Ct.loose (maxH maxW : Nat) : Ct := ⟨0, 0, maxH, maxW⟩

/-- `Ord::clamp(v, lo, hi)`: `assert!(min <= max)` panics (`none`) -/
def clampU (v lo hi : Nat) : Option Nat :=
  if lo > hi then none else some (if v < lo then lo else if v > hi then hi else v)

/-- `ct.clamp(size)` = `Size::clamp`: the height first, then the width -/
def Ct.clamp (ct : Ct) (h w : Nat) : Option (Nat × Nat) :=
  match clampU h ct.minH ct.maxH with
  | none => none
  | some h' =>
    match clampU w ct.minW ct.maxW with
    | none => none
    | some w' => some (h', w')

/-- `Text::layout(ctx, ct, layout)`: the cells are laid out under `ct.max.width`, the size reported is
`ct.clamp(size)` (`none` = the clamp panicked) -/
def Text.layout (ctx : Ctx) (ct : Ct) (t : Text) : Option (Nat × Nat) :=
  let s := (t.layoutRun ctx ct.maxW).1
  ct.clamp s.sh s.sw

/-- `Layout::apply_to`: `shape.view(pos.row..pos.row.saturating_add(size.height), pos.col..pos.col.saturating_add(size.width))` -/
def applyTo (sh : Shape) (row col h w : Nat) : Shape :=
  sh.view (.range row (satAdd row h)) (.range col (satAdd col w))

/-- the loop of `Text::render` on the surface `layout.apply_to(surf)` -/
def Text.renderOn (ctx : Ctx) (t : Text) (sh : Shape) (data : List Cell) : Option Writer :=
  putCells { Writer.new ctx sh data with wraps := t.wraps } t.cells

/-- `Text::render(ctx, surf, layout)` with `layout = (pos, size)` -/
def Text.render (ctx : Ctx) (t : Text) (sh : Shape) (data : List Cell) (row col h w : Nat) : Option Writer :=
  t.renderOn ctx (applyTo sh row col h w) data

/-- `<str as View>::layout` -/
def strLayout (ctx : Ctx) (ct : Ct) (s : List Nat) : Option (Nat × Nat) :=
  let r := (layoutRun ctx ct.maxW true (s.map Kind.chr) LSt.init).1
  ct.clamp r.sh r.sw

/-- `<str as View>::render` -/
def strRender (ctx : Ctx) (s : List Nat) (sh : Shape) (data : List Cell) (row col h w : Nat) : Option Writer :=
  let wr := Writer.new ctx (applyTo sh row col h w) data
  putCells wr (s.map fun c => ⟨wr.face, .chr c⟩)

/-! ## the UTF-8 automaton used by the driver (Unicode Table 3-7; the theorems hold for every automaton)

states: 0 start, 1/2/3 = that many continuation bytes to go, 4 after `E0`, 5 after `ED`, 6 after `F0`,
7 after `F4`, 8 accepted -/
def utf8Step (s : Nat) (b : UInt8) : Option Nat :=
  let b := b.toNat
  let tail := 0x80 ≤ b ∧ b ≤ 0xBF
  match s with
  | 0 =>
    if b < 0x80 then some 8
    else if 0xC2 ≤ b ∧ b ≤ 0xDF then some 1
    else if b = 0xE0 then some 4
    else if (0xE1 ≤ b ∧ b ≤ 0xEC) ∨ b = 0xEE ∨ b = 0xEF then some 2
    else if b = 0xED then some 5
    else if b = 0xF0 then some 6
    else if 0xF1 ≤ b ∧ b ≤ 0xF3 then some 3
    else if b = 0xF4 then some 7
    else none
  | 1 => if tail then some 8 else none
  | 2 => if tail then some 1 else none
  | 3 => if tail then some 2 else none
  | 4 => if 0xA0 ≤ b ∧ b ≤ 0xBF then some 1 else none
  | 5 => if 0x80 ≤ b ∧ b ≤ 0x9F then some 1 else none
  | 6 => if 0x90 ≤ b ∧ b ≤ 0xBF then some 2 else none
  | 7 => if 0x80 ≤ b ∧ b ≤ 0x8F then some 2 else none
  | _ => none

def utf8Auto : Auto Nat :=
  { start := 0, step := utf8Step, accepting := fun s => s == 8, terminal := fun s => s == 8 }

/-! ## line protocol

tokens: face `fg.bg.attrs` (`-` = none); cell `<kind>@<face>` with kind `c<code>`, `i<ph>x<pw>`,
`g<h>x<w>` followed by `:<code>` per fallback character; lists are comma separated, `-` = empty;
ctx `<glyphs>;<ppcH>x<ppcW>`; widths `code:width,…`. The canvas holds the sentinel everywhere at the
start; it is printed as `#`. -/

open SurfModel.Proto

def optNat? (s : String) : Option (Option Nat) :=
  if s == "-" then some none else s.toNat?.map some

def parseFace (s : String) : Option Face :=
  match s.splitOn "." with
  | [fg, bg, at_] => do pure ⟨← optNat? fg, ← optNat? bg, ← at_.toNat?⟩
  | _ => none

def parseDims (s : String) : Option (Nat × Nat) :=
  match s.splitOn "x" with
  | [a, b] => do pure (← a.toNat?, ← b.toNat?)
  | _ => none

def parseKind (s : String) : Option Kind :=
  match s.toList with
  | 'c' :: r => (String.ofList r).toNat?.map Kind.chr
  | 'i' :: r => (parseDims (String.ofList r)).map fun d => Kind.image d.1 d.2
  | 'g' :: r =>
    match (String.ofList r).splitOn ":" with
    | d :: fb => do
      let d ← parseDims d
      let fb ← fb.mapM (·.toNat?)
      pure (Kind.glyph d.1 d.2 fb)
    | [] => none
  | _ => none

def parseCell (s : String) : Option Cell :=
  match s.splitOn "@" with
  | [k, f] => do pure ⟨← parseFace f, ← parseKind k⟩
  | _ => none

def parseList {α} (f : String → Option α) (s : String) : Option (List α) :=
  if s == "-" then some [] else (s.splitOn ",").mapM f

def parseWidths (s : String) : Option (List (Nat × Nat)) :=
  parseList (fun t => match t.splitOn ":" with
    | [a, b] => do pure (← a.toNat?, ← b.toNat?)
    | _ => none) s

def parseCtx (s widths : String) : Option Ctx :=
  match s.splitOn ";" with
  | [g, ppc] => do
    let ppc ← parseDims ppc
    let ws ← parseWidths widths
    pure { hasGlyphs := g == "1", ppcH := ppc.1, ppcW := ppc.2,
           width := fun c => ((ws.find? (·.1 == c)).map (·.2)).getD 0 }
  | _ => none

def parseCt (s : String) : Option Ct :=
  match s.splitOn "," with
  | [a, b, c, d] => do pure ⟨← a.toNat?, ← b.toNat?, ← c.toNat?, ← d.toNat?⟩
  | _ => none

def parsePos (s : String) : Option (Nat × Nat) :=
  match s.splitOn "," with
  | [a, b] => do pure (← a.toNat?, ← b.toNat?)
  | _ => none

def showOpt : Option Nat → String
  | none => "-"
  | some n => toString n

def showFace (f : Face) : String := s!"{showOpt f.fg}.{showOpt f.bg}.{f.attrs}"

def showKind : Kind → String
  | .chr c => s!"c{c}"
  | .image ph pw => s!"i{ph}x{pw}"
  | .glyph h w fb => s!"g{h}x{w}" ++ String.join (fb.map fun c => s!":{c}")

/-- the cell every canvas is filled with: `#` in a face no stream uses -/
def sentinel : Cell := ⟨⟨some 151587327, some 168430335, 0⟩, .chr 35⟩

def showCell (c : Cell) : String :=
  if c = sentinel then "#" else s!"{showKind c.kind}@{showFace c.face}"

def showCanvas (d : List Cell) : String := ",".intercalate (d.map showCell)

def showPosOpt : Option (Nat × Nat) → String
  | none => "x"
  | some (r, c) => s!"{r}.{c}"

/-- offsets at which two canvases differ -/
def changed (a b : List Cell) : List Nat :=
  ((List.range a.length).zip (a.zip b)).filterMap fun (i, x, y) => if x = y then none else some i

def showOffs (l : List Nat) : String := if l.isEmpty then "-" else ".".intercalate (l.map toString)

/-- writer over the view `chain` of an `H × W` canvas full of sentinels -/
def mkWriter (ctx : Ctx) (h w : Nat) (ops : List Op) (wraps : Bool) (face : Face) (cur : Nat × Nat) : Writer :=
  let wr := Writer.new ctx (Shape.chain ops (Shape.from h w)) (List.replicate (h * w) sentinel)
  ({ wr with wraps := wraps, face := face }).setCursor cur.1 cur.2

/-- `put_cell` one by one: result, cursor afterwards, offsets whose content changed -/
def putTrace (w : Writer) : List Cell → List String → Option (Writer × List String)
  | [], acc => some (w, acc.reverse)
  | c :: cs, acc =>
    match putCell w c with
    | none => none
    | some (w', ok) =>
      putTrace w' cs (s!"{if ok then "t" else "f"}{w'.st.row}.{w'.st.col}:{showOffs (changed w.data w'.data)}" :: acc)

def showEnd (w : Writer) : String := s!"cur={w.st.row}.{w.st.col} {showCanvas w.data}"

def parseChunksHex (s : String) : Option (List (List UInt8)) := (s.splitOn "/").mapM unhex

def parseCmd (s : String) : Option Cmd :=
  match s.toList with
  | 'c' :: r => (String.ofList r).toNat?.map Cmd.char
  | 'f' :: r => (parseFace (String.ofList r)).map fun f => Cmd.face fun _ => f
  | 'i' :: r => (parseDims (String.ofList r)).map fun d => Cmd.image d.1 d.2
  | ['o'] => some .other
  | _ => none

def joinS (l : List String) : String := if l.isEmpty then "-" else ";".intercalate l

def handle : List String → String
  | ["layout", ctx, wraps, widths, maxW, cells] =>
    match parseCtx ctx widths, maxW.toNat?, parseList parseKind cells with
    | some ctx, some maxW, some ks =>
      let r := layoutRun ctx maxW (wraps == "1") ks LSt.init
      s!"{r.1.sh}x{r.1.sw} cur={r.1.row}.{r.1.col} {joinS (r.2.map showPosOpt)}"
    | _, _, _ => "bad-op"
  | ["put", h, w, chain, ctx, wraps, wface, widths, cur, cells] =>
    match h.toNat?, w.toNat?, parseChain chain, parseCtx ctx widths, parseFace wface, parsePos cur, parseList parseCell cells with
    | some h, some w, some ops, some ctx, some face, some cur, some cells =>
      match putTrace (mkWriter ctx h w ops (wraps == "1") face cur) cells [] with
      | none => "panic"
      | some (wr, tr) => s!"{joinS tr} {showEnd wr}"
    | _, _, _, _, _, _, _ => "bad-op"
  | ["write", h, w, chain, ctx, wraps, wface, widths, chunks] =>
    match h.toNat?, w.toNat?, parseChain chain, parseCtx ctx widths, parseFace wface, parseChunksHex chunks with
    | some h, some w, some ops, some ctx, some face, some chunks =>
      match session utf8Auto putChar (mkWriter ctx h w ops (wraps == "1") face (0, 0)) (uinit utf8Auto) chunks with
      | .error e => showFault e
      | .ok (wr, rs) => s!"{",".intercalate (rs.map fun r => if r then "ok" else "err")} {showEnd wr}"
    | _, _, _, _, _, _ => "bad-op"
  | ["cmds", h, w, chain, ctx, wraps, wface, widths, cmds] =>
    match h.toNat?, w.toNat?, parseChain chain, parseCtx ctx widths, parseFace wface, parseList parseCmd cmds with
    | some h, some w, some ops, some ctx, some face, some cmds =>
      match applyCmds (mkWriter ctx h w ops (wraps == "1") face (0, 0)) cmds with
      | none => "panic"
      | some wr => showEnd wr
    | _, _, _, _, _, _ => "bad-op"
  | ["text", h, w, chain, ctx, wraps, widths, ct, pos, cells] =>
    match h.toNat?, w.toNat?, parseChain chain, parseCtx ctx widths, parseCt ct, parsePos pos, parseList parseCell cells with
    | some h, some w, some ops, some ctx, some ct, some pos, some cells =>
      -- the text is built through `Text::put_cell`
      let t := cells.foldl (fun (t : Text) c => match t.putCell c with | some (t', _) => t' | none => t)
        { Text.new with wraps := wraps == "1" }
      match t.layout ctx ct with
      | none => "panic"
      | some sz =>
        match t.render ctx (Shape.chain ops (Shape.from h w)) (List.replicate (h * w) sentinel) pos.1 pos.2 sz.1 sz.2 with
        | none => "panic"
        | some wr => s!"{sz.1}x{sz.2} {showCanvas wr.data}"
    | _, _, _, _, _, _, _ => "bad-op"
  | ["tlayout", ctx, wraps, widths, ct, cells] =>
    match parseCtx ctx widths, parseCt ct, parseList parseCell cells with
    | some ctx, some ct, some cells =>
      let t := cells.foldl (fun (t : Text) c => match t.putCell c with | some (t', _) => t' | none => t)
        { Text.new with wraps := wraps == "1" }
      match t.layout ctx ct with
      | none => "panic"
      | some sz => s!"{sz.1}x{sz.2}"
    | _, _, _ => "bad-op"
  | ["str", h, w, chain, ctx, widths, ct, pos, codes] =>
    match h.toNat?, w.toNat?, parseChain chain, parseCtx ctx widths, parseCt ct, parsePos pos, natList? codes with
    | some h, some w, some ops, some ctx, some ct, some pos, some codes =>
      match strLayout ctx ct codes with
      | none => "panic"
      | some sz =>
        match strRender ctx codes (Shape.chain ops (Shape.from h w)) (List.replicate (h * w) sentinel) pos.1 pos.2 sz.1 sz.2 with
        | none => "panic"
        | some wr => s!"{sz.1}x{sz.2} {showCanvas wr.data}"
    | _, _, _, _, _, _, _ => "bad-op"
  | ["tsink", widths, wraps, tface, chunks] =>
    -- a `Text` as the sink of `utf8_writer()`: results of the writes and the cells collected
    match parseCtx "1;1x1" widths, parseFace tface, parseChunksHex chunks with
    | some _, some face, some chunks =>
      match session utf8Auto Text.putChar { Text.new with wraps := wraps == "1", face := face } (uinit utf8Auto) chunks with
      | .error e => showFault e
      | .ok (t, rs) =>
        s!"{",".intercalate (rs.map fun r => if r then "ok" else "err")} {if t.cells.isEmpty then "-" else showCanvas t.cells}"
    | _, _, _ => "bad-op"
  | _ => "bad-op"

end SurfModel.TextLayout
