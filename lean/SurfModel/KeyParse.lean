import SurfModel.Proto
/-!
# Model of `Key` / `KeyName` / `KeyMod` / `KeyChord` parsing and printing (`src/keys.rs`)

Strings are `List Char`.  Rust's `str::to_lowercase` is std code that is *modelled, not verified*: it
enters as the parameter `low : Char → List Char` (per-character lower-case expansion); the theorems
state what they need of it as hypotheses (`SurfProofs/Lemmas/KeyParse.lean: LowOK`), the driver receives
the expansion of every non-ASCII character of a request from the harness (computed by the real
`char::to_lowercase`), and the harness checks the hypotheses against all of Unicode on every run.

Panics are explicit: `PErr.panic`.  The only panic sites of the repaired code are the byte slice
`string[1..]` (char-boundary check) — and, before the repair, `.expect("coding error")` on `usize` overflow,
which the repaired code (and this model) turns into a `ParseError`.
-/
namespace SurfModel.KeyParse

/-- `enum KeyName`, constructors in declaration order (the derived `Ord` compares this order first) -/
inductive KeyName where
  | backspace | char (c : Char) | delete | insert | down | end_ | enter | esc | f (n : Nat) | home | left
  | mouseLeft | mouseMiddle | mouseMove | mouseRight | mouseWheelDown | mouseWheelUp
  | pageDown | pageUp | right | tab | up
  deriving DecidableEq, Repr

/-- `struct Key { name, mode }`; `mode` = the `u32` bit set of `KeyMod` -/
structure Key where
  name : KeyName
  mode : Nat
  deriving DecidableEq, Repr

inductive PErr where
  | parseError
  | panic
  deriving DecidableEq, Repr

/-! ## `KeyMod` -/
def SHIFT : Nat := 1
def ALT : Nat := 2
def CTRL : Nat := 4
def SUPER : Nat := 8
def HYPER : Nat := 16
def META : Nat := 32
def CAPSLOCK : Nat := 64
def NUMLOCK : Nat := 128
def PRESS : Nat := 256

/-- `KeyMod::contains` -/
def contains (bits flag : Nat) : Bool := bits &&& flag == flag

/-! ## string constants -/
def sShift : List Char := ['s','h','i','f','t']
def sAlt : List Char := ['a','l','t']
def sCtrl : List Char := ['c','t','r','l']
def sSuper : List Char := ['s','u','p','e','r']
def sHyper : List Char := ['h','y','p','e','r']
def sMeta : List Char := ['m','e','t','a']
def sPress : List Char := ['p','r','e','s','s']
def sCapslock : List Char := ['c','a','p','s','l','o','c','k']

def sLeft : List Char := ['l','e','f','t']
def sUp : List Char := ['u','p']
def sRight : List Char := ['r','i','g','h','t']
def sDown : List Char := ['d','o','w','n']
def sPageUp : List Char := ['p','a','g','e','u','p']
def sPageDown : List Char := ['p','a','g','e','d','o','w','n']
def sEnd : List Char := ['e','n','d']
def sHome : List Char := ['h','o','m','e']
def sTab : List Char := ['t','a','b']
def sEnter : List Char := ['e','n','t','e','r']
def sEscape : List Char := ['e','s','c','a','p','e']
def sEsc : List Char := ['e','s','c']
def sSpace : List Char := ['s','p','a','c','e']
def sBackspace : List Char := ['b','a','c','k','s','p','a','c','e']
def sDelete : List Char := ['d','e','l','e','t','e']
def sInsert : List Char := ['i','n','s','e','r','t']
def sMouseLeft : List Char := ['m','o','u','s','e','l','e','f','t']
def sMouseMiddle : List Char := ['m','o','u','s','e','m','i','d','d','l','e']
def sMouseMove : List Char := ['m','o','u','s','e','m','o','v','e']
def sMouseRight : List Char := ['m','o','u','s','e','r','i','g','h','t']
def sMouseWheelDown : List Char := ['m','o','u','s','e','w','h','e','e','l','d','o','w','n']
def sMouseWheelUp : List Char := ['m','o','u','s','e','w','h','e','e','l','u','p']
def sNone : List Char := ['N','o','n','e']

/-! ## printing (`Debug`, which `Display` forwards to) -/

/-- the characters that `KeyName::Char` prints bare and `KeyName::from_str` accepts as one-character names -/
def isPlainChar (c : Char) : Bool :=
  ('a' ≤ c && c ≤ 'z') || ('0' ≤ c && c ≤ '9') ||
  c == '`' || c == '-' || c == '=' || c == '[' || c == ']' || c == '\\' || c == ';' || c == ',' || c == '.' || c == '/'

/-- decimal digits of `n`, least significant first; `fuel > n` suffices -/
def digitsRev : Nat → Nat → List Char
  | 0, _ => []
  | fuel + 1, n => Char.ofNat (48 + n % 10) :: (if n < 10 then [] else digitsRev fuel (n / 10))

/-- `{}` of a `usize` -/
def showNat (n : Nat) : List Char := (digitsRev (n + 1) n).reverse

/-- `impl Debug for KeyName` -/
def printKeyName : KeyName → List Char
  | .backspace => sBackspace
  | .char c =>
    if c = ' ' then sSpace
    else if c = '\t' then sTab
    else if c = '\n' then sEnter
    else if isPlainChar c then [c]
    else ['"', c, '"']
  | .delete => sDelete
  | .insert => sInsert
  | .down => sDown
  | .end_ => sEnd
  | .enter => sEnter
  | .esc => sEsc
  | .f n => 'f' :: showNat n
  | .home => sHome
  | .left => sLeft
  | .mouseLeft => sMouseLeft
  | .mouseMiddle => sMouseMiddle
  | .mouseMove => sMouseMove
  | .mouseRight => sMouseRight
  | .mouseWheelDown => sMouseWheelDown
  | .mouseWheelUp => sMouseWheelUp
  | .pageDown => sPageDown
  | .pageUp => sPageUp
  | .right => sRight
  | .tab => sTab
  | .up => sUp

/-- the flag table of `impl Debug for KeyMod`, in the order it is printed -/
def modTable : List (Nat × List Char) :=
  [(SHIFT, sShift), (ALT, sAlt), (CTRL, sCtrl), (SUPER, sSuper), (HYPER, sHyper), (META, sMeta),
   (PRESS, sPress), (CAPSLOCK, sCapslock)]

/-- the loop of `impl Debug for KeyMod`: names of the contained flags, `+` before all but the first -/
def printModLoop (bits : Nat) : List (Nat × List Char) → Bool → List Char
  | [], _ => []
  | (flag, name) :: rest, first =>
    if contains bits flag then
      (if first then name else '+' :: name) ++ printModLoop bits rest false
    else printModLoop bits rest first

/-- `impl Debug for KeyMod` -/
def printKeyMod (bits : Nat) : List Char :=
  if bits = 0 then sNone else printModLoop bits modTable true

/-- `impl Debug for Key` -/
def printKey (k : Key) : List Char :=
  if k.mode = 0 then printKeyName k.name
  else printKeyMod k.mode ++ '+' :: printKeyName k.name

/-- `impl Display for KeyChord`: keys separated by one space -/
def printChord : List Key → List Char
  | [] => []
  | [k] => printKey k
  | k :: k2 :: ks => printKey k ++ ' ' :: printChord (k2 :: ks)

/-! ## parsing -/

/-- `str::to_lowercase`, character by character through the parameter `low` -/
def strLower (low : Char → List Char) (s : List Char) : List Char := s.flatMap low

/-- `str::len` (bytes) -/
def utf8Len (s : List Char) : Nat := (s.map Char.utf8Size).sum

/-- `str::split(sep)`: always at least one piece -/
def splitOn (sep : Char) : List Char → List (List Char)
  | [] => [[]]
  | c :: r =>
    if c = sep then [] :: splitOn sep r
    else match splitOn sep r with
      | [] => [[c]]
      | p :: ps => (c :: p) :: ps

/-- `string[1..]`: panics unless byte offset 1 is a character boundary -/
def byteTail1 : List Char → Except PErr (List Char)
  | [] => .error .panic
  | c :: r => if c.utf8Size = 1 then .ok r else .error .panic

def isAsciiDigit (c : Char) : Bool := '0' ≤ c && c ≤ '9'

def USIZE_MAX : Nat := 2 ^ 64 - 1

/-- `usize::from_str` on a string of ASCII digits (checked multiply-and-add, left to right);
    the empty string is an error -/
def parseUsizeLoop : List Char → Nat → Option Nat
  | [], acc => some acc
  | c :: r, acc =>
    let m := acc * 10
    if m > USIZE_MAX then none
    else
      let a := m + (c.toNat - 48)
      if a > USIZE_MAX then none else parseUsizeLoop r a

def parseUsize (s : List Char) : Option Nat :=
  if s.isEmpty then none else parseUsizeLoop s 0

/-- the last two arms of the `match` in `KeyName::from_str` -/
def parseSingle (f : List Char) : Except PErr KeyName :=
  match f with
  | [c] => if isPlainChar c then .ok (.char c) else .error .parseError
  | _ => .error .parseError

/-- the literal arms of the `match` in `KeyName::from_str`, in source order -/
def namedTable : List (List Char × KeyName) :=
  [(sLeft, .left), (sUp, .up), (sRight, .right), (sDown, .down), (sPageUp, .pageUp), (sPageDown, .pageDown),
   (sEnd, .end_), (sHome, .home), (sTab, .tab), (sEnter, .enter), (sEscape, .esc), (sEsc, .esc),
   (sSpace, .char ' '), (sBackspace, .backspace), (sDelete, .delete), (sInsert, .insert)]

/-- `impl FromStr for KeyName` (repaired: an index that does not fit `usize` is a `ParseError`).
    Arms in source order: the literals; `f` followed by digits (guard: lower-cased string starts with `f`, is
    longer than one byte, and the *original* string from byte 1 on is all ASCII digits); one plain character. -/
def parseKeyName (low : Char → List Char) (string : List Char) : Except PErr KeyName :=
  let f := strLower low string
  match namedTable.lookup f with
  | some n => .ok n
  | none =>
    if f.head? = some 'f' ∧ utf8Len f > 1 then
      match byteTail1 string with
      | .error e => .error e
      | .ok tail =>
        if tail.all isAsciiDigit then
          match parseUsize tail with
          | some n => .ok (.f n)
          | none => .error .parseError
        else parseSingle f
    else parseSingle f

/-- the modifier arms of the `match` in `Key::from_str`, in source order -/
def modParseTable : List (List Char × Nat) :=
  [(sAlt, ALT), (sCtrl, CTRL), (sShift, SHIFT), (sPress, PRESS), (sSuper, SUPER), (sHyper, HYPER), (sMeta, META),
   (sCapslock, CAPSLOCK)]

/-- the `for attr in string.split('+')` loop of `Key::from_str`; result = `(key_name, key_mod)` at loop exit -/
def keyLoop (low : Char → List Char) : List (List Char) → Option KeyName → Nat → Except PErr (Option KeyName × Nat)
  | [], kn, km => .ok (kn, km)
  | attr :: rest, kn, km =>
    let a := strLower low attr
    match modParseTable.lookup a with
    | some flag => keyLoop low rest kn (km ||| flag)
    | none =>
      match parseKeyName low a with
      | .ok name =>
        (match kn with
         | some _ => .ok (none, km)          -- second name: `key_name.take(); break`
         | none => keyLoop low rest (some name) km)
      | .error .panic => .error .panic
      | .error .parseError => .ok (kn, km)   -- `_ => break`

/-- `impl FromStr for Key` -/
def parseKey (low : Char → List Char) (string : List Char) : Except PErr Key :=
  match keyLoop low (splitOn '+' string) none 0 with
  | .error e => .error e
  | .ok (some name, km) => .ok ⟨name, km⟩
  | .ok (none, _) => .error .parseError

/-- `.map(Key::from_str).collect::<Result<Vec<Key>, Error>>()`: stops at the first error -/
def parseKeys (low : Char → List Char) : List (List Char) → Except PErr (List Key)
  | [] => .ok []
  | p :: ps =>
    match parseKey low p with
    | .error e => .error e
    | .ok k =>
      match parseKeys low ps with
      | .error e => .error e
      | .ok ks => .ok (k :: ks)

/-- `impl FromStr for KeyChord` -/
def parseChord (low : Char → List Char) (s : List Char) : Except PErr (List Key) :=
  match parseKeys low ((splitOn ' ' s).filter (fun p => !p.isEmpty)) with
  | .error e => .error e
  | .ok [] => .error .parseError
  | .ok ks => .ok ks

/-! ## derived order of `Key` (what `BTreeMap<Key, _>` iterates by) -/

/-- position of the variant in `enum KeyName` -/
def KeyName.rank : KeyName → Nat
  | .backspace => 0 | .char _ => 1 | .delete => 2 | .insert => 3 | .down => 4 | .end_ => 5 | .enter => 6
  | .esc => 7 | .f _ => 8 | .home => 9 | .left => 10 | .mouseLeft => 11 | .mouseMiddle => 12
  | .mouseMove => 13 | .mouseRight => 14 | .mouseWheelDown => 15 | .mouseWheelUp => 16 | .pageDown => 17
  | .pageUp => 18 | .right => 19 | .tab => 20 | .up => 21

/-- payload of the variant (`char` as scalar value, `usize` index), 0 for unit variants -/
def KeyName.payload : KeyName → Nat
  | .char c => c.toNat
  | .f n => n
  | _ => 0

/-- order-preserving, injective code of a key (payload `< 2^64`, mode `< 2^32`): `#[derive(Ord)]` on
    `Key { name, mode }` is the lexicographic order on (variant, payload, mode bits) -/
def Key.code (k : Key) : Nat := (k.name.rank * 2 ^ 64 + k.name.payload) * 2 ^ 32 + k.mode

/-! ## line protocol

strings travel as comma-separated code points (`-` = empty); the lower-case table for the non-ASCII characters
of a request as `cp>cp.cp.cp` items separated by commas (`-` = none);
keys as `Variant:payload:bits`. -/

def asciiLower (c : Char) : Char := if 'A' ≤ c ∧ c ≤ 'Z' then Char.ofNat (c.toNat + 32) else c

/-- the concrete lower-casing used by the driver: ASCII built in, everything else from the request's table
    (identity when absent) -/
def lowWith (table : List (Nat × List Nat)) (c : Char) : List Char :=
  if c.toNat < 128 then [asciiLower c]
  else match table.lookup c.toNat with
    | some l => l.map Char.ofNat
    | none => [c]

def parseTable (s : String) : Option (List (Nat × List Nat)) :=
  if s == "-" then some [] else
  (s.splitOn ",").mapM fun item =>
    match item.splitOn ">" with
    | [a, b] => do
      let a ← a.toNat?
      let b ← (b.splitOn ".").mapM (·.toNat?)
      pure (a, b)
    | _ => none

def showName : KeyName → String
  | .backspace => "Backspace" | .char _ => "Char" | .delete => "Delete" | .insert => "Insert" | .down => "Down"
  | .end_ => "End" | .enter => "Enter" | .esc => "Esc" | .f _ => "F" | .home => "Home" | .left => "Left"
  | .mouseLeft => "MouseLeft" | .mouseMiddle => "MouseMiddle" | .mouseMove => "MouseMove"
  | .mouseRight => "MouseRight" | .mouseWheelDown => "MouseWheelDown" | .mouseWheelUp => "MouseWheelUp"
  | .pageDown => "PageDown" | .pageUp => "PageUp" | .right => "Right" | .tab => "Tab" | .up => "Up"

def readName (s : String) (p : Nat) : Option KeyName :=
  match s with
  | "Backspace" => some .backspace | "Char" => some (.char (Char.ofNat p)) | "Delete" => some .delete
  | "Insert" => some .insert | "Down" => some .down | "End" => some .end_ | "Enter" => some .enter
  | "Esc" => some .esc | "F" => some (.f p) | "Home" => some .home | "Left" => some .left
  | "MouseLeft" => some .mouseLeft | "MouseMiddle" => some .mouseMiddle | "MouseMove" => some .mouseMove
  | "MouseRight" => some .mouseRight | "MouseWheelDown" => some .mouseWheelDown
  | "MouseWheelUp" => some .mouseWheelUp | "PageDown" => some .pageDown | "PageUp" => some .pageUp
  | "Right" => some .right | "Tab" => some .tab | "Up" => some .up
  | _ => none

def showKeyName (n : KeyName) : String := s!"{showName n}:{n.payload}"
def showKey (k : Key) : String := s!"{showName k.name}:{k.name.payload}:{k.mode}"

def readKey (s : String) : Option Key :=
  match s.splitOn ":" with
  | [n, p, b] => do
    let p ← p.toNat?
    let b ← b.toNat?
    let n ← readName n p
    pure ⟨n, b⟩
  | _ => none

def showChars (l : List Char) : String := SurfModel.Proto.showNatList (l.map Char.toNat)

def showErr : PErr → String
  | .parseError => "err"
  | .panic => "panic"

/-- `pn`/`pk`/`pc <code points> <table>`: parse a key name / key / chord; answer = wire form of the value,
    `|`, the code points of its printed form — or `err` / `panic`.
    `sk <key>` / `sc <key,key,…>`: print a key / chord given in wire form (any value, parseable or not). -/
def handle : List String → String
  | [op, cps, tbl] =>
    match SurfModel.Proto.natList? cps, parseTable tbl with
    | some cps, some tbl =>
      let s := cps.map Char.ofNat
      let low := lowWith tbl
      if op == "pn" then
        match parseKeyName low s with
        | .ok n => s!"{showKeyName n}|{showChars (printKeyName n)}"
        | .error e => showErr e
      else if op == "pk" then
        match parseKey low s with
        | .ok k => s!"{showKey k}|{showChars (printKey k)}"
        | .error e => showErr e
      else if op == "pc" then
        match parseChord low s with
        | .ok ks => s!"{",".intercalate (ks.map showKey)}|{showChars (printChord ks)}"
        | .error e => showErr e
      else "bad-op"
    | _, _ => "bad-op"
  | ["sk", key] =>
    match readKey key with
    | some k => showChars (printKey k)
    | none => "bad-op"
  | ["sc", keys] =>
    match (keys.splitOn ",").mapM readKey with
    | some ks => showChars (printChord ks)
    | none => "bad-op"
  | _ => "bad-op"

end SurfModel.KeyParse
