import SurfModel.Proto
/-!
Model of `common::IOQueue` (src/common.rs): a `VecDeque<Vec<u8>>` of chunks, a read offset into the front
chunk and a cached byte count.  Every public method is mirrored branch by branch.  Places where the Rust code
can panic (`&chunk[offset..]`, the three `length -= …`, `chunk.len() - offset` — debug profile: overflow checks)
are explicit `none` outcomes; `SurfProofs.C16` proves that no sequence of public calls reaches them.
-/
namespace SurfModel.IOQueue
open SurfModel.Proto

structure Q where
  chunks : List (List UInt8)
  offset : Nat
  length : Nat
deriving Repr, DecidableEq

/-- `IOQueue::new` -/
def Q.new : Q := ⟨[], 0, 0⟩

/-- `is_empty`: no chunk at all (a queue holding only empty chunks is *not* empty) -/
def Q.isEmpty (q : Q) : Bool := q.chunks.isEmpty

/-- `len` -/
def Q.len (q : Q) : Nat := q.length

/-- `chunks_count` -/
def Q.chunksCount (q : Q) : Nat := q.chunks.length

/-- `usize::MAX` (64-bit target) -/
def usizeMax : Nat := 18446744073709551615

/-- checked `a - b` on `usize` -/
def sub? (a b : Nat) : Option Nat := if b ≤ a then some (a - b) else none

/-- checked `a + b` on `usize` (`+`, `+=` in a debug build) -/
def add? (a b : Nat) : Option Nat := if a + b ≤ usizeMax then some (a + b) else none

/-- `a.saturating_add(b)` on `usize` -/
def satAdd (a b : Nat) : Nat := min (a + b) usizeMax

/-- `as_slice`: `&chunk[self.offset..]` of the front chunk (panics when `offset > len`), `&[]` without chunks -/
def Q.asSlice? (q : Q) : Option (List UInt8) :=
  match q.chunks with
  | [] => some []
  | c :: _ => if q.offset ≤ c.length then some (c.drop q.offset) else none

/-- `consume(amt)`:
```
if front.map(len).unwrap_or(0) > self.offset.saturating_add(amt) { self.offset += amt; self.length -= amt; }
else { if let Some(chunk) = pop_front() { self.length -= chunk.len() - self.offset } self.offset = 0; }
``` -/
def Q.consume? (q : Q) (amt : Nat) : Option Q :=
  match q.chunks with
  | [] => some { q with offset := 0 }
  | c :: cs =>
    if c.length > satAdd q.offset amt then
      match add? q.offset amt, sub? q.length amt with
      | some o, some l => some { q with offset := o, length := l }
      | _, _ => none
    else
      match sub? c.length q.offset with
      | none => none
      | some d =>
        match sub? q.length d with
        | none => none
        | some l => some { chunks := cs, offset := 0, length := l }

/-- extend the back chunk, creating it when there is none (`Write::write`) -/
def appendLast : List (List UInt8) → List UInt8 → List (List UInt8)
  | [], b => [b]
  | [c], b => [c ++ b]
  | c :: d :: cs, b => c :: appendLast (d :: cs) b

/-- `Write::write` (always accepts the whole buffer); `self.length += buf.len()` is a checked addition -/
def Q.write? (q : Q) (b : List UInt8) : Option Q :=
  match add? q.length b.length with
  | some l => some { q with chunks := appendLast q.chunks b, length := l }
  | none => none

/-- `Write::flush`: start a new chunk unless the front slice is empty -/
def Q.flush? (q : Q) : Option Q :=
  match q.asSlice? with
  | none => none
  | some s => if s.isEmpty then some q else some { q with chunks := q.chunks ++ [[]] }

/-- `Read::read` into a buffer of `n` bytes: at most the rest of the front chunk -/
def Q.read? (q : Q) (n : Nat) : Option (List UInt8 × Q) :=
  match q.asSlice? with
  | none => none
  | some s =>
    let size := min n s.length
    match q.consume? size with
    | none => none
    | some q' => some (s.take size, q')

/-- `consume_with(consumer)`; `ans = some k`: the consumer returned `Ok(k)`, `none`: it returned `Err` -/
def Q.consumeWith? (q : Q) (ans : Option Nat) : Option Q :=
  match q.asSlice? with
  | none => none
  | some _ =>
    match ans with
    | none => some q
    | some k => q.consume? k

/-- `clear_but_last`: keep the front chunk only, give back the byte count of the rest -/
def Q.clearButLast? (q : Q) : Option Q :=
  match q.chunks with
  | c :: d :: ds =>
    match sub? q.length (((d :: ds).map List.length).sum) with
    | some l => some { q with chunks := [c], length := l }
    | none => none
  | _ => some q

/-! ## operation sequences -/

inductive Op where
  | write (b : List UInt8)
  | flush
  | read (n : Nat)
  | consume (n : Nat)
  /-- `consume_with` whose consumer answers `Ok(k)` -/
  | consumeWith (k : Nat)
  /-- `consume_with` whose consumer answers `Err` -/
  | consumeWithErr
  | clear
deriving Repr, DecidableEq

/-- what an operation does to the byte stream, as seen from outside:
`take out`: the bytes `out` left the queue at the front (returned by `read`, acknowledged by the consumer,
skipped by `consume`); `drop kept`: pending chunks were discarded and `kept` bytes are still queued -/
inductive Ev where
  | write (b : List UInt8)
  | flush
  | take (out : List UInt8)
  | drop (kept : Nat)
deriving Repr, DecidableEq

/-- one public call; `none` = panic -/
def Q.step? (q : Q) : Op → Option (Q × Ev)
  | .write b => match q.write? b with
    | some q' => some (q', .write b)
    | none => none
  | .flush => match q.flush? with
    | some q' => some (q', .flush)
    | none => none
  | .read n => match q.read? n with
    | some (out, q') => some (q', .take out)
    | none => none
  | .consume n => match q.consume? n with
    | some q' => some (q', .take ((q.asSlice?.getD []).take n))
    | none => none
  | .consumeWith k => match q.consumeWith? (some k) with
    | some q' => some (q', .take ((q.asSlice?.getD []).take k))
    | none => none
  | .consumeWithErr => match q.consumeWith? none with
    | some q' => some (q', .take [])
    | none => none
  | .clear => match q.clearButLast? with
    | some q' => some (q', .drop q'.length)
    | none => none

def Q.run? (q : Q) : List Op → Option (Q × List Ev)
  | [] => some (q, [])
  | op :: ops =>
    match q.step? op with
    | none => none
    | some (q', ev) =>
      match Q.run? q' ops with
      | none => none
      | some (q'', evs) => some (q'', ev :: evs)

/-! ## line protocol: `qa <op> …` / `qr <op> …` → one observation per op
ops: `w:<hex>` `f` `r:<n>` `c:<n>` `k:<n>` `ke` `d`;
`qa` (behaviour on the byte level): `<bytes returned by read | ->/<len>`;
`qr` (representation: chunking): `<chunks_count>/<E|N>/<as_slice hex>` -/

def parseOp (t : String) : Option Op :=
  match t.splitOn ":" with
  | ["f"] => some .flush
  | ["d"] => some .clear
  | ["ke"] => some .consumeWithErr
  | ["w", h] => (unhex h).map .write
  | ["r", n] => n.toNat?.map .read
  | ["c", n] => n.toNat?.map .consume
  | ["k", n] => n.toNat?.map .consumeWith
  | _ => none

def observe (repr : Bool) (q : Q) (op : Op) (ev : Ev) : String :=
  if repr then
    let sl := match q.asSlice? with
      | some s => hex s
      | none => "panic"
    s!"{q.chunksCount}/{if q.isEmpty then "E" else "N"}/{sl}"
  else
    let out := match op, ev with
      | .read _, .take o => hex o
      | _, _ => "-"
    s!"{out}/{q.len}"

def runObserve (repr : Bool) (q : Q) : List Op → List String → List String
  | [], acc => acc.reverse
  | op :: ops, acc =>
    match q.step? op with
    | none => ("panic" :: acc).reverse
    | some (q', ev) => runObserve repr q' ops (observe repr q' op ev :: acc)

def handle : List String → String
  | kind :: toks =>
    if kind == "qa" || kind == "qr" then
      match toks.mapM parseOp with
      | some ops => " ".intercalate (runObserve (kind == "qr") Q.new ops [])
      | none => "bad-args"
    else "bad-op"
  | _ => "bad-op"

end SurfModel.IOQueue
