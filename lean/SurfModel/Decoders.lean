import SurfModel.Stream
import SurfModel.Utf8
/-!
# C02 — the three public decoders as wholes

* `TTYEventDecoder` = tokenizer (`SurfModel.Tokenizer`, C03) ∘ `Stream.eventOfItem` (C04's `Payload`);
* `TTYCommandDecoder` = the same tokenizer over the command automaton ∘ `commandOfItem`;
* `Utf8Decoder` = `SurfModel.Utf8.utf8Stream`.

For the correspondence check the automata are the tables dumped from the implementation (`Stream.rowsAuto`),
installed once per run with `c02 table …`; the theorems of `SurfProofs.C02` are stated for every tagged
automaton that realises the combined grammar (the model DFA does, by construction; the dumped one is compared
with it by exhaustive bisimulation on every run).
-/
namespace SurfModel.Decoders
open SurfModel.Tokenizer SurfModel.Payload SurfModel.Grammar SurfModel.Automata SurfModel.Stream

/-- what `decode_byte` + `TTYCommandDecoder::decode` make of one item of the tokenizer -/
def commandOfItem {σ} (A : TAuto σ) : Item σ → Except Stop Event
  | .tok bs q =>
    match A.leastTag q with
    | none => .error .panic
    | some t =>
      match decodeCommandTok t (natBytes bs) with
      | .error e => .error e
      | .ok (some e) => .ok e
      | .ok none => .ok (.raw (natBytes bs))
  | .raw bs => .ok (.raw (natBytes bs))

def showItemRes : Except Stop Event → String
  | .error .panic => "panic"
  | .error .ext => "ext"
  | .ok e => showEvent e

/-- a decoder fed read by read through `decode_into`: the rendering of every item and the bytes held back -/
def runStream (A : TAuto Nat) (command : Bool) (chunks : List (List UInt8)) : String :=
  match feedAll A.toAuto (init A.toAuto) chunks with
  | .error e => showFault e
  | .ok (per, s) =>
    let items := per.flatten
    let shown := items.map fun it => showItemRes (if command then commandOfItem A it else eventOfItem A it)
    (if shown.isEmpty then "-" else " ".intercalate shown) ++ s!" rest={SurfModel.Proto.hex s.buffer}"

structure Tables where
  event : Option (Array Wire.Row) := none
  command : Option (Array Wire.Row) := none

/-- requests (after `c02`) that need the installed tables:
* `table event|command <n> <rows>` — install a dumped production DFA (format of `c15 bisim`); answers
  `ok <n> termok=<0|1>`
* `ev <chunks>` / `cmd <chunks>` — the decoder model over the installed table -/
def handle (ts : Tables) : List String → Tables × String
  | ["table", which, _, table] =>
    match (table.splitOn ";").mapM Wire.parseRow with
    | none => (ts, "bad-table")
    | some rows =>
      let rows := rows.toArray
      let termok := rows.toList.all fun r => !r.term || (List.range 256).all fun b => ((r.next[b]?).getD none).isNone
      let answer := s!"ok {rows.size} termok={if termok then 1 else 0}"
      if which == "event" then ({ ts with event := some rows }, answer)
      else if which == "command" then ({ ts with command := some rows }, answer)
      else (ts, "bad-op")
  | ["ev", chunks] =>
    match ts.event, parseChunks chunks with
    | some rows, some cs => (ts, runStream (rowsAuto rows) false cs)
    | _, _ => (ts, "bad-op")
  | ["cmd", chunks] =>
    match ts.command, parseChunks chunks with
    | some rows, some cs => (ts, runStream (rowsAuto rows) true cs)
    | _, _ => (ts, "bad-op")
  | _ => (ts, "bad-op")

end SurfModel.Decoders
