/-!
# C08 — model of `ViewBounds::view_bounds` / `range_bounds` (src/surface.rs)

The Rust code widens every bound to `i128` and the axis length to `i128`.  All bound values come
from the ten primitive integer types (`|x| ≤ 2^64`) and `size < 2^64`, so no `i128` operation can
overflow (`SurfProofs.C08.fits_i128`); the model therefore computes in `Int`.
-/
namespace SurfModel.Slice

/-- `std::cmp::Ord::clamp` as used through `clamp(v, lo, hi)` in surface.rs -/
def clampI (v lo hi : Int) : Int := if v < lo then lo else if v > hi then hi else v

/-- `std::ops::Bound<i128>` -/
inductive Bnd where
  | unbounded
  | included (x : Int)
  | excluded (x : Int)
  deriving Repr, DecidableEq

/-- `fn range_bounds(bound: impl RangeBounds<i128>, size: usize)` — same statements, same order. -/
def rangeBounds (lo hi : Bnd) (size : Nat) : Option (Nat × Nat) :=
  let size : Int := size
  if size == 0 then none else
  let (start, offset) : Int × Int := match lo with
    | .unbounded => (0, 0)
    | .included s => (s, 0)
    | .excluded s => (s, 1)
  let offset := if start ≥ size then 1 else offset
  let start := clampI (start + size) 0 (2 * size - 1) % size + offset
  let (end_, offset) : Int × Int := match hi with
    | .unbounded => (-1, 1)
    | .included e => (e, 1)
    | .excluded e => (e, 0)
  let offset := if end_ ≥ size then 1 else if end_ < -size then 0 else offset
  let end_ := clampI (end_ + size) 0 (2 * size - 1) % size + offset
  if end_ ≤ start then none else some (start.toNat, end_.toNat)

/-- `impl ViewBounds for iN` (signed single index) -/
def indexSigned (index : Int) (size : Nat) : Option (Nat × Nat) :=
  let size : Int := size
  if index < -size || index ≥ size then none
  else
    let start := if index < 0 then index + size else index
    some (start.toNat, start.toNat + 1)

/-- `impl ViewBounds for uN` (unsigned single index) -/
def indexUnsigned (index : Nat) (size : Nat) : Option (Nat × Nat) :=
  if index ≥ size then none else some (index, index + 1)

/-- The seven selector forms of the property. `signed` records which `impl` the single index uses. -/
inductive Sel where
  | idxS (i : Int)          -- `i` with a signed type
  | idxU (i : Nat)          -- `i` with an unsigned type
  | range (a b : Int)       -- `a..b`
  | from (a : Int)          -- `a..`
  | to (b : Int)            -- `..b`
  | incl (a b : Int)        -- `a..=b`
  | toIncl (b : Int)        -- `..=b`
  | full                    -- `..`
  deriving Repr, DecidableEq

def viewBounds : Sel → Nat → Option (Nat × Nat)
  | .idxS i, n => indexSigned i n
  | .idxU i, n => indexUnsigned i n
  | .range a b, n => rangeBounds (.included a) (.excluded b) n
  | .from a, n => rangeBounds (.included a) .unbounded n
  | .to b, n => rangeBounds .unbounded (.excluded b) n
  | .incl a b, n => rangeBounds (.included a) (.included b) n
  | .toIncl b, n => rangeBounds .unbounded (.included b) n
  | .full, n => rangeBounds .unbounded .unbounded n

/-! ## Specification: Python / NumPy slicing -/

/-- Python's clamped slice index: `slice(i).indices(n)` for one bound. -/
def pyIdx (i : Int) (n : Int) : Int := if i < 0 then max (i + n) 0 else min i n

/-- One past the element an inclusive end names: past the axis → `n`, before it → `0` (nothing). -/
def pyEndIncl (e : Int) (n : Int) : Int :=
  if e ≥ n then n else if e < -n then 0 else (if e < 0 then e + n else e) + 1

def pySel : Sel → Int → Option (Int × Int)
  | .idxS i, n => if -n ≤ i ∧ i < n then some (if i < 0 then i + n else i, (if i < 0 then i + n else i) + 1) else none
  | .idxU i, n => if (i : Int) < n then some (i, i + 1) else none
  | .range a b, n => some (pyIdx a n, pyIdx b n)
  | .from a, n => some (pyIdx a n, n)
  | .to b, n => some (0, pyIdx b n)
  | .incl a b, n => some (pyIdx a n, pyEndIncl b n)
  | .toIncl b, n => some (0, pyEndIncl b n)
  | .full, n => some (0, n)

/-- The specification: resolved window, `none` when empty. -/
def pySlice (s : Sel) (n : Nat) : Option (Nat × Nat) :=
  match pySel s n with
  | none => none
  | some (a, b) => if a < b then some (a.toNat, b.toNat) else none

/-! ## line protocol -/

def showRes : Option (Nat × Nat) → String
  | none => "none"
  | some (a, b) => s!"some {a} {b}"

def parseSel : List String → Option (Sel × Nat)
  | ["idxS", i, n] => do pure (.idxS (← i.toInt?), ← n.toNat?)
  | ["idxU", i, n] => do pure (.idxU (← i.toNat?), ← n.toNat?)
  | ["range", a, b, n] => do pure (.range (← a.toInt?) (← b.toInt?), ← n.toNat?)
  | ["from", a, n] => do pure (.from (← a.toInt?), ← n.toNat?)
  | ["to", b, n] => do pure (.to (← b.toInt?), ← n.toNat?)
  | ["incl", a, b, n] => do pure (.incl (← a.toInt?) (← b.toInt?), ← n.toNat?)
  | ["toIncl", b, n] => do pure (.toIncl (← b.toInt?), ← n.toNat?)
  | ["full", n] => do pure (.full, ← n.toNat?)
  | _ => none

/-- `c08 model …` answers with the model of the code, `c08 spec …` with the Python specification. -/
def handle : List String → String
  | "model" :: rest => match parseSel rest with
    | some (s, n) => showRes (viewBounds s n)
    | none => "bad-op"
  | "spec" :: rest => match parseSel rest with
    | some (s, n) => showRes (pySlice s n)
    | none => "bad-op"
  | _ => "bad-op"

end SurfModel.Slice
