import SurfModel.Proto
import SurfModel.KittyB64
import SurfModel.KittySpec
/-!
# Model of `KittyImageHandler` (`src/image.rs`) — C11

Mirrors, statement by statement, `kitty_image_id`, `kitty_placement_id`, `kitty_placement_to_pos`,
`KittyImageHandler::{draw, erase, handle}` and what they use of `Surface` (`Shape::offset`, `Shape::nth`,
`SurfaceIter::nth`, `Surface::is_empty`).  The payload is **not** compressed by the code (the `o=z` of the
source comment is never written), so no compression function appears.  `Surface::hash` (FNV over height,
width, pixels) is an uninterpreted parameter `hash`.  Rust `{}` of an unsigned integer is `decimal`.
In this file the payload is given by its result (`payloadOf` = RFC 4648 text `rfcEncode` of all pixel bytes);
`SurfModel/KittyStream.lean` has the literal version — a `Base64Encoder` (C14's model) fed one write of four
bytes per pixel, then `finish` — which is what the driver runs, and `SurfProofs/Lemmas/KittyStream.lean` proves
the two equal (`drawStreaming = draw`, no panic) from `C14_encode`.
-/
namespace SurfModel.Kitty
open SurfModel.KittyB64 SurfModel.KittySpec

/-! ## images -/

structure RGBA where
  r : UInt8
  g : UInt8
  b : UInt8
  a : UInt8
  deriving DecidableEq, Repr, Inhabited

def RGBA.bytes (c : RGBA) : List UInt8 := [c.r, c.g, c.b, c.a]

/-- `surface::Shape` -/
structure Shape where
  start : Nat
  end_ : Nat
  width : Nat
  height : Nat
  rowStride : Nat
  colStride : Nat
  deriving DecidableEq, Repr

/-- `Shape::offset` -/
def Shape.offset (s : Shape) (row col : Nat) : Nat := s.start + row * s.rowStride + col * s.colStride

/-- `Shape::nth` -/
def Shape.nth (s : Shape) (n : Nat) : Option (Nat × Nat) :=
  if s.width = 0 then none
  else
    let row := n / s.width
    let col := n - row * s.width
    if row < s.height then some (row, col) else none

/-- `Shape::view` once `view_bounds` has resolved the two ranges to `r0 < r1 ≤ height`, `c0 < c1 ≤ width`
(`Image::crop`, `view_owned`); used only to show that cropped images satisfy the hypotheses of the theorems -/
def Shape.crop (s : Shape) (r0 r1 c0 c1 : Nat) : Shape :=
  { s with width := c1 - c0, height := r1 - r0, start := s.offset r0 c0, end_ := s.offset (r1 - 1) c1 }

/-- the shape `Surface::transpose` builds -/
def Shape.transpose (s : Shape) : Shape :=
  { s with width := s.height, height := s.width, colStride := s.rowStride, rowStride := s.colStride }

/-- `image::Image`: shared pixel buffer of the parent + shape of the view -/
structure Image where
  data : Array RGBA
  shape : Shape
  deriving DecidableEq, Repr

/-- `Surface::is_empty` -/
def Image.isEmpty (img : Image) : Bool := img.shape.start ≥ img.shape.end_

/-- `SurfaceIter`: `index` counts up; stops when `Shape::nth` or `data.get` gives `None`.
Fuel `k`: `Shape::nth n = None` for every `n ≥ width * height` (`iterGo_fuel` in the proofs). -/
def Image.iterGo (img : Image) : Nat → Nat → List RGBA
  | 0, _ => []
  | k + 1, index =>
    match img.shape.nth index with
    | none => []
    | some (row, col) =>
      match img.data[img.shape.offset row col]? with
      | none => []
      | some c => c :: img.iterGo k (index + 1)

def Image.iter (img : Image) : List RGBA := img.iterGo (img.shape.width * img.shape.height) 0

/-! ## ids -/

def KITTY_MAX_ID : Nat := 4294967295
def KITTY_MAX_DIM : Nat := 65536

/-- `kitty_image_id`, from the value of `img.hash()` -/
def imageId (hash : Nat) : Nat := hash % KITTY_MAX_ID + 1

/-- `kitty_placement_id` -/
def placementId (row col : Nat) : Nat :=
  ((row % KITTY_MAX_DIM) + (col % KITTY_MAX_DIM) * KITTY_MAX_DIM) % KITTY_MAX_ID + 1

/-- `kitty_placement_to_pos`: (row, col) -/
def placementToPos (pid : Nat) : Nat × Nat :=
  let index := pid - 1
  (index % KITTY_MAX_DIM, index / KITTY_MAX_DIM)

/-! ## byte output -/

def digitsRev : Nat → Nat → List UInt8
  | 0, _ => []
  | fuel + 1, n =>
    if n < 10 then [UInt8.ofNat (48 + n)] else UInt8.ofNat (48 + n % 10) :: digitsRev fuel (n / 10)

/-- Rust `{}` of an unsigned integer -/
def decimal (n : Nat) : List UInt8 := (digitsRev (n + 1) n).reverse

def renderItem (kv : UInt8 × List UInt8) : List UInt8 := kv.1 :: 61 :: kv.2

/-- `k=v,k=v,…` -/
def renderCtrl : List (UInt8 × List UInt8) → List UInt8
  | [] => []
  | [kv] => renderItem kv
  | kv :: rest => renderItem kv ++ 44 :: renderCtrl rest

/-- `ESC _ G <control> [; <payload>] ESC \` -/
def apc (ctrl : List (UInt8 × List UInt8)) (payload : Option (List UInt8)) : List UInt8 :=
  [27, 95, 71] ++ renderCtrl ctrl ++ (match payload with | none => [] | some p => 59 :: p) ++ [27, 92]

/-- `slice::chunks(n)`; fuel = length of the slice -/
def chunksGo (n : Nat) : Nat → List UInt8 → List (List UInt8)
  | 0, _ => []
  | fuel + 1, l => if l.isEmpty then [] else l.take n :: chunksGo n fuel (l.drop n)

def chunks (n : Nat) (l : List UInt8) : List (List UInt8) := chunksGo n l.length l

/-- the `for (index, chunk) in chunks.enumerate()` loop of `draw` -/
def emitChunks (id h w q count : Nat) : Nat → List (List UInt8) → List UInt8
  | _, [] => []
  | index, chunk :: rest =>
    let more := if index + 1 < count then 1 else 0
    (if index = 0 then
      -- "\x1b_Ga=t,f=32,i={},v={},s={},m={},q={};"
      apc [(97, [116]), (102, [51, 50]), (105, decimal id), (118, decimal h), (115, decimal w),
           (109, decimal more), (113, decimal q)] (some chunk)
    else
      -- "\x1b_Gm={more},q={suppress};"
      apc [(109, decimal more), (113, decimal q)] (some chunk))
    ++ emitChunks id h w q count (index + 1) rest

/-! ## the handler -/

structure Handler where
  /-- `imgs: HashMap<u64, Image>` (key = image id) as an association list -/
  imgs : List (Nat × Image)
  suppress : Option Nat

def Handler.new : Handler := ⟨[], none⟩
def Handler.quiet (h : Handler) : Handler := { h with suppress := some 1 }

def Handler.contains (h : Handler) (id : Nat) : Bool := (h.imgs.lookup id).isSome

section
variable (hash : Image → UInt64)

def idOf (img : Image) : Nat := imageId (hash img).toNat

/-- pixel data as transmitted: base64 of the RGBA bytes in iteration order -/
def payloadOf (img : Image) : List UInt8 := rfcEncode (img.iter.flatMap RGBA.bytes)

/-- "\x1b_Ga=p,i={img_id},C=1,p={placement_id},q={suppress};\x1b\\" -/
def putBytes (id pid q : Nat) : List UInt8 :=
  apc [(97, [112]), (105, decimal id), (67, [49]), (112, decimal pid), (113, decimal q)] (some [])

/-- `KittyImageHandler::draw` -/
def draw (h : Handler) (img : Image) (row col : Nat) : Handler × List UInt8 :=
  if img.isEmpty then (h, [])
  else
    let id := idOf hash img
    let q := h.suppress.getD 0
    let cs := chunks 4096 (payloadOf img)
    let tx : Handler × List UInt8 :=
      if h.contains id then (h, [])
      else ({ h with imgs := (id, img) :: h.imgs },
            emitChunks id img.shape.height img.shape.width q cs.length 0 cs)
    (tx.1, tx.2 ++ putBytes id (placementId row col) q)

/-- `KittyImageHandler::erase` -/
def erase (img : Image) (pos : Option (Nat × Nat)) : List UInt8 :=
  match pos with
  | some (row, col) =>
    apc [(97, [100]), (100, [105]), (105, decimal (idOf hash img)), (112, decimal (placementId row col))] none
  | none => apc [(97, [100]), (100, [105]), (105, decimal (idOf hash img))] none

/-- `usize::saturating_add(1)` -/
def satAdd1 (n : Nat) : Nat := if n + 1 < 18446744073709551616 then n + 1 else 18446744073709551615

/-- `TerminalCommand::CursorTo(pos)`: "\x1b[{};{}H" -/
def cursorTo (row col : Nat) : List UInt8 :=
  [27, 91] ++ decimal (satAdd1 row) ++ [59] ++ decimal (satAdd1 col) ++ [72]

inductive Event
  /-- `TerminalEvent::KittyImage { id, placement, error }` (only `error.is_some()` matters) -/
  | kittyImage (id : Nat) (placement : Option Nat) (error : Bool)
  | other

/-- `KittyImageHandler::handle`; the `bool` is the "handled" flag -/
def handleEvent (h : Handler) : Event → Handler × List UInt8 × Bool
  | .kittyImage id placement error =>
    if error then
      let pos := placement.map placementToPos
      -- the tuple `(self.imgs.remove(id), pos)` is built first: the entry is removed in any case
      let removed := h.imgs.lookup id
      let h1 : Handler := { h with imgs := h.imgs.filter (fun e => e.1 != id) }
      match removed, pos with
      | some img, some (row, col) =>
        let suppress := h1.suppress
        let d := draw hash { h1 with suppress := some 2 } img row col
        ({ d.1 with suppress := suppress }, [27, 55] ++ cursorTo row col ++ d.2 ++ [27, 56], true)
      | _, _ => (h1, [], true)
    else (h, [], true)
  | .other => (h, [], false)

/-- histories on one handler -/
inductive Ev
  | draw (img : Image) (row col : Nat)
  | erase (img : Image) (pos : Option (Nat × Nat))
  | resp (id : Nat) (placement : Option Nat) (error : Bool)
  | other

def step (h : Handler) : Ev → Handler × List UInt8
  | .draw img row col => draw hash h img row col
  | .erase img pos => (h, erase hash img pos)
  | .resp id placement error => ((handleEvent hash h (.kittyImage id placement error)).1,
                                 (handleEvent hash h (.kittyImage id placement error)).2.1)
  | .other => ((handleEvent hash h .other).1, (handleEvent hash h .other).2.1)

/-- bytes written per event -/
def run (h : Handler) : List Ev → List (List UInt8)
  | [] => []
  | ev :: rest => (step hash h ev).2 :: run (step hash h ev).1 rest

end

/-! ## specification-side view of an image: its pixels, row-major -/

def Image.pixel (img : Image) (row col : Nat) : RGBA := img.data.getD (img.shape.offset row col) default

/-- width, height and the RGBA bytes of the rows top to bottom, each row left to right -/
def content (img : Image) : Content :=
  ⟨img.shape.width, img.shape.height,
   (List.range img.shape.height).flatMap fun row =>
     (List.range img.shape.width).flatMap fun col => (img.pixel row col).bytes⟩

def toSpec : Ev → SEv
  | .draw img row col => .draw (content img) row col
  | .erase img pos => .erase (content img) pos
  | .resp id placement true => .error id placement
  | .resp _ _ false => .other
  | .other => .other

/-! ## line protocol

`c11 model q<0|1> img <hash> <start> <end> <w> <h> <rs> <cs> <hex rgba…> … ev <d|e|r|x> …`
`c11 monitor (D w h pix row col bytes | E w h pix row|- col|- bytes | R id placement|- bytes | X bytes)…`
`c11 kitty <hex>`
-/
open SurfModel.Proto

def rgbaOfBytes : List UInt8 → List RGBA → Option (List RGBA)
  | [], acc => some acc.reverse
  | r :: g :: b :: a :: rest, acc => rgbaOfBytes rest (⟨r, g, b, a⟩ :: acc)
  | _, _ => none

def optNat? (s : String) : Option (Option Nat) := if s == "-" then some none else s.toNat?.map some

structure Req where
  quiet : Bool
  imgs : List (Image × UInt64)
  evs : List Ev

def nthImg (imgs : List (Image × UInt64)) (k : String) : Option Image := do
  let k ← k.toNat?
  (imgs[k]?).map (·.1)

def parseReq : List String → Req → Option Req
  | [], acc => some { acc with imgs := acc.imgs, evs := acc.evs.reverse }
  | "img" :: hs :: st :: en :: w :: h :: rs :: cs :: dat :: rest, acc => do
    let px ← rgbaOfBytes (← unhex dat) []
    let img : Image := ⟨px.toArray, ⟨← st.toNat?, ← en.toNat?, ← w.toNat?, ← h.toNat?, ← rs.toNat?, ← cs.toNat?⟩⟩
    parseReq rest { acc with imgs := acc.imgs ++ [(img, UInt64.ofNat (← hs.toNat?))] }
  | "ev" :: "d" :: k :: row :: col :: rest, acc => do
    parseReq rest { acc with evs := .draw (← nthImg acc.imgs k) (← row.toNat?) (← col.toNat?) :: acc.evs }
  | "ev" :: "e" :: k :: row :: col :: rest, acc => do
    let pos ← match ← optNat? row, ← optNat? col with
      | some r, some c => some (some (r, c))
      | none, none => some none
      | _, _ => none
    parseReq rest { acc with evs := .erase (← nthImg acc.imgs k) pos :: acc.evs }
  | "ev" :: "r" :: id :: pl :: err :: rest, acc => do
    parseReq rest { acc with evs := .resp (← id.toNat?) (← optNat? pl) (err == "1") :: acc.evs }
  | "ev" :: "x" :: rest, acc => parseReq rest { acc with evs := .other :: acc.evs }
  | _, _ => none

/-- the uninterpreted `hash`, instantiated with the values the implementation reported for the request's images -/
def hashOf (tab : List (Image × UInt64)) (img : Image) : UInt64 :=
  match tab.find? (fun e => e.1 == img) with
  | some e => e.2
  | none => 0

def showRun (hash : Image → UInt64) : Handler → List Ev → List String
  | _, [] => []
  | h, ev :: rest =>
    let s := match ev with
      | .draw .. | .erase .. => hex (step hash h ev).2
      | .resp id pl err => hex (step hash h ev).2 ++ (if (handleEvent hash h (.kittyImage id pl err)).2.2 then ":t" else ":f")
      | .other => hex (step hash h ev).2 ++ (if (handleEvent hash h .other).2.2 then ":t" else ":f")
    s :: showRun hash (step hash h ev).1 rest

def showVal : Option Val → String
  | none => "-"
  | some (.num n) => s!"n{n}"
  | some (.raw bs) => s!"r{hex bs}"

def showCmd : KCmd → String
  | .transmit d id f w h comp data cks =>
    s!"T{if d then 1 else 0},i={id},f={f},s={w},v={h},o={showVal comp},data={hex data},chunks={showNatList cks}"
  | .put id pid => s!"P,i={id},p={pid}"
  | .delete what id pid => s!"D,d={what.toNat},i={id},p={pid}"

def parseTrace : List String → List (SEv × List UInt8) → Option (List (SEv × List UInt8))
  | [], acc => some acc.reverse
  | "D" :: w :: h :: pix :: row :: col :: bytes :: rest, acc => do
    parseTrace rest ((.draw ⟨← w.toNat?, ← h.toNat?, ← unhex pix⟩ (← row.toNat?) (← col.toNat?), ← unhex bytes) :: acc)
  | "E" :: w :: h :: pix :: row :: col :: bytes :: rest, acc => do
    let pos ← match ← optNat? row, ← optNat? col with
      | some r, some c => some (some (r, c))
      | none, none => some none
      | _, _ => none
    parseTrace rest ((.erase ⟨← w.toNat?, ← h.toNat?, ← unhex pix⟩ pos, ← unhex bytes) :: acc)
  | "R" :: id :: pl :: bytes :: rest, acc => do
    parseTrace rest ((.error (← id.toNat?) (← optNat? pl), ← unhex bytes) :: acc)
  | "X" :: bytes :: rest, acc => do parseTrace rest ((.other, ← unhex bytes) :: acc)
  | _, _ => none

def handle : List String → String
  | "model" :: q :: rest =>
    match parseReq rest ⟨q == "q1", [], []⟩ with
    | some req =>
      let h0 := if req.quiet then Handler.new.quiet else Handler.new
      " ".intercalate (showRun (hashOf req.imgs) h0 req.evs)
    | none => "bad-op"
  | "monitor" :: rest =>
    match parseTrace rest [] with
    | some tr => match firstReject Mon.init 0 tr with
      | none => "ok"
      | some k => s!"rejected-at {k}"
    | none => "bad-op"
  | ["crop", st, en, w, h, rs, cs, r0, r1, c0, c1] =>
    match [st, en, w, h, rs, cs, r0, r1, c0, c1].mapM String.toNat? with
    | some [st, en, w, h, rs, cs, r0, r1, c0, c1] =>
      let t := (Shape.mk st en w h rs cs).crop r0 r1 c0 c1
      s!"{t.start} {t.end_} {t.width} {t.height} {t.rowStride} {t.colStride}"
    | _ => "bad-op"
  | ["transpose", st, en, w, h, rs, cs] =>
    match [st, en, w, h, rs, cs].mapM String.toNat? with
    | some [st, en, w, h, rs, cs] =>
      let t := (Shape.mk st en w h rs cs).transpose
      s!"{t.start} {t.end_} {t.width} {t.height} {t.rowStride} {t.colStride}"
    | _ => "bad-op"
  | ["kitty", bytes] =>
    match unhex bytes with
    | some bs => match kitty bs with
      | some cmds => if cmds.isEmpty then "none" else " ".intercalate (cmds.map showCmd)
      | none => "malformed"
    | none => "bad-op"
  | _ => "bad-op"

end SurfModel.Kitty
