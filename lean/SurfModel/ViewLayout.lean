import SurfModel.Proto
import SurfModel.Slice
/-!
# C10 — model of view layout and rendering (src/view/{mod,flex,container,text,frame,scrollbar,layout,dynamic}.rs,
  `Cell::layout` of src/render.rs, the `View` impls of src/glyph.rs and src/image.rs)

The model mirrors the (repaired) code statement by statement.  `usize` arithmetic that the code performs
with plain `+` is *checked* here (`addU`, panic = explicit outcome: the two `+ 2` of `Frame::layout` and
the cursor sums of `Cell::layout`), `saturating_*` and `clamp` are what they are in Rust (`usize::clamp`
panics when `min > max`), division panics on a zero divisor.  Flex factors and scroll bar fractions are
`F64` values: exact rationals plus `+inf`, `-inf`, `NaN`, with the `f64` rules the code relies on
(`0 * inf = NaN`, `x / +0`, `NaN`-transparent `clamp`, comparisons false on `NaN`, round half away from
zero, `as usize` saturating with `NaN -> 0`).  On the grid `k/4` (`|k| ≤ 64`) for factors, `k/8` for
fractions, extents `< 2^20`, the `f64` evaluation of the code coincides with this arithmetic (products
`< 2^53`, quotients either exactly representable or at distance `≥ 1/640` from a half-integer).
`Image::render` crops the image to `surface extent * pixels_per_cell` pixels with saturating products
(repaired) before it writes it as one cell at the origin of the surface: `imageExtent` is the number of
cells that cell covers.

The layout tree is the inductive tree `LT` (the arena of `TreeStore` with first-child / next-sibling
links is the Rust representation of exactly this).  `LT.data` mirrors `Layout::data` as far as the
views read it back: `1`/`2` = the view a `Dynamic` built, `3` = a `Tag` value, `0` = none.

`Dynamic` is modelled for build closures that pick one of two views by a threshold on the maximum width
(`V.dyn thr a b`); like `Tag` and the cached `ref` view it lays the view it wraps out in a child node
(repaired code).  `Option::Some`, `Either`, `Box`, `Arc`, `&V`, `TraceLayout` forward both calls and are
not represented.

A surface is a `Shape` (same six fields as `surf_n_term::surface::Shape`); `Shape.view` is the Rust
`Shape::view` on top of C08's `viewBounds`.  Rendering returns the list of *paint events*: every
call of a leaf `render`, and every `erase`/frame fill of an inner node, with the shape it writes
through.  What a writer does inside the shape it holds is C07/C09's subject.
-/
namespace SurfModel.ViewLayout
open SurfModel

/-- `usize::MAX + 1` (64-bit target) -/
def U : Nat := 2 ^ 64

inductive Panic where
  | overflow        -- `attempt to add with overflow`
  | clampMinGtMax   -- `assert!(min <= max)` of `Ord::clamp`
  | expectFailed    -- `expect("not all flex children are allocated")`
  | divZero         -- `attempt to divide by zero`
  deriving Repr, DecidableEq

/-- `a + b` on `usize` in a build with overflow checks -/
def addU (a b : Nat) : Except Panic Nat := if a + b < U then .ok (a + b) else .error .overflow
/-- `a.saturating_add(b)` -/
def satAdd (a b : Nat) : Nat := if a + b < U then a + b else U - 1
/-- `a / b` on `usize` -/
def divU (a b : Nat) : Except Panic Nat := if b = 0 then .error .divZero else .ok (a / b)
/-- `v.clamp(lo, hi)` of `Ord` -/
def clampU (v lo hi : Nat) : Except Panic Nat :=
  if lo > hi then .error .clampMinGtMax else .ok (if v < lo then lo else if v > hi then hi else v)

structure Size where
  h : Nat
  w : Nat
  deriving Repr, DecidableEq

structure Pos where
  row : Nat
  col : Nat
  deriving Repr, DecidableEq

/-- `Size::is_empty` (repaired: per dimension) -/
def Size.isEmpty (s : Size) : Bool := s.h == 0 || s.w == 0

/-- `BoxConstraint` -/
structure Ct where
  min : Size
  max : Size
  deriving Repr, DecidableEq

/-- `Size::clamp(self, min, max)` -/
def Size.clamp (s lo hi : Size) : Except Panic Size :=
  match clampU s.h lo.h hi.h with
  | .error e => .error e
  | .ok h => match clampU s.w lo.w hi.w with
    | .error e => .error e
    | .ok w => .ok ⟨h, w⟩

def Ct.clamp (ct : Ct) (s : Size) : Except Panic Size := s.clamp ct.min ct.max
def Ct.loosen (ct : Ct) : Ct := ⟨⟨0, 0⟩, ct.max⟩

inductive Axis where
  | hor
  | ver
  deriving Repr, DecidableEq

def Axis.majorS : Axis → Size → Nat
  | .hor, s => s.w
  | .ver, s => s.h
def Axis.minorS : Axis → Size → Nat
  | .hor, s => s.h
  | .ver, s => s.w
def Axis.sizeFrom : Axis → Nat → Nat → Size
  | .hor, major, minor => ⟨minor, major⟩
  | .ver, major, minor => ⟨major, minor⟩
def Axis.posFrom : Axis → Nat → Nat → Pos
  | .hor, major, minor => ⟨minor, major⟩
  | .ver, major, minor => ⟨major, minor⟩
def Axis.majorP : Axis → Pos → Nat
  | .hor, p => p.col
  | .ver, p => p.row
/-- `Axis::constraint(ct, min, max)` -/
def Axis.constraint : Axis → Ct → Nat → Nat → Ct
  | .hor, ct, lo, hi => ⟨⟨ct.min.h, lo⟩, ⟨ct.max.h, hi⟩⟩
  | .ver, ct, lo, hi => ⟨⟨lo, ct.min.w⟩, ⟨hi, ct.max.w⟩⟩

inductive Justify where
  | start | center | end_ | spaceBetween | spaceAround | spaceEvenly
  deriving Repr, DecidableEq

inductive Align where
  | start | center | end_ | expand | shrink
  | offset (o : Int)     -- `i32`
  deriving Repr, DecidableEq

/-- `Align::align(size, space)` -/
def Align.align (a : Align) (size space : Nat) : Nat :=
  let size := if size > space then space else size     -- `size.clamp(0, space)`
  match a with
  | .start | .expand | .shrink => 0
  | .center => (space - size) / 2
  | .end_ => space - size
  | .offset o => if o ≥ 0 then o.toNat else (space - size) - o.natAbs

structure Margins where
  left : Nat
  right : Nat
  top : Nat
  bottom : Nat
  deriving Repr, DecidableEq

/-- An `f64` as far as the flex and the scroll-bar arithmetic go: an exact rational `num / den`
(`den > 0`; the code's values are exact on the grid stated in the header) or one of the special values.
Zero is always `+0.0` here: the totals are sums and differences, which never produce `-0.0`, and a zero
product or quotient is only ever rounded and cast (to 0) afterwards. -/
inductive F64 where
  | fin (num : Int) (den : Nat)
  | pinf
  | ninf
  | nan
  deriving Repr, DecidableEq

namespace F64
def ofNat (n : Nat) : F64 := .fin n 1
def zero : F64 := .fin 0 1
def neg : F64 → F64
  | .fin a b => .fin (-a) b
  | .pinf => .ninf
  | .ninf => .pinf
  | .nan => .nan
def add : F64 → F64 → F64
  | .fin a b, .fin c d => .fin (a * d + c * b) (b * d)
  | .nan, _ => .nan
  | _, .nan => .nan
  | .pinf, .ninf => .nan
  | .ninf, .pinf => .nan
  | .pinf, _ => .pinf
  | _, .pinf => .pinf
  | .ninf, _ => .ninf
  | _, .ninf => .ninf
def sub (x y : F64) : F64 := x.add y.neg
/-- sign of a value: `1`, `0`, `-1` (`nan` counts as 0 and is handled before) -/
def sgn : F64 → Int
  | .fin a _ => if a > 0 then 1 else if a < 0 then -1 else 0
  | .pinf => 1
  | .ninf => -1
  | .nan => 0
def ofSign (s : Int) : F64 := if s > 0 then .pinf else if s < 0 then .ninf else .nan
def mul : F64 → F64 → F64
  | .fin a b, .fin c d => .fin (a * c) (b * d)
  | .nan, _ => .nan
  | _, .nan => .nan
  | x, y => ofSign (x.sgn * y.sgn)          -- an infinity is involved: `0 * inf = NaN`
/-- `x / y`; a finite zero divisor is `+0.0` -/
def div : F64 → F64 → F64
  | .nan, _ => .nan
  | _, .nan => .nan
  | .fin a b, .fin c d =>
    if c = 0 then ofSign (if a > 0 then 1 else if a < 0 then -1 else 0)
    else if c > 0 then .fin (a * d) (b * c.toNat) else .fin (-(a * d)) (b * (-c).toNat)
  | .fin _ _, _ => .fin 0 1                 -- finite / infinite
  | x, .fin c _ => ofSign (x.sgn * (if c < 0 then -1 else 1))
  | _, _ => .nan                            -- infinite / infinite
/-- `x > 0.0` -/
def gt0 : F64 → Bool
  | .fin a _ => decide (a > 0)
  | .pinf => true
  | _ => false
def isFinite : F64 → Bool
  | .fin _ _ => true
  | _ => false
/-- `x < y` (false when a NaN is involved) -/
def lt : F64 → F64 → Bool
  | .nan, _ => false
  | _, .nan => false
  | .fin a b, .fin c d => decide (a * d < c * b)
  | .ninf, .ninf => false
  | .ninf, _ => true
  | _, .ninf => false
  | .pinf, _ => false
  | _, .pinf => true
/-- `f64::clamp(self, min, max)` for `min <= max` -/
def clamp (x lo hi : F64) : F64 := if x.lt lo then lo else if hi.lt x then hi else x
/-- `f64::round`: half away from zero -/
def round : F64 → F64
  | .fin a b => if b = 0 then .fin a b else
      if a ≥ 0 then .fin ((2 * a + b) / (2 * b)) 1 else .fin (-((2 * (-a) + b) / (2 * b))) 1
  | x => x
/-- `x as usize`: towards zero, saturating, `NaN` gives 0 -/
def toUsize : F64 → Nat
  | .fin a b => if a ≤ 0 ∨ b = 0 then 0 else if a.toNat / b < U then a.toNat / b else U - 1
  | .pinf => U - 1
  | _ => 0
end F64

/-- `x.round()` for the non-negative rational `p / q`, `q > 0`: half away from zero -/
def roundHalfAway (p q : Nat) : Nat := (2 * p + q) / (2 * q)

/-- `(((major_remain as f64) * flex / flex_total).round() as usize).min(major_remain)` -/
def childMajorMax (remain : Nat) (flex total : F64) : Nat :=
  Nat.min (((F64.ofNat remain).mul flex).div total).round.toUsize remain

/-- `Flex::push_child_ext`: `flex.and_then(|flex| (flex > 0.0).then_some(flex))` — keeps `+inf` -/
def apiFilter (f : F64) : Option F64 := if f.gt0 then some f else none
/-- `Flex::from_json_value`: `.and_then(|flex| (flex.is_finite() && flex > 0.0).then_some(flex))` -/
def jsonFilter (f : F64) : Option F64 := if f.isFinite && f.gt0 then some f else none

/-- `ScrollBar::render`: thumb `(size, offset)` for a layout extent `major ≥ 1`:
`size = (major * visible).clamp(1.0, major).round()`, `offset = ((major - size) * position.offset).round()`,
both cast with `as usize` -/
def thumb (major : Nat) (visible offset : F64) : Nat × Nat :=
  let m := F64.ofNat major
  let sz := (((m.mul visible).clamp (F64.ofNat 1) m)).round
  let off := ((m.sub sz).mul offset).round
  (sz.toUsize, off.toUsize)

/-! ## text cells (`Cell::layout`) -/

/-- a character as far as layout is concerned -/
inductive Ch where
  | nl | cr | tab
  | w (n : Nat)          -- any other character, `n = ch.width().unwrap_or(0)`
  deriving Repr, DecidableEq

inductive TCell where
  | ch (c : Ch)
  | img (h w : Nat)                      -- image cell, `size_cells`
  | glyph (h w : Nat) (fb : List Ch)     -- glyph with its fallback string
  deriving Repr, DecidableEq

structure Ctx where
  hasGlyphs : Bool
  ppc : Size
  deriving Repr, DecidableEq

structure TL where
  size : Size
  cur : Pos
  deriving Repr, DecidableEq

def TL.init : TL := ⟨⟨0, 0⟩, ⟨0, 0⟩⟩

/-- the part of `Cell::layout` after the special characters, for a cell of size `cs` -/
def sizedLayout (maxW : Nat) (wraps : Bool) (cs : Size) (st : TL) : Except Panic TL :=
  if cs.h = 0 ∨ cs.w = 0 then .ok st
  else if st.cur.col + cs.w < U ∧ st.cur.col + cs.w ≤ maxW then
    -- `cursor.col.checked_add(cell_size.width).is_some_and(|end| end <= max_width)`
    match addU st.cur.col cs.w with
    | .error e => .error e
    | .ok col =>
      .ok ⟨⟨Nat.max st.size.h (satAdd st.cur.row cs.h), Nat.max st.size.w col⟩, ⟨st.cur.row, col⟩⟩
  else if !wraps then .ok st
  else
    match addU st.cur.row 1 with
    | .error e => .error e
    | .ok row =>
      let h1 := Nat.max st.size.h row
      let col := Nat.min cs.w maxW
      .ok ⟨⟨Nat.max h1 (satAdd row cs.h), Nat.max st.size.w col⟩, ⟨row, col⟩⟩

/-- `Cell::new_char(face, c).layout(ctx, max_width, wraps, size, cursor)` -/
def chLayout (maxW : Nat) (wraps : Bool) (c : Ch) (st : TL) : Except Panic TL :=
  match c with
  | .nl =>
    match addU st.cur.row 1 with
    | .error e => .error e
    | .ok row => .ok ⟨⟨Nat.max st.size.h row, Nat.max st.size.w st.cur.col⟩, ⟨row, 0⟩⟩
  | .cr => .ok ⟨st.size, ⟨st.cur.row, 0⟩⟩
  | .tab =>
    match addU st.cur.col (Nat.min (8 - st.cur.col % 8) (maxW - st.cur.col)) with
    | .error e => .error e
    | .ok col => .ok ⟨⟨st.size.h, Nat.max st.size.w col⟩, ⟨st.cur.row, col⟩⟩
  | .w n => sizedLayout maxW wraps ⟨1, n⟩ st

def chsLayout (maxW : Nat) (wraps : Bool) : List Ch → TL → Except Panic TL
  | [], st => .ok st
  | c :: cs, st => match chLayout maxW wraps c st with
    | .error e => .error e
    | .ok st' => chsLayout maxW wraps cs st'

/-- one iteration of the closure in `Text::layout` -/
def tcellLayout (ctx : Ctx) (maxW : Nat) (wraps : Bool) (c : TCell) (st : TL) : Except Panic TL :=
  match c with
  | .ch c => chLayout maxW wraps c st
  | .img h w => sizedLayout maxW wraps ⟨h, w⟩ st
  | .glyph h w fb =>
    if ctx.hasGlyphs then sizedLayout maxW wraps ⟨h, w⟩ st else chsLayout maxW wraps fb st

def tcellsLayout (ctx : Ctx) (maxW : Nat) (wraps : Bool) : List TCell → TL → Except Panic TL
  | [], st => .ok st
  | c :: cs, st => match tcellLayout ctx maxW wraps c st with
    | .error e => .error e
    | .ok st' => tcellsLayout ctx maxW wraps cs st'

/-- `Image::size_cells(pixels_per_cell)` for an image of `ph × pw` pixels -/
def sizeCells (ppc : Size) (ph pw : Nat) : Size :=
  if ppc.isEmpty || (Size.mk ph pw).isEmpty then ⟨0, 0⟩
  else
    let roundUp := fun (a b : Nat) => if a % b = 0 then a / b else a / b + 1
    ⟨roundUp ph ppc.h, roundUp pw ppc.w⟩

/-- `a.saturating_mul(b)` -/
def satMul (a b : Nat) : Nat := if a * b < U then a * b else U - 1

/-- `Image::render`: the cells covered by the image cell it writes at the origin of the surface it holds
(`sh × sw` cells, after `layout.apply_to(surf)`): `Cell::size` of
`self.crop(..sh.saturating_mul(ppc.height), ..sw.saturating_mul(ppc.width))` for an image of `ph × pw`
pixels (`crop` clamps the ranges to the image; an empty range gives an empty image) -/
def imageExtent (ppc : Size) (ph pw sh sw : Nat) : Size :=
  sizeCells ppc (Nat.min ph (satMul sh ppc.h)) (Nat.min pw (satMul sw ppc.w))

/-! ## views -/

mutual
inductive V where
  | text (cells : List TCell) (wraps : Bool)          -- `Text`
  | str (chars : List Ch)                              -- `str` / `String`
  | glyph (h w : Nat) (fb : List Ch)                   -- `Glyph`
  | fixed (id : Nat) (h w : Nat)                       -- leaves with `ct.clamp(size)`: probe, surface view, ascii image
  | image (ph pw : Nat)                                -- `Image` of `ph × pw` pixels
  | fill (paints : Bool)                               -- `RGBA` (paints) and `()` (does not): `ct.max()`
  | scrollbar (dir : Axis)
  | optNone                                            -- `Option::None`, `ViewCached` without cache
  | flex (dir : Axis) (j : Justify) (cs : List Child)
  | container (size : Size) (av ah : Align) (m : Margins) (face : Bool) (child : V)
  | frame (child : V)
  | tag (child : V)
  | dyn (thr : Nat) (a b : V)                          -- `Dynamic` whose build picks `a` iff `ct.max.w > thr`
inductive Child where
  | mk (flex : Option F64) (align : Align) (face : Bool) (view : V)
end

/-- layout tree: `Layout { pos, size, data }` and the children in order -/
inductive LT where
  | node (pos : Pos) (size : Size) (data : Nat) (kids : List LT)

def LT.pos : LT → Pos | .node p _ _ _ => p
def LT.size : LT → Size | .node _ s _ _ => s
def LT.data : LT → Nat | .node _ _ d _ => d
def LT.kids : LT → List LT | .node _ _ _ k => k
/-- `Layout::default()` pushed by `push_default` -/
def LT.default : LT := .node ⟨0, 0⟩ ⟨0, 0⟩ 0 []
def LT.setPos : LT → Pos → LT | .node _ s d k, p => .node p s d k
def LT.setData : LT → Nat → LT | .node p s _ k, d => .node p s d k
/-- `*layout = Layout::new().with_size(size)` on a node without children -/
def LT.leaf (s : Size) : LT := .node ⟨0, 0⟩ s 0 []

/-- third loop of `flex_layout`: positions -/
def place (dir : Axis) (minor between : Nat) : List Child → List LT → Nat → Except Panic (List LT × Nat)
  | [], _, off => .ok ([], off)
  | _ :: _, [], _ => .error .expectFailed
  | .mk _ al _ _ :: cs, t :: ts, off =>
    let t' := t.setPos (dir.posFrom off (al.align (dir.minorS t.size) minor))
    match place dir minor between cs ts (satAdd (satAdd off (dir.majorS t.size)) between) with
    | .error e => .error e
    | .ok (ts', o) => .ok (t' :: ts', o)

/-- `(space_side, space_between)` of `flex_layout` -/
def spaces (j : Justify) (unused n : Nat) : Except Panic (Nat × Nat) :=
  if unused > 0 then
    match j with
    | .start => .ok (0, 0)
    | .center => .ok (unused / 2, 0)
    | .end_ => .ok (unused, 0)
    | .spaceBetween =>
      if n ≤ 1 then .ok (0, unused) else
        match divU unused (n - 1) with
        | .error e => .error e
        | .ok s => .ok (0, s)
    | .spaceEvenly =>
      match divU unused (n + 1) with
      | .error e => .error e
      | .ok s => .ok (s, s)
    | .spaceAround =>
      match divU unused (Nat.max n 1) with
      | .error e => .error e
      | .ok s => .ok (s / 2, s)
  else .ok (0, 0)

/-- accumulator of the first loop -/
structure P1 where
  nonFlex : Nat
  minor : Nat
  total : F64

/-- accumulator of the second loop -/
structure P2 where
  remain : Nat
  total : F64
  flexed : Nat
  minor : Nat

mutual
/-- `View::layout` -/
def V.layout (ctx : Ctx) : V → Ct → Except Panic LT
  | .text cells wraps, ct =>
    match tcellsLayout ctx ct.max.w wraps cells TL.init with
    | .error e => .error e
    | .ok st => match ct.clamp st.size with
      | .error e => .error e
      | .ok s => .ok (LT.leaf s)
  | .str chars, ct =>
    match chsLayout ct.max.w true chars TL.init with
    | .error e => .error e
    | .ok st => match ct.clamp st.size with
      | .error e => .error e
      | .ok s => .ok (LT.leaf s)
  | .glyph h w fb, ct =>
    if ctx.hasGlyphs then
      match ct.clamp ⟨h, w⟩ with
      | .error e => .error e
      | .ok s => .ok (LT.leaf s)
    else
      match chsLayout ct.max.w true fb TL.init with
      | .error e => .error e
      | .ok st => match ct.clamp st.size with
        | .error e => .error e
        | .ok s => .ok (LT.leaf s)
  | .fixed _ h w, ct =>
    match ct.clamp ⟨h, w⟩ with
    | .error e => .error e
    | .ok s => .ok (LT.leaf s)
  | .image ph pw, ct =>
    match ct.clamp (sizeCells ctx.ppc ph pw) with
    | .error e => .error e
    | .ok s => .ok (LT.leaf s)
  | .fill _, ct => .ok (LT.leaf ct.max)
  | .scrollbar dir, ct =>
    let major := dir.majorS ct.max
    let minor := Nat.max (dir.minorS ct.min) 1
    .ok (.node (dir.posFrom 0 (minor - 1)) (dir.sizeFrom major 1) 0 [])
  | .optNone, _ => .ok LT.default
  | .flex dir j cs, ct =>
    let ctl := ct.loosen
    match phase1 ctx dir ctl cs ⟨0, dir.minorS ct.min, F64.zero⟩ with
    | .error e => .error e
    | .ok (ts1, a1) =>
      let remain := dir.majorS ct.max - a1.nonFlex
      let r2 : Except Panic (List LT × P2) :=
        if remain > 0 ∧ a1.total.gt0 then phase2 ctx dir ctl cs ts1 ⟨remain, a1.total, 0, a1.minor⟩
        else .ok (ts1, ⟨remain, a1.total, 0, a1.minor⟩)
      match r2 with
      | .error e => .error e
      | .ok (ts2, a2) =>
        let unused := dir.majorS ct.max - satAdd a1.nonFlex a2.flexed
        match spaces j unused cs.length with
        | .error e => .error e
        | .ok (side, between) =>
          match place dir a2.minor between cs ts2 side with
          | .error e => .error e
          | .ok (ts3, off) =>
            match ct.clamp (dir.sizeFrom off a2.minor) with
            | .error e => .error e
            | .ok s => .ok (.node ⟨0, 0⟩ s 0 ts3)
  | .container size av ah m _ child, ct =>
    let hr := if size.h = 0 then .ok ct.max.h else clampU size.h ct.min.h ct.max.h
    let wr := if size.w = 0 then .ok ct.max.w else clampU size.w ct.min.w ct.max.w
    match hr with
    | .error e => .error e
    | .ok ch => match wr with
      | .error e => .error e
      | .ok cw =>
        let maxS : Size := ⟨ch - m.top - m.bottom, cw - m.left - m.right⟩
        let minS : Size := ⟨if av = .expand then maxS.h else 0, if ah = .expand then maxS.w else 0⟩
        match child.layout ctx ⟨minS, maxS⟩ with
        | .error e => .error e
        | .ok t =>
          let t' := t.setPos ⟨satAdd (av.align t.size.h maxS.h) m.top, satAdd (ah.align t.size.w maxS.w) m.left⟩
          let hr2 := if av = .shrink then clampU (satAdd (satAdd t.size.h m.top) m.bottom) ct.min.h ct.max.h else .ok ch
          let wr2 := if ah = .shrink then clampU (satAdd (satAdd t.size.w m.left) m.right) ct.min.w ct.max.w else .ok cw
          match hr2 with
          | .error e => .error e
          | .ok h2 => match wr2 with
            | .error e => .error e
            | .ok w2 => .ok (.node ⟨0, 0⟩ ⟨h2, w2⟩ 0 [t'])
  | .frame child, ct =>
    if !ctx.hasGlyphs then child.layout ctx ct
    else
      match child.layout ctx ⟨⟨ct.min.h - 2, ct.min.w - 2⟩, ⟨ct.max.h - 2, ct.max.w - 2⟩⟩ with
      | .error e => .error e
      | .ok t =>
        match addU t.size.h 2 with
        | .error e => .error e
        | .ok h => match addU t.size.w 2 with
          | .error e => .error e
          | .ok w => .ok (.node ⟨0, 0⟩ ⟨h, w⟩ 0 [t.setPos ⟨1, 1⟩])
  | .tag child, ct =>
    match child.layout ctx ct with
    | .error e => .error e
    | .ok t => .ok (.node ⟨0, 0⟩ t.size 3 [t])
  | .dyn thr a b, ct =>
    if ct.max.w > thr then
      match a.layout ctx ct with
      | .error e => .error e
      | .ok t => .ok (.node ⟨0, 0⟩ t.size 1 [t])
    else
      match b.layout ctx ct with
      | .error e => .error e
      | .ok t => .ok (.node ⟨0, 0⟩ t.size 2 [t])
/-- first loop of `flex_layout`: non-flex children under the loosened constraint -/
def phase1 (ctx : Ctx) (dir : Axis) (ctl : Ct) : List Child → P1 → Except Panic (List LT × P1)
  | [], a => .ok ([], a)
  | .mk none _ _ v :: cs, a =>
    match v.layout ctx ctl with
    | .error e => .error e
    | .ok t =>
      match phase1 ctx dir ctl cs ⟨satAdd a.nonFlex (dir.majorS t.size), Nat.max a.minor (dir.minorS t.size), a.total⟩ with
      | .error e => .error e
      | .ok (ts, a') => .ok (t :: ts, a')
  | .mk (some f) _ _ _ :: cs, a =>
    match phase1 ctx dir ctl cs ⟨a.nonFlex, a.minor, a.total.add f⟩ with
    | .error e => .error e
    | .ok (ts, a') => .ok (LT.default :: ts, a')
/-- second loop of `flex_layout`: flex children share what is left -/
def phase2 (ctx : Ctx) (dir : Axis) (ctl : Ct) : List Child → List LT → P2 → Except Panic (List LT × P2)
  | [], _, a => .ok ([], a)
  | _ :: _, [], _ => .error .expectFailed
  | .mk none _ _ _ :: cs, t :: ts, a =>
    match phase2 ctx dir ctl cs ts a with
    | .error e => .error e
    | .ok (ts', a') => .ok (t :: ts', a')
  | .mk (some f) _ _ v :: cs, t :: ts, a =>
    let cmax := childMajorMax a.remain f a.total
    let total := a.total.sub f
    if cmax ≠ 0 then
      match v.layout ctx (dir.constraint ctl 0 cmax) with
      | .error e => .error e
      | .ok t' =>
        match phase2 ctx dir ctl cs ts ⟨a.remain - dir.majorS t'.size, total, satAdd a.flexed (dir.majorS t'.size), Nat.max a.minor (dir.minorS t'.size)⟩ with
        | .error e => .error e
        | .ok (ts', a') => .ok (t' :: ts', a')
    else
      match phase2 ctx dir ctl cs ts ⟨a.remain, total, a.flexed, a.minor⟩ with
      | .error e => .error e
      | .ok (ts', a') => .ok (t :: ts', a')
end

/-! ## surfaces and rendering -/

/-- `surf_n_term::surface::Shape` -/
structure Shape where
  start : Nat
  end_ : Nat
  width : Nat
  height : Nat
  rs : Nat
  cs : Nat
  deriving Repr, DecidableEq

def Shape.offset (s : Shape) (row col : Nat) : Nat := s.start + row * s.rs + col * s.cs
def Shape.zero : Shape := ⟨0, 0, 0, 0, 0, 0⟩
/-- `Shape::from(Size)` -/
def Shape.ofSize (h w : Nat) : Shape := ⟨0, h * w, w, h, w, 1⟩

/-- `Shape::view(rows, cols)` -/
def Shape.view (s : Shape) (rows cols : Slice.Sel) : Shape :=
  match Slice.viewBounds cols s.width, Slice.viewBounds rows s.height with
  | some (c0, c1), some (r0, r1) =>
    { s with width := c1 - c0, height := r1 - r0, start := s.offset r0 c0, end_ := s.offset (r1 - 1) c1 }
  | _, _ => Shape.zero

/-- `Layout::apply_to` (repaired: `pos.row..pos.row.saturating_add(size.height)`, same for columns) -/
def applyTo (t : LT) (s : Shape) : Shape :=
  s.view (.range t.pos.row (satAdd t.pos.row t.size.h)) (.range t.pos.col (satAdd t.pos.col t.size.w))

inductive RErr where
  | invalidLayout       -- `Err(Error::InvalidLayout)`
  deriving Repr, DecidableEq

/-- who writes: a leaf view (`id` of a probe, 0 otherwise), a face fill of flex/container, a frame border -/
inductive PKind where
  | leaf (id : Nat)
  | erase
  | frame
  deriving Repr, DecidableEq

/-- one writer: everything it writes goes through `shape` -/
structure Paint where
  kind : PKind
  shape : Shape
  deriving Repr, DecidableEq

/-- `surf.view_mut(.., start..end)` / `surf.view_mut(start..end, ..)` of `flex_render` -/
def majorStrip (dir : Axis) (s : Shape) (t : LT) : Shape :=
  match dir with
  | .hor => s.view .full (.range t.pos.col (satAdd t.pos.col t.size.w))
  | .ver => s.view (.range t.pos.row (satAdd t.pos.row t.size.h)) .full

mutual
/-- `View::render` -/
def V.render (ctx : Ctx) : V → Shape → LT → Except RErr (List Paint)
  | .text _ _, s, t => .ok [⟨.leaf 0, applyTo t s⟩]
  | .str _, s, t => .ok [⟨.leaf 0, applyTo t s⟩]
  | .glyph _ _ _, s, t => .ok [⟨.leaf 0, applyTo t s⟩]
  | .fixed id _ _, s, t => .ok [⟨.leaf id, applyTo t s⟩]
  | .image _ _, s, t => .ok [⟨.leaf 0, applyTo t s⟩]
  | .fill paints, s, t => if paints then .ok [⟨.leaf 0, applyTo t s⟩] else .ok []
  | .scrollbar dir, s, t => if dir.majorS t.size = 0 then .ok [] else .ok [⟨.leaf 0, applyTo t s⟩]
  | .optNone, _, _ => .ok []
  | .flex dir _ cs, s, t => renderKids ctx dir (applyTo t s) cs t.kids
  | .container _ _ _ _ face child, s, t =>
    match t.kids with
    | [] => .error .invalidLayout
    | k :: _ => match child.render ctx (applyTo t s) k with
      | .error e => .error e
      | .ok ps => .ok (if face then ⟨.erase, applyTo t s⟩ :: ps else ps)
  | .frame child, s, t =>
    if !ctx.hasGlyphs then child.render ctx s t
    else
      match t.kids with
      | [] => .error .invalidLayout
      | k :: _ => match child.render ctx (applyTo t s) k with
        | .error e => .error e
        | .ok ps => .ok (⟨.frame, applyTo t s⟩ :: ps)
  | .tag child, s, t =>
    match t.kids with
    | [] => .error .invalidLayout
    | k :: _ => child.render ctx (applyTo t s) k
  | .dyn _ a b, s, t =>
    -- `layout.data::<V>()`: the view built during layout
    if t.data = 1 then
      match t.kids with
      | [] => .error .invalidLayout
      | k :: _ => a.render ctx (applyTo t s) k
    else if t.data = 2 then
      match t.kids with
      | [] => .error .invalidLayout
      | k :: _ => b.render ctx (applyTo t s) k
    else .error .invalidLayout
/-- loop of `flex_render` over `children.iter().zip(layout.children())` -/
def renderKids (ctx : Ctx) (dir : Axis) (s : Shape) : List Child → List LT → Except RErr (List Paint)
  | [], _ => .ok []
  | _ :: _, [] => .ok []
  | .mk _ _ face v :: cs, t :: ts =>
    if t.size.isEmpty then renderKids ctx dir s cs ts
    else
      match v.render ctx s t with
      | .error e => .error e
      | .ok ps1 => match renderKids ctx dir s cs ts with
        | .error e => .error e
        | .ok ps2 => .ok ((if face then [⟨.erase, majorStrip dir s t⟩] else []) ++ ps1 ++ ps2)
end

/-! ## `find_path` -/

/-- the test of `FindPath::next` on one child (repaired: saturating sums) -/
def LT.contains (t : LT) (p : Pos) : Bool :=
  decide (t.pos.col ≤ p.col ∧ p.col < satAdd t.pos.col t.size.w ∧
          t.pos.row ≤ p.row ∧ p.row < satAdd t.pos.row t.size.h)

mutual
/-- `Tree::find_path(pos).collect()`: the layouts from the root down (position and size of each) -/
def LT.findPath : LT → Pos → List (Pos × Size)
  | .node p s _ kids, q => (p, s) :: findIn kids q
def findIn : List LT → Pos → List (Pos × Size)
  | [], _ => []
  | k :: ks, q =>
    if k.contains q then k.findPath ⟨q.row - k.pos.row, q.col - k.pos.col⟩ else findIn ks q
end

/-! ## line protocol -/

section Proto
open SurfModel.Proto

def showPanic : Panic → String
  | .overflow => "panic" | .clampMinGtMax => "panic" | .expectFailed => "panic" | .divZero => "panic"

/-- `Layout::data`: none, the view a `Dynamic` built (first / second), a tag or cached view -/
def showData : Nat → String
  | 0 => "-" | 1 => "a" | 2 => "b" | _ => "t"

partial def showLT : LT → String
  | .node p s d kids =>
    s!"({p.row} {p.col} {s.h} {s.w} {showData d}" ++ String.join (kids.map fun k => " " ++ showLT k) ++ ")"

/-- the fields that determine the cells of the window (`end` is redundant) -/
def showShape (s : Shape) : String := s!"{s.start},{s.width},{s.height},{s.rs},{s.cs}"

def parseAxis : String → Option Axis
  | "h" => some .hor | "v" => some .ver | _ => none
def parseJustify : String → Option Justify
  | "0" => some .start | "1" => some .center | "2" => some .end_
  | "3" => some .spaceBetween | "4" => some .spaceAround | "5" => some .spaceEvenly | _ => none
def parseAlign (s : String) : Option Align :=
  match s with
  | "s" => some .start | "c" => some .center | "e" => some .end_ | "x" => some .expand | "k" => some .shrink
  | _ => if s.startsWith "o" then (s.drop 1).toString.toInt?.map .offset else none
/-- `a/b`, `-a/b`, `inf`, `-inf`, `nan`, `big` (= `1e308`: finite, positive, far off the grid) -/
def parseF64 (s : String) : Option F64 :=
  if s == "inf" then some .pinf
  else if s == "-inf" then some .ninf
  else if s == "nan" then some .nan
  else if s == "big" then some (.fin (10 ^ 308) 1)
  else
    let (neg, body) := if s.startsWith "-" then (true, (s.drop 1).toString) else (false, s)
    match body.splitOn "/" with
    | [a, b] => do
      let a ← a.toNat?
      let b ← b.toNat?
      if b = 0 then none else pure (.fin (if neg then -(a : Int) else (a : Int)) b)
    | _ => none
/-- `-` no factor; `<v>` a factor stored as is (`FlexChild::flex`, or an already filtered positive one);
`a<v>` through the filter of `push_child_ext`; `j<v>` through the filter of `from_json_value` -/
def parseFactor (s : String) : Option (Option F64) :=
  if s == "-" then some none
  else if s.startsWith "a" then (parseF64 (s.drop 1).toString).map apiFilter
  else if s.startsWith "j" then (parseF64 (s.drop 1).toString).map jsonFilter
  else (parseF64 s).map some
def parseCh (s : String) : Option Ch :=
  match s with
  | "nl" => some .nl | "cr" => some .cr | "tab" => some .tab
  | _ => if s.startsWith "w" then (s.drop 1).toString.toNat?.map .w else none
def parseChs (s : String) : Option (List Ch) :=
  if s == "-" then some [] else (s.splitOn ".").mapM parseCh
def parseHW (s : String) : Option (Nat × Nat) :=
  match s.splitOn "x" with
  | [a, b] => do pure (← a.toNat?, ← b.toNat?)
  | _ => none
/-- `nl cr tab w<k>`, `i<h>x<w>`, `g<h>x<w>:<fallback>` -/
def parseTCell (s : String) : Option TCell :=
  if s.startsWith "i" then (parseHW (s.drop 1).toString).map fun (h, w) => .img h w
  else if s.startsWith "g" then
    match (s.drop 1).toString.splitOn ":" with
    | [hw, fb] => do
      let (h, w) ← parseHW hw
      pure (.glyph h w (← parseChs fb))
    | _ => none
  else (parseCh s).map .ch

def takeN {α} (f : String → Option α) : Nat → List String → Option (List α × List String)
  | 0, ts => some ([], ts)
  | _ + 1, [] => none
  | n + 1, t :: ts => do
    let a ← f t
    let (as, rest) ← takeN f n ts
    pure (a :: as, rest)

mutual
partial def parseV : List String → Option (V × List String)
  | "T" :: wr :: n :: ts => do
    let (cells, rest) ← takeN parseTCell (← n.toNat?) ts
    pure (.text cells (wr == "1"), rest)
  | "S" :: chs :: ts => do pure (.str (← parseChs chs), ts)
  | "G" :: hw :: fb :: ts => do
    let (h, w) ← parseHW hw
    pure (.glyph h w (← parseChs fb), ts)
  | "X" :: id :: hw :: ts => do
    let (h, w) ← parseHW hw
    pure (.fixed (← id.toNat?) h w, ts)
  | "I" :: hw :: ts => do
    let (h, w) ← parseHW hw
    pure (.image h w, ts)
  | "F" :: ts => some (.fill true, ts)
  | "U" :: ts => some (.fill false, ts)
  | "B" :: d :: ts => do pure (.scrollbar (← parseAxis d), ts)
  | "N" :: ts => some (.optNone, ts)
  | "L" :: d :: j :: n :: ts => do
    let (cs, rest) ← parseCs (← n.toNat?) ts
    pure (.flex (← parseAxis d) (← parseJustify j) cs, rest)
  | "C" :: hw :: av :: ah :: l :: r :: t :: b :: face :: ts => do
    let (h, w) ← parseHW hw
    let (c, rest) ← parseV ts
    pure (.container ⟨h, w⟩ (← parseAlign av) (← parseAlign ah) ⟨← l.toNat?, ← r.toNat?, ← t.toNat?, ← b.toNat?⟩ (face == "1") c, rest)
  | "R" :: ts => do
    let (c, rest) ← parseV ts
    pure (.frame c, rest)
  | "A" :: ts => do
    let (c, rest) ← parseV ts
    pure (.tag c, rest)
  | "D" :: thr :: ts => do
    let (a, r1) ← parseV ts
    let (b, r2) ← parseV r1
    pure (.dyn (← thr.toNat?) a b, r2)
  | _ => none
partial def parseCs : Nat → List String → Option (List Child × List String)
  | 0, ts => some ([], ts)
  | n + 1, f :: al :: face :: ts => do
    let (v, r1) ← parseV ts
    let (cs, r2) ← parseCs n r1
    pure (.mk (← parseFactor f) (← parseAlign al) (face == "1") v :: cs, r2)
  | _, _ => none
end

def showPaints (ps : List Paint) : String :=
  let probes := ps.filterMap fun p => match p.kind with
    | .leaf id => if id > 0 then some s!"{id}:{showShape p.shape}" else none
    | _ => none
  if probes.isEmpty then "-" else " ".intercalate probes

def showPath (l : List (Pos × Size)) : String :=
  " ".intercalate (l.map fun (p, s) => s!"{p.row},{p.col},{s.h},{s.w}")

/-- requests
* `layout <glyphs 0|1> <ppc h> <ppc w> <min h> <min w> <max h> <max w> <tree…>` → layout tree or `panic`
* `render <glyphs> <ppch> <ppcw> <minh> <minw> <maxh> <maxw> <shape: start,width,height,rs,cs> <tree…>`
  → the shapes handed to the probe leaves, in call order (`-` if none), `panic`, `invalid-layout`
* `imgext <ppc h> <ppc w> <image h px> <image w px> <surface h> <surface w>` → cells covered by the image cell
  `Image::render` writes into a surface of that size
* `bar <major> <n> <visible> <offset>` → the first `min major n` cells of a scroll bar of layout extent
  `major`: `1` thumb, `0` track (`ScrollBar::render`, repaired: `index >= offset.saturating_add(size)`)
* `path <glyphs> <ppch> <ppcw> <minh> <minw> <maxh> <maxw> <row> <col> <tree…>` → `find_path` chain -/
def handle : List String → String
  | "layout" :: g :: ph :: pw :: a :: b :: c :: d :: tree =>
    match ph.toNat?, pw.toNat?, a.toNat?, b.toNat?, c.toNat?, d.toNat?, parseV tree with
    | some ph, some pw, some a, some b, some c, some d, some (v, []) =>
      match v.layout ⟨g == "1", ⟨ph, pw⟩⟩ ⟨⟨a, b⟩, ⟨c, d⟩⟩ with
      | .ok t => showLT t
      | .error e => showPanic e
    | _, _, _, _, _, _, _ => "bad-op"
  | "render" :: g :: ph :: pw :: a :: b :: c :: d :: sh :: tree =>
    match ph.toNat?, pw.toNat?, a.toNat?, b.toNat?, c.toNat?, d.toNat?, natList? sh, parseV tree with
    | some ph, some pw, some a, some b, some c, some d, some [s0, s2, s3, s4, s5], some (v, []) =>
      let s1 := 0   -- `end` is not on the wire
      let ctx : Ctx := ⟨g == "1", ⟨ph, pw⟩⟩
      match v.layout ctx ⟨⟨a, b⟩, ⟨c, d⟩⟩ with
      | .error e => showPanic e
      | .ok t => match v.render ctx ⟨s0, s1, s2, s3, s4, s5⟩ t with
        | .ok ps => showPaints ps
        | .error .invalidLayout => "invalid-layout"
    | _, _, _, _, _, _, _, _ => "bad-op"
  | "path" :: g :: ph :: pw :: a :: b :: c :: d :: row :: col :: tree =>
    match ph.toNat?, pw.toNat?, a.toNat?, b.toNat?, c.toNat?, d.toNat?, row.toNat?, col.toNat?, parseV tree with
    | some ph, some pw, some a, some b, some c, some d, some row, some col, some (v, []) =>
      match v.layout ⟨g == "1", ⟨ph, pw⟩⟩ ⟨⟨a, b⟩, ⟨c, d⟩⟩ with
      | .error e => showPanic e
      | .ok t => showPath (t.findPath ⟨row, col⟩)
    | _, _, _, _, _, _, _, _, _ => "bad-op"
  | ["imgext", ppch, ppcw, ph, pw, sh, sw] =>
    match ppch.toNat?, ppcw.toNat?, ph.toNat?, pw.toNat?, sh.toNat?, sw.toNat? with
    | some a, some b, some ph, some pw, some sh, some sw =>
      let e := imageExtent ⟨a, b⟩ ph pw sh sw
      s!"{e.h} {e.w}"
    | _, _, _, _, _, _ => "bad-op"
  | ["bar", major, n, vis, off] =>
    match major.toNat?, n.toNat?, parseF64 vis, parseF64 off with
    | some major, some n, some vis, some off =>
      if major = 0 then "-" else
      let (size, o) := thumb major vis off
      let cells := (List.range (Nat.min major n)).map fun i => if i < o || i ≥ satAdd o size then '0' else '1'
      if cells.isEmpty then "-" else String.ofList cells
    | _, _, _, _ => "bad-op"
  | _ => "bad-op"

end Proto

end SurfModel.ViewLayout
