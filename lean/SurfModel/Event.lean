import SurfModel.Sgr
import SurfModel.Grammar
/-!
# The event vocabulary shared by the decoder model (`SurfModel.Payload`) and the protocol specification
(`SurfModel.Protocol`)

`Event` mirrors `TerminalEvent` (src/terminal.rs) as far as a decoder can produce it, with the enumerations it
mentions (`DecMode`, `DecModeStatus`, `ColorName`; keys are `SurfModel.Grammar.Key`, face records are C06's
`Sgr.FMod` / `Sgr.DFace`) and the canonical forms of its containers: a `BTreeMap<String, _>` is a strictly
increasing association list (`mapInsert`), a `BTreeSet<usize>` a strictly increasing list
(`Automata.sortDedup`), a `String` its UTF-8 bytes, a Latin-1 string its byte values.  No decoding logic lives
here.  (Declared in namespace `SurfModel.Payload`, where these names have always lived.)
-/
namespace SurfModel.Payload
open SurfModel.Vt SurfModel.Sgr SurfModel.Grammar

/-- `DecMode` (src/terminal.rs), in the order of the array in `DecMode::from_usize` -/
inductive DecMode where
  | visibleCursor | autoWrap | sixelScrolling | mouseReport | mouseMotions | mouseSGR | altScreen
  | synchronizedOutput | bracketedPaste
  deriving Repr, DecidableEq


inductive DecModeStatus where
  | notRecognized | enabled | disabled | permanentlyEnabled | permanentlyDisabled
  deriving Repr, DecidableEq


/-- `TerminalColor` -/
inductive ColorName where
  | background | foreground | palette (i : Nat)
  deriving Repr, DecidableEq

/-- `TerminalEvent` as far as a decoder can produce it, plus `char` (`TerminalCommand::Char`, command decoder) -/
inductive Event where
  /-- `Key(Key)` -/
  | key (k : Key)
  /-- `Mouse(Mouse { name, mode, pos })` -/
  | mouse (name : KeyName) (mode : Nat) (row col : Nat)
  /-- `CursorPosition(Position)` -/
  | cursorPosition (row col : Nat)
  /-- `Size(TerminalSize { cells, pixels })` -/
  | size (cellHeight cellWidth pixelHeight pixelWidth : Nat)
  | decMode (mode : DecMode) (status : DecModeStatus)
  /-- `KittyImage { id, placement, error }`; the message is a string (its UTF-8 bytes) -/
  | kittyImage (id : Nat) (placement : Option Nat) (error : Option (List Nat))
  | keyboardLevel (level : Nat)
  /-- `Termcap(BTreeMap<String, Option<String>>)`: strictly increasing association list, strings as Latin-1 -/
  | termcap (entries : List (List Nat × Option (List Nat)))
  /-- `DeviceAttrs(BTreeSet<usize>)`: strictly increasing list -/
  | deviceAttrs (attrs : List Nat)
  | raw (bytes : List Nat)
  | color (name : ColorName) (c : Rgba)
  | faceGet (face : DFace)
  /-- `Command(TerminalCommand::FaceModify(_))` (event decoder), `TerminalCommand::FaceModify(_)` (command decoder) -/
  | command (m : FMod)
  /-- `Paste(String)` -/
  | paste (text : List Nat)
  /-- `TerminalCommand::Char(c)` (command decoder only) -/
  | char (c : Nat)
  deriving Repr, DecidableEq

/-! ## containers -/

/-- `String` order on Latin-1 strings = lexicographic order of the byte values -/
def ltBytes : List Nat → List Nat → Bool
  | [], [] => false
  | [], _ :: _ => true
  | _ :: _, [] => false
  | a :: as, b :: bs => a < b || (a == b && ltBytes as bs)

/-- `BTreeMap::insert` on a strictly increasing association list -/
def mapInsert (k : List Nat) (v : Option (List Nat)) :
    List (List Nat × Option (List Nat)) → List (List Nat × Option (List Nat))
  | [] => [(k, v)]
  | (k', v') :: rest =>
    if ltBytes k k' then (k, v) :: (k', v') :: rest
    else if k = k' then (k, v) :: rest
    else (k', v') :: mapInsert k v rest

end SurfModel.Payload
