import SurfModel.Proto
import SurfModel.Generated.ColorTables
/-!
# Model of `color_sgr_encode` / `nearest` of `src/encoder.rs` (property C20)

Lean's `Float` is opaque to the kernel, so nothing here is stated over floats.  Every function is
polymorphic in a carrier `α` that only needs `+ - * /`, the literal `3` and a decidable `<`:

* the theorems (`SurfProofs/C20.lean`) instantiate `α` with an arbitrary linearly ordered commutative
  ring / field `K`;
* the driver instantiates `α := Int`: every `f32` value `x` the implementation uses (the 256 sRGB→linear
  values, `CUBE`, `GREYS`, the four grey levels, the luma) travels as the exact integer
  `3 · 2^scaleBits · x` (`SurfModel.Generated.ColorTables`, regenerated from the build of /repo on every
  run).  Multiplying by a positive constant changes no comparison, and the factor `3` makes the one
  division of the source, `(r + g + b) / 3.0`, exact in `Int`.

What is mirrored: `[T]::binary_search_by` (Rust ≥ 1.82 std algorithm, branch-free loop), `nearest` with
its tie rule, the cube candidate, the grey candidate, the `<` choice, the index arithmetic, the `Gray`
and `TrueColor` arms and the role prefixes.  `LinColor::distance` is `sqrt` of the squared Euclidean
distance (alpha is 1 on both sides for opaque colours); `sqrt` is strictly monotone, the model compares
the squares.  Out-of-bounds indexing (a panic / UB in the source) is the explicit outcome `none`; the
theorems show it cannot happen for non-empty tables.
-/
namespace SurfModel.Color256

section generic
variable {α : Type} [Sub α] [LT α] [DecidableLT α]

/-- `c.partial_cmp(&v).unwrap()` (no NaN in the carrier) -/
def cmp3 (c v : α) : Ordering :=
  if c < v then .lt else if v < c then .gt else .eq

/-- The loop of `binary_search_by`:
```text
while size > 1 { let half = size / 2; let mid = base + half;
                 base = if f(self[mid]) == Greater { base } else { mid }; size -= half; }
```
`fuel` is instantiated with `size`; `none` = fuel exhausted or read outside the slice (both proved
unreachable: `SurfProofs.Lemmas.Color256.bsLoop_spec`, `SurfProofs.C20.C20_search_contract`). -/
def bsLoop (vs : List α) (v : α) : (fuel base size : Nat) → Option Nat
  | 0, _, _ => none
  | fuel + 1, base, size =>
    if 1 < size then
      let half := size / 2
      let mid := base + half
      match vs[mid]? with
      | none => none
      | some c =>
        let base' := if cmp3 c v = .gt then base else mid
        bsLoop vs v fuel base' (size - half)
    else some base

/-- `Result<usize, usize>` of `binary_search_by` -/
inductive Search where
  | ok (i : Nat)
  | err (i : Nat)
  deriving Repr, DecidableEq

def binarySearch (vs : List α) (v : α) : Option Search :=
  let size := vs.length
  if size = 0 then some (.err 0)
  else
    match bsLoop vs v size 0 size with
    | none => none
    | some base =>
      match vs[base]? with
      | none => none
      | some c =>
        match cmp3 c v with
        | .eq => some (.ok base)
        | .lt => some (.err (base + 1))
        | .gt => some (.err base)

/-- `fn nearest(v: f32, vs: &[f32]) -> usize` -/
def nearest (v : α) (vs : List α) : Option Nat :=
  match binarySearch vs v with
  | none => none
  | some (.ok index) => some index
  | some (.err index) =>
    if index = 0 then some 0
    else if index ≥ vs.length then some (vs.length - 1)
    else
      match vs[index - 1]?, vs[index]? with
      | some lo, some hi => if (v - lo) < (hi - v) then some (index - 1) else some index
      | _, _ => none

end generic

section generic
variable {α : Type} [Add α] [Sub α] [Mul α]

def sqr (x : α) : α := x * x

/-- square of `LinColor::distance` between opaque colours -/
def dist2 (r g b r' g' b' : α) : α := sqr (r - r') + sqr (g - g') + sqr (b - b')

end generic

section generic
variable {α : Type} [Add α] [Sub α] [Mul α] [Div α] [OfNat α 3] [LT α] [DecidableLT α]

/-- The `EightBit` arm after the conversion to linear light: palette index for linear `r g b`. -/
def index8 (cube greys : List α) (r g b : α) : Option Nat :=
  -- colour in the colour cube
  match nearest r cube, nearest g cube, nearest b cube with
  | some cRed, some cGreen, some cBlue =>
    match cube[cRed]?, cube[cGreen]?, cube[cBlue]? with
    | some xr, some xg, some xb =>
      -- nearest grey colour
      match nearest ((r + g + b) / 3) greys with
      | some gIndex =>
        match greys[gIndex]? with
        | some x =>
          -- pick grey or cube based on the distance
          if dist2 r g b x x x < dist2 r g b xr xg xb then some (232 + gIndex)
          else some (16 + 36 * cRed + 6 * cGreen + cBlue)
        | none => none
      | none => none
    | _, _, _ => none
  | _, _, _ => none

end generic

inductive Role where
  | fg | bg | ul
  deriving Repr, DecidableEq

inductive Depth where
  | trueColor | eightBit | gray
  deriving Repr, DecidableEq

/-- `38` / `48` / `58` -/
def roleCode : Role → Nat
  | .fg => 38
  | .bg => 48
  | .ul => 58

/-- `match nearest(luma, ..) { 0 => 30, 1 => 90, 2 => 37, _ => 97 }` -/
def grayCode : Nat → Nat
  | 0 => 30
  | 1 => 90
  | 2 => 37
  | _ => 97

/-- What the implementation's environment supplies: the sRGB byte → linear light table (`rasterize`,
256 entries), `CUBE`, `GREYS`, and the literal `[0.0, 0.33, 0.66, 1.0]` of the `Gray` arm. -/
structure Env (α : Type) where
  lin : List α
  cube : List α
  greys : List α
  levels : List α

section generic
variable {α : Type} [Sub α] [LT α] [DecidableLT α]

/-- `ColorDepth::Gray` arm; `luma` is `Color::luma` of the `rasterize` crate -/
def encodeGray (levels : List α) (luma : α) (role : Role) : Option (List Nat) :=
  match nearest luma levels with
  | none => none
  | some i =>
    let index := grayCode i
    match role with
    | .fg => some [index]
    | .bg => some [index + 10]
    | .ul => some []

end generic

section generic
variable {α : Type} [Add α] [Sub α] [Mul α] [Div α] [OfNat α 3] [LT α] [DecidableLT α]

/-- `ColorDepth::TrueColor` arm: SGR parameters -/
def encodeTrue (role : Role) (r g b : Nat) : List Nat := [roleCode role, 2, r, g, b]

/-- `ColorDepth::EightBit` arm -/
def encode8 (E : Env α) (role : Role) (r g b : Nat) : Option (List Nat) :=
  match E.lin[r]?, E.lin[g]?, E.lin[b]? with
  | some lr, some lg, some lb =>
    match index8 E.cube E.greys lr lg lb with
    | some index => some [roleCode role, 5, index]
    | none => none
  | _, _, _ => none

/-- `color_sgr_encode`: the SGR parameters pushed for an opaque colour `r g b` (bytes) -/
def colorSgrEncode (E : Env α) (depth : Depth) (role : Role) (r g b : Nat) (luma : α) :
    Option (List Nat) :=
  match depth with
  | .trueColor => some (encodeTrue role r g b)
  | .eightBit => encode8 E role r g b
  | .gray => encodeGray E.levels luma role

/-- `TerminalCommand::Face` arm of `TTYEncoder::encode` for a face with both colours and no attributes:
`0`, then the foreground, then the background parameters -/
def faceParams (E : Env α) (depth : Depth) (fg bg : Nat × Nat × Nat) (lumaFg lumaBg : α) :
    Option (List Nat) :=
  match colorSgrEncode E depth .fg fg.1 fg.2.1 fg.2.2 lumaFg,
        colorSgrEncode E depth .bg bg.1 bg.2.1 bg.2.2 lumaBg with
  | some a, some b => some (0 :: (a ++ b))
  | _, _ => none

/-- `TerminalCommand::FaceModify` arm of `TTYEncoder::encode` for a modification that sets the three colours
and, if `straight`, a straight underline (no reset, no flags): foreground, background, `4`, underline
colour — in this order -/
def faceModifyParams (E : Env α) (depth : Depth) (fg bg ul : Nat × Nat × Nat) (lumaFg lumaBg lumaUl : α)
    (straight : Bool) : Option (List Nat) :=
  match colorSgrEncode E depth .fg fg.1 fg.2.1 fg.2.2 lumaFg,
        colorSgrEncode E depth .bg bg.1 bg.2.1 bg.2.2 lumaBg,
        colorSgrEncode E depth .ul ul.1 ul.2.1 ul.2.2 lumaUl with
  | some a, some b, some c => some (a ++ b ++ (if straight then [4] else []) ++ c)
  | _, _, _ => none

end generic

/-! ## the true-colour probe of `capabilities_detect` (src/unix.rs)

The library sets the background to `probeColour` with `ESC[00;48;2;1;2;3m`, asks the terminal for its rendition
(DECRQSS) and selects `TrueColor` iff the report decodes to exactly that colour.  A 256-colour terminal that
maps direct colours to its palette reports `48;5;N`, which the decoder turns into the colour of entry `N`
(`decoderPaletteRgb`).  Invariant the probe relies on (`SurfProofs.C20.C20_probe_not_palette`): the probe colour
is the colour of no palette entry. -/

/-- `face_expected = "bg=#010203"` (inline literal of the source, mirrored by hand; the harness compares it
with the bytes the terminal object really sends) -/
def probeColour : Nat × Nat × Nat := (1, 2, 3)

open SurfModel.Generated in
/-- `sgr_color`, branch `5`, of src/decoder.rs over the decoder's tables: colour of palette entry `index` -/
def decoderPaletteRgb (index : Nat) : Option (Nat × Nat × Nat) :=
  if index < 16 then ColorTables.decNamed[index]?
  else if index < 232 then
    let index := index - 16
    let ri := index / 36
    let index := index - ri * 36
    let gi := index / 6
    let index := index - gi * 6
    let bi := index
    match ColorTables.decCube[ri]?, ColorTables.decCube[gi]?, ColorTables.decCube[bi]? with
    | some r, some g, some b => some (r, g, b)
    | _, _, _ => none
  else if index < 256 then
    match ColorTables.decGreys[index - 232]? with
    | some v => some (v, v, v)
    | none => none
  else none

/-- first palette entry whose colour is `c`, if any (specification function used as an oracle through the driver) -/
def paletteIndexOf (c : Nat × Nat × Nat) : Option Nat :=
  (List.range 256).find? fun i => decoderPaletteRgb i == some c

/-! ## execution over scaled integers -/

open SurfModel.Generated in
/-- `f32` literals `0.0, 0.33, 0.66, 1.0`: `0.33f32 = 11072963 · 2⁻²⁵`, `0.66f32 = 11072963 · 2⁻²⁴`;
scaled like every other value by `3 · 2^scaleBits` (`scaleBits ≥ 25`). -/
def levelsInt : List Int :=
  let u : Int := 3 * 2 ^ (ColorTables.scaleBits - 25)
  [0, 11072963 * u, 2 * 11072963 * u, 2 ^ 25 * u]

open SurfModel.Generated in
def envInt : Env Int :=
  { lin := ColorTables.lin, cube := ColorTables.cube, greys := ColorTables.greys, levels := levelsInt }

/-! ## line protocol -/

open SurfModel.Proto

def parseRole : String → Option Role
  | "fg" => some .fg
  | "bg" => some .bg
  | "ul" => some .ul
  | _ => none

/-- `impl FromStr for ColorDepth` (src/encoder.rs): ASCII lower-casing, then exactly the documented spellings -/
def colorDepthFromStr (s : String) : Option Depth :=
  let lower := String.ofList (s.toList.map fun c => if 'A' ≤ c ∧ c ≤ 'Z' then Char.ofNat (c.toNat + 32) else c)
  if lower == "truecolor" || lower == "24" then some .trueColor
  else if lower == "256" || lower == "8" then some .eightBit
  else if lower == "gray" || lower == "2" then some .gray
  else none

def parseDepth : String → Option Depth
  | "true" => some .trueColor
  | "8bit" => some .eightBit
  | "gray" => some .gray
  | _ => none

def showParams : Option (List Nat) → String
  | none => "panic"
  | some [] => "-"
  | some l => ";".intercalate (l.map toString)

def intList? (s : String) : Option (List Int) :=
  if s == "-" then some [] else (s.splitOn ",").mapM (·.toInt?)

def idxOf (r g b : Nat) : Option Nat :=
  match encode8 envInt .fg r g b with
  | some [_, _, i] => some i
  | _ => none

def hexByte (n : Nat) : List Char := [hexNib (n / 16 % 16), hexNib (n % 16)]

def showIdx : Option Nat → List Char
  | some i => if i < 256 then hexByte i else ['!', '!']
  | none => ['!', '!']

def idxTriples : List UInt8 → List Char → List Char
  | r :: g :: b :: rest, acc => idxTriples rest ((showIdx (idxOf r.toNat g.toNat b.toNat)).reverse ++ acc)
  | _, acc => acc.reverse

def rowLoop (r g : Nat) (skip : List Nat) : (fuel b : Nat) → List Char → List Char
  | 0, _, acc => acc.reverse
  | fuel + 1, b, acc =>
    if skip.contains b then rowLoop r g skip fuel (b + 1) acc
    else rowLoop r g skip fuel (b + 1) ((showIdx (idxOf r g b)).reverse ++ acc)

def nonEmptyHex (cs : List Char) : String := if cs.isEmpty then "-" else String.ofList cs

/--
* `nearest <v> <t0,t1,…>` (integers) → `some i` | `panic`
* `sgr <true|8bit|gray> <fg|bg|ul> <r> <g> <b> <luma>` → SGR parameters joined by `;` (`-` = none);
  `luma` is the implementation's `f32` luma as the integer `3 · 2^scaleBits · luma`
* `face <depth> <r g b of fg> <r g b of bg> <luma fg> <luma bg>` → parameters of the `Face` command
* `fmod <depth> <fg r g b> <bg r g b> <underline r g b> <luma fg> <luma bg> <luma ul> <0|1>` → parameters of a
  `FaceModify` setting the three colours (and a straight underline if `1`)
* `probe <r> <g> <b>` → `probe` iff this is the model's true-colour probe colour; `probe-in-palette <r> <g> <b>` →
  `outside` or `entry N` (the decoder's palette)
* `depth-parse <hex of a UTF-8 string>` → `true` | `8bit` | `gray` | `error` (`ColorDepth::from_str`)
* `idx8 <hex of r g b triples>` → hex of the palette indices
* `row8 <r> <g> <b values to skip, hex>` → hex of the palette indices of `(r, g, b)` for every other `b`
* `graylv <l0,l1,…>` → one digit per luma: the index chosen among the four levels
-/
def handle : List String → String
  | ["nearest", v, t] =>
    match v.toInt?, intList? t with
    | some v, some t => match nearest v t with
      | some i => s!"some {i}"
      | none => "panic"
    | _, _ => "bad-op"
  | ["sgr", d, role, r, g, b, luma] =>
    match parseDepth d, parseRole role, r.toNat?, g.toNat?, b.toNat?, luma.toInt? with
    | some d, some role, some r, some g, some b, some luma =>
      showParams (colorSgrEncode envInt d role r g b luma)
    | _, _, _, _, _, _ => "bad-op"
  | ["face", d, r, g, b, r', g', b', lf, lb] =>
    match parseDepth d, [r, g, b, r', g', b'].mapM (·.toNat?), lf.toInt?, lb.toInt? with
    | some d, some [r, g, b, r', g', b'], some lf, some lb =>
      showParams (faceParams envInt d (r, g, b) (r', g', b') lf lb)
    | _, _, _, _ => "bad-op"
  | ["fmod", d, r, g, b, r', g', b', r'', g'', b'', lf, lb, lu, st] =>
    match parseDepth d, [r, g, b, r', g', b', r'', g'', b''].mapM (·.toNat?), lf.toInt?, lb.toInt?, lu.toInt? with
    | some d, some [r, g, b, r', g', b', r'', g'', b''], some lf, some lb, some lu =>
      showParams (faceModifyParams envInt d (r, g, b) (r', g', b') (r'', g'', b'') lf lb lu (st == "1"))
    | _, _, _, _, _ => "bad-op"
  | ["probe", r, g, b] =>
    match r.toNat?, g.toNat?, b.toNat? with
    | some r, some g, some b => if (r, g, b) == probeColour then "probe" else "other"
    | _, _, _ => "bad-op"
  | ["probe-in-palette", r, g, b] =>
    match r.toNat?, g.toNat?, b.toNat? with
    | some r, some g, some b => match paletteIndexOf (r, g, b) with
      | none => "outside"
      | some i => s!"entry {i}"
    | _, _, _ => "bad-op"
  | ["depth-parse", h] =>
    match unhex h with
    | some bs => match String.fromUTF8? (ByteArray.mk bs.toArray) with
      | some text => match colorDepthFromStr text with
        | some .trueColor => "true"
        | some .eightBit => "8bit"
        | some .gray => "gray"
        | none => "error"
      | none => "bad-op"
    | none => "bad-op"
  | ["idx8", h] =>
    match unhex h with
    | some bs => nonEmptyHex (idxTriples bs [])
    | none => "bad-op"
  | ["row8", r, g, skip] =>
    match r.toNat?, g.toNat?, unhex skip with
    | some r, some g, some skip => nonEmptyHex (rowLoop r g (skip.map (·.toNat)) 256 0 [])
    | _, _, _ => "bad-op"
  | ["graylv", ls] =>
    match intList? ls with
    | some ls => String.ofList (ls.map fun l => match nearest l levelsInt with
      | some i => Char.ofNat (48 + i)
      | none => '!')
    | none => "bad-op"
  | _ => "bad-op"

end SurfModel.Color256
