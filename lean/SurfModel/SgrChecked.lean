import SurfModel.Sgr
/-!
# C02 — the table look-ups of `sgr_color` / `sgr_face` with their panics explicit

`SurfModel.Sgr` (C06) reads the colour tables with `table[i]?` and maps over the option, which silently turns
an out-of-range index into "no colour"; the Rust code indexes `COLORS[index]`, `CUBE[ri]`, `GREYS[index - 232]`,
`COLORS[v - 30]` … directly and would panic.  This file repeats the parts of `sgr_color` and `sgr_face` that touch
a table with `Except`-valued indexing (`tableGet`: `.error ()` is the index-out-of-bounds panic): the checked functions perform exactly the look-ups
the code performs in the branch taken and otherwise return what `SurfModel.Sgr` computes (the rest of the
computation and the advancing of the parameter iterator involve no table).
`SurfProofs.Lemmas.SgrChecked` proves that the panic outcome is unreachable (from the lengths of the regenerated
tables) and that the checked functions agree with C06's, so that everything C06 and C04 state about `sgrFace`
is a statement about panic-free code.
-/
namespace SurfModel.SgrChecked
open SurfModel.Sgr SurfModel.Vt

/-- `TABLE[i]` -/
def tableGet {α : Type} (t : List α) (i : Nat) : Except Unit α :=
  match t[i]? with
  | some x => .ok x
  | none => .error ()

/-- the 256-colour branch of `sgr_color` -/
def paletteChecked (index : Nat) : Except Unit (Option Rgba) :=
  if index < 16 then
    match tableGet Generated.colors16 index with
    | .ok t => .ok (some (colorOf t))
    | .error e => .error e
  else if index < 232 then
    let index := index - 16
    let ri := index / 36
    let index := index - ri * 36
    let gi := index / 6
    let bi := index - gi * 6
    match tableGet Generated.cube6 ri, tableGet Generated.cube6 gi, tableGet Generated.cube6 bi with
    | .ok r, .ok g, .ok b => .ok (some ⟨r, g, b, 255⟩)
    | _, _, _ => .error ()
  else if index < 256 then
    match tableGet Generated.greys24 (index - 232) with
    | .ok v => .ok (some ⟨v, v, v, 255⟩)
    | .error e => .error e
  else .ok none

/-- the table look-ups `sgr_color` performs (only the `5` branch reads a table): `.error ()` when one of them
    is out of range -/
def sgrColorLookups (cmds : List (List Nat)) : Except Unit Unit :=
  match cmds with
  | [] => .ok ()
  | c0 :: rest =>
    if numberDecode c0 = some 5 then
      match rest with
      | [] => .ok ()
      | c1 :: _ =>
        match numberDecode c1 with
        | none => .ok ()
        | some index =>
          match paletteChecked index with
          | .ok _ => .ok ()
          | .error e => .error e
    else .ok ()

/-- `sgr_color` with its table look-ups checked -/
def sgrColorChecked (cmds : List (List Nat)) (colon : Bool) : Except Unit (Option Rgba) :=
  match sgrColorLookups cmds with
  | .error e => .error e
  | .ok () => .ok (sgrColor cmds colon).1

/-- named colour `COLORS[i]` -/
def namedLookup (i : Nat) : Except Unit Unit :=
  match tableGet Generated.colors16 i with
  | .ok _ => .ok ()
  | .error e => .error e

/-- the table look-ups one iteration of the loop of `sgr_face` performs: the colour thunk for 38 / 48 / 58
    (iterator of the remaining groups when the group has no `:`, else its own arguments), `COLORS[v - 30]`,
    `COLORS[v - 82]`, `COLORS[v - 40]`, `COLORS[v - 92]` for the named colours -/
def sgrFaceStepLookups (group : List Nat) (rest : List (List Nat)) : Except Unit Unit :=
  let args := splitBy 58 group
  let cmd := match args with | [] => none | a :: _ => numberDecode a
  let argsRest := args.drop 1
  match cmd with
  | none => .ok ()
  | some v =>
    if v = 38 ∨ v = 48 ∨ v = 58 then
      (if argsRest.isEmpty then sgrColorLookups rest else sgrColorLookups argsRest)
    else if 30 ≤ v ∧ v ≤ 37 then namedLookup (v - 30)
    else if 90 ≤ v ∧ v ≤ 97 then namedLookup (v - 82)
    else if 40 ≤ v ∧ v ≤ 47 then namedLookup (v - 40)
    else if 100 ≤ v ∧ v ≤ 107 then namedLookup (v - 92)
    else .ok ()

/-- one iteration of the loop of `sgr_face` with its table look-ups checked -/
def sgrFaceStepChecked (face : FMod) (group : List Nat) (rest : List (List Nat)) : Except Unit FMod :=
  match sgrFaceStepLookups group rest with
  | .error e => .error e
  | .ok () => .ok (sgrFaceStep face group rest).1

/-- the loop of `sgr_face` -/
def sgrFaceLoopChecked (face : FMod) (groups : List (List Nat)) : Except Unit FMod :=
  match groups with
  | [] => .ok face
  | group :: rest =>
    match sgrFaceStepChecked face group rest with
    | .error e => .error e
    | .ok f => sgrFaceLoopChecked f (sgrFaceStep face group rest).2
termination_by groups.length
decreasing_by
  have := sgrFaceStep_length face group rest
  simp only [List.length_cons]
  omega

/-- `sgr_face(data)` with every table index checked -/
def sgrFaceChecked (data : List Nat) : Except Unit FMod := sgrFaceLoopChecked {} (splitBy 59 data)

end SurfModel.SgrChecked
