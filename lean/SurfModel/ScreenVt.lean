import SurfModel.Screen
import SurfModel.Vt
/-!
C01 ∘ C05 — a byte-level terminal.

`SurfModel.Screen.exec` gives the four text commands of the renderer (`Face`, `CursorTo`, `Char`,
`EraseChars`) a meaning directly.  Here the same terminal is built one level lower: `BScreen` holds
cells carrying a full SGR attribute state (`Vt.Attr`) instead of a face identifier, and `execOp`
executes the operations (`Vt.Op`) that the reference VT interpreter of C05 (`Vt.interp`) reads from a
byte stream: print (narrow / wide / zero width, by the same `width` parameter), CUP with one-based
coordinates, ECH with the "absent or 0 means 1" rule, SGR folded with `Vt.applySgr`.  All other
operations are NOT modelled (they leave this terminal as it is); the renderer's text commands never
produce them.  Overwriting half of a wide character orphans the other half, exactly as in
`Screen.exec`.  Image commands stay abstract (`imageOp`, placements only).
-/
namespace SurfModel.ScreenVt
open SurfModel.Screen SurfModel.Vt

/-- what one cell of the byte-level terminal holds -/
inductive BCell where
  | glyph (cp : Nat) (a : Attr)
  | cont
  | orphan
  /-- erased (ECH) while the attribute state was `a`; only the background of `a` is visible -/
  | erased (a : Attr)
deriving DecidableEq

structure BScreen where
  grid : Nat → Nat → BCell
  cur : Nat × Nat
  attr : Attr
  place : Nat → Nat → Option Nat

def bclobber (g : Nat → Nat → BCell) (r a b : Nat) : Nat → Nat → BCell := fun r' c' =>
  if r' = r then
    if c' + 1 = a ∧ g r a = .cont then .orphan
    else if c' = b ∧ g r b = .cont then .orphan
    else g r' c'
  else g r' c'

def bfillRow (g : Nat → Nat → BCell) (r a b : Nat) (v : BCell) : Nat → Nat → BCell := fun r' c' =>
  if r' = r ∧ a ≤ c' ∧ c' < b then v else g r' c'

def bsetCell (g : Nat → Nat → BCell) (r c : Nat) (v : BCell) : Nat → Nat → BCell := fun r' c' =>
  if r' = r ∧ c' = c then v else g r' c'

/-- one operation of the VT interpreter on the byte-level terminal -/
def execOp (width : Nat → Nat) (b : BScreen) : Op → BScreen
  | .print cp =>
    let r := b.cur.1
    let c := b.cur.2
    if width cp ≥ 2 then
      { b with
        grid := bsetCell (bsetCell (bclobber b.grid r c (c + 2)) r c (.glyph cp b.attr)) r (c + 1) .cont
        cur := (r, c + 2) }
    else if width cp = 1 then
      { b with grid := bsetCell (bclobber b.grid r c (c + 1)) r c (.glyph cp b.attr), cur := (r, c + 1) }
    else b
  | .cup row col =>
    -- CUP is one-based; line / column 0 cannot be produced by the parser (`count1`), it is read as 1
    { b with cur := (row - 1, col - 1) }
  | .ech n =>
    -- the cursor does not move; a count of 0 means 1
    let n := max n 1
    let r := b.cur.1
    let c := b.cur.2
    { b with grid := bfillRow (bclobber b.grid r c (c + n)) r c (c + n) (.erased b.attr) }
  | .sgr ops => { b with attr := ops.foldl applySgr b.attr }
  | _ => b

/-- attribute state selected by `Face` from scratch (SGR 0 first, then the selections) -/
def attrOf (d : Depth) (f : Face) : Attr := (faceMeaning f d).foldl applySgr Attr.default

/-- no attribute that is visible on a blank cell -/
def plainAttr (a : Attr) : Bool := a.under == 0 && !a.reverse && !a.strike

/-- the command the renderer hands to `Terminal::execute` → the command `TTYEncoder` encodes;
`none`: image commands (not encoded by `TTYEncoder`, they stay abstract) -/
def toVt (faceOf : Nat → Face) : Screen.Cmd → Option Vt.Cmd
  | .face f => some (.face (faceOf f))
  | .cursorTo r c => some (.cursorTo r c)
  | .char ch => some (.char ch)
  | .erase n => some (.eraseChars n)
  | .image _ _ _ => none
  | .imageErase _ _ _ => none

/-- image commands on the placements (as in `Screen.exec`) -/
def imageOp (b : BScreen) : Screen.Cmd → BScreen
  | .image i r c => { b with place := fun r' c' => if r' = r ∧ c' = c then some i else b.place r' c' }
  | .imageErase i r c =>
    { b with place := fun r' c' => if r' = r ∧ c' = c ∧ b.place r c = some i then none else b.place r' c' }
  | _ => b

/-- what the terminal receives: byte strings (the concatenated encodings of consecutive text
commands) interleaved with abstract image commands -/
inductive Chunk where
  | bytes (bs : List Nat)
  | img (c : Screen.Cmd)
deriving DecidableEq

/-- the output stream of a command list: consecutive text commands are ONE byte string -/
def chunks (caps : Caps) (faceOf : Nat → Face) : List Screen.Cmd → List Chunk
  | [] => []
  | c :: cs =>
    match toVt faceOf c with
    | none => .img c :: chunks caps faceOf cs
    | some v =>
      match chunks caps faceOf cs with
      | .bytes bs :: rest => .bytes (encode caps v ++ bs) :: rest
      | rest => .bytes (encode caps v) :: rest

/-- the terminal reads a chunk: a byte string is parsed by the reference interpreter from its ground
state (`none` if it ends inside a control sequence) and the operations are executed in order -/
def runChunk (width : Nat → Nat) (b : BScreen) : Chunk → Option BScreen
  | .bytes bs => (interp bs).map fun ops => ops.foldl (execOp width) b
  | .img c => some (imageOp b c)

def runChunks (width : Nat → Nat) : BScreen → List Chunk → Option BScreen
  | b, [] => some b
  | b, ch :: rest =>
    match runChunk width b ch with
    | some b' => runChunks width b' rest
    | none => none

end SurfModel.ScreenVt
