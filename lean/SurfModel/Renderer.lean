import SurfModel.Proto
import SurfModel.Screen
/-!
C01 — model of `TerminalRenderer::{new, clear, frame}` (`/repo/src/render.rs`), branch by branch.

State kept between frames: terminal size, the back surface and the marks (`front` is handed to `frame`
as the surface the application drew: the code clears it to default cells after every frame and a
skipped frame only clears it again, so `frame st s` with the complete front content `s` is exact).
Surfaces and marks are total functions; positions outside `h × w` are never read, therefore the
clipping of `view_mut(..).fill(..)` needs no counterpart.  The glyph cache is a memo of the pure
function `Params.raster` and is not modelled.  `frame_count` is not modelled.
-/
namespace SurfModel.Renderer
open SurfModel.Screen

inductive Mark where
  | empty
  | ignored
  | damaged
deriving DecidableEq, Repr, Inhabited

structure State where
  h : Nat
  w : Nat
  back : Surface
  marks : Nat → Nat → Mark

/-- `Cell::default()` -/
def defaultCell : Cell := ⟨0, .chr 32⟩
/-- `Cell::new_char(Face::default(), '\0')` -/
def nulCell : Cell := ⟨0, .chr 0⟩

/-- `TerminalRenderer::new(term, clear)` -/
def new (h w : Nat) (clear : Bool) : State :=
  { h := h, w := w, back := fun _ _ => defaultCell
    marks := fun _ _ => if clear then .damaged else .empty }

/-- `marks.view_mut(r..r+sz.height, c..c+sz.width).fill(v)` -/
def fillRect (m : Nat → Nat → Mark) (r c : Nat) (sz : Nat × Nat) (v : Mark) : Nat → Nat → Mark :=
  fun r' c' => if r ≤ r' ∧ r' < r + sz.1 ∧ c ≤ c' ∧ c' < c + sz.2 then v else m r' c'

def setSurf (s : Surface) (r c : Nat) (v : Cell) : Surface :=
  fun r' c' => if r' = r ∧ c' = c then v else s r' c'

/-- `TerminalRenderer::clear`: erase every image of the back surface, damage everything -/
def clearCmds (st : State) : List Cmd :=
  (allPos st.h st.w).filterMap fun p =>
    match (st.back p.1 p.2).kind with
    | .img i => some (.imageErase i p.1 p.2)
    | _ => none

def clear (st : State) : State :=
  { st with marks := fun _ _ => .damaged, back := fun _ _ => defaultCell }

/-! ## first pass -/

structure P1 where
  front : Surface
  marks : Nat → Nat → Mark
  shadow : Nat × Nat
  cmds : List Cmd
  images : List (Nat × Nat × Nat × Nat)   -- row, column, face, image

/-- cell after the shadow normalisation, and the new value of `shadow` -/
def normalise (P : Params) (x : P1) (r c : Nat) : Cell × (Nat × Nat) :=
  if r = x.shadow.1 ∧ c < x.shadow.2 then (nulCell, x.shadow)
  else if x.marks r c = .ignored then (x.front r c, x.shadow)
  else match (x.front r c).kind with
    | .chr ch => if P.width ch > 1 then (x.front r c, (r, c + P.width ch)) else (x.front r c, x.shadow)
    | _ => (x.front r c, x.shadow)

/-- replace a glyph by its image -/
def rasterise (P : Params) (c : Cell) : Cell :=
  match c.kind with
  | .gly g => { c with kind := .img (P.raster c.face g) }
  | _ => c

/-- body of the first loop of `frame` at position `(r, c)` -/
def step1 (P : Params) (back : Surface) (x : P1) (r c : Nat) : P1 :=
  let n := normalise P x r c
  let cell := rasterise P n.1
  let front := setSurf x.front r c cell
  let old := back r c
  if old = cell ∧ x.marks r c ≠ .damaged then
    match cell.kind with
    | .img i => { x with front := front, shadow := n.2, marks := fillRect x.marks r c (P.size i) .ignored }
    | _ => { x with front := front, shadow := n.2 }
  else
    let m1 := match old.kind with
      | .img i => fillRect x.marks r c (P.size i) .damaged
      | _ => x.marks
    let c1 := match old.kind with
      | .img i => x.cmds ++ [Cmd.imageErase i r c]
      | _ => x.cmds
    match cell.kind with
    | .img i =>
      { front := front, shadow := n.2, cmds := c1
        marks := fillRect m1 r c (P.size i) .ignored
        images := x.images ++ [(r, c, cell.face, i)] }
    | _ => { front := front, shadow := n.2, cmds := c1, marks := m1, images := x.images }

def pass1Row (P : Params) (back : Surface) (W : Nat) (x : P1) (r : Nat) : P1 :=
  (List.range W).foldl (fun x c => step1 P back x r c) x

def pass1 (P : Params) (st : State) (s : Surface) : P1 :=
  (List.range st.h).foldl (pass1Row P st.back st.w)
    { front := s, marks := st.marks, shadow := (0, 0), cmds := [], images := [] }

/-! ## second pass -/

/-- what the renderer believes about the terminal: cursor (starts at an impossible position) and face -/
structure Tr where
  cur : Nat × Nat
  face : Option Nat

def Tr.init : Tr := { cur := (123456, 654123), face := none }

def faceCmd (t : Tr) (f : Nat) : List Cmd := if t.face = some f then [] else [.face f]
def curCmd (t : Tr) (p : Nat × Nat) : List Cmd := if t.cur = p then [] else [.cursorTo p.1 p.2]

/-- number of cells from `col` on that equal `c` and are not ignored -/
def run (new : Nat → Cell) (mk : Nat → Mark) (c : Cell) (W : Nat) (col : Nat) : Nat :=
  if col < W then
    if new col = c ∧ mk col ≠ .ignored then 1 + run new mk c W (col + 1) else 0
  else 0
termination_by W - col

/-- inner `while pos.col < width` loop of the second pass on row `r` -/
def paintRow (P : Params) (old new : Nat → Cell) (mk : Nat → Mark) (W r : Nat) (col : Nat) (t : Tr) :
    List Cmd × Tr :=
  if col < W then
    if mk col ≠ .damaged ∧ (mk col = .ignored ∨ old col = new col) then
      paintRow P old new mk W r (col + 1) t
    else
      match (new col).kind with
      | .chr ch =>
        if P.width ch = 0 then paintRow P old new mk W r (col + 1) t
        else
          let f := (new col).face
          let pre := faceCmd t f ++ curCmd t (r, col)
          if ch = 32 then
            let rep := 1 + run new mk (new col) W (col + 1)
            if rep > 4 ∧ P.plain f then
              let q := paintRow P old new mk W r (col + rep) { cur := (r, col), face := some f }
              (pre ++ [.erase rep] ++ q.1, q.2)
            else
              let q := paintRow P old new mk W r (col + rep) { cur := (r, col + rep), face := some f }
              (pre ++ List.replicate rep (.char 32) ++ q.1, q.2)
          else
            let q := paintRow P old new mk W r (col + P.width ch) { cur := (r, col + P.width ch), face := some f }
            (pre ++ [.char ch] ++ q.1, q.2)
      | _ => paintRow P old new mk W r (col + 1) t
  else ([], t)
termination_by W - col
decreasing_by all_goals omega

def pass2 (P : Params) (old new : Surface) (mk : Nat → Nat → Mark) (H W : Nat) : List Cmd :=
  ((List.range H).foldl
    (fun (acc : List Cmd × Tr) r =>
      let q := paintRow P (old r) (new r) (mk r) W r 0 acc.2
      (acc.1 ++ q.1, q.2))
    ([], Tr.init)).1

/-! ## image pass -/

def imageCmds (P : Params) (im : Nat × Nat × Nat × Nat) : List Cmd :=
  let r := im.1
  let c := im.2.1
  let f := im.2.2.1
  let i := im.2.2.2
  [Cmd.face f] ++
  ((List.range (P.size i).1).flatMap fun k => [Cmd.cursorTo (r + k) c, Cmd.erase (P.size i).2]) ++
  [Cmd.cursorTo r c, Cmd.image i r c]

structure FrameOut where
  state : State
  cmds : List Cmd

/-- `TerminalRenderer::frame` with front surface `s` -/
def frame (P : Params) (st : State) (s : Surface) : FrameOut :=
  let p1 := pass1 P st s
  let c2 := pass2 P st.back p1.front p1.marks st.h st.w
  let c3 := p1.images.flatMap (imageCmds P)
  { state := { st with back := p1.front, marks := fun _ _ => .empty }
    cmds := p1.cmds ++ c2 ++ c3 }

/-! ## histories -/

/-- What can happen between two polls of `Terminal::run_render`: a rendered frame, a skipped frame
(the front surface is reset, nothing is sent), a forced `clear()`, and the resize path
`renderer.clear(term); renderer = TerminalRenderer::new(term, true)`. -/
inductive Step where
  | frame (s : Surface)
  | skip
  | clear
  | recreate

def stepCmds (P : Params) (st : State) : Step → State × List Cmd
  | .frame s => ((frame P st s).state, (frame P st s).cmds)
  | .skip => (st, [])
  | .clear => (clear st, clearCmds st)
  | .recreate => (new st.h st.w true, clearCmds st)

/-- one step of a history against a terminal that executes exactly the commands issued -/
def runStep (P : Params) (x : State × Screen) (st : Step) : State × Screen :=
  ((stepCmds P x.1 st).1, execAll P x.2 (stepCmds P x.1 st).2)

def runSteps (P : Params) (x : State × Screen) (l : List Step) : State × Screen := l.foldl (runStep P) x

/-! ## line protocol

`hist H W clear0 widths sizes rasters nonplain-faces alphabet step…` → command lists of the steps joined by `|`
`exec H W clear0 widths sizes rasters nonplain-faces alphabet init step=cmds…` → `ok` when after every frame the
reference terminal that executed the given commands equals `display` of the drawn surface, else
`fail <index of the step>`.
-/

open SurfModel.Proto

def lookup2 (l : List (Nat × Nat)) (d : Nat) (k : Nat) : Nat :=
  match l.find? (·.1 == k) with
  | some p => p.2
  | none => d

def parseNats (sep : String) (s : String) : Option (List Nat) := (s.splitOn sep).mapM (·.toNat?)

def parseTable (s : String) : Option (List (List Nat)) :=
  if s == "-" then some [] else (s.splitOn ",").mapM (parseNats ":")

def mkParams (ws ss rs : List (List Nat)) (np : List Nat) : Params :=
  { width := fun ch => match ws.find? (fun e => e.head? == some ch) with
      | some [_, w] => w
      | _ => 1
    size := fun i => match ss.find? (fun e => e.head? == some i) with
      | some [_, h, w] => (h, w)
      | _ => (1, 1)
    raster := fun f g => match rs.find? (fun e => e.take 2 == [f, g]) with
      | some [_, _, i] => i
      | _ => 0
    plain := fun f => !np.contains f }

def parseCellSpec : List String → Option Cell
  | [f, "c", n] => do pure ⟨← f.toNat?, .chr (← n.toNat?)⟩
  | [f, "i", n] => do pure ⟨← f.toNat?, .img (← n.toNat?)⟩
  | [f, "g", n] => do pure ⟨← f.toNat?, .gly (← n.toNat?)⟩
  | _ => none

def parseAlphabet (s : String) : Option (Array Cell) :=
  ((s.splitOn ",").mapM fun e => parseCellSpec (e.splitOn ":")).map List.toArray

def symIndex (c : Char) : Nat :=
  if 'a' ≤ c ∧ c ≤ 'z' then c.toNat - 'a'.toNat
  else if 'A' ≤ c ∧ c ≤ 'Z' then c.toNat - 'A'.toNat + 26
  else c.toNat - '0'.toNat + 52

def parseSurface (alpha : Array Cell) (W : Nat) (s : String) : Surface :=
  let cells : Array Cell := (s.toList.map fun ch => alpha.getD (symIndex ch) defaultCell).toArray
  fun r c => if c < W then cells.getD (r * W + c) defaultCell else defaultCell

def showCmd : Cmd → String
  | .face f => s!"f{f}"
  | .cursorTo r c => s!"m{r}.{c}"
  | .char ch => s!"c{ch}"
  | .erase n => s!"e{n}"
  | .image i r c => s!"i{i}.{r}.{c}"
  | .imageErase i r c => s!"x{i}.{r}.{c}"

def showCmds (l : List Cmd) : String :=
  if l.isEmpty then "-" else ",".intercalate (l.map showCmd)

def parseCmd (s : String) : Option Cmd :=
  match s.toList with
  | [] => none
  | k :: rest =>
    match parseNats "." (String.ofList rest) with
    | none => none
    | some ns =>
      match k, ns with
      | 'f', [f] => some (.face f)
      | 'm', [r, c] => some (.cursorTo r c)
      | 'c', [ch] => some (.char ch)
      | 'e', [n] => some (.erase n)
      | 'i', [i, r, c] => some (.image i r c)
      | 'x', [i, r, c] => some (.imageErase i r c)
      | _, _ => none

def parseCmds (s : String) : Option (List Cmd) :=
  if s == "-" then some [] else (s.splitOn ",").mapM parseCmd

def parseStep (alpha : Array Cell) (W : Nat) (s : String) : Option Step :=
  match s.toList with
  | 'F' :: rest => some (.frame (parseSurface alpha W (String.ofList rest)))
  | ['S'] => some .skip
  | ['C'] => some .clear
  | ['R'] => some .recreate
  | _ => none

structure Header where
  H : Nat
  W : Nat
  clear0 : Bool
  P : Params
  alpha : Array Cell

def parseHeader : List String → Option (Header × List String)
  | h :: w :: c0 :: ws :: ss :: rs :: np :: al :: rest => do
    let P := mkParams (← parseTable ws) (← parseTable ss) (← parseTable rs) (← natList? np)
    pure ({ H := ← h.toNat?, W := ← w.toNat?, clear0 := c0 == "1", P := P, alpha := ← parseAlphabet al }, rest)
  | _ => none

def runHist (P : Params) : State → List Step → List String → List String
  | _, [], acc => acc.reverse
  | st, s :: rest, acc =>
    let q := stepCmds P st s
    runHist P q.1 rest (showCmds q.2 :: acc)

/-- decidable comparison of the visible content -/
def screenEqB (H W : Nat) (a b : Screen) : Bool :=
  (allPos H W).all fun p => a.grid p.1 p.2 == b.grid p.1 p.2 && a.place p.1 p.2 == b.place p.1 p.2

/-- rebuild a screen from a table of its visible part (keeps evaluation cheap in long histories) -/
def compact (H W : Nat) (s : Screen) : Screen :=
  let g : Array SCell := ((allPos H W).map fun p => s.grid p.1 p.2).toArray
  let pl : Array (Option Nat) := ((allPos H W).map fun p => s.place p.1 p.2).toArray
  { s with
    grid := fun r c => if r < H ∧ c < W then g.getD (r * W + c) .orphan else .glyph 32 0
    place := fun r c => if r < H ∧ c < W then pl.getD (r * W + c) none else none }

def runExec (hd : Header) : Screen → Nat → List String → String
  | _, _, [] => "ok"
  | scr, k, tok :: rest =>
    match tok.splitOn "=" with
    | [st] =>
      if st == "S" then runExec hd scr (k + 1) rest else s!"bad-step {k}"
    | [st, cs] =>
      match parseCmds cs with
      | none => s!"bad-cmds {k}"
      | some cmds =>
        let scr' := compact hd.H hd.W (execAll hd.P scr cmds)
        match st.toList with
        | 'F' :: sf =>
          let s := parseSurface hd.alpha hd.W (String.ofList sf)
          if screenEqB hd.H hd.W scr' (display hd.P hd.H hd.W s) then runExec hd scr' (k + 1) rest
          else s!"fail {k}"
        | _ => runExec hd scr' (k + 1) rest
    | _ => s!"bad-step {k}"

def handle : List String → String
  | "hist" :: rest =>
    match parseHeader rest with
    | none => "bad-op"
    | some (hd, steps) =>
      match steps.mapM (parseStep hd.alpha hd.W) with
      | none => "bad-op"
      | some ss => "|".intercalate (runHist hd.P (new hd.H hd.W hd.clear0) ss [])
  | "exec" :: rest =>
    match parseHeader rest with
    | none => "bad-op"
    | some (hd, init :: steps) =>
      let scr0 : Screen := match init.toList with
        | 'G' :: g =>
          { display hd.P hd.H hd.W (parseSurface hd.alpha hd.W (String.ofList g)) with cur := (7, 7), face := 1 }
        | _ => blank
      runExec hd (compact hd.H hd.W scr0) 0 steps
    | some (_, []) => "bad-op"
  | "wp" :: rest =>
    match parseHeader rest with
    | some (hd, [s]) =>
      if wellPlacedB hd.P hd.H hd.W (parseSurface hd.alpha hd.W s) then "true" else "false"
    | _ => "bad-op"
  | _ => "bad-op"

end SurfModel.Renderer
