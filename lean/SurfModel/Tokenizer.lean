import SurfModel.Proto
/-!
Model of the incremental tokenizer of `src/decoder.rs` (`MatcherDecoder`: `decode`, `decode_byte`,
`take_candidate`, the `rescheduled` vector, candidate tracking; `Decoder::decode_into`) and of
`Utf8Decoder`, generic in the automaton they run, plus the batch specification `tokenize`
(leftmost-longest tokenisation, written without reference to the machine).

What a token *means* (the payload decoders, tags) is not modelled here: an item is either
`tok bytes q` (bytes matched, automaton state in which the match was found) or `raw bytes`.
-/
namespace SurfModel.Tokenizer

set_option linter.unusedVariables false

/-- Deterministic automaton as seen through the public `DFA` API:
`start()`, `transition(state, symbol)`, `info(state).is_accepting`, `info(state).is_terminal`. -/
structure Auto (σ : Type) where
  start : σ
  step : σ → UInt8 → Option σ
  accepting : σ → Bool
  terminal : σ → Bool

/-- `is_terminal` means "no outgoing edges" (`NFA::compile`: `dfa_table[id].is_empty()`). -/
def Auto.TermOk {σ} (A : Auto σ) : Prop := ∀ s, A.terminal s = true → ∀ b, A.step s b = none

inductive Item (σ : Type) where
  /-- recognised sequence: the bytes and the accepting state in which it was recognised -/
  | tok (bytes : List UInt8) (q : σ)
  /-- unrecognised bytes -/
  | raw (bytes : List UInt8)
deriving Repr, BEq, DecidableEq

def Item.bytes {σ} : Item σ → List UInt8
  | .tok b _ => b
  | .raw b => b

/-- ways in which the Rust code could fail to return -/
inductive Fault where
  /-- `buffer.drain(size..)` with `size > buffer.len()`, `buffer[offset]` with `offset ≥ 4` -/
  | panic
  /-- the model's loop bound was exhausted (proved impossible: `C03_tokenize`) -/
  | outOfFuel
deriving Repr, BEq, DecidableEq

/-! ## `MatcherDecoder` -/

/-- fields of `MatcherDecoder` (the automaton itself is the parameter `A`) -/
structure DSt (σ : Type) where
  /-- `automata_state` -/
  st : σ
  /-- `buffer`: bytes consumed since the automaton was (re)started -/
  buffer : List UInt8
  /-- `rescheduled`, literally: a vector whose *last* element is parsed next -/
  resched : List UInt8
  /-- `item_candidate`: the item and `buffer.len()` at the time it was found -/
  cand : Option (Item σ × Nat)

/-- `MatcherDecoder::new` -/
def init {σ} (A : Auto σ) : DSt σ := { st := A.start, buffer := [], resched := [], cand := none }

/-- `Vec::pop` -/
def pop (v : List UInt8) : Option (UInt8 × List UInt8) :=
  match v.reverse with
  | [] => none
  | b :: r => some (b, r.reverse)

/-- `take_candidate`: `item_candidate.take().map(|(item, size)| { rescheduled.extend(buffer.drain(size..).rev());
buffer.clear(); automata_state = start; item })`. `drain(size..)` panics when `size > len`. -/
def takeCandidate {σ} (A : Auto σ) (s : DSt σ) : Except Fault (Option (Item σ) × DSt σ) :=
  match s.cand with
  | none => .ok (none, s)
  | some (item, size) =>
    if size ≤ s.buffer.length then
      .ok (some item,
        { st := A.start, buffer := [], resched := s.resched ++ (s.buffer.drop size).reverse, cand := none })
    else .error .panic

/-- `decode_byte` -/
def decodeByte {σ} (A : Auto σ) (s : DSt σ) (byte : UInt8) : Except Fault (Option (Item σ) × DSt σ) :=
  let s := { s with buffer := s.buffer ++ [byte] }
  match A.step s.st byte with
  | some q =>
    let s := { s with st := q }
    if A.accepting q then
      let s := { s with cand := some (.tok s.buffer q, s.buffer.length) }
      if A.terminal q then takeCandidate A s else .ok (none, s)
    else .ok (none, s)
  | none =>
    match takeCandidate A s with
    | .error e => .error e
    | .ok (some item, s) => .ok (some item, s)
    | .ok (none, s) =>
      -- `unwrap_or_else`: no candidate, the buffer is rejected; the current byte is parsed again
      -- unless it is the only one
      let s := if s.buffer.length > 1 then
          { s with resched := s.resched ++ [byte], buffer := s.buffer.dropLast }
        else s
      .ok (some (.raw s.buffer), { s with st := A.start, buffer := [] })

/-- a call of `decode_byte` that returns no item leaves `rescheduled` alone -/
theorem decodeByte_none_resched {σ} (A : Auto σ) (s s' : DSt σ) (b : UInt8)
    (h : decodeByte A s b = .ok (none, s')) : s'.resched = s.resched := by
  unfold decodeByte at h
  simp only at h
  cases hs : A.step s.st b with
  | some q =>
    rw [hs] at h
    simp only at h
    by_cases ha : A.accepting q = true
    · by_cases ht : A.terminal q = true
      · simp [ha, ht, takeCandidate] at h
      · simp [ha, ht] at h
        rw [← h]
    · simp [ha] at h
      rw [← h]
  | none =>
    rw [hs] at h
    simp only [takeCandidate] at h
    cases hc : s.cand with
    | none => simp [hc] at h
    | some c =>
      simp only [hc] at h
      split at h <;> simp at h

theorem pop_length {v r : List UInt8} {b : UInt8} (h : pop v = some (b, r)) : r.length + 1 = v.length := by
  unfold pop at h
  split at h
  · cases h
  · rename_i c cs hr
    cases h
    have := congrArg List.length hr
    simp at this ⊢
    omega

/-- first loop of `decode`: `while let Some(byte) = self.rescheduled.pop() { … }` -/
def drainResched {σ} (A : Auto σ) (s : DSt σ) : Except Fault (Option (Item σ) × DSt σ) :=
  match h : pop s.resched with
  | none => .ok (none, s)
  | some (byte, rs) =>
    match h2 : decodeByte A { s with resched := rs } byte with
    | .error e => .error e
    | .ok (some item, s') => .ok (some item, s')
    | .ok (none, s') => drainResched A s'
termination_by s.resched.length
decreasing_by
  have h3 := decodeByte_none_resched A _ _ _ h2
  have h4 := pop_length h
  simp only at h3
  rw [h3]
  omega

/-- second loop of `decode`: `for byte in input.fill_buf()?.iter() { consumed += 1; … break }`,
`input.consume(consumed)`; returns what is left in the reader -/
def decodeInput {σ} (A : Auto σ) (s : DSt σ) : List UInt8 → Except Fault (Option (Item σ) × DSt σ × List UInt8)
  | [] => .ok (none, s, [])
  | byte :: rest =>
    match decodeByte A s byte with
    | .error e => .error e
    | .ok (some item, s') => .ok (some item, s', rest)
    | .ok (none, s') => decodeInput A s' rest

/-- `Decoder::decode` of `MatcherDecoder`: at most one item per call -/
def decode {σ} (A : Auto σ) (s : DSt σ) (input : List UInt8) :
    Except Fault (Option (Item σ) × DSt σ × List UInt8) :=
  match drainResched A s with
  | .error e => .error e
  | .ok (some item, s') => .ok (some item, s', input)
  | .ok (none, s') => decodeInput A s' input

/-- `Decoder::decode_into`: `while let Some(item) = self.decode(&mut buf)? { out.push(item) }` -/
def decodeIntoFuel {σ} (A : Auto σ) : Nat → DSt σ → List UInt8 → Except Fault (List (Item σ) × DSt σ)
  | 0, _, _ => .error .outOfFuel
  | fuel + 1, s, input =>
    match decode A s input with
    | .error e => .error e
    | .ok (none, s', _) => .ok ([], s')
    | .ok (some item, s', rest) =>
      match decodeIntoFuel A fuel s' rest with
      | .error e => .error e
      | .ok (items, s'') => .ok (item :: items, s'')

/-- every item carries at least one byte of what is pending, and one more call sees the end -/
def decodeInto {σ} (A : Auto σ) (s : DSt σ) (input : List UInt8) : Except Fault (List (Item σ) × DSt σ) :=
  decodeIntoFuel A (s.buffer.length + s.resched.length + input.length + 1) s input

/-- a sequence of reads, each handed to `decode_into` (as `UnixTerminal::poll` does with every
`read`); the items of each read are kept apart -/
def feedAll {σ} (A : Auto σ) : DSt σ → List (List UInt8) → Except Fault (List (List (Item σ)) × DSt σ)
  | s, [] => .ok ([], s)
  | s, chunk :: chunks =>
    match decodeInto A s chunk with
    | .error e => .error e
    | .ok (items, s') =>
      match feedAll A s' chunks with
      | .error e => .error e
      | .ok (more, s'') => .ok (items :: more, s'')

/-! ## Batch specification: leftmost-longest tokenisation -/

/-- `δ*` -/
def runA {σ} (A : Auto σ) (q : σ) : List UInt8 → Option σ
  | [] => some q
  | b :: r => (A.step q b).bind fun q' => runA A q' r

/-- length of the longest prefix of `w` that the automaton can read from `q` without getting stuck -/
def liveLen {σ} (A : Auto σ) (q : σ) : List UInt8 → Nat
  | [] => 0
  | b :: r => match A.step q b with
    | none => 0
    | some q' => liveLen A q' r + 1

/-- the longest non-empty prefix of `w` that is accepted from `q`: its length and the state reached -/
def longestAcc {σ} (A : Auto σ) (q : σ) : List UInt8 → Option (Nat × σ)
  | [] => none
  | b :: r => match A.step q b with
    | none => none
    | some q' =>
      match longestAcc A q' r with
      | some (n, qa) => some (n + 1, qa)
      | none => if A.accepting q' then some (1, q') else none

/-- the whole of `w` is a recognised sequence that cannot be extended -/
def complete {σ} (A : Auto σ) (w : List UInt8) : Bool :=
  match runA A A.start w with
  | some q => A.accepting q && A.terminal q
  | none => false

theorem longestAcc_pos {σ} (A : Auto σ) (q : σ) (w : List UInt8) (n : Nat) (qa : σ)
    (h : longestAcc A q w = some (n, qa)) : 0 < n ∧ n ≤ w.length := by
  induction w generalizing q n qa with
  | nil => simp [longestAcc] at h
  | cons b r ih =>
    simp only [longestAcc] at h
    split at h
    · cases h
    · rename_i q' _
      split at h
      · rename_i m qm hm
        cases h
        have := ih _ _ _ hm
        simp; omega
      · split at h
        · cases h; simp
        · cases h

/-- Leftmost-longest tokenisation of a (so far received) stream: `(items, pending)`.
At the current position look at the longest prefix `live` of the rest on which the automaton does not
get stuck. If that is the whole rest and it is not already a complete sequence, nothing can be decided
yet: the rest is pending. Otherwise emit the longest recognised non-empty prefix, or, if there is
none, the bytes read before getting stuck (at least one) as unrecognised; go on right after the
emitted bytes. -/
def tokenize {σ} (A : Auto σ) (input : List UInt8) : List (Item σ) × List UInt8 :=
  if input = [] then ([], [])
  else if liveLen A A.start input = input.length ∧ complete A input = false then ([], input)
  else
    match h : longestAcc A A.start input with
    | some (n, q) =>
      let r := tokenize A (input.drop n)
      (.tok (input.take n) q :: r.1, r.2)
    | none =>
      let m := max (liveLen A A.start input) 1
      let r := tokenize A (input.drop m)
      (.raw (input.take m) :: r.1, r.2)
termination_by input.length
decreasing_by
  · have := longestAcc_pos A _ _ _ _ h
    simp only [List.length_drop]; omega
  · rename_i hne _
    have : 0 < input.length := List.length_pos_iff.mpr hne
    simp only [List.length_drop]; omega

/-- state of the decoder that has `pending` in its buffer and nothing rescheduled -/
def stateOf {σ} (A : Auto σ) (pending : List UInt8) : DSt σ :=
  { st := (runA A A.start pending).getD A.start
    buffer := pending
    resched := []
    cand := (longestAcc A A.start pending).map fun p => (.tok (pending.take p.1) p.2, p.1) }

/-! ## `Utf8Decoder` -/

inductive UItem where
  /-- `Ok(Some(char))`: the bytes of the character -/
  | chr (bytes : List UInt8)
  /-- `Err(InvalidInput)`: the bytes thrown away (buffer and the offending byte) -/
  | err (bytes : List UInt8)
deriving Repr, BEq, DecidableEq

def UItem.bytes : UItem → List UInt8
  | .chr b => b
  | .err b => b

/-- fields of `Utf8Decoder`; `buffer[..offset]` is `buf` -/
structure USt (σ : Type) where
  st : σ
  buf : List UInt8

def uinit {σ} (A : Auto σ) : USt σ := { st := A.start, buf := [] }

/-- `Utf8Decoder::decode`: one result per call; returns what is left in the reader.
`push` indexes a 4 byte array: a fifth byte panics (before anything is consumed). -/
def udecode {σ} (A : Auto σ) (s : USt σ) : List UInt8 → Except Fault (Option UItem × USt σ × List UInt8)
  | [] => .ok (none, s, [])
  | byte :: rest =>
    match A.step s.st byte with
    | none => .ok (some (.err (s.buf ++ [byte])), uinit A, rest)
    | some q =>
      if 4 ≤ s.buf.length then .error .panic
      else if A.accepting q then .ok (some (.chr (s.buf ++ [byte])), uinit A, rest)
      else udecode A { st := q, buf := s.buf ++ [byte] } rest

/-- all results of one read: `decode` is called until it reports `Ok(None)` (`decode_into` stops at an
error and leaves the rest in the reader; the caller goes on with what is left) -/
def ufeedFuel {σ} (A : Auto σ) : Nat → USt σ → List UInt8 → Except Fault (List UItem × USt σ)
  | 0, _, _ => .error .outOfFuel
  | fuel + 1, s, input =>
    match udecode A s input with
    | .error e => .error e
    | .ok (none, s', _) => .ok ([], s')
    | .ok (some item, s', rest) =>
      match ufeedFuel A fuel s' rest with
      | .error e => .error e
      | .ok (items, s'') => .ok (item :: items, s'')

def ufeed {σ} (A : Auto σ) (s : USt σ) (input : List UInt8) : Except Fault (List UItem × USt σ) :=
  ufeedFuel A (input.length + 1) s input

def ufeedAll {σ} (A : Auto σ) : USt σ → List (List UInt8) → Except Fault (List (List UItem) × USt σ)
  | s, [] => .ok ([], s)
  | s, chunk :: chunks =>
    match ufeed A s chunk with
    | .error e => .error e
    | .ok (items, s') =>
      match ufeedAll A s' chunks with
      | .error e => .error e
      | .ok (more, s'') => .ok (items :: more, s'')

/-! ## Table driven automaton (a dumped `DFA`) -/

/-- `trans[256 * s + b]` = 0 (no edge) or target + 1; `flags[s]`: bit 0 accepting, bit 1 terminal;
`tags[s]`: number printed with a token recognised in `s` -/
structure Table where
  trans : Array Nat
  flags : Array Nat
  tags : Array Nat

def Table.step (t : Table) (s : Nat) (b : UInt8) : Option Nat :=
  let x := t.trans.getD (256 * s + b.toNat) 0
  if x = 0 then none else some (x - 1)

def Table.accepting (t : Table) (s : Nat) : Bool := t.flags.getD s 0 % 2 == 1
def Table.terminal (t : Table) (s : Nat) : Bool := t.flags.getD s 0 / 2 % 2 == 1

def Table.auto (t : Table) : Auto Nat :=
  { start := 0, step := t.step, accepting := t.accepting, terminal := t.terminal }

/-- executable check of `Auto.TermOk` for a table -/
def Table.termOk (t : Table) : Bool :=
  (List.range t.flags.size).all fun s =>
    !t.terminal s || (List.range 256).all fun b => t.trans.getD (256 * s + b) 0 == 0

/-! ## line protocol -/

open SurfModel.Proto

def splitNonEmpty (s : String) (sep : String) : List String :=
  if s == "-" || s == "" then [] else s.splitOn sep

/-- edges: `s.b.t` separated by commas -/
def parseEdge (e : String) : Option (Nat × Nat × Nat) :=
  match e.splitOn "." with
  | [s, b, t] => do pure (← s.toNat?, ← b.toNat?, ← t.toNat?)
  | _ => none

def parseTable (n : Nat) (flags tags edges : String) : Option Table := do
  let fl := flags.toList.map fun c => c.toNat - '0'.toNat
  let tg ← if tags == "-" then some (List.replicate n 0) else natList? tags
  let es ← (splitNonEmpty edges ",").mapM parseEdge
  if fl.length ≠ n ∨ tg.length ≠ n then none
  else
    let tr := es.foldl (fun (a : Array Nat) (e : Nat × Nat × Nat) =>
      let i := 256 * e.1 + e.2.1
      if e.2.1 < 256 ∧ i < a.size then a.set! i (e.2.2 + 1) else a) (Array.replicate (256 * n) 0)
    some { trans := tr, flags := fl.toArray, tags := tg.toArray }

/-- chunks: hex strings separated by `/`, `-` is an empty read -/
def parseChunks (s : String) : Option (List (List UInt8)) := (s.splitOn "/").mapM unhex

def hexNE (b : List UInt8) : String := if b.isEmpty then "" else hex b

def showItem (t : Table) : Item Nat → String
  | .tok b q => s!"t{t.tags.getD q 0}:{hexNE b}"
  | .raw b => s!"r:{hexNE b}"

def showItems (t : Table) (l : List (Item Nat)) : String :=
  if l.isEmpty then "-" else ",".intercalate (l.map (showItem t))

/-- boundaries only (production decoders: whether a recognised sequence decodes to an event or is
handed on as raw bytes is the payload decoders' business) -/
def showBounds (l : List (Item Nat)) : String :=
  if l.isEmpty then "-" else ",".intercalate (l.map fun i => s!"i:{hexNE i.bytes}")

def showFault : Fault → String
  | .panic => "panic"
  | .outOfFuel => "fuel"

def showUItem : UItem → String
  | .chr b => s!"c:{hexNE b}"
  | .err b => s!"e:{hexNE b}"

def showUItems (l : List UItem) : String :=
  if l.isEmpty then "-" else ",".intercalate (l.map showUItem)

abbrev Tables := List (String × Table)

def Tables.find (ts : Tables) (name : String) : Option Table := (ts.find? (·.1 == name)).map (·.2)

/-- requests (after the family word `c03`):
* `dfa <name> <n> <flags> <tags> <edges>` — install a dumped automaton under `name`
* `run <name> <chunks>` — model of the code: `MatcherDecoder` fed read by read through `decode_into`
* `tokenize <name> <hex>` — the specification `tokenize`
* `runb`, `tokenizeb` — the same, printing item boundaries only
* `utf8 <name> <chunks>` — model of `Utf8Decoder` fed read by read -/
def handle (ts : Tables) : List String → Tables × String
  | ["dfa", name, n, flags, tags, edges] =>
    match n.toNat? with
    | none => (ts, "bad-op")
    | some n =>
      match parseTable n flags tags edges with
      | none => (ts, "bad-table")
      | some t =>
        let edgeCount := t.trans.foldl (fun c x => if x = 0 then c else c + 1) 0
        ((name, t) :: ts.filter (·.1 != name), s!"ok {n} {edgeCount} termok={if t.termOk then 1 else 0}")
  | ["run", name, chunks] =>
    match ts.find name, parseChunks chunks with
    | some t, some cs =>
      match feedAll t.auto (init t.auto) cs with
      | .error e => (ts, showFault e)
      | .ok (per, s) =>
        (ts, "/".intercalate (per.map (showItems t)) ++ s!" buf={hex s.buffer} rs={hex s.resched}")
    | _, _ => (ts, "bad-op")
  | ["tokenize", name, input] =>
    match ts.find name, unhex input with
    | some t, some i =>
      let r := tokenize t.auto i
      (ts, showItems t r.1 ++ s!" rest={hex r.2}")
    | _, _ => (ts, "bad-op")
  | ["runb", name, chunks] =>
    match ts.find name, parseChunks chunks with
    | some t, some cs =>
      match feedAll t.auto (init t.auto) cs with
      | .error e => (ts, showFault e)
      | .ok (per, s) =>
        (ts, "/".intercalate (per.map showBounds) ++ s!" buf={hex s.buffer} rs={hex s.resched}")
    | _, _ => (ts, "bad-op")
  | ["tokenizeb", name, input] =>
    match ts.find name, unhex input with
    | some t, some i =>
      let r := tokenize t.auto i
      (ts, showBounds r.1 ++ s!" rest={hex r.2}")
    | _, _ => (ts, "bad-op")
  | ["utf8", name, chunks] =>
    match ts.find name, parseChunks chunks with
    | some t, some cs =>
      match ufeedAll t.auto (uinit t.auto) cs with
      | .error e => (ts, showFault e)
      | .ok (per, s) => (ts, "/".intercalate (per.map showUItems) ++ s!" buf={hex s.buf}")
    | _, _ => (ts, "bad-op")
  | _ => (ts, "bad-op")

end SurfModel.Tokenizer
