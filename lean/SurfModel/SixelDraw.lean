import SurfModel.Sixel
import SurfModel.Quant
/-!
# C12 — `SixelImageHandler::draw` on a cache miss, from the image on

Composition of the two models: the view is cut to a multiple of six rows, every pixel is channel-reduced
(`SurfModel.Sixel.preReduce`), the result goes through the model of `Image::quantize(256, true, bg)`
(`SurfModel.Quant`), and its answer decides what is written: `None` (the reduced image is empty: no column,
or fewer than six rows) ⇒ **nothing**; otherwise the sixel encoding of `(palette, index image)`.

Pixels arrive already composited over the configured background (`bg.blend_over(c)` is float code of the
`rasterize` crate, uninterpreted in both models; `draw` composites before it reduces the channels).
-/
namespace SurfModel.SixelDraw
open SurfModel.Sixel

abbrev QRGB := SurfModel.Quant.RGB

def toQ (c : RGB) : QRGB := ⟨c.r, c.g, c.b⟩
def ofQ (c : QRGB) : RGB := ⟨c.r, c.g, c.b⟩

/-- what one call of `draw` does on a cache miss -/
inductive Out where
  /-- `Ok(())` after writing these bytes (none at all when `quantize` answered `None`) -/
  | wrote (bytes : List UInt8)
  | panic
  | hang
  deriving Repr

/-- `Image::from(img.view(..height, ..).map(reduce))` as a row-major pixel list: the first `height` rows
of the `w`-wide view, every pixel channel-reduced -/
def reduced (w h : Nat) (px : List RGB) : List RGB := (px.take (truncHeight h * w)).map preReduce

/-- the rest of `draw` once `quantize` has answered -/
def drawWith (w h : Nat) (res : SurfModel.Quant.QRes) (order : QImg → Nat → List Nat) : Out :=
  match res with
  | .none => .wrote []                      -- `None => return Ok(())`
  | .panic => .panic
  | .hang => .hang
  | .inexact _ => .panic                    -- not an answer of the real function (the model's "not covered")
  | .ok pal is =>
    let q : QImg := ⟨w, truncHeight h, rowsOf w (truncHeight h) is⟩
    .wrote (encode (pal.map ofQ) q (order q))

/-- `draw` for the `w × h` view with (composited) pixels `px`, row-major; `looked` = the colours the
Floyd–Steinberg error diffusion hands to the palette lookup, one per pixel (float code: a parameter),
`order` = the iteration order of the band maps -/
def drawFresh (w h : Nat) (px : List RGB) (looked : List QRGB) (order : QImg → Nat → List Nat) : Out :=
  drawWith w h
    (SurfModel.Quant.quantizeDithered ((reduced w h px).map toQ) (truncHeight h) w 256 looked) order

/-- the same when every diffused error is zero (the case in which the quantiser model follows the
dithering loop itself) -/
def drawFreshExact (w h : Nat) (px : List RGB) (order : QImg → Nat → List Nat) : Out :=
  drawWith w h (SurfModel.Quant.quantize ((reduced w h px).map toQ) (truncHeight h) w 256 true) order

end SurfModel.SixelDraw
