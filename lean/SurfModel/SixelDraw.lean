import SurfModel.Sixel
import SurfModel.Quant
/-!
# C12 — `SixelImageHandler::draw` on a cache miss, from the image on

Composition of the two models: the view is cut to a multiple of six rows, every pixel is channel-reduced
(`SurfModel.Sixel.preReduce`), the result goes through the model of `Image::quantize(256, true, bg)`
(`SurfModel.Quant`), and its answer decides what is written: `None` (the reduced image is empty: no column,
or fewer than six rows) ⇒ **nothing**; otherwise the sixel encoding of `(palette, index image)`.

Pixels arrive already composited over the configured background (`bg.blend_over(c)` is float code of the
`rasterize` crate, uninterpreted in both models; `draw` composites before it reduces the channels).
-/
namespace SurfModel.SixelDraw
open SurfModel.Sixel

abbrev QRGB := SurfModel.Quant.RGB

def toQ (c : RGB) : QRGB := ⟨c.r, c.g, c.b⟩
def ofQ (c : QRGB) : RGB := ⟨c.r, c.g, c.b⟩

/-- what one call of `draw` does on a cache miss -/
inductive Out where
  /-- `Ok(())` after writing these bytes (none at all when `quantize` answered `None`) -/
  | wrote (bytes : List UInt8)
  | panic
  | hang
  deriving Repr

/-- `Image::from(img.view(..height, ..).map(reduce))` as a row-major pixel list: the first `height` rows
of the `w`-wide view, every pixel channel-reduced -/
def reduced (w h : Nat) (px : List RGB) : List RGB := (px.take (truncHeight h * w)).map preReduce

/-- the rest of `draw` once `quantize` has answered -/
def drawWith (w h : Nat) (res : SurfModel.Quant.QRes) (order : QImg → Nat → List Nat) : Out :=
  match res with
  | .none => .wrote []                      -- `None => return Ok(())`
  | .panic => .panic
  | .hang => .hang
  | .inexact _ => .panic                    -- not an answer of the real function (the model's "not covered")
  | .ok pal is =>
    let q : QImg := ⟨w, truncHeight h, rowsOf w (truncHeight h) is⟩
    .wrote (encode (pal.map ofQ) q (order q))

/-- `draw` for the `w × h` view with (composited) pixels `px`, row-major; `looked` = the colours the
Floyd–Steinberg error diffusion hands to the palette lookup, one per pixel (float code: a parameter),
`order` = the iteration order of the band maps -/
def drawFresh (w h : Nat) (px : List RGB) (looked : List QRGB) (order : QImg → Nat → List Nat) : Out :=
  drawWith w h
    (SurfModel.Quant.quantizeDithered ((reduced w h px).map toQ) (truncHeight h) w 256 looked) order

/-- the same when every diffused error is zero (the case in which the quantiser model follows the
dithering loop itself) -/
def drawFreshExact (w h : Nat) (px : List RGB) (order : QImg → Nat → List Nat) : Out :=
  drawWith w h (SurfModel.Quant.quantize ((reduced w h px).map toQ) (truncHeight h) w 256 true) order

/-! ## the subsampling threshold

`draw` asks for 256 registers, so `ColorPalette::from_image` walks every pixel of the reduced image when
`sample = height · width / (256 · 100) < 2` and only a pseudo-random subset otherwise (a colour that occurs
only in skipped pixels then gets no register, and the picture is no longer exact).  The quantity is the
quantiser model's `sampleRate` at the size `draw` passes: `w` columns, `h/6·6` rows, 256 colours. -/

/-- registers `draw` asks `quantize` for -/
def registers : Nat := 256

/-- `sample` of `from_image` for the view of `w × h` pixels (`none`: the division panics) -/
def sampleStep (w h : Nat) : Option Nat := SurfModel.Quant.sampleRate (truncHeight h) w registers

/-- does the palette extraction skip pixels of a `w × h` view? -/
def subsampled (w h : Nat) : Bool :=
  match sampleStep w h with
  | some s => decide (2 ≤ s)
  | none => false

/-- line protocol: `subsampled <w> <h>` ↦ `yes` / `no`; everything else is `SurfModel.Sixel.handle` -/
def handle : List String → String
  | ["subsampled", w, h] =>
    match w.toNat?, h.toNat? with
    | some w, some h => if subsampled w h then "yes" else "no"
    | _, _ => "bad-op"
  | other => SurfModel.Sixel.handle other

end SurfModel.SixelDraw
