import SurfModel.Grammar
/-!
# C04 — the library's fixed naming table of keys, written from the protocol side

Every spelling of every key the library names (xterm / fixterms: `CSI number ~`, `CSI 1 ; m X`, `SS3 X`, ESC +
character = alt, C0 control = ctrl + letter), as closed terms the kernel can evaluate.  Kept in a module of its
own so that the (expensive) comparison with the table regenerated from the implementation is only re-checked
when one of the two tables changes.
-/
namespace SurfModel.Protocol
open SurfModel.Grammar

def CSI : List Nat := [27, 91]

/-! ## keys: the library's naming table (xterm / fixterms spellings) -/

def lowerLetters : List Nat := (List.range 26).map (· + 97)
def upperLetters : List Nat := (List.range 26).map (· + 65)
def digitChars : List Nat := (List.range 10).map (· + 48)
/-- ASCII punctuation -/
def punctChars : List Nat :=
  (List.range 15).map (· + 33) ++ (List.range 7).map (· + 58) ++ (List.range 6).map (· + 91) ++
    (List.range 4).map (· + 123)

/-- `CSI number ~` keys (VT220 / xterm / rxvt numbering as the library names them) -/
def tildeKeys : List (KeyName × Nat) :=
  [(.home, 1), (.insert, 2), (.delete, 3), (.end, 4), (.pageUp, 5), (.pageDown, 6), (.insert, 7), (.end, 8),
   (.f 1, 11), (.f 2, 12), (.f 3, 13), (.f 4, 14), (.f 5, 15), (.f 6, 17), (.f 7, 18), (.f 8, 19), (.f 9, 20),
   (.f 10, 21), (.f 11, 23), (.f 12, 24)]

/-- `CSI X` / `SS3 X` keys: name, introducer byte after ESC of the unmodified form, final byte -/
def letterKeys : List (KeyName × Nat × Nat) :=
  [(.up, 91, 65), (.down, 91, 66), (.right, 91, 67), (.left, 91, 68), (.end, 91, 70), (.home, 91, 72),
   (.f 1, 79, 80), (.f 1, 91, 80), (.f 2, 79, 81), (.f 2, 91, 81), (.f 3, 79, 82), (.f 3, 91, 82),
   (.f 4, 79, 83), (.f 4, 91, 83)]

/-- modifier parameter `1 + mask`, mask = shift 1, alt 2, ctrl 4 -/
def modMasks : List Nat := [1, 2, 3, 4, 5, 6, 7]

/-- decimal digits of a number below 100 (the parameters of the key table; not `showNat`, so that the table
    is a closed term the kernel can evaluate) -/
def dec2 (n : Nat) : List Nat := if n < 10 then [48 + n] else [48 + n / 10, 48 + n % 10]

/-- every spelling of every key of the naming table -/
def protoKeys : List (List Nat × Key) :=
  [([27], ⟨.esc, 0⟩), ([127], ⟨.backspace, 0⟩), ([0], ⟨.char 32, modCtrl⟩)] ++
  lowerLetters.flatMap (fun c => [([27, c], ⟨.char c, modAlt⟩), ([c - 96], ⟨.char c, modCtrl⟩)]) ++
  upperLetters.map (fun c => ([27, c], ⟨.char (c + 32), modAlt + modShift⟩)) ++
  punctChars.map (fun c => ([27, c], ⟨.char c, modAlt⟩)) ++
  digitChars.map (fun c => ([27, c], ⟨.char c, modAlt⟩)) ++
  tildeKeys.flatMap (fun p =>
    (CSI ++ dec2 p.2 ++ [126], ⟨p.1, 0⟩) ::
      modMasks.map fun m => (CSI ++ dec2 p.2 ++ [59] ++ dec2 (m + 1) ++ [126], ⟨p.1, m⟩)) ++
  letterKeys.flatMap (fun p =>
    ([27, p.2.1, p.2.2], ⟨p.1, 0⟩) ::
      modMasks.map fun m => (CSI ++ [49, 59] ++ dec2 (m + 1) ++ [p.2.2], ⟨p.1, m⟩))

end SurfModel.Protocol
