import SurfModel.Vt
/-!
# C05 — `TTYEncoder` as the stateful object it is, with machine arithmetic and a failing writer

`SurfModel.Vt.encode` is a pure function of the command.  The Rust encoder is not: `TTYEncoder` owns a
`Chunks` buffer (`buffer: Vec<u8>`, `offsets: Vec<usize>`) that survives from one `encode` call to the
next, is cleared at the start of the `Face` / `FaceModify` arms and again at the end of
`Chunks::drain`, and is left *uncleared* when the writer fails in the middle of `drain`.  This file
models exactly that:

* `RawChunks` — `Chunks` field by field (`clear`, `mark`, `push`, `Write::write`, `iter` with the slice
  expression `&buffer[start..end]` as a partial operation, `drain`);
* `Writer` — an `io::Write` that accepts a given number of bytes and then fails (`room = none`: never
  fails), `writeAll` = `Write::write_all`;
* checked machine arithmetic at every spot where the Rust code computes on `usize` / `i32` values
  (`saturating_add(1)`, `unsigned_abs`, `index + 10`), every result range-checked against its Rust
  type, panic as the explicit outcome `Except.error`; `pinnedBytesE` is the same with the operators of
  the pinned tree (`+ 1`, unary `-`), which do panic;
* `encodeSt` — one call of `TTYEncoder::encode` on (state, writer); `encodeStream` — a sequence of
  calls on ONE encoder, each with its own writer.

The theorems (SurfProofs/C05.lean) say that all of this collapses to the pure `encode`: whatever the
state left behind by earlier calls (including calls whose writer failed), the bytes written are a
prefix of `encode caps cmd`, all of it iff the writer has room, and no call panics.
-/
namespace SurfModel.Vt

/-! ## machine integers -/

inductive Panic where
  /-- `attempt to add with overflow` -/
  | addOverflow
  /-- `attempt to negate with overflow` -/
  | negOverflow
  /-- a value does not fit the Rust type it is stored in -/
  | range
  /-- `&buffer[start..end]` with `start > end` or `end > len` -/
  | sliceIndex
  deriving Repr, DecidableEq

def u32Max : Nat := 2 ^ 32 - 1
def i32Min : Int := -(2 ^ 31)
def i32Max : Int := 2 ^ 31 - 1

/-- the value is stored in a `usize` -/
def asUsize (n : Nat) : Except Panic Nat := if n ≤ usizeMax then .ok n else .error .range
/-- the value is stored in a `u32` -/
def asU32 (n : Nat) : Except Panic Nat := if n ≤ u32Max then .ok n else .error .range
/-- the value is stored in an `i32` -/
def asI32 (x : Int) : Except Panic Int := if i32Min ≤ x ∧ x ≤ i32Max then .ok x else .error .range

/-- `a + b` on `usize`, debug profile -/
def usizeAdd (a b : Nat) : Except Panic Nat := if a + b ≤ usizeMax then .ok (a + b) else .error .addOverflow
/-- `a.saturating_add(b)` on `usize` -/
def usizeSatAdd (a b : Nat) : Except Panic Nat := asUsize (if a + b > usizeMax then usizeMax else a + b)
/-- `a + b` on `i32`, debug profile -/
def i32Add (a b : Int) : Except Panic Int := if i32Min ≤ a + b ∧ a + b ≤ i32Max then .ok (a + b) else .error .addOverflow
/-- `-x` on `i32`, debug profile -/
def i32Neg (x : Int) : Except Panic Int := if -x ≤ i32Max then .ok (-x) else .error .negOverflow
/-- `x.unsigned_abs()` : `u32` -/
def i32UnsignedAbs (x : Int) : Except Panic Nat := asU32 x.natAbs

/-! ## `Chunks` -/

structure RawChunks where
  buffer : List Nat
  offsets : List Nat
  deriving Repr, DecidableEq

namespace RawChunks

def empty : RawChunks := ⟨[], []⟩
/-- `Chunks::is_empty` -/
def isEmpty (c : RawChunks) : Bool := c.offsets.isEmpty
/-- `Chunks::clear` -/
def clear (_ : RawChunks) : RawChunks := ⟨[], []⟩
/-- `Chunks::mark` -/
def mark (c : RawChunks) : RawChunks := { c with offsets := c.offsets ++ [c.buffer.length] }
/-- `impl Write for Chunks` (`write!(chunks, "{}", n)`) -/
def write (c : RawChunks) (bs : List Nat) : RawChunks := { c with buffer := c.buffer ++ bs }
/-- `Chunks::push` -/
def push (c : RawChunks) (chunk : List Nat) : RawChunks := (c.write chunk).mark
def pushAll (c : RawChunks) (chunks : List (List Nat)) : RawChunks := chunks.foldl push c

/-- `&buf[start..stop]` -/
def slice (buf : List Nat) (start stop : Nat) : Except Panic (List Nat) :=
  if start ≤ stop ∧ stop ≤ buf.length then .ok ((buf.drop start).take (stop - start)) else .error .sliceIndex

/-- `Chunks::iter`: the chunks are the slices between consecutive offsets (the iterator is lazy in
Rust; collected here — the theorems show that no slice expression panics, so the order of slicing and
writing is immaterial) -/
def iterFrom (buf : List Nat) : Nat → List Nat → Except Panic (List (List Nat))
  | _, [] => .ok []
  | start, stop :: rest =>
    match slice buf start stop with
    | .error e => .error e
    | .ok chunk =>
      match iterFrom buf stop rest with
      | .error e => .error e
      | .ok cs => .ok (chunk :: cs)

def iter (c : RawChunks) : Except Panic (List (List Nat)) := iterFrom c.buffer 0 c.offsets

end RawChunks

/-! ## the writer -/

/-- an `io::Write`: `out` = everything accepted so far; `room = some k`: `k` more bytes are accepted,
after that every `write` fails -/
structure Writer where
  out : List Nat
  room : Option Nat
  deriving Repr, DecidableEq

/-- `Write::write_all`: all of `bs` and `true`, or as much as fits and `false` (an error).  An empty
`bs` never calls `write` and succeeds. -/
def Writer.writeAll (w : Writer) (bs : List Nat) : Writer × Bool :=
  match w.room with
  | none => (⟨w.out ++ bs, none⟩, true)
  | some k =>
    if bs.length ≤ k then (⟨w.out ++ bs, some (k - bs.length)⟩, true)
    else (⟨w.out ++ bs.take k, some 0⟩, false)

/-- loop of `Chunks::drain`: separator before every chunk but the first, `?` on every write -/
def drainGo (w : Writer) : Nat → List (List Nat) → Writer × Bool
  | _, [] => (w, true)
  | index, chunk :: rest =>
    let r1 := if index != 0 then w.writeAll [59] else (w, true)
    if !r1.2 then r1
    else
      let r2 := r1.1.writeAll chunk
      if !r2.2 then r2 else drainGo r2.1 (index + 1) rest

/-- `Chunks::drain(b";", out)`: `self.clear()` is reached only when every write succeeded -/
def drain (c : RawChunks) (w : Writer) : Except Panic (RawChunks × Writer × Bool) :=
  match c.iter with
  | .error e => .error e
  | .ok chunks =>
    let r := drainGo w 0 chunks
    if r.2 then .ok (c.clear, r.1, true) else .ok (c, r.1, false)

/-! ## chunk contents and byte strings with checked arithmetic -/

/-- `color_sgr_encode`; the grey arm computes `index + 10` on `i32` -/
def colorChunksE (c : Color) (d : Depth) (role : Role) : Except Panic (List (List Nat)) :=
  match d with
  | .gray =>
    let index : Int := match c.lvl with | 0 => 30 | 1 => 90 | 2 => 37 | _ => 97
    (match role with
     | .fg => .ok [showNat index.toNat]
     | .bg =>
       match i32Add index 10 with
       | .error e => .error e
       | .ok v => .ok [showNat v.toNat]
     | .ul => .ok [])
  | d => .ok (colorChunks c d role)

def optChunksE (c : Option Color) (d : Depth) (role : Role) : Except Panic (List (List Nat)) :=
  match c with | none => .ok [] | some c => colorChunksE c d role

/-- chunks pushed by the `Face` arm, in order -/
def faceChunksE (f : Face) (d : Depth) : Except Panic (List (List Nat)) :=
  match optChunksE f.fg d .fg with
  | .error e => .error e
  | .ok fg =>
    match optChunksE f.bg d .bg with
    | .error e => .error e
    | .ok bg =>
      .ok ([[48]] ++ fg ++ bg ++ underChunk f.under
        ++ flagChunk f.bold [49] ++ flagChunk f.italic [51] ++ flagChunk f.blink [53]
        ++ flagChunk f.reverse [55] ++ flagChunk f.strike [57])

/-- chunks pushed by the `FaceModify` arm, in order -/
def faceModifyChunksE (m : FaceModify) (d : Depth) : Except Panic (List (List Nat)) :=
  match optChunksE m.fg d .fg with
  | .error e => .error e
  | .ok fg =>
    match optChunksE m.bg d .bg with
    | .error e => .error e
    | .ok bg =>
      match optChunksE m.underlineColor d .ul with
      | .error e => .error e
      | .ok ul =>
        .ok ((if m.reset then [[48]] else []) ++ fg ++ bg
          ++ (match m.underline with
              | none => []
              | some 0 => [[50, 52]]
              | some k => underChunk k)
          ++ ul
          ++ triChunk m.bold [49] [50, 50] ++ triChunk m.italic [51] [50, 51]
          ++ triChunk m.blink [53] [50, 53] ++ triChunk m.strike [57] [50, 57])

/-- `CSI <n> <fin>` for a cursor move / scroll by the `i32` amount `n ≠ 0`: positive amounts are
printed as they are, negative ones through `unsigned_abs` -/
def moveE (n : Int) (finPos finNeg : Nat) : Except Panic (List Nat) :=
  if n > 0 then .ok (csiB ++ showNat n.toNat ++ [finPos])
  else if n < 0 then
    match i32UnsignedAbs n with
    | .error e => .error e
    | .ok v => .ok (csiB ++ showNat v ++ [finNeg])
  else .ok []

/-- the same with the pinned tree's `-n` -/
def movePinnedE (n : Int) (finPos finNeg : Nat) : Except Panic (List Nat) :=
  if n > 0 then .ok (csiB ++ showNat n.toNat ++ [finPos])
  else if n < 0 then
    match i32Neg n with
    | .error e => .error e
    | .ok v => .ok (csiB ++ showNat v.toNat ++ [finNeg])
  else .ok []

/-- `CSI a+1 ; b+1 <fin>` with a given successor operation -/
def twoSuccE (succ : Nat → Except Panic Nat) (a b fin : Nat) : Except Panic (List Nat) :=
  match succ a with
  | .error e => .error e
  | .ok a' =>
    match succ b with
    | .error e => .error e
    | .ok b' => .ok (csiB ++ showNat a' ++ [59] ++ showNat b' ++ [fin])

/-- bytes of the commands that do not use the chunk buffer (everything except `Face` / `FaceModify`);
`succ` is the operation used for `row + 1` -/
def bytesWith (succ : Nat → Except Panic Nat) (move : Int → Nat → Nat → Except Panic (List Nat))
    (caps : Caps) : Cmd → Except Panic (List Nat)
  | .cursorTo row col => twoSuccE succ row col 72
  | .cursorMove row col =>
    (match move col 67 68 with
     | .error e => .error e
     | .ok c =>
       match move row 66 65 with
       | .error e => .error e
       | .ok r => .ok (c ++ r))
  | .scroll n => move n 83 84
  | .scrollRegion start stop =>
    if stop > start then twoSuccE succ start stop 114 else .ok (csiB ++ [114])
  | cmd => .ok (encode caps cmd)

/-- the repaired code: `saturating_add(1)`, `unsigned_abs` -/
def bytesE : Caps → Cmd → Except Panic (List Nat) := bytesWith (fun n => usizeSatAdd n 1) moveE
/-- the pinned tree: `+ 1`, `-n` -/
def pinnedBytesE : Caps → Cmd → Except Panic (List Nat) := bytesWith (fun n => usizeAdd n 1) movePinnedE

/-! ## one call of `TTYEncoder::encode`, and a stream of calls on one encoder -/

abbrev StepRes := Except Panic (RawChunks × Writer × Bool)

/-- tail of the `Face` / `FaceModify` arms: `out.write_all(b"\x1b[")?; chunks.drain(b";", out)?;
out.write_all(b"m")?` -/
def emitChunks (c : RawChunks) (w : Writer) : StepRes :=
  let r := w.writeAll csiB
  if !r.2 then .ok (c, r.1, false)
  else
    match drain c r.1 with
    | .error e => .error e
    | .ok (c', w', false) => .ok (c', w', false)
    | .ok (c', w', true) =>
      let r2 := w'.writeAll [109]
      .ok (c', r2.1, r2.2)

/-- `TTYEncoder::encode(&mut self, out, cmd)`: new chunk buffer, writer after the call, `Ok`/`Err` -/
def encodeSt (caps : Caps) (st : RawChunks) (cmd : Cmd) (w : Writer) : StepRes :=
  match cmd with
  | .face f =>
    (match faceChunksE f caps.depth with
     | .error e => .error e
     | .ok chunks => emitChunks (st.clear.pushAll chunks) w)
  | .faceModify m =>
    (match faceModifyChunksE m caps.depth with
     | .error e => .error e
     | .ok chunks =>
       let c := st.clear.pushAll chunks
       if !c.isEmpty then emitChunks c w else .ok (c, w, true))
  | cmd =>
    (match bytesE caps cmd with
     | .error e => .error e
     | .ok bs =>
       let r := w.writeAll bs
       .ok (st, r.1, r.2))

/-- calls on ONE encoder; the `i`-th call writes to a fresh writer with `room i`.  Result: final chunk
buffer and, per call, the bytes the writer accepted and whether the call returned `Ok`. -/
def encodeStream (caps : Caps) : RawChunks → List (Cmd × Option Nat) → Except Panic (RawChunks × List (List Nat × Bool))
  | st, [] => .ok (st, [])
  | st, (cmd, room) :: rest =>
    match encodeSt caps st cmd ⟨[], room⟩ with
    | .error e => .error e
    | .ok (st', w, ok) =>
      match encodeStream caps st' rest with
      | .error e => .error e
      | .ok (st'', outs) => .ok (st'', (w.out, ok) :: outs)

/-- the commands' parameters are values of their Rust types -/
def InRange : Cmd → Prop
  | .cursorTo row col => row ≤ usizeMax ∧ col ≤ usizeMax
  | .cursorMove row col => (i32Min ≤ row ∧ row ≤ i32Max) ∧ (i32Min ≤ col ∧ col ≤ i32Max)
  | .scroll n => i32Min ≤ n ∧ n ≤ i32Max
  | .scrollRegion start stop => start ≤ usizeMax ∧ stop ≤ usizeMax
  | _ => True

/-! ## line protocol -/

open SurfModel.Proto

/-- split a token list at every `|` -/
def splitBar : List String → List (List String)
  | [] => [[]]
  | t :: ts =>
    if t == "|" then [] :: splitBar ts
    else match splitBar ts with
      | [] => [[t]]
      | p :: ps => (t :: p) :: ps

/-- `[@k] cmd…` : optional writer room, then the command -/
def parseItem : List String → Option (Cmd × Option Nat)
  | [] => none
  | t :: ts =>
    if t.startsWith "@" then do
      let k ← (t.drop 1).toNat?
      let c ← parseCmd ts
      pure (c, some k)
    else do
      let c ← parseCmd (t :: ts)
      pure (c, none)

def showPanic : Panic → String
  | .addOverflow => "panic:add-overflow"
  | .negOverflow => "panic:neg-overflow"
  | .range => "panic:range"
  | .sliceIndex => "panic:slice-index"

/-- answers are single lines: `repr` breaks long values over several -/
def oneLine (s : String) : String :=
  " ".intercalate ((s.splitOn "\n").map fun l => l.trimAscii.toString)

/-- `c05 stream <caps> <item> | <item> …` → per call `hex` (`hex!` when the call returned an error), on
one encoder starting with an empty chunk buffer;
`c05 scheck <caps> <hexbytes> <cmd> | <cmd> … [## …]` → `ok` iff the reference interpreter reads the
bytes (the implementation's concatenated output) as exactly the concatenation of the commands'
meanings; everything after `##` is ignored (the harness records there the full stream, including the
calls whose writer failed, so that a replay can re-run it);
`c05 pinned <caps> <cmd…>` → outcome of the pinned tree's arithmetic (documentation of the repairs);
`c05 check …` as in `SurfModel.Vt.handle` with the diagnostic flattened to one line; everything else:
`SurfModel.Vt.handle`. -/
def handleEnc : List String → String
  | "stream" :: caps :: rest =>
    match parseCaps caps, (splitBar rest).mapM parseItem with
    | some caps, some items =>
      (match encodeStream caps RawChunks.empty items with
       | .error e => showPanic e
       | .ok (_, outs) =>
         " ".intercalate (outs.map fun (bs, ok) => showBytes bs ++ (if ok then "" else "!")))
    | _, _ => "bad-op"
  | "scheck" :: caps :: bytes :: rest =>
    match parseCaps caps, unhexN bytes, (splitBar (rest.takeWhile (· != "##"))).mapM parseCmd with
    | some caps, some bs, some cmds =>
      if interp bs = some (cmds.flatMap (meaning caps)) then "ok"
      else oneLine s!"differs: interp={repr (interp bs)} meaning={repr (cmds.flatMap (meaning caps))}"
    | _, _, _ => "bad-op"
  | "pinned" :: caps :: rest =>
    match parseCaps caps, parseCmd rest with
    | some caps, some cmd =>
      (match pinnedBytesE caps cmd with
       | .error e => showPanic e
       | .ok bs => showBytes bs)
    | _, _ => "bad-op"
  | "check" :: caps :: bytes :: rest =>
    match parseCaps caps, unhexN bytes, parseCmd rest with
    | some caps, some bs, some cmd =>
      if interp bs = some (meaning caps cmd) then "ok"
      else oneLine s!"differs: interp={repr (interp bs)} meaning={repr (meaning caps cmd)}"
    | _, _, _ => "bad-op"
  | req => handle req

end SurfModel.Vt
