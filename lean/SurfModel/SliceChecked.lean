import SurfModel.Slice
/-!
# C08 — checked machine-integer model of `range_bounds` and of the single-index impls (src/surface.rs)

`SurfModel.Slice` computes in `Int`.  This file is the same code with the machine arithmetic of the
Rust source made explicit: every `+`, `-`, `*`, unary `-` and `%` on `i128` is a *checked* operation
(debug profile: overflow panics; `%` panics on a zero divisor and on `MIN % -1`), `usize + 1` is a
checked `usize` addition, and the final `as usize` of an `i128` — which in Rust silently wraps — is an
explicit `castWraps` outcome whenever the value is not representable.  Rust's `%` truncates
(`Int.tmod`), Lean's `%` on `Int` is Euclidean; they agree on the non-negative dividends that occur
(`SurfProofs.C08.C08_rem_agree`).

`SurfProofs.C08.C08_checked` proves that for every bound a Rust integer type of up to 64 bits can hold
(`-2^63 ≤ x < 2^64`) and every `size < 2^64` no fault outcome is reachable and the result is that of the
`Int` model — so everything proved about `Slice.viewBounds` holds for the machine-integer code.
-/
namespace SurfModel.Slice

/-- what the machine arithmetic can do other than return the mathematical value -/
inductive Fault where
  /-- `attempt to add/subtract/multiply/negate with overflow`, `attempt to calculate the remainder with overflow` -/
  | overflow
  /-- `attempt to calculate the remainder with a divisor of zero` -/
  | divZero
  /-- `v as usize` for an `i128` outside `0 .. 2^64`: no panic in Rust, the value wraps -/
  | castWraps
  deriving Repr, DecidableEq

deriving instance DecidableEq for Except

def i128Min : Int := -(2 ^ 127)
def i128Max : Int := 2 ^ 127 - 1
def usizeBits : Nat := 64

/-- the result of an `i128` operation: the mathematical value if representable, else overflow -/
def ck (v : Int) : Except Fault Int :=
  if i128Min ≤ v ∧ v ≤ i128Max then .ok v else .error .overflow

def addC (a b : Int) : Except Fault Int := ck (a + b)
def subC (a b : Int) : Except Fault Int := ck (a - b)
def mulC (a b : Int) : Except Fault Int := ck (a * b)
def negC (a : Int) : Except Fault Int := ck (-a)

/-- `a % b` on `i128`: truncating remainder -/
def remC (a b : Int) : Except Fault Int :=
  if b = 0 then .error .divZero
  else if a = i128Min ∧ b = -1 then .error .overflow
  else .ok (Int.tmod a b)

/-- `v as usize` (64-bit `usize`) -/
def asUsize (v : Int) : Except Fault Nat :=
  if 0 ≤ v ∧ v < 2 ^ usizeBits then .ok v.toNat else .error .castWraps

/-- `a + b` on `usize` -/
def addU (a b : Nat) : Except Fault Nat :=
  if a + b < 2 ^ usizeBits then .ok (a + b) else .error .overflow

/-- `clamp(x + size, 0, 2 * size - 1) % size + offset`, operations in evaluation order -/
def normC (x offset size : Int) : Except Fault Int :=
  match addC x size with
  | .error f => .error f
  | .ok t1 =>
    match mulC 2 size with
    | .error f => .error f
    | .ok t2 =>
      match subC t2 1 with
      | .error f => .error f
      | .ok t3 =>
        match remC (clampI t1 0 t3) size with
        | .error f => .error f
        | .ok r => addC r offset

/-- `fn range_bounds(bound: impl RangeBounds<i128>, size: usize)`; `size as i128` is exact for a
64-bit `usize` -/
def rangeBoundsC (lo hi : Bnd) (size : Nat) : Except Fault (Option (Nat × Nat)) :=
  let size : Int := size
  if size == 0 then .ok none else
  let (start, offset) : Int × Int := match lo with
    | .unbounded => (0, 0)
    | .included s => (s, 0)
    | .excluded s => (s, 1)
  let offset := if start ≥ size then 1 else offset
  match normC start offset size with
  | .error f => .error f
  | .ok start =>
    let (end_, offset) : Int × Int := match hi with
      | .unbounded => (-1, 1)
      | .included e => (e, 1)
      | .excluded e => (e, 0)
    -- `-size` is evaluated only when `end >= size` is false
    let offset? : Except Fault Int :=
      if end_ ≥ size then .ok 1
      else match negC size with
        | .error f => .error f
        | .ok m => .ok (if end_ < m then 0 else offset)
    match offset? with
    | .error f => .error f
    | .ok offset =>
      match normC end_ offset size with
      | .error f => .error f
      | .ok end_ =>
        if end_ ≤ start then .ok none
        else match asUsize start with
          | .error f => .error f
          | .ok s =>
            match asUsize end_ with
            | .error f => .error f
            | .ok e => .ok (some (s, e))

/-- `impl ViewBounds for iN`: `size as i128`, `self as i128` exact -/
def indexSignedC (index : Int) (size : Nat) : Except Fault (Option (Nat × Nat)) :=
  let size : Int := size
  match negC size with
  | .error f => .error f
  | .ok m =>
    if index < m || index ≥ size then .ok none
    else
      let start? : Except Fault Int := if index < 0 then addC index size else .ok index
      match start? with
      | .error f => .error f
      | .ok start =>
        match asUsize start with
        | .error f => .error f
        | .ok s =>
          match addU s 1 with
          | .error f => .error f
          | .ok e => .ok (some (s, e))

/-- `impl ViewBounds for uN`: `self as usize` exact for the five unsigned types -/
def indexUnsignedC (index : Nat) (size : Nat) : Except Fault (Option (Nat × Nat)) :=
  if index ≥ size then .ok none
  else match addU index 1 with
    | .error f => .error f
    | .ok e => .ok (some (index, e))

def viewBoundsC : Sel → Nat → Except Fault (Option (Nat × Nat))
  | .idxS i, n => indexSignedC i n
  | .idxU i, n => indexUnsignedC i n
  | .range a b, n => rangeBoundsC (.included a) (.excluded b) n
  | .from a, n => rangeBoundsC (.included a) .unbounded n
  | .to b, n => rangeBoundsC .unbounded (.excluded b) n
  | .incl a b, n => rangeBoundsC (.included a) (.included b) n
  | .toIncl b, n => rangeBoundsC .unbounded (.included b) n
  | .full, n => rangeBoundsC .unbounded .unbounded n

/-! ## The `Int` model before the final conversion to `usize` -/

/-- `range_bounds` up to (not including) the two `as usize` conversions -/
def rangeBoundsI (lo hi : Bnd) (size : Nat) : Option (Int × Int) :=
  let size : Int := size
  if size == 0 then none else
  let (start, offset) : Int × Int := match lo with
    | .unbounded => (0, 0)
    | .included s => (s, 0)
    | .excluded s => (s, 1)
  let offset := if start ≥ size then 1 else offset
  let start := clampI (start + size) 0 (2 * size - 1) % size + offset
  let (end_, offset) : Int × Int := match hi with
    | .unbounded => (-1, 1)
    | .included e => (e, 1)
    | .excluded e => (e, 0)
  let offset := if end_ ≥ size then 1 else if end_ < -size then 0 else offset
  let end_ := clampI (end_ + size) 0 (2 * size - 1) % size + offset
  if end_ ≤ start then none else some (start, end_)

/-- the selector forms on `Int` (single index: the `i128` value `start`, and `start + 1`) -/
def viewBoundsI : Sel → Nat → Option (Int × Int)
  | .idxS i, n =>
    if i < -(n : Int) || i ≥ (n : Int) then none
    else some (if i < 0 then i + n else i, (if i < 0 then i + n else i) + 1)
  | .idxU i, n => if i ≥ n then none else some (i, (i : Int) + 1)
  | .range a b, n => rangeBoundsI (.included a) (.excluded b) n
  | .from a, n => rangeBoundsI (.included a) .unbounded n
  | .to b, n => rangeBoundsI .unbounded (.excluded b) n
  | .incl a b, n => rangeBoundsI (.included a) (.included b) n
  | .toIncl b, n => rangeBoundsI .unbounded (.included b) n
  | .full, n => rangeBoundsI .unbounded .unbounded n

/-! ## Selectors as written in Rust: a form and the integer type of its bounds -/

/-- the ten integer types with a `ViewBounds` impl -/
inductive IntTy where
  | i8 | u8 | i16 | u16 | i32 | u32 | i64 | u64 | isize | usize
  deriving Repr, DecidableEq

def IntTy.signed : IntTy → Bool
  | .i8 | .i16 | .i32 | .i64 | .isize => true
  | _ => false

def IntTy.bits : IntTy → Nat
  | .i8 | .u8 => 8
  | .i16 | .u16 => 16
  | .i32 | .u32 => 32
  | _ => 64

def IntTy.lo (t : IntTy) : Int := if t.signed then -(2 ^ (t.bits - 1)) else 0
def IntTy.hi (t : IntTy) : Int := if t.signed then 2 ^ (t.bits - 1) - 1 else 2 ^ t.bits - 1

/-- the mathematical value `x` is a value of type `t` -/
def IntTy.holds (t : IntTy) (x : Int) : Prop := t.lo ≤ x ∧ x ≤ t.hi

instance (t : IntTy) (x : Int) : Decidable (t.holds x) := by unfold IntTy.holds; infer_instance

/-- a selector form over mathematical bound values (the type is given separately) -/
inductive Form where
  | idx (i : Int)
  | range (a b : Int)
  | from (a : Int)
  | to (b : Int)
  | incl (a b : Int)
  | toIncl (b : Int)
  | full
  deriving Repr, DecidableEq

def Form.bounds : Form → List Int
  | .idx i => [i]
  | .range a b => [a, b]
  | .from a => [a]
  | .to b => [b]
  | .incl a b => [a, b]
  | .toIncl b => [b]
  | .full => []

/-- which `impl` a form written with bounds of type `t` reaches: the single index has one impl per
signedness, the range forms widen their bounds with `as i128` (value preserving) -/
def selOf (t : IntTy) : Form → Sel
  | .idx i => if t.signed then .idxS i else .idxU i.toNat
  | .range a b => .range a b
  | .from a => .from a
  | .to b => .to b
  | .incl a b => .incl a b
  | .toIncl b => .toIncl b
  | .full => .full

/-- all bounds of a selector lie in the value range of the types up to 64 bits -/
def Sel.inRange : Sel → Prop
  | .idxS i => -(2 ^ 63) ≤ i ∧ i < 2 ^ 64
  | .idxU i => i < 2 ^ 64
  | .range a b | .incl a b => (-(2 ^ 63) ≤ a ∧ a < 2 ^ 64) ∧ (-(2 ^ 63) ≤ b ∧ b < 2 ^ 64)
  | .from a | .to a | .toIncl a => -(2 ^ 63) ≤ a ∧ a < 2 ^ 64
  | .full => True

instance (s : Sel) : Decidable s.inRange := by cases s <;> (simp only [Sel.inRange]; infer_instance)

/-! ## line protocol -/

def showResC : Except Fault (Option (Nat × Nat)) → String
  | .ok r => showRes r
  | .error .castWraps => "wrap"
  | .error _ => "panic"

/-- `c08 checked …`: the checked machine-integer model of the code (`panic` for an arithmetic fault);
`c08 model …` / `c08 spec …` as in `Slice.handle`. -/
def handleC : List String → String
  | "checked" :: rest => match parseSel rest with
    | some (s, n) => showResC (viewBoundsC s n)
    | none => "bad-op"
  | rest => handle rest

end SurfModel.Slice
