/-!
C01 — the reference terminal and the specification `display`.

`Screen` is what a terminal shows: a grid of cells (a character in a face, the right half of a wide
character, or `orphan` = the surviving half of a wide character whose other half was overwritten — a
value no drawn surface ever displays), the cursor, the current face and the image placements.
`exec` gives the meaning of the six commands the renderer issues.  The grid is unbounded; only the
cells inside the terminal size are ever compared (`ScreenEq`).

`display` is the specification: what a terminal shows after the surface has been painted from scratch
on a blank terminal — every cell shows its own character in its own face, the cell to the right of a
displayed wide character shows that character's right half, the area of an image is erased (`blankOf`) in the
image cell's face and carries one placement at the image cell.
-/
namespace SurfModel.Screen

/-- kind of a surface cell: character (Unicode scalar value), image (identifier), glyph (identifier) -/
inductive Kind where
  | chr (ch : Nat)
  | img (i : Nat)
  | gly (g : Nat)
deriving DecidableEq, Repr, Inhabited

/-- surface cell (`render::Cell`): face identifier (0 = `Face::default()`) and kind -/
structure Cell where
  face : Nat
  kind : Kind
deriving DecidableEq, Repr, Inhabited

/-- a surface: row → column → cell; only `r < H`, `c < W` matter -/
abbrev Surface := Nat → Nat → Cell

/-- What the model does not look into: display width of a character (`unicode-width`), size of an
image in cells (`Image::size_cells`, rows × columns) and the image a glyph rasterises to. -/
structure Params where
  width : Nat → Nat
  size : Nat → Nat × Nat
  raster : Nat → Nat → Nat
  /-- the face has no attribute that is visible on a blank cell (underline, strike, reverse) -/
  plain : Nat → Bool

/-- what one terminal cell shows -/
inductive SCell where
  | glyph (ch : Nat) (face : Nat)
  | cont
  | orphan
  /-- erased while `face` was current: shows the background of `face` and nothing else -/
  | erased (face : Nat)
deriving DecidableEq, Repr, Inhabited

/-- the commands `TerminalRenderer` issues (`TerminalCommand::{Face, CursorTo, Char, EraseChars, Image, ImageErase}`) -/
inductive Cmd where
  | face (f : Nat)
  | cursorTo (r c : Nat)
  | char (ch : Nat)
  | erase (n : Nat)
  | image (i r c : Nat)
  | imageErase (i r c : Nat)
deriving DecidableEq, Repr

structure Screen where
  grid : Nat → Nat → SCell
  cur : Nat × Nat
  face : Nat
  place : Nat → Nat → Option Nat

/-- Columns `[a, b)` of row `r` are about to be overwritten: a wide character that straddles either
end loses one half, the other half becomes `orphan`. -/
def clobber (g : Nat → Nat → SCell) (r a b : Nat) : Nat → Nat → SCell := fun r' c' =>
  if r' = r then
    if c' + 1 = a ∧ g r a = .cont then .orphan
    else if c' = b ∧ g r b = .cont then .orphan
    else g r' c'
  else g r' c'

def fillRow (g : Nat → Nat → SCell) (r a b : Nat) (v : SCell) : Nat → Nat → SCell := fun r' c' =>
  if r' = r ∧ a ≤ c' ∧ c' < b then v else g r' c'

def setCell (g : Nat → Nat → SCell) (r c : Nat) (v : SCell) : Nat → Nat → SCell := fun r' c' =>
  if r' = r ∧ c' = c then v else g r' c'

/-- What an erased cell shows.  Erasing paints only the background; for a face without attributes
that are visible on a blank cell this cannot be told from a space printed in that face. -/
def blankOf (P : Params) (f : Nat) : SCell := if P.plain f then .glyph 32 f else .erased f

def exec (P : Params) (s : Screen) : Cmd → Screen
  | .face f => { s with face := f }
  | .cursorTo r c => { s with cur := (r, c) }
  | .char ch =>
    let r := s.cur.1
    let c := s.cur.2
    if P.width ch ≥ 2 then
      { s with
        grid := setCell (setCell (clobber s.grid r c (c + 2)) r c (.glyph ch s.face)) r (c + 1) .cont
        cur := (r, c + 2) }
    else if P.width ch = 1 then
      { s with grid := setCell (clobber s.grid r c (c + 1)) r c (.glyph ch s.face), cur := (r, c + 1) }
    else s
  | .erase n =>
    -- ECH; the cursor does not move.  `EraseChars(0)` is not sent to the terminal at all
    -- (`CSI 0 X` would erase one cell), so it changes nothing
    if n = 0 then s else
    let r := s.cur.1
    let c := s.cur.2
    { s with grid := fillRow (clobber s.grid r c (c + n)) r c (c + n) (blankOf P s.face) }
  | .image i r c => { s with place := fun r' c' => if r' = r ∧ c' = c then some i else s.place r' c' }
  | .imageErase i r c =>
    { s with place := fun r' c' => if r' = r ∧ c' = c ∧ s.place r c = some i then none else s.place r' c' }

def execAll (P : Params) (s : Screen) (cs : List Cmd) : Screen := cs.foldl (exec P) s

/-- blank terminal: spaces in the default face, no image -/
def blank : Screen :=
  { grid := fun _ _ => .glyph 32 0, cur := (0, 0), face := 0, place := fun _ _ => none }

/-- same visible content on an `H × W` terminal (cursor and current face are not content) -/
def ScreenEq (H W : Nat) (a b : Screen) : Prop :=
  (∀ r c, r < H → c < W → a.grid r c = b.grid r c) ∧ (∀ r c, a.place r c = b.place r c)

/-! ## specification -/

def isWide (P : Params) (c : Cell) : Bool :=
  match c.kind with
  | .chr ch => decide (P.width ch ≥ 2)
  | _ => false

/-- the image a cell places, if any (a glyph is drawn as the image it rasterises to) -/
def imgOf (P : Params) (c : Cell) : Option Nat :=
  match c.kind with
  | .img i => some i
  | .gly g => some (P.raster c.face g)
  | .chr _ => none

/-- the area of the image cell at `q` contains `p` -/
def covers (P : Params) (s : Surface) (q p : Nat × Nat) : Bool :=
  match imgOf P (s q.1 q.2) with
  | some i =>
    decide (q.1 ≤ p.1 ∧ p.1 < q.1 + (P.size i).1 ∧ q.2 ≤ p.2 ∧ p.2 < q.2 + (P.size i).2)
  | none => false

/-- all positions of an `H × W` grid in row-major order -/
def allPos (H W : Nat) : List (Nat × Nat) :=
  (List.range H).flatMap fun r => (List.range W).map fun c => (r, c)

/-- the image cell (the last one in painting order) whose area contains `p` -/
def coverOf (P : Params) (H W : Nat) (s : Surface) (p : Nat × Nat) : Option (Nat × Nat) :=
  (allPos H W).reverse.find? fun q => covers P s q p

/-- Cell `(r, c)` is the right half of the wide character DISPLAYED at `(r, c-1)`: that cell holds a
wide character, is not itself such a right half and is not hidden under an image (a character hidden
under an image is not displayed and casts no shadow). -/
def shadowed (P : Params) (H W : Nat) (s : Surface) (r : Nat) : Nat → Bool
  | 0 => false
  | c + 1 => isWide P (s r c) && !shadowed P H W s r c && (coverOf P H W s (r, c)).isNone

def displayCell (P : Params) (H W : Nat) (s : Surface) (r c : Nat) : SCell :=
  match coverOf P H W s (r, c) with
  | some q => blankOf P (s q.1 q.2).face
  | none =>
    if shadowed P H W s r c then .cont
    else match (s r c).kind with
      | .chr ch => .glyph ch (s r c).face
      | _ => .orphan

/-- what the terminal shows when surface `s` is painted from scratch -/
def display (P : Params) (H W : Nat) (s : Surface) : Screen :=
  { grid := displayCell P H W s
    cur := (0, 0)
    face := 0
    place := fun r c => if r < H ∧ c < W then imgOf P (s r c) else none }

/-! ## domain -/

/-- Domain of the proved theorem: printable narrow / wide characters, wide ones fit, every image
area lies inside the terminal, image areas are pairwise disjoint, and no wide character is cut by the
edge of an image area (its two cells are both inside the area or both outside; in particular an image
cell never sits in the shadow of a wide character).  Characters hidden under an image are arbitrary
otherwise. -/
def WellPlaced (P : Params) (H W : Nat) (s : Surface) : Prop :=
  (∀ r c ch, r < H → c < W → (s r c).kind = .chr ch → P.width ch = 1 ∨ P.width ch = 2) ∧
  (∀ r c, r < H → c < W → isWide P (s r c) = true → c + 1 < W) ∧
  (∀ r c i, r < H → c < W → imgOf P (s r c) = some i →
    1 ≤ (P.size i).1 ∧ 1 ≤ (P.size i).2 ∧ r + (P.size i).1 ≤ H ∧ c + (P.size i).2 ≤ W) ∧
  (∀ q q' p, q.1 < H → q.2 < W → q'.1 < H → q'.2 < W →
    covers P s q p = true → covers P s q' p = true → q = q') ∧
  (∀ q r c, q.1 < H → q.2 < W → r < H → c < W → isWide P (s r c) = true →
    covers P s q (r, c) = covers P s q (r, c + 1))

/-- executable form of `WellPlaced` (used by the driver and, through `wellPlacedB_sound`, to exhibit members of the domain by `decide`) -/
def wellPlacedB (P : Params) (H W : Nat) (s : Surface) : Bool :=
  let ps := allPos H W
  ps.all (fun p => match (s p.1 p.2).kind with
    | .chr ch => P.width ch == 1 || P.width ch == 2
    | _ => true) &&
  ps.all (fun p => !isWide P (s p.1 p.2) || decide (p.2 + 1 < W)) &&
  ps.all (fun p => match imgOf P (s p.1 p.2) with
    | some i => decide (1 ≤ (P.size i).1 ∧ 1 ≤ (P.size i).2 ∧ p.1 + (P.size i).1 ≤ H ∧ p.2 + (P.size i).2 ≤ W)
    | none => true) &&
  ps.all (fun q => ps.all fun q' => q == q' ||
    ps.all fun p => !(covers P s q p && covers P s q' p)) &&
  ps.all (fun q => ps.all fun p => !isWide P (s p.1 p.2) ||
    (covers P s q p == covers P s q (p.1, p.2 + 1)))

end SurfModel.Screen
