import SurfModel.Vt
import SurfModel.Generated.SgrTables
/-!
# C06 — model of the SGR side of the command decoder (src/decoder.rs) and of `FaceModify::apply`

* `numberDecode` — `number_decode`: right to left, saturating at `usize::MAX`;
* `sgrColor` — `sgr_color(cmds, colon_form)`: consumes a variable number of items from the iterator
  it is given (the remaining `;` groups, or the remaining `:` arguments of the current group);
* `sgrFace` — `sgr_face(data)`: folds the groups of one SGR sequence into one `FaceModify` record;
* `apply` — `FaceModify::apply` on the unpacked form of `FaceAttrs` (underline style + flags; the
  bit packing itself belongs to C19).
The colour tables `COLORS`, `CUBE`, `GREYS` are regenerated from the implementation on every run
(`SurfModel.Generated.SgrTables`).
-/
namespace SurfModel.Sgr
open SurfModel.Vt

structure Rgba where
  r : Nat
  g : Nat
  b : Nat
  a : Nat
  deriving Repr, DecidableEq

/-- `FaceModify` as the decoder builds it -/
structure FMod where
  reset : Bool := false
  fg : Option Rgba := none
  bg : Option Rgba := none
  underline : Option Nat := none
  underlineColor : Option Rgba := none
  bold : Option Bool := none
  italic : Option Bool := none
  blink : Option Bool := none
  strike : Option Bool := none
  deriving Repr, DecidableEq

/-- `Face` with `FaceAttrs` unpacked -/
structure DFace where
  fg : Option Rgba := none
  bg : Option Rgba := none
  under : Nat := 0
  bold : Bool := false
  italic : Bool := false
  blink : Bool := false
  reverse : Bool := false
  strike : Bool := false
  deriving Repr, DecidableEq

/-! ## number_decode -/

def satMul (a b : Nat) : Nat := min usizeMax (a * b)
def satAdd (a b : Nat) : Nat := min usizeMax (a + b)

/-- the loop of `number_decode` over the bytes in reverse order: `(mult, result)` -/
def numberDecodeRev : List Nat → Nat → Nat → Option Nat
  | [], _, result => some result
  | b :: bs, mult, result =>
    if 48 ≤ b ∧ b ≤ 57 then numberDecodeRev bs (satMul mult 10) (satAdd result (satMul (b - 48) mult))
    else none

def numberDecode (data : List Nat) : Option Nat := numberDecodeRev data.reverse 1 0

/-! ## sgr_color -/

def colorOf (t : Nat × Nat × Nat × Nat) : Rgba := ⟨t.1, t.2.1, t.2.2.1, t.2.2.2⟩

/-- 256-colour palette lookup of `sgr_color` -/
def palette (index : Nat) : Option Rgba :=
  if index < 16 then (Generated.colors16[index]?).map colorOf
  else if index < 232 then
    let index := index - 16
    let ri := index / 36
    let index := index - ri * 36
    let gi := index / 6
    let bi := index - gi * 6
    match Generated.cube6[ri]?, Generated.cube6[gi]?, Generated.cube6[bi]? with
    | some r, some g, some b => some ⟨r, g, b, 255⟩
    | _, _, _ => none
  else if index < 256 then
    (Generated.greys24[index - 232]?).map fun v => ⟨v, v, v, 255⟩
  else none

/-- `cmds.next().and_then(number_decode)` together with the advanced iterator -/
def nextNum (cmds : List (List Nat)) : Option Nat × List (List Nat) :=
  match cmds with
  | [] => (none, [])
  | c :: rest => (numberDecode c, rest)

/-- `u8::try_from(x).ok()` -/
def toU8 (x : Nat) : Option Nat := if x ≤ 255 then some x else none

/-- `sgr_color`: the colour (if recognised) and what is left of the iterator -/
def sgrColor (cmds : List (List Nat)) (colon : Bool) : Option Rgba × List (List Nat) :=
  match cmds with
  | [] => (none, [])
  | c0 :: rest =>
    match numberDecode c0 with
    | none => (none, rest)
    | some 5 =>
      (match rest with
       | [] => (none, [])
       | c1 :: rest1 =>
         match numberDecode c1 with
         | none => (none, rest1)
         | some index => (palette index, rest1))
    | some 2 =>
      let n1 := nextNum rest
      let n2 := nextNum n1.2
      let n3 := nextNum n2.2
      let n4 := nextNum n3.2
      if !colon then
        -- exactly three components; the first failure returns
        (match n1.1.bind toU8 with
         | none => (none, n1.2)
         | some r =>
           match n2.1.bind toU8 with
           | none => (none, n2.2)
           | some g =>
             match n3.1.bind toU8 with
             | none => (none, n3.2)
             | some b => (some ⟨r, g, b, 255⟩, n3.2))
      else
        -- three or four components, all four `next()` calls are made
        let rgb : Option (Nat × Nat × Nat) :=
          match n1.1, n2.1, n3.1, n4.1 with
          | some r, some g, some b, none => some (r, g, b)
          | _, some r, some g, some b => some (r, g, b)
          | _, _, _, _ => none
        (match rgb with
         | none => (none, n4.2)
         | some (r, g, b) =>
           match toU8 r, toU8 g, toU8 b with
           | some r, some g, some b => (some ⟨r, g, b, 255⟩, n4.2)
           | _, _, _ => (none, n4.2))
    | some _ => (none, rest)

theorem nextNum_length (cmds : List (List Nat)) : (nextNum cmds).2.length ≤ cmds.length := by
  cases cmds <;> simp [nextNum]

theorem sgrColor_length (cmds : List (List Nat)) (colon : Bool) :
    (sgrColor cmds colon).2.length ≤ cmds.length := by
  unfold sgrColor
  split
  · simp
  · rename_i c0 rest
    have n1 := nextNum_length rest
    have n2 := nextNum_length (nextNum rest).2
    have n3 := nextNum_length (nextNum (nextNum rest).2).2
    have n4 := nextNum_length (nextNum (nextNum (nextNum rest).2).2).2
    simp only [List.length_cons]
    repeat' split
    all_goals ((try dsimp only) <;> (try simp) <;> (try omega))

/-! ## sgr_face -/

/-- one iteration of the `while let Some(group) = groups.next()` loop: new record, remaining groups -/
def sgrFaceStep (face : FMod) (group : List Nat) (rest : List (List Nat)) : FMod × List (List Nat) :=
  let args := splitBy 58 group
  let cmd := match args with | [] => none | a :: _ => numberDecode a
  let argsRest := args.drop 1
  -- `args.size_hint().0 == 0` after the first `next()`: no `:` in the group
  let argsEmpty := argsRest.isEmpty
  let color : Option Rgba × List (List Nat) :=
    if argsEmpty then sgrColor rest false else ((sgrColor argsRest true).1, rest)
  match cmd with
  | none => ({ reset := true }, rest)
  | some 0 => ({ reset := true }, rest)
  | some 1 => ({ face with bold := some true }, rest)
  | some 22 => ({ face with bold := some false }, rest)
  | some 21 => ({ face with underline := some 2 }, rest)
  | some 3 => ({ face with italic := some true }, rest)
  | some 23 => ({ face with italic := some false }, rest)
  | some 4 =>
    let style := match (nextNum argsRest).1 with
      | some 0 => 0 | some 2 => 2 | some 3 => 3 | some 4 => 4 | some 5 => 5 | _ => 1
    ({ face with underline := some style }, rest)
  | some 24 => ({ face with underline := some 0 }, rest)
  | some 5 => ({ face with blink := some true }, rest)
  | some 25 => ({ face with blink := some false }, rest)
  | some 9 => ({ face with strike := some true }, rest)
  | some 29 => ({ face with strike := some false }, rest)
  | some 38 => ({ face with fg := color.1 }, color.2)
  | some 48 => ({ face with bg := color.1 }, color.2)
  | some 58 => ({ face with underlineColor := color.1 }, color.2)
  | some v =>
    if 30 ≤ v ∧ v ≤ 37 then ({ face with fg := (Generated.colors16[v - 30]?).map colorOf }, rest)
    else if 90 ≤ v ∧ v ≤ 97 then ({ face with fg := (Generated.colors16[v - 82]?).map colorOf }, rest)
    else if 40 ≤ v ∧ v ≤ 47 then ({ face with bg := (Generated.colors16[v - 40]?).map colorOf }, rest)
    else if 100 ≤ v ∧ v ≤ 107 then ({ face with bg := (Generated.colors16[v - 92]?).map colorOf }, rest)
    else (face, rest)

theorem sgrFaceStep_length (face : FMod) (group : List Nat) (rest : List (List Nat)) :
    (sgrFaceStep face group rest).2.length ≤ rest.length := by
  have h := sgrColor_length rest false
  unfold sgrFaceStep
  simp only
  repeat' split
  all_goals (try simp_all)

/-- the loop over the `;` groups -/
def sgrFaceLoop (face : FMod) (groups : List (List Nat)) : FMod :=
  match groups with
  | [] => face
  | group :: rest =>
    let r := sgrFaceStep face group rest
    sgrFaceLoop r.1 r.2
termination_by groups.length
decreasing_by
  have := sgrFaceStep_length face group rest
  simp only [List.length_cons]
  omega

/-- `sgr_face(data)` -/
def sgrFace (data : List Nat) : FMod := sgrFaceLoop {} (splitBy 59 data)

/-! ## FaceModify::apply -/

def setFlag (cur : Bool) (update : Option Bool) : Bool :=
  match update with | some v => v | none => cur

/-- `FaceModify::apply(face)` -/
def apply (m : FMod) (face : DFace) : DFace :=
  let face := if m.reset then {} else face
  let face := match m.fg with | some c => { face with fg := some c } | none => face
  let face := match m.bg with | some c => { face with bg := some c } | none => face
  let face := match m.underline with
    | none => face
    | some 0 => { face with under := 0 }
    | some k => { face with under := k }
  { face with
    bold := setFlag face.bold m.bold
    italic := setFlag face.italic m.italic
    blink := setFlag face.blink m.blink
    strike := setFlag face.strike m.strike }

/-! ## line protocol -/

open SurfModel.Proto

def showRgba : Option Rgba → String
  | none => "-"
  | some c => s!"{c.r},{c.g},{c.b},{c.a}"
def showTri : Option Bool → String
  | none => "-" | some true => "1" | some false => "0"
def showOptNat : Option Nat → String
  | none => "-" | some n => toString n
def showBit (b : Bool) : String := if b then "1" else "0"

def showFMod (m : FMod) : String :=
  s!"{showBit m.reset} {showRgba m.fg} {showRgba m.bg} {showOptNat m.underline} {showRgba m.underlineColor} {showTri m.bold} {showTri m.italic} {showTri m.blink} {showTri m.strike}"

def showDFace (f : DFace) : String :=
  s!"{showRgba f.fg} {showRgba f.bg} {f.under} {showBit f.bold} {showBit f.italic} {showBit f.blink} {showBit f.reverse} {showBit f.strike}"

def parseRgba (s : String) : Option (Option Rgba) :=
  if s == "-" then some none else
  match (s.splitOn ",").mapM (·.toNat?) with
  | some [r, g, b, a] => some (some ⟨r, g, b, a⟩)
  | _ => none

def parseDFace : List String → Option DFace
  | [fg, bg, under, bold, italic, blink, reverse, strike] => do
    pure ⟨← parseRgba fg, ← parseRgba bg, ← under.toNat?, ← parseBool bold, ← parseBool italic,
      ← parseBool blink, ← parseBool reverse, ← parseBool strike⟩
  | _ => none

/-- the reference SGR machine on a face: parameters → operations → attribute state (colours given by
palette index are resolved through the decoder's palette) -/
def attrOfDFace (f : DFace) : Attr :=
  ⟨f.fg.map fun c => .inl (c.r, c.g, c.b), f.bg.map fun c => .inl (c.r, c.g, c.b), none,
   f.under, f.bold, f.italic, f.blink, f.reverse, f.strike⟩

def resolveColor : Option ((Nat × Nat × Nat) ⊕ Nat) → Option ((Nat × Nat × Nat) ⊕ Nat)
  | some (.inr i) => (palette i).map fun c => .inl (c.r, c.g, c.b)
  | c => c

/-- what the cell writer can represent of an attribute state: no underline colour, palette indices
resolved to RGB -/
def normAttr (a : Attr) : Attr := { a with fg := resolveColor a.fg, bg := resolveColor a.bg, ul := none }

def showAttr (a : Attr) : String :=
  let col : Option ((Nat × Nat × Nat) ⊕ Nat) → String
    | none => "-"
    | some (.inl (r, g, b)) => s!"{r},{g},{b},255"
    | some (.inr i) => s!"idx{i}"
  s!"{col a.fg} {col a.bg} {a.under} {showBit a.bold} {showBit a.italic} {showBit a.blink} {showBit a.reverse} {showBit a.strike}"

/-- reference: SGR parameter bytes applied to a face with SGR semantics -/
def refApply (data : List Nat) (f : DFace) : Option Attr :=
  (params? data).map fun ps => normAttr ((sgrSem ps).foldl applySgr (attrOfDFace f))

/-- `c06 number <hex>`; `c06 sgrface <hex>` (model of the decoder); `c06 apply <hex> <face…>` (model:
`apply (sgrFace data) face`); `c06 ref <hex> <face…>` (specification: SGR semantics). -/
def handle : List String → String
  | ["number", d] => match unhexN d with
    | some ds => (match numberDecode ds with | some n => toString n | none => "none")
    | none => "bad-op"
  | ["sgrface", d] => match unhexN d with
    | some ds => showFMod (sgrFace ds)
    | none => "bad-op"
  | "apply" :: d :: face => match unhexN d, parseDFace face with
    | some ds, some f => showDFace (apply (sgrFace ds) f)
    | _, _ => "bad-op"
  | "ref" :: d :: face => match unhexN d, parseDFace face with
    | some ds, some f => (match refApply ds f with | some a => showAttr a | none => "not-numeric")
    | _, _ => "bad-op"
  | _ => "bad-op"

end SurfModel.Sgr
