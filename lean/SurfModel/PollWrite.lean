import SurfModel.IOQueue
/-!
Model of the write side of `UnixTerminal` (src/unix.rs): `Write for UnixTerminal`, `execute` (both append
encoded bytes to `write_queue`), `frames_drop`, and the output part of `poll`:

```
self.write_queue.flush()?;
while !self.write_queue.is_empty() || self.events_queue.is_empty() {
    … register tty writable iff !write_queue.is_empty(); select …
    if tty.is_writable() {
        write_queue.consume_with(|slice| { let size = guard_io(self.tty.write(slice), 0)?; …; Ok(size) })?;
    }
    … signals (may `write_all` a size query), waker, input (image handler may write to the queue) …
}
```

The environment (kernel, peer, timing) is an arbitrary *schedule*: one `Iter` per executed loop iteration saying
whether `select` reported the tty writable and how many bytes the `write` accepted (`0` = EAGAIN/EINTR), plus
the writes queued by the rest of the iteration.  The loop may stop after any iteration (time-out, event, error).
-/
namespace SurfModel.PollWrite
open SurfModel.IOQueue SurfModel.Proto

structure Iter where
  /-- `none`: tty not reported writable; `some k`: `write(slice)` accepted `min k |slice|` bytes -/
  writable : Option Nat
  /-- `write` calls on the queue made later in the same iteration (size query on SIGWINCH, image handler) -/
  inject : List (List UInt8)
deriving Repr

inductive TOp where
  /-- `Write::write` / one `write` of the encoder inside `execute` -/
  | write (b : List UInt8)
  | flush
  /-- `frames_drop` -/
  | drop
  | poll (its : List Iter)
deriving Repr

def injectAll (q : Q) : List (List UInt8) → Q × List Ev
  | [] => (q, [])
  | b :: bs =>
    let r := injectAll (q.write b) bs
    (r.1, .write b :: r.2)

/-- one loop iteration -/
def pollIter? (q : Q) (it : Iter) : Option (Q × List Ev) :=
  match (if q.isEmpty then none else it.writable) with
  | none => some (injectAll q it.inject)
  | some k =>
    match q.asSlice? with
    | none => none
    | some s =>
      let size := min k s.length
      match q.consumeWith? (some size) with
      | none => none
      | some q' =>
        let r := injectAll q' it.inject
        some (r.1, .take (s.take size) :: r.2)

def pollLoop? (q : Q) : List Iter → Option (Q × List Ev)
  | [] => some (q, [])
  | it :: its =>
    match pollIter? q it with
    | none => none
    | some (q', evs) =>
      match pollLoop? q' its with
      | none => none
      | some (q'', evs') => some (q'', evs ++ evs')

/-- `poll`, output side -/
def poll? (q : Q) (its : List Iter) : Option (Q × List Ev) :=
  match q.flush? with
  | none => none
  | some q1 =>
    match pollLoop? q1 its with
    | none => none
    | some (q2, evs) => some (q2, .flush :: evs)

def tstep? (q : Q) : TOp → Option (Q × List Ev)
  | .write b => some (q.write b, [.write b])
  | .flush => match q.flush? with
    | some q' => some (q', [.flush])
    | none => none
  | .drop => match q.clearButLast? with
    | some q' => some (q', [.drop q'.length])
    | none => none
  | .poll its => poll? q its

def trun? (q : Q) : List TOp → Option (Q × List Ev)
  | [] => some (q, [])
  | op :: ops =>
    match tstep? q op with
    | none => none
    | some (q', evs) =>
      match trun? q' ops with
      | none => none
      | some (q'', evs') => some (q'', evs ++ evs')

/-! ## line protocol: `t <op> …`
ops: `w:<hex>`, `W:<len>:<tag>` (synthetic printable payload, byte i = 32 + (tag + i) % 95), `f`, `d`,
`p:<a>,<a>,…` one answer per loop iteration: a number (bytes accepted) or `n` (not writable); `p:-` no iteration.
answer: per op `<bytes handed to tty so far>/<chunks_count>/<len>`, then `end <fnv64 of tty bytes>/<len>` -/

def synth (len tag : Nat) : List UInt8 :=
  (List.range len).map fun i => UInt8.ofNat (32 + (tag + i) % 95)

def parseIter (t : String) : Option Iter :=
  if t == "n" then some ⟨none, []⟩ else t.toNat?.map fun k => ⟨some k, []⟩

def parseTOp (t : String) : Option TOp :=
  match t.splitOn ":" with
  | ["f"] => some .flush
  | ["d"] => some .drop
  | ["w", h] => (unhex h).map .write
  | ["W", l, g] => do
    let l ← l.toNat?
    let g ← g.toNat?
    pure (.write (synth l g))
  | ["p", "-"] => some (.poll [])
  | ["p", l] => ((l.splitOn ",").mapM parseIter).map .poll
  | _ => none

def fnvStep (h : UInt64) (b : UInt8) : UInt64 := (h ^^^ b.toUInt64) * 0x100000001b3

def sentBytes : List Ev → List UInt8 → List UInt8
  | [], acc => acc
  | .take o :: evs, acc => sentBytes evs (acc ++ o)
  | _ :: evs, acc => sentBytes evs acc

def takeLen : List Ev → Nat → Nat
  | [], n => n
  | .take o :: evs, n => takeLen evs (n + o.length)
  | _ :: evs, n => takeLen evs n

def runT (q : Q) (sent : Nat) (h : UInt64) : List TOp → List String → List String
  | [], acc => (s!"end {h.toNat}/{q.len}" :: acc).reverse
  | op :: ops, acc =>
    match tstep? q op with
    | none => ("panic" :: acc).reverse
    | some (q', evs) =>
      let sent' := takeLen evs sent
      let h' := (sentBytes evs []).foldl fnvStep h
      runT q' sent' h' ops (s!"{sent'}/{q'.chunksCount}/{q'.len}" :: acc)

def handle : List String → String
  | "t" :: toks =>
    match toks.mapM parseTOp with
    | some ops => " ".intercalate (runT Q.new 0 0xcbf29ce484222325 ops [])
    | none => "bad-args"
  | _ => "bad-op"

end SurfModel.PollWrite
