import SurfModel.IOQueue
/-!
Model of the write side of `UnixTerminal` (src/unix.rs): `Write for UnixTerminal`, `execute` (both append
encoded bytes to `write_queue`), `frames_drop`:

```
self.write_queue.clear_but_last();
if self.size.is_some() { self.write_all(GET_TERM_SIZE).unwrap_or(()); }   // size from escape sequences
```

(`self.size` is fixed by the constructor: `sizeEsc : Bool` is a parameter of the terminal) and the output part
of `poll`:

```
self.write_queue.flush()?;
while !self.write_queue.is_empty() || self.events_queue.is_empty() {
    … register tty writable iff !write_queue.is_empty(); select …
    if tty.is_writable() {
        write_queue.consume_with(|slice| { let size = guard_io(self.tty.write(slice), 0)?; …; Ok(size) })?;
    }
    … signals (may `write_all` a size query), waker, input (image handler may write to the queue) …
}
```

The environment (kernel, peer, timing) is an arbitrary *schedule*: one `Iter` per executed loop iteration saying
whether `select` reported the tty writable and how many bytes the `write` accepted (`0` = EAGAIN/EINTR), plus
the writes queued by the rest of the iteration.  The loop may stop after any iteration (time-out, event, error).
-/
namespace SurfModel.PollWrite
open SurfModel.IOQueue SurfModel.Proto

structure Iter where
  /-- `none`: tty not reported writable; `some k`: `write(slice)` accepted `min k |slice|` bytes -/
  writable : Option Nat
  /-- `write` calls on the queue made later in the same iteration (size query on SIGWINCH, image handler) -/
  inject : List (List UInt8)
deriving Repr

inductive TOp where
  /-- `Write::write` / one `write` of the encoder inside `execute` -/
  | write (b : List UInt8)
  | flush
  /-- `frames_drop` -/
  | drop
  | poll (its : List Iter)
deriving Repr

/-- `GET_TERM_SIZE = b"\x1b[18t\x1b[14t"` -/
def getTermSize : List UInt8 := [0x1b, 0x5b, 0x31, 0x38, 0x74, 0x1b, 0x5b, 0x31, 0x34, 0x74]

def injectAll? (q : Q) : List (List UInt8) → Option (Q × List Ev)
  | [] => some (q, [])
  | b :: bs =>
    match q.write? b with
    | none => none
    | some q' =>
      match injectAll? q' bs with
      | none => none
      | some (q'', evs) => some (q'', .write b :: evs)

/-- one loop iteration -/
def pollIter? (q : Q) (it : Iter) : Option (Q × List Ev) :=
  match (if q.isEmpty then none else it.writable) with
  | none => injectAll? q it.inject
  | some k =>
    match q.asSlice? with
    | none => none
    | some s =>
      let size := min k s.length
      match q.consumeWith? (some size) with
      | none => none
      | some q' =>
        match injectAll? q' it.inject with
        | none => none
        | some (q'', evs) => some (q'', .take (s.take size) :: evs)

def pollLoop? (q : Q) : List Iter → Option (Q × List Ev)
  | [] => some (q, [])
  | it :: its =>
    match pollIter? q it with
    | none => none
    | some (q', evs) =>
      match pollLoop? q' its with
      | none => none
      | some (q'', evs') => some (q'', evs ++ evs')

/-- `poll`, output side -/
def poll? (q : Q) (its : List Iter) : Option (Q × List Ev) :=
  match q.flush? with
  | none => none
  | some q1 =>
    match pollLoop? q1 its with
    | none => none
    | some (q2, evs) => some (q2, .flush :: evs)

/-- `frames_drop`: cut, then (escape-sequence size mode) queue the size query again — `write_all` on the
queue is a single `write`, it extends the chunk that was kept (or starts one when the queue is empty) -/
def framesDrop? (sizeEsc : Bool) (q : Q) : Option (Q × List Ev) :=
  match q.clearButLast? with
  | none => none
  | some q' =>
    if sizeEsc then
      match q'.write? getTermSize with
      | some q'' => some (q'', [.drop q'.length, .write getTermSize])
      | none => none
    else some (q', [.drop q'.length])

def tstep? (sizeEsc : Bool) (q : Q) : TOp → Option (Q × List Ev)
  | .write b => match q.write? b with
    | some q' => some (q', [.write b])
    | none => none
  | .flush => match q.flush? with
    | some q' => some (q', [.flush])
    | none => none
  | .drop => framesDrop? sizeEsc q
  | .poll its => poll? q its

def trun? (sizeEsc : Bool) (q : Q) : List TOp → Option (Q × List Ev)
  | [] => some (q, [])
  | op :: ops =>
    match tstep? sizeEsc q op with
    | none => none
    | some (q', evs) =>
      match trun? sizeEsc q' ops with
      | none => none
      | some (q'', evs') => some (q'', evs ++ evs')

/-! ## line protocol: `t <op> …` (size from ioctl) / `te <op> …` (size from escape sequences)
ops: `w:<hex>`, `W:<len>:<tag>` (synthetic printable payload, byte i = 32 + (tag + i) % 95), `f`, `d`,
`p:<a>,<a>,…` one answer per loop iteration: a number (bytes accepted) or `n` (not writable); `p:-` no iteration.
answer: per op `<bytes handed to tty so far>/<chunks_count>/<len>`, then `end <fnv64 of tty bytes>/<len>` -/

def synth (len tag : Nat) : List UInt8 :=
  (List.range len).map fun i => UInt8.ofNat (32 + (tag + i) % 95)

def parseIter (t : String) : Option Iter :=
  if t == "n" then some ⟨none, []⟩ else t.toNat?.map fun k => ⟨some k, []⟩

def parseTOp (t : String) : Option TOp :=
  match t.splitOn ":" with
  | ["f"] => some .flush
  | ["d"] => some .drop
  | ["w", h] => (unhex h).map .write
  | ["W", l, g] => do
    let l ← l.toNat?
    let g ← g.toNat?
    pure (.write (synth l g))
  | ["p", "-"] => some (.poll [])
  | ["p", l] => ((l.splitOn ",").mapM parseIter).map .poll
  | _ => none

def fnvStep (h : UInt64) (b : UInt8) : UInt64 := (h ^^^ b.toUInt64) * 0x100000001b3

def sentBytes : List Ev → List UInt8 → List UInt8
  | [], acc => acc
  | .take o :: evs, acc => sentBytes evs (acc ++ o)
  | _ :: evs, acc => sentBytes evs acc

def takeLen : List Ev → Nat → Nat
  | [], n => n
  | .take o :: evs, n => takeLen evs (n + o.length)
  | _ :: evs, n => takeLen evs n

def runT (sizeEsc : Bool) (q : Q) (sent : Nat) (h : UInt64) : List TOp → List String → List String
  | [], acc => (s!"end {h.toNat}/{q.len}" :: acc).reverse
  | op :: ops, acc =>
    match tstep? sizeEsc q op with
    | none => ("panic" :: acc).reverse
    | some (q', evs) =>
      let sent' := takeLen evs sent
      let h' := (sentBytes evs []).foldl fnvStep h
      runT sizeEsc q' sent' h' ops (s!"{sent'}/{q'.chunksCount}/{q'.len}" :: acc)

def handle : List String → String
  | kind :: toks =>
    if kind == "t" || kind == "te" then
      match toks.mapM parseTOp with
      | some ops => " ".intercalate (runT (kind == "te") Q.new 0 0xcbf29ce484222325 ops [])
      | none => "bad-args"
    else "bad-op"
  | _ => "bad-op"

end SurfModel.PollWrite
