import SurfModel.Automata
import SurfModel.Generated.KeyTable
/-!
# Production grammars of `src/decoder.rs` as `Re` values (shared by C02 and C04)

One expression per matcher of `TTY_EVENT_AUTOMATA` / `TTY_COMMAND_AUTOMATA`, built with the same combinator
calls in the same order as the Rust `matcher()` bodies (`a + b` is `sequence([a, b])`, `a | b` is
`choice([a, b])`, `NFA::number()` is `digit().some()`), so that `Re.toNFA` reproduces the numbering of the
implementation's NFA: the harness compares `NFA::verif_dump()` of every production matcher with the dump of
`toNFA` of the expression here, numbering included.

Tags.  The production automata are tagged with `MatcherTag<T>`: `Item(event)` on the stop states of the
literal key table, `Matcher(index)` on the stop state of every parsed matcher; the decoder picks the least tag
of an accepting state (`Item(_) < Matcher(_)`, items by the derived order of `TerminalEvent`).  In the model a
tag is a natural number: `keyCode` is an injective, order preserving numbering of keys (derived `Ord` of
`Key`: name first — variant, then payload — then modifier bits) and `Matcher(i)` is `matcherBase + i`, larger
than every key code.

The key table is not transcribed: `SurfModel.Generated.KeyTable` is rewritten from the implementation on every
run (hook `verif_c04::key_table`), and everything stated about it is re-checked.
-/
namespace SurfModel.Grammar
open SurfModel.Automata

/-! ## keys -/

/-- `KeyName` (src/keys.rs), constructors in declaration order (the derived order) -/
inductive KeyName where
  | backspace
  | char (c : Nat)
  | delete
  | insert
  | down
  | «end»
  | enter
  | esc
  | f (n : Nat)
  | home
  | left
  | mouseLeft
  | mouseMiddle
  | mouseMove
  | mouseRight
  | mouseWheelDown
  | mouseWheelUp
  | pageDown
  | pageUp
  | right
  | tab
  | up
  deriving Repr, DecidableEq, Inhabited

/-- position of the variant in the declaration and its payload (0 when there is none) -/
def KeyName.variant : KeyName → Nat × Nat
  | .backspace => (0, 0)
  | .char c => (1, c)
  | .delete => (2, 0)
  | .insert => (3, 0)
  | .down => (4, 0)
  | .end => (5, 0)
  | .enter => (6, 0)
  | .esc => (7, 0)
  | .f n => (8, n)
  | .home => (9, 0)
  | .left => (10, 0)
  | .mouseLeft => (11, 0)
  | .mouseMiddle => (12, 0)
  | .mouseMove => (13, 0)
  | .mouseRight => (14, 0)
  | .mouseWheelDown => (15, 0)
  | .mouseWheelUp => (16, 0)
  | .pageDown => (17, 0)
  | .pageUp => (18, 0)
  | .right => (19, 0)
  | .tab => (20, 0)
  | .up => (21, 0)

def KeyName.ofVariant (v p : Nat) : Option KeyName :=
  match v with
  | 0 => some .backspace | 1 => some (.char p) | 2 => some .delete | 3 => some .insert | 4 => some .down
  | 5 => some .end | 6 => some .enter | 7 => some .esc | 8 => some (.f p) | 9 => some .home
  | 10 => some .left | 11 => some .mouseLeft | 12 => some .mouseMiddle | 13 => some .mouseMove
  | 14 => some .mouseRight | 15 => some .mouseWheelDown | 16 => some .mouseWheelUp | 17 => some .pageDown
  | 18 => some .pageUp | 19 => some .right | 20 => some .tab | 21 => some .up
  | _ => none

/-- `KeyMod` bits (src/keys.rs): SHIFT 1, ALT 2, CTRL 4, SUPER 8, HYPER 16, META 32, CAPSLOCK 64,
    NUMLOCK 128, PRESS 256 -/
structure Key where
  name : KeyName
  mode : Nat
  deriving Repr, DecidableEq, Inhabited

def modShift : Nat := 1
def modAlt : Nat := 2
def modCtrl : Nat := 4
def modPress : Nat := 256
/-- `KeyMod::ALL` -/
def modAll : Nat := 511

/-- order preserving numbering of keys whose payload is below `2^32` and whose mode is below `512` -/
def keyCode3 (v p m : Nat) : Nat := (v * 4294967296 + p) * 512 + m

def Key.code (k : Key) : Nat := keyCode3 k.name.variant.1 k.name.variant.2 k.mode

/-- inverse of `Key.code` -/
def Key.ofCode (c : Nat) : Option Key :=
  (KeyName.ofVariant (c / 512 / 4294967296) (c / 512 % 4294967296)).map fun n => ⟨n, c % 512⟩

/-- tag of `MatcherTag::Matcher(0)`; above every key code (`22 * 2^32 * 512 < 2^48`) -/
def matcherBase : Nat := 281474976710656

/-! ## byte classes -/

def bytes (l : List Nat) : List UInt8 := l.map UInt8.ofNat

def lit (l : List Nat) : Re := .lit (bytes l)

/-- `NFA::digit()` -/
def digit : Re := .pred [(48, 57)]
/-- `NFA::number()` = `digit().some()` -/
def number : Re := .plus digit
/-- `|b| b.is_ascii_alphanumeric()` -/
def alnum : Re := .pred [(48, 57), (65, 90), (97, 122)]
/-- `|b| b.is_ascii_hexdigit()` -/
def hexdigit : Re := .pred [(48, 57), (65, 70), (97, 102)]
/-- `|b| b != 0x1b` -/
def notEsc : Re := .pred [(0, 26), (28, 255)]
/-- `|c| c != 0x1b && c != 0x07` -/
def notEscBel : Re := .pred [(0, 6), (8, 26), (28, 255)]

/-! ## the matchers (declaration order of `TTY_EVENT_AUTOMATA`) -/

/-- 0 `BasicEventsMatcher`: `NFA::choice(cmds)`, `cmds[i] = NFA::from(seq).tag_stop_state(Key(key))`, then
    `tags_map(MatcherTag::Item)`; the table comes from the implementation -/
def keyAlts : List (Re × Option Nat) :=
  Generated.keyTable.map fun e => (lit e.1, some (keyCode3 e.2.1 e.2.2.1 e.2.2.2))

def keysRe : Re := Re.altT keyAlts

/-- 1 `CursorPositionMatcher`: `ESC [ number ; number R` -/
def cursorPositionRe : Re := .seq [lit [27, 91], number, lit [59], number, lit [82]]

/-- 2 `DecModeMatcher`: `ESC [ ? number ; number $ y` -/
def decModeRe : Re := .seq [lit [27, 91, 63], number, lit [59], number, lit [36, 121]]

/-- 3 `DeviceAttrsMatcher`: `ESC [ ? (number ;?)+ c` -/
def deviceAttrsRe : Re := .seq [lit [27, 91, 63], .plus (.seq [number, .opt (lit [59])]), lit [99]]

/-- 4 / command 0 `GraphicRenditionMatcher`: `ESC [ ([0-9:]* ;?)+ m` -/
def sgrRe : Re :=
  .seq [lit [27, 91], .plus (.seq [.star (.pred [(48, 58)]), .opt (lit [59])]), lit [109]]

/-- `key=value` of the kitty image response -/
def kittyKV : Re := .seq [.plus alnum, lit [61], .plus alnum]

/-- 5 `KittyImageMatcher`: `ESC _ G key=value (, key=value)* ; [^ESC]* ESC \` -/
def kittyImageRe : Re :=
  .seq [lit [27, 95, 71], kittyKV, .star (.seq [lit [44], kittyKV]), lit [59], .star notEsc, lit [27, 92]]

/-- 6 `KittyKeyboardMatcher`: `ESC [ (? digit+ | [;:0-9]*) u` -/
def kittyKeyboardRe : Re :=
  .seq [lit [27, 91], .alt [.seq [lit [63], .plus digit], .star (.pred [(48, 59)])], lit [117]]

/-- 7 `MouseEventMatcher`: `ESC [ < number ; number ; number (m|M)` -/
def mouseRe : Re :=
  .seq [lit [27, 91, 60], number, lit [59], number, lit [59], number, .pred [(77, 77), (109, 109)]]

/-- 8 `OSControlMatcher`: `ESC ] number ; [^ESC BEL]+ (ESC \ | BEL)` -/
def oscRe : Re :=
  .seq [lit [27, 93], number, lit [59], .plus notEscBel, .alt [lit [27, 92], lit [7]]]

/-- 9 `ReportSettingMatcher`: `ESC P (0|1) $ r [^ESC]* ESC \` -/
def reportSettingRe : Re :=
  .seq [lit [27, 80], .alt [lit [48], lit [49]], lit [36, 114], .star notEsc, lit [27, 92]]

/-- two hex digits -/
def hexPair : Re := .seq [hexdigit, hexdigit]
def termcapKV : Re := .seq [.plus hexPair, lit [61], .plus hexPair]

/-- 10 `TermCapMatcher`:
    `(ESC P 1 + r (kv (; kv)*)? | ESC P 0 + r (hex+ (; hex+)*)?) ESC \` -/
def termcapRe : Re :=
  .seq [
    .alt [
      .seq [lit [27, 80, 49, 43, 114], .opt (.seq [termcapKV, .star (.seq [lit [59], termcapKV])])],
      .seq [lit [27, 80, 48, 43, 114], .opt (.seq [.plus hexPair, .star (.seq [lit [59], .plus hexPair])])]],
    lit [27, 92]]

/-- `; number ; number t` -/
def sizeTail : Re := .seq [lit [59], number, lit [59], number, lit [116]]

/-- 11 `TermSizeMatcher`: `ESC [ 8 ; h ; w t ESC [ 4 ; h ; w t` -/
def termSizeRe : Re := .seq [lit [27, 91, 56], sizeTail, lit [27, 91, 52], sizeTail]

def range (lo hi : Nat) : Re := .pred [(UInt8.ofNat lo, UInt8.ofNat hi)]
def utf8Tail : Re := range 0x80 0xbf

/-- `utf8_nfa(mode)`: well-formed UTF-8 (Unicode Table 3-7); the one byte class depends on the mode
    (0 canonical `0..0x7f`, 1 printable `0x20..0x7e`, 2 not-escape `0..0x7f` without `0x1b`) -/
def utf8Re (mode : Nat) : Re :=
  let one : Re := match mode with
    | 0 => .pred [(0, 127)]
    | 1 => .pred [(32, 126)]
    | _ => .pred [(0, 26), (28, 127)]
  .alt [
    one,
    .seq [range 0xc2 0xdf, utf8Tail],
    .seq [.seq [range 0xe0 0xe0, range 0xa0 0xbf], utf8Tail],
    .seq [.seq [range 0xe1 0xec, utf8Tail], utf8Tail],
    .seq [.seq [range 0xed 0xed, range 0x80 0x9f], utf8Tail],
    .seq [.seq [range 0xee 0xef, utf8Tail], utf8Tail],
    .seq [.seq [.seq [range 0xf0 0xf0, range 0x90 0xbf], utf8Tail], utf8Tail],
    .seq [.seq [.seq [range 0xf1 0xf3, utf8Tail], utf8Tail], utf8Tail],
    .seq [.seq [.seq [range 0xf4 0xf4, range 0x80 0x8f], utf8Tail], utf8Tail]]

/-- 12 `UTF8Matcher::new(UTF8Mode::Printable)` -/
def utf8PrintableRe : Re := utf8Re 1

/-- 13 `BracketedPasteMatcher`: `ESC [ 200 ~ [^ESC]* ESC [ 201 ~` -/
def pasteRe : Re :=
  .seq [lit [27, 91, 50, 48, 48, 126], .star notEsc, lit [27, 91, 50, 48, 49, 126]]

/-! ## families and the combined automata -/

/-- the matchers of `TTY_EVENT_AUTOMATA`, in registration order (`Family.index` = `MatcherTag::Matcher` index) -/
inductive Family where
  | keys | cursorPosition | decMode | deviceAttrs | sgr | kittyImage | kittyKeyboard | mouse | osc
  | reportSetting | termcap | termSize | utf8 | paste
  deriving Repr, DecidableEq, Inhabited

def Family.index : Family → Nat
  | .keys => 0 | .cursorPosition => 1 | .decMode => 2 | .deviceAttrs => 3 | .sgr => 4 | .kittyImage => 5
  | .kittyKeyboard => 6 | .mouse => 7 | .osc => 8 | .reportSetting => 9 | .termcap => 10 | .termSize => 11
  | .utf8 => 12 | .paste => 13

def Family.all : List Family :=
  [.keys, .cursorPosition, .decMode, .deviceAttrs, .sgr, .kittyImage, .kittyKeyboard, .mouse, .osc,
   .reportSetting, .termcap, .termSize, .utf8, .paste]

def Family.ofIndex (i : Nat) : Option Family := Family.all[i]?

/-- the grammar of a family (untagged, except for the key table whose alternatives carry their key) -/
def grammar : Family → Re
  | .keys => keysRe
  | .cursorPosition => cursorPositionRe
  | .decMode => decModeRe
  | .deviceAttrs => deviceAttrsRe
  | .sgr => sgrRe
  | .kittyImage => kittyImageRe
  | .kittyKeyboard => kittyKeyboardRe
  | .mouse => mouseRe
  | .osc => oscRe
  | .reportSetting => reportSettingRe
  | .termcap => termcapRe
  | .termSize => termSizeRe
  | .utf8 => utf8PrintableRe
  | .paste => pasteRe

/-- tag of the matcher of a parsed family -/
def Family.tag (k : Family) : Nat := matcherBase + k.index

/-- one operand of the `NFA::choice` in `MatcherAutomata::new`: `Either::Right` automata keep their own
    tags, `Either::Left` automata get `tag_stop_state(MatcherTag::Matcher(index))` -/
def eventAlt (k : Family) : Re :=
  match k with
  | .keys => keysRe
  | k => .tag k.tag (grammar k)

/-- the expression whose automaton `MatcherAutomata::new` compiles for `TTY_EVENT_AUTOMATA` -/
def eventRe : Re := .alt (Family.all.map eventAlt)

/-- the matchers of `TTY_COMMAND_AUTOMATA`: 0 SGR, 1 UTF-8 (not escape) -/
def commandGrammars : List Re := [sgrRe, utf8Re 2]

def commandRe : Re := .alt [.tag matcherBase sgrRe, .tag (matcherBase + 1) (utf8Re 2)]

/-- `UTF8DFA` of `Utf8Decoder` -/
def utf8CanonicalRe : Re := utf8Re 0

/-! ## line protocol

`gram nfa <family index>`     → dump of `(grammar k).toNFA`      (must equal `NFA::verif_dump` of the matcher)
`gram cnfa <index>`           → dump of the command matcher's automaton
`gram bisim event|command|utf8 | <m> <dfa-table>` → `Wire.bisim` of the dumped production DFA with `compile` of
                                 the combined automaton of the model
`gram keycode <v> <p> <m>`    → `keyCode3`
-/
open Wire in
def handle : List String → String
  | ["nfa", k] =>
    match k.toNat?.bind Family.ofIndex with
    | some k => showNFA (grammar k).toNFA
    | none => "bad-op"
  | ["cnfa", k] =>
    match k.toNat?.bind (commandGrammars[·]?) with
    | some g => showNFA g.toNFA
    | none => "bad-op"
  | "bisim" :: which :: "|" :: [_, table] =>
    let re? : Option Re := match which with
      | "event" => some eventRe
      | "command" => some commandRe
      | "utf8" => some utf8CanonicalRe
      | _ => none
    match re?, (table.splitOn ";").mapM parseRow with
    | some re, some rows => bisim re.toNFA rows.toArray
    | _, _ => "bad-op"
  | ["keycode", v, p, m] =>
    match v.toNat?, p.toNat?, m.toNat? with
    | some v, some p, some m => toString (keyCode3 v p m)
    | _, _, _ => "bad-op"
  | _ => "bad-op"

end SurfModel.Grammar
