/-!
# RFC 4648 base64 (local copy for C11)

The small pieces C11 needs: the RFC 4648 encoder by groups of three (`rfcEncode`), a strict RFC 4648 decoder
(`rfcDecode`: alphabet only, length a multiple of four, `=` padding only in the last group, canonical zero
bits) — both written from the RFC, on naturals.  `SurfProofs/Lemmas/KittyB64.lean` proves
`rfcDecode (rfcEncode d) = some d`; `SurfProofs/Lemmas/KittyB64Link.lean` proves that these are C14's:
`encTab` is the crate's `BASE64_ENCODE` table, `rfcEncode` = `SurfModel.Base64.rfcEncode` on every input, and
`rfcDecode t = some d ↔ t = SurfModel.Base64.rfcEncode d`.  (Kept as a separate import-free file so that the
protocol specification `SurfModel/KittySpec.lean` does not depend on the model of the crate's codec.)
-/
namespace SurfModel.KittyB64

/-- The alphabet of RFC 4648 table 1 (`BASE64_ENCODE` of `src/encoder.rs`). -/
def encTab : List Nat :=
  [65,66,67,68,69,70,71,72,73,74,75,76,77,78,79,80,81,82,83,84,85,86,87,88,89,90,
   97,98,99,100,101,102,103,104,105,106,107,108,109,110,111,112,113,114,115,116,117,118,119,120,121,122,
   48,49,50,51,52,53,54,55,56,57,43,47]

/-- character (as a byte) of sextet `i` -/
def enc6 (i : Nat) : UInt8 := UInt8.ofNat (encTab.getD i 0)

/-- sextet of an alphabet character, `none` outside the alphabet (so `=` is `none`) -/
def dec6 (c : UInt8) : Option Nat :=
  let c := c.toNat
  if 65 ≤ c ∧ c ≤ 90 then some (c - 65)
  else if 97 ≤ c ∧ c ≤ 122 then some (c - 97 + 26)
  else if 48 ≤ c ∧ c ≤ 57 then some (c - 48 + 52)
  else if c = 43 then some 62
  else if c = 47 then some 63
  else none

/-- `=` -/
def pad : UInt8 := 61

/-- RFC 4648 §4 encoding: 24-bit groups, final group of one or two bytes padded with `=`. -/
def rfcEncode : List UInt8 → List UInt8
  | [] => []
  | [a] =>
    let a := a.toNat
    [enc6 (a / 4), enc6 ((a % 4) * 16), pad, pad]
  | [a, b] =>
    let a := a.toNat; let b := b.toNat
    [enc6 (a / 4), enc6 ((a % 4) * 16 + b / 16), enc6 ((b % 16) * 4), pad]
  | a :: b :: c :: rest =>
    let a := a.toNat; let b := b.toNat; let c := c.toNat
    enc6 (a / 4) :: enc6 ((a % 4) * 16 + b / 16) :: enc6 ((b % 16) * 4 + c / 64) :: enc6 (c % 64)
      :: rfcEncode rest

/-- one full group of four alphabet characters → three bytes -/
def decGroup (x0 x1 x2 x3 : UInt8) : Option (List UInt8) :=
  match dec6 x0, dec6 x1, dec6 x2, dec6 x3 with
  | some s0, some s1, some s2, some s3 =>
    some [UInt8.ofNat (s0 * 4 + s1 / 16), UInt8.ofNat ((s1 % 16) * 16 + s2 / 4), UInt8.ofNat ((s2 % 4) * 64 + s3)]
  | _, _, _, _ => none

/-- the last group: may carry one or two `=`; the unused low bits must be zero (canonical form) -/
def decLast (x0 x1 x2 x3 : UInt8) : Option (List UInt8) :=
  if x2 = pad ∧ x3 = pad then
    match dec6 x0, dec6 x1 with
    | some s0, some s1 => if s1 % 16 = 0 then some [UInt8.ofNat (s0 * 4 + s1 / 16)] else none
    | _, _ => none
  else if x3 = pad then
    match dec6 x0, dec6 x1, dec6 x2 with
    | some s0, some s1, some s2 =>
      if s2 % 4 = 0 then some [UInt8.ofNat (s0 * 4 + s1 / 16), UInt8.ofNat ((s1 % 16) * 16 + s2 / 4)] else none
    | _, _, _ => none
  else decGroup x0 x1 x2 x3

/-- Strict RFC 4648 decoder. -/
def rfcDecode : List UInt8 → Option (List UInt8)
  | [] => some []
  | [x0, x1, x2, x3] => decLast x0 x1 x2 x3
  | x0 :: x1 :: x2 :: x3 :: y :: rest =>
    match decGroup x0 x1 x2 x3, rfcDecode (y :: rest) with
    | some g, some r => some (g ++ r)
    | _, _ => none
  | _ => none

end SurfModel.KittyB64
