import SurfModel.Tokenizer
import SurfModel.Payload
/-!
# C04 — the event decoder as a whole: tokenizer ∘ payload decoders

`TTYEventDecoder` = `MatcherDecoder` (model: `SurfModel.Tokenizer`, generic in the automaton) whose items are
turned into events by the tag of the accepting state (`MatcherTag::Item(event)` → the event,
`MatcherTag::Matcher(i)` → `matchers[i].decode(buffer)`, `None` → `Raw`) — model: `Payload.eventOfTok`.

`SelfDelimiting` is the finite condition on the automaton under which complete sequences are never merged with
their neighbours; `sdCheck` evaluates it (and `Auto.TermOk`) on a dumped DFA table.
-/
namespace SurfModel.Stream
open SurfModel.Tokenizer SurfModel.Payload SurfModel.Grammar SurfModel.Automata

/-- a deterministic automaton together with the tag set of every state (increasing, as `BTreeSet` iterates) -/
structure TAuto (σ : Type) extends Auto σ where
  tags : σ → List Nat

/-- `state_desc.tags.iter().next()` -/
def TAuto.leastTag {σ} (A : TAuto σ) (q : σ) : Option Nat := (A.tags q).head?

def natBytes (bs : List UInt8) : List Nat := bs.map (·.toNat)

/-- what `decode_byte` + `TTYEventDecoder::decode` make of one item of the tokenizer; an accepting state
    without tag is the `expect("found untagged accepting state")` panic -/
def eventOfItem {σ} (A : TAuto σ) : Item σ → Except Stop Event
  | .tok bs q =>
    match A.leastTag q with
    | none => .error .panic
    | some t => eventOfTok t (natBytes bs)
  | .raw bs => .ok (.raw (natBytes bs))

def eventsOfItems {σ} (A : TAuto σ) : List (Item σ) → Except Stop (List Event)
  | [] => .ok []
  | it :: rest =>
    match eventOfItem A it with
    | .error e => .error e
    | .ok ev =>
      match eventsOfItems A rest with
      | .error e => .error e
      | .ok evs => .ok (ev :: evs)

/-- `TTYEventDecoder` fed one read through `decode_into`: all events produced (bytes still pending in the
    decoder give none) -/
def decodeEvents {σ} (A : TAuto σ) (input : List UInt8) : Except Stop (List Event) :=
  match decodeInto A.toAuto (init A.toAuto) input with
  | .error _ => .error .panic
  | .ok (items, _) => eventsOfItems A items

/-- **Self-delimiting**: whenever the decoder would pick the tag of a parsed family in an accepting state, that
    state carries no other tag (no second family and no literal key accepts the same bytes) and is terminal
    (no longer sequence exists) — so the sequence is complete as soon as it is accepted and what decodes it is
    determined by the family alone.  Accepting states whose least tag is a literal key are not constrained:
    keys take priority there (`CSI 1 ; n R`), and ESC-prefixed keys may be extended. -/
def SelfDelimiting {σ} (A : TAuto σ) : Prop :=
  ∀ w q, runA A.toAuto A.start w = some q → A.accepting q = true →
    ∀ t, A.leastTag q = some t → matcherBase ≤ t → A.tags q = [t] ∧ A.terminal q = true

/-! ## dumped tables -/

open Wire in
/-- the automaton of a dumped table (rows of `Wire.parseRow`): state = row index, start = 0 -/
def rowsAuto (rows : Array Row) : TAuto Nat :=
  { start := 0
    step := fun s b => match rows[s]? with
      | some r => (r.next[b.toNat]?).getD none
      | none => none
    accepting := fun s => match rows[s]? with | some r => r.acc | none => false
    terminal := fun s => match rows[s]? with | some r => r.term | none => false
    tags := fun s => match rows[s]? with | some r => r.tags | none => [] }

open Wire in
/-- one row satisfies the self-delimiting condition (an accepting row must be tagged) and `TermOk` -/
def rowOk (r : Row) : Bool :=
  (!r.acc || match r.tags with
    | [] => false
    | t :: rest => decide (t < matcherBase) || (rest.isEmpty && r.term)) &&
  (!r.term || (List.range 256).all fun b => ((r.next[b]?).getD none).isNone)

open Wire in
def sdCheck (rows : Array Row) : Bool := rows.toList.all rowOk

open Wire in
/-- answer of `sd`: `ok <number of accepting non-terminal states> <their least tags, ascending>` or the first
    offending state -/
def sdReport (rows : Array Row) : String :=
  if sdCheck rows then
    let nt := rows.toList.filter fun r => r.acc && !r.term
    s!"ok {nt.length} {SurfModel.Proto.showNatList (sortDedup (nt.filterMap fun r => r.tags.head?))}"
  else
    match rows.toList.zipIdx.find? fun p => !rowOk p.1 with
    | some p => s!"fail state {p.2}"
    | none => "fail"

open Wire in
/-- `sd <name> | <n> <table>` -/
def handle : List String → String
  | _ :: "|" :: [_, table] =>
    match (table.splitOn ";").mapM parseRow with
    | some rows => sdReport rows.toArray
    | none => "bad-table"
  | _ => "bad-op"

end SurfModel.Stream

/-! ## line protocol with an installed table

`sd <name> | <n> <table>` also installs the dumped table; `stream <hex>` then runs the composed model of
`TTYEventDecoder` (tokenizer over the installed table, tag selection, payload decoders) on a byte stream and
prints the events (`-` if none), or `panic` / `ext`. -/
namespace SurfModel.Stream
open SurfModel.Payload SurfModel.Automata

def showEvents : Except Stop (List Event) → String
  | .error .panic => "panic"
  | .error .ext => "ext"
  | .ok [] => "-"
  | .ok evs => " ".intercalate (evs.map showEvent)

open Wire in
def handleWith (rows : Array Row) : List String → Array Row × String
  | _ :: "|" :: [_, table] =>
    match (table.splitOn ";").mapM parseRow with
    | some rs => (rs.toArray, sdReport rs.toArray)
    | none => (rows, "bad-table")
  | ["stream", h] =>
    match SurfModel.Proto.unhex h with
    | some bs => (rows, showEvents (decodeEvents (rowsAuto rows) bs))
    | none => (rows, "bad-op")
  | _ => (rows, "bad-op")

end SurfModel.Stream
