import SurfModel.Proto
import SurfModel.Vt
/-!
Model of the event side of `UnixTerminal` (src/unix.rs): one `poll` call as a loop over *environment answers*,
`dispose` / `Drop` as a straight-line program whose every I/O step may fail, and the part of `new_from_fd` that
saves the line settings.  Mirrors the code statement by statement:

```
fn poll(&mut self, timeout) {
    self.write_queue.flush()?;
    let mut first_loop = true;
    let timeout_instant = timeout.map(|dur| Instant::now() + dur);              -- PollEnv.start
    while !self.write_queue.is_empty() || self.events_queue.is_empty() {
        let delay = match timeout_instant {                                       -- delayOf, Iter.now
            Some(t) => { let now = Instant::now();
                         if t < now { if first_loop { Some(0) } else { break } } else { Some(t - now) } }
            None => None };
        register(tty writable iff !write_queue.is_empty());
        match self.poll.wait(delay) {                                             -- Iter.sel
            Ok(events) => (waker, signal, tty),
            Err(Interrupted | WouldBlock) => continue,                            -- first_loop is NOT cleared
            Err(e) => return Err(e) };
        if tty.is_writable()   { write_queue.consume_with(|s| guard_io(tty.write(s), 0))? }      -- Iter.wr
        if signal.is_readable() { for s in pending() { SIGWINCH => size none: push Resize(size()?)   -- Iter.sigs, sizeOk
                                                                  size some: write_all(GET_TERM_SIZE)
                                                       SIGTERM | SIGINT | SIGQUIT => return Err(Quit) } }
        if waker.is_readable() { if guard_io(waker_read.read(&mut [0; 1024]), 0)? != 0 { push Wake } }  -- Iter.wk
        if tty.is_readable()   { let recv = guard_io(tty.read(&mut [0; 1024]), 0)?;                     -- Iter.inp
                                 if recv == 0 { return Err(Quit) }
                                 for event in decode(..) { Size(..) && size some => push Resize;
                                                           if !image_handler.handle(event)? { push event } } }
        first_loop = false;
    }
    Ok(self.events_queue.pop_front())
}
```

The kernel, the peer, other threads and the clock are the *environment*: every value the code obtains from them
is an answer in `Iter` (one record per loop iteration, consulted in exactly the order above).  Time is in
nanoseconds since an arbitrary origin.  When the answers run out while the loop would go on, the outcome is
`blocked` (never totalised away).  The write queue is `common::IOQueue` with the front chunk already advanced
(SurfModel.IOQueue / C16 carry the offset bookkeeping); bytes are `Nat`s below 256.
The decoder (C02–C04) and the image handler enter as the parameter `Dec`.
-/
namespace SurfModel.PollLoop
open SurfModel.Proto

/-! ## write queue -/

structure WQ where
  chunks : List (List Nat)
deriving Repr, DecidableEq

def WQ.new : WQ := ⟨[]⟩
/-- `is_empty`: no chunk at all -/
def WQ.isEmpty (q : WQ) : Bool := q.chunks.isEmpty
def WQ.len (q : WQ) : Nat := (q.chunks.map List.length).sum
def WQ.chunksCount (q : WQ) : Nat := q.chunks.length
/-- `as_slice`: rest of the front chunk -/
def WQ.asSlice (q : WQ) : List Nat :=
  match q.chunks with
  | [] => []
  | c :: _ => c
/-- `consume(amt)`: advance inside the front chunk, or pop it when `amt` reaches its end -/
def WQ.consume (q : WQ) (amt : Nat) : WQ :=
  match q.chunks with
  | [] => q
  | c :: cs => if c.length > amt then ⟨c.drop amt :: cs⟩ else ⟨cs⟩

def appendLast : List (List Nat) → List Nat → List (List Nat)
  | [], b => [b]
  | [c], b => [c ++ b]
  | c :: d :: cs, b => c :: appendLast (d :: cs) b

/-- `Write::write` -/
def WQ.write (q : WQ) (b : List Nat) : WQ := ⟨appendLast q.chunks b⟩
/-- `Write::flush`: start a new chunk unless the front slice is empty -/
def WQ.flush (q : WQ) : WQ := if q.asSlice.isEmpty then q else ⟨q.chunks ++ [[]]⟩
/-- `clear_but_last` (= `frames_drop`) -/
def WQ.clearButLast (q : WQ) : WQ := ⟨q.chunks.take 1⟩

/-! ## environment answers -/

inductive Sig where
  | winch | term | int | quit
  /-- any other number (`_ => {}`) -/
  | other
deriving Repr, DecidableEq

/-- entries of `events_queue`: `Wake`, `Resize(_)`, or an event produced by the decoder -/
inductive Ev (ε : Type) where
  | wake
  | resize
  | input (e : ε)
deriving Repr, DecidableEq

inductive Err where
  | quit
  | io
deriving Repr, DecidableEq

/-- answer of `select` -/
inductive SelAns where
  | ready (waker signal ttyR ttyW : Bool)
  /-- `Interrupted` / `WouldBlock`: the loop `continue`s -/
  | retry
  | fail
deriving Repr, DecidableEq

/-- answer of `write(tty, slice)` and of `read(waker_read, buf)` -/
inductive IoAns where
  | n (k : Nat)
  /-- EAGAIN / EINTR (`guard_io` turns it into 0) -/
  | again
  | fail
deriving Repr, DecidableEq

/-- answer of `read(tty, buf)`; `bytes []` is end of file -/
inductive InAns where
  | bytes (bs : List Nat)
  | again
  | fail
deriving Repr, DecidableEq

/-- everything one loop iteration learns from outside, in the order the code asks for it -/
structure Iter where
  /-- `Instant::now()` at the top of the iteration (read only when a time-out was given) -/
  now : Nat
  sel : SelAns
  /-- consulted only when the tty was reported writable -/
  wr : IoAns
  /-- `signal_delivery.pending()`, consulted only when the signal pipe was reported readable -/
  sigs : List Sig
  /-- does `size()` (ioctl) succeed -/
  sizeOk : Bool
  /-- consulted only when the waker pipe was reported readable -/
  wk : IoAns
  /-- consulted only when the tty was reported readable -/
  inp : InAns
deriving Repr, DecidableEq

/-- the decoder and the image handler as seen by `poll` -/
structure Dec (ε σ : Type) where
  /-- decode one chunk: new decoder state, events in order.  Total: the Rust loop's `decoder.decode(..)?` would leave
  `poll` on a decoder error and drop the rest of the read buffer; `SurfProofs.C17Link` shows that the production
  tokenizer never takes that path (C02 / C03) -/
  feed : σ → List Nat → σ × List ε
  /-- `TerminalEvent::Size(_)` -/
  isSize : ε → Bool
  /-- `TerminalEvent::DeviceAttrs(_)` (the sync event `dispose` and `position` wait for) -/
  isDA : ε → Bool
  /-- `TerminalEvent::CursorPosition(_)` -/
  isCpr : ε → Bool
  /-- `image_handler.handle`: consumed?, bytes it appends to the write queue -/
  handle : ε → Bool × List Nat

structure St (ε σ : Type) where
  wq : WQ
  evq : List (Ev ε)
  dec : σ
  /-- `self.size.is_some()`: size comes from escape sequences rather than ioctl -/
  sizeEsc : Bool

/-- system calls made by `poll` -/
inductive Sys where
  | select (delay : Option Nat) (wantWrite : Bool)
  /-- `write(tty, offered)` accepted `offered.take accepted` -/
  | ttyWrite (offered : List Nat) (accepted : Nat)
  | ttyWriteFail
  | sigPending
  | ioctlSize
  | wakerRead (k : Nat)
  /-- `read(tty, buf)` returned these bytes (`[]`: 0 / EAGAIN) -/
  | ttyRead (bs : List Nat)
deriving Repr, DecidableEq

/-- `ESC [ 18 t ESC [ 14 t` -/
def getTermSize : List Nat := [27, 91, 49, 56, 116, 27, 91, 49, 52, 116]

/-- state threaded through one `poll`: terminal state, system calls so far, events pushed so far -/
structure Acc (ε σ : Type) where
  st : St ε σ
  log : List Sys
  pushed : List (Ev ε)

variable {ε σ : Type}

def Acc.push (a : Acc ε σ) (e : Ev ε) : Acc ε σ :=
  { a with st := { a.st with evq := a.st.evq ++ [e] }, pushed := a.pushed ++ [e] }
def Acc.sys (a : Acc ε σ) (s : Sys) : Acc ε σ := { a with log := a.log ++ [s] }
def Acc.setWq (a : Acc ε σ) (q : WQ) : Acc ε σ := { a with st := { a.st with wq := q } }
def Acc.setDec (a : Acc ε σ) (s : σ) : Acc ε σ := { a with st := { a.st with dec := s } }

/-- "process pending output" -/
def phaseWrite (a : Acc ε σ) (tw : Bool) (wr : IoAns) : Acc ε σ × Option Err :=
  if tw then
    let slice := a.st.wq.asSlice
    match wr with
    | .fail => (a.sys .ttyWriteFail, some .io)
    | .again => ((a.sys (.ttyWrite slice 0)).setWq (a.st.wq.consume 0), none)
    | .n k =>
      let size := min k slice.length
      ((a.sys (.ttyWrite slice size)).setWq (a.st.wq.consume size), none)
  else (a, none)

/-- "process signals": the loop over `pending()` -/
def signalLoop (a : Acc ε σ) (sizeOk : Bool) : List Sig → Acc ε σ × Option Err
  | [] => (a, none)
  | s :: rest =>
    match s with
    | .winch =>
      if a.st.sizeEsc then signalLoop (a.setWq (a.st.wq.write getTermSize)) sizeOk rest
      else if sizeOk then signalLoop ((a.sys .ioctlSize).push .resize) sizeOk rest
      else (a.sys .ioctlSize, some .io)
    | .term | .int | .quit => (a, some .quit)
    | .other => signalLoop a sizeOk rest

def phaseSignals (a : Acc ε σ) (sr : Bool) (sigs : List Sig) (sizeOk : Bool) : Acc ε σ × Option Err :=
  if sr then signalLoop (a.sys .sigPending) sizeOk sigs else (a, none)

/-- "process waker": one read of at most 1024 bytes; `Wake` iff it returned a non-zero count -/
def phaseWaker (a : Acc ε σ) (wr : Bool) (wk : IoAns) : Acc ε σ × Option Err :=
  if wr then
    match wk with
    | .fail => (a, some .io)
    | .again => (a.sys (.wakerRead 0), none)
    | .n k =>
      let k' := min k 1024
      if k' != 0 then ((a.sys (.wakerRead k')).push .wake, none) else (a.sys (.wakerRead 0), none)
  else (a, none)

/-- the `while let Some(event) = decoder.decode(..)` loop -/
def pushDecoded (d : Dec ε σ) (a : Acc ε σ) : List ε → Acc ε σ
  | [] => a
  | e :: es =>
    let a1 := if d.isSize e && a.st.sizeEsc then a.push .resize else a
    let h := d.handle e
    let a2 := if h.2.isEmpty then a1 else a1.setWq (a1.st.wq.write h.2)
    let a3 := if h.1 then a2 else a2.push (.input e)
    pushDecoded d a3 es

/-- "process pending input": one read of at most 1024 bytes -/
def phaseInput (d : Dec ε σ) (a : Acc ε σ) (tr : Bool) (inp : InAns) : Acc ε σ × Option Err :=
  if tr then
    match inp with
    | .fail => (a, some .io)
    | .again => (a.sys (.ttyRead []), some .quit)
    | .bytes bs =>
      let bs := bs.take 1024
      if bs.isEmpty then (a.sys (.ttyRead []), some .quit)
      else
        let r := d.feed a.st.dec bs
        (pushDecoded d ((a.sys (.ttyRead bs)).setDec r.1) r.2, none)
  else (a, none)

/-- the four phases of an iteration whose `select` succeeded -/
def body (d : Dec ε σ) (a : Acc ε σ) (it : Iter) (wk sg tr tw : Bool) : Acc ε σ × Option Err :=
  match phaseWrite a tw it.wr with
  | (a1, some e) => (a1, some e)
  | (a1, none) =>
    match phaseSignals a1 sg it.sigs it.sizeOk with
    | (a2, some e) => (a2, some e)
    | (a2, none) =>
      match phaseWaker a2 wk it.wk with
      | (a3, some e) => (a3, some e)
      | (a3, none) => phaseInput d a3 tr it.inp

inductive Delay where
  | brk
  | wait (d : Option Nat)
deriving Repr, DecidableEq

/-- "process timeout" -/
def delayOf (deadline : Option Nat) (now : Nat) (first : Bool) : Delay :=
  match deadline with
  | none => .wait none
  | some dl => if dl < now then (if first then .wait (some 0) else .brk) else .wait (some (dl - now))

inductive Exit where
  | ok
  | err (e : Err)
  /-- the answers ran out while the loop would call `select` again -/
  | blocked
deriving Repr, DecidableEq

structure LoopRes (ε σ : Type) where
  acc : Acc ε σ
  exit : Exit
  rest : List Iter

/-- does the `while` condition hold -/
def goOn (st : St ε σ) : Bool := !st.wq.isEmpty || st.evq.isEmpty

/-- outcome of one iteration: go on (with the new `first_loop`), or leave the loop -/
inductive StepRes (ε σ : Type) where
  | next (first : Bool) (a : Acc ε σ)
  | stop (a : Acc ε σ) (ex : Exit)

/-- one iteration of the `while` loop (its condition holds) -/
def step (d : Dec ε σ) (deadline : Option Nat) (it : Iter) (first : Bool) (a : Acc ε σ) : StepRes ε σ :=
  match delayOf deadline it.now first with
  | .brk => .stop a .ok
  | .wait delay =>
    -- a writable tty can only be reported when it was registered for writing
    let want := !a.st.wq.isEmpty
    let a0 := a.sys (.select delay want)
    match it.sel with
    | .retry => .next first a0
    | .fail => .stop a0 (.err .io)
    | .ready wk sg tr tw =>
      match body d a0 it wk sg tr (tw && want) with
      | (a1, some e) => .stop a1 (.err e)
      | (a1, none) => .next false a1

/-- the `while` loop -/
def loop (d : Dec ε σ) (deadline : Option Nat) : List Iter → Bool → Acc ε σ → LoopRes ε σ
  | [], _, a => if goOn a.st then ⟨a, .blocked, []⟩ else ⟨a, .ok, []⟩
  | it :: rest, first, a =>
    if goOn a.st then
      match step d deadline it first a with
      | .next f a' => loop d deadline rest f a'
      | .stop a' ex => ⟨a', ex, rest⟩
    else ⟨a, .ok, it :: rest⟩

structure PollEnv where
  /-- `Instant::now()` at the entry of `poll` (read only when a time-out was given) -/
  start : Nat
  its : List Iter
deriving Repr, DecidableEq

inductive Res (ε : Type) where
  | ok (e : Option (Ev ε))
  | err (e : Err)
  | blocked
deriving Repr, DecidableEq

structure PollRes (ε σ : Type) where
  st : St ε σ
  res : Res ε
  log : List Sys
  pushed : List (Ev ε)
  /-- answers not consumed -/
  rest : List Iter

/-- `Terminal::poll(timeout)` -/
def poll (d : Dec ε σ) (st : St ε σ) (timeout : Option Nat) (env : PollEnv) : PollRes ε σ :=
  let a : Acc ε σ := ⟨{ st with wq := st.wq.flush }, [], []⟩
  let r := loop d (timeout.map (env.start + ·)) env.its true a
  match r.exit with
  | .ok =>
    match r.acc.st.evq with
    | [] => ⟨r.acc.st, .ok none, r.acc.log, r.acc.pushed, r.rest⟩
    | e :: es => ⟨{ r.acc.st with evq := es }, .ok (some e), r.acc.log, r.acc.pushed, r.rest⟩
  | .err e => ⟨r.acc.st, .err e, r.acc.log, r.acc.pushed, r.rest⟩
  | .blocked => ⟨r.acc.st, .blocked, r.acc.log, r.acc.pushed, r.rest⟩

/-- `frames_drop`: `clear_but_last`, and — when the size comes from escape sequences — ask for the size again:
the query that answers a SIGWINCH travels through the same queue and may have been in a dropped frame -/
def framesDrop (st : St ε σ) : St ε σ :=
  let q := st.wq.clearButLast
  { st with wq := if st.sizeEsc then q.write getTermSize else q }

/-! ## `dispose` / `Drop` -/

/-- the commands of the epilogue, in order: default face, show cursor, mouse motions / SGR / report off,
auto-wrap on, keyboard level 0, DA1 (sync) -/
def epilogueCmds : List Vt.Cmd :=
  [ .face ⟨none, none, 0, false, false, false, false, false⟩,
    .decModeSet true 25, .decModeSet false 1003, .decModeSet false 1006, .decModeSet false 1000,
    .decModeSet true 7, .keyboardLevel 0, .deviceAttrs ]

def epilogue (caps : Vt.Caps) : List (List Nat) := epilogueCmds.map (Vt.encode caps)

/-- answer of one `execute` of the epilogue: done, or failed after queueing a prefix of its bytes -/
inductive ExecAns where
  | ok
  | fail (written : Nat)
deriving Repr, DecidableEq

/-- `execute_many(..)`: `try_for_each` stops at the first failing command (the error is then ignored) -/
def execMany (q : WQ) : List (List Nat) → List ExecAns → WQ
  | [], _ => q
  | c :: cs, [] => execMany (q.write c) cs []
  | c :: cs, .ok :: as => execMany (q.write c) cs as
  | c :: _, .fail k :: _ => if k = 0 then q else q.write (c.take k)

/-- system calls of `dispose` -/
inductive DSys (τ : Type) where
  | poll (s : Sys)
  /-- `signal_delivery.handle().close(); signal_delivery.pending().for_each(drop)`: stop listening, forget the
  signals nobody has seen yet (so that a pending termination signal cannot cut the closing sequence short) -/
  | sigOff
  /-- `signal_delivery.handle().close()` -/
  | sigClose
  | tcsetattr (t : τ)
deriving Repr, DecidableEq

structure DEnv where
  exec : List ExecAns
  /-- answers for the successive `poll(Some(1 s))` calls of the wait loop -/
  polls : List PollEnv
  /-- does the final `tcsetattr` succeed -/
  restoreOk : Bool
deriving Repr, DecidableEq

inductive DRes where
  | ok
  | err
  /-- the answers ran out: `dispose` would still be waiting for the sync event -/
  | blocked
deriving Repr, DecidableEq

def second : Nat := 1000000000

/-- the loop `match self.poll(Some(1 s)) { Err(_) | Ok(Some(DeviceAttrs)) | Ok(None) => break, _ => {} }`;
`true` = left the loop, `false` = answers ran out -/
def waitSync (d : Dec ε σ) : List PollEnv → St ε σ → List Sys → St ε σ × List Sys × Bool
  | [], st, log => (st, log, false)
  | env :: rest, st, log =>
    let r := poll d st (some second) env
    match r.res with
    | .blocked => (r.st, log ++ r.log, false)
    | .err _ => (r.st, log ++ r.log, true)
    | .ok none => (r.st, log ++ r.log, true)
    | .ok (some (.input e)) => if d.isDA e then (r.st, log ++ r.log, true) else waitSync d rest r.st (log ++ r.log)
    | .ok (some _) => waitSync d rest r.st (log ++ r.log)

structure DisposeOut (ε σ τ : Type) where
  st : St ε σ
  log : List (DSys τ)
  res : DRes

/-- `UnixTerminal::dispose` (called by `Drop`, which ignores the result) -/
def dispose {τ : Type} (d : Dec ε σ) (epi : List (List Nat)) (saved : τ) (st : St ε σ) (env : DEnv) :
    DisposeOut ε σ τ :=
  -- self.frames_drop(); signal handle closed, pending signals dropped
  let st1 := framesDrop st
  -- self.execute_many([...]).unwrap_or(())
  let st2 := { st1 with wq := execMany st1.wq epi env.exec }
  -- loop { match self.poll(Some(1 s)) … }
  match waitSync d env.polls st2 [] with
  | (st3, log, false) => ⟨st3, .sigOff :: log.map .poll, .blocked⟩
  | (st3, log, true) =>
    -- self.signal_delivery.handle().close(); tcsetattr(tty, Flush, &self.termios_saved)?
    ⟨st3, .sigOff :: log.map .poll ++ [.sigClose, .tcsetattr saved], if env.restoreOk then .ok else .err⟩

/-! ## `position` -/

/-- `ESC [ 6 n` (`CursorGet`) and `ESC [ c` (`DeviceAttrs`, the sync event) -/
def cursorGet : List Nat := [27, 91, 54, 110]
def deviceAttrs : List Nat := [27, 91, 99]

inductive PosRes where
  | ok
  | err (e : Err)
  /-- the answers ran out: `position` would still be waiting for the sync event -/
  | blocked
deriving Repr, DecidableEq

structure PosOut (ε σ : Type) where
  st : St ε σ
  res : PosRes
  /-- events queued by the inner polls -/
  pushed : List (Ev ε)
  /-- events the inner polls handed to `position`, in order -/
  taken : List (Ev ε)

/-- is this the report `position` consumes itself (cursor position, or the device attributes that end the wait) -/
def isSync (d : Dec ε σ) : Ev ε → Bool
  | .input e => d.isDA e || d.isCpr e
  | _ => false

/-- the loop `loop { match self.poll(None) { Err(e) => break Err(e), Ok(None) | Ok(Some(DeviceAttrs)) => break Ok(pos),
Ok(Some(CursorPosition(p))) => pos = p, Ok(Some(event)) => queue.push(event) } }` followed — on EVERY way out — by
`for event in queue.into_iter().rev() { events_queue.push_front(event) }`; `aside` is the local `queue` -/
def positionLoop (d : Dec ε σ) : List PollEnv → St ε σ → List (Ev ε) → List (Ev ε) → List (Ev ε) → PosOut ε σ
  | [], st, _, pushed, taken => ⟨st, .blocked, pushed, taken⟩
  | env :: rest, st, aside, pushed, taken =>
    let r := poll d st none env
    match r.res with
    | .blocked => ⟨r.st, .blocked, pushed ++ r.pushed, taken⟩
    | .err e => ⟨{ r.st with evq := aside ++ r.st.evq }, .err e, pushed ++ r.pushed, taken⟩
    -- (`poll(None)` never returns `None`: `C17_position`)
    | .ok none => ⟨{ r.st with evq := aside ++ r.st.evq }, .ok, pushed ++ r.pushed, taken⟩
    | .ok (some (.input e)) =>
      if d.isDA e then ⟨{ r.st with evq := aside ++ r.st.evq }, .ok, pushed ++ r.pushed, taken ++ [.input e]⟩
      else if d.isCpr e then positionLoop d rest r.st aside (pushed ++ r.pushed) (taken ++ [.input e])
      else positionLoop d rest r.st (aside ++ [.input e]) (pushed ++ r.pushed) (taken ++ [.input e])
    | .ok (some e) => positionLoop d rest r.st (aside ++ [e]) (pushed ++ r.pushed) (taken ++ [e])

/-- `Terminal::position`: queue the two queries, then wait for the sync event, setting other events aside -/
def position (d : Dec ε σ) (st : St ε σ) (envs : List PollEnv) : PosOut ε σ :=
  positionLoop d envs { st with wq := (st.wq.write cursorGet).write deviceAttrs } [] [] []

/-! ## the part of `new_from_fd` that touches the line settings -/

structure OpenEnv (τ : Type) where
  nonblockOk : Bool
  isatty : Bool
  /-- answer of `tcgetattr` -/
  getattr : Option τ
  setRawOk : Bool
  /-- socket pairs, signal registration -/
  pipesOk : Bool

inductive OSys (τ : Type) where
  | setNonblocking
  | isatty
  | tcgetattr
  | tcsetattr (t : τ)
  | pipes
deriving Repr, DecidableEq

/-- `new_from_fd` up to the construction of `Self`: the saved settings, or the error; with the system calls made -/
def openTty {τ : Type} (makeRaw : τ → τ) (env : OpenEnv τ) : Option τ × List (OSys τ) :=
  if !env.nonblockOk then (none, [.setNonblocking])
  else if !env.isatty then (none, [.setNonblocking, .isatty])
  else match env.getattr with
    | none => (none, [.setNonblocking, .isatty, .tcgetattr])
    | some t =>
      -- let termios_saved = tcgetattr(&tty)?; let mut termios = termios_saved.clone(); termios.make_raw();
      if !env.setRawOk then (none, [.setNonblocking, .isatty, .tcgetattr, .tcsetattr (makeRaw t)])
      else if !env.pipesOk then (none, [.setNonblocking, .isatty, .tcgetattr, .tcsetattr (makeRaw t), .pipes])
      else (some t, [.setNonblocking, .isatty, .tcgetattr, .tcsetattr (makeRaw t), .pipes])

/-! ## line protocol

The driver instantiates the decoder with `simpleDec`, which covers what the harness' peer sends: printable
ASCII (one key event per byte) and CSI sequences (`ESC [ … final`), `c` final = device attributes, the pair
`ESC [ 8 ; h ; w t ESC [ 4 ; h ; w t` = one size report.  It is NOT the production decoder (C02–C04 model that); the tie checked here is the loop.
-/

inductive SEv where
  | key (b : Nat)
  | da
  | size
  | cpr
  | other (bs : List Nat)
deriving Repr, DecidableEq

/-- split complete tokens off the front of `bs`; returns events and the unfinished rest -/
def scan : Nat → List Nat → List SEv → List SEv × List Nat
  | 0, bs, acc => (acc.reverse, bs)
  | _, [], acc => (acc.reverse, [])
  | fuel + 1, b :: bs, acc =>
    if b = 27 then
      match bs with
      | [] => (acc.reverse, [27])
      | 91 :: body =>
        let params := body.takeWhile (fun c => !(0x40 ≤ c && c < 0x7f))
        match body.drop params.length with
        | [] => (acc.reverse, b :: bs)
        | fin :: rest =>
          if fin = 116 && params.head? == some 56 then
            -- `ESC [ 8 ; h ; w t` must be followed by `ESC [ 4 ; h ; w t`: one size event for the pair
            match rest with
            | [] => (acc.reverse, b :: bs)
            | [27] => (acc.reverse, b :: bs)
            | 27 :: 91 :: body2 =>
              let params2 := body2.takeWhile (fun c => !(0x40 ≤ c && c < 0x7f))
              match body2.drop params2.length with
              | [] => (acc.reverse, b :: bs)
              | fin2 :: rest2 =>
                if fin2 = 116 && params2.head? == some 52 then scan fuel rest2 (SEv.size :: acc)
                else scan fuel rest (SEv.other (27 :: 91 :: params ++ [fin]) :: acc)
            | _ => scan fuel rest (SEv.other (27 :: 91 :: params ++ [fin]) :: acc)
          else
            let ev := if fin = 99 then SEv.da else if fin = 82 then SEv.cpr else SEv.other (27 :: 91 :: params ++ [fin])
            scan fuel rest (ev :: acc)
      | c :: rest => scan fuel rest (SEv.other [27, c] :: acc)
    else scan fuel bs (SEv.key b :: acc)

def simpleDec : Dec SEv (List Nat) where
  feed := fun pending bs =>
    let all := pending ++ bs
    let r := scan (all.length + 1) all []
    (r.2, r.1)
  isSize := fun e => e == .size
  isDA := fun e => e == .da
  isCpr := fun e => e == .cpr
  handle := fun _ => (false, [])

def showSEv : SEv → String
  | .key b => s!"k{b}"
  | .da => "da"
  | .size => "sz"
  | .cpr => "cpr"
  | .other bs => "o" ++ hex (bs.map UInt8.ofNat)

def showEv : Ev SEv → String
  | .wake => "wake"
  | .resize => "resize"
  | .input e => showSEv e

def showEvs (l : List (Ev SEv)) : String := if l.isEmpty then "-" else ",".intercalate (l.map showEv)

def showRes : Res SEv → String
  | .ok none => "ok:none"
  | .ok (some e) => "ok:" ++ showEv e
  | .err .quit => "err:quit"
  | .err .io => "err:io"
  | .blocked => "blocked"

def unhexNat (s : String) : Option (List Nat) := (unhex s).map (·.map UInt8.toNat)

def parseBool (c : Char) : Option Bool := if c = '1' then some true else if c = '0' then some false else none

def parseSel (s : String) : Option SelAns :=
  match s.toList with
  | ['e'] => some .retry
  | ['x'] => some .fail
  | ['r', a, b, c, d] => do
    let a ← parseBool a
    let b ← parseBool b
    let c ← parseBool c
    let d ← parseBool d
    pure (.ready a b c d)
  | _ => none

def parseIo (s : String) : Option IoAns :=
  if s == "a" then some .again else if s == "x" then some .fail
  else if s == "-" then some (.n 0) else s.toNat?.map .n

def parseSig (c : Char) : Option Sig :=
  if c = 'w' then some .winch else if c = 't' then some .term else if c = 'i' then some .int
  else if c = 'q' then some .quit else if c = 'o' then some .other else none

def parseSigs (s : String) : Option (List Sig) := if s == "-" then some [] else s.toList.mapM parseSig

def parseIn (s : String) : Option InAns :=
  if s == "a" then some .again else if s == "x" then some .fail else (unhexNat s).map .bytes

/-- `now;sel;wr;sigs;sizeOk;wk;inp` -/
def parseIter (s : String) : Option Iter :=
  match s.splitOn ";" with
  | [now, sel, wr, sigs, ok, wk, inp] => do
    let now ← now.toNat?
    let sel ← parseSel sel
    let wr ← parseIo wr
    let sigs ← parseSigs sigs
    let ok ← (match ok.toList with | [c] => parseBool c | _ => none)
    let wk ← parseIo wk
    let inp ← parseIn inp
    pure ⟨now, sel, wr, sigs, ok, wk, inp⟩
  | _ => none

def parseIters (s : String) : Option (List Iter) :=
  if s == "-" then some [] else (s.splitOn "|").mapM parseIter

/-- `start~iters` -/
def parsePollEnv (s : String) : Option PollEnv :=
  match s.splitOn "~" with
  | [st, its] => do
    let st ← st.toNat?
    let its ← parseIters its
    pure ⟨st, its⟩
  | _ => none

def parseExec (s : String) : Option ExecAns :=
  if s == "1" then some .ok
  else match s.toList with
    | 'f' :: rest => (String.ofList rest).toNat?.map .fail
    | _ => none

/-- synthetic printable payload: byte i = 32 + (tag + i) % 95 -/
def synth (len tag : Nat) : List Nat := (List.range len).map fun i => 32 + (tag + i) % 95

inductive TOp where
  /-- `new_from_fd`: answer of `tcgetattr` (a token) and the outcome pattern `nonblock isatty setraw pipes` -/
  | openT (t : String) (env : List Bool)
  | write (b : List Nat)
  | flush
  | drop
  | poll (timeout : Option Nat) (env : PollEnv)
  /-- `dispose` with the given capabilities (`depth`, `kitty`) -/
  | dispose (caps : Vt.Caps) (env : DEnv)
  /-- use escape sequences for the size (`self.size = Some(..)`) -/
  | sizeEsc (on : Bool)
  /-- `position()` with the answers for its inner polls -/
  | position (envs : List PollEnv)

def parseCaps (s : String) : Option Vt.Caps :=
  match s.toList with
  | [d, k] => do
    let depth ← (if d = 't' then some Vt.Depth.trueColor else if d = 'e' then some .eightBit
      else if d = 'g' then some .gray else none)
    let k ← parseBool k
    pure ⟨depth, k⟩
  | _ => none

def parseTOp (t : String) : Option TOp :=
  match t.splitOn ":" with
  | ["o", tok, pat] => (pat.toList.mapM parseBool).map (.openT tok)
  | ["w", h] => (unhexNat h).map .write
  | ["W", l, g] => do
    let l ← l.toNat?
    let g ← g.toNat?
    pure (.write (synth l g))
  | ["f"] => some .flush
  | ["d"] => some .drop
  | ["z", b] => (match b.toList with | [c] => (parseBool c).map .sizeEsc | _ => none)
  | ["p", to, env] => do
    let to ← (if to == "n" then some none else to.toNat?.map some)
    let env ← parsePollEnv env
    pure (.poll to env)
  | ["q", polls] => do
    let polls ← (if polls == "-" then some [] else (polls.splitOn "/").mapM parsePollEnv)
    pure (.position polls)
  | ["x", caps, ex, polls, ok] => do
    let caps ← parseCaps caps
    let ex ← (if ex == "-" then some [] else (ex.splitOn ",").mapM parseExec)
    let polls ← (if polls == "-" then some [] else (polls.splitOn "/").mapM parsePollEnv)
    let ok ← (match ok.toList with | [c] => parseBool c | _ => none)
    pure (.dispose caps ⟨ex, polls, ok⟩)
  | _ => none

/-- bytes handed to the tty by a run of system calls -/
def handed : List Sys → List Nat
  | [] => []
  | .ttyWrite off k :: rest => off.take k ++ handed rest
  | _ :: rest => handed rest

def showQ (st : St SEv (List Nat)) : String := s!"q{st.wq.len}/{st.wq.chunksCount}e{st.evq.length}"

/-- per-iteration view of a poll's system calls: waker bytes read and tty bytes read, in order -/
def showReads : List Sys → List String
  | [] => []
  | .wakerRead k :: rest => s!"W{k}" :: showReads rest
  | .ttyRead bs :: rest => s!"R{bs.length}" :: showReads rest
  | .ttyWrite off k :: rest => s!"T{off.length}>{k}" :: showReads rest
  | .select dl w :: rest =>
    ((match dl with | none => "Sn" | some d => s!"S{d}") ++ (if w then "w1" else "w0")) :: showReads rest
  | _ :: rest => showReads rest

def showDLog : List (DSys String) → List Nat → List String → List String
  | [], pend, acc => (if pend.isEmpty then acc else s!"W{hex (pend.map UInt8.ofNat)}" :: acc).reverse
  | .poll (.ttyWrite off k) :: rest, pend, acc => showDLog rest (pend ++ off.take k) acc
  | .poll _ :: rest, pend, acc => showDLog rest pend acc
  | .sigOff :: rest, pend, acc =>
    showDLog rest [] ("X" :: (if pend.isEmpty then acc else s!"W{hex (pend.map UInt8.ofNat)}" :: acc))
  | .sigClose :: rest, pend, acc =>
    showDLog rest [] ("C" :: (if pend.isEmpty then acc else s!"W{hex (pend.map UInt8.ofNat)}" :: acc))
  | .tcsetattr t :: rest, pend, acc =>
    showDLog rest [] (s!"T{t}" :: (if pend.isEmpty then acc else s!"W{hex (pend.map UInt8.ofNat)}" :: acc))

structure Sess where
  st : St SEv (List Nat)
  saved : String

def Sess.init : Sess := ⟨⟨WQ.new, [], [], false⟩, "?"⟩

def stepT (s : Sess) : TOp → Sess × String
  | .openT t env =>
    let e : OpenEnv String := match env with
      | [a, b, c, d] => ⟨a, b, some t, c, d⟩
      | _ => ⟨true, true, some t, true, true⟩
    match openTty (fun x => "raw(" ++ x ++ ")") e with
    | (some sv, log) => ({ s with saved := sv }, s!"saved={sv}/{log.length}")
    | (none, log) => (s, s!"openfail/{log.length}")
  | .write b => let st := { s.st with wq := s.st.wq.write b }; ({ s with st := st }, showQ st)
  | .flush => let st := { s.st with wq := s.st.wq.flush }; ({ s with st := st }, showQ st)
  | .drop => let st := framesDrop s.st; ({ s with st := st }, showQ st)
  | .sizeEsc on => let st := { s.st with sizeEsc := on }; ({ s with st := st }, showQ st)
  | .poll to env =>
    let r := poll simpleDec s.st to env
    ({ s with st := r.st },
      s!"{showRes r.res}[{showEvs r.pushed}]{showQ r.st}r{r.rest.length}[{",".intercalate (showReads r.log)}]")
  | .position envs =>
    let r := position simpleDec s.st envs
    let res := match r.res with | .ok => "ok" | .err .quit => "err:quit" | .err .io => "err:io" | .blocked => "blocked"
    ({ s with st := r.st }, s!"{res}[{showEvs r.pushed}]{showQ r.st}[{showEvs r.st.evq}]")
  | .dispose caps env =>
    let r := dispose simpleDec (epilogue caps) s.saved s.st env
    let res := match r.res with | .ok => "ok" | .err => "err" | .blocked => "blocked"
    -- `g`: bytes by which `execute_many` makes the queue grow: the complete closing sequence
    ({ s with st := r.st },
      s!"{res}[{",".intercalate (showDLog r.log [] [])}]q{r.st.wq.len}e{r.st.evq.length}g{(epilogue caps).flatten.length}")

def runT (s : Sess) : List TOp → List String → List String
  | [], acc => acc.reverse
  | op :: ops, acc => let r := stepT s op; runT r.1 ops (r.2 :: acc)

/-- `s <op> …`: a session; one answer token per op.  `e <caps>`: the epilogue bytes. -/
def handle : List String → String
  | "s" :: toks =>
    match toks.mapM parseTOp with
    | some ops => " ".intercalate (runT Sess.init ops [])
    | none => "bad-args"
  | ["e", caps] =>
    match parseCaps caps with
    | some c => hex ((epilogue c).flatten.map UInt8.ofNat)
    | none => "bad-args"
  | _ => "bad-op"

end SurfModel.PollLoop
