import SurfModel.Proto
/-!
Model of `src/automata.rs` (NFA combinators, `merge_states` renumbering, ε-closure, and the DFA that
`NFA::compile` produces, seen through its public API), together with the regular expressions that the
combinators denote.

* `Re`, `Re.Matches` — regular expressions over bytes and the textbook matching relation (the specification);
  `Re.matchB` — executable matcher (sets of residual suffixes) (proved equivalent to `Re.Matches` in `SurfProofs.Lemmas.ReMatch`).
* `NState`, `NFA` — numbered automata: state ids are dense `0..n` in the code (every constructor allocates
  `0..n`, `merge_states` shifts by `max_id + 1`), so the `BTreeMap<NFAStateId, NFAState>` is the list of its
  values and an id is an index.  `BTreeSet` ε-sets are strictly increasing lists (`insertNat`),
  `BTreeMap<u8, id>` edge maps are association lists in increasing byte order.
* `DFA` — *observational* model of `NFA::compile`: the lazy subset automaton.  A DFA state is the ε-closed set
  of NFA ids (strictly increasing list); `transition`, `isAccepting`, `isTerminal`, `tags`, `matches` are
  computed from the set exactly as `compile` computes the table entries.  The eager work-list, the interning of
  sets and the dense table are not modelled; they are tied by exhaustive bisimulation on every run.
-/
namespace SurfModel.Automata

/-! ## regular expressions -/

/-- byte predicate given as a list of inclusive ranges -/
def inRanges (rs : List (UInt8 × UInt8)) (b : UInt8) : Bool :=
  rs.any fun r => decide (r.1 ≤ b) && decide (b ≤ r.2)

/-- Expressions built with the public combinators of `NFA`.  `tag t e` is `e.tag_stop_state(t)`; a choice
    whose alternatives carry tags is `alt [tag t₁ e₁, e₂, tag t₃ e₃, …]` (see `Re.altT`). -/
inductive Re where
  | lit (s : List UInt8)
  | pred (rs : List (UInt8 × UInt8))
  | seq (es : List Re)
  | alt (es : List Re)
  | opt (e : Re)
  | plus (e : Re)
  | star (e : Re)
  | empty
  | nothing
  | tag (t : Nat) (e : Re)
  deriving Repr, Inhabited

/-- one alternative of a tagged choice -/
def Re.tagged (a : Re × Option Nat) : Re :=
  match a.2 with
  | some t => .tag t a.1
  | none => a.1

/-- choice with an optional tag per alternative -/
def Re.altT (alts : List (Re × Option Nat)) : Re := .alt (alts.map Re.tagged)

/-- textbook matching relation -/
inductive Re.Matches : Re → List UInt8 → Prop
  | lit (s) : Matches (.lit s) s
  | pred {rs b} : inRanges rs b = true → Matches (.pred rs) [b]
  | seqNil : Matches (.seq []) []
  | seqCons {e es u v} : Matches e u → Matches (.seq es) v → Matches (.seq (e :: es)) (u ++ v)
  | alt {e es w} : e ∈ es → Matches e w → Matches (.alt es) w
  | optNone {e} : Matches (.opt e) []
  | optSome {e w} : Matches e w → Matches (.opt e) w
  | plusOne {e w} : Matches e w → Matches (.plus e) w
  | plusMore {e u v} : Matches e u → Matches (.plus e) v → Matches (.plus e) (u ++ v)
  | starNil {e} : Matches (.star e) []
  | starMore {e u v} : Matches e u → Matches (.star e) v → Matches (.star e) (u ++ v)
  | empty : Matches .empty []
  | tag {t e w} : Matches e w → Matches (.tag t e) w

/-! ### executable matcher

`e.res S` is the set of residuals: all `s'` such that some `s ∈ S` is `u ++ s'` with `e` matching `u`.
Every residual is a suffix of a member of `S`, so for the loops a fixed-point iteration bounded by the longest
member suffices (each useful round consumes at least one byte). -/

def stripPrefix : List UInt8 → List UInt8 → Option (List UInt8)
  | [], s => some s
  | _ :: _, [] => none
  | c :: l, d :: s => if c = d then stripPrefix l s else none

/-- add the members of `xs` that are not yet in `acc` -/
def addNew (acc xs : List (List UInt8)) : List (List UInt8) :=
  xs.foldl (fun acc x => if acc.contains x then acc else x :: acc) acc

def maxLen (S : List (List UInt8)) : Nat := S.foldl (fun m s => max m s.length) 0

/-- close `acc` under `f`, at most `k` rounds; stops as soon as a round adds nothing -/
def iterRes (f : List (List UInt8) → List (List UInt8)) : Nat → List (List UInt8) → List (List UInt8)
  | 0, acc => acc
  | k + 1, acc =>
    let acc' := addNew acc (f acc)
    if acc'.length = acc.length then acc else iterRes f k acc'

mutual
def Re.res : Re → List (List UInt8) → List (List UInt8)
  | .lit l, S => S.filterMap (stripPrefix l)
  | .pred rs, S => S.filterMap fun s =>
      match s with
      | b :: t => if inRanges rs b then some t else none
      | [] => none
  | .seq es, S => resSeq es S
  | .alt es, S => resAlt es S
  | .opt e, S => addNew S (e.res S)
  | .plus e, S => iterRes e.res (maxLen S + 1) (addNew [] (e.res S))
  | .star e, S => iterRes e.res (maxLen S + 1) S
  | .empty, S => S
  | .nothing, _ => []
  | .tag _ e, S => e.res S
def resSeq : List Re → List (List UInt8) → List (List UInt8)
  | [], S => S
  | e :: es, S => resSeq es (e.res S)
def resAlt : List Re → List (List UInt8) → List (List UInt8)
  | [], _ => []
  | e :: es, S => addNew (e.res S) (resAlt es S)
end

/-- executable matcher: the empty residual is reachable from the whole word -/
def Re.matchB (e : Re) (w : List UInt8) : Bool := (e.res [w]).contains []

/-! ## numbered NFAs -/

structure NState where
  /-- `BTreeMap<Symbol, NFAStateId>` in key order -/
  edges : List (UInt8 × Nat)
  /-- `BTreeSet<NFAStateId>` in increasing order -/
  eps : List Nat
  tag : Option Nat
  deriving Repr, BEq, DecidableEq

def NState.new : NState := { edges := [], eps := [], tag := none }

structure NFA where
  start : Nat
  stop : Nat
  /-- the values of `states: BTreeMap<NFAStateId, _>`; the key of a state is its index -/
  states : List NState
  deriving Repr, BEq, DecidableEq

/-- `BTreeSet::insert` on a strictly increasing list -/
def insertNat (x : Nat) : List Nat → List Nat
  | [] => [x]
  | h :: t => if x < h then x :: h :: t else if x = h then h :: t else h :: insertNat x t

/-- collect into a `BTreeSet` -/
def sortDedup (l : List Nat) : List Nat := l.foldl (fun acc x => insertNat x acc) []

/-- `state.epsilons.insert(t)` for the state with id `s` (no effect if there is no such state) -/
def addEps (sts : List NState) (s t : Nat) : List NState :=
  sts.modify s fun st => { st with eps := insertNat t st.eps }

def addEpsList (ps : List (Nat × Nat)) (sts : List NState) : List NState :=
  ps.foldl (fun acc p => addEps acc p.1 p.2) sts

/-- renumbering done by `merge_states`: every id mentioned by the state is moved by `k` -/
def NState.shift (k : Nat) (s : NState) : NState :=
  { edges := s.edges.map fun p => (p.1, p.2 + k), eps := s.eps.map (· + k), tag := s.tag }

namespace NFA

def allBytes : List UInt8 := (List.range 256).map UInt8.ofNat

/-- `NFA::predicate` -/
def predicate (rs : List (UInt8 × UInt8)) : NFA :=
  { start := 0, stop := 1
    states := [{ edges := (allBytes.filter (inRanges rs)).map fun b => (b, 1), eps := [], tag := none },
               NState.new] }

/-- `NFA::empty` -/
def empty : NFA := { start := 0, stop := 0, states := [NState.new] }

/-- `NFA::nothing` -/
def nothing : NFA := { start := 0, stop := 1, states := [NState.new, NState.new] }

/-- states of `From<&str>`: state `i` has the single edge `s[i] → i+1` -/
def strStates : List UInt8 → Nat → List NState
  | [], _ => [NState.new]
  | b :: bs, i => { edges := [(b, i + 1)], eps := [], tag := none } :: strStates bs (i + 1)

/-- `impl From<&str> for NFA` (over the bytes of the string) -/
def ofStr (s : List UInt8) : NFA := { start := 0, stop := s.length, states := strStates s 0 }

/-- `merge_states(nfas, offset)`: the states of all operands, each renumbered by the running offset
    (`offset += max_id + 1`, i.e. the number of states), and the renumbered `(start, stop)` pairs.  The result
    lists the states with ids `offset, offset+1, …`. -/
def mergeStates : List NFA → Nat → List NState × List (Nat × Nat)
  | [], _ => ([], [])
  | n :: rest, off =>
    let r := mergeStates rest (off + n.states.length)
    (n.states.map (NState.shift off) ++ r.1, (n.start + off, n.stop + off) :: r.2)

/-- the ε-edges `ends[i-1].stop → ends[i].start` added by `sequence` -/
def bridges : List (Nat × Nat) → List (Nat × Nat)
  | a :: b :: rest => (a.2, b.1) :: bridges (b :: rest)
  | _ => []

/-- `NFA::sequence` -/
def sequence (ns : List NFA) : NFA :=
  let r := mergeStates ns 0
  match r.2 with
  | [] => empty
  | e :: es =>
    { start := e.1, stop := ((es.getLast?).getD e).2, states := addEpsList (bridges (e :: es)) r.1 }

/-- `NFA::choice`: fresh start `0` and stop `1`, operands renumbered from `2` -/
def choice (ns : List NFA) : NFA :=
  let r := mergeStates ns 2
  match r.2 with
  | [] => nothing
  | e :: es =>
    let startState : NState :=
      { edges := [], eps := (e :: es).foldl (fun acc x => insertNat x.1 acc) [], tag := none }
    { start := 0, stop := 1
      states := addEpsList ((e :: es).map fun x => (x.2, 1)) (startState :: NState.new :: r.1) }

/-- `NFA::some`: `stop →ε start` added in place -/
def some (n : NFA) : NFA := { n with states := addEps n.states n.stop n.start }

/-- `NFA::optional` (repaired form): `choice([self, empty()])` -/
def optional (n : NFA) : NFA := choice [n, empty]

/-- `NFA::many`: `merge_states(once(self), 2)`, fresh start `0` (→ε from, stop) and stop `1`,
    `to →ε stop`, `to →ε from` -/
def many (n : NFA) : NFA :=
  let fr := n.start + 2
  let to := n.stop + 2
  let startState : NState := { edges := [], eps := insertNat 1 (insertNat fr []), tag := none }
  { start := 0, stop := 1
    states := addEpsList [(to, 1), (to, fr)] (startState :: NState.new :: n.states.map (NState.shift 2)) }

/-- `NFA::tag_stop_state` -/
def tagStop (n : NFA) (t : Nat) : NFA :=
  { n with states := n.states.modify n.stop fun st => { st with tag := Option.some t } }

/-- `NFA::tags_map` -/
def tagsMap (n : NFA) (f : Nat → Nat) : NFA :=
  { n with states := n.states.map fun st => { st with tag := st.tag.map f } }

/-- `NFA::size` -/
def size (n : NFA) : Nat := n.states.length

end NFA

mutual
/-- the automaton the public API builds for an expression -/
def Re.toNFA : Re → NFA
  | .lit s => NFA.ofStr s
  | .pred rs => NFA.predicate rs
  | .seq es => NFA.sequence (toNFAs es)
  | .alt es => NFA.choice (toNFAs es)
  | .opt e => e.toNFA.optional
  | .plus e => e.toNFA.some
  | .star e => e.toNFA.many
  | .empty => NFA.empty
  | .nothing => NFA.nothing
  | .tag t e => e.toNFA.tagStop t
def toNFAs : List Re → List NFA
  | [] => []
  | e :: es => e.toNFA :: toNFAs es
end

/-! ## ε-closure and the subset automaton -/

def epsOf (n : NFA) (q : Nat) : List Nat :=
  match n.states[q]? with
  | some st => st.eps
  | none => []

def edgesOf (n : NFA) (q : Nat) : List (UInt8 × Nat) :=
  match n.states[q]? with
  | some st => st.edges
  | none => []

def tagOf (n : NFA) (q : Nat) : Option Nat :=
  match n.states[q]? with
  | some st => st.tag
  | none => none

/-- work-list search of `epsilon_closure`: `stack` = states still to expand, `vis` = the output set.
    `fuel` bounds the number of pops; `closureFuel` is always enough (`SurfProofs.Lemmas.Subset`). -/
def closureAux (n : NFA) : Nat → List Nat → List Nat → List Nat
  | 0, _, vis => vis
  | _ + 1, [], vis => vis
  | fuel + 1, q :: stack, vis =>
    if q ∈ vis then closureAux n fuel stack vis
    else closureAux n fuel (epsOf n q ++ stack) (q :: vis)

def closureFuel (n : NFA) (S : List Nat) : Nat :=
  S.length + n.states.length + (n.states.map fun st => st.eps.length).sum + 1

/-- `epsilon_closure`: all states reachable through ε-edges, as an increasing duplicate-free list -/
def closure (n : NFA) (S : List Nat) : List Nat :=
  sortDedup (closureAux n (closureFuel n S) S [])

/-- targets of the `b`-edges leaving members of `S` -/
def targets (n : NFA) (S : List Nat) (b : UInt8) : List Nat :=
  S.flatMap fun q => (edgesOf n q).filterMap fun p => if p.1 = b then Option.some p.2 else none

/-- the DFA `NFA::compile` produces, observed through its API: states are ε-closed sets of NFA ids -/
structure DFA where
  nfa : NFA

abbrev DState := List Nat

def NFA.compile (n : NFA) : DFA := ⟨n⟩

namespace DFA

/-- `DFA::start` -/
def start (d : DFA) : DState := closure d.nfa [d.nfa.start]

/-- `DFA::transition`: `none` when no member has an edge on `b` -/
def transition (d : DFA) (S : DState) (b : UInt8) : Option DState :=
  match targets d.nfa S b with
  | [] => none
  | t :: ts => some (closure d.nfa (t :: ts))

/-- `info(state).is_accepting` -/
def isAccepting (d : DFA) (S : DState) : Bool := S.contains d.nfa.stop

/-- `info(state).is_terminal`: the row of the state in the DFA table is empty -/
def isTerminal (d : DFA) (S : DState) : Bool := S.all fun q => (edgesOf d.nfa q).isEmpty

/-- `info(state).tags` -/
def tags (d : DFA) (S : DState) : List Nat := sortDedup (S.filterMap (tagOf d.nfa))

/-- `DFA::transition_many` -/
def transitionMany (d : DFA) : DState → List UInt8 → Option DState
  | S, [] => some S
  | S, b :: w =>
    match d.transition S b with
    | none => none
    | some S' => d.transitionMany S' w

/-- the state reached from the start state, if the input is not dead -/
def run (d : DFA) (w : List UInt8) : Option DState := d.transitionMany d.start w

/-- `DFA::matches` -/
def «matches» (d : DFA) (w : List UInt8) : Bool :=
  match d.run w with
  | some S => d.isAccepting S
  | none => false

/-- tags reported after consuming `w` (none if the input is dead) -/
def tagsAfter (d : DFA) (w : List UInt8) : List Nat :=
  match d.run w with
  | some S => d.tags S
  | none => []

end DFA

/-! ## line protocol

`c15 dump  <src>`                     → dump of the model automaton (must equal `NFA::verif_dump` of the implementation);
                                         `<src>` = `<re>` or `M k (L|R <re>)…` (production shape, `Wire.prodNFA`)
`c15 dumpcmp <src> | <nfa>`           → class of the difference to the implementation's dump: `equal`,
                                         `representation-only …` (isomorphic / bisimilar) or `different: …`
`c15 dumpmap <k> <re>`                → dump of `(toNFA re).tagsMap (· + k)` (`tags_map(|t| t + k)`)
`c15 match <re> | <hex> …`            → `Re.matchB` per word (`1`/`0`)
`c15 run   <nfa> | <hex> …`           → per word the state reached by the model DFA: `dead` or
                                         `<accepting><terminal>:<tags>` (e.g. `10:1,2`)
`c15 bisim <nfa> | <m> <dfa-table>`   → product BFS of the implementation's DFA table with the lazy subset
                                         automaton over all 256 bytes: `ok <visited impl states>` or `diff …`

`<re>` is in prefix form: `L hex`, `P lo-hi,…`, `S n e₁ … eₙ`, `A n e₁ … eₙ`, `O e`, `+ e`, `* e`, `E`, `N`,
`T tag e`.  `<nfa>` is `start stop n st₀;st₁;…` with `st = edges/eps/tag`, `edges = lo-hi>target,…`.
-/
namespace Wire
open SurfModel.Proto

def hexByte? (s : String) : Option UInt8 :=
  match s.toList with
  | [a, b] => do
    let x ← hexDigit? a
    let y ← hexDigit? b
    pure (UInt8.ofNat (x * 16 + y))
  | _ => none

def hexOfByte (b : UInt8) : String := String.ofList [hexNib (b.toNat / 16), hexNib (b.toNat % 16)]

def splitList (s : String) (sep : String) : List String :=
  if s == "-" || s == "" then [] else s.splitOn sep

def parseRanges (s : String) : Option (List (UInt8 × UInt8)) :=
  (splitList s ",").mapM fun r =>
    match r.splitOn "-" with
    | [a, b] => do pure ((← hexByte? a), (← hexByte? b))
    | _ => none

mutual
def parseRe : Nat → List String → Option (Re × List String)
  | 0, _ => none
  | fuel + 1, toks =>
    match toks with
    | "L" :: h :: rest => (unhex h).map fun s => (.lit s, rest)
    | "P" :: r :: rest => (parseRanges r).map fun rs => (.pred rs, rest)
    | "S" :: k :: rest => do
      let (es, rest) ← parseRes fuel (← k.toNat?) rest
      pure (.seq es, rest)
    | "A" :: k :: rest => do
      let (es, rest) ← parseRes fuel (← k.toNat?) rest
      pure (.alt es, rest)
    | "O" :: rest => do let (e, rest) ← parseRe fuel rest; pure (.opt e, rest)
    | "+" :: rest => do let (e, rest) ← parseRe fuel rest; pure (.plus e, rest)
    | "*" :: rest => do let (e, rest) ← parseRe fuel rest; pure (.star e, rest)
    | "E" :: rest => some (.empty, rest)
    | "N" :: rest => some (.nothing, rest)
    | "T" :: t :: rest => do let (e, rest) ← parseRe fuel rest; pure (.tag (← t.toNat?) e, rest)
    | _ => none
def parseRes : Nat → Nat → List String → Option (List Re × List String)
  | 0, _, _ => none
  | _ + 1, 0, toks => some ([], toks)
  | fuel + 1, k + 1, toks => do
    let (e, rest) ← parseRe fuel toks
    let (es, rest) ← parseRes fuel k rest
    pure (e :: es, rest)
end

/-- maximal runs of consecutive bytes with the same target -/
def edgeRuns : List (UInt8 × Nat) → List (UInt8 × UInt8 × Nat)
  | [] => []
  | (b, t) :: rest =>
    match edgeRuns rest with
    | (lo, hi, t') :: more =>
      if t' = t ∧ b.toNat + 1 = lo.toNat then (b, hi, t) :: more else (b, b, t) :: (lo, hi, t') :: more
    | [] => [(b, b, t)]

def showList (l : List String) : String := if l.isEmpty then "-" else ",".intercalate l

def showEdges (es : List (UInt8 × Nat)) : String :=
  showList ((edgeRuns es).map fun r => s!"{hexOfByte r.1}-{hexOfByte r.2.1}>{r.2.2}")

def showState (st : NState) : String :=
  let tag := match st.tag with
    | some t => toString t
    | none => "-"
  s!"{showEdges st.edges}/{showNatList st.eps}/{tag}"

def showNFA (n : NFA) : String :=
  s!"{n.start} {n.stop} {n.states.length} {";".intercalate (n.states.map showState)}"

/-- `lo-hi>target,…` -/
def parseRuns (s : String) : Option (List (UInt8 × UInt8 × Nat)) :=
  (splitList s ",").mapM fun r =>
    match r.splitOn ">" with
    | [range, t] =>
      match range.splitOn "-" with
      | [a, b] => do pure ((← hexByte? a), (← hexByte? b), (← t.toNat?))
      | _ => none
    | _ => none

def expandRuns (rs : List (UInt8 × UInt8 × Nat)) : List (UInt8 × Nat) :=
  rs.flatMap fun r =>
    ((List.range (r.2.1.toNat + 1 - r.1.toNat)).map fun i => (UInt8.ofNat (r.1.toNat + i), r.2.2))

def parseState (s : String) : Option NState :=
  match s.splitOn "/" with
  | [e, p, t] => do
    let runs ← parseRuns e
    let eps ← natList? p
    let tag ← if t == "-" then some none else t.toNat?.map some
    pure { edges := expandRuns runs, eps := eps, tag := tag }
  | _ => none

def parseNFA : List String → Option (NFA × List String)
  | a :: b :: _ :: sts :: rest => do
    let states ← (sts.splitOn ";").mapM parseState
    pure ({ start := ← a.toNat?, stop := ← b.toNat?, states := states }, rest)
  | _ => none

/-- one row of the implementation's DFA table -/
structure Row where
  acc : Bool
  term : Bool
  tags : List Nat
  next : Array (Option Nat)

def parseRow (s : String) : Option Row :=
  match s.splitOn "/" with
  | [f, t, e] => do
    let tags ← natList? t
    let runs ← parseRuns e
    let next := runs.foldl (fun (a : Array (Option Nat)) r =>
      (List.range (r.2.1.toNat + 1 - r.1.toNat)).foldl (fun a i => a.set! (r.1.toNat + i) (some r.2.2)) a)
      (Array.replicate 256 none)
    pure { acc := f.contains 'a', term := f.contains 't', tags := tags, next := next }
  | _ => none

/-- all 256 target lists of a subset state in one pass over the members' edges
    (`(targetsRow n S)[b] = targets n S b`) -/
def targetsRow (n : NFA) (S : List Nat) : Array (List Nat) :=
  S.foldr (fun q acc => (edgesOf n q).foldr (fun p acc => acc.modify p.1.toNat (p.2 :: ·)) acc)
    (Array.replicate 256 [])

/-- the 256 transitions of a subset state; equal consecutive target lists share one closure computation -/
def transRow (n : NFA) (S : List Nat) : Array (Option DState) :=
  let row := targetsRow n S
  let step := fun (st : Array (Option DState) × List Nat × Option DState) (ts : List Nat) =>
    if ts = st.2.1 then (st.1.push st.2.2, st.2) else
      let r : Option DState := match ts with
        | [] => none
        | t :: ts => some (closure n (t :: ts))
      (st.1.push r, ts, r)
  (row.foldl step (Array.mkEmpty 256, [], none)).1

/-- can an accepting subset state be reached from `S`?  (used only to CLASSIFY a disagreement: an
    implementation that trims non-productive states differs in representation, not in language) -/
def productiveLoop (d : DFA) : Nat → List DState → List DState → Bool
  | 0, _, _ => true
  | _ + 1, [], _ => false
  | fuel + 1, S :: queue, seen =>
    if seen.contains S then productiveLoop d fuel queue seen else
    if d.isAccepting S then true else
    let next := (transRow d.nfa S).toList.filterMap id
    productiveLoop d fuel (queue ++ next.eraseDups) (S :: seen)

def productive (d : DFA) (S : DState) : Bool := productiveLoop d 100000 [S] []

structure BisimState where
  seen : Array (List DState)
  queue : List (Nat × DState × List UInt8)
  visited : Nat
  /-- disagreements that are representation only: the implementation is dead where the model still has a
      non-productive state -/
  trimmed : Nat := 0

/-- product exploration; `fuel` bounds the number of explored pairs -/
def bisimLoop (d : DFA) (rows : Array Row) : Nat → BisimState → String
  | 0, _ => "fuel-exhausted"
  | fuel + 1, st =>
    match st.queue with
    | [] =>
      if st.trimmed = 0 then s!"ok {st.visited}"
      else s!"ok-trimmed {st.visited} representation-only: the implementation reports dead (or terminal) in {st.trimmed} place(s) where the model still has states from which nothing is accepted; same language, tags and accepting flags"
    | (i, S, w) :: queue =>
      match rows[i]? with
      | none => s!"diff {hex w.reverse} impl-state-out-of-range"
      | some row =>
        if (st.seen[i]?.getD []).contains S then bisimLoop d rows fuel { st with queue := queue } else
        let first := (st.seen[i]?.getD []).isEmpty
        let seen := st.seen.modify i (S :: ·)
        let mrow := transRow d.nfa S
        if row.acc != d.isAccepting S then s!"diff {hex w.reverse} accepting impl={row.acc}" else
        let termTrim := row.term && !d.isTerminal S && (mrow.toList.filterMap id).all fun S' => !productive d S'
        if row.term != d.isTerminal S && !termTrim then s!"diff {hex w.reverse} terminal impl={row.term}" else
        if row.tags != d.tags S then s!"diff {hex w.reverse} tags impl={showNatList row.tags} model={showNatList (d.tags S)}" else
        let res := (List.range 256).foldl
          (fun (acc : Option String × List (Nat × DState × List UInt8) × Nat) b =>
          match acc.1 with
          | some _ => acc
          | none =>
            match row.next[b]?.getD none, mrow[b]?.getD none with
            | none, none => acc
            | some j, some S' => (none, (j, S', UInt8.ofNat b :: w) :: acc.2.1, acc.2.2)
            | some _, none => (some s!"diff {hex (UInt8.ofNat b :: w).reverse} impl-steps-model-dead", acc.2)
            | none, some S' =>
              if productive d S' then
                (some s!"diff {hex (UInt8.ofNat b :: w).reverse} impl-dead-model-steps", acc.2)
              else (none, acc.2.1, acc.2.2 + 1))
          (none, queue, 0)
        match res.1 with
        | some msg => msg
        | none => bisimLoop d rows fuel
            { seen := seen, queue := res.2.1, visited := st.visited + (if first then 1 else 0),
              trimmed := st.trimmed + res.2.2 + (if termTrim then 1 else 0) }

def bisim (n : NFA) (rows : Array Row) : String :=
  let d := n.compile
  bisimLoop d rows 1000000 { seen := Array.replicate rows.size [], queue := [(0, d.start, [])], visited := 0 }

/-! canonical form of the reachable part: states renumbered in breadth-first order from the start state,
    successors taken in edge order (by byte) and then ε order.  Equal canonical forms = same automaton up to a
    renumbering of states (used only to CLASSIFY a dump mismatch as "representation only"). -/

def bfsOrder (n : NFA) : Nat → List Nat → List Nat → List Nat
  | 0, _, seen => seen.reverse
  | _ + 1, [], seen => seen.reverse
  | fuel + 1, q :: rest, seen =>
    if seen.contains q then bfsOrder n fuel rest seen
    else bfsOrder n fuel (rest ++ (edgesOf n q).map (·.2) ++ epsOf n q) (q :: seen)

def canonNFA (n : NFA) : String :=
  let fuel := 2 + n.states.length + (n.states.map fun st => st.edges.length + st.eps.length).sum
  let order := bfsOrder n fuel [n.start] []
  let idx := fun (q : Nat) => (order.findIdx? (· == q)).getD order.length
  let sts := order.map fun q =>
    ({ edges := (edgesOf n q).map fun p => (p.1, idx p.2), eps := sortDedup ((epsOf n q).map idx),
       tag := tagOf n q } : NState)
  let stop := if order.contains n.stop then toString (idx n.stop) else "-"
  s!"{stop} {order.length} {";".intercalate (sts.map showState)}"

/-- product exploration of the subset automata of two NFAs -/
def bisim2Loop (a b : DFA) : Nat → List (DState × DState × List UInt8) → List (DState × DState) → String
  | 0, _, _ => "fuel-exhausted"
  | _ + 1, [], _ => "same"
  | fuel + 1, (S, T, w) :: queue, seen =>
    if seen.contains (S, T) then bisim2Loop a b fuel queue seen else
    if a.isAccepting S != b.isAccepting T then s!"accepting differs after {hex w.reverse}" else
    if a.isTerminal S != b.isTerminal T then s!"terminal differs after {hex w.reverse}" else
    if a.tags S != b.tags T then s!"tags differ after {hex w.reverse}" else
    let ra := transRow a.nfa S
    let rb := transRow b.nfa T
    let res := (List.range 256).foldl (fun (acc : Option String × List (DState × DState × List UInt8)) c =>
      match acc.1 with
      | some _ => acc
      | none =>
        match ra[c]?.getD none, rb[c]?.getD none with
        | none, none => acc
        | some S', some T' => (none, (S', T', UInt8.ofNat c :: w) :: acc.2)
        | _, _ => (some s!"dead/alive differs after {hex (UInt8.ofNat c :: w).reverse}", acc.2))
      (none, queue)
    match res.1 with
    | some msg => msg
    | none => bisim2Loop a b fuel res.2 ((S, T) :: seen)

/-- classification of a dump mismatch: what kind of difference is there between the model's automaton and
    the one dumped from the implementation -/
def dumpClass (model impl : NFA) : String :=
  if showNFA model == showNFA impl then "equal"
  else if canonNFA model == canonNFA impl then
    "representation-only isomorphic: same automaton up to a renumbering of states (canonical breadth-first forms agree); language, tags and terminal flags unaffected"
  else
    match bisim2Loop model.compile impl.compile 1000000 [(model.compile.start, impl.compile.start, [])] [] with
    | "same" => "representation-only bisimilar: different NFA, same observable DFA (accepting, terminal, tags, dead on every input)"
    | msg => s!"different: {msg}"

def splitBar (toks : List String) : List String × List String :=
  (toks.takeWhile (· ≠ "|"), (toks.dropWhile (· ≠ "|")).drop 1)

def b01 (b : Bool) : String := if b then "1" else "0"

end Wire

namespace Wire

/-- `MatcherAutomata::new` of decoder.rs over the model: matcher `i` is `L e` (`Either::Left`:
    `tags_map(|_| Matcher(i)).tag_stop_state(Matcher(i))`) or `R e` (`Either::Right`: `tags_map(Item)`);
    on the wire `Matcher(i)` is `1000 + i` and `Item(t)` is `t` -/
def prodNFA (ms : List (Bool × Re)) : NFA :=
  NFA.choice (ms.mapIdx fun i m =>
    if m.1 then (m.2.toNFA.tagsMap fun _ => 1000 + i).tagStop (1000 + i) else m.2.toNFA.tagsMap id)

def parseProd : Nat → List String → Option (List (Bool × Re) × List String)
  | 0, toks => some ([], toks)
  | k + 1, side :: toks => do
    let (e, rest) ← parseRe 10000 toks
    let (ms, rest) ← parseProd k rest
    pure ((side == "L", e) :: ms, rest)
  | _ + 1, [] => none

/-- an automaton source: an expression, or `M k (L|R e)₁ … (L|R e)ₖ` for the production shape -/
def parseSrc : List String → Option (NFA × List String)
  | "M" :: k :: toks => do
    let (ms, rest) ← parseProd (← k.toNat?) toks
    pure (prodNFA ms, rest)
  | toks => (parseRe 10000 toks).map fun (e, rest) => (e.toNFA, rest)

end Wire

open Wire in
def handle : List String → String
  | "dump" :: toks =>
    match parseSrc toks with
    | some (n, []) => showNFA n
    | _ => "bad-re"
  | "dumpcmp" :: toks =>
    let (l, r) := splitBar toks
    match parseSrc l, parseNFA r with
    | some (n, []), some (impl, []) => dumpClass n impl
    | _, _ => "bad-request"
  | "dumpmap" :: k :: toks =>
    match parseRe 10000 toks, k.toNat? with
    | some (e, []), some k => showNFA (e.toNFA.tagsMap (· + k))
    | _, _ => "bad-re"
  | "match" :: toks =>
    let (l, r) := splitBar toks
    match parseRe 10000 l, r.mapM Proto.unhex with
    | some (e, []), some ws => " ".intercalate (ws.map fun w => b01 (e.matchB w))
    | _, _ => "bad-request"
  | "run" :: toks =>
    let (l, r) := splitBar toks
    match parseNFA l, r.mapM Proto.unhex with
    | some (n, []), some ws =>
      let d := n.compile
      " ".intercalate (ws.map fun w =>
        match d.run w with
        | none => "dead"
        | some S => s!"{b01 (d.isAccepting S)}{b01 (d.isTerminal S)}:{Proto.showNatList (d.tags S)}")
    | _, _ => "bad-request"
  | "bisim" :: toks =>
    let (l, r) := splitBar toks
    match parseNFA l, r with
    | some (n, []), [_, table] =>
      match ((table.splitOn ";").mapM parseRow) with
      | some rows => bisim n rows.toArray
      | none => "bad-table"
    | _, _ => "bad-request"
  | _ => "bad-op"

end SurfModel.Automata
