import SurfModel.Proto
import SurfModel.KeyParse
import SurfModel.Base64
import SurfModel.Shape
/-!
# Model of the serialised forms (`src/face.rs`, `src/terminal.rs: Size`, `src/image.rs` serde impls)

What is modelled, mirroring the code of the repaired tree:

* `FaceAttrs`: the 16-bit word `bits` (3 bits underline style, flags above), `unpack`/`pack`, `contains`,
  `insert`, `remove`, `|`, `&`, `^`, the compound assignments (which delegate to the by-value operators),
  `From<UnderlineStyle>`, `names`.
* `RGBA` `Display` / `from_str_named` (rasterize 0.6.9 `color.rs`): `#rrggbb[aa]`; a name table is a
  parameter; the alpha suffix `/<float>` is float arithmetic: `parseRGBAWith` takes it as a parameter (a total
  function on the alpha byte), `parseRGBA` (used by the driver) answers the explicit outcome *unmodelled*.
* `Face` `Display` / `from_str_named` (`split(',')`, `splitn(2,'=')`, `trim`, key match, `|=`).
* `Size`: the serde-derived form (map with `height`/`width`, or a two element sequence) and the textual
  `Display`/`FromStr` pair.
* `Image`: `Serialize` (walk of the surface iterator through the streaming base64 encoder of
  `SurfModel.Base64`, `channels: 4`) and the `Deserialize` visitor: key loop (`data` decoded through the base64
  decoder model and *appended*, `channels` checked at once, `size` replaced, other keys ignored), `checked_mul`
  of `height × width × channels`, comparison with the data length, then `SurfaceOwned::new_with` with the
  per-pixel indexing for 4 / 3 / 1 channels.  Every multiplication / addition / index of that part is checked:
  `none` = overflow or index panic.

What is not modelled: `serde_json` (the model starts at the sequence of map entries the visitor is handed; an
entry whose value is ill-typed is the explicit entry `bad`), the buffer schedule of `Read::read_to_end`
(a parameter `sched`; theorems quantify over it), glyph / text / view-tree deserialisers.

Strings are `List Char` (as in `SurfModel.KeyParse`, whose `splitOn`, `showNat`, `parseUsizeLoop` are reused).
-/
namespace SurfModel.Serde
open SurfModel.KeyParse (splitOn showNat parseUsizeLoop isAsciiDigit utf8Len)

/-! ## FaceAttrs -/

/-- `struct FaceAttrs { bits: u16 }` -/
structure FaceAttrs where
  bits : Nat
  deriving DecidableEq, Repr

namespace FaceAttrs

def EMPTY : FaceAttrs := ⟨0⟩
def UNDERLINE : FaceAttrs := ⟨1⟩
def UNDERLINE_DOUBLE : FaceAttrs := ⟨2⟩
def UNDERLINE_CURLY : FaceAttrs := ⟨3⟩
def UNDERLINE_DOTTED : FaceAttrs := ⟨4⟩
def UNDERLINE_DASHED : FaceAttrs := ⟨5⟩
def BOLD : FaceAttrs := ⟨1 <<< 3⟩
def ITALIC : FaceAttrs := ⟨2 <<< 3⟩
def BLINK : FaceAttrs := ⟨4 <<< 3⟩
def REVERSE : FaceAttrs := ⟨8 <<< 3⟩
def STRIKE : FaceAttrs := ⟨16 <<< 3⟩
def ALL_FLAGS : Nat := 31

/-- `underline()`: the `UnderlineStyle` as its discriminant 0 (None) … 5 (Dashed); 6 and 7 read as None -/
def underline (a : FaceAttrs) : Nat :=
  match 7 &&& a.bits with
  | 1 => 1 | 2 => 2 | 3 => 3 | 4 => 4 | 5 => 5
  | _ => 0

/-- `unpack` -/
def unpack (a : FaceAttrs) : Nat × Nat := (a.underline, a.bits >>> 3)

/-- `pack(underline, flags)`; `flags << 3` is a `u16` shift (bits shifted out are lost) -/
def pack (underline flags : Nat) : FaceAttrs :=
  let underline_bits := match underline with
    | 0 => 0 | 1 => 1 | 2 => 2 | 3 => 3 | 4 => 4 | _ => 5
  ⟨underline_bits ||| ((flags <<< 3) % 65536)⟩

/-- `impl From<UnderlineStyle> for FaceAttrs` -/
def ofUnderline (u : Nat) : FaceAttrs := pack u 0

def contains (self other : FaceAttrs) : Bool :=
  let (self_under, self_flags) := self.unpack
  let (other_under, other_flags) := other.unpack
  if other_under ≠ 0 ∧ self_under ≠ other_under then false
  else self_flags &&& other_flags == other_flags

def insert (self other : FaceAttrs) : FaceAttrs :=
  let (self_under, self_flags) := self.unpack
  let (other_under, other_flags) := other.unpack
  let under := if other_under ≠ 0 then other_under else self_under
  pack under (self_flags ||| other_flags)

def remove (self other : FaceAttrs) : FaceAttrs :=
  let (self_under, self_flags) := self.unpack
  let (other_under, other_flags) := other.unpack
  let under := if other_under ≠ 0 then 0 else self_under
  pack under (self_flags &&& (other_flags ^^^ ALL_FLAGS))

def bitand (self rhs : FaceAttrs) : FaceAttrs :=
  let (lhs_under, lhs_flags) := self.unpack
  let (rhs_under, rhs_flags) := rhs.unpack
  let under := if lhs_under = rhs_under then lhs_under else 0
  pack under (lhs_flags &&& rhs_flags)

def bitor (self rhs : FaceAttrs) : FaceAttrs :=
  let (lhs_under, lhs_flags) := self.unpack
  let (rhs_under, rhs_flags) := rhs.unpack
  let under := if rhs_under = 0 then lhs_under else rhs_under
  pack under (lhs_flags ||| rhs_flags)

def bitxor (self rhs : FaceAttrs) : FaceAttrs :=
  let (lhs_under, lhs_flags) := self.unpack
  let (rhs_under, rhs_flags) := rhs.unpack
  let under := if rhs_under = 0 then lhs_under else rhs_under
  pack under (lhs_flags ^^^ rhs_flags)

/-- `*self = *self & rhs` -/
def bitandAssign (self rhs : FaceAttrs) : FaceAttrs := self.bitand rhs
/-- `*self = *self | rhs` -/
def bitorAssign (self rhs : FaceAttrs) : FaceAttrs := self.bitor rhs
/-- `*self = *self ^ rhs` -/
def bitxorAssign (self rhs : FaceAttrs) : FaceAttrs := self.bitxor rhs

end FaceAttrs

/-! ### attribute names -/

def sUnderline : List Char := ['u','n','d','e','r','l','i','n','e']
def sUnderlineDouble : List Char := ['u','n','d','e','r','l','i','n','e','_','d','o','u','b','l','e']
def sUnderlineCurly : List Char := ['u','n','d','e','r','l','i','n','e','_','c','u','r','l','y']
def sUnderlineDotted : List Char := ['u','n','d','e','r','l','i','n','e','_','d','o','t','t','e','d']
def sUnderlineDashed : List Char := ['u','n','d','e','r','l','i','n','e','_','d','a','s','h','e','d']
def sBold : List Char := ['b','o','l','d']
def sItalic : List Char := ['i','t','a','l','i','c']
def sBlink : List Char := ['b','l','i','n','k']
def sReverse : List Char := ['r','e','v','e','r','s','e']
def sStrike : List Char := ['s','t','r','i','k','e']
def sFg : List Char := ['f','g']
def sBg : List Char := ['b','g']

/-- the `(flag, name)` array of `FaceAttrs::names`, in its order -/
def flagNames : List (FaceAttrs × List Char) :=
  [(FaceAttrs.BOLD, sBold), (FaceAttrs.ITALIC, sItalic), (FaceAttrs.BLINK, sBlink),
   (FaceAttrs.REVERSE, sReverse), (FaceAttrs.STRIKE, sStrike)]

/-- `FaceAttrs::names` -/
def FaceAttrs.names (a : FaceAttrs) : List (List Char) :=
  (match a.underline with
    | 1 => [sUnderline] | 2 => [sUnderlineDouble] | 3 => [sUnderlineCurly]
    | 4 => [sUnderlineDotted] | 5 => [sUnderlineDashed]
    | _ => []) ++
  (flagNames.filter fun p => a.bits &&& p.1.bits ≠ 0).map (·.2)

/-! ## RGBA -/

structure RGBA where
  r : UInt8
  g : UInt8
  b : UInt8
  a : UInt8
  deriving DecidableEq, Repr

def RGBA.bytes (c : RGBA) : List UInt8 := [c.r, c.g, c.b, c.a]

/-- one lower-case hex digit -/
def hexDigitChar (n : Nat) : Char := if n < 10 then Char.ofNat (48 + n) else Char.ofNat (87 + n)

/-- `{:02x}` of a `u8` -/
def hex2 (b : UInt8) : List Char := [hexDigitChar (b.toNat / 16), hexDigitChar (b.toNat % 16)]

/-- `impl Display for RGBA` -/
def printRGBA (c : RGBA) : List Char :=
  '#' :: (hex2 c.r ++ hex2 c.g ++ hex2 c.b ++ (if c.a ≠ 255 then hex2 c.a else []))

/-- the `digit` closure of `RGBA::from_str_named` (on a character; non-ASCII characters are bytes ≥ 0x80 in
    the code and are rejected alike) -/
def hexVal? (c : Char) : Option Nat :=
  if 'A' ≤ c ∧ c ≤ 'F' then some (c.toNat - 'A'.toNat + 10)
  else if 'a' ≤ c ∧ c ≤ 'f' then some (c.toNat - 'a'.toNat + 10)
  else if '0' ≤ c ∧ c ≤ '9' then some (c.toNat - '0'.toNat)
  else none

/-- `bytes.chunks(2).map(|pair| (digit(pair[0])? << 4) | digit(pair[1])?)` collected; `none` = `HexExpected` -/
def hexPairs : List Char → Option (List UInt8)
  | [] => some []
  | [_] => none
  | x :: y :: rest =>
    match hexVal? x, hexVal? y, hexPairs rest with
    | some hi, some lo, some tl => some (UInt8.ofNat ((hi <<< 4) ||| lo) :: tl)
    | _, _, _ => none

inductive PErr where
  | parseError
  /-- the input uses the `/alpha` colour suffix (float arithmetic, outside the model) -/
  | unmodelled
  deriving DecidableEq, Repr

/-- the part of `RGBA::from_str_named` after the alpha suffix has been cut off: `#RRGGBB(AA)` or a name -/
def parseRGBACore (named : List Char → Option RGBA) (color : List Char) : Except PErr RGBA :=
  if color.head? = some '#' ∧ (utf8Len color = 7 ∨ utf8Len color = 9) then
    match hexPairs color.tail with
    | some [r, g, b] => .ok ⟨r, g, b, 255⟩
    | some [r, g, b, a] => .ok ⟨r, g, b, a⟩
    | _ => .error .parseError
  else
    match named color with
    | some c => .ok c
    | none => .error .parseError

/-- `RGBA::from_str_named` without float arithmetic; `named` = the colour table.  A string with the `/alpha`
    suffix gets the explicit outcome `unmodelled` (this is what the driver answers) -/
def parseRGBA (named : List Char → Option RGBA) (color : List Char) : Except PErr RGBA :=
  if color.contains '/' then .error .unmodelled
  else parseRGBACore named color

/-- `color.rfind('/')`: the text before the last `sep` and the text after it -/
def splitLast (sep : Char) : List Char → Option (List Char × List Char)
  | [] => none
  | c :: r =>
    match splitLast sep r with
    | some (a, b) => some (c :: a, b)
    | none => if c = sep then some ([], r) else none

/-- `RGBA::from_str_named` in full.  The float part is a parameter: `alpha suffix` stands for
    `suffix.parse::<f32>()` (`none` = `InvalidAlpha`) followed by `|a| (a as f32 * alpha) as u8` — a total
    function on bytes, because a float-to-`u8` cast saturates.  The suffix is parsed before the colour. -/
def parseRGBAWith (alpha : List Char → Option (UInt8 → UInt8)) (named : List Char → Option RGBA)
    (color : List Char) : Except PErr RGBA :=
  match splitLast '/' color with
  | none => parseRGBACore named color
  | some (color, suffix) =>
    match alpha suffix with
    | none => .error .parseError
    | some scale =>
      match parseRGBACore named color with
      | .ok rgba => .ok { rgba with a := scale rgba.a }
      | .error e => .error e

/-! ## Face -/

structure Face where
  fg : Option RGBA
  bg : Option RGBA
  attrs : FaceAttrs
  deriving DecidableEq, Repr

def Face.default : Face := ⟨none, none, FaceAttrs.EMPTY⟩

/-- `char::is_whitespace` (Unicode `White_Space`) -/
def isWs (c : Char) : Bool :=
  let n := c.toNat
  (9 ≤ n && n ≤ 13) || n == 32 || n == 0x85 || n == 0xA0 || n == 0x1680 || (0x2000 ≤ n && n ≤ 0x200A) ||
  n == 0x2028 || n == 0x2029 || n == 0x202F || n == 0x205F || n == 0x3000

/-- `str::trim` -/
def trim (s : List Char) : List Char := ((s.dropWhile isWs).reverse.dropWhile isWs).reverse

/-- everything after the first `sep`, or the empty string (`splitn(2, sep)`, second piece, `unwrap_or_default`) -/
def afterFirst (sep : Char) : List Char → List Char
  | [] => []
  | c :: r => if c = sep then r else afterFirst sep r

/-- the first piece of `splitn(2, sep)` -/
def beforeFirst (sep : Char) (s : List Char) : List Char := s.takeWhile (· ≠ sep)

/-- the attribute keys of `Face::from_str_named`, in the order of its `match` -/
def attrKeys : List (List Char × FaceAttrs) :=
  [(sUnderline, FaceAttrs.UNDERLINE), (sUnderlineDouble, FaceAttrs.UNDERLINE_DOUBLE),
   (sUnderlineCurly, FaceAttrs.UNDERLINE_CURLY), (sUnderlineDotted, FaceAttrs.UNDERLINE_DOTTED),
   (sUnderlineDashed, FaceAttrs.UNDERLINE_DASHED), (sBold, FaceAttrs.BOLD), (sItalic, FaceAttrs.ITALIC),
   (sBlink, FaceAttrs.BLINK), (sReverse, FaceAttrs.REVERSE), (sStrike, FaceAttrs.STRIKE)]

/-- the closure of the `try_fold`; `pc` = the colour parser (`RGBA::from_str_named` over the table) -/
def faceStep (pc : List Char → Except PErr RGBA) (face : Face) (attrs : List Char) : Except PErr Face :=
  let key := trim (beforeFirst '=' attrs)
  let value := trim (afterFirst '=' attrs)
  if key = sFg then
    match pc value with
    | .ok c => .ok { face with fg := some c }
    | .error e => .error e
  else if key = sBg then
    match pc value with
    | .ok c => .ok { face with bg := some c }
    | .error e => .error e
  else match attrKeys.lookup key with
    | some flag => .ok { face with attrs := face.attrs.bitorAssign flag }
    | none => if key = [] then .ok face else .error .parseError

def faceFold (pc : List Char → Except PErr RGBA) : List (List Char) → Face → Except PErr Face
  | [], face => .ok face
  | p :: ps, face =>
    match faceStep pc face p with
    | .ok face' => faceFold pc ps face'
    | .error e => .error e

/-- `Face::from_str_named` over a colour parser -/
def parseFaceP (pc : List Char → Except PErr RGBA) (string : List Char) : Except PErr Face :=
  faceFold pc (splitOn ',' string) Face.default

/-- `Face::from_str_named`, strings with an `/alpha` suffix answered `unmodelled` (driver) -/
def parseFace (named : List Char → Option RGBA) (string : List Char) : Except PErr Face :=
  parseFaceP (parseRGBA named) string

/-- `Face::from_str_named` in full, the float part as the parameter `alpha` (see `parseRGBAWith`) -/
def parseFaceWith (alpha : List Char → Option (UInt8 → UInt8)) (named : List Char → Option RGBA)
    (string : List Char) : Except PErr Face :=
  parseFaceP (parseRGBAWith alpha named) string

/-- pieces joined by single commas (the `first` flag of `Display for Face`) -/
def joinComma : List (List Char) → List Char
  | [] => []
  | [p] => p
  | p :: q :: r => p ++ ',' :: joinComma (q :: r)

/-- the pieces `Display for Face` writes, in its order: `fg=…`, `bg=…`, attribute names -/
def facePieces (f : Face) : List (List Char) :=
  (match f.fg with | some c => [sFg ++ '=' :: printRGBA c] | none => []) ++
  (match f.bg with | some c => [sBg ++ '=' :: printRGBA c] | none => []) ++
  f.attrs.names

/-- `impl Display for Face` -/
def printFace (f : Face) : List Char := joinComma (facePieces f)

/-! ## Size -/

def USIZE : Nat := 2 ^ 64

/-- `checked_mul` on `usize` -/
def mul? (a b : Nat) : Option Nat := if a * b < USIZE then some (a * b) else none
/-- `+` on `usize` in a build with overflow checks: `none` = panic -/
def add? (a b : Nat) : Option Nat := if a + b < USIZE then some (a + b) else none

structure Size where
  height : Nat
  width : Nat
  deriving DecidableEq, Repr

/-- a JSON value offered where a `usize` is expected -/
inductive UVal where
  | num (n : Nat)   -- a non-negative integer literal
  | bad             -- anything else (negative, fraction, string, …)
  deriving DecidableEq, Repr

def UVal.get? : UVal → Option Nat
  | .num n => if n < USIZE then some n else none
  | .bad => none

/-- field of the derived `Size` deserialiser -/
inductive SKey where
  | height | width | other
  deriving DecidableEq, Repr

/-- what the derived `Deserialize for Size` can be handed -/
inductive SizeDoc where
  | map (entries : List (SKey × UVal))
  | seq (items : List UVal)
  | other
  deriving Repr

/-- derived `visit_map`: duplicate field → error, unknown field ignored, ill-typed value → error,
    missing field → error -/
def sizeMapLoop : List (SKey × UVal) → Option Nat → Option Nat → Option Size
  | [], some h, some w => some ⟨h, w⟩
  | [], _, _ => none
  | (.height, v) :: rest, h, w =>
    match h, v.get? with
    | none, some n => sizeMapLoop rest (some n) w
    | _, _ => none
  | (.width, v) :: rest, h, w =>
    match w, v.get? with
    | none, some n => sizeMapLoop rest h (some n)
    | _, _ => none
  | (.other, _) :: rest, h, w => sizeMapLoop rest h w

/-- derived `Deserialize for Size` (`none` = error) -/
def Size.de : SizeDoc → Option Size
  | .map es => sizeMapLoop es none none
  | .seq [a, b] =>
    match a.get?, b.get? with
    | some h, some w => some ⟨h, w⟩
    | _, _ => none
  | .seq _ => none
  | .other => none

/-- derived `Serialize for Size` -/
def Size.ser (s : Size) : SizeDoc := .map [(.height, .num s.height), (.width, .num s.width)]

/-- `impl Display for Size` -/
def printSize (s : Size) : List Char := showNat s.height ++ ' ' :: showNat s.width

/-- `usize::from_str`: optional `+`, then at least one ASCII digit, checked accumulation -/
def parseUsizeStr (s : List Char) : Option Nat :=
  let ds := match s with
    | '+' :: r => r
    | _ => s
  if ds.isEmpty then none
  else if ds.all isAsciiDigit then parseUsizeLoop ds 0
  else none

/-- `str::split([' ', ','])` -/
def splitOn2 (a b : Char) : List Char → List (List Char)
  | [] => [[]]
  | c :: r =>
    if c = a ∨ c = b then [] :: splitOn2 a b r
    else match splitOn2 a b r with
      | [] => [[c]]
      | p :: ps => (c :: p) :: ps

/-- `impl FromStr for Size` (`none` = `ParseError`) -/
def parseSize (string : List Char) : Option Size :=
  match (splitOn2 ' ' ',' string).map (fun s => parseUsizeStr (trim s)) with
  | some h :: some w :: _ => some ⟨h, w⟩
  | _ => none

/-! ## Image -/

/-- outcome of (de)serialisation; `pending` is an artefact of the model (the `read_to_end` buffer schedule
    handed in was too short) and is excluded by `C19_image_total` for every sufficient schedule -/
inductive Outcome (α : Type) where
  | ok (v : α)
  | err
  | panic
  | pending
  deriving Repr

open SurfModel.Shape (Shape)

/-- `struct Image { data: Arc<[RGBA]>, shape: Shape }` -/
structure Image where
  data : List RGBA
  shape : Shape
  deriving Repr

/-- `Image::crop` -/
def Image.crop (img : Image) (rows cols : SurfModel.Slice.Sel) : Image :=
  { img with shape := img.shape.view rows cols }

/-- an entry of the JSON map as the visitor meets it -/
inductive Entry where
  | data (text : List UInt8)   -- key `data`, a JSON string (its bytes)
  | channels (n : Nat)         -- key `channels`, an integer that fits `usize`
  | size (h w : Nat)           -- key `size`, a value the `Size` deserialiser accepts (both < 2^64)
  | other                      -- any other key, any value
  | bad                        -- a known key with a value of the wrong type: serde_json fails here
  deriving DecidableEq, Repr

/-- the serialised form: the three fields in the order `Serialize for Image` writes them -/
def Image.doc (h w : Nat) (text : List UInt8) : List Entry := [.size h w, .channels 4, .data text]

/-- `impl Serialize for Image`: every pixel of `self.iter()` through the base64 encoder -/
def Image.serialize (img : Image) : Outcome (List Entry) :=
  match SurfModel.Shape.iter img.shape img.data with
  | none => .pending
  | some items =>
    match SurfModel.Base64.encodeChunks (items.map fun p => p.2.bytes) with
    | .panic => .panic
    | .ok text => .ok (Image.doc img.shape.height img.shape.width text)

/-- visitor state: `size`, `data`, `channels` -/
structure VSt where
  size : Option Size
  data : List UInt8
  channels : Nat
  deriving Repr

def VSt.init : VSt := ⟨none, [], 3⟩

/-- `data_raw.as_bytes()` as a reader: a byte slice delivers whatever is asked for -/
def sliceReader (text : List UInt8) : SurfModel.Base64.Reader := { data := text, sched := [], tail := 0 }

/-- the `while let Some(key) = map.next_key()` loop; `sched n` = the buffer sizes `read_to_end` offers for a
    text of `n` bytes -/
def visitLoop (sched : Nat → List Nat) : List Entry → VSt → Outcome VSt
  | [], st => .ok st
  | .data text :: rest, st =>
    match SurfModel.Base64.readAll (SurfModel.Base64.Dec.new (sliceReader text)) (sched text.length) with
    | .eof bytes => visitLoop sched rest { st with data := st.data ++ bytes }
    | .error _ => .err
    | .panic => .panic
    | .pending _ => .pending
  | .channels n :: rest, st =>
    if n = 1 ∨ n = 3 ∨ n = 4 then visitLoop sched rest { st with channels := n } else .err
  | .size h w :: rest, st => visitLoop sched rest { st with size := some ⟨h, w⟩ }
  | .other :: rest, st => visitLoop sched rest st
  | .bad :: _, _ => .err

/-- `data[i]`: `none` = index out of bounds -/
def byteAt (data : List UInt8) (i : Nat) : Option UInt8 := data[i]?

/-- the three closures handed to `new_with`; `none` = arithmetic overflow or index panic -/
def pixelAt (channels width : Nat) (data : List UInt8) (row col : Nat) : Option RGBA :=
  match mul? row width with
  | none => none
  | some rw =>
    match add? rw col with
    | none => none
    | some idx =>
      if channels = 4 then
        match mul? 4 idx with
        | none => none
        | some offset =>
          match byteAt data offset, (add? offset 1).bind (byteAt data), (add? offset 2).bind (byteAt data),
                (add? offset 3).bind (byteAt data) with
          | some r, some g, some b, some a => some ⟨r, g, b, a⟩
          | _, _, _, _ => none
      else if channels = 3 then
        match mul? 3 idx with
        | none => none
        | some offset =>
          match byteAt data offset, (add? offset 1).bind (byteAt data), (add? offset 2).bind (byteAt data) with
          | some r, some g, some b => some ⟨r, g, b, 255⟩
          | _, _, _ => none
      else if channels = 1 then
        match byteAt data idx with
        | some v => some ⟨v, v, v, 255⟩
        | none => none
      else none   -- `unreachable!()`

/-- `mapM` in `Option`, by structural recursion -/
def mapO (f : α → Option β) : List α → Option (List β)
  | [] => some []
  | x :: xs =>
    match f x, mapO f xs with
    | some y, some ys => some (y :: ys)
    | _, _ => none

/-- `SurfaceOwned::new_with(size, f)`: `Vec::with_capacity(height * width)` (unchecked `*`: overflow panics in
    a build with overflow checks), then the two nested `for` loops; rows are walked only when `width != 0` -/
def newWith (h w : Nat) (f : Nat → Nat → Option α) : Option (List α) :=
  match mul? h w with
  | none => none
  | some _ =>
    let height := if w = 0 then 0 else h
    (mapO (fun row => mapO (f row) (List.range w)) (List.range height)).map List.flatten

/-- the part of `visit_map` after the key loop -/
def finishVisit (st : VSt) : Outcome Image :=
  match st.size with
  | none => .err
  | some size =>
    let expected_size := (mul? size.height size.width).bind (mul? · st.channels)
    if some st.data.length ≠ expected_size then .err
    else if st.channels = 4 ∨ st.channels = 3 ∨ st.channels = 1 then
      match newWith size.height size.width (pixelAt st.channels size.width st.data) with
      | none => .panic
      | some px => .ok ⟨px, Shape.from size.height size.width⟩
    else .panic   -- `unreachable!()`

/-- `ImageVistor::visit_map` -/
def visit (sched : Nat → List Nat) (doc : List Entry) : Outcome Image :=
  match visitLoop sched doc VSt.init with
  | .ok st => finishVisit st
  | .err => .err
  | .panic => .panic
  | .pending => .pending

/-- a buffer schedule that always suffices (every `read` of a non-empty buffer delivers a byte or ends) -/
def defaultSched (n : Nat) : List Nat := List.replicate (n + 1) 32

/-! ## JSON values, and what `serde_json` hands to the image visitor

An abstract JSON value (what `serde_json` has parsed: syntax errors and the recursion limit are behind us).
`deImage` states which entries the visitor of `Deserialize for Image` meets for a given value: this is the
model's reading of `serde_json` + the derived `Size` deserialiser (modelled, not verified; tied by the
correspondence on image documents, whose requests are written in terms of the same entries). -/

inductive Json where
  | null
  | bool (b : Bool)
  | nat (n : Nat)                                 -- a non-negative integer literal
  | num                                           -- any other number: negative, fraction, exponent
  | str (utf8 : List UInt8)
  | arr (items : List Json)
  | obj (members : List (List UInt8 × Json))      -- in document order, repeated keys kept

def kData : List UInt8 := [100, 97, 116, 97]
def kChannels : List UInt8 := [99, 104, 97, 110, 110, 101, 108, 115]
def kSize : List UInt8 := [115, 105, 122, 101]
def kHeight : List UInt8 := [104, 101, 105, 103, 104, 116]
def kWidth : List UInt8 := [119, 105, 100, 116, 104]

def Json.uval : Json → UVal
  | .nat n => .num n
  | _ => .bad

def Json.sizeDoc : Json → SizeDoc
  | .obj ms => .map (ms.map fun m => (if m.1 = kHeight then .height else if m.1 = kWidth then .width else .other, m.2.uval))
  | .arr xs => .seq (xs.map Json.uval)
  | _ => .other

/-- one member of the object as the visitor's `match key` sees it -/
def Json.entry (m : List UInt8 × Json) : Entry :=
  if m.1 = kData then
    match m.2 with
    | .str t => .data t
    | _ => .bad
  else if m.1 = kChannels then
    match m.2 with
    | .nat n => if n < USIZE then .channels n else .bad
    | _ => .bad
  else if m.1 = kSize then
    match Size.de m.2.sizeDoc with
    | some s => .size s.height s.width
    | none => .bad
  else .other

/-- `Image::deserialize` on a JSON value: `deserialize_map` rejects everything but an object -/
def deImage (sched : Nat → List Nat) : Json → Outcome Image
  | .obj ms => visit sched (ms.map Json.entry)
  | _ => .err

/-! ## line protocol -/
open SurfModel.Proto

def showChars (l : List Char) : String := showNatList (l.map Char.toNat)

def readChars (s : String) : Option (List Char) := (natList? s).map (·.map Char.ofNat)

def showColor : Option RGBA → String
  | none => "none"
  | some c => s!"{c.r.toNat}.{c.g.toNat}.{c.b.toNat}.{c.a.toNat}"

def readColor (s : String) : Option (Option RGBA) :=
  if s == "none" then some none else
  match (s.splitOn ".").mapM (·.toNat?) with
  | some [r, g, b, a] => some (some ⟨UInt8.ofNat r, UInt8.ofNat g, UInt8.ofNat b, UInt8.ofNat a⟩)
  | _ => none

/-- colour table of a request: `name=r.g.b.a` items separated by `;`, names as `.`-separated code points;
    `-` = empty -/
def readTable (s : String) : Option (List (List Char × RGBA)) :=
  if s == "-" then some [] else
  (s.splitOn ";").mapM fun item =>
    match item.splitOn "=" with
    | [n, c] => do
      let n ← (n.splitOn "_").mapM (·.toNat?)
      let c ← readColor c
      let c ← c
      pure (n.map Char.ofNat, c)
    | _ => none

def showFaceRes : Except PErr Face → String
  | .ok f => s!"ok {showColor f.fg} {showColor f.bg} {f.attrs.bits}"
  | .error .parseError => "err"
  | .error .unmodelled => "unmodelled"

/-- attribute programs: items separated by `,`, each appends one value to the value list.
    `k<bits>` constant; `u<n>` `From<UnderlineStyle>`; `o<i>.<j>` `|`; `a` `&`; `x` `^`; `i` insert; `r` remove;
    `O` `|=`; `A` `&=`; `X` `^=`; `c<i>.<j>` contains (value 1 / 0 printed as `t` / `f`) -/
def attrItem (vals : Array FaceAttrs) (item : String) : Option (FaceAttrs ⊕ Bool) :=
  let op := item.take 1 |>.toString
  let rest := (item.drop 1).toString
  if op == "k" then rest.toNat?.map (Sum.inl ⟨·⟩)
  else if op == "u" then rest.toNat?.map (Sum.inl <| FaceAttrs.ofUnderline ·)
  else match (rest.splitOn ".").mapM (·.toNat?) with
    | some [i, j] =>
      match vals[i]?, vals[j]? with
      | some a, some b =>
        if op == "o" then some (.inl (a.bitor b)) else if op == "a" then some (.inl (a.bitand b))
        else if op == "x" then some (.inl (a.bitxor b)) else if op == "i" then some (.inl (a.insert b))
        else if op == "r" then some (.inl (a.remove b)) else if op == "O" then some (.inl (a.bitorAssign b))
        else if op == "A" then some (.inl (a.bitandAssign b)) else if op == "X" then some (.inl (a.bitxorAssign b))
        else if op == "c" then some (.inr (a.contains b))
        else none
      | _, _ => none
    | _ => none

def attrProgram (items : List String) : Option (List String) := do
  let mut vals : Array FaceAttrs := #[]
  let mut out : List String := []
  for it in items do
    match attrItem vals it with
    | some (.inl a) =>
      vals := vals.push a
      out := toString a.bits :: out
    | some (.inr b) =>
      vals := vals.push FaceAttrs.EMPTY
      out := (if b then "t" else "f") :: out
    | none => none
  pure out.reverse

def readUVal (s : String) : Option UVal :=
  if s == "bad" then some .bad else s.toNat?.map .num

def readSKey (s : String) : SKey := if s == "height" then .height else if s == "width" then .width else .other

def showSizeRes : Option Size → String
  | some s => s!"ok {s.height} {s.width}"
  | none => "err"

def readEntry (s : String) : Option Entry :=
  if s == "o" then some .other else if s == "b" then some .bad else
  match s.splitOn ":" with
  | ["d", h] => (unhex h).map .data
  | ["c", n] => n.toNat?.map .channels
  | ["s", hw] =>
    match (hw.splitOn ",").mapM (·.toNat?) with
    | some [h, w] => some (.size h w)
    | _ => none
  | _ => none

def showImage (img : Image) : String :=
  s!"ok {img.shape.height} {img.shape.width} {hex (img.data.flatMap RGBA.bytes)}"

/-- rgba bytes → pixels -/
def pixelsOf : List UInt8 → List RGBA
  | r :: g :: b :: a :: rest => ⟨r, g, b, a⟩ :: pixelsOf rest
  | _ => []

/--
* `face parse <cps> <table>` → `ok <fg> <bg> <bits>` | `err` | `unmodelled`
* `face print <fg> <bg> <bits>` → code points of `Display`
* `attrs <program>` → the bits of every value, `,`-separated
* `size de map <key>=<val>…` / `size de seq <val>…` / `size de other` → `ok h w` | `err`
* `size parse <cps>` → `ok h w` | `err`;  `size print h w` → code points
* `image de <entry>…` → `ok h w <rgba hex>` | `err` | `panic`
* `image ser <h> <w> <rgba hex> <chain>` → `ok h' w' <text hex>` (chain as in `SurfModel.Shape`)
-/
def handle : List String → String
  | ["face", "parse", cps, tbl] =>
    match readChars cps, readTable tbl with
    | some s, some t => showFaceRes (parseFace (fun n => t.lookup n) s)
    | _, _ => "bad-op"
  | ["face", "print", fg, bg, bits] =>
    match readColor fg, readColor bg, bits.toNat? with
    | some fg, some bg, some bits => showChars (printFace ⟨fg, bg, ⟨bits⟩⟩)
    | _, _, _ => "bad-op"
  | ["attrs", prog] =>
    match attrProgram (prog.splitOn ",") with
    | some out => ",".intercalate out
    | none => "bad-op"
  | "size" :: "de" :: "map" :: es =>
    match es.mapM (fun e => match e.splitOn "=" with
        | [k, v] => (readUVal v).map (fun v => (readSKey k, v))
        | _ => none) with
    | some es => showSizeRes (Size.de (.map es))
    | none => "bad-op"
  | "size" :: "de" :: "seq" :: vs =>
    match vs.mapM readUVal with
    | some vs => showSizeRes (Size.de (.seq vs))
    | none => "bad-op"
  | ["size", "de", "other"] => showSizeRes (Size.de .other)
  | ["size", "parse", cps] =>
    match readChars cps with
    | some s => showSizeRes (parseSize s)
    | none => "bad-op"
  | ["size", "print", h, w] =>
    match h.toNat?, w.toNat? with
    | some h, some w => showChars (printSize ⟨h, w⟩)
    | _, _ => "bad-op"
  | "image" :: "de" :: es =>
    match es.mapM readEntry with
    | some doc =>
      match visit defaultSched doc with
      | .ok img => showImage img
      | .err => "err"
      | .panic => "panic"
      | .pending => "pending"
    | none => "bad-op"
  | ["image", "ser", h, w, data, chain] =>
    match h.toNat?, w.toNat?, unhex data, SurfModel.Shape.parseChain chain with
    | some h, some w, some data, some ops =>
      let img : Image := ⟨pixelsOf data, Shape.chain ops (Shape.from h w)⟩
      match img.serialize with
      | .ok [.size h' w', .channels 4, .data text] => s!"ok {h'} {w'} {hex text}"
      | .ok _ => "bad-doc"
      | .err => "err"
      | .panic => "panic"
      | .pending => "pending"
    | _, _, _, _ => "bad-op"
  | _ => "bad-op"

end SurfModel.Serde
