import SurfModel.Slice
/-! Line-protocol driver: one request per line, `<family> <args…>`; one answer per line. -/

def dispatch (line : String) : String :=
  match (line.trimAscii.toString.splitOn " ").filter (· ≠ "") with
  | "c08" :: rest => SurfModel.Slice.handle rest
  | _ => "bad-op"

partial def loop (h : IO.FS.Stream) (out : IO.FS.Stream) : IO Unit := do
  let line ← h.getLine
  if line.isEmpty then return ()
  out.putStrLn (dispatch line)
  loop h out

def main : IO Unit := do
  let out ← IO.getStdout
  loop (← IO.getStdin) out
  out.flush
