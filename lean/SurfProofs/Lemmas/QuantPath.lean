import SurfModel.Quant
import Mathlib.Tactic.Linarith
/-!
# C13 helper lemmas — `OcTreePath`: the eight items determine the colour
-/
namespace SurfProofs.QuantPath
open SurfModel.Quant

def validC (c : RGB) : Prop := c.r < 256 ∧ c.g < 256 ∧ c.b < 256

/-- the packed `u32` state -/
def pack (c : RGB) : Nat := (c.r <<< 16) ||| (c.g <<< 8) ||| c.b

/-- state after `k` calls of `next` -/
def iter : Nat → Nat → Nat
  | 0, s => s
  | k + 1, s => iter k (pathStep s).2

theorem mask_bit : ∀ m : Fin 24, m.val % 8 ≠ 0 → (0x00fefefe : Nat).testBit m.val = true := by decide

theorem step_state_bit (s j : Nat) (hj : j < 24) (hm : j % 8 ≠ 0) :
    (pathStep s).2.testBit j = s.testBit (j - 1) := by
  have h1 : 1 ≤ j := by omega
  simp only [pathStep, Nat.testBit_and, Nat.testBit_shiftLeft, mask_bit ⟨j, hj⟩ hm, Bool.and_true]
  simp [h1]

theorem iter_bit (k : Nat) : ∀ (s j base : Nat), (base = 0 ∨ base = 8 ∨ base = 16) →
    base + k ≤ j → j ≤ base + 7 → (iter k s).testBit j = s.testBit (j - k) := by
  induction k with
  | zero => intro s j base _ _ _; rfl
  | succ k ih =>
    intro s j base hb h1 h2
    show (iter k (pathStep s).2).testBit j = _
    rw [ih _ j base hb (by omega) h2, step_state_bit s (j - k) (by omega) (by omega)]
    congr 1

theorem seven_bit (i : Nat) (h : 3 ≤ i) : (7 : Nat).testBit i = false :=
  Nat.testBit_lt_two_pow (lt_of_lt_of_le (by decide : 7 < 2 ^ 3) (Nat.pow_le_pow_right (by decide) h))

/-- the item: bit 2 = red msb, bit 1 = green msb, bit 0 = blue msb -/
theorem step_val_bits (s : Nat) :
    (pathStep s).1.val.testBit 2 = s.testBit 23 ∧ (pathStep s).1.val.testBit 1 = s.testBit 15 ∧
      (pathStep s).1.val.testBit 0 = s.testBit 7 := by
  have a23 : Nat.testBit 8421504 23 = true := by decide
  have a16 : Nat.testBit 8421504 16 = false := by decide
  have a9 : Nat.testBit 8421504 9 = false := by decide
  have a22 : Nat.testBit 8421504 22 = false := by decide
  have a15 : Nat.testBit 8421504 15 = true := by decide
  have a8 : Nat.testBit 8421504 8 = false := by decide
  have a21 : Nat.testBit 8421504 21 = false := by decide
  have a14 : Nat.testBit 8421504 14 = false := by decide
  have a7 : Nat.testBit 8421504 7 = true := by decide
  have s2 : Nat.testBit 7 2 = true := by decide
  have s1 : Nat.testBit 7 1 = true := by decide
  have s0 : Nat.testBit 7 0 = true := by decide
  simp only [pathStep, Nat.testBit_and, Nat.testBit_or, Nat.testBit_shiftRight]
  refine ⟨?_, ?_, ?_⟩ <;> simp [a23, a16, a9, a22, a15, a8, a21, a14, a7, s2, s1, s0]

theorem pathGo_get (n : Nat) : ∀ (s k : Nat) (h : k < (pathGo n s).length),
    (pathGo n s)[k] = (pathStep (iter k s)).1 := by
  induction n with
  | zero => intro s k h; simp [pathGo] at h
  | succ n ih =>
    intro s k h
    cases k with
    | zero => rfl
    | succ k =>
      simp only [pathGo, List.getElem_cons_succ]
      rw [ih]; rfl

theorem pathGo_length (n s : Nat) : (pathGo n s).length = n := by
  induction n generalizing s with
  | zero => rfl
  | succ n ih => simp [pathGo, ih]

/-- equal paths: the packed states agree on the 24 colour bits -/
theorem pack_bits_of_path_eq (s s' : Nat) (h : pathGo 8 s = pathGo 8 s') :
    ∀ m, m < 24 → s.testBit m = s'.testBit m := by
  have hk : ∀ k (hk : k < 8), (pathStep (iter k s)).1 = (pathStep (iter k s')).1 := by
    intro k hk
    have h1 := pathGo_get 8 s k (by rw [pathGo_length]; exact hk)
    have h2 := pathGo_get 8 s' k (by rw [pathGo_length]; exact hk)
    rw [← h1, ← h2]; simp only [h]
  intro m hm
  -- m = base + (7 - k)
  have key : ∀ k, k < 8 → ∀ base, (base = 0 ∨ base = 8 ∨ base = 16) →
      s.testBit (base + 7 - k) = s'.testBit (base + 7 - k) := by
    intro k hk8 base hb
    have e := hk k hk8
    have b1 := step_val_bits (iter k s)
    have b2 := step_val_bits (iter k s')
    rw [e] at b1
    have i1 := iter_bit k s (base + 7) base hb (by omega) (by omega)
    have i2 := iter_bit k s' (base + 7) base hb (by omega) (by omega)
    rcases hb with rfl | rfl | rfl
    · rw [← i1, ← i2]; exact b1.2.2.symm.trans b2.2.2
    · rw [← i1, ← i2]; exact b1.2.1.symm.trans b2.2.1
    · rw [← i1, ← i2]; exact b1.1.symm.trans b2.1
  have : m = (m / 8 * 8) + 7 - (7 - m % 8) := by omega
  rw [this]
  exact key (7 - m % 8) (by omega) (m / 8 * 8) (by omega)

theorem lt_testBit_false (x i n : Nat) (hx : x < 2 ^ n) (h : n ≤ i) : x.testBit i = false :=
  Nat.testBit_lt_two_pow (lt_of_lt_of_le hx (Nat.pow_le_pow_right (by decide) h))

theorem pack_bit_r (c : RGB) (hv : validC c) (j : Nat) : (pack c).testBit (16 + j) = c.r.testBit j := by
  obtain ⟨_, hg, hb⟩ := hv
  simp only [pack, Nat.testBit_or, Nat.testBit_shiftLeft]
  have e1 : c.g.testBit (16 + j - 8) = false := lt_testBit_false _ _ 8 hg (by omega)
  have e2 : c.b.testBit (16 + j) = false := lt_testBit_false _ _ 8 hb (by omega)
  simp [e1, e2]

theorem pack_bit_g (c : RGB) (hv : validC c) (j : Nat) (hj : j < 8) : (pack c).testBit (8 + j) = c.g.testBit j := by
  obtain ⟨_, _, hb⟩ := hv
  simp only [pack, Nat.testBit_or, Nat.testBit_shiftLeft]
  have e2 : c.b.testBit (8 + j) = false := lt_testBit_false _ _ 8 hb (by omega)
  have e3 : ¬ (8 + j ≥ 16) := by omega
  simp [e2, e3]

theorem pack_bit_b (c : RGB) (j : Nat) (hj : j < 8) : (pack c).testBit j = c.b.testBit j := by
  simp only [pack, Nat.testBit_or, Nat.testBit_shiftLeft]
  have e3 : ¬ (j ≥ 16) := by omega
  have e4 : ¬ (j ≥ 8) := by omega
  simp [e3, e4]

theorem eq_of_low_bits (x y : Nat) (hx : x < 256) (hy : y < 256)
    (h : ∀ j, j < 8 → x.testBit j = y.testBit j) : x = y := by
  apply Nat.eq_of_testBit_eq
  intro i
  by_cases hi : i < 8
  · exact h i hi
  · rw [lt_testBit_false x i 8 hx (by omega), lt_testBit_false y i 8 hy (by omega)]

/-- `OcTreePath` is injective on 24-bit colours -/
theorem pathOf_inj (c c' : RGB) (hc : validC c) (hc' : validC c') (h : pathOf c = pathOf c') : c = c' := by
  have hb := pack_bits_of_path_eq (pack c) (pack c') h
  have hr : c.r = c'.r := eq_of_low_bits _ _ hc.1 hc'.1 fun j hj => by
    rw [← pack_bit_r c hc j, ← pack_bit_r c' hc' j]; exact hb _ (by omega)
  have hg : c.g = c'.g := eq_of_low_bits _ _ hc.2.1 hc'.2.1 fun j hj => by
    rw [← pack_bit_g c hc j hj, ← pack_bit_g c' hc' j hj]; exact hb _ (by omega)
  have hbb : c.b = c'.b := eq_of_low_bits _ _ hc.2.2 hc'.2.2 fun j hj => by
    rw [← pack_bit_b c j hj, ← pack_bit_b c' j hj]; exact hb _ (by omega)
  cases c; cases c'; simp_all

theorem pathOf_length (c : RGB) : (pathOf c).length = 8 := pathGo_length 8 _

end SurfProofs.QuantPath
