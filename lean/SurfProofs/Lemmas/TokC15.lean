import SurfProofs.C03
import SurfProofs.C15
import SurfProofs.Lemmas.Utf8Decoder
/-!
Link C03 ↔ C15 (and C02's automaton of `Utf8Decoder`): the abstract automaton of the C03 theorems
instantiated with the DFA that `NFA::compile` produces (C15's model of it) from a finite set of patterns
combined as `MatcherAutomata::new` combines them (`NFA::choice` of the tagged alternatives = `Re.altT`).
`TermOk` is `C15_terminal_iff`, "accepted by the automaton" is "some pattern matches" by `C15_language`:
the tokenisation is leftmost-longest with respect to the SET OF PATTERNS (`Re.Matches`).
-/
namespace SurfProofs.C03
open SurfModel.Automata SurfModel.Tokenizer SurfModel.Utf8 SurfProofs.C15

set_option linter.unusedVariables false

/-- some pattern of the set matches `w` (textbook matching relation of C15) -/
def MatchesSome (alts : List (Re × Option Nat)) (w : List UInt8) : Prop := ∃ a ∈ alts, a.1.Matches w

/-- the compiled automaton of a set of (optionally tagged) patterns -/
def patDFA (alts : List (Re × Option Nat)) : DFA := (Re.altT alts).toNFA.compile

/-- … as the automaton the decoder runs -/
def patAuto (alts : List (Re × Option Nat)) : Auto DState := dfaAuto (patDFA alts)

theorem altT_matches (alts : List (Re × Option Nat)) (w : List UInt8) :
    (Re.altT alts).Matches w ↔ MatchesSome alts w := by
  constructor
  · intro h
    unfold Re.altT at h
    cases h with
    | alt hmem hm =>
      obtain ⟨a, ha, rfl⟩ := List.mem_map.mp hmem
      refine ⟨a, ha, ?_⟩
      unfold Re.tagged at hm
      split at hm
      · cases hm with
        | tag h => exact h
      · exact hm
  · rintro ⟨a, ha, hm⟩
    unfold Re.altT
    refine Re.Matches.alt (List.mem_map.mpr ⟨a, ha, rfl⟩) ?_
    unfold Re.tagged
    split
    · exact Re.Matches.tag hm
    · exact hm

theorem patAuto_termOk (alts : List (Re × Option Nat)) : (patAuto alts).TermOk := by
  intro S h b
  exact (C15_terminal_iff _ S).mp h b

theorem patAuto_run (alts : List (Re × Option Nat)) (w : List UInt8) :
    runA (patAuto alts) (patAuto alts).start w = (patDFA alts).run w :=
  SurfProofs.Utf8Dec.runA_dfaAuto _ _ w

theorem patAuto_accepted (alts : List (Re × Option Nat)) (w : List UInt8) :
    AcceptedFrom (patAuto alts) (patAuto alts).start w ↔ MatchesSome alts w := by
  rw [← altT_matches, ← C15_language]
  unfold AcceptedFrom
  rw [patAuto_run]
  unfold DFA.matches patDFA
  cases h : (Re.altT alts).toNFA.compile.run w with
  | none => simp
  | some S => simp [patAuto, dfaAuto, patDFA]

/-- the whole of `w` matches some pattern in a DFA state flagged terminal -/
def CompleteP (alts : List (Re × Option Nat)) (w : List UInt8) : Prop :=
  ∃ S, (patDFA alts).run w = some S ∧ (patDFA alts).isAccepting S = true ∧ (patDFA alts).isTerminal S = true

theorem patAuto_complete (alts : List (Re × Option Nat)) (w : List UInt8) :
    complete (patAuto alts) w = true ↔ CompleteP alts w := by
  unfold complete CompleteP
  rw [patAuto_run]
  cases h : (patDFA alts).run w with
  | none => simp
  | some S => simp [patAuto, dfaAuto]

/-- a complete sequence matches some pattern and no pattern matches any extension of it -/
theorem completeP_spec (alts : List (Re × Option Nat)) (w : List UInt8) (h : CompleteP alts w) :
    MatchesSome alts w ∧ ∀ b v, ¬ MatchesSome alts (w ++ b :: v) := by
  obtain ⟨S, h1, h2, h3⟩ := h
  constructor
  · rw [← altT_matches, ← C15_language]
    unfold DFA.matches
    unfold patDFA at h1 h2
    rw [h1]; exact h2
  · intro b v hm
    exact C15_terminal (Re.altT alts) w S h1 h3 b v ((altT_matches alts _).mpr hm)

/-- once the automaton is stuck no pattern matches, whatever follows -/
theorem dead_no_match (alts : List (Re × Option Nat)) (w : List UInt8) (h : (patDFA alts).run w = none)
    (v : List UInt8) : ¬ MatchesSome alts (w ++ v) := by
  intro hm
  exact C15_dead (Re.altT alts) w h v ((altT_matches alts _).mpr hm)

/-- Leftmost-longest tokenisation with respect to a set of patterns. The same clauses as `LL`, with
"accepted" spelled out as "some pattern matches" (`Re.Matches`); "stuck" / "readable" / "complete" refer to
the compiled automaton of the set, and mean for the language: stuck ⇒ no pattern matches any extension
(`dead_no_match`); complete ⇒ some pattern matches and none matches any extension (`completeP_spec`). -/
inductive LLP (alts : List (Re × Option Nat)) : List UInt8 → List (Item DState) → List UInt8 → Prop
  | pending (w : List UInt8) (h : w = [] ∨ ((patDFA alts).run w ≠ none ∧ ¬ CompleteP alts w)) : LLP alts w [] w
  | tok (w : List UInt8) (n : Nat) (S : DState) (items : List (Item DState)) (rest : List UInt8)
      (hn0 : 0 < n) (hn : n ≤ w.length)
      (hmatch : MatchesSome alts (w.take n))
      (hstate : (patDFA alts).run (w.take n) = some S)
      (hlongest : ∀ k, n < k → k ≤ w.length → ¬ MatchesSome alts (w.take k))
      (hdecided : (∃ l, l < w.length ∧ (patDFA alts).run (w.take (l + 1)) = none) ∨ CompleteP alts w)
      (hrest : LLP alts (w.drop n) items rest) : LLP alts w (.tok (w.take n) S :: items) rest
  | raw (w : List UInt8) (l : Nat) (items : List (Item DState)) (rest : List UInt8)
      (hnone : ∀ k, 0 < k → k ≤ w.length → ¬ MatchesSome alts (w.take k))
      (hl : l < w.length) (hlive : (patDFA alts).run (w.take l) ≠ none)
      (hdead : (patDFA alts).run (w.take (l + 1)) = none)
      (hrest : LLP alts (w.drop (max l 1)) items rest) : LLP alts w (.raw (w.take (max l 1)) :: items) rest

theorem LL_to_LLP (alts : List (Re × Option Nat)) (w : List UInt8) (items : List (Item DState))
    (rest : List UInt8) (h : LL (patAuto alts) w items rest) : LLP alts w items rest := by
  induction h with
  | pending w h =>
    refine LLP.pending w ?_
    rcases h with h | ⟨h1, h2⟩
    · exact Or.inl h
    · right
      unfold Live at h1
      rw [patAuto_run] at h1
      refine ⟨fun h0 => (by rw [h0] at h1; cases h1), fun hc => ?_⟩
      rw [(patAuto_complete alts w).mpr hc] at h2; cases h2
  | tok w n q items rest hn0 hn hrun hacc hlongest hdecided _ ih =>
    refine LLP.tok w n q items rest hn0 hn ((patAuto_accepted alts _).mp ⟨q, hrun, hacc⟩)
      (by rw [← patAuto_run]; exact hrun)
      (fun k h1 h2 hm => hlongest k h1 h2 ((patAuto_accepted alts _).mpr hm)) ?_ ih
    rcases hdecided with ⟨l, hl, hd⟩ | hc
    · exact Or.inl ⟨l, hl, by rw [← patAuto_run]; exact hd⟩
    · exact Or.inr ((patAuto_complete alts w).mp hc)
  | raw w l items rest hnone hl hlive hdead _ ih =>
    refine LLP.raw w l items rest
      (fun k h1 h2 hm => hnone k h1 h2 ((patAuto_accepted alts _).mpr hm)) hl ?_
      (by rw [← patAuto_run]; exact hdead) ih
    unfold Live at hlive
    rw [patAuto_run] at hlive
    intro h0; rw [h0] at hlive; cases hlive

/-- **For all finite sets of recognised patterns and all inputs, cut into reads in any way**: the decoder
model running the automaton compiled from the patterns succeeds, leaves nothing rescheduled, and its items
together with the bytes it holds back are the leftmost-longest tokenisation of the stream with respect to
the SET OF PATTERNS: every recognised item is the longest prefix of the remaining input matched by some
pattern, every unrecognised item is cut where no pattern could go on, and so on (`LLP`). -/
theorem C03_patterns (alts : List (Re × Option Nat)) (chunks : List (List UInt8)) :
    ∃ per s, feedAll (patAuto alts) (init (patAuto alts)) chunks = .ok (per, s) ∧ s.resched = [] ∧
      LLP alts chunks.flatten per.flatten s.buffer := by
  obtain ⟨per, s, h1, h2, h3⟩ := C03_leftmost_longest (patAuto alts) (patAuto_termOk alts) chunks
  exact ⟨per, s, h1, h2, LL_to_LLP alts _ _ _ h3⟩

/-- the pattern-level reading is as rigid as the automaton-level one (`C03_leftmost_longest_unique`) and the
items cover the stream -/
theorem C03_patterns_cover (alts : List (Re × Option Nat)) (chunks : List (List UInt8)) :
    ∃ per s, feedAll (patAuto alts) (init (patAuto alts)) chunks = .ok (per, s) ∧
      per.flatten.flatMap Item.bytes ++ s.buffer = chunks.flatten := by
  obtain ⟨per, s, h1, _, h3⟩ := C03_leftmost_longest (patAuto alts) (patAuto_termOk alts) chunks
  exact ⟨per, s, h1, LL_cover _ _ _ _ h3⟩

/-- `ab | abcd` on `abcx`, at the level of patterns -/
example : MatchesSome [(Re.lit [97, 98], some 0), (Re.lit [97, 98, 99, 100], some 1)] [97, 98] :=
  ⟨_, List.mem_cons_self, Re.Matches.lit _⟩

/-- **`Utf8Decoder` never faults** on its own automaton (`utf8_nfa(Canonical)` compiled, C02/C15's model):
the hypothesis of `C03_utf8_conservation` always holds there, so for every stream and every way of cutting
it the results cover the stream. -/
theorem C03_utf8_total (chunks : List (List UInt8)) :
    ∃ per s, ufeedAll utf8Auto (uinit utf8Auto) chunks = .ok (per, s) ∧
      per.flatten.flatMap UItem.bytes ++ s.buf = chunks.flatten := by
  obtain ⟨items, s', h1, _, _⟩ :=
    SurfProofs.Utf8Dec.ugo_total utf8Auto SurfProofs.Utf8Dec.utf8Auto_short (uinit utf8Auto) chunks.flatten rfl
  have h4 := ufeedAll_ugo utf8Auto chunks (uinit utf8Auto)
  rw [h1] at h4
  cases hf : ufeedAll utf8Auto (uinit utf8Auto) chunks with
  | error e => rw [hf] at h4; simp [flatU] at h4
  | ok p =>
    obtain ⟨per, s⟩ := p
    exact ⟨per, s, rfl, C03_utf8_conservation utf8Auto chunks per s hf⟩

end SurfProofs.C03
