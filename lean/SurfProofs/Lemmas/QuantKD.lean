import SurfModel.Quant
import Mathlib.Tactic.Linarith
/-!
# C13 helper lemmas — k-d tree (`KDTree::new`, `find_rec`)
-/
namespace SurfProofs.QuantKD
open SurfModel.Quant

/-- entries (palette index, colour) stored in the tree -/
def Mem (p : Nat × RGB) : KD → Prop
  | .nil => False
  | .node c i _ l r => p = (i, c) ∨ Mem p l ∨ Mem p r

/-- what `build_rec` guarantees: left ≤ node ≤ right on the split dimension (equal keys on either side) -/
def Ordered : KD → Prop
  | .nil => True
  | .node c _ d l r =>
    (∀ p, Mem p l → p.2.get d ≤ c.get d) ∧ (∀ p, Mem p r → c.get d ≤ p.2.get d) ∧ Ordered l ∧ Ordered r

theorem sq_nonneg' (x : Int) : 0 ≤ sqr x := by unfold sqr; nlinarith [mul_self_nonneg x]

theorem sq_coord_le_dist (a b : RGB) (d : Fin 3) :
    sqr ((a.get d : Int) - (b.get d : Int)) ≤ dist a b := by
  unfold dist
  have h0 := sq_nonneg' ((a.r : Int) - b.r)
  have h1 := sq_nonneg' ((a.g : Int) - b.g)
  have h2 := sq_nonneg' ((a.b : Int) - b.b)
  match d with
  | ⟨0, _⟩ => show sqr ((a.r : Int) - b.r) ≤ _; linarith
  | ⟨1, _⟩ => show sqr ((a.g : Int) - b.g) ≤ _; linarith
  | ⟨2, _⟩ => show sqr ((a.b : Int) - b.b) ≤ _; linarith

/-- pruning bound: a point on the far side of the splitting plane is at least the plane distance away -/
theorem plane_bound_lt (t p : RGB) (d : Fin 3) (v : Nat) (h1 : t.get d < v) (h2 : v ≤ p.get d) :
    sqr ((t.get d : Int) - (v : Int)) ≤ dist t p := by
  have h1' : (t.get d : Int) < v := by exact_mod_cast h1
  have h2' : (v : Int) ≤ p.get d := by exact_mod_cast h2
  have : sqr ((t.get d : Int) - v) ≤ sqr ((t.get d : Int) - p.get d) := by unfold sqr; nlinarith
  exact le_trans this (sq_coord_le_dist t p d)

theorem plane_bound_ge (t p : RGB) (d : Fin 3) (v : Nat) (h1 : v ≤ t.get d) (h2 : p.get d ≤ v) :
    sqr ((t.get d : Int) - (v : Int)) ≤ dist t p := by
  have h1' : (v : Int) ≤ t.get d := by exact_mod_cast h1
  have h2' : (p.get d : Int) ≤ v := by exact_mod_cast h2
  have : sqr ((t.get d : Int) - v) ≤ sqr ((t.get d : Int) - p.get d) := by unfold sqr; nlinarith
  exact le_trans this (sq_coord_le_dist t p d)

/-- `r` is a best answer over the entry set `S` -/
def Good (target : RGB) (S : Nat × RGB → Prop) (r : Option (RGB × Nat × Int)) : Prop :=
  match r with
  | none => ∀ p, ¬ S p
  | some (g, gi, gd) => S (gi, g) ∧ gd = dist target g ∧ ∀ p, S p → gd ≤ dist target p.2

/-- soundness of one level: `near` is searched exhaustively, `far` lies entirely beyond the plane -/
theorem combine_good (target c : RGB) (idx : Nat) (d : Fin 3) (N F : Nat × RGB → Prop) (near far)
    (hn : Good target N near) (hf : Good target F (far ()))
    (hplane : ∀ p, F p → sqr ((target.get d : Int) - (c.get d : Int)) ≤ dist target p.2) :
    Good target (fun p => p = (idx, c) ∨ N p ∨ F p) (some (combine target c idx d near far)) := by
  have hguess : ∀ g, g = pickGuess target c idx near →
      ((g.2.1, g.1) = (idx, c) ∨ N (g.2.1, g.1)) ∧ g.2.2 = dist target g.1 ∧
        (∀ p, (p = (idx, c) ∨ N p) → g.2.2 ≤ dist target p.2) := by
    intro g hg
    unfold pickGuess at hg
    cases near with
    | none =>
      subst hg
      refine ⟨Or.inl rfl, rfl, ?_⟩
      intro p hp; rcases hp with rfl | hp
      · exact le_refl _
      · exact absurd hp (hn p)
    | some x =>
      obtain ⟨g', gi, gd⟩ := x
      obtain ⟨h1, h2, h3⟩ := hn
      by_cases hge : gd ≥ dist target c
      · simp only [hge, if_true] at hg; subst hg
        refine ⟨Or.inl rfl, rfl, ?_⟩
        intro p hp; rcases hp with rfl | hp
        · exact le_refl _
        · exact le_trans hge (h3 p hp)
      · simp only [hge, if_false] at hg; subst hg
        refine ⟨Or.inr h1, h2, ?_⟩
        intro p hp; rcases hp with rfl | hp
        · exact le_of_lt (not_le.mp hge)
        · exact h3 p hp
  unfold combine
  simp only []
  generalize hgdef : pickGuess target c idx near = guess
  obtain ⟨hg1, hg2, hg3⟩ := hguess guess hgdef.symm
  have hmem : (fun p => p = (idx, c) ∨ N p ∨ F p) (guess.2.1, guess.1) := by
    rcases hg1 with h | h
    · exact Or.inl h
    · exact Or.inr (Or.inl h)
  by_cases hprune : sqr ((target.get d : Int) - (c.get d : Int)) ≥ guess.2.2
  · rw [if_pos hprune]; simp only [Good]
    refine ⟨hmem, hg2, ?_⟩
    intro p hp
    rcases hp with h | h | h
    · exact hg3 p (Or.inl h)
    · exact hg3 p (Or.inr h)
    · exact le_trans hprune (hplane p h)
  · rw [if_neg hprune]
    cases hfar : far () with
    | none =>
      rw [hfar] at hf
      dsimp only
      simp only [Good]
      refine ⟨hmem, hg2, ?_⟩
      intro p hp
      rcases hp with h | h | h
      · exact hg3 p (Or.inl h)
      · exact hg3 p (Or.inr h)
      · exact absurd h (hf p)
    | some x =>
      rw [hfar] at hf
      obtain ⟨o, oi, od⟩ := x
      obtain ⟨h1, h2, h3⟩ := hf
      dsimp only
      by_cases hb : od < guess.2.2
      · rw [if_pos hb]; simp only [Good]
        refine ⟨Or.inr (Or.inr h1), h2, ?_⟩
        intro p hp
        rcases hp with h | h | h
        · exact le_trans (le_of_lt hb) (hg3 p (Or.inl h))
        · exact le_trans (le_of_lt hb) (hg3 p (Or.inr h))
        · exact h3 p h
      · rw [if_neg hb]; simp only [Good]
        refine ⟨hmem, hg2, ?_⟩
        intro p hp
        rcases hp with h | h | h
        · exact hg3 p (Or.inl h)
        · exact hg3 p (Or.inr h)
        · exact le_trans (not_lt.mp hb) (h3 p h)

/-- on an ordered tree `find_rec` returns a stored entry at minimal distance -/
theorem find_min (target : RGB) (t : KD) (ho : Ordered t) :
    Good target (fun p => Mem p t) (findRec target t) := by
  induction t with
  | nil => simp [findRec, Good, Mem]
  | node c idx d l r ihl ihr =>
    obtain ⟨hl, hr, hol, hor⟩ := ho
    simp only [findRec]
    by_cases hside : target.get d < c.get d
    · simp only [hside, if_true]
      have := combine_good target c idx d (fun p => Mem p l) (fun p => Mem p r) _
        (fun _ => findRec target r) (ihl hol) (ihr hor)
        (fun p hp => plane_bound_lt target p.2 d (c.get d) hside (hr p hp))
      simpa [Mem] using this
    · simp only [hside, if_false]
      have := combine_good target c idx d (fun p => Mem p r) (fun p => Mem p l) _
        (fun _ => findRec target l) (ihr hor) (ihl hol)
        (fun p hp => plane_bound_ge target p.2 d (c.get d) (not_lt.mp hside) (hl p hp))
      unfold Good at this ⊢
      obtain ⟨h1, h2, h3⟩ := this
      refine ⟨?_, h2, ?_⟩
      · rcases h1 with h | h | h
        · exact Or.inl h
        · exact Or.inr (Or.inr h)
        · exact Or.inr (Or.inl h)
      · intro p hp
        rcases hp with h | h | h
        · exact h3 p (Or.inl h)
        · exact h3 p (Or.inr (Or.inr h))
        · exact h3 p (Or.inr (Or.inl h))

/-! ### `build_rec` -/

theorem keyLe_trans (dim : Fin 3) (a b c : Nat × RGB) :
    keyLe dim a b = true → keyLe dim b c = true → keyLe dim a c = true := by
  simp only [keyLe, decide_eq_true_eq]; omega

theorem keyLe_total (dim : Fin 3) (a b : Nat × RGB) : (keyLe dim a b || keyLe dim b a) = true := by
  simp only [keyLe, Bool.or_eq_true, decide_eq_true_eq]; omega

theorem mem_split {α} (s : List α) (i : Nat) (h : i < s.length) (x : α) :
    x ∈ s ↔ x ∈ s.take i ∨ x = s[i] ∨ x ∈ s.drop (i + 1) := by
  have e : s.take i ++ s[i] :: s.drop (i + 1) = s := by
    rw [List.getElem_cons_drop]; exact List.take_append_drop i s
  constructor
  · intro hx
    have hx' : x ∈ s.take i ++ s[i] :: s.drop (i + 1) := by rw [e]; exact hx
    rcases List.mem_append.mp hx' with h | h
    · exact Or.inl h
    · rcases List.mem_cons.mp h with h | h
      · exact Or.inr (Or.inl h)
      · exact Or.inr (Or.inr h)
  · intro hx
    have : x ∈ s.take i ++ s[i] :: s.drop (i + 1) := by
      rcases hx with h | h | h
      · exact List.mem_append.mpr (Or.inl h)
      · exact List.mem_append.mpr (Or.inr (List.mem_cons.mpr (Or.inl h)))
      · exact List.mem_append.mpr (Or.inr (List.mem_cons.mpr (Or.inr h)))
    rw [e] at this; exact this

theorem build_spec (dim : Fin 3) (l : List (Nat × RGB)) :
    (∀ p, Mem p (buildRec dim l) ↔ p ∈ l) ∧ Ordered (buildRec dim l) := by
  fun_induction buildRec dim l with
  | case1 dim => simp [Mem, Ordered]
  | case2 dim i c => simp [Mem, Ordered]
  | case3 dim a b rest sorted hlen index dimNext left right p ihl ihr =>
    have hperm : sorted.Perm (a :: b :: rest) := List.mergeSort_perm _ _
    have hsorted : sorted.Pairwise (fun x y => keyLe dim x y = true) :=
      List.pairwise_mergeSort (keyLe_trans dim) (keyLe_total dim) _
    have hidx : index < sorted.length := by omega
    have hmem : ∀ q, (q = (p.1, p.2) ∨ Mem q left ∨ Mem q right) ↔ q ∈ a :: b :: rest := by
      intro q
      rw [← hperm.mem_iff, mem_split sorted index hidx q, ihl.1 q, ihr.1 q]
      constructor
      · rintro (h | h | h)
        · exact Or.inr (Or.inl h)
        · exact Or.inl h
        · exact Or.inr (Or.inr h)
      · rintro (h | h | h)
        · exact Or.inr (Or.inl h)
        · exact Or.inl h
        · exact Or.inr (Or.inr h)
    refine ⟨fun q => ?_, ?_⟩
    · simpa [Mem] using hmem q
    · refine ⟨?_, ?_, ihl.2, ihr.2⟩
      · intro q hq
        rw [ihl.1 q] at hq
        obtain ⟨j, hj, rfl⟩ := List.mem_iff_getElem.mp hq
        have hj' : j < index := by simp only [List.length_take] at hj; omega
        have := (List.pairwise_iff_getElem.mp hsorted) j index (by omega) hidx hj'
        simp only [List.getElem_take]
        simpa [keyLe] using this
      · intro q hq
        rw [ihr.1 q] at hq
        obtain ⟨j, hj, rfl⟩ := List.mem_iff_getElem.mp hq
        simp only [List.length_drop] at hj
        have := (List.pairwise_iff_getElem.mp hsorted) index (index + 1 + j) hidx (by omega) (by omega)
        simp only [List.getElem_drop]
        simpa [keyLe] using this

theorem mem_enumFrom (l : List RGB) (n i : Nat) (c : RGB) :
    (i, c) ∈ enumFrom n l ↔ ∃ j, ∃ h : j < l.length, i = n + j ∧ l[j] = c := by
  induction l generalizing n with
  | nil => simp [enumFrom]
  | cons x xs ih =>
    simp only [enumFrom, List.mem_cons, Prod.mk.injEq, ih, List.length_cons]
    constructor
    · rintro (⟨rfl, rfl⟩ | ⟨j, h, rfl, rfl⟩)
      · exact ⟨0, by omega, rfl, rfl⟩
      · exact ⟨j + 1, by omega, by omega, rfl⟩
    · rintro ⟨j, h, rfl, hc⟩
      cases j with
      | zero => exact Or.inl ⟨rfl, by simpa using hc.symm⟩
      | succ j => exact Or.inr ⟨j, by omega, by omega, by simpa using hc⟩

/-- `KDTree::new(pal).find(q)`: the answer is an entry of the palette at minimal distance -/
theorem kd_nearest (pal : List RGB) (hne : pal ≠ []) (q : RGB) :
    ∃ i c, kdFind (kdNew pal) q = some (i, c) ∧ ∃ h : i < pal.length, pal[i] = c ∧
      ∀ j (hj : j < pal.length), dist q pal[i] ≤ dist q pal[j] := by
  have hb := build_spec 0 (enumFrom 0 pal)
  have hg := find_min q (kdNew pal) hb.2
  have hmem : ∀ i c, Mem (i, c) (kdNew pal) ↔ ∃ h : i < pal.length, pal[i] = c := by
    intro i c
    rw [show kdNew pal = buildRec 0 (enumFrom 0 pal) from rfl, hb.1, mem_enumFrom]
    constructor
    · rintro ⟨j, h, rfl, hc⟩; exact ⟨by omega, by simpa using hc⟩
    · rintro ⟨h, hc⟩; exact ⟨i, h, by omega, hc⟩
  unfold kdFind
  cases hr : findRec q (kdNew pal) with
  | none =>
    rw [hr] at hg
    have hpos : 0 < pal.length := List.length_pos_iff.mpr hne
    exact absurd ((hmem 0 pal[0]).mpr ⟨hpos, rfl⟩) (hg (0, pal[0]))
  | some x =>
    obtain ⟨g, gi, gd⟩ := x
    rw [hr] at hg
    obtain ⟨h1, h2, h3⟩ := hg
    obtain ⟨hi, hc⟩ := (hmem gi g).mp h1
    refine ⟨gi, g, rfl, hi, hc, ?_⟩
    intro j hj
    have := h3 (j, pal[j]) ((hmem j pal[j]).mpr ⟨hj, rfl⟩)
    rw [hc, ← h2]; exact this

end SurfProofs.QuantKD
