import SurfProofs.Lemmas.KeyMapSpec
/-!
# C18 — helper lemmas about the trie model `SurfModel.KeyMap`
-/
namespace SurfProofs.C18
open SurfModel.KeyMap

variable {V : Type}

/-! ## the abstraction function and the invariant -/

/-- the bound chords of a trie with their values, depth first in key order -/
def abs : Map V → Dict V
  | .nil => []
  | .val k v r => ([k], v) :: abs r
  | .sub k m r => (abs m).map (fun e => (k :: e.1, e.2)) ++ abs r

/-- every top-level key of the map is greater than `b` -/
def AllGt (b : Nat) : Map V → Prop
  | .nil => True
  | .val k _ r => b < k ∧ AllGt b r
  | .sub k _ r => b < k ∧ AllGt b r

/-- invariant: keys strictly increasing at every level, and no empty sub-map anywhere -/
def WF : Map V → Prop
  | .nil => True
  | .val k _ r => AllGt k r ∧ WF r
  | .sub k m r => AllGt k r ∧ m ≠ .nil ∧ WF m ∧ WF r

def EntryWF : Entry V → Prop
  | .val _ => True
  | .sub m => m ≠ .nil ∧ WF m

theorem AllGt.mono {b b' : Nat} {m : Map V} (h : AllGt b m) (hb : b' ≤ b) : AllGt b' m := by
  induction m with
  | nil => trivial
  | val k v r ih => exact ⟨by have := h.1; omega, ih h.2⟩
  | sub k m r _ ih => exact ⟨by have := h.1; omega, ih h.2⟩

theorem get_of_allGt {b : Nat} {m : Map V} (h : AllGt b m) {k : Nat} (hk : k ≤ b) : getE m k = none := by
  induction m with
  | nil => rfl
  | val k' v r ih =>
    have h1 := h.1
    simp only [getE]; rw [if_neg (by omega)]; exact ih h.2
  | sub k' m r _ ih =>
    have h1 := h.1
    simp only [getE]; rw [if_neg (by omega)]; exact ih h.2

theorem get_cons (k : Nat) (e : Entry V) (r : Map V) (k' : Nat) :
    getE (Map.cons k e r) k' = if k = k' then some e else getE r k' := by
  cases e <;> simp [Map.cons, getE]

theorem get_ins (m : Map V) (k : Nat) (e : Entry V) (k' : Nat) :
    getE (ins m k e) k' = if k = k' then some e else getE m k' := by
  induction m with
  | nil => simp [ins, get_cons, getE]
  | val k0 v0 r ih =>
    simp only [ins]
    by_cases h1 : k < k0
    · simp [h1, get_cons]
    · by_cases h2 : k = k0
      · subst h2; simp [get_cons, getE]
        by_cases h3 : k = k' <;> simp [h3]
      · simp only [h1, h2, if_false, getE, ih]
        by_cases h3 : k0 = k'
        · subst h3; simp [h2]
        · simp [h3]
  | sub k0 m0 r _ ih =>
    simp only [ins]
    by_cases h1 : k < k0
    · simp [h1, get_cons]
    · by_cases h2 : k = k0
      · subst h2; simp [get_cons, getE]
        by_cases h3 : k = k' <;> simp [h3]
      · simp only [h1, h2, if_false, getE, ih]
        by_cases h3 : k0 = k'
        · subst h3; simp [h2]
        · simp [h3]

theorem allGt_cons {b k : Nat} {e : Entry V} {r : Map V} : AllGt b (Map.cons k e r) ↔ b < k ∧ AllGt b r := by
  cases e <;> simp [Map.cons, AllGt]

theorem wf_cons {k : Nat} {e : Entry V} {r : Map V} : WF (Map.cons k e r) ↔ AllGt k r ∧ EntryWF e ∧ WF r := by
  cases e <;> simp [Map.cons, WF, EntryWF, and_assoc]

theorem allGt_ins {b : Nat} {m : Map V} (h : AllGt b m) {k : Nat} (hk : b < k) (e : Entry V) :
    AllGt b (ins m k e) := by
  induction m with
  | nil => simp [ins, allGt_cons, hk, AllGt]
  | val k0 v0 r ih =>
    simp only [ins]
    split
    · exact allGt_cons.2 ⟨hk, h⟩
    · split
      · exact allGt_cons.2 ⟨hk, h.2⟩
      · exact ⟨h.1, ih h.2⟩
  | sub k0 m0 r _ ih =>
    simp only [ins]
    split
    · exact allGt_cons.2 ⟨hk, h⟩
    · split
      · exact allGt_cons.2 ⟨hk, h.2⟩
      · exact ⟨h.1, ih h.2⟩

theorem wf_ins {m : Map V} (h : WF m) (k : Nat) {e : Entry V} (he : EntryWF e) : WF (ins m k e) := by
  induction m with
  | nil => simp [ins, wf_cons, he, AllGt, WF]
  | val k0 v0 r ih =>
    simp only [ins]
    split
    · rename_i hlt
      exact wf_cons.2 ⟨⟨hlt, h.1.mono (by omega)⟩, he, h⟩
    · split
      · rename_i heq; subst heq
        exact wf_cons.2 ⟨h.1, he, h.2⟩
      · rename_i h1 h2
        exact ⟨allGt_ins h.1 (by omega) e, ih h.2⟩
  | sub k0 m0 r _ ih =>
    simp only [ins]
    split
    · rename_i hlt
      exact wf_cons.2 ⟨⟨hlt, h.1.mono (by omega)⟩, he, h⟩
    · split
      · rename_i heq; subst heq
        exact wf_cons.2 ⟨h.1, he, h.2.2.2⟩
      · rename_i h1 h2
        exact ⟨allGt_ins h.1 (by omega) e, h.2.1, h.2.2.1, ih h.2.2.2⟩

theorem ins_ne_nil (m : Map V) (k : Nat) (e : Entry V) : ins m k e ≠ .nil := by
  cases m <;> cases e <;> simp [ins, Map.cons] <;> (repeat' split) <;> simp

theorem wf_get_sub {m : Map V} (h : WF m) {k : Nat} {m' : Map V} (hg : getE m k = some (.sub m')) :
    m' ≠ .nil ∧ WF m' := by
  induction m with
  | nil => simp [getE] at hg
  | val k0 v0 r ih =>
    simp only [getE] at hg
    split at hg
    · simp at hg
    · exact ih h.2 hg
  | sub k0 m0 r _ ih =>
    simp only [getE] at hg
    split at hg
    · simp at hg; subst hg; exact ⟨h.2.1, h.2.2.1⟩
    · exact ih h.2.2.2 hg

theorem register_ne_nil (m : Map V) {c : List Nat} (hc : c ≠ []) (v : V) : register m c v ≠ .nil := by
  match c, hc with
  | [k], _ => exact ins_ne_nil _ _ _
  | k :: k2 :: ks, _ => exact ins_ne_nil _ _ _

theorem wf_register {m : Map V} (h : WF m) (c : List Nat) (v : V) : WF (register m c v) := by
  induction c generalizing m with
  | nil => exact h
  | cons k ks ih =>
    cases ks with
    | nil => exact wf_ins h k trivial
    | cons k2 ks' =>
      simp only [register]
      apply wf_ins h k
      refine ⟨register_ne_nil _ (by simp) v, ih ?_⟩
      unfold childOf
      cases hg : getE m k with
      | none => trivial
      | some e => cases e with
        | val _ => trivial
        | sub m' => exact (wf_get_sub h hg).2

/-! ## lookup after one registration (no invariant needed) -/

/-- the answer after registering `c ↦ v` on top of a map that answered `f` -/
def specAfter (f : List Nat → Res V) (c : List Nat) (v : V) (q : List Nat) : Res V :=
  if q = c then .success v
  else if q.isPrefixOf c then .continue_
  else if c.isPrefixOf q then .failure
  else f q

theorem isPrefixOf_cons_cons (a b : Nat) (x y : List Nat) :
    (a :: x).isPrefixOf (b :: y) = (decide (a = b) && x.isPrefixOf y) := by
  by_cases h : a = b <;> simp [List.isPrefixOf, h]

theorem lookup_register (m : Map V) (c : List Nat) (v : V) (q : List Nat) (hc : c ≠ []) (hq : q ≠ []) :
    lookup (register m c v) q = specAfter (lookup m) c v q := by
  induction c generalizing m q with
  | nil => exact absurd rfl hc
  | cons k ks ih =>
    cases q with
    | nil => exact absurd rfl hq
    | cons qk qs =>
      cases ks with
      | nil =>
        simp only [register, lookup, get_ins]
        by_cases hk : k = qk
        · subst hk
          by_cases hqs : qs = []
          · subst hqs; simp [specAfter]
          · simp [specAfter, hqs, List.isPrefixOf]
        · have hne : ¬ (qk :: qs = [k]) := by
            intro h; injection h with h1 _; exact hk h1.symm
          simp [hk, specAfter, hne, List.isPrefixOf, Ne.symm hk, lookup]
      | cons k2 ks' =>
        simp only [register, lookup, get_ins]
        by_cases hk : k = qk
        · subst hk
          simp only [if_true]
          by_cases hqs : qs = []
          · subst hqs
            simp [lookup, specAfter, List.isPrefixOf]
          · have := ih (m := childOf m k) (q := qs) (by simp) hqs
            rw [this]
            simp only [specAfter, List.cons.injEq, true_and, isPrefixOf_cons_cons, decide_true, Bool.true_and]
            by_cases h1 : qs = k2 :: ks'
            · simp [h1]
            · simp only [h1, if_false]
              by_cases h2 : qs.isPrefixOf (k2 :: ks') = true
              · simp [h2]
              · simp only [h2]
                by_cases h3 : (k2 :: ks').isPrefixOf qs = true
                · simp [h3]
                · simp only [h3]
                  unfold childOf
                  cases hg : getE m k with
                  | none => cases qs with
                    | nil => exact absurd rfl hqs
                    | cons a as => simp [lookup, getE, hg]
                  | some n => cases n with
                    | val v0 => cases qs with
                      | nil => exact absurd rfl hqs
                      | cons a as => simp [lookup, getE, hg]
                    | sub m' => simp [lookup, hg]
        · have hne : ¬ (qk :: qs = k :: k2 :: ks') := by
            intro h; injection h with h1 _; exact hk h1.symm
          simp [hk, specAfter, hne, isPrefixOf_cons_cons, Ne.symm hk, lookup]

/-! ## `for_each` is the abstraction function -/

theorem forEachRec_eq (pre : List Nat) (m : Map V) :
    forEachRec pre m = (abs m).map (fun e => (pre ++ e.1, e.2)) := by
  induction m generalizing pre with
  | nil => rfl
  | val k v r ih => simp [forEachRec, abs, ih]
  | sub k m r ihm ihr =>
    simp [forEachRec, abs, ihm, ihr, List.map_map, Function.comp_def]

theorem forEach_eq_abs (m : Map V) : forEach m = abs m := by
  simp [forEach, forEachRec_eq]

/-! ## shape of `abs` -/

theorem abs_head {b : Nat} {m : Map V} (h : AllGt b m) {c : List Nat} {w : V} (hm : (c, w) ∈ abs m) :
    ∃ k t, c = k :: t ∧ b < k := by
  induction m with
  | nil => simp [abs] at hm
  | val k v r ih =>
    simp only [abs, List.mem_cons] at hm
    rcases hm with hm | hm
    · injection hm with h1 _; exact ⟨k, [], h1, h.1⟩
    · exact ih h.2 hm
  | sub k m r _ ih =>
    simp only [abs, List.mem_append, List.mem_map] at hm
    rcases hm with ⟨e, _, he⟩ | hm
    · injection he with h1 _; exact ⟨k, e.1, h1.symm, h.1⟩
    · exact ih h.2 hm

theorem abs_chord_ne_nil {m : Map V} {c : List Nat} {w : V} (hm : (c, w) ∈ abs m) : c ≠ [] := by
  induction m with
  | nil => simp [abs] at hm
  | val k v r ih =>
    simp only [abs, List.mem_cons] at hm
    rcases hm with hm | hm
    · injection hm with h1 _; simp [h1]
    · exact ih hm
  | sub k m r _ ih =>
    simp only [abs, List.mem_append, List.mem_map] at hm
    rcases hm with ⟨e, _, he⟩ | hm
    · injection he with h1 _; simp [← h1]
    · exact ih hm

theorem abs_ne_nil {m : Map V} (h : WF m) (hne : m ≠ .nil) : abs m ≠ [] := by
  induction m with
  | nil => exact absurd rfl hne
  | val k v r _ => simp [abs]
  | sub k m r ihm _ =>
    have := ihm h.2.2.1 h.2.1
    simp [abs, this]

/-! ## `lookup` on the constructors -/

theorem lookup_val_eq (k : Nat) (v : V) (r : Map V) (ks : List Nat) :
    lookup (.val k v r) (k :: ks) = if ks = [] then .success v else .failure := by
  simp [lookup, getE]

theorem lookup_val_ne {k k' : Nat} (h : k ≠ k') (v : V) (r : Map V) (ks : List Nat) :
    lookup (.val k v r) (k' :: ks) = lookup r (k' :: ks) := by
  simp [lookup, getE, h]

theorem lookup_sub_eq (k : Nat) (m r : Map V) (ks : List Nat) :
    lookup (.sub k m r) (k :: ks) = lookup m ks := by
  simp [lookup, getE]

theorem lookup_sub_ne {k k' : Nat} (h : k ≠ k') (m r : Map V) (ks : List Nat) :
    lookup (.sub k m r) (k' :: ks) = lookup r (k' :: ks) := by
  simp [lookup, getE, h]

theorem lookup_of_allGt {b : Nat} {m : Map V} (h : AllGt b m) {k : Nat} (hk : k ≤ b) (ks : List Nat) :
    lookup m (k :: ks) = .failure := by
  simp [lookup, get_of_allGt h hk]

/-! ## membership in `abs` is `Success` -/

theorem mem_abs_iff {m : Map V} (h : WF m) (q : List Nat) (w : V) :
    (q, w) ∈ abs m ↔ lookup m q = .success w := by
  induction m generalizing q with
  | nil => cases q <;> simp [abs, lookup, getE]
  | val k v r ih =>
    cases q with
    | nil =>
      have := ih h.2 []
      simp only [lookup] at this
      simp [abs, lookup, this]
    | cons k' ks =>
      by_cases hk : k = k'
      · subst hk
        have hr : lookup r (k :: ks) = .failure := lookup_of_allGt h.1 (Nat.le_refl _) ks
        have := ih h.2 (k :: ks)
        rw [hr] at this
        simp only [abs, List.mem_cons, this, lookup_val_eq]
        by_cases hks : ks = []
        · subst hks; simp; exact eq_comm
        · simp [hks]
      · rw [lookup_val_ne hk]
        simp only [abs, List.mem_cons, ih h.2]
        constructor
        · rintro (h1 | h1)
          · injection h1 with h2 _; injection h2 with h3 _; exact absurd h3.symm hk
          · exact h1
        · exact fun h1 => Or.inr h1
  | sub k m r ihm ihr =>
    cases q with
    | nil =>
      have := ihr h.2.2.2 []
      simp only [lookup] at this
      simp [abs, lookup, this]
    | cons k' ks =>
      by_cases hk : k = k'
      · subst hk
        have hr : lookup r (k :: ks) = .failure := lookup_of_allGt h.1 (Nat.le_refl _) ks
        have h2 := ihr h.2.2.2 (k :: ks)
        rw [hr] at h2
        rw [lookup_sub_eq, ← ihm h.2.2.1 ks]
        simp only [abs, List.mem_append, List.mem_map, h2]
        constructor
        · rintro (⟨e, he, heq⟩ | h1)
          · injection heq with h3 h4; injection h3 with _ h5
            subst h5; subst h4; exact he
          · simp at h1
        · exact fun h1 => Or.inl ⟨(ks, w), h1, rfl⟩
      · rw [lookup_sub_ne hk]
        simp only [abs, List.mem_append, List.mem_map, ihr h.2.2.2]
        constructor
        · rintro (⟨e, _, heq⟩ | h1)
          · injection heq with h3 _; injection h3 with h5 _; exact absurd h5 hk
          · exact h1
        · exact fun h1 => Or.inr h1

/-! ## `Continue` is "proper prefix of a bound chord" (this is where non-empty sub-maps matter) -/

theorem properPrefix_cons {k : Nat} {q c : List Nat} : ProperPrefix (k :: q) (k :: c) ↔ ProperPrefix q c := by
  simp [ProperPrefix, List.cons_prefix_cons]

theorem properPrefix_cons_ne {k k' : Nat} (h : k ≠ k') {q c : List Nat} : ¬ ProperPrefix (k :: q) (k' :: c) := by
  simp [ProperPrefix, List.cons_prefix_cons, h]

theorem lookup_continue_iff {m : Map V} (h : WF m) (q : List Nat) (hq : q ≠ []) :
    lookup m q = .continue_ ↔ ∃ c w, (c, w) ∈ abs m ∧ ProperPrefix q c := by
  induction m generalizing q with
  | nil =>
    cases q with
    | nil => exact absurd rfl hq
    | cons k ks => simp [lookup, getE, abs]
  | val k v r ih =>
    cases q with
    | nil => exact absurd rfl hq
    | cons k' ks =>
      by_cases hk : k = k'
      · subst hk
        rw [lookup_val_eq]
        constructor
        · intro h1; split at h1 <;> simp at h1
        · rintro ⟨c, w, hc, hp⟩
          exfalso
          simp only [abs, List.mem_cons] at hc
          rcases hc with hc | hc
          · injection hc with h1 _
            subst h1
            have := hp.1.length_le
            have h3 : ks = [] := by cases ks with
              | nil => rfl
              | cons _ _ => simp at this
            subst h3; exact hp.2 rfl
          · obtain ⟨k2, t, hc2, hlt⟩ := abs_head h.1 hc
            subst hc2
            have := hp.1
            rw [List.cons_prefix_cons] at this
            omega
      · rw [lookup_val_ne hk, ih h.2 _ hq]
        constructor
        · rintro ⟨c, w, hc, hp⟩; exact ⟨c, w, by simp [abs, hc], hp⟩
        · rintro ⟨c, w, hc, hp⟩
          simp only [abs, List.mem_cons] at hc
          rcases hc with hc | hc
          · injection hc with h1 _; subst h1
            exact absurd hp (properPrefix_cons_ne (Ne.symm hk))
          · exact ⟨c, w, hc, hp⟩
  | sub k m r ihm ihr =>
    cases q with
    | nil => exact absurd rfl hq
    | cons k' ks =>
      by_cases hk : k = k'
      · subst hk
        rw [lookup_sub_eq]
        by_cases hks : ks = []
        · subst hks
          simp only [lookup, true_iff]
          have hne := abs_ne_nil h.2.2.1 h.2.1
          cases ha : abs m with
          | nil => exact absurd ha hne
          | cons e t =>
            refine ⟨k :: e.1, e.2, by simp [abs, ha], ?_⟩
            have : e.1 ≠ [] := abs_chord_ne_nil (m := m) (c := e.1) (w := e.2) (by simp [ha])
            simp [ProperPrefix, List.cons_prefix_cons, this]
        · rw [ihm h.2.2.1 ks hks]
          constructor
          · rintro ⟨c, w, hc, hp⟩
            exact ⟨k :: c, w, by simp only [abs, List.mem_append, List.mem_map]; exact Or.inl ⟨(c, w), hc, rfl⟩,
              properPrefix_cons.2 hp⟩
          · rintro ⟨c, w, hc, hp⟩
            simp only [abs, List.mem_append, List.mem_map] at hc
            rcases hc with ⟨e, he, heq⟩ | hc
            · injection heq with h1 h2; subst h1; subst h2
              exact ⟨e.1, e.2, he, properPrefix_cons.1 hp⟩
            · exfalso
              obtain ⟨k2, t, hc2, hlt⟩ := abs_head h.1 hc
              subst hc2
              have := hp.1
              rw [List.cons_prefix_cons] at this
              omega
      · rw [lookup_sub_ne hk, ihr h.2.2.2 _ hq]
        constructor
        · rintro ⟨c, w, hc, hp⟩; exact ⟨c, w, by simp [abs, hc], hp⟩
        · rintro ⟨c, w, hc, hp⟩
          simp only [abs, List.mem_append, List.mem_map] at hc
          rcases hc with ⟨e, _, heq⟩ | hc
          · injection heq with h1 _; subst h1
            exact absurd hp (properPrefix_cons_ne (Ne.symm hk))
          · exact ⟨c, w, hc, hp⟩

/-! ## enumeration order: strictly increasing in the order of Rust slices -/

theorem chordLt_irrefl (c : List Nat) : ¬ chordLt c c := by
  induction c with
  | nil => simp [chordLt]
  | cons a as ih => simp [chordLt, ih]

theorem abs_sorted {m : Map V} (h : WF m) : (abs m).Pairwise (fun x y => chordLt x.1 y.1) := by
  induction m with
  | nil => simp [abs]
  | val k v r ih =>
    simp only [abs, List.pairwise_cons]
    refine ⟨?_, ih h.2⟩
    intro e he
    obtain ⟨k2, t, hc, hlt⟩ := abs_head (c := e.1) (w := e.2) h.1 he
    rw [hc]; simp [chordLt, hlt]
  | sub k m r ihm ihr =>
    simp only [abs, List.pairwise_append, List.pairwise_map]
    refine ⟨?_, ihr h.2.2.2, ?_⟩
    · exact (ihm h.2.2.1).imp (fun hab => by simp [chordLt, hab])
    · intro a ha b hb
      simp only [List.mem_map] at ha
      obtain ⟨e, _, rfl⟩ := ha
      obtain ⟨k2, t, hc, hlt⟩ := abs_head (c := b.1) (w := b.2) h.1 hb
      rw [hc]; simp [chordLt, hlt]

theorem abs_nodup {m : Map V} (h : WF m) : (abs m).Nodup := by
  refine (abs_sorted h).imp ?_
  intro a b hab heq
  subst heq
  exact chordLt_irrefl _ hab

/-! ## one registration refines `bind` -/

theorem related_self (c : List Nat) : related c c = true := by simp [related]

theorem mem_bind_iff {c : List Nat} (hc : c ≠ []) (v : V) (d : Dict V) (q : List Nat) (w : V) :
    (q, w) ∈ bind c v d ↔ (q = c ∧ w = v) ∨ ((q, w) ∈ d ∧ related c q = false) := by
  simp [bind, hc]

theorem mem_abs_register {m : Map V} (h : WF m) {c : List Nat} (hc : c ≠ []) (v : V) (q : List Nat) (w : V) :
    (q, w) ∈ abs (register m c v) ↔ (q, w) ∈ bind c v (abs m) := by
  rw [mem_bind_iff hc, mem_abs_iff (wf_register h c v), mem_abs_iff h]
  by_cases hq : q = []
  · subst hq
    have : ([] : List Nat) ≠ c := fun h => hc h.symm
    simp [lookup, this]
  · rw [lookup_register m c v q hc hq]
    simp only [specAfter, related]
    by_cases h1 : q = c
    · subst h1
      have hp : q.isPrefixOf q = true := by simp
      simp [hp]
      exact eq_comm
    · by_cases h2 : q.isPrefixOf c = true
      · simp [h1, h2]
      · by_cases h3 : c.isPrefixOf q = true
        · simp [h1, h2, h3]
        · simp [h1, h2, h3]

theorem bind_nodup {c : List Nat} {v : V} {d : Dict V} (hd : d.Nodup) : (bind c v d).Nodup := by
  unfold bind
  split
  · exact hd
  · refine List.nodup_cons.2 ⟨?_, hd.filter _⟩
    simp [related_self]

theorem abs_register_perm {m : Map V} (h : WF m) (c : List Nat) (v : V) :
    (abs (register m c v)).Perm (bind c v (abs m)) := by
  by_cases hc : c = []
  · subst hc; simp [register, bind]
  · refine (List.perm_ext_iff_of_nodup (abs_nodup (wf_register h c v)) (bind_nodup (abs_nodup h))).2 ?_
    rintro ⟨q, w⟩
    exact mem_abs_register h hc v q w

theorem bind_perm {c : List Nat} {v : V} {d d' : Dict V} (h : d.Perm d') : (bind c v d).Perm (bind c v d') := by
  unfold bind
  split
  · exact h
  · exact (h.filter _).cons _

/-- `register` folded over a history -/
def registerAll (m : Map V) (h : List (List Nat × V)) : Map V :=
  h.foldl (fun m cv => register m cv.1 cv.2) m

theorem wf_registerAll {m : Map V} (hm : WF m) (h : List (List Nat × V)) : WF (registerAll m h) := by
  induction h generalizing m with
  | nil => exact hm
  | cons e t ih => exact ih (wf_register hm e.1 e.2)

theorem abs_registerAll_perm {m : Map V} (hm : WF m) {d : Dict V} (hd : (abs m).Perm d) (h : List (List Nat × V)) :
    (abs (registerAll m h)).Perm (bindAll d h) := by
  induction h generalizing m d with
  | nil => exact hd
  | cons e t ih =>
    exact ih (wf_register hm e.1 e.2) ((abs_register_perm hm e.1 e.2).trans (bind_perm hd))

/-! ## the specification dictionary read off the history -/

theorem mem_bind_iff' (c : List Nat) (v : V) (d : Dict V) (q : List Nat) (w : V) :
    (q, w) ∈ bind c v d ↔ (c ≠ [] ∧ q = c ∧ w = v) ∨ ((q, w) ∈ d ∧ (c = [] ∨ related c q = false)) := by
  by_cases hc : c = []
  · subst hc; simp [bind]
  · simp [mem_bind_iff hc, hc]

theorem mem_bindAll_iff (d : Dict V) (h : List (List Nat × V)) (q : List Nat) (w : V) :
    (q, w) ∈ bindAll d h ↔
      Live h q w ∨ ((q, w) ∈ d ∧ ∀ e ∈ h, e.1 = [] ∨ related e.1 q = false) := by
  induction h generalizing d with
  | nil => simp [bindAll, Live]
  | cons e t ih =>
    have hstep : bindAll d (e :: t) = bindAll (bind e.1 e.2 d) t := rfl
    rw [hstep, ih, mem_bind_iff']
    constructor
    · rintro (⟨h1, h2, ht, hq, hok⟩ | ⟨hb, hok⟩)
      · exact Or.inl ⟨e :: h1, h2, by simp [ht], hq, hok⟩
      · rcases hb with ⟨hne, hqe, hwe⟩ | ⟨hd, hoke⟩
        · refine Or.inl ⟨[], t, ?_, hqe ▸ hne, hok⟩
          simp [hqe, hwe]
        · refine Or.inr ⟨hd, ?_⟩
          intro e' he'
          simp only [List.mem_cons] at he'
          rcases he' with rfl | he'
          · exact hoke
          · exact hok e' he'
    · rintro (⟨h1, h2, ht, hq, hok⟩ | ⟨hd, hok⟩)
      · rw [List.cons_eq_append_iff] at ht
        rcases ht with ⟨rfl, ht⟩ | ⟨a', rfl, ht⟩
        · injection ht with h3 h4
          subst h4; subst h3
          exact Or.inr ⟨Or.inl ⟨hq, rfl, rfl⟩, hok⟩
        · exact Or.inl ⟨a', h2, ht, hq, hok⟩
      · exact Or.inr ⟨Or.inr ⟨hd, hok e (by simp)⟩, fun e' he' => hok e' (by simp [he'])⟩

theorem bind_prefixFree {c : List Nat} {v : V} {d : Dict V} (hd : PrefixFree d) : PrefixFree (bind c v d) := by
  unfold bind
  split
  · exact hd
  · refine List.pairwise_cons.2 ⟨?_, List.Pairwise.sublist List.filter_sublist hd⟩
    intro e he
    simpa using (List.mem_filter.1 he).2

theorem bindAll_prefixFree {d : Dict V} (hd : PrefixFree d) (h : List (List Nat × V)) : PrefixFree (bindAll d h) := by
  induction h generalizing d with
  | nil => exact hd
  | cons e t ih => exact ih (bind_prefixFree hd)

/-! ## the stateful matcher -/

theorem lookup_prefix_continue (m : Map V) (p s : List Nat) (v : V) (hp : p ≠ []) (hs : s ≠ [])
    (h : lookup m (p ++ s) = .success v) : lookup m p = .continue_ := by
  induction p generalizing m with
  | nil => exact absurd rfl hp
  | cons k ks ih =>
    simp only [List.cons_append, lookup] at h ⊢
    cases hg : getE m k with
    | none => simp [hg] at h
    | some e =>
      cases e with
      | val v' => simp [hg, hs] at h
      | sub m' =>
        simp only [hg] at h ⊢
        by_cases hks : ks = []
        · subst hks; simp [lookup]
        · exact ih m' hks h

theorem getE_none_of_unbound {m : Map V} (h : WF m) {u : Nat} (hu : Unbound (abs m) u) : getE m u = none := by
  cases hg : getE m u with
  | none => rfl
  | some e =>
    exfalso
    cases e with
    | val v =>
      have : lookup m [u] = .success v := by simp [lookup, hg]
      exact hu [u] v ((mem_abs_iff h _ _).2 this) rfl
    | sub m' =>
      obtain ⟨hne, hwf⟩ := wf_get_sub h hg
      have hne' := abs_ne_nil hwf hne
      cases ha : abs m' with
      | nil => exact hne' ha
      | cons e t =>
        have hmem : (e.1, e.2) ∈ abs m' := by simp [ha]
        have h1 := (mem_abs_iff hwf _ _).1 hmem
        have : lookup m (u :: e.1) = .success e.2 := by simp [lookup, hg, h1]
        exact hu (u :: e.1) e.2 ((mem_abs_iff h _ _).2 this) rfl

theorem lookupState_success {m : Map V} {st : List Nat} {k : Nat} {v : V}
    (h : lookup m (st ++ [k]) = .success v) : lookupState m st k = ([], some v) := by
  simp [lookupState, lookupStateLoop, h]

theorem lookupState_continue {m : Map V} {st : List Nat} {k : Nat}
    (h : lookup m (st ++ [k]) = .continue_) : lookupState m st k = (st ++ [k], none) := by
  simp [lookupState, lookupStateLoop, h]

theorem lookupState_failure {m : Map V} {st : List Nat} {k : Nat}
    (h : lookup m (st ++ [k]) = .failure) : lookupState m st k = lookupStateLoop m k 1 [k] := by
  simp [lookupState, lookupStateLoop, h]

theorem feed_cons (m : Map V) (st : List Nat) (k : Nat) (ks : List Nat) :
    feed m st (k :: ks) =
      ((feed m (lookupState m st k).1 ks).1, (lookupState m st k).2 :: (feed m (lookupState m st k).1 ks).2) := rfl

theorem feed_append (m : Map V) (st : List Nat) (a b : List Nat) :
    feed m st (a ++ b) = ((feed m (feed m st a).1 b).1, (feed m st a).2 ++ (feed m (feed m st a).1 b).2) := by
  induction a generalizing st with
  | nil => simp [feed]
  | cons k t ih => simp [feed, ih]

theorem feed_pending (m : Map V) (p s : List Nat) (v : V) (hs : s ≠ [])
    (h : lookup m (p ++ s) = .success v) :
    feed m p s = ([], List.replicate (s.length - 1) none ++ [some v]) := by
  induction s generalizing p with
  | nil => exact absurd rfl hs
  | cons k t ih =>
    cases t with
    | nil => simp [feed, lookupState_success h]
    | cons k2 t' =>
      have h' : lookup m ((p ++ [k]) ++ (k2 :: t')) = .success v := by simpa using h
      have hc := lookup_prefix_continue m (p ++ [k]) (k2 :: t') v (by simp) (by simp) h'
      have := ih (p ++ [k]) (by simp) h'
      rw [feed_cons, lookupState_continue hc, this]
      simp [List.replicate_succ]

/-- idle matcher states: nothing pending, or one key that is not in the top-level map -/
def IdleSt (m : Map V) (st : List Nat) : Prop := st = [] ∨ ∃ u, st = [u] ∧ getE m u = none

theorem lookupState_junk {m : Map V} {st : List Nat} (hi : IdleSt m st) {u : Nat} (hu : getE m u = none) :
    lookupState m st u = ([u], none) := by
  have h1 : lookup m [u] = .failure := by simp [lookup, hu]
  rcases hi with rfl | ⟨u', rfl, hu'⟩
  · simp [lookupState, lookupStateLoop, h1]
  · have h2 : lookup m [u', u] = .failure := by simp [lookup, hu']
    simp [lookupState, lookupStateLoop, h1, h2]

theorem feed_idle {m : Map V} {st : List Nat} (hi : IdleSt m st) {c : List Nat} {v : V}
    (h : lookup m c = .success v) :
    feed m st c = ([], List.replicate (c.length - 1) none ++ [some v]) := by
  rcases hi with rfl | ⟨u, rfl, hu⟩
  · have hc : c ≠ [] := by rintro rfl; simp [lookup] at h
    exact feed_pending m [] c v hc (by simpa using h)
  · cases c with
    | nil => simp [lookup] at h
    | cons k t =>
      have h2 : lookup m ([u] ++ [k]) = .failure := by simp [lookup, hu]
      cases t with
      | nil =>
        simp [feed, lookupState_failure h2, lookupStateLoop, h]
      | cons k2 t' =>
        have h' : lookup m ([k] ++ (k2 :: t')) = .success v := by simpa using h
        have hc := lookup_prefix_continue m [k] (k2 :: t') v (by simp) (by simp) h'
        have := feed_pending m [k] (k2 :: t') v (by simp) h'
        rw [feed_cons, lookupState_failure h2]
        simp only [lookupStateLoop, hc, this]
        simp [List.replicate_succ]

theorem feed_segments {m : Map V} (h : WF m) (segs : List Seg) (hok : ∀ s ∈ segs, s.Ok (abs m))
    {st : List Nat} (hi : IdleSt m st) :
    IdleSt m (feed m st (segs.flatMap Seg.keys)).1 ∧ expectAll (abs m) segs (feed m st (segs.flatMap Seg.keys)).2 := by
  induction segs generalizing st with
  | nil => simp [feed, expectAll, hi]
  | cons s rest ih =>
    have hs := hok s (by simp)
    have hrest : ∀ s ∈ rest, s.Ok (abs m) := fun s' hs' => hok s' (by simp [hs'])
    simp only [List.flatMap_cons, feed_append]
    cases s with
    | chord c =>
      obtain ⟨v, hv⟩ := hs
      have hl := (mem_abs_iff h c v).1 hv
      have hf := feed_idle hi hl
      simp only [Seg.keys, hf]
      have := ih hrest (st := []) (Or.inl rfl)
      exact ⟨this.1, _, _, rfl, ⟨v, hv, rfl⟩, this.2⟩
    | junk u =>
      have hu := getE_none_of_unbound h hs
      have hf : feed m st [u] = ([u], [none]) := by simp [feed, lookupState_junk hi hu]
      simp only [Seg.keys, hf]
      have := ih hrest (st := [u]) (Or.inr ⟨u, rfl, hu⟩)
      exact ⟨this.1, _, _, rfl, rfl, this.2⟩

/-! ## override merging at the level of `lookup` -/

theorem related_false_iff {a b : List Nat} : related a b = false ↔ a.isPrefixOf b = false ∧ b.isPrefixOf a = false := by
  simp [related]

theorem isPrefixOf_trans {a b c : List Nat} (h1 : a.isPrefixOf b = true) (h2 : b.isPrefixOf c = true) :
    a.isPrefixOf c = true := by
  rw [List.isPrefixOf_iff_prefix] at *
  exact h1.trans h2

theorem overlay_cons {c : List Nat} {v : V} {t : Dict V} (hc : c ≠ [])
    (hun : ∀ e ∈ t, related c e.1 = false) (f : List Nat → Res V) (q : List Nat) :
    overlay t (specAfter f c v q) q = overlay ((c, v) :: t) (f q) q := by
  unfold overlay
  by_cases hq : q = c
  · subst hq
    have h1 : t.find? (fun e => e.1 == q) = none := by
      rw [List.find?_eq_none]
      intro e he heq
      have := hun e he
      simp only [beq_iff_eq] at heq
      rw [heq, related_self] at this; cases this
    have h2 : t.any (fun e => q.isPrefixOf e.1) = false := by
      rw [List.any_eq_false]; intro e he; simp [(related_false_iff.1 (hun e he)).1]
    have h3 : t.any (fun e => e.1.isPrefixOf q) = false := by
      rw [List.any_eq_false]; intro e he; simp [(related_false_iff.1 (hun e he)).2]
    simp [h1, h2, h3, specAfter]
  · have hne : (c == q) = false := by simpa using Ne.symm hq
    simp only [List.find?_cons, hne]
    cases hf : t.find? (fun e => e.1 == q) with
    | some e => rfl
    | none =>
      simp only [List.any_cons]
      by_cases h2 : t.any (fun e => q.isPrefixOf e.1) = true
      · simp [h2]
      · simp only [h2, Bool.or_false]
        by_cases h3 : t.any (fun e => e.1.isPrefixOf q) = true
        · have hqc : q.isPrefixOf c = false := by
            cases hp : q.isPrefixOf c with
            | false => rfl
            | true =>
              exfalso
              obtain ⟨e, he, hep⟩ := List.any_eq_true.1 h3
              have := (related_false_iff.1 (hun e he)).2
              rw [isPrefixOf_trans hep hp] at this; cases this
          simp [h3, hqc]
        · simp only [h3, Bool.or_false, specAfter, if_neg hq]
          by_cases h4 : q.isPrefixOf c = true
          · simp [h4]
          · simp only [h4]
            by_cases h5 : c.isPrefixOf q = true
            · simp [h5]
            · simp [h5]

theorem lookup_registerAll_overlay (m : Map V) (l : Dict V) (hne : ∀ e ∈ l, e.1 ≠ [])
    (hpf : PrefixFree l) (q : List Nat) (hq : q ≠ []) :
    lookup (registerAll m l) q = overlay l (lookup m q) q := by
  induction l generalizing m with
  | nil => simp [registerAll, overlay]
  | cons e t ih =>
    have hstep : registerAll m (e :: t) = registerAll (register m e.1 e.2) t := rfl
    have hpf' := List.pairwise_cons.1 hpf
    rw [hstep, ih _ (fun e' he' => hne e' (by simp [he'])) hpf'.2,
      lookup_register m e.1 e.2 q (hne e (by simp)) hq]
    exact overlay_cons (hne e (by simp)) hpf'.1 (lookup m) q

theorem abs_prefixFree {m : Map V} (h : WF m) : PrefixFree (abs m) := by
  -- two related chords would give two different answers to the shorter one
  refine (abs_sorted h).imp_of_mem ?_
  intro a b ha hb hlt
  cases hr : related a.1 b.1 with
  | false => rfl
  | true =>
    exfalso
    have ha' := (mem_abs_iff h a.1 a.2).1 ha
    have hb' := (mem_abs_iff h b.1 b.2).1 hb
    have hane := abs_chord_ne_nil ha
    have hbne := abs_chord_ne_nil hb
    have hneq : a.1 ≠ b.1 := by
      intro heq; rw [heq] at hlt; exact chordLt_irrefl _ hlt
    simp only [related, Bool.or_eq_true, List.isPrefixOf_iff_prefix] at hr
    rcases hr with hr | hr
    · have := (lookup_continue_iff h a.1 hane).2 ⟨b.1, b.2, hb, hr, hneq⟩
      rw [ha'] at this; cases this
    · have := (lookup_continue_iff h b.1 hbne).2 ⟨a.1, a.2, ha, hr, Ne.symm hneq⟩
      rw [hb'] at this; cases this

theorem overlay_abs {o : Map V} (h : WF o) (old : Res V) (q : List Nat) (hq : q ≠ []) :
    overlay (abs o) old q =
      match lookup o q with
      | .success v => .success v
      | .continue_ => .continue_
      | .failure => if (abs o).any (fun e => e.1.isPrefixOf q) then .failure else old := by
  unfold overlay
  cases hf : (abs o).find? (fun e => e.1 == q) with
  | some e =>
    have hmem := List.mem_of_find?_eq_some hf
    have heq : e.1 = q := by simpa using List.find?_some hf
    have := (mem_abs_iff h e.1 e.2).1 hmem
    rw [heq] at this
    simp [this]
  | none =>
    rw [List.find?_eq_none] at hf
    have hns : ∀ v, lookup o q ≠ .success v := by
      intro v hv
      exact hf (q, v) ((mem_abs_iff h q v).2 hv) (by simp)
    by_cases hany : (abs o).any (fun e => q.isPrefixOf e.1) = true
    · obtain ⟨e, he, hp⟩ := List.any_eq_true.1 hany
      have hne : q ≠ e.1 := by intro heq; exact hf e he (by simp [heq])
      have := (lookup_continue_iff h q hq).2 ⟨e.1, e.2, he, List.isPrefixOf_iff_prefix.1 hp, hne⟩
      simp [hany, this]
    · have hnc : lookup o q ≠ .continue_ := by
        intro hc
        obtain ⟨c, w, hm, hp⟩ := (lookup_continue_iff h q hq).1 hc
        exact hany (List.any_eq_true.2 ⟨(c, w), hm, List.isPrefixOf_iff_prefix.2 hp.1⟩)
      cases hl : lookup o q with
      | success v => exact absurd hl (hns v)
      | continue_ => exact absurd hl hnc
      | failure => simp [hany]

theorem lookup_registerOverride {m o : Map V} (ho : WF o) (q : List Nat) (hq : q ≠ []) :
    lookup (registerOverride m o) q =
      match lookup o q with
      | .success v => .success v
      | .continue_ => .continue_
      | .failure => if (abs o).any (fun e => e.1.isPrefixOf q) then .failure else lookup m q := by
  have : registerOverride m o = registerAll m (abs o) := by
    simp [registerOverride, registerAll, forEach_eq_abs]
  rw [this, lookup_registerAll_overlay m (abs o) (fun e he => abs_chord_ne_nil (c := e.1) (w := e.2) he)
    (abs_prefixFree ho) q hq]
  exact overlay_abs ho _ q hq

/-! ## the matcher on arbitrary key streams, from arbitrary states -/

theorem lookupState_nil (m : Map V) (k : Nat) :
    lookupState m [] k =
      match lookup m [k] with
      | .continue_ => ([k], none)
      | .success v => ([], some v)
      | .failure => ([k], none) := by
  cases h : lookup m [k] <;> simp [lookupState, lookupStateLoop, h]

theorem lookupState_restart {m : Map V} {st : List Nat} {k : Nat} (h : lookup m (st ++ [k]) = .failure) :
    lookupState m st k = lookupState m [] k := by
  rw [lookupState_failure h, lookupState_nil]
  cases h1 : lookup m [k] <;> simp [lookupStateLoop, h1]

theorem suffix_snoc {st p : List Nat} (h : st <:+ p) (k : Nat) : st ++ [k] <:+ p ++ [k] := by
  obtain ⟨t, ht⟩ := h
  exact ⟨t, by rw [← ht]; simp⟩

theorem feed_firesSound {m : Map V} (h : WF m) (ks : List Nat) {st p : List Nat} (hs : st <:+ p) :
    FiresSound (abs m) p ks (feed m st ks).2 := by
  induction ks generalizing st p with
  | nil => simp [feed, FiresSound]
  | cons k ks ih =>
    rw [feed_cons]
    have hone : [k] <:+ p ++ [k] := List.suffix_append _ _
    cases hl : lookup m (st ++ [k]) with
    | continue_ =>
      rw [lookupState_continue hl]
      exact ih (suffix_snoc hs k)
    | success v =>
      rw [lookupState_success hl]
      exact ⟨⟨st ++ [k], (mem_abs_iff h _ _).2 hl, suffix_snoc hs k⟩, ih (List.nil_suffix)⟩
    | failure =>
      rw [lookupState_restart hl, lookupState_nil]
      cases h1 : lookup m [k] with
      | continue_ => exact ih hone
      | success v => exact ⟨⟨[k], (mem_abs_iff h _ _).2 h1, hone⟩, ih (List.nil_suffix)⟩
      | failure => exact ih hone

/-- one key from any state, in terms of the dictionary -/
theorem matcher_step {m : Map V} (h : WF m) (st : List Nat) (k : Nat) :
    (∀ v, (st ++ [k], v) ∈ abs m → lookupState m st k = ([], some v)) ∧
    ((∃ c w, (c, w) ∈ abs m ∧ ProperPrefix (st ++ [k]) c) → lookupState m st k = (st ++ [k], none)) ∧
    ((∀ v, (st ++ [k], v) ∉ abs m) → (¬ ∃ c w, (c, w) ∈ abs m ∧ ProperPrefix (st ++ [k]) c) →
      lookupState m st k = lookupState m [] k ∧ (Unbound (abs m) k → lookupState m st k = ([k], none))) := by
  have hne : st ++ [k] ≠ [] := by simp
  refine ⟨fun v hv => lookupState_success ((mem_abs_iff h _ _).1 hv),
    fun hp => lookupState_continue ((lookup_continue_iff h _ hne).2 hp), ?_⟩
  intro hnb hnp
  have hf : lookup m (st ++ [k]) = .failure := by
    cases hl : lookup m (st ++ [k]) with
    | success v => exact absurd ((mem_abs_iff h _ _).2 hl) (hnb v)
    | continue_ => exact absurd ((lookup_continue_iff h _ hne).1 hl) hnp
    | failure => rfl
  refine ⟨lookupState_restart hf, fun hu => ?_⟩
  rw [lookupState_restart hf]
  exact lookupState_junk (Or.inl rfl) (getE_none_of_unbound h hu)

/-- from ANY state: an unbound key that does not continue a pending chord leaves the matcher idle, so the chord
    typed immediately after it fires exactly at its last key -/
theorem matcher_after_unbound {m : Map V} (h : WF m) (st : List Nat) {u : Nat} (hu : Unbound (abs m) u)
    (hnp : ¬ ∃ c w, (c, w) ∈ abs m ∧ ProperPrefix (st ++ [u]) c) {c : List Nat} {v : V} (hc : (c, v) ∈ abs m) :
    (feed m st (u :: c)).1 = [] ∧
    (feed m st (u :: c)).2.tail = List.replicate (c.length - 1) none ++ [some v] := by
  have hl := (mem_abs_iff h c v).1 hc
  have hgu := getE_none_of_unbound h hu
  have hidle : IdleSt m (lookupState m st u).1 := by
    cases hs : lookup m (st ++ [u]) with
    | continue_ => exact absurd ((lookup_continue_iff h _ (by simp)).1 hs) hnp
    | success w => rw [lookupState_success hs]; exact Or.inl rfl
    | failure =>
      rw [lookupState_restart hs, lookupState_junk (Or.inl rfl) hgu]
      exact Or.inr ⟨u, rfl, hgu⟩
  rw [feed_cons, feed_idle hidle hl]
  simp

/-! ## what `register` returns -/

theorem mem_abs_cons {m : Map V} (h : WF m) (k : Nat) (t : List Nat) (w : V) :
    (k :: t, w) ∈ abs m ↔
      match getE m k with
      | some (.sub m') => (t, w) ∈ abs m'
      | some (.val v) => t = [] ∧ w = v
      | none => False := by
  rw [mem_abs_iff h]
  cases hg : getE m k with
  | none => simp [lookup, hg]
  | some e =>
    cases e with
    | val v =>
      simp only [lookup, hg]
      by_cases ht : t = []
      · subst ht; simp; exact eq_comm
      · simp [ht]
    | sub m' =>
      simp only [lookup, hg]
      exact (mem_abs_iff (wf_get_sub h hg).2 t w).symm

theorem registerPrev_spec {m : Map V} (h : WF m) (c : List Nat) (hc : c ≠ []) :
    (registerPrev m c = none ↔ lookup m c = .failure) ∧
    (∀ w, registerPrev m c = some (.val w) ↔ lookup m c = .success w) ∧
    (∀ s, registerPrev m c = some (.sub s) →
      lookup m c = .continue_ ∧ s ≠ .nil ∧ WF s ∧ ∀ t w, (t, w) ∈ abs s ↔ (c ++ t, w) ∈ abs m) ∧
    (lookup m c = .continue_ → ∃ s, registerPrev m c = some (.sub s)) := by
  induction c generalizing m with
  | nil => exact absurd rfl hc
  | cons k ks ih =>
    cases ks with
    | nil =>
      simp only [registerPrev, lookup]
      cases hg : getE m k with
      | none => simp
      | some e =>
        cases e with
        | val v => simp
        | sub m' =>
          have hw := wf_get_sub h hg
          refine ⟨by simp, by intro w; simp, ?_, fun _ => ⟨m', rfl⟩⟩
          intro s hs
          injection hs with hs; injection hs with hs; subst hs
          refine ⟨by simp, hw.1, hw.2, ?_⟩
          intro t w
          simp only [List.cons_append, List.nil_append]
          rw [mem_abs_cons h, hg]
    | cons k2 ks' =>
      simp only [registerPrev, lookup]
      cases hg : getE m k with
      | none => simp
      | some e =>
        cases e with
        | val v => simp
        | sub m' =>
          have hw := wf_get_sub h hg
          obtain ⟨i1, i2, i3, i4⟩ := ih (m := m') hw.2 (by simp)
          refine ⟨i1, i2, ?_, i4⟩
          intro s hs
          simp only at hs
          obtain ⟨j1, j2, j3, j4⟩ := i3 s hs
          refine ⟨j1, j2, j3, ?_⟩
          intro t w
          rw [j4 t w]
          simp only [List.cons_append]
          rw [mem_abs_cons h k, hg]

/-! ## `KeyMapHandler` -/

/-- `KeyMapHandler::register` folded over a list of registrations -/
def Handler.registerAll (h : Handler V) (hist : List (List Nat × V)) : Handler V :=
  hist.foldl (fun h cv => h.register cv.1 cv.2) h

theorem Handler.registerAll_eq (h : Handler V) (hist : List (List Nat × V)) :
    Handler.registerAll h hist = ⟨SurfProofs.C18.registerAll h.keymap hist, h.state⟩ := by
  induction hist generalizing h with
  | nil => rfl
  | cons e t ih =>
    have : Handler.registerAll h (e :: t) = Handler.registerAll (h.register e.1 e.2) t := rfl
    rw [this, ih]
    rfl

theorem Handler.feed_eq (h : Handler V) (ks : List Nat) :
    Handler.feed h ks = (⟨h.keymap, (feed h.keymap h.state ks).1⟩, (feed h.keymap h.state ks).2) := by
  induction ks generalizing h with
  | nil => rfl
  | cons k t ih =>
    simp only [Handler.feed, Handler.handle, ih, feed_cons]
