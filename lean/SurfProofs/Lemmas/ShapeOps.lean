import SurfProofs.Lemmas.Shape
/-!
# Lemmas for C07, part 2: row-major enumeration of a window, the iterators and the mutating loops
-/
open SurfModel.Slice SurfModel.Shape

namespace SurfProofs.Lemmas.Shape
variable {α β ι κ σ : Type}

theorem cellAt_cons_succ (row : List α) (rest : List (List α)) (m c : Nat) :
    cellAt (row :: rest) (m + 1) c = cellAt rest m c := by simp [cellAt]

theorem flatten_rect_get (n : Nat) (hn : 0 < n) (W : List (List α)) (h : ∀ row ∈ W, row.length = n) (k : Nat) :
    W.flatten[k]? = cellAt W (k / n) (k % n) := by
  induction W generalizing k with
  | nil => simp [cellAt]
  | cons row rest ih =>
    have hl : row.length = n := h row (by simp)
    rw [List.flatten_cons]
    by_cases hk : k < n
    · rw [List.getElem?_append_left (by omega), Nat.div_eq_of_lt hk, Nat.mod_eq_of_lt hk]
      simp [cellAt]
    · have hge : n ≤ k := by omega
      rw [List.getElem?_append_right (by omega), hl, ih (fun row hr => h row (by simp [hr])) (k - n)]
      rw [Nat.div_eq_sub_div hn hge, Nat.mod_eq_sub_mod hge, cellAt_cons_succ]

theorem flatten_rect_length (n : Nat) (W : List (List α)) (h : ∀ row ∈ W, row.length = n) :
    W.flatten.length = W.length * n := by
  induction W with
  | nil => simp
  | cons row rest ih =>
    rw [List.flatten_cons, List.length_append, ih (fun row hr => h row (by simp [hr])), h row (by simp)]
    simp [Nat.succ_mul]; omega

theorem Rel.flat_length {sh : Shape} {data : List α} {W : List (List α)} (R : Rel sh data W) :
    W.flatten.length = sh.height * sh.width := by
  rcases Nat.eq_zero_or_pos (sh.height * sh.width) with hz | hpos
  · rw [hz, List.length_eq_zero_iff, List.flatten_eq_nil_iff]; exact R.empty hz
  · have hne : sh.height * sh.width ≠ 0 := by omega
    rw [flatten_rect_length sh.width W (R.row_length hne), (R.dims hne).1]

theorem div_mod_lt {h w k : Nat} (hk : k < h * w) : k / w < h ∧ k % w < w := by
  have hw : 0 < w := by
    rcases Nat.eq_zero_or_pos w with h0 | h0
    · subst h0; simp at hk
    · exact h0
  exact ⟨(Nat.div_lt_iff_lt_mul hw).mpr hk, Nat.mod_lt _ hw⟩

theorem Rel.flat_get {sh : Shape} {data : List α} {W : List (List α)} (R : Rel sh data W) (k : Nat) :
    W.flatten[k]? = if k < sh.height * sh.width then data[sh.offset (k / sh.width) (k % sh.width)]? else none := by
  rcases Nat.eq_zero_or_pos (sh.height * sh.width) with hz | hpos
  · have : W.flatten = [] := by rw [List.flatten_eq_nil_iff]; exact R.empty hz
    rw [this, hz]; simp
  · have hne : sh.height * sh.width ≠ 0 := by omega
    have hw := (pos_of_mul_ne hne).2
    rw [flatten_rect_get sh.width hw W (R.row_length hne)]
    by_cases hk : k < sh.height * sh.width
    · have ⟨h1, h2⟩ := div_mod_lt hk
      rw [if_pos hk, R.cell _ _ h1 h2]
    · rw [if_neg hk]
      apply R.cell_none
      intro ⟨h1, _⟩
      exact hk ((Nat.div_lt_iff_lt_mul hw).mp h1)

theorem nth_eq (sh : Shape) (n : Nat) :
    sh.nth n = if n < sh.height * sh.width then some (n / sh.width, n % sh.width) else none := by
  unfold Shape.nth
  rcases Nat.eq_zero_or_pos sh.width with h0 | hw
  · simp [h0]
  · have hne : (sh.width == 0) = false := by simp; omega
    simp only [hne, Bool.false_eq_true, if_false]
    have hiff := Nat.div_lt_iff_lt_mul (x := n) (y := sh.height) hw
    have hmod : n - n / sh.width * sh.width = n % sh.width := by
      have := Nat.div_add_mod n sh.width
      rw [Nat.mul_comm] at this; omega
    by_cases hk : n < sh.height * sh.width
    · simp [hk, hiff.mpr hk, hmod]
    · have : ¬ n / sh.width < sh.height := fun h => hk (hiff.mp h)
      simp [hk, this]


/-- offset of the `k`-th cell of the window in row-major order -/
def offAt (sh : Shape) (k : Nat) : Nat := sh.offset (k / sh.width) (k % sh.width)

/-- two saturating additions are one clamped sum -/
theorem satAdd_satAdd (index n : Nat) : satAdd (satAdd index n) 1 = min (index + n + 1) usizeMax := by
  unfold satAdd
  generalize usizeMax = M
  split <;> split <;> omega

/-- where the advanced index points: the same cell as without saturation, or beyond every window -/
theorem sat_index {hw index n M : Nat} (hbig : hw < M) :
    (min (index + n + 1) M - 1 < hw ↔ index + n < hw) ∧
    (index + n < hw → min (index + n + 1) M - 1 = index + n) := by
  omega

theorem iterNth_eq (sh : Shape) (data : List α) (index n : Nat) (hbig : sh.height * sh.width < usizeMax) :
    iterNth sh data index n = (min (index + n + 1) usizeMax,
      if index + n < sh.height * sh.width then (data[offAt sh (index + n)]?).map (fun x => (offAt sh (index + n), x))
      else none) := by
  unfold iterNth
  simp only [satAdd_satAdd, nth_eq]
  have ⟨h1, h2⟩ := sat_index (index := index) (n := n) hbig
  by_cases hk : index + n < sh.height * sh.width
  · simp only [h1.mpr hk, hk, if_true, offAt, h2 hk]
    cases data[sh.offset ((index + n) / sh.width) ((index + n) % sh.width)]? <;> simp
  · have : ¬ min (index + n + 1) usizeMax - 1 < sh.height * sh.width := fun h => hk (h1.mp h)
    simp [hk, this]

theorem iterMutNth_eq (sh : Shape) (len : Nat) (index n : Nat) (hbig : sh.height * sh.width < usizeMax) :
    iterMutNth sh len index n = (min (index + n + 1) usizeMax,
      if index + n < sh.height * sh.width ∧ offAt sh (index + n) < len then some (offAt sh (index + n)) else none) := by
  unfold iterMutNth
  simp only [satAdd_satAdd, nth_eq]
  have ⟨h1, h2⟩ := sat_index (index := index) (n := n) hbig
  by_cases hk : index + n < sh.height * sh.width
  · simp only [h1.mpr hk, hk, if_true, true_and, offAt, h2 hk]
    by_cases hl : sh.offset ((index + n) / sh.width) ((index + n) % sh.width) < len
    · have : ¬ sh.offset ((index + n) / sh.width) ((index + n) % sh.width) ≥ len := by omega
      simp [hl, this]
    · have : sh.offset ((index + n) / sh.width) ((index + n) % sh.width) ≥ len := by omega
      simp [hl, this]
  · have : ¬ min (index + n + 1) usizeMax - 1 < sh.height * sh.width := fun h => hk (h1.mp h)
    simp [hk, this]

theorem iterGo_eq (sh : Shape) (data : List α) (L : List (Nat × α)) (hbig : sh.height * sh.width < usizeMax)
    (hlen : L.length = sh.height * sh.width)
    (hL : ∀ k, k < sh.height * sh.width → (data[offAt sh k]?).map (fun x => (offAt sh k, x)) = L[k]?) :
    ∀ fuel index, sh.height * sh.width - index < fuel → iterGo sh data fuel index = some (L.drop index) := by
  intro fuel
  induction fuel with
  | zero => intro index h; omega
  | succ fuel ih =>
    intro index h
    unfold iterGo
    rw [iterNth_eq _ _ _ _ hbig]
    by_cases hk : index < sh.height * sh.width
    · simp only [Nat.add_zero, if_pos hk]
      rw [hL index hk]
      have hi : index < L.length := by omega
      rw [List.getElem?_eq_getElem hi]
      simp only
      have hmin : min (index + 1) usizeMax = index + 1 := by omega
      rw [hmin, ih (index + 1) (by omega)]
      rw [List.drop_eq_getElem_cons hi]; rfl
    · simp only [Nat.add_zero, if_neg hk]
      rw [List.drop_eq_nil_of_le (by omega)]

theorem iterMutGo_eq (sh : Shape) (len : Nat) (L : List Nat) (hbig : sh.height * sh.width < usizeMax)
    (hlen : L.length = sh.height * sh.width)
    (hL : ∀ k, k < sh.height * sh.width → offAt sh k < len ∧ L[k]? = some (offAt sh k)) :
    ∀ fuel index, sh.height * sh.width - index < fuel → iterMutGo sh len fuel index = some (L.drop index) := by
  intro fuel
  induction fuel with
  | zero => intro index h; omega
  | succ fuel ih =>
    intro index h
    unfold iterMutGo
    rw [iterMutNth_eq _ _ _ _ hbig]
    by_cases hk : index < sh.height * sh.width
    · have hk' : index < sh.height * sh.width ∧ offAt sh index < len := ⟨hk, (hL index hk).1⟩
      simp only [Nat.add_zero, if_pos hk']
      have hi : index < L.length := by omega
      have := (hL index hk).2
      rw [List.getElem?_eq_getElem hi] at this
      have hmin : min (index + 1) usizeMax = index + 1 := by omega
      rw [hmin, ih (index + 1) (by omega)]
      simp only [Option.some.injEq] at this
      rw [List.drop_eq_getElem_cons hi, this]; rfl
    · have hk' : ¬ (index < sh.height * sh.width ∧ offAt sh index < len) := by omega
      simp only [Nat.add_zero, if_neg hk']
      rw [List.drop_eq_nil_of_le (by omega)]

/-! ### loops -/
theorem forIn?_append (l1 l2 : List ι) (f : ι → σ → Option σ) (s : σ) :
    forIn? (l1 ++ l2) f s = (forIn? l1 f s).bind (forIn? l2 f) := by
  induction l1 generalizing s with
  | nil => simp [forIn?]
  | cons i rest ih =>
    simp only [List.cons_append, forIn?]
    cases f i s with
    | none => simp
    | some s' => simpa using ih s'

theorem forIn?_map (g : ι → κ) (l : List ι) (f : κ → σ → Option σ) (s : σ) :
    forIn? (l.map g) f s = forIn? l (fun i => f (g i)) s := by
  induction l generalizing s with
  | nil => simp [forIn?]
  | cons i rest ih =>
    simp only [List.map_cons, forIn?]
    cases f (g i) s with
    | none => rfl
    | some s' => exact ih s'

/-- row-major positions of an `h × w` window, as the two nested `for` loops enumerate them -/
def positions (h w : Nat) : List (Nat × Nat) :=
  (List.range h).flatMap fun r => (List.range w).map fun c => (r, c)

theorem forIn?_nested (l1 : List Nat) (w : Nat) (f : Nat → Nat → σ → Option σ) (s : σ) :
    forIn? l1 (fun r s => forIn? (List.range w) (fun c s => f r c s) s) s
      = forIn? (l1.flatMap fun r => (List.range w).map fun c => (r, c)) (fun p s => f p.1 p.2 s) s := by
  induction l1 generalizing s with
  | nil => simp [forIn?]
  | cons r rest ih =>
    simp only [List.flatMap_cons, forIn?_append, forIn?_map, forIn?]
    cases forIn? (List.range w) (fun c s => f r c s) s with
    | none => simp
    | some s' => simpa using ih s'

theorem positions_length (h w : Nat) : (positions h w).length = h * w := by
  unfold positions
  rw [List.flatMap_def]
  rw [flatten_rect_length w _ (by intro row hr; simp only [List.mem_map, List.mem_range] at hr; obtain ⟨r, _, rfl⟩ := hr; simp)]
  simp

theorem positions_get (h w k : Nat) :
    (positions h w)[k]? = if k < h * w then some (k / w, k % w) else none := by
  rcases Nat.eq_zero_or_pos w with h0 | hw
  · subst h0
    have : positions h 0 = [] := by
      apply List.eq_nil_of_length_eq_zero; rw [positions_length]; simp
    simp [this]
  · unfold positions
    rw [List.flatMap_def]
    rw [flatten_rect_get w hw _ (by intro row hr; simp only [List.mem_map, List.mem_range] at hr; obtain ⟨r, _, rfl⟩ := hr; simp)]
    have hiff := Nat.div_lt_iff_lt_mul (x := k) (y := h) hw
    have hm := Nat.mod_lt k hw
    unfold cellAt
    by_cases hk : k < h * w
    · simp [hk, hiff.mpr hk, hm]
    · have : ¬ k / w < h := fun hh => hk (hiff.mp hh)
      simp [hk, this]

theorem positions_mem {h w : Nat} {p : Nat × Nat} (hp : p ∈ positions h w) : p.1 < h ∧ p.2 < w := by
  simp only [positions, List.mem_flatMap, List.mem_map, List.mem_range] at hp
  obtain ⟨r, hr, c, hc, rfl⟩ := hp
  exact ⟨hr, hc⟩

theorem filterMap_get_of_isSome (g : ι → Option β) (l : List ι) (h : ∀ p ∈ l, (g p).isSome) (k : Nat) :
    (l.filterMap g)[k]? = l[k]?.bind g := by
  induction l generalizing k with
  | nil => simp
  | cons p rest ih =>
    have hp := h p (by simp)
    obtain ⟨y, hy⟩ := Option.isSome_iff_exists.mp hp
    rw [List.filterMap_cons_some hy]
    cases k with
    | zero => simp [hy]
    | succ k => simpa using ih (fun q hq => h q (by simp [hq])) k

/-- one iteration of a read-modify-write loop over cells -/
def stepW (off : ι → Nat) (val : ι → α → α) (p : ι) (st : MutSt α) : Option (MutSt α) :=
  match st.data[off p]? with
  | none => none
  | some item => some { data := st.data.set (off p) (val p item), touched := st.touched ++ [off p] }

theorem loopW_spec (off : ι → Nat) (val : ι → α → α) (ps : List ι) (hnd : (ps.map off).Nodup)
    (st : MutSt α) (hb : ∀ p ∈ ps, off p < st.data.length) :
    ∃ st', forIn? ps (stepW off val) st = some st' ∧ st'.touched = st.touched ++ ps.map off ∧
      st'.data.length = st.data.length ∧ (∀ i, i ∉ ps.map off → st'.data[i]? = st.data[i]?) ∧
      (∀ p ∈ ps, st'.data[off p]? = (st.data[off p]?).map (val p)) := by
  induction ps generalizing st with
  | nil => exact ⟨st, by simp [forIn?]⟩
  | cons p rest ih =>
    have hp : off p < st.data.length := hb p (by simp)
    simp only [List.map_cons, List.nodup_cons] at hnd
    obtain ⟨hnotin, hnd'⟩ := hnd
    let st1 : MutSt α := { data := st.data.set (off p) (val p st.data[off p]), touched := st.touched ++ [off p] }
    have hstep : stepW off val p st = some st1 := by
      unfold stepW; rw [List.getElem?_eq_getElem hp]
    obtain ⟨st', h1, h2, h3, h4, h5⟩ := ih hnd' st1 (by intro q hq; simp only [st1, List.length_set]; exact hb q (by simp [hq]))
    refine ⟨st', ?_, ?_, ?_, ?_, ?_⟩
    · simp only [forIn?, hstep]; exact h1
    · rw [h2]; simp [st1]
    · rw [h3]; simp [st1]
    · intro i hi
      simp only [List.map_cons, List.mem_cons, not_or] at hi
      rw [h4 i hi.2]
      simp only [st1]
      rw [List.getElem?_set_ne (by omega)]
    · intro q hq
      simp only [List.mem_cons] at hq
      rcases hq with rfl | hq
      · rw [h4 (off q) hnotin]
        simp only [st1]
        rw [List.getElem?_set_self hp, List.getElem?_eq_getElem hp]; rfl
      · rw [h5 q hq]
        have hne : off p ≠ off q := by
          intro he; apply hnotin; rw [he]; exact List.mem_map_of_mem hq
        simp only [st1]
        rw [List.getElem?_set_ne hne]

theorem loopMap_eq (off : ι → Nat) (f : ι → α → β) (data : List α) (ps : List ι) (acc : List β × List Nat)
    (hb : ∀ p ∈ ps, off p < data.length) :
    forIn? ps (fun p (st : List β × List Nat) =>
        match data[off p]? with
        | none => none
        | some x => some (st.1 ++ [f p x], st.2 ++ [off p])) acc
      = some (acc.1 ++ ps.filterMap (fun p => (data[off p]?).map (f p)), acc.2 ++ ps.map off) := by
  induction ps generalizing acc with
  | nil => simp [forIn?]
  | cons p rest ih =>
    have hp : off p < data.length := hb p (by simp)
    simp only [forIn?, List.getElem?_eq_getElem hp]
    rw [ih _ (fun q hq => hb q (by simp [hq]))]
    simp [List.getElem?_eq_getElem hp]


/-- offsets of the window's cells in row-major order -/
def offs (sh : Shape) : List Nat := (positions sh.height sh.width).map fun p => sh.offset p.1 p.2

theorem offs_length (sh : Shape) : (offs sh).length = sh.height * sh.width := by
  simp [offs, positions_length]

theorem offs_get (sh : Shape) (k : Nat) :
    (offs sh)[k]? = if k < sh.height * sh.width then some (offAt sh k) else none := by
  unfold offs
  rw [List.getElem?_map, positions_get]
  by_cases hk : k < sh.height * sh.width <;> simp [hk, offAt]

theorem div_mod_inj {w i j : Nat} (h1 : i / w = j / w) (h2 : i % w = j % w) : i = j := by
  have a := Nat.div_add_mod i w
  have b := Nat.div_add_mod j w
  rw [h1, h2] at a; omega

theorem offs_nodup {sh : Shape} (S : Strides sh) : (offs sh).Nodup := by
  rw [List.Nodup, List.pairwise_iff_getElem]
  intro i j hi hj hij he
  rw [offs_length] at hi hj
  have gi := offs_get sh i
  have gj := offs_get sh j
  rw [if_pos hi, List.getElem?_eq_getElem (by rw [offs_length]; exact hi)] at gi
  rw [if_pos hj, List.getElem?_eq_getElem (by rw [offs_length]; exact hj)] at gj
  simp only [Option.some.injEq] at gi gj
  rw [gi, gj] at he
  have ⟨a1, a2⟩ := div_mod_lt hi
  have ⟨b1, b2⟩ := div_mod_lt hj
  have := S.offset_inj _ _ _ _ a1 a2 b1 b2 he
  have := div_mod_inj this.1 this.2
  omega

theorem Rel.offAt_lt {sh : Shape} {data : List α} {W : List (List α)} (R : Rel sh data W)
    {k : Nat} (hk : k < sh.height * sh.width) : offAt sh k < data.length := by
  have ⟨h1, h2⟩ := div_mod_lt hk
  exact R.offset_lt _ _ h1 h2

theorem Rel.offs_lt {sh : Shape} {data : List α} {W : List (List α)} (R : Rel sh data W) :
    ∀ o ∈ offs sh, o < data.length := by
  intro o ho
  simp only [offs, List.mem_map] at ho
  obtain ⟨p, hp, rfl⟩ := ho
  have := positions_mem hp
  exact R.offset_lt _ _ this.1 this.2

/-- the window of the matrix of cell numbers, flattened, is the list of offsets -/
theorem Rel.index_flat {sh : Shape} {n : Nat} {I : List (List Nat)} (R : Rel sh (List.range n) I) :
    I.flatten = offs sh := by
  apply List.ext_getElem?
  intro k
  rw [R.flat_get, offs_get]
  by_cases hk : k < sh.height * sh.width
  · have := R.offAt_lt hk
    simp only [List.length_range] at this
    rw [if_pos hk, if_pos hk]
    exact List.getElem?_range this
  · simp [hk]

/-- the flattened window in terms of offsets -/
theorem Rel.flat_eq {sh : Shape} {data : List α} {W : List (List α)} (R : Rel sh data W) :
    W.flatten = (offs sh).filterMap (data[·]?) := by
  apply List.ext_getElem?
  intro k
  rw [R.flat_get, filterMap_get_of_isSome, offs_get]
  · by_cases hk : k < sh.height * sh.width <;> simp [hk, offAt]
  · intro o ho
    have := R.offs_lt o ho
    simp [this]

/-- `data'` is `data` with exactly the cells `os` rewritten: the cell `os[k]` holds `g k (old value)`,
every other cell is unchanged -/
structure Updated (data data' : List α) (os : List Nat) (g : Nat → α → α) : Prop where
  length : data'.length = data.length
  outside : ∀ i, i ∉ os → data'[i]? = data[i]?
  inside : ∀ k o, os[k]? = some o → data'[o]? = (data[o]?).map (g k)

theorem cellLoop_spec {sh : Shape} {data : List α} {W : List (List α)} (R : Rel sh data W) (S : Strides sh)
    (f : Nat → Nat → α → α) :
    ∃ st, forIn? (positions sh.height sh.width)
        (stepW (fun p => sh.offset p.1 p.2) (fun p x => f p.1 p.2 x)) { data := data, touched := [] } = some st ∧
      st.touched = offs sh ∧
      Updated data st.data (offs sh) (fun k x => f (k / sh.width) (k % sh.width) x) := by
  have hnd := offs_nodup S
  obtain ⟨st, h1, h2, h3, h4, h5⟩ := loopW_spec (fun p : Nat × Nat => sh.offset p.1 p.2) (fun p x => f p.1 p.2 x)
    (positions sh.height sh.width) hnd { data := data, touched := [] }
    (fun p hp => by have := positions_mem hp; exact R.offset_lt _ _ this.1 this.2)
  refine ⟨st, h1, by simpa [offs] using h2, ⟨h3, h4, ?_⟩⟩
  intro k o hk
  simp only [offs, List.getElem?_map] at hk
  cases hp : (positions sh.height sh.width)[k]? with
  | none => rw [hp] at hk; simp at hk
  | some p =>
    rw [hp] at hk
    simp only [Option.map_some, Option.some.injEq] at hk
    have hmem : p ∈ positions sh.height sh.width := List.mem_of_getElem? hp
    rw [positions_get] at hp
    split at hp
    · simp only [Option.some.injEq] at hp
      subst hp; subst hk
      exact h5 _ hmem
    · simp at hp

theorem write_eq_stepW (off : ι → Nat) (item : α) (p : ι) (st : MutSt α) :
    st.write (off p) item = stepW off (fun _ _ => item) p st := by
  unfold MutSt.write stepW
  by_cases h : off p < st.data.length
  · simp [h]
  · simp [h]

theorem fill_spec {sh : Shape} {data : List α} {W : List (List α)} (R : Rel sh data W) (S : Strides sh) (item : α) :
    ∃ st, fill sh data item = some st ∧ st.touched = offs sh ∧ Updated data st.data (offs sh) (fun _ _ => item) := by
  obtain ⟨st, h1, h2, h3⟩ := cellLoop_spec R S (fun _ _ _ => item)
  refine ⟨st, ?_, h2, h3⟩
  unfold fill
  refine (forIn?_nested (List.range sh.height) sh.width
    (fun row col (st : MutSt α) => st.write (sh.offset row col) item) _).trans ?_
  rw [← h1]; unfold positions
  congr 1
  funext p st
  exact write_eq_stepW (fun p : Nat × Nat => sh.offset p.1 p.2) item p st

theorem clear_spec {sh : Shape} {data : List α} {W : List (List α)} (R : Rel sh data W) (S : Strides sh) (dflt : α) :
    ∃ st, clear sh data dflt = some st ∧ st.touched = offs sh ∧ Updated data st.data (offs sh) (fun _ _ => dflt) :=
  fill_spec R S dflt

theorem forIn?_pair (l : List ι) (g : ι → σ → Option σ) (s0 : σ) (t : κ) :
    forIn? l (fun i (s : σ × κ) => (g i s.1).map (fun s' => (s', s.2))) (s0, t) = (forIn? l g s0).map (fun s' => (s', t)) := by
  induction l generalizing s0 with
  | nil => simp [forIn?]
  | cons i rest ih =>
    simp only [forIn?]
    cases g i s0 with
    | none => simp
    | some s' => simpa using ih s'

theorem fillWith_spec {sh : Shape} {data : List α} {W : List (List α)} (R : Rel sh data W) (S : Strides sh)
    (dflt : α) (f : Nat → Nat → α → α) :
    ∃ st, fillWith sh data dflt f = some st ∧ st.touched = offs sh ∧
      Updated data st.data (offs sh) (fun k x => f (k / sh.width) (k % sh.width) x) := by
  obtain ⟨st, h1, h2, h3⟩ := cellLoop_spec R S f
  refine ⟨st, ?_, h2, h3⟩
  unfold fillWith
  rw [forIn?_nested (List.range sh.height) sh.width (fun row col (s : MutSt α × α) => fillWithStep sh f row col s)]
  have hbody : (fun (p : Nat × Nat) (s : MutSt α × α) => fillWithStep sh f p.1 p.2 s)
      = fun p s => (stepW (fun p : Nat × Nat => sh.offset p.1 p.2) (fun p x => f p.1 p.2 x) p s.1).map (fun s' => (s', s.2)) := by
    funext p s
    obtain ⟨st, tmp⟩ := s
    simp only [stepW, fillWithStep]
    cases hd : st.data[sh.offset p.1 p.2]? with
    | none => simp
    | some item =>
      have hlt : sh.offset p.1 p.2 < st.data.length := (List.getElem?_eq_some_iff.mp hd).1
      simp [List.getElem?_set_self hlt, List.set_set]
  rw [hbody, ← positions, forIn?_pair, h1]
  rfl


theorem insertGo_spec {sh : Shape} (S : Strides sh) (len : Nat) (hb : ∀ o ∈ offs sh, o < len)
    (hbig : sh.height * sh.width < usizeMax) :
    ∀ (items : List α) (index : Nat) (st : MutSt α), st.data.length = len →
      (insertGo sh items index st).touched = st.touched ++ (((offs sh).drop index).zip items).map (·.1) ∧
      (insertGo sh items index st).data.length = len ∧
      (∀ i, i ∉ (((offs sh).drop index).zip items).map (·.1) → (insertGo sh items index st).data[i]? = st.data[i]?) ∧
      (∀ w ∈ ((offs sh).drop index).zip items, (insertGo sh items index st).data[w.1]? = some w.2) := by
  intro items
  induction items with
  | nil => intro index st hl; simp [insertGo, hl]
  | cons src rest ih =>
    intro index st hl
    unfold insertGo
    rw [iterMutNth_eq _ _ _ _ hbig]
    by_cases hk : index < sh.height * sh.width
    · have hmin : min (index + 0 + 1) usizeMax = index + 1 := by omega
      rw [hmin]
      have hi : index < (offs sh).length := by rw [offs_length]; exact hk
      have hget : (offs sh)[index] = offAt sh index := by
        have := offs_get sh index
        rw [if_pos hk, List.getElem?_eq_getElem hi] at this
        exact Option.some.inj this
      have hlt : offAt sh index < len := by
        apply hb; rw [← hget]; exact List.getElem_mem hi
      have hcond : index + 0 < sh.height * sh.width ∧ offAt sh (index + 0) < st.data.length := by
        rw [hl]; exact ⟨hk, hlt⟩
      rw [if_pos hcond]
      simp only [Nat.add_zero]
      have hdrop : (offs sh).drop index = offAt sh index :: (offs sh).drop (index + 1) := by
        rw [List.drop_eq_getElem_cons hi, hget]
      have hnd : ((offs sh).drop index).Nodup := (offs_nodup S).sublist (List.drop_sublist _ _)
      rw [hdrop, List.nodup_cons] at hnd
      obtain ⟨hnotin, _⟩ := hnd
      have hnotin' : offAt sh index ∉ (((offs sh).drop (index + 1)).zip rest).map (·.1) := by
        intro hm
        simp only [List.mem_map] at hm
        obtain ⟨w, hw, hw1⟩ := hm
        apply hnotin
        rw [← hw1]
        exact (List.of_mem_zip (a := w.1) (b := w.2) hw).1
      obtain ⟨h1, h2, h3, h4⟩ := ih (index + 1)
        { data := st.data.set (offAt sh index) src, touched := st.touched ++ [offAt sh index] }
        (by simp [hl])
      rw [hdrop]
      simp only [List.zip_cons_cons, List.map_cons, List.mem_cons, not_or]
      refine ⟨?_, h2, ?_, ?_⟩
      · rw [h1]; simp
      · intro i hi'
        rw [h3 i hi'.2]
        simp only
        rw [List.getElem?_set_ne (fun he => hi'.1 he.symm)]
      · intro w hw
        rcases hw with rfl | hw
        · simp only
          rw [h3 _ hnotin']
          simp only
          rw [List.getElem?_set_self (by rw [hl]; exact hlt)]
        · exact h4 w hw
    · have hcond : ¬ (index + 0 < sh.height * sh.width ∧ offAt sh (index + 0) < st.data.length) := by
        simp only [Nat.add_zero]; omega
      rw [if_neg hcond]
      have : (offs sh).drop index = [] := List.drop_eq_nil_of_le (by rw [offs_length]; omega)
      simp [this, hl]

/-- `SurfaceMut::insert`: unless the index computation overflows `usize`, the items go to the window's
cells from row-major position `row * width + col` on, as far as items and cells reach; nothing else changes -/
theorem insert_spec {sh : Shape} {data : List α} {W : List (List α)} (R : Rel sh data W) (S : Strides sh)
    (hbig : sh.height * sh.width < usizeMax) (row col : Nat) (items : List α) :
    (row * sh.width + col > usizeMax → SurfModel.Shape.insert sh data row col items = none) ∧
    (row * sh.width + col ≤ usizeMax →
      ∃ st, SurfModel.Shape.insert sh data row col items = some st ∧
        let ws := ((offs sh).drop (row * sh.width + col)).zip items
        st.touched = ws.map (·.1) ∧ st.data.length = data.length ∧
        (∀ i, i ∉ ws.map (·.1) → st.data[i]? = data[i]?) ∧ (∀ w ∈ ws, st.data[w.1]? = some w.2)) := by
  constructor
  · intro hov
    unfold SurfModel.Shape.insert
    by_cases h1 : row * sh.width > usizeMax
    · simp [h1]
    · simp [h1, hov]
  · intro hok
    have h1 : ¬ row * sh.width > usizeMax := by omega
    have h2 : ¬ row * sh.width + col > usizeMax := by omega
    have hit : (if row * sh.width + col > 0 then (iterMutNth sh data.length 0 (row * sh.width + col - 1)).1 else 0)
        = row * sh.width + col := by
      split
      · rw [iterMutNth_eq _ _ _ _ hbig]; simp only; omega
      · omega
    refine ⟨insertGo sh items (row * sh.width + col) { data := data, touched := [] }, ?_, ?_⟩
    · unfold SurfModel.Shape.insert
      simp only [h1, h2, if_false, hit]
    · have := insertGo_spec S data.length R.offs_lt hbig items (row * sh.width + col) { data := data, touched := [] } rfl
      simpa using this

/-- `Surface::map`: the new surface holds `f(pos, cell)` for the window's cells in row-major order, and
exactly the window's cells are read, each once -/
theorem map_spec {sh : Shape} {data : List α} {W : List (List α)} (R : Rel sh data W)
    (f : Nat → Nat → α → β) :
    map sh data f = some (W.flatten.mapIdx (fun k x => f (k / sh.width) (k % sh.width) x), offs sh) := by
  unfold map
  refine (forIn?_nested (List.range sh.height) sh.width
    (fun row col (st : List β × List Nat) =>
      match data[sh.offset row col]? with
      | none => none
      | some x => some (st.1 ++ [f row col x], st.2 ++ [sh.offset row col])) _).trans ?_
  have hb : ∀ p ∈ positions sh.height sh.width, sh.offset p.1 p.2 < data.length := by
    intro p hp; have := positions_mem hp; exact R.offset_lt _ _ this.1 this.2
  have := loopMap_eq (fun p : Nat × Nat => sh.offset p.1 p.2) (fun p x => f p.1 p.2 x) data
    (positions sh.height sh.width) ([], []) hb
  rw [← positions]
  refine this.trans ?_
  simp only [List.nil_append, offs]
  congr 2
  apply List.ext_getElem?
  intro k
  rw [filterMap_get_of_isSome _ _ (by intro p hp; simp [hb p hp]), List.getElem?_mapIdx, R.flat_get, positions_get]
  by_cases hk : k < sh.height * sh.width <;> simp [hk]


theorem Rel.zip_length {sh : Shape} {data : List α} {W : List (List α)} (R : Rel sh data W) :
    ((offs sh).zip W.flatten).length = sh.height * sh.width := by
  rw [List.length_zip, offs_length, R.flat_length]; omega

theorem Rel.zip_get {sh : Shape} {data : List α} {W : List (List α)} (R : Rel sh data W) (k : Nat) :
    ((offs sh).zip W.flatten)[k]? =
      if k < sh.height * sh.width then (data[offAt sh k]?).map (fun x => (offAt sh k, x)) else none := by
  rw [List.zip_eq_zipWith, List.getElem?_zipWith, offs_get, R.flat_get]
  by_cases hk : k < sh.height * sh.width
  · simp only [hk, if_true, offAt]
    cases data[sh.offset (k / sh.width) (k % sh.width)]? <;> rfl
  · simp [hk]

theorem iter_spec {sh : Shape} {data : List α} {W : List (List α)} (R : Rel sh data W)
    (hbig : sh.height * sh.width < usizeMax) :
    iter sh data = some ((offs sh).zip W.flatten) := by
  unfold iter
  rw [iterGo_eq sh data ((offs sh).zip W.flatten) hbig R.zip_length
    (fun k hk => by rw [R.zip_get, if_pos hk]) _ 0 (by omega)]
  rfl

theorem iterMut_spec {sh : Shape} {data : List α} {W : List (List α)} (R : Rel sh data W)
    (hbig : sh.height * sh.width < usizeMax) :
    iterMut sh data.length = some (offs sh) := by
  unfold iterMut
  rw [iterMutGo_eq sh data.length (offs sh) hbig (offs_length sh)
    (fun k hk => ⟨R.offAt_lt hk, by rw [offs_get, if_pos hk]⟩) _ 0 (by omega)]
  rfl

theorem iterNth_spec {sh : Shape} {data : List α} {W : List (List α)} (R : Rel sh data W)
    (hbig : sh.height * sh.width < usizeMax) (index n : Nat) :
    iterNth sh data index n = (min (index + n + 1) usizeMax, ((offs sh).zip W.flatten)[index + n]?) := by
  rw [iterNth_eq _ _ _ _ hbig, R.zip_get]

theorem iterMutNth_spec {sh : Shape} {data : List α} {W : List (List α)} (R : Rel sh data W)
    (hbig : sh.height * sh.width < usizeMax) (index n : Nat) :
    iterMutNth sh data.length index n = (min (index + n + 1) usizeMax, (offs sh)[index + n]?) := by
  rw [iterMutNth_eq _ _ _ _ hbig, offs_get]
  by_cases hk : index + n < sh.height * sh.width
  · have := R.offAt_lt hk
    simp [hk, this]
  · simp [hk]

theorem Rel.zip_fst {sh : Shape} {data : List α} {W : List (List α)} (R : Rel sh data W) :
    ((offs sh).zip W.flatten).map (·.1) = offs sh :=
  List.map_fst_zip (by rw [offs_length, R.flat_length]; omega)

theorem Rel.zip_snd {sh : Shape} {data : List α} {W : List (List α)} (R : Rel sh data W) :
    ((offs sh).zip W.flatten).map (·.2) = W.flatten :=
  List.map_snd_zip (by rw [offs_length, R.flat_length]; omega)

/-- `SurfaceMut::set`: panics outside of the window; inside it writes exactly the cell at `offset` and
returns its old value -/
theorem set_spec {sh : Shape} {data : List α} {W : List (List α)} (R : Rel sh data W) (row col : Nat) (item : α) :
    (¬ (row < sh.height ∧ col < sh.width) → SurfModel.Shape.set sh data row col item = none) ∧
    (row < sh.height ∧ col < sh.width → ∃ old, cellAt W row col = some old ∧
      SurfModel.Shape.set sh data row col item
        = some ({ data := data.set (sh.offset row col) item, touched := [sh.offset row col] }, old)) := by
  constructor
  · intro hout
    unfold SurfModel.Shape.set
    by_cases h1 : row < sh.height
    · have h2 : ¬ col < sh.width := fun h => hout ⟨h1, h⟩
      simp [h1, h2]
    · simp [h1]
  · intro ⟨h1, h2⟩
    obtain ⟨old, hold⟩ := R.cell_some row col h1 h2
    refine ⟨old, hold, ?_⟩
    rw [R.cell row col h1 h2] at hold
    unfold SurfModel.Shape.set
    simp [h1, h2, hold]

/-! ### `with_position` -/
theorem iterPosition_eq (sh : Shape) {k : Nat} (hk : k < sh.height * sh.width) :
    iterPosition sh k = (k / sh.width, k % sh.width) := by
  unfold iterPosition; rw [nth_eq, if_pos hk]

theorem posIterNext_spec {sh : Shape} {data : List α} {W : List (List α)} (R : Rel sh data W)
    (hbig : sh.height * sh.width < usizeMax) (index : Nat) :
    posIterNext sh data index = (min (index + 1) usizeMax,
      (((offs sh).zip W.flatten)[index]?).map (fun x => ((index / sh.width, index % sh.width), x))) := by
  unfold posIterNext
  rw [iterNth_spec R hbig index 0]
  simp only [Nat.add_zero]
  cases hL : ((offs sh).zip W.flatten)[index]? with
  | none => rfl
  | some x =>
    have hlt : index < sh.height * sh.width := by
      have := (List.getElem?_eq_some_iff.mp hL).1
      rw [R.zip_length] at this; exact this
    simp [iterPosition_eq sh hlt]

theorem posIterNth_spec {sh : Shape} {data : List α} {W : List (List α)} (R : Rel sh data W)
    (hbig : sh.height * sh.width < usizeMax) (n index : Nat) :
    (posIterNth sh data n index).2 = (((offs sh).zip W.flatten)[index + n]?).map
        (fun x => (((index + n) / sh.width, (index + n) % sh.width), x)) ∧
    ((posIterNth sh data n index).2.isSome → (posIterNth sh data n index).1 = index + n + 1) := by
  induction n generalizing index with
  | zero =>
    unfold posIterNth
    rw [posIterNext_spec R hbig index]
    refine ⟨rfl, ?_⟩
    intro hs
    simp only [Nat.add_zero, Option.isSome_map] at hs
    obtain ⟨x, hx⟩ := Option.isSome_iff_exists.mp hs
    have := (List.getElem?_eq_some_iff.mp hx).1
    rw [R.zip_length] at this
    simp only; omega
  | succ n ih =>
    unfold posIterNth
    rw [posIterNext_spec R hbig index]
    cases hL : ((offs sh).zip W.flatten)[index]? with
    | none =>
      have hge : ((offs sh).zip W.flatten).length ≤ index := List.getElem?_eq_none_iff.mp hL
      have : ((offs sh).zip W.flatten)[index + (n + 1)]? = none := List.getElem?_eq_none (by omega)
      simp [this]
    | some x =>
      have hlt : index < sh.height * sh.width := by
        have := (List.getElem?_eq_some_iff.mp hL).1
        rw [R.zip_length] at this; exact this
      have hmin : min (index + 1) usizeMax = index + 1 := by omega
      simp only [Option.map_some, hmin]
      have e : index + 1 + n = index + (n + 1) := by omega
      have := ih (index + 1)
      rw [e] at this
      refine ⟨this.1, fun hs => ?_⟩
      rw [this.2 hs]

theorem posIterMutNext_spec {sh : Shape} {data : List α} {W : List (List α)} (R : Rel sh data W)
    (hbig : sh.height * sh.width < usizeMax) (index : Nat) :
    posIterMutNext sh data.length index = (min (index + 1) usizeMax,
      ((offs sh)[index]?).map (fun x => ((index / sh.width, index % sh.width), x))) := by
  unfold posIterMutNext
  rw [iterMutNth_spec R hbig index 0]
  simp only [Nat.add_zero]
  cases hL : (offs sh)[index]? with
  | none => rfl
  | some x =>
    have hlt : index < sh.height * sh.width := by
      have := (List.getElem?_eq_some_iff.mp hL).1
      rw [offs_length] at this; exact this
    simp [iterPosition_eq sh hlt]

theorem posIterMutNth_spec {sh : Shape} {data : List α} {W : List (List α)} (R : Rel sh data W)
    (hbig : sh.height * sh.width < usizeMax) (n index : Nat) :
    (posIterMutNth sh data.length n index).2 = ((offs sh)[index + n]?).map
        (fun x => (((index + n) / sh.width, (index + n) % sh.width), x)) ∧
    ((posIterMutNth sh data.length n index).2.isSome → (posIterMutNth sh data.length n index).1 = index + n + 1) := by
  induction n generalizing index with
  | zero =>
    unfold posIterMutNth
    rw [posIterMutNext_spec R hbig index]
    refine ⟨rfl, ?_⟩
    intro hs
    simp only [Nat.add_zero, Option.isSome_map] at hs
    obtain ⟨x, hx⟩ := Option.isSome_iff_exists.mp hs
    have := (List.getElem?_eq_some_iff.mp hx).1
    rw [offs_length] at this
    simp only; omega
  | succ n ih =>
    unfold posIterMutNth
    rw [posIterMutNext_spec R hbig index]
    cases hL : (offs sh)[index]? with
    | none =>
      have hge : (offs sh).length ≤ index := List.getElem?_eq_none_iff.mp hL
      have : (offs sh)[index + (n + 1)]? = none := List.getElem?_eq_none (by omega)
      simp [this]
    | some x =>
      have hlt : index < sh.height * sh.width := by
        have := (List.getElem?_eq_some_iff.mp hL).1
        rw [offs_length] at this; exact this
      have hmin : min (index + 1) usizeMax = index + 1 := by omega
      simp only [Option.map_some, hmin]
      have e : index + 1 + n = index + (n + 1) := by omega
      have := ih (index + 1)
      rw [e] at this
      refine ⟨this.1, fun hs => ?_⟩
      rw [this.2 hs]

end SurfProofs.Lemmas.Shape
