import SurfModel.SerdeView
import SurfProofs.Lemmas.SerdeImage
/-!
# C19 — helper lemmas about `SurfModel.SerdeView` (glyph / text / view-tree deserialisers)

* `NP r`: the outcome `r` is not the panic outcome.  Every field deserialiser is `NP`; the recursive steps are
  `NP` when their recursive calls are; hence `deView`, `deText`, `deGlyphV` are.
* fuel: the recursive functions call themselves only on values with fewer nodes (`get_size`, `mem_size`), so
  any fuel ≥ the node count gives the same answer (`deViewF_fuel`, `collectF_fuel`).
-/
namespace SurfProofs.C19
open SurfModel.Serde SurfModel.ViewLayout SurfModel.SerdeView

/-- the outcome is a value or `invalid`, not `panic` -/
abbrev NP {α : Type} (r : R α) : Prop := r ≠ .error .panic

theorem np_ok {α : Type} (x : α) : NP (.ok x : R α) := by simp
theorem np_invalid {α : Type} : NP (.error .invalid : R α) := by simp

/-- assume the panic outcome, take the definition apart along its `match`es and `if`s, and close every branch
    with the (simp-tagged) facts about the functions it calls -/
macro "np_tac" : tactic => `(tactic| (intro hcontra; (repeat' split at hcontra) <;> simp_all))

theorem andThen_np {α β : Type} {r : R α} {f : α → R β} (hr : r ≠ .error .panic) (hf : ∀ x, f x ≠ .error .panic) :
    andThen r f ≠ .error .panic := by
  unfold andThen
  cases r with
  | ok x => exact hf x
  | error e => simpa using hr

theorem andThen_np' {α β : Type} {r : R α} {f : α → R β} (hr : r ≠ .error .panic)
    (hf : ∀ x, r = .ok x → f x ≠ .error .panic) : andThen r f ≠ .error .panic := by
  unfold andThen
  cases r with
  | ok x => exact hf x rfl
  | error e => simpa using hr

/-! ## field deserialisers -/

@[simp] theorem deUsize_np (j : JV) : deUsize j ≠ .error .panic := by unfold deUsize; np_tac
@[simp] theorem deF64_np (j : JV) : deF64 j ≠ .error .panic := by unfold deF64; np_tac
@[simp] theorem deI32_np (j : JV) : deI32 j ≠ .error .panic := by unfold deI32; np_tac
@[simp] theorem deUnitEnum_np (n : List (List Char)) (j : JV) : deUnitEnum n j ≠ .error .panic := by
  unfold deUnitEnum; np_tac
@[simp] theorem deAxis_np (j : JV) : deAxis j ≠ .error .panic := by unfold deAxis; np_tac
@[simp] theorem deJustify_np (j : JV) : deJustify j ≠ .error .panic := by unfold deJustify; np_tac
@[simp] theorem deAlign_np (j : JV) : deAlign j ≠ .error .panic := by unfold deAlign; np_tac
@[simp] theorem fieldUsize_np (ms : List (List Char × JV)) (k : List Char) (d : Option Nat) :
    fieldUsize ms k d ≠ .error .panic := by unfold fieldUsize; np_tac
@[simp] theorem deSizeV_np (j : JV) : deSizeV j ≠ .error .panic := by unfold deSizeV; np_tac
@[simp] theorem deSizeT_np (j : JV) : deSizeT j ≠ .error .panic := by unfold deSizeT; np_tac
@[simp] theorem deSizeG_np (t : Bool) (j : JV) : deSizeG t j ≠ .error .panic := by unfold deSizeG; np_tac
@[simp] theorem deMargins_np (j : JV) : deMargins j ≠ .error .panic := by unfold deMargins; np_tac
@[simp] theorem deFace_np (ext : Ext) (j : JV) : deFace ext j ≠ .error .panic := by unfold deFace; np_tac
@[simp] theorem deColor_np (ext : Ext) (j : JV) : deColor ext j ≠ .error .panic := by unfold deColor; np_tac
@[simp] theorem deFloats_np (n : Nat) (j : JV) : deFloats n j ≠ .error .panic := by unfold deFloats; np_tac

theorem allOk_np {α : Type} (f : α → R Unit) (hf : ∀ x, f x ≠ .error .panic) :
    ∀ l : List α, allOk f l ≠ .error .panic
  | [] => by simp [allOk]
  | x :: xs => by
    simp only [allOk]
    have := hf x
    cases hx : f x with
    | ok _ => exact allOk_np f hf xs
    | error e => rw [hx] at this; simpa using this

@[simp] theorem frameMember_np (ext : Ext) (m : List Char × JV) : frameMember ext m ≠ .error .panic := by
  unfold frameMember; np_tac

@[simp] theorem deFrame_np (ext : Ext) (typed : Bool) (j : JV) : deFrame ext typed j ≠ .error .panic := by
  unfold deFrame
  split
  · exact allOk_np _ (frameMember_np ext) _
  · simp

@[simp] theorem glyphMember_np (ext : Ext) (typed : Bool) (acc : GAcc) (m : List Char × JV) :
    glyphMember ext typed acc m ≠ .error .panic := by
  unfold glyphMember; np_tac

theorem glyphLoop_np (ext : Ext) (typed : Bool) :
    ∀ (ms : List (List Char × JV)) (acc : GAcc), glyphLoop ext typed ms acc ≠ .error .panic
  | [], acc => by simp [glyphLoop]
  | m :: ms, acc => by
    simp only [glyphLoop]
    have := glyphMember_np ext typed acc m
    cases hx : glyphMember ext typed acc m with
    | ok a => exact glyphLoop_np ext typed ms a
    | error e => rw [hx] at this; simpa using this

@[simp] theorem deGlyphWith_np (ext : Ext) (typed : Bool) (j : JV) : deGlyphWith ext typed j ≠ .error .panic := by
  unfold deGlyphWith
  split
  · rename_i ms
    have := glyphLoop_np ext typed (if typed = true then ms else dedup ms) ⟨false, false, none, []⟩
    revert this
    generalize glyphLoop ext typed (if typed = true then ms else dedup ms) ⟨false, false, none, []⟩ = r
    intro this
    cases r with
    | ok acc => simp only; split <;> simp
    | error e => simpa using this
  · simp

@[simp] theorem deGlyph_np (ext : Ext) (j : JV) : deGlyph ext j ≠ .error .panic := deGlyphWith_np ext false j

/-- the image visitor behind `image` / `image_ascii` -/
theorem deImageV_np (ext : Ext) (hs : Sufficient ext.sched) (j : JV) : deImageV ext j ≠ .error .panic := by
  unfold deImageV
  have h1 : deImage ext.sched (imageJson j) ≠ .panic ∧
      (deImage ext.sched (imageJson j) = .err ∨ ∃ img, deImage ext.sched (imageJson j) = .ok img) := by
    cases hj : imageJson j with
    | obj ms =>
      exact ⟨visit_ne_panic ext.sched _, visit_ok_or_err ext.sched hs _⟩
    | _ => exact ⟨by simp [deImage], Or.inl (by simp [deImage])⟩
  rcases h1.2 with h | ⟨img, h⟩ <;> rw [h] <;> simp

/-! ## the dimensions of a deserialised image are `usize` values -/

theorem uval_get_lt {v : UVal} {n : Nat} (h : v.get? = some n) : n < USIZE := by
  cases v with
  | num m => simp only [UVal.get?] at h; split at h <;> simp_all
  | bad => simp [UVal.get?] at h

theorem sizeMapLoop_lt : ∀ (es : List (SKey × UVal)) (h w : Option Nat) (s : SurfModel.Serde.Size),
    (∀ x, h = some x → x < USIZE) → (∀ x, w = some x → x < USIZE) → sizeMapLoop es h w = some s →
    s.height < USIZE ∧ s.width < USIZE
  | [], h, w, s, hh, hw, e => by
    cases h <;> cases w <;> simp [sizeMapLoop] at e
    subst e; exact ⟨hh _ rfl, hw _ rfl⟩
  | (.height, v) :: rest, h, w, s, hh, hw, e => by
    simp only [sizeMapLoop] at e
    cases h with
    | some _ => simp at e
    | none =>
      cases hv : v.get? with
      | none => rw [hv] at e; simp at e
      | some n =>
        rw [hv] at e
        exact sizeMapLoop_lt rest (some n) w s (fun x hx => by injection hx with hx; subst hx; exact uval_get_lt hv) hw e
  | (.width, v) :: rest, h, w, s, hh, hw, e => by
    simp only [sizeMapLoop] at e
    cases w with
    | some _ => simp at e
    | none =>
      cases hv : v.get? with
      | none => rw [hv] at e; simp at e
      | some n =>
        rw [hv] at e
        exact sizeMapLoop_lt rest h (some n) s hh (fun x hx => by injection hx with hx; subst hx; exact uval_get_lt hv) e
  | (.other, _) :: rest, h, w, s, hh, hw, e => by
    simp only [sizeMapLoop] at e
    exact sizeMapLoop_lt rest h w s hh hw e

theorem sizeDe_lt {d : SizeDoc} {s : SurfModel.Serde.Size} (h : SurfModel.Serde.Size.de d = some s) : s.height < USIZE ∧ s.width < USIZE := by
  cases d with
  | map es => exact sizeMapLoop_lt es none none s (by simp) (by simp) h
  | seq items =>
    match items, h with
    | [a, b], h =>
      simp only [SurfModel.Serde.Size.de] at h
      cases ha : a.get? <;> cases hb : b.get? <;> rw [ha, hb] at h <;> simp at h
      subst h; exact ⟨uval_get_lt ha, uval_get_lt hb⟩
    | [], h => simp [SurfModel.Serde.Size.de] at h
    | [_], h => simp [SurfModel.Serde.Size.de] at h
    | _ :: _ :: _ :: _, h => simp [SurfModel.Serde.Size.de] at h
  | other => simp [SurfModel.Serde.Size.de] at h

/-- the entries `serde_json` hands over carry `usize` dimensions -/
def EntryOk : Entry → Prop
  | .size h w => h < USIZE ∧ w < USIZE
  | _ => True

theorem jsonEntry_ok (m : List UInt8 × Json) : EntryOk (Json.entry m) := by
  unfold Json.entry
  split
  · split <;> simp [EntryOk]
  · split
    · split
      · split <;> simp [EntryOk]
      · simp [EntryOk]
    · split
      · split
        · rename_i s hs; exact sizeDe_lt hs
        · simp [EntryOk]
      · simp [EntryOk]

def SizeOk (st : VSt) : Prop := ∀ s, st.size = some s → s.height < USIZE ∧ s.width < USIZE

theorem visitLoop_sizeOk (sched : Nat → List Nat) : ∀ (doc : List Entry) (st st' : VSt),
    (∀ e ∈ doc, EntryOk e) → SizeOk st → visitLoop sched doc st = .ok st' → SizeOk st'
  | [], st, st', _, hs, h => by simp only [visitLoop, Outcome.ok.injEq] at h; subst h; exact hs
  | e :: rest, st, st', hd, hs, h => by
    have hrest : ∀ x ∈ rest, EntryOk x := fun x hx => hd x (List.mem_cons_of_mem _ hx)
    cases e with
    | data text =>
      simp only [visitLoop] at h
      split at h
      · exact visitLoop_sizeOk sched rest _ st' hrest (by exact hs) h
      all_goals simp at h
    | channels n =>
      simp only [visitLoop] at h
      split at h
      · exact visitLoop_sizeOk sched rest _ st' hrest (by exact hs) h
      · simp at h
    | size hh ww =>
      simp only [visitLoop] at h
      refine visitLoop_sizeOk sched rest _ st' hrest ?_ h
      intro s hs'
      simp only [Option.some.injEq] at hs'
      subst hs'
      exact hd (.size hh ww) (by simp)
    | other => simp only [visitLoop] at h; exact visitLoop_sizeOk sched rest _ st' hrest hs h
    | bad => simp [visitLoop] at h

/-- the image a JSON value deserialises to has `usize` dimensions -/
theorem deImage_dims (sched : Nat → List Nat) (j : Json) (img : Image) (h : deImage sched j = .ok img) :
    img.shape.height < USIZE ∧ img.shape.width < USIZE := by
  cases j with
  | obj ms =>
    simp only [deImage, visit] at h
    cases hv : visitLoop sched (ms.map Json.entry) VSt.init with
    | ok st =>
      rw [hv] at h
      simp only at h
      have hch := visitLoop_channels sched _ VSt.init st (by simp [VSt.init]) hv
      have hso := visitLoop_sizeOk sched _ VSt.init st
        (by intro e he; rw [List.mem_map] at he; obtain ⟨m, _, rfl⟩ := he; exact jsonEntry_ok m)
        (by intro s hs; simp [VSt.init] at hs) hv
      rcases finishVisit_cases st hch with he | ⟨size, hsz, _, _, hok⟩
      · rw [he] at h; simp at h
      · rw [hok] at h
        simp only [Outcome.ok.injEq] at h
        subst h
        exact hso size hsz
    | err => rw [hv] at h; simp at h
    | panic => rw [hv] at h; simp at h
    | pending => rw [hv] at h; simp at h
  | _ => simp [deImage] at h

theorem deImageV_dims (ext : Ext) (j : JV) (p : Nat × Nat) (h : deImageV ext j = .ok p) : p.1 < USIZE ∧ p.2 < USIZE := by
  unfold deImageV at h
  cases hd : deImage ext.sched (imageJson j) with
  | ok img =>
    rw [hd] at h
    simp only [Except.ok.injEq] at h
    subst h
    exact deImage_dims ext.sched _ img hd
  | err => rw [hd] at h; simp at h
  | panic => rw [hd] at h; simp at h
  | pending => rw [hd] at h; simp at h

/-- the row count of the ascii view of an image with a `usize` height never overflows -/
theorem asciiRows_np {h : Nat} (hh : h < USIZE) : asciiRows h ≠ .error .panic := by
  unfold asciiRows add?
  have : h / 2 + h % 2 < USIZE := by omega
  simp [this]

/-! ## text -/

theorem foldl_np (recur : TState → JV → R TState) (hr : ∀ s x, recur s x ≠ .error .panic) :
    ∀ (l : List JV) (acc : R TState), acc ≠ .error .panic →
      l.foldl (fun acc x => match acc with | .ok s => recur s x | .error e => .error e) acc ≠ .error .panic := by
  intro l
  induction l with
  | nil => intro acc h; exact h
  | cons x r ih =>
    intro acc h
    simp only [List.foldl_cons]
    apply ih
    cases acc with
    | ok s => exact hr s x
    | error e => simpa using h

theorem collectStep_np (ext : Ext) (recur : TState → JV → R TState) (hr : ∀ s x, recur s x ≠ .error .panic)
    (st : TState) (j : JV) : collectStep ext recur st j ≠ .error .panic := by
  unfold collectStep
  split
  · simp
  · refine andThen_np ?_ (fun _ => ?_)
    · split
      · exact andThen_np (deFace_np ext _) (fun _ => by simp)
      · simp
    · simp only
      split
      · exact andThen_np (deGlyph_np ext _) (fun _ => by simp)
      · split
        · exact hr _ _
        · simp
  · exact foldl_np recur hr _ _ (by simp)
  · simp

theorem collectF_np (ext : Ext) : ∀ (n : Nat) (st : TState) (j : JV), collectF ext n st j ≠ .error .panic
  | 0, _, _ => by simp [collectF]
  | n + 1, st, j => by
    simp only [collectF]
    exact collectStep_np ext _ (fun s x => collectF_np ext n s x) st j

/-! ## views -/

theorem optField_np {α : Type} (value : JV) (k : List Char) (de : JV → R α) (d : α)
    (h : ∀ x, de x ≠ .error .panic) : optField value k de d ≠ .error .panic := by
  unfold optField; split
  · exact h _
  · simp

theorem viewMember_np (recur : JV → R V) (hr : ∀ x, recur x ≠ .error .panic) (value : JV) (k : List Char) :
    viewMember recur value k ≠ .error .panic := by
  unfold viewMember; split
  · exact hr _
  · simp

theorem flexChild_np (ext : Ext) (recur : JV → R V) (hr : ∀ x, recur x ≠ .error .panic) (value : JV) :
    flexChild ext recur value ≠ .error .panic := by
  unfold flexChild
  split
  · exact andThen_np (hr _) (fun _ => by simp)
  · refine andThen_np (optField_np _ _ _ _ (fun x => andThen_np (deF64_np x) (fun _ => by simp))) (fun _ => ?_)
    refine andThen_np (optField_np _ _ _ _ deAlign_np) (fun _ => ?_)
    refine andThen_np (optField_np _ _ _ _ (fun x => andThen_np (deFace_np ext x) (fun _ => by simp))) (fun _ => ?_)
    exact andThen_np (viewMember_np recur hr _ _) (fun _ => by simp)

theorem mapR_np {α β : Type} (f : α → R β) (hf : ∀ x, f x ≠ .error .panic) :
    ∀ l : List α, mapR f l ≠ .error .panic
  | [] => by simp [mapR]
  | x :: xs => by
    simp only [mapR]
    have h1 := hf x
    cases hx : f x with
    | error e => rw [hx] at h1; simpa using h1
    | ok y =>
      simp only
      have h2 := mapR_np f hf xs
      cases hm : mapR f xs with
      | ok ys => simp
      | error e => rw [hm] at h2; simpa using h2

theorem viewFlex_np (ext : Ext) (recur : JV → R V) (hr : ∀ x, recur x ≠ .error .panic) (value : JV) :
    viewFlex ext recur value ≠ .error .panic := by
  unfold viewFlex
  refine andThen_np (optField_np _ _ _ _ deAxis_np) (fun _ => ?_)
  refine andThen_np (optField_np _ _ _ _ deJustify_np) (fun _ => ?_)
  split
  · simp
  · exact andThen_np (mapR_np _ (flexChild_np ext recur hr) _) (fun _ => by simp)
  · simp

theorem viewContainer_np (ext : Ext) (recur : JV → R V) (hr : ∀ x, recur x ≠ .error .panic) (value : JV) :
    viewContainer ext recur value ≠ .error .panic := by
  unfold viewContainer
  refine andThen_np (optField_np _ _ _ _ (fun x => andThen_np (deFace_np ext x) (fun _ => by simp))) (fun _ => ?_)
  refine andThen_np (optField_np _ _ _ _ deAlign_np) (fun _ => ?_)
  refine andThen_np (optField_np _ _ _ _ deAlign_np) (fun _ => ?_)
  refine andThen_np (optField_np _ _ _ _ deMargins_np) (fun _ => ?_)
  refine andThen_np (optField_np _ _ _ _ deSizeV_np) (fun _ => ?_)
  exact andThen_np (viewMember_np recur hr _ _) (fun _ => by simp)

theorem viewTag_np (recur : JV → R V) (hr : ∀ x, recur x ≠ .error .panic) (value : JV) :
    viewTag recur value ≠ .error .panic := by
  unfold viewTag
  split
  · exact andThen_np (viewMember_np recur hr _ _) (fun _ => by simp)
  · simp

theorem viewStep_np (ext : Ext) (hs : Sufficient ext.sched) (recur : JV → R V)
    (hr : ∀ x, recur x ≠ .error .panic) (value : JV) : viewStep ext recur value ≠ .error .panic := by
  unfold viewStep
  split
  · split
    · exact andThen_np (collectF_np ext _ _ _) (fun _ => by simp)
    · split
      · exact viewMember_np recur hr _ _
      · split
        · exact viewFlex_np ext recur hr _
        · split
          · exact viewContainer_np ext recur hr _
          · split
            · exact andThen_np (deGlyph_np ext _) (fun _ => by simp)
            · split
              · exact andThen_np (deImageV_np ext hs _) (fun _ => by simp)
              · split
                · refine andThen_np' (deImageV_np ext hs _) (fun p hp => ?_)
                  exact andThen_np (asciiRows_np (deImageV_dims ext _ p hp).1) (fun _ => by simp)
                · split
                  · simp
                  · split
                    · exact viewTag_np recur hr _
                    · split
                      · split <;> simp
                      · simp
  · simp

theorem deViewF_np (ext : Ext) (hs : Sufficient ext.sched) : ∀ (n : Nat) (j : JV), deViewF ext n j ≠ .error .panic
  | 0, _ => by simp [deViewF]
  | n + 1, j => by
    simp only [deViewF]
    exact viewStep_np ext hs _ (fun x => deViewF_np ext hs n x) j

/-! ## fuel: the recursive calls are on values with fewer nodes -/

theorem size_pos (j : JV) : 1 ≤ j.size := by cases j <;> simp [JV.size] <;> omega

theorem getKey_size : ∀ (ms : List (List Char × JV)) (k : List Char) (v : JV), getKey ms k = some v →
    v.size < 1 + sizeMembers ms
  | [], _, _, h => by simp [getKey] at h
  | (k', v') :: r, k, v, h => by
    simp only [getKey] at h
    simp only [sizeMembers]
    cases hr : getKey r k with
    | some x =>
      rw [hr] at h; simp only [Option.some.injEq] at h; subst h
      have := getKey_size r k x hr; omega
    | none =>
      rw [hr] at h
      simp only at h
      split at h
      · simp only [Option.some.injEq] at h; subst h; omega
      · simp at h

theorem get_size {value v : JV} {k : List Char} (h : value.get k = some v) : v.size < value.size := by
  cases value with
  | obj ms => simp only [JV.get] at h; simp only [JV.size]; exact getKey_size ms k v h
  | _ => simp [JV.get] at h

theorem mem_sizeList : ∀ (xs : List JV) (x : JV), x ∈ xs → x.size < 1 + sizeList xs
  | [], _, h => by simp at h
  | y :: ys, x, h => by
    simp only [sizeList]
    rcases List.mem_cons.1 h with rfl | h'
    · omega
    · have := mem_sizeList ys x h'; omega

theorem andThen_congr {α β : Type} (r : R α) {f g : α → R β} (h : ∀ x, f x = g x) : andThen r f = andThen r g := by
  unfold andThen; cases r <;> simp [h]

theorem viewMember_congr {r1 r2 : JV → R V} {value : JV} (h : ∀ x, x.size < value.size → r1 x = r2 x) (k : List Char) :
    viewMember r1 value k = viewMember r2 value k := by
  unfold viewMember
  cases hg : value.get k with
  | none => rfl
  | some v => exact h v (get_size hg)

theorem flexChild_congr (ext : Ext) {r1 r2 : JV → R V} {value : JV} (h : ∀ x, x.size ≤ value.size → r1 x = r2 x) :
    flexChild ext r1 value = flexChild ext r2 value := by
  unfold flexChild
  rw [h value (Nat.le_refl _), viewMember_congr (fun x hx => h x (Nat.le_of_lt hx))]

theorem mapR_congr {α β : Type} {f g : α → R β} : ∀ (l : List α), (∀ x ∈ l, f x = g x) → mapR f l = mapR g l
  | [], _ => rfl
  | x :: xs, h => by
    simp only [mapR, h x (by simp), mapR_congr xs (fun y hy => h y (List.mem_cons_of_mem _ hy))]

theorem viewFlex_congr (ext : Ext) {r1 r2 : JV → R V} {value : JV} (h : ∀ x, x.size < value.size → r1 x = r2 x) :
    viewFlex ext r1 value = viewFlex ext r2 value := by
  unfold viewFlex
  apply andThen_congr; intro dir
  apply andThen_congr; intro justify
  cases hg : value.get "children".toList with
  | none => rfl
  | some c =>
    cases c with
    | arr values =>
      simp only
      have hs := get_size hg
      simp only [JV.size] at hs
      rw [mapR_congr values (fun x hx => flexChild_congr ext (fun y hy => h y (by
        have := mem_sizeList values x hx; omega)))]
    | _ => rfl

theorem viewContainer_congr (ext : Ext) {r1 r2 : JV → R V} {value : JV} (h : ∀ x, x.size < value.size → r1 x = r2 x) :
    viewContainer ext r1 value = viewContainer ext r2 value := by
  unfold viewContainer
  rw [viewMember_congr h]

theorem viewTag_congr {r1 r2 : JV → R V} {value : JV} (h : ∀ x, x.size < value.size → r1 x = r2 x) :
    viewTag r1 value = viewTag r2 value := by
  unfold viewTag
  rw [viewMember_congr h]

theorem viewStep_congr (ext : Ext) {r1 r2 : JV → R V} {value : JV} (h : ∀ x, x.size < value.size → r1 x = r2 x) :
    viewStep ext r1 value = viewStep ext r2 value := by
  unfold viewStep
  rw [viewMember_congr h, viewFlex_congr ext h, viewContainer_congr ext h, viewTag_congr h]

/-- more fuel than nodes never changes the answer -/
theorem deViewF_fuel (ext : Ext) : ∀ (n m : Nat) (j : JV), j.size ≤ n → j.size ≤ m → deViewF ext n j = deViewF ext m j
  | 0, _, j, h, _ => by have := size_pos j; omega
  | _, 0, j, _, h => by have := size_pos j; omega
  | n + 1, m + 1, j, hn, hm => by
    simp only [deViewF]
    exact viewStep_congr ext (fun x hx => deViewF_fuel ext n m x (by omega) (by omega))

theorem foldl_congr {r1 r2 : TState → JV → R TState} : ∀ (xs : List JV) (acc : R TState),
    (∀ s x, x ∈ xs → r1 s x = r2 s x) →
    xs.foldl (fun acc x => match acc with | .ok s => r1 s x | .error e => .error e) acc =
    xs.foldl (fun acc x => match acc with | .ok s => r2 s x | .error e => .error e) acc
  | [], _, _ => rfl
  | x :: xs, acc, h => by
    simp only [List.foldl_cons]
    have e : (match acc with | .ok s => r1 s x | .error e => .error e) =
        (match acc with | .ok s => r2 s x | .error e => .error e) := by
      cases acc with
      | ok s => exact h s x (by simp)
      | error e => rfl
    rw [e]
    exact foldl_congr xs _ (fun s y hy => h s y (List.mem_cons_of_mem _ hy))

theorem collectStep_congr (ext : Ext) {r1 r2 : TState → JV → R TState} (st : TState) (j : JV)
    (h : ∀ s x, x.size < j.size → r1 s x = r2 s x) : collectStep ext r1 st j = collectStep ext r2 st j := by
  cases j with
  | obj ms =>
    simp only [collectStep]
    apply andThen_congr; intro _
    cases hg : getKey ms "glyph".toList with
    | some g => rfl
    | none =>
      cases ht : getKey ms "text".toList with
      | none => rfl
      | some t =>
        exact h _ t (by simp only [JV.size]; exact getKey_size ms _ t ht)
  | arr xs =>
    simp only [collectStep]
    exact foldl_congr xs _ (fun s x hx => h s x (by simp only [JV.size]; exact mem_sizeList xs x hx))
  | _ => rfl

theorem collectF_fuel (ext : Ext) : ∀ (n m : Nat) (st : TState) (j : JV), j.size ≤ n → j.size ≤ m →
    collectF ext n st j = collectF ext m st j
  | 0, _, _, j, h, _ => by have := size_pos j; omega
  | _, 0, _, j, _, h => by have := size_pos j; omega
  | n + 1, m + 1, st, j, hn, hm => by
    simp only [collectF]
    exact collectStep_congr ext st j (fun s x hx => collectF_fuel ext n m s x (by omega) (by omega))

end SurfProofs.C19
