import SurfModel.Serde
import SurfProofs.Lemmas.KeyParse
import SurfProofs.Lemmas.Serde
import SurfProofs.Lemmas.Base64
import SurfProofs.C14
import SurfProofs.C07
/-!
# C19 — helper lemmas: `Size`, the image visitor of `SurfModel.Serde`
-/
namespace SurfProofs.C19
open SurfModel.Serde
open SurfModel.KeyParse (showNat parseUsizeLoop isAsciiDigit)
open SurfModel.Base64 (readAll Dec rfcEncode)
open SurfProofs.Lemmas.Base64 (TInv TInv_new psi ReadOk read_any readAll_no_panic)

/-! ## sizes -/

theorem size_serde (s : Size) (hh : s.height < USIZE) (hw : s.width < USIZE) : Size.de s.ser = some s := by
  simp [Size.de, Size.ser, sizeMapLoop, UVal.get?, hh, hw]

theorem splitOn2_no_sep {a b : Char} {s : List Char} (ha : a ∉ s) (hb : b ∉ s) : splitOn2 a b s = [s] := by
  induction s with
  | nil => rfl
  | cons c r ih =>
    simp only [List.mem_cons, not_or] at ha hb
    have hc : ¬ (c = a ∨ c = b) := by
      rintro (rfl | rfl)
      · exact ha.1 rfl
      · exact hb.1 rfl
    simp only [splitOn2, if_neg hc, ih ha.2 hb.2]

theorem splitOn2_append_sep (a b : Char) (x y : List Char) (ha : a ∉ x) (hb : b ∉ x) :
    splitOn2 a b (x ++ a :: y) = x :: splitOn2 a b y := by
  induction x with
  | nil => simp [splitOn2]
  | cons c r ih =>
    simp only [List.mem_cons, not_or] at ha hb
    have hc : ¬ (c = a ∨ c = b) := by
      rintro (rfl | rfl)
      · exact ha.1 rfl
      · exact hb.1 rfl
    simp only [List.cons_append, splitOn2, if_neg hc, ih ha.2 hb.2]

/-- a decimal digit is none of the characters the `Size` parser treats specially -/
def digitCh (c : Char) : Bool := isAsciiDigit c && !isWs c && c != ' ' && c != ',' && c != '+'

theorem digit_digitCh : ∀ d : Nat, d < 10 → digitCh (Char.ofNat (48 + d)) = true := by decide

theorem showNat_digitCh (n : Nat) : (showNat n).all digitCh = true :=
  SurfProofs.C18.showNat_all digitCh digit_digitCh n

theorem not_mem_of_all {p : Char → Bool} {s : List Char} (h : s.all p = true) (x : Char) (hx : p x = false) : x ∉ s := by
  intro hm
  have := List.all_eq_true.1 h x hm
  rw [hx] at this; exact absurd this (by simp)

theorem parseUsizeStr_showNat (n : Nat) (h : n < USIZE) : parseUsizeStr (trim (showNat n)) = some n := by
  have hd := showNat_digitCh n
  have hws : (showNat n).all (fun c => !isWs c) = true := by
    rw [List.all_eq_true] at hd ⊢
    intro c hc
    have := hd c hc
    simp only [digitCh, Bool.and_eq_true] at this
    exact this.1.1.1.2
  have hdig : (showNat n).all isAsciiDigit = true := by
    rw [List.all_eq_true] at hd ⊢
    intro c hc
    have := hd c hc
    simp only [digitCh, Bool.and_eq_true] at this
    exact this.1.1.1.1
  have hne := SurfProofs.C18.showNat_ne_nil n
  have hplus : ∀ r, showNat n ≠ '+' :: r := by
    intro r e
    have : '+' ∈ showNat n := by rw [e]; simp
    exact not_mem_of_all hd '+' (by decide) this
  have hparse := SurfProofs.C18.parseUsize_showNat (n := n) (by simp only [USIZE] at h; simp only [SurfModel.KeyParse.USIZE_MAX]; omega)
  unfold SurfModel.KeyParse.parseUsize at hparse
  have hemp : (showNat n).isEmpty = false := by cases hs : showNat n <;> simp_all
  rw [hemp] at hparse
  simp only [Bool.false_eq_true, if_false] at hparse
  rw [trim_id hws]
  unfold parseUsizeStr
  have hds : (match showNat n with | '+' :: r => r | _ => showNat n) = showNat n := by
    split
    · rename_i r e; exact absurd e (hplus r)
    · rfl
  simp only [hemp, hdig, Bool.false_eq_true, if_false, if_true, hparse]

theorem size_text (s : Size) (hh : s.height < USIZE) (hw : s.width < USIZE) : parseSize (printSize s) = some s := by
  have h1 := showNat_digitCh s.height
  have h2 := showNat_digitCh s.width
  unfold parseSize printSize
  rw [splitOn2_append_sep ' ' ',' _ _ (not_mem_of_all h1 ' ' (by decide)) (not_mem_of_all h1 ',' (by decide)),
    splitOn2_no_sep (not_mem_of_all h2 ' ' (by decide)) (not_mem_of_all h2 ',' (by decide))]
  simp only [List.map_cons, List.map_nil, parseUsizeStr_showNat _ hh, parseUsizeStr_showNat _ hw]

/-! ## `read_to_end` through the base64 decoder -/

/-- a buffer schedule under which `read_to_end` reaches the end of every text: only non-empty buffers, more of
    them than the text has bytes (each non-empty `read` delivers at least one byte, ends, or fails) -/
def Sufficient (sched : Nat → List Nat) : Prop := ∀ n, (∀ s ∈ sched n, 0 < s) ∧ n < (sched n).length

theorem defaultSched_sufficient : Sufficient defaultSched := by
  intro n
  refine ⟨?_, by simp [defaultSched]⟩
  intro s hs
  simp only [defaultSched, List.mem_replicate] at hs
  omega

theorem rfcEncode_length_ge (d : List UInt8) : d.length ≤ (rfcEncode d).length := by
  fun_induction rfcEncode d <;> simp_all <;> omega

theorem sum_ge_length (l : List Nat) (h : ∀ s ∈ l, 0 < s) : l.length ≤ l.sum := by
  induction l with
  | nil => simp
  | cons x r ih =>
    have hx := h x (by simp)
    have := ih (fun s hs => h s (List.mem_cons_of_mem _ hs))
    simp only [List.length_cons, List.sum_cons]; omega

/-- reading the RFC 4648 text of `d` to the end gives `d` -/
theorem readToEnd_rfc (sizes : List Nat) (hpos : ∀ s ∈ sizes, 0 < s) (d : List UInt8) (hlen : d.length < sizes.length) :
    readAll (Dec.new (sliceReader (rfcEncode d))) sizes = .eof d := by
  have hsplit : sizes = sizes.take d.length ++ sizes.drop d.length := (List.take_append_drop _ _).symm
  have hdrop : (sizes.drop d.length).length ≠ 0 := by rw [List.length_drop]; omega
  cases hdr : sizes.drop d.length with
  | nil => rw [hdr] at hdrop; exact absurd rfl hdrop
  | cons s post =>
    have hs : 0 < s := hpos s (by
      have : s ∈ sizes.drop d.length := by rw [hdr]; simp
      exact List.mem_of_mem_drop this)
    have hpre : d.length ≤ (sizes.take d.length).sum := by
      have h1 := sum_ge_length (sizes.take d.length) (fun x hx => hpos x (List.mem_of_mem_take hx))
      rw [List.length_take] at h1
      omega
    rw [hsplit, hdr]
    exact SurfProofs.C14.C14_decode_all d [] 0 _ post s hs hpre

/-- with enough non-empty buffers the caller is never left without an answer -/
theorem readAll_not_pending (sizes : List Nat) : ∀ (d : Dec) (acc : List UInt8), TInv d →
    (∀ s ∈ sizes, 0 < s) → psi d < sizes.length → ∀ b, readAll d sizes acc ≠ .pending b := by
  induction sizes with
  | nil => intro d acc _ _ h; simp at h
  | cons n rest ih =>
    intro d acc hT hpos hlen b
    have hrd := read_any d n hT
    have hn : 0 < n := hpos n (by simp)
    unfold readAll
    revert hrd
    generalize SurfModel.Base64.read d n = res
    intro hrd
    cases res with
    | panic => exact absurd hrd id
    | err d' => simp
    | ok out d' =>
      simp only [ReadOk, List.length_nil, Nat.add_zero] at hrd
      obtain ⟨b1, _, b3, _, _⟩ := hrd
      simp only
      split
      · simp
      · rename_i hne
        have hout : 1 ≤ out.length := by
          cases out with
          | nil => exact absurd ⟨hn, rfl⟩ hne
          | cons x xs => simp
        refine ih d' _ b1 (fun s hs => hpos s (List.mem_cons_of_mem _ hs)) ?_ b
        simp only [List.length_cons] at hlen
        omega

/-! ## pixels -/

/-- grey bytes -/
def group1 : List UInt8 → List RGBA
  | v :: rest => ⟨v, v, v, 255⟩ :: group1 rest
  | [] => []
/-- RGB triples -/
def group3 : List UInt8 → List RGBA
  | r :: g :: b :: rest => ⟨r, g, b, 255⟩ :: group3 rest
  | _ => []
/-- RGBA quadruples -/
def group4 : List UInt8 → List RGBA
  | r :: g :: b :: a :: rest => ⟨r, g, b, a⟩ :: group4 rest
  | _ => []

/-- the documented meaning of the data of an image document: consecutive groups of `channels` bytes -/
def groupPixels (ch : Nat) (bytes : List UInt8) : List RGBA :=
  if ch = 1 then group1 bytes else if ch = 3 then group3 bytes else group4 bytes

theorem group4_bytes (px : List RGBA) : group4 (px.flatMap RGBA.bytes) = px := by
  induction px with
  | nil => rfl
  | cons p r ih => simp only [List.flatMap_cons, RGBA.bytes, List.cons_append, List.nil_append, group4, ih]

/-- pixel `i` read directly at its byte offset -/
def pxAt (ch : Nat) (data : List UInt8) (i : Nat) : RGBA :=
  if ch = 4 then ⟨(data[4 * i]?).getD 0, (data[4 * i + 1]?).getD 0, (data[4 * i + 2]?).getD 0, (data[4 * i + 3]?).getD 0⟩
  else if ch = 3 then ⟨(data[3 * i]?).getD 0, (data[3 * i + 1]?).getD 0, (data[3 * i + 2]?).getD 0, 255⟩
  else ⟨(data[i]?).getD 0, (data[i]?).getD 0, (data[i]?).getD 0, 255⟩

theorem map_pxAt1 (n : Nat) : ∀ data : List UInt8, data.length = n → (List.range n).map (pxAt 1 data) = group1 data := by
  induction n with
  | zero => intro data h; cases data <;> simp_all [group1]
  | succ n ih =>
    intro data h
    match data, h with
    | v :: rest, h =>
      rw [List.range_succ_eq_map, List.map_cons, List.map_map, group1, ← ih rest (by simpa using h)]
      congr 1

theorem map_pxAt3 (n : Nat) : ∀ data : List UInt8, data.length = 3 * n → (List.range n).map (pxAt 3 data) = group3 data := by
  induction n with
  | zero => intro data h; cases data <;> simp_all [group3]
  | succ n ih =>
    intro data h
    match data, h with
    | r :: g :: b :: rest, h =>
      rw [List.range_succ_eq_map, List.map_cons, List.map_map, group3,
        ← ih rest (by simp only [List.length_cons] at h; omega)]
      congr 1
    | [], h => simp at h
    | [_], h => simp at h; omega
    | [_, _], h => simp at h; omega

theorem map_pxAt4 (n : Nat) : ∀ data : List UInt8, data.length = 4 * n → (List.range n).map (pxAt 4 data) = group4 data := by
  induction n with
  | zero => intro data h; cases data <;> simp_all [group4]
  | succ n ih =>
    intro data h
    match data, h with
    | r :: g :: b :: a :: rest, h =>
      rw [List.range_succ_eq_map, List.map_cons, List.map_map, group4,
        ← ih rest (by simp only [List.length_cons] at h; omega)]
      congr 1
    | [], h => simp at h
    | [_], h => simp at h; omega
    | [_, _], h => simp at h; omega
    | [_, _, _], h => simp at h; omega

theorem map_pxAt (ch n : Nat) (hch : ch = 1 ∨ ch = 3 ∨ ch = 4) (data : List UInt8) (h : data.length = ch * n) :
    (List.range n).map (pxAt ch data) = groupPixels ch data := by
  rcases hch with rfl | rfl | rfl
  · simpa [groupPixels] using map_pxAt1 n data (by omega)
  · simpa [groupPixels] using map_pxAt3 n data h
  · simpa [groupPixels] using map_pxAt4 n data h

theorem getElem?_some_of_lt (data : List UInt8) (i : Nat) (h : i < data.length) : ∃ x, data[i]? = some x :=
  ⟨data[i], List.getElem?_eq_getElem h⟩

/-- inside the image no arithmetic of the pixel closures overflows and no index is out of bounds -/
theorem pixelAt_some (ch w : Nat) (data : List UInt8) (row col n : Nat) (hch : ch = 1 ∨ ch = 3 ∨ ch = 4)
    (hn : data.length = ch * n) (hfit : ch * n < USIZE) (hidx : row * w + col < n) :
    pixelAt ch w data row col = some (pxAt ch data (row * w + col)) := by
  have hU : USIZE = 2 ^ 64 := rfl
  have hrw : row * w < USIZE := by rcases hch with rfl | rfl | rfl <;> omega
  have hi : row * w + col < USIZE := by rcases hch with rfl | rfl | rfl <;> omega
  unfold pixelAt
  simp only [mul?, add?, hrw, hi, if_true]
  rcases hch with rfl | rfl | rfl
  · obtain ⟨x, hx⟩ := getElem?_some_of_lt data (row * w + col) (by omega)
    simp [byteAt, pxAt, hx]
  · have h0 : 3 * (row * w + col) < USIZE := by omega
    obtain ⟨x0, hx0⟩ := getElem?_some_of_lt data (3 * (row * w + col)) (by omega)
    obtain ⟨x1, hx1⟩ := getElem?_some_of_lt data (3 * (row * w + col) + 1) (by omega)
    obtain ⟨x2, hx2⟩ := getElem?_some_of_lt data (3 * (row * w + col) + 2) (by omega)
    have a1 : 3 * (row * w + col) + 1 < USIZE := by omega
    have a2 : 3 * (row * w + col) + 2 < USIZE := by omega
    simp [byteAt, pxAt, h0, a1, a2, hx0, hx1, hx2, Option.bind]
  · have h0 : 4 * (row * w + col) < USIZE := by omega
    obtain ⟨x0, hx0⟩ := getElem?_some_of_lt data (4 * (row * w + col)) (by omega)
    obtain ⟨x1, hx1⟩ := getElem?_some_of_lt data (4 * (row * w + col) + 1) (by omega)
    obtain ⟨x2, hx2⟩ := getElem?_some_of_lt data (4 * (row * w + col) + 2) (by omega)
    obtain ⟨x3, hx3⟩ := getElem?_some_of_lt data (4 * (row * w + col) + 3) (by omega)
    have a1 : 4 * (row * w + col) + 1 < USIZE := by omega
    have a2 : 4 * (row * w + col) + 2 < USIZE := by omega
    have a3 : 4 * (row * w + col) + 3 < USIZE := by omega
    simp [byteAt, pxAt, h0, a1, a2, a3, hx0, hx1, hx2, hx3, Option.bind]

theorem mapO_eq_some_map {α β : Type} (f : α → Option β) (g : α → β) (l : List α) (h : ∀ x ∈ l, f x = some (g x)) :
    mapO f l = some (l.map g) := by
  induction l with
  | nil => rfl
  | cons x r ih =>
    simp only [mapO, h x (by simp), ih (fun y hy => h y (List.mem_cons_of_mem _ hy)), List.map_cons]

theorem nested_range (h w : Nat) (g : Nat → β) :
    ((List.range h).map (fun r => (List.range w).map (fun c => g (r * w + c)))).flatten = (List.range (h * w)).map g := by
  induction h with
  | zero => simp
  | succ h ih =>
    rw [List.range_succ, List.map_append, List.flatten_append, ih, Nat.succ_mul, List.range_add, List.map_append]
    simp [Nat.add_comm]

/-- `new_with` over the pixel closures: no panic, and the pixels are the byte groups -/
theorem newWith_pixels (ch h w : Nat) (data : List UInt8) (hch : ch = 1 ∨ ch = 3 ∨ ch = 4)
    (hlen : data.length = ch * h * w) (hfit : ch * h * w < USIZE) :
    newWith h w (pixelAt ch w data) = some (groupPixels ch data) := by
  have hassoc : ch * h * w = ch * (h * w) := Nat.mul_assoc _ _ _
  rw [hassoc] at hlen hfit
  have hhw : h * w < USIZE := by
    have : h * w ≤ ch * (h * w) := Nat.le_mul_of_pos_left _ (by rcases hch with rfl | rfl | rfl <;> omega)
    omega
  unfold newWith
  simp only [mul?, hhw, if_true]
  by_cases hw0 : w = 0
  · subst hw0
    simp only [if_true, List.range_zero, mapO, Option.map_some, List.flatten_nil]
    rw [← map_pxAt ch 0 hch data (by simpa using hlen)]
    simp
  · simp only [if_neg hw0]
    have hrows : mapO (fun row => mapO (pixelAt ch w data row) (List.range w)) (List.range h)
        = some ((List.range h).map fun row => (List.range w).map fun col => pxAt ch data (row * w + col)) := by
      apply mapO_eq_some_map
      intro row hrow
      apply mapO_eq_some_map
      intro col hcol
      simp only [List.mem_range] at hrow hcol
      apply pixelAt_some ch w data row col (h * w) hch hlen hfit
      have : (row + 1) * w ≤ h * w := Nat.mul_le_mul_right w (by omega)
      rw [Nat.add_mul] at this
      omega
    rw [hrows, Option.map_some, nested_range h w (pxAt ch data), map_pxAt ch (h * w) hch data hlen]

/-! ## the visitor -/

theorem visitLoop_ne_panic (sched : Nat → List Nat) (doc : List Entry) : ∀ st, visitLoop sched doc st ≠ .panic := by
  induction doc with
  | nil => intro st; simp [visitLoop]
  | cons e rest ih =>
    intro st
    cases e with
    | data text =>
      simp only [visitLoop]
      have := readAll_no_panic (sched text.length) (Dec.new (sliceReader text)) [] (TInv_new _)
      split
      · exact ih _
      · simp
      · rename_i hp; exact absurd hp this
      · simp
    | channels n =>
      simp only [visitLoop]
      split
      · exact ih _
      · simp
    | size h w => exact ih _
    | other => exact ih _
    | bad => simp [visitLoop]

theorem visitLoop_ne_pending (sched : Nat → List Nat) (hs : Sufficient sched) (doc : List Entry) :
    ∀ st, visitLoop sched doc st ≠ .pending := by
  induction doc with
  | nil => intro st; simp [visitLoop]
  | cons e rest ih =>
    intro st
    cases e with
    | data text =>
      simp only [visitLoop]
      have := readAll_not_pending (sched text.length) (Dec.new (sliceReader text)) [] (TInv_new _) (hs text.length).1
        (by simpa [psi, Dec.new, sliceReader] using (hs text.length).2)
      split
      · exact ih _
      · simp
      · simp
      · rename_i b hp; exact absurd hp (this b)
    | channels n =>
      simp only [visitLoop]
      split
      · exact ih _
      · simp
    | size h w => exact ih _
    | other => exact ih _
    | bad => simp [visitLoop]

/-- the channel count the loop leaves is always one of the supported ones -/
theorem visitLoop_channels (sched : Nat → List Nat) (doc : List Entry) : ∀ st st',
    (st.channels = 1 ∨ st.channels = 3 ∨ st.channels = 4) → visitLoop sched doc st = .ok st' →
    (st'.channels = 1 ∨ st'.channels = 3 ∨ st'.channels = 4) := by
  induction doc with
  | nil => intro st st' h e; simp only [visitLoop, Outcome.ok.injEq] at e; subst e; exact h
  | cons e rest ih =>
    intro st st' h hv
    cases e with
    | data text =>
      simp only [visitLoop] at hv
      split at hv
      · refine ih _ st' ?_ hv; exact h
      all_goals simp at hv
    | channels n =>
      simp only [visitLoop] at hv
      split at hv
      · rename_i hn; refine ih _ st' ?_ hv; exact hn
      · simp at hv
    | size h' w' => simp only [visitLoop] at hv; refine ih _ st' ?_ hv; exact h
    | other => simp only [visitLoop] at hv; exact ih _ _ h hv
    | bad => simp [visitLoop] at hv

theorem finishVisit_cases (st : VSt) (hch : st.channels = 1 ∨ st.channels = 3 ∨ st.channels = 4) :
    finishVisit st = .err ∨ ∃ size, st.size = some size ∧
      st.data.length = st.channels * size.height * size.width ∧ st.channels * size.height * size.width < USIZE ∧
      finishVisit st = .ok ⟨groupPixels st.channels st.data, SurfModel.Shape.Shape.from size.height size.width⟩ := by
  unfold finishVisit
  cases hsz : st.size with
  | none => left; rfl
  | some size =>
    simp only
    by_cases hexp : some st.data.length = (mul? size.height size.width).bind (mul? · st.channels)
    · right
      refine ⟨size, rfl, ?_⟩
      have hcomm : size.height * size.width * st.channels = st.channels * size.height * size.width := by
        rw [Nat.mul_comm, Nat.mul_assoc]
      -- both products fit
      have h1 : st.channels * size.height * size.width < USIZE ∧
          st.data.length = st.channels * size.height * size.width := by
        unfold mul? at hexp
        by_cases a : size.height * size.width < USIZE
        · simp only [a, if_true, Option.bind_some] at hexp
          by_cases b : size.height * size.width * st.channels < USIZE
          · simp only [b, if_true, Option.some.injEq] at hexp
            rw [hcomm] at b hexp
            exact ⟨b, hexp⟩
          · simp [b] at hexp
        · simp [a] at hexp
      refine ⟨h1.2, h1.1, ?_⟩
      have hc' : st.channels = 4 ∨ st.channels = 3 ∨ st.channels = 1 := by omega
      rw [if_neg (by simpa using hexp), if_pos hc', newWith_pixels st.channels size.height size.width st.data hch h1.2 h1.1]
    · left; rw [if_pos hexp]

theorem visit_ne_panic (sched : Nat → List Nat) (doc : List Entry) : visit sched doc ≠ .panic := by
  unfold visit
  cases hv : visitLoop sched doc VSt.init with
  | ok st =>
    have hch := visitLoop_channels sched doc VSt.init st (by simp [VSt.init]) hv
    rcases finishVisit_cases st hch with h | ⟨_, _, _, _, h⟩ <;> simp [h]
  | err => simp
  | panic => exact absurd hv (visitLoop_ne_panic sched doc _)
  | pending => simp

theorem visit_ok_or_err (sched : Nat → List Nat) (hs : Sufficient sched) (doc : List Entry) :
    visit sched doc = .err ∨ ∃ img, visit sched doc = .ok img := by
  unfold visit
  cases hv : visitLoop sched doc VSt.init with
  | ok st =>
    have hch := visitLoop_channels sched doc VSt.init st (by simp [VSt.init]) hv
    rcases finishVisit_cases st hch with h | ⟨_, _, _, _, h⟩
    · left; simp [h]
    · right; exact ⟨_, h⟩
  | err => left; rfl
  | panic => exact absurd hv (visitLoop_ne_panic sched doc _)
  | pending => exact absurd hv (visitLoop_ne_pending sched hs doc _)

/-- a plain document: size, channels, data (RFC 4648 text of `bytes`) -/
theorem visit_channels (sched : Nat → List Nat) (hs : Sufficient sched) (ch h w : Nat) (bytes : List UInt8)
    (hch : ch = 1 ∨ ch = 3 ∨ ch = 4) (hlen : bytes.length = ch * h * w) (hfit : ch * h * w < USIZE) :
    ∃ img, visit sched [.size h w, .channels ch, .data (rfcEncode bytes)] = .ok img ∧
      img.shape = SurfModel.Shape.Shape.from h w ∧ img.data = groupPixels ch bytes := by
  have hread := readToEnd_rfc (sched (rfcEncode bytes).length) (hs _).1 bytes
    (Nat.lt_of_le_of_lt (rfcEncode_length_ge bytes) (hs _).2)
  have hloop : visitLoop sched [.size h w, .channels ch, .data (rfcEncode bytes)] VSt.init
      = .ok ⟨some ⟨h, w⟩, bytes, ch⟩ := by
    simp only [visitLoop, hch, if_true, hread, VSt.init, List.nil_append]
  refine ⟨⟨groupPixels ch bytes, SurfModel.Shape.Shape.from h w⟩, ?_, rfl, rfl⟩
  unfold visit
  rw [hloop]
  simp only
  rcases finishVisit_cases ⟨some ⟨h, w⟩, bytes, ch⟩ hch with he | ⟨size, hsz, _, _, hok⟩
  · -- the length check cannot fail
    exfalso
    unfold finishVisit at he
    simp only [mul?] at he
    have hcomm : h * w * ch = ch * h * w := by rw [Nat.mul_comm, Nat.mul_assoc]
    have a : h * w < USIZE := by
      have : h * w ≤ ch * (h * w) := Nat.le_mul_of_pos_left _ (by rcases hch with rfl | rfl | rfl <;> omega)
      rw [← Nat.mul_assoc] at this
      omega
    simp only [a, hcomm, hfit, hlen, if_true, Option.bind_some, ne_eq, not_true_eq_false, if_false] at he
    rw [if_pos (by omega), newWith_pixels ch h w bytes hch hlen hfit] at he
    simp at he
  · simp only [Option.some.injEq] at hsz
    subst hsz
    exact hok

/-! ## a view has no more cells than its parent (pigeonhole over the offsets the iterator hands out) -/

open SurfModel.Shape in
theorem length_filter_ne (a : Nat) : ∀ l : List Nat, l.Nodup → l.length ≤ (l.filter (fun y => y != a)).length + 1 := by
  intro l
  induction l with
  | nil => intro _; simp
  | cons x r ih =>
    intro h
    rw [List.nodup_cons] at h
    by_cases hx : x = a
    · subst hx
      have : r.filter (fun y => y != x) = r := by
        rw [List.filter_eq_self]
        intro y hy
        rw [bne_iff_ne]
        rintro rfl; exact h.1 hy
      rw [List.filter_cons]
      simp only [bne_self_eq_false, Bool.false_eq_true, if_false, this, List.length_cons]
      omega
    · have := ih h.2
      have hb : (x != a) = true := by rw [bne_iff_ne]; exact hx
      rw [List.filter_cons]
      simp only [hb, if_true, List.length_cons]
      omega

theorem nodup_bound : ∀ (n : Nat) (l : List Nat), l.Nodup → (∀ x ∈ l, x < n) → l.length ≤ n := by
  intro n
  induction n with
  | zero =>
    intro l _ h
    cases l with
    | nil => simp
    | cons x r => exact absurd (h x (by simp)) (by omega)
  | succ n ih =>
    intro l hn h
    have h1 := length_filter_ne n l hn
    have h2 : (l.filter (fun y => y != n)).Nodup := hn.sublist List.filter_sublist
    have h3 : ∀ x ∈ l.filter (fun y => y != n), x < n := by
      intro x hx
      rw [List.mem_filter, bne_iff_ne] at hx
      have := h x hx.1
      omega
    have := ih _ h2 h3
    omega

open SurfModel.Shape in
theorem iterGo_valid {α : Type} (sh : Shape) (data : List α) : ∀ (fuel idx : Nat) (res : List (Nat × α)),
    iterGo sh data fuel idx = some res → ∀ p ∈ res, data[p.1]? = some p.2 := by
  intro fuel
  induction fuel with
  | zero => intro idx res h; simp [iterGo] at h
  | succ fuel ih =>
    intro idx res h p hp
    simp only [iterGo] at h
    split at h
    · simp only [Option.some.injEq] at h; subst h; simp at hp
    · rename_i idx' x hnth
      cases hgo : iterGo sh data fuel idx' with
      | none => rw [hgo] at h; simp at h
      | some rest =>
        rw [hgo] at h
        simp only [Option.map_some, Option.some.injEq] at h
        subst h
        simp only [List.mem_cons] at hp
        rcases hp with rfl | hp
        · unfold iterNth at hnth
          simp only at hnth
          split at hnth
          · simp at hnth
          · split at hnth
            · simp only [Prod.mk.injEq, Option.some.injEq] at hnth
              obtain ⟨_, rfl⟩ := hnth
              assumption
            · simp at hnth
        · exact ih idx' rest hgo p hp

theorem flatMap_bytes_length (px : List RGBA) : (px.flatMap RGBA.bytes).length = 4 * px.length := by
  induction px with
  | nil => rfl
  | cons p r ih => simp only [List.flatMap_cons, List.length_append, ih, RGBA.bytes, List.length_cons, List.length_nil]; omega

open SurfModel.Shape in
/-- serialise a (cropped) image and deserialise the document -/
theorem image_roundtrip (sched : Nat → List Nat) (hs : Sufficient sched) (h w : Nat) (data : List RGBA) (ops : List Op)
    (hlen : data.length = h * w) (hroot : 4 * (h * w) < USIZE) :
    ∃ doc img, (Image.mk data (Shape.chain ops (Shape.from h w))).serialize = .ok doc ∧ visit sched doc = .ok img ∧
      img.shape = Shape.from (Shape.chain ops (Shape.from h w)).height (Shape.chain ops (Shape.from h w)).width ∧
      img.data = (specChain ops (reshape h w data)).flatten ∧
      ∀ r c, (get (Shape.chain ops (Shape.from h w)) data r c).map (·.2) = cellAt (specChain ops (reshape h w data)) r c := by
  have hbig : h * w < SurfModel.Shape.usizeMax := by
    have : USIZE = 2 ^ 64 := rfl
    simp only [SurfModel.Shape.usizeMax]; omega
  have H := SurfProofs.C07.C07_iter h w ops data (by omega) hbig
  dsimp only at H
  obtain ⟨hiter, _, hfst, hsnd, hIlen, hWlen, hnodup⟩ := H
  -- the view has at most as many cells as the image
  have hcells : (Shape.chain ops (Shape.from h w)).height * (Shape.chain ops (Shape.from h w)).width ≤ h * w := by
    rw [← hIlen]
    apply nodup_bound _ _ hnodup
    intro x hx
    rw [← hfst, List.mem_map] at hx
    obtain ⟨p, hp, rfl⟩ := hx
    have hv := iterGo_valid _ data _ 0 _ hiter p hp
    have hlt : p.1 < data.length := by
      by_cases hc : p.1 < data.length
      · exact hc
      · rw [List.getElem?_eq_none (by omega)] at hv; simp at hv
    omega
  have hfit : 4 * (Shape.chain ops (Shape.from h w)).height * (Shape.chain ops (Shape.from h w)).width < USIZE := by
    rw [Nat.mul_assoc]; omega
  generalize hW : (specChain ops (reshape h w data)).flatten = W at *
  generalize hsh : Shape.chain ops (Shape.from h w) = sh at *
  have hbytes : ((List.zip (specChain ops (SurfProofs.C07.indexMatrix h w)).flatten W).map fun p => p.2.bytes)
      = W.map RGBA.bytes := by
    have e : ((List.zip (specChain ops (SurfProofs.C07.indexMatrix h w)).flatten W).map fun p => p.2.bytes)
        = ((List.zip (specChain ops (SurfProofs.C07.indexMatrix h w)).flatten W).map (fun x => x.2)).map RGBA.bytes := by
      rw [List.map_map]; rfl
    rw [e, hsnd]
  have henc := SurfProofs.C14.C14_encode (W.map RGBA.bytes)
  have hflat : (W.map RGBA.bytes).flatten = W.flatMap RGBA.bytes := by simp [List.flatMap]
  rw [hflat] at henc
  obtain ⟨img, hv, hshape, hdata⟩ := visit_channels sched hs 4 sh.height sh.width (W.flatMap RGBA.bytes)
    (by simp) (by rw [flatMap_bytes_length, hWlen]; exact (Nat.mul_assoc _ _ _).symm) hfit
  refine ⟨Image.doc sh.height sh.width (rfcEncode (W.flatMap RGBA.bytes)), img, ?_, hv, hshape, ?_, ?_⟩
  · simp only [Image.serialize, hiter, hbytes, henc]
  · rw [hdata]; simp [groupPixels, group4_bytes]
  · intro r c
    rw [← hsh]
    exact SurfProofs.C07.C07_window h w ops data (by omega) r c

end SurfProofs.C19
