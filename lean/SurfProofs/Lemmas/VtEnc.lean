import SurfModel.VtEnc
import SurfProofs.Lemmas.Vt
/-! The stateful encoder (`SurfModel/VtEnc.lean`) collapses to the pure `encode`:
machine arithmetic never leaves its range, the offsets of `Chunks` always delimit the chunks pushed,
a sequence of `write_all` calls is one `write_all` of the concatenation. -/
namespace SurfProofs.Lemmas.Vt
open SurfModel.Vt

/-! ### machine arithmetic stays in range -/

theorem usizeSatAdd_one (n : Nat) : usizeSatAdd n 1 = .ok (satSucc n) := by
  unfold usizeSatAdd asUsize satSucc
  split <;> simp <;> omega

theorem i32UnsignedAbs_ok (x : Int) (h1 : i32Min ≤ x) (h2 : x ≤ i32Max) : i32UnsignedAbs x = .ok x.natAbs := by
  unfold i32UnsignedAbs asU32 u32Max
  unfold i32Min at h1
  unfold i32Max at h2
  have : x.natAbs ≤ 2 ^ 32 - 1 := by omega
  simp [this]

theorem moveE_ok (n : Int) (p q : Nat) (h1 : i32Min ≤ n) (h2 : n ≤ i32Max) :
    moveE n p q = .ok (if n > 0 then csiB ++ showNat n.toNat ++ [p]
      else if n < 0 then csiB ++ showNat n.natAbs ++ [q] else []) := by
  unfold moveE
  rw [i32UnsignedAbs_ok n h1 h2]
  split
  · rfl
  · split <;> rfl

theorem colorChunksE_ok (c : Color) (d : Depth) (role : Role) :
    colorChunksE c d role = .ok (colorChunks c d role) := by
  cases d with
  | trueColor => rfl
  | eightBit => rfl
  | gray =>
    cases role <;> rcases hl : c.lvl with _ | _ | _ | n <;>
      simp [colorChunksE, colorChunks, hl, i32Add, i32Min, i32Max] <;> rfl

theorem optChunksE_ok (c : Option Color) (d : Depth) (role : Role) :
    optChunksE c d role = .ok (optChunks c d role) := by
  cases c
  · rfl
  · exact colorChunksE_ok _ _ _

theorem faceChunksE_ok (f : Face) (d : Depth) : faceChunksE f d = .ok (faceChunks f d) := by
  simp [faceChunksE, optChunksE_ok, faceChunks]

theorem faceModifyChunksE_ok (m : FaceModify) (d : Depth) :
    faceModifyChunksE m d = .ok (faceModifyChunks m d) := by
  rcases hu : m.underline with _ | _ | k <;> simp [faceModifyChunksE, optChunksE_ok, faceModifyChunks, hu]

theorem twoSuccE_ok (a b fin : Nat) :
    twoSuccE (fun n => usizeSatAdd n 1) a b fin
      = .ok (csiB ++ showNat (satSucc a) ++ [59] ++ showNat (satSucc b) ++ [fin]) := by
  simp [twoSuccE, usizeSatAdd_one]

/-- **no arithmetic panic**: with parameters that are values of their Rust types, every checked
operation of the encoder succeeds, and the bytes are those of the pure model -/
theorem bytesE_ok (caps : Caps) (cmd : Cmd) (h : InRange cmd) : bytesE caps cmd = .ok (encode caps cmd) := by
  cases cmd with
  | cursorTo row col =>
    simp [bytesE, bytesWith, twoSuccE_ok row col 72, encode]
  | cursorMove row col =>
    obtain ⟨⟨h1, h2⟩, ⟨h3, h4⟩⟩ := h
    simp [bytesE, bytesWith, moveE_ok col 67 68 h3 h4, moveE_ok row 66 65 h1 h2, encode]
  | scroll n =>
    obtain ⟨h1, h2⟩ := h
    simp only [bytesE, bytesWith, moveE_ok n 83 84 h1 h2, encode]
    by_cases a : n < 0
    · have : ¬ n > 0 := by omega
      simp [a, this]
    · by_cases b : n > 0 <;> simp [a, b]
  | scrollRegion start stop =>
    by_cases a : stop > start
    · simp [bytesE, bytesWith, a, twoSuccE_ok start stop 114, encode]
    · simp [bytesE, bytesWith, a, encode]
  | _ => rfl

/-! ### `Chunks`: offsets delimit exactly the chunks pushed -/

/-- end positions of the chunks in the buffer, the first chunk starting at `base` -/
def offsetsOf : Nat → List (List Nat) → List Nat
  | _, [] => []
  | base, c :: cs => (base + c.length) :: offsetsOf (base + c.length) cs

theorem pushAll_eq (buf offs : List Nat) (chunks : List (List Nat)) :
    RawChunks.pushAll ⟨buf, offs⟩ chunks = ⟨buf ++ chunks.flatten, offs ++ offsetsOf buf.length chunks⟩ := by
  induction chunks generalizing buf offs with
  | nil => simp [RawChunks.pushAll, offsetsOf]
  | cons c cs ih =>
    have := ih (buf ++ c) (offs ++ [(buf ++ c).length])
    simp only [RawChunks.pushAll, List.foldl_cons] at this ⊢
    simp only [RawChunks.push, RawChunks.write, RawChunks.mark]
    rw [this]
    simp [offsetsOf, List.append_assoc]

theorem pushAll_clear (st : RawChunks) (chunks : List (List Nat)) :
    st.clear.pushAll chunks = ⟨chunks.flatten, offsetsOf 0 chunks⟩ := by
  have := pushAll_eq [] [] chunks
  simpa [RawChunks.clear] using this

theorem slice_mid (pre c post : List Nat) :
    RawChunks.slice (pre ++ (c ++ post)) pre.length (pre.length + c.length) = .ok c := by
  unfold RawChunks.slice
  have h1 : pre.length ≤ pre.length + c.length ∧ pre.length + c.length ≤ (pre ++ (c ++ post)).length := by
    simp
  simp only [h1, and_self, if_true]
  simp

/-- **no slice panic**: iterating over a buffer built by pushes yields the chunks pushed -/
theorem iterFrom_ok (pre : List Nat) (chunks : List (List Nat)) :
    RawChunks.iterFrom (pre ++ chunks.flatten) pre.length (offsetsOf pre.length chunks) = .ok chunks := by
  induction chunks generalizing pre with
  | nil => simp [offsetsOf, RawChunks.iterFrom]
  | cons c cs ih =>
    simp only [offsetsOf, RawChunks.iterFrom, List.flatten_cons]
    rw [slice_mid pre c cs.flatten]
    have := ih (pre ++ c)
    simp only [List.length_append, List.append_assoc] at this
    simp only [this]

theorem iter_pushAll (st : RawChunks) (chunks : List (List Nat)) :
    (st.clear.pushAll chunks).iter = .ok chunks := by
  rw [pushAll_clear]
  have := iterFrom_ok [] chunks
  simpa [RawChunks.iter] using this

theorem isEmpty_pushAll (st : RawChunks) (chunks : List (List Nat)) :
    (st.clear.pushAll chunks).isEmpty = chunks.isEmpty := by
  rw [pushAll_clear]
  cases chunks <;> simp [RawChunks.isEmpty, offsetsOf]

/-! ### a sequence of `write_all` calls is one `write_all` -/

theorem writeAll_nil (w : Writer) : w.writeAll [] = (w, true) := by
  obtain ⟨out, room⟩ := w
  cases room <;> simp [Writer.writeAll]

theorem writeAll_append (w : Writer) (a b : List Nat) :
    w.writeAll (a ++ b) = (if (w.writeAll a).2 then (w.writeAll a).1.writeAll b else w.writeAll a) := by
  obtain ⟨out, room⟩ := w
  cases room with
  | none => simp [Writer.writeAll]
  | some k =>
    by_cases ha : a.length ≤ k
    · by_cases hb : b.length ≤ k - a.length
      · have hab : a.length + b.length ≤ k := by omega
        simp [Writer.writeAll, ha, hb, hab]
        omega
      · have hab : ¬ a.length + b.length ≤ k := by omega
        simp [Writer.writeAll, ha, hb, hab, List.take_append]
        rw [List.take_of_length_le ha]
    · have hab : ¬ a.length + b.length ≤ k := by omega
      have hk : k ≤ a.length := by omega
      simp [Writer.writeAll, ha, hab, List.take_append]
      omega

/-- what a writer with `room` has accepted of `bs` -/
def takeRoom (room : Option Nat) (bs : List Nat) : List Nat :=
  match room with | none => bs | some k => bs.take k

/-- the writer has room for `bs` -/
def fitsRoom (room : Option Nat) (bs : List Nat) : Bool :=
  match room with | none => true | some k => bs.length ≤ k

theorem writeAll_fresh (room : Option Nat) (bs : List Nat) :
    ((⟨[], room⟩ : Writer).writeAll bs).1.out = takeRoom room bs ∧
    ((⟨[], room⟩ : Writer).writeAll bs).2 = fitsRoom room bs := by
  cases room with
  | none => simp [Writer.writeAll, takeRoom, fitsRoom]
  | some k =>
    by_cases h : bs.length ≤ k
    · simp [Writer.writeAll, takeRoom, fitsRoom, h, List.take_of_length_le h]
    · simp [Writer.writeAll, takeRoom, fitsRoom, h]

/-- `;chunk;chunk…` -/
def sepJoin (chunks : List (List Nat)) : List Nat := chunks.flatMap fun c => 59 :: c

theorem joinSemi_cons (c : List Nat) (cs : List (List Nat)) : joinSemi (c :: cs) = c ++ sepJoin cs := by
  induction cs generalizing c with
  | nil => simp [joinSemi, sepJoin]
  | cons c2 cs2 ih =>
    show c ++ 59 :: joinSemi (c2 :: cs2) = _
    rw [ih c2]
    simp [sepJoin]

theorem drainGo_succ (w : Writer) (i : Nat) (chunks : List (List Nat)) :
    drainGo w (i + 1) chunks = w.writeAll (sepJoin chunks) := by
  induction chunks generalizing w i with
  | nil => simp [drainGo, sepJoin, writeAll_nil]
  | cons c cs ih =>
    have e : sepJoin (c :: cs) = [59] ++ (c ++ sepJoin cs) := by simp [sepJoin]
    rw [e, writeAll_append, writeAll_append]
    simp only [drainGo]
    have hi : (i + 1 != 0) = true := by simp
    simp only [hi, if_true]
    by_cases h1 : (w.writeAll [59]).2 = true
    · simp only [h1, Bool.not_true, Bool.false_eq_true, if_false, if_true]
      by_cases h2 : ((w.writeAll [59]).1.writeAll c).2 = true
      · simp only [h2, Bool.not_true, Bool.false_eq_true, if_false, if_true]
        exact ih _ _
      · simp [h2]
    · simp [h1]

theorem drainGo_zero (w : Writer) (chunks : List (List Nat)) :
    drainGo w 0 chunks = w.writeAll (joinSemi chunks) := by
  cases chunks with
  | nil => simp [drainGo, joinSemi, writeAll_nil]
  | cons c cs =>
    rw [joinSemi_cons, writeAll_append]
    simp only [drainGo]
    have h0 : ((0 : Nat) != 0) = false := by simp
    simp only [h0, Bool.false_eq_true, if_false, Bool.not_true]
    by_cases h2 : (w.writeAll c).2 = true
    · simp only [h2, Bool.not_true, Bool.false_eq_true, if_false, if_true]
      exact drainGo_succ _ 0 cs
    · simp [h2]

/-- the tail of the `Face` / `FaceModify` arms behaves, towards the writer, as ONE
`write_all(ESC [ chunks joined by ; m)`; when that succeeds the chunk buffer is left empty -/
theorem emitChunks_spec (st : RawChunks) (chunks : List (List Nat)) (w : Writer) :
    ∃ st', emitChunks (st.clear.pushAll chunks) w
        = .ok (st', (w.writeAll (csiB ++ joinSemi chunks ++ [109])).1,
                    (w.writeAll (csiB ++ joinSemi chunks ++ [109])).2) ∧
      ((w.writeAll (csiB ++ joinSemi chunks ++ [109])).2 = true → st' = RawChunks.empty) := by
  rw [List.append_assoc, writeAll_append, writeAll_append]
  unfold emitChunks
  by_cases h1 : (w.writeAll csiB).2 = true
  · simp only [h1, Bool.not_true, Bool.false_eq_true, if_false, if_true]
    simp only [drain, iter_pushAll, drainGo_zero]
    by_cases h2 : ((w.writeAll csiB).1.writeAll (joinSemi chunks)).2 = true
    · simp only [h2, if_true]
      exact ⟨_, rfl, fun _ => rfl⟩
    · simp only [h2, Bool.false_eq_true, if_false]
      refine ⟨_, rfl, ?_⟩
      intro h; simp at h
  · simp only [h1, Bool.not_false, if_true, Bool.false_eq_true, if_false]
    refine ⟨_, rfl, ?_⟩
    intro h; simp at h

/-- **one call.** Whatever chunk buffer earlier calls left behind (also calls whose writer failed in
the middle of `drain`), and whatever the writer: the call does not panic, and towards the writer it is
exactly one `write_all(encode caps cmd)` — all bytes and `Ok` if they fit, the longest prefix that
fits and `Err` otherwise.  After a successful `Face` / `FaceModify` the chunk buffer is empty; other
commands do not touch it. -/
theorem encodeSt_spec (caps : Caps) (st : RawChunks) (cmd : Cmd) (w : Writer) (h : InRange cmd) :
    ∃ st', encodeSt caps st cmd w
        = .ok (st', (w.writeAll (encode caps cmd)).1, (w.writeAll (encode caps cmd)).2) ∧
      ((w.writeAll (encode caps cmd)).2 = true →
        st' = match cmd with | .face _ | .faceModify _ => RawChunks.empty | _ => st) := by
  cases cmd with
  | face f =>
    simp only [encodeSt, faceChunksE_ok, encode]
    exact emitChunks_spec st (faceChunks f caps.depth) w
  | faceModify m =>
    simp only [encodeSt, faceModifyChunksE_ok, encode, isEmpty_pushAll]
    by_cases he : (faceModifyChunks m caps.depth).isEmpty = true
    · simp only [he, Bool.not_true, Bool.false_eq_true, if_false, if_true, writeAll_nil]
      refine ⟨_, rfl, ?_⟩
      intro _
      rw [pushAll_clear]
      have : faceModifyChunks m caps.depth = [] := by simpa using he
      simp [this, offsetsOf, RawChunks.empty]
    · simp only [he, Bool.not_false, if_true, Bool.false_eq_true, if_false]
      exact emitChunks_spec st (faceModifyChunks m caps.depth) w
  | _ => exact ⟨_, by simp [encodeSt, bytesE_ok _ _ h], fun _ => rfl⟩

/-- **a stream of calls on one encoder**, each to its own writer: no panic; the `i`-th writer receives
exactly what a fresh encoder would have written — independent of everything before -/
theorem encodeStream_spec (caps : Caps) (items : List (Cmd × Option Nat)) (h : ∀ i ∈ items, InRange i.1)
    (st : RawChunks) :
    ∃ st', encodeStream caps st items
      = .ok (st', items.map fun i => (takeRoom i.2 (encode caps i.1), fitsRoom i.2 (encode caps i.1))) := by
  induction items generalizing st with
  | nil => exact ⟨st, rfl⟩
  | cons i rest ih =>
    obtain ⟨cmd, room⟩ := i
    obtain ⟨st1, e1, _⟩ := encodeSt_spec caps st cmd ⟨[], room⟩ (h (cmd, room) (by simp))
    obtain ⟨st2, e2⟩ := ih (fun j hj => h j (by simp [hj])) st1
    refine ⟨st2, ?_⟩
    have hw := writeAll_fresh room (encode caps cmd)
    simp only [encodeStream, e1, e2, List.map_cons, hw.1, hw.2]

/-- with writers that never fail, an encoder that starts with an empty chunk buffer ends with one -/
theorem encodeStream_empty (caps : Caps) (cmds : List Cmd) (h : ∀ c ∈ cmds, InRange c) :
    encodeStream caps RawChunks.empty (cmds.map fun c => (c, none))
      = .ok (RawChunks.empty, cmds.map fun c => (encode caps c, true)) := by
  suffices hs : ∀ (cs : List Cmd), (∀ c ∈ cs, InRange c) →
      encodeStream caps RawChunks.empty (cs.map fun c => (c, none))
        = .ok (RawChunks.empty, cs.map fun c => (encode caps c, true)) from hs cmds h
  intro cs
  induction cs with
  | nil => intro _; rfl
  | cons c rest ih =>
    intro hc
    obtain ⟨st1, e1, hst⟩ := encodeSt_spec caps RawChunks.empty c ⟨[], none⟩ (hc c (by simp))
    have hw := writeAll_fresh none (encode caps c)
    have hok : ((⟨[], none⟩ : Writer).writeAll (encode caps c)).2 = true := by rw [hw.2]; rfl
    have hst1 : st1 = RawChunks.empty := by
      have := hst hok
      cases c <;> simpa using this
    subst hst1
    simp only [List.map_cons, encodeStream, e1, ih (fun x hx => hc x (by simp [hx])), hw.1, hw.2, takeRoom, fitsRoom]

/-! ### the pinned tree's arithmetic does panic (the `Except` model can express it) -/

example : pinnedBytesE ⟨.trueColor, false⟩ (.cursorTo usizeMax 0) = .error .addOverflow := rfl
example : pinnedBytesE ⟨.trueColor, false⟩ (.scrollRegion 0 usizeMax) = .error .addOverflow := rfl
example : pinnedBytesE ⟨.trueColor, false⟩ (.scroll (-2147483648)) = .error .negOverflow := rfl
example : pinnedBytesE ⟨.trueColor, false⟩ (.cursorMove 0 (-2147483648)) = .error .negOverflow := rfl

end SurfProofs.Lemmas.Vt
