import SurfProofs.Lemmas.ProtoNumeric
import SurfProofs.Lemmas.ProtoUtf8
/-! C04: bracketed paste, UTF-8 text, and the literal key table. -/
namespace SurfProofs.ProtoText
open SurfModel.Vt SurfModel.Sgr SurfModel.Grammar SurfModel.Payload SurfModel.Protocol SurfModel.Automata
open SurfProofs.Lemmas.Vt SurfProofs.Lemmas.Sgr SurfProofs.ReMatch SurfProofs.ProtoBasics SurfProofs.ProtoNumeric

/-! ## bracketed paste -/

theorem paste_print (t : List Nat) :
    print (.paste t) = [27, 91, 50, 48, 48, 126] ++ (t ++ [27, 91, 50, 48, 49, 126]) := by
  simp [print, CSI]

theorem paste_payload (t : List Nat) (h : (Msg.paste t).Valid) :
    decode .paste (print (.paste t)) = .ok (some (denote (.paste t))) := by
  have hs : slice? (print (.paste t)) 6 ((print (.paste t)).length - 6) = .ok t := by
    rw [paste_print]
    exact slice?_frame _ _ _ _ _ rfl (by simp; omega)
  simp only [decode]
  unfold decodePaste
  rw [sub?_ok _ _ (by rw [paste_print]; simp)]
  simp only [hs, (ProtoUtf8.textOk_facts t h).1, if_true, denote]

theorem notEsc_matches (t : List Nat) (h : 27 ∉ t ∧ ∀ b ∈ t, b < 256) : (Re.star notEsc).Matches (bytes t) := by
  apply star_pred_matches
  intro b hb
  have h1 : b ≠ 27 := fun e => h.1 (e ▸ hb)
  have h2 := h.2 b hb
  refine ⟨h2, ?_⟩
  by_cases hlt : b ≤ 26
  · exact ⟨(0, 26), by simp, by simpa using hlt⟩
  · exact ⟨(28, 255), by simp, by simp; omega⟩

theorem paste_member (t : List Nat) (h : (Msg.paste t).Valid) : pasteRe.Matches (bytes (print (.paste t))) := by
  have : bytes (print (.paste t)) =
      bytes [27, 91, 50, 48, 48, 126] ++ (bytes t ++ (bytes [27, 91, 50, 48, 49, 126] ++ [])) := by
    rw [paste_print]; simp [bytes]
  rw [this]
  exact seq_cons_matches (lit_matches _) (seq_cons_matches (notEsc_matches t (ProtoUtf8.textOk_facts t h).2)
    (seq_cons_matches (lit_matches _) seq_nil_matches))

/-! ## UTF-8 text -/

theorem scalar_lt (c : Nat) (h : isScalar c = true) : c < 0x110000 ∧ ¬ (0xD800 ≤ c ∧ c < 0xE000) := by
  unfold isScalar at h
  simp at h
  omega

/-- `utf8_decode` inverts the UTF-8 encoding of every scalar value -/
theorem utf8Decode_utf8 (c : Nat) (h : isScalar c = true) : utf8Decode (utf8 c) = .ok c := by
  obtain ⟨hlt, _⟩ := scalar_lt c h
  have key : ∀ x, x = c →
      (if isScalar x = true then (Except.ok x : Except Stop Nat) else Except.error Stop.panic) = Except.ok c := by
    intro x hx; subst hx; simp [h]
  unfold utf8
  by_cases h1 : c < 0x80
  · simp only [h1, if_true, utf8Decode, List.length_cons, List.length_nil, List.foldl_nil]
    apply key; omega
  by_cases h2 : c < 0x800
  · simp only [h1, h2, if_true, if_false, utf8Decode, List.length_cons, List.length_nil, List.foldl_cons,
      List.foldl_nil]
    apply key; omega
  by_cases h3 : c < 0x10000
  · simp only [h1, h2, h3, if_true, if_false, utf8Decode, List.length_cons, List.length_nil, List.foldl_cons,
      List.foldl_nil]
    apply key; omega
  · simp only [h1, h2, h3, if_false, utf8Decode, List.length_cons, List.length_nil, List.foldl_cons,
      List.foldl_nil]
    apply key; omega

theorem text_payload (c : Nat) (h : (Msg.text c).Valid) :
    decode .utf8 (print (.text c)) = .ok (some (denote (.text c))) := by
  simp only [decode, print, denote]
  unfold decodeUtf8
  rw [utf8Decode_utf8 c ((ProtoUtf8.scalar_iff c).mp h.1)]

theorem range_matches (lo hi b : Nat) (hlo : lo < 256) (hhi : hi < 256) (h : lo ≤ b ∧ b ≤ hi) :
    (range lo hi).Matches (bytes [b]) := by
  apply pred_matches _ b (by omega)
  refine ⟨(UInt8.ofNat lo, UInt8.ofNat hi), by simp, ?_⟩
  simp [Nat.mod_eq_of_lt hlo, Nat.mod_eq_of_lt hhi]
  exact h

theorem tail_matches (b : Nat) (h : 0x80 ≤ b ∧ b ≤ 0xbf) : utf8Tail.Matches (bytes [b]) :=
  range_matches 0x80 0xbf b (by omega) (by omega) h

theorem seq2 {a b : Re} {u v : List UInt8} (h1 : a.Matches u) (h2 : b.Matches v) :
    (Re.seq [a, b]).Matches (u ++ v) := by
  have := seq_cons_matches h1 (seq_cons_matches h2 seq_nil_matches)
  simpa using this

theorem text_member (c : Nat) (h : (Msg.text c).Valid) : utf8PrintableRe.Matches (bytes (print (.text c))) := by
  obtain ⟨hs, h32, h127⟩ := h
  obtain ⟨hlt, hsur⟩ := scalar_lt c ((ProtoUtf8.scalar_iff c).mp hs)
  simp only [print]
  unfold utf8PrintableRe utf8Re utf8
  by_cases h1 : c < 0x80
  · simp only [h1, if_true]
    refine Re.Matches.alt (e := .pred [(32, 126)]) (by simp) ?_
    exact pred_matches _ c (by omega) ⟨(32, 126), by simp, by simp; omega⟩
  by_cases h2 : c < 0x800
  · simp only [h1, h2, if_true, if_false]
    refine Re.Matches.alt (e := .seq [range 0xc2 0xdf, utf8Tail]) (by simp) ?_
    have e : bytes [0xC0 + c / 64, 0x80 + c % 64] = bytes [0xC0 + c / 64] ++ bytes [0x80 + c % 64] := by simp [bytes]
    rw [e]
    exact seq2 (range_matches _ _ _ (by omega) (by omega) (by omega)) (tail_matches _ (by omega))
  by_cases h3 : c < 0x10000
  · simp only [h1, h2, h3, if_true, if_false]
    have e : bytes [0xE0 + c / 4096, 0x80 + c / 64 % 64, 0x80 + c % 64] =
        (bytes [0xE0 + c / 4096] ++ bytes [0x80 + c / 64 % 64]) ++ bytes [0x80 + c % 64] := by simp [bytes]
    rw [e]
    by_cases k0 : c / 4096 = 0
    · refine Re.Matches.alt (e := .seq [.seq [range 0xe0 0xe0, range 0xa0 0xbf], utf8Tail]) (by simp) ?_
      exact seq2 (seq2 (range_matches _ _ _ (by omega) (by omega) (by omega))
        (range_matches _ _ _ (by omega) (by omega) (by omega))) (tail_matches _ (by omega))
    by_cases k1 : c / 4096 ≤ 12
    · refine Re.Matches.alt (e := .seq [.seq [range 0xe1 0xec, utf8Tail], utf8Tail]) (by simp) ?_
      exact seq2 (seq2 (range_matches _ _ _ (by omega) (by omega) (by omega)) (tail_matches _ (by omega)))
        (tail_matches _ (by omega))
    by_cases k2 : c / 4096 = 13
    · refine Re.Matches.alt (e := .seq [.seq [range 0xed 0xed, range 0x80 0x9f], utf8Tail]) (by simp) ?_
      exact seq2 (seq2 (range_matches _ _ _ (by omega) (by omega) (by omega))
        (range_matches _ _ _ (by omega) (by omega) (by omega))) (tail_matches _ (by omega))
    · refine Re.Matches.alt (e := .seq [.seq [range 0xee 0xef, utf8Tail], utf8Tail]) (by simp) ?_
      exact seq2 (seq2 (range_matches _ _ _ (by omega) (by omega) (by omega)) (tail_matches _ (by omega)))
        (tail_matches _ (by omega))
  · simp only [h1, h2, h3, if_false]
    have e : bytes [0xF0 + c / 262144, 0x80 + c / 4096 % 64, 0x80 + c / 64 % 64, 0x80 + c % 64] =
        ((bytes [0xF0 + c / 262144] ++ bytes [0x80 + c / 4096 % 64]) ++ bytes [0x80 + c / 64 % 64]) ++
          bytes [0x80 + c % 64] := by simp [bytes]
    rw [e]
    by_cases k0 : c / 262144 = 0
    · refine Re.Matches.alt
        (e := .seq [.seq [.seq [range 0xf0 0xf0, range 0x90 0xbf], utf8Tail], utf8Tail]) (by simp) ?_
      exact seq2 (seq2 (seq2 (range_matches _ _ _ (by omega) (by omega) (by omega))
        (range_matches _ _ _ (by omega) (by omega) (by omega))) (tail_matches _ (by omega))) (tail_matches _ (by omega))
    by_cases k1 : c / 262144 ≤ 3
    · refine Re.Matches.alt
        (e := .seq [.seq [.seq [range 0xf1 0xf3, utf8Tail], utf8Tail], utf8Tail]) (by simp) ?_
      exact seq2 (seq2 (seq2 (range_matches _ _ _ (by omega) (by omega) (by omega)) (tail_matches _ (by omega)))
        (tail_matches _ (by omega))) (tail_matches _ (by omega))
    · refine Re.Matches.alt
        (e := .seq [.seq [.seq [range 0xf4 0xf4, range 0x80 0x8f], utf8Tail], utf8Tail]) (by simp) ?_
      exact seq2 (seq2 (seq2 (range_matches _ _ _ (by omega) (by omega) (by omega))
        (range_matches _ _ _ (by omega) (by omega) (by omega))) (tail_matches _ (by omega))) (tail_matches _ (by omega))

end SurfProofs.ProtoText
