import SurfProofs.Lemmas.ProtoNumeric
import SurfProofs.Lemmas.ProtoUtf8
/-! C04, hex / key-value families: XTGETTCAP replies (success and failure form) and the kitty graphics
response. For each: the printed message is in the grammar of its family and the payload decoder returns the
denoted event. -/
namespace SurfProofs.ProtoTermcap
open SurfModel.Vt SurfModel.Sgr SurfModel.Grammar SurfModel.Payload SurfModel.Protocol SurfModel.Automata
open SurfProofs.Lemmas.Vt SurfProofs.Lemmas.Sgr SurfProofs.ReMatch SurfProofs.ProtoBasics SurfProofs.ProtoNumeric

/-! ## UTF-8: a well-formed string is its own lossy conversion -/

theorem utf8Lossy_valid_aux (n : Nat) : ∀ t : List Nat, t.length ≤ n → validUtf8 t = true → utf8Lossy t = t := by
  induction n with
  | zero =>
    intro t hl _
    cases t with
    | nil => rw [utf8Lossy]
    | cons b rest => simp at hl
  | succ n ih =>
    intro t hl hv
    cases t with
    | nil => rw [utf8Lossy]
    | cons b rest =>
      rw [validUtf8] at hv
      simp only [Bool.and_eq_true] at hv
      obtain ⟨h1, h2⟩ := hv
      have hpos := utf8Head_pos b rest
      have hrec := ih (rest.drop ((utf8Head b rest).2 - 1)) (by
        simp only [List.length_drop, List.length_cons] at hl ⊢; omega) h2
      rw [utf8Lossy]
      simp only [h1, if_true, hrec]
      have e : (utf8Head b rest).2 - 1 + 1 = (utf8Head b rest).2 := by omega
      rw [← e, List.take_succ_cons]
      simp

theorem utf8Lossy_valid (t : List Nat) (h : validUtf8 t = true) : utf8Lossy t = t :=
  utf8Lossy_valid_aux t.length t (Nat.le_refl _) h

/-! ## `splitn2` -/

theorem splitn2_append_sep (sep : Nat) (a b : List Nat) (h : sep ∉ a) :
    splitn2 sep (a ++ sep :: b) = (a, some b) := by
  induction a with
  | nil => simp [splitn2]
  | cons x xs ih =>
    have hx : x ≠ sep := fun e => h (by simp [e])
    have := ih (fun hm => h (by simp [hm]))
    simp [splitn2, hx, this]

theorem splitn2_no_sep (sep : Nat) (a : List Nat) (h : sep ∉ a) : splitn2 sep a = (a, none) := by
  induction a with
  | nil => simp [splitn2]
  | cons x xs ih =>
    have hx : x ≠ sep := fun e => h (by simp [e])
    have := ih (fun hm => h (by simp [hm]))
    simp [splitn2, hx, this]

/-! ## hexadecimal strings -/

theorem hexVal_hexDigit (d : Nat) (h : d < 16) : hexVal? (hexDigit d) = some d := by
  unfold hexVal? hexDigit
  by_cases h10 : d < 10
  · have h1 : ¬ (65 ≤ 48 + d ∧ 48 + d ≤ 70) := by omega
    have h2 : ¬ (97 ≤ 48 + d ∧ 48 + d ≤ 102) := by omega
    have h3 : 48 ≤ 48 + d ∧ 48 + d ≤ 57 := by omega
    simp [h10, h1, h2, h3]
  · have h1 : ¬ (65 ≤ 87 + d ∧ 87 + d ≤ 70) := by omega
    have h2 : 97 ≤ 87 + d ∧ 87 + d ≤ 102 := by omega
    rw [if_neg h10, if_neg h1, if_pos h2]
    congr 1; omega

theorem hexVal_hexDigitUpper (d : Nat) (h : d < 16) : hexVal? (hexDigitUpper d) = some d := by
  unfold hexVal? hexDigitUpper
  by_cases h10 : d < 10
  · have h1 : ¬ (65 ≤ 48 + d ∧ 48 + d ≤ 70) := by omega
    have h2 : ¬ (97 ≤ 48 + d ∧ 48 + d ≤ 102) := by omega
    have h3 : 48 ≤ 48 + d ∧ 48 + d ≤ 57 := by omega
    simp [h10, h1, h2, h3]
  · have h1 : 65 ≤ 55 + d ∧ 55 + d ≤ 70 := by omega
    rw [if_neg h10, if_pos h1]
    congr 1; omega

/-- a hex digit (either case) is an ASCII hex digit byte -/
def IsHex (b : Nat) : Prop := (48 ≤ b ∧ b ≤ 57) ∨ (65 ≤ b ∧ b ≤ 70) ∨ (97 ≤ b ∧ b ≤ 102)

theorem hexDigit_isHex (d : Nat) (h : d < 16) : IsHex (hexDigit d) := by
  unfold IsHex hexDigit; split <;> omega

theorem hexDigitUpper_isHex (d : Nat) (h : d < 16) : IsHex (hexDigitUpper d) := by
  unfold IsHex hexDigitUpper; split <;> omega

/-- the two digits of a byte -/
theorem hexByte_eq (upper : Bool) (b : Nat) (hb : b < 256) :
    ∃ x y, hexByte upper b = [x, y] ∧ IsHex x ∧ IsHex y ∧ hexVal? x = some (b / 16) ∧ hexVal? y = some (b % 16) := by
  have h1 : b / 16 < 16 := by omega
  have h2 : b % 16 < 16 := by omega
  cases upper with
  | true =>
    exact ⟨_, _, by simp [hexByte], hexDigitUpper_isHex _ h1, hexDigitUpper_isHex _ h2,
      hexVal_hexDigitUpper _ h1, hexVal_hexDigitUpper _ h2⟩
  | false =>
    exact ⟨_, _, by simp [hexByte, hex2], hexDigit_isHex _ h1, hexDigit_isHex _ h2,
      hexVal_hexDigit _ h1, hexVal_hexDigit _ h2⟩

theorem hexString_cons (upper : Bool) (b : Nat) (s : List Nat) :
    hexString upper (b :: s) = hexByte upper b ++ hexString upper s := by simp [hexString]

theorem hexString_nil (upper : Bool) : hexString upper [] = [] := rfl

theorem hexDecode_hexString (upper : Bool) (s : List Nat) (h : ∀ b ∈ s, b < 256) :
    hexDecode (hexString upper s) = .ok s := by
  induction s with
  | nil => simp [hexString, hexDecode]
  | cons b rest ih =>
    obtain ⟨x, y, he, _, _, hx, hy⟩ := hexByte_eq upper b (h b (by simp))
    have := ih (fun c hc => h c (by simp [hc]))
    rw [hexString_cons, he]
    simp only [List.cons_append, List.nil_append, hexDecode, hx, hy, this]
    congr 2; omega

theorem hexString_isHex (upper : Bool) (s : List Nat) (h : ∀ b ∈ s, b < 256) :
    ∀ c ∈ hexString upper s, IsHex c := by
  induction s with
  | nil => simp [hexString]
  | cons b rest ih =>
    obtain ⟨x, y, he, hx, hy, _, _⟩ := hexByte_eq upper b (h b (by simp))
    intro c hc
    rw [hexString_cons, he] at hc
    simp only [List.cons_append, List.nil_append, List.mem_cons] at hc
    rcases hc with rfl | rfl | hc
    · exact hx
    · exact hy
    · exact ih (fun c hc => h c (by simp [hc])) c hc

theorem hexString_no (sep : Nat) (hs : sep < 48 ∨ (57 < sep ∧ sep < 65)) (upper : Bool) (s : List Nat)
    (h : ∀ b ∈ s, b < 256) : sep ∉ hexString upper s := by
  intro hm
  have := hexString_isHex upper s h sep hm
  unfold IsHex at this
  omega

/-! ## joined lists and key=value lists -/

theorem splitBy_joinWith (sep : Nat) (chunks : List (List Nat)) (hne : chunks ≠ [])
    (h : ∀ c ∈ chunks, sep ∉ c) : splitBy sep (joinWith sep chunks) = chunks := by
  induction chunks with
  | nil => exact absurd rfl hne
  | cons c cs ih =>
    cases cs with
    | nil => simp [joinWith, splitBy_no_sep sep c (h c (by simp))]
    | cons c2 cs2 =>
      rw [joinWith, splitBy_append_sep sep c _ (h c (by simp)), ih (by simp) (fun x hx => h x (by simp [hx]))]
      · simp

theorem filterMap_map_self {α β : Type} (f : β → Option α) (g : α → β) (l : List α)
    (h : ∀ a ∈ l, f (g a) = some a) : (l.map g).filterMap f = l := by
  induction l with
  | nil => rfl
  | cons a rest ih =>
    simp only [List.map_cons, List.filterMap_cons, h a (by simp)]
    rw [ih (fun x hx => h x (by simp [hx]))]

theorem keyValueDecode_nil (sep : Nat) : keyValueDecode sep [] = [] := by
  simp [keyValueDecode, splitBy, splitn2]

theorem keyValueDecode_joinWith (sep : Nat) (pairs : List (List Nat × List Nat))
    (h : ∀ p ∈ pairs, sep ∉ p.1 ∧ 61 ∉ p.1 ∧ sep ∉ p.2) (hsep : sep ≠ 61) :
    keyValueDecode sep (joinWith sep (pairs.map fun p => p.1 ++ 61 :: p.2)) = pairs := by
  cases hp : pairs with
  | nil => simp [joinWith, keyValueDecode_nil]
  | cons p0 ps =>
    rw [← hp]
    unfold keyValueDecode
    rw [splitBy_joinWith sep _ (by simp [hp])]
    · apply filterMap_map_self
      intro p hpm
      simp [splitn2_append_sep 61 p.1 p.2 (h p hpm).2.1]
    · intro c hc
      obtain ⟨p, hpm, rfl⟩ := List.mem_map.mp hc
      obtain ⟨h1, _, h3⟩ := h p hpm
      simp only [List.mem_append, List.mem_cons, not_or]
      exact ⟨h1, hsep, h3⟩

/-! ## XTGETTCAP -/

theorem termcapNames_hex (upper : Bool) (names : List (List Nat)) (h : ∀ n ∈ names, ∀ b ∈ n, b < 256)
    (m : List (List Nat × Option (List Nat))) :
    termcapNames (names.map (hexString upper)) m = .ok (names.foldl (fun m n => mapInsert n none m) m) := by
  induction names generalizing m with
  | nil => simp [termcapNames]
  | cons n rest ih =>
    simp only [List.map_cons, termcapNames, hexDecode_hexString upper n (h n (by simp)), List.foldl_cons]
    exact ih (fun x hx => h x (by simp [hx])) _

theorem termcapPairs_hex (upper : Bool) (entries : List (List Nat × List Nat))
    (h : ∀ e ∈ entries, (∀ b ∈ e.1, b < 256) ∧ ∀ b ∈ e.2, b < 256)
    (m : List (List Nat × Option (List Nat))) :
    termcapPairs (entries.map fun e => (hexString upper e.1, hexString upper e.2)) m =
      .ok (entries.foldl (fun m e => mapInsert e.1 (some e.2) m) m) := by
  induction entries generalizing m with
  | nil => simp [termcapPairs]
  | cons e rest ih =>
    simp only [List.map_cons, termcapPairs, hexDecode_hexString upper e.1 (h e (by simp)).1,
      hexDecode_hexString upper e.2 (h e (by simp)).2, List.foldl_cons]
    exact ih (fun x hx => h x (by simp [hx])) _

theorem sep59hex : (59 : Nat) < 48 ∨ (57 < 59 ∧ 59 < 65) := by omega
theorem sep61hex : (61 : Nat) < 48 ∨ (57 < 61 ∧ 61 < 65) := by omega

def tcOkBody (entries : List (List Nat × List Nat)) (upper : Bool) : List Nat :=
  joinWith 59 ((entries.map fun e => (hexString upper e.1, hexString upper e.2)).map fun p => p.1 ++ 61 :: p.2)

theorem termcapOk_print (entries : List (List Nat × List Nat)) (upper : Bool) :
    print (.termcapOk entries upper) = [27, 80, 49, 43, 114] ++ (tcOkBody entries upper ++ [27, 92]) := by
  simp [print, tcOkBody, SurfModel.Protocol.ST, Function.comp_def]

theorem termcapOk_payload (entries : List (List Nat × List Nat)) (upper : Bool) (h : (Msg.termcapOk entries upper).Valid) :
    decode .termcap (print (.termcapOk entries upper)) = .ok (some (denote (.termcapOk entries upper))) := by
  have hv : ∀ e ∈ entries, e.1 ≠ [] ∧ e.2 ≠ [] ∧ (∀ b ∈ e.1, b < 256) ∧ ∀ b ∈ e.2, b < 256 := h
  have hs : slice? (print (.termcapOk entries upper)) 5 ((print (.termcapOk entries upper)).length - 2) =
      .ok (tcOkBody entries upper) := by
    rw [termcapOk_print]
    exact slice?_frame _ _ _ _ _ rfl (by simp; omega)
  have hi : index? (print (.termcapOk entries upper)) 2 = .ok 49 := by
    rw [termcapOk_print]; simp [index?]
  have hkv : keyValueDecode 59 (tcOkBody entries upper) =
      entries.map fun e => (hexString upper e.1, hexString upper e.2) := by
    unfold tcOkBody
    apply keyValueDecode_joinWith 59 _ _ (by omega)
    intro p hp
    obtain ⟨e, he, rfl⟩ := List.mem_map.mp hp
    obtain ⟨_, _, h1, h2⟩ := hv e he
    exact ⟨hexString_no 59 sep59hex upper e.1 h1, hexString_no 61 sep61hex upper e.1 h1,
      hexString_no 59 sep59hex upper e.2 h2⟩
  simp only [decode]
  unfold decodeTermcap
  rw [hi, sub?_ok _ _ (by rw [termcapOk_print]; simp)]
  simp only [hs, if_true, hkv]
  rw [termcapPairs_hex upper entries (fun e he => (hv e he).2.2)]
  simp [denote]

def tcFailBody (names : List (List Nat)) (upper : Bool) : List Nat := joinWith 59 (names.map (hexString upper))

theorem termcapFail_print (names : List (List Nat)) (upper : Bool) :
    print (.termcapFail names upper) = [27, 80, 48, 43, 114] ++ (tcFailBody names upper ++ [27, 92]) := by
  simp [print, tcFailBody, SurfModel.Protocol.ST]

theorem termcapFail_payload (names : List (List Nat)) (upper : Bool) (h : (Msg.termcapFail names upper).Valid) :
    decode .termcap (print (.termcapFail names upper)) = .ok (some (denote (.termcapFail names upper))) := by
  obtain ⟨hne, hv⟩ : names ≠ [] ∧ ∀ n ∈ names, n ≠ [] ∧ ∀ b ∈ n, b < 256 := h
  have hs : slice? (print (.termcapFail names upper)) 5 ((print (.termcapFail names upper)).length - 2) =
      .ok (tcFailBody names upper) := by
    rw [termcapFail_print]
    exact slice?_frame _ _ _ _ _ rfl (by simp; omega)
  have hi : index? (print (.termcapFail names upper)) 2 = .ok 48 := by
    rw [termcapFail_print]; simp [index?]
  have hsp : splitBy 59 (tcFailBody names upper) = names.map (hexString upper) := by
    unfold tcFailBody
    apply splitBy_joinWith 59 _ (by simp [hne])
    intro c hc
    obtain ⟨n, hn, rfl⟩ := List.mem_map.mp hc
    exact hexString_no 59 sep59hex upper n (hv n hn).2
  simp only [decode]
  unfold decodeTermcap
  rw [hi, sub?_ok _ _ (by rw [termcapFail_print]; simp)]
  have h48 : ¬ ((48 : Nat) = 49) := by omega
  simp only [hs, h48, if_false, hsp]
  rw [termcapNames_hex upper names (fun n hn => (hv n hn).2)]
  simp [denote]

/-! ## kitty graphics response -/

/-- an optional `key=number` field -/
def kOpt (key : Nat) : Option Nat → List (List Nat × List Nat)
  | some p => [([key], showNat p)]
  | none => []

def kTail (number placement : Option Nat) : List (List Nat × List Nat) := kOpt 73 number ++ kOpt 112 placement

def kPairs (id : Nat) (number placement : Option Nat) : List (List Nat × List Nat) :=
  ([105], showNat id) :: kTail number placement

def kHead (id : Nat) (number placement : Option Nat) : List Nat :=
  joinWith 44 ((kPairs id number placement).map fun p => p.1 ++ 61 :: p.2)

def kMsg : Option (List Nat) → List Nat
  | some msg => msg
  | none => [79, 75]

theorem kittyImage_print (id : Nat) (number placement : Option Nat) (error : Option (List Nat)) :
    print (.kittyImage id number placement error) =
      [27, 95, 71] ++ ((kHead id number placement ++ 59 :: kMsg error) ++ [27, 92]) := by
  cases number <;> cases placement <;> cases error <;>
    simp [print, kHead, kPairs, kTail, kOpt, kMsg, joinWith, SurfModel.Protocol.ST]

theorem kOpt_mem (key : Nat) (o : Option Nat) (p : List Nat × List Nat) (hp : p ∈ kOpt key o) :
    ∃ n, p = ([key], showNat n) := by
  cases o with
  | none => simp [kOpt] at hp
  | some n => simp only [kOpt, List.mem_cons, List.not_mem_nil, or_false] at hp; exact ⟨n, hp⟩

theorem kTail_mem (number placement : Option Nat) (p : List Nat × List Nat) (hp : p ∈ kTail number placement) :
    ∃ x n, p = ([x], showNat n) ∧ (x = 73 ∨ x = 112) := by
  unfold kTail at hp
  rcases List.mem_append.mp hp with hp | hp
  · obtain ⟨n, rfl⟩ := kOpt_mem _ _ _ hp; exact ⟨73, n, rfl, Or.inl rfl⟩
  · obtain ⟨n, rfl⟩ := kOpt_mem _ _ _ hp; exact ⟨112, n, rfl, Or.inr rfl⟩

theorem kPairs_mem (id : Nat) (number placement : Option Nat) (p : List Nat × List Nat)
    (hp : p ∈ kPairs id number placement) :
    ∃ x n, p = ([x], showNat n) ∧ (x = 105 ∨ x = 73 ∨ x = 112) := by
  unfold kPairs at hp
  rcases List.mem_cons.mp hp with rfl | hp
  · exact ⟨105, id, rfl, Or.inl rfl⟩
  · obtain ⟨x, n, rfl, hx⟩ := kTail_mem _ _ _ hp
    exact ⟨x, n, rfl, Or.inr hx⟩

theorem kHead_bytes (id : Nat) (number placement : Option Nat) (b : Nat) (hb : b ∈ kHead id number placement) :
    b = 44 ∨ b = 61 ∨ b = 105 ∨ b = 112 ∨ b = 73 ∨ (48 ≤ b ∧ b ≤ 57) := by
  unfold kHead at hb
  rcases joinWith_mem 44 _ b hb with h | ⟨c, hc, hbc⟩
  · exact Or.inl h
  · obtain ⟨p, hp, rfl⟩ := List.mem_map.mp hc
    obtain ⟨x, n, rfl, hx⟩ := kPairs_mem _ _ _ _ hp
    simp only [List.cons_append, List.nil_append, List.mem_cons] at hbc
    rcases hbc with hbc | hbc | hbc
    · omega
    · omega
    · have := showNat_digits n b hbc; omega

theorem kittyFields_kPairs (id : Nat) (number placement : Option Nat) (h1 : id ≤ usizeMax)
    (hn : ∀ n, number = some n → n ≤ usizeMax) (h2 : ∀ p, placement = some p → p ≤ usizeMax) :
    kittyFields (kPairs id number placement) 0 none = some (id, placement) := by
  cases number with
  | none =>
    cases placement with
    | none => simp [kPairs, kTail, kOpt, kittyFields, numberDecode_showNat_small id h1]
    | some p =>
      simp [kPairs, kTail, kOpt, kittyFields, numberDecode_showNat_small id h1,
        numberDecode_showNat_small p (h2 p rfl)]
  | some n =>
    cases placement with
    | none => simp [kPairs, kTail, kOpt, kittyFields, numberDecode_showNat_small id h1]
    | some p =>
      simp [kPairs, kTail, kOpt, kittyFields, numberDecode_showNat_small id h1,
        numberDecode_showNat_small p (h2 p rfl)]

theorem kittyImage_payload (id : Nat) (number placement : Option Nat) (error : Option (List Nat))
    (h : (Msg.kittyImage id number placement error).Valid) :
    decode .kittyImage (print (.kittyImage id number placement error)) =
      .ok (some (denote (.kittyImage id number placement error))) := by
  obtain ⟨h1, hn, h2, h3⟩ : id ≤ usizeMax ∧ (∀ n, number = some n → n ≤ usizeMax) ∧
      (∀ p, placement = some p → p ≤ usizeMax) ∧
      ∀ msg, error = some msg → TextOk msg ∧ msg ≠ [79, 75] := h
  have hs : slice? (print (.kittyImage id number placement error)) 3
      ((print (.kittyImage id number placement error)).length - 2) =
      .ok (kHead id number placement ++ 59 :: kMsg error) := by
    rw [kittyImage_print]
    exact slice?_frame _ _ _ _ _ rfl (by simp; omega)
  have h59 : 59 ∉ kHead id number placement := fun hm => by
    have := kHead_bytes id number placement 59 hm; omega
  have hkv : keyValueDecode 44 (kHead id number placement) = kPairs id number placement := by
    unfold kHead
    apply keyValueDecode_joinWith 44 _ _ (by omega)
    intro p hp
    have hno : ∀ n, 44 ∉ showNat n := fun n hm => by have := showNat_digits n 44 hm; omega
    obtain ⟨x, n, rfl, hx⟩ := kPairs_mem _ _ _ _ hp
    refine ⟨?_, ?_, hno n⟩ <;> simp <;> omega
  simp only [decode]
  unfold decodeKittyImage
  rw [sub?_ok _ _ (by rw [kittyImage_print]; simp)]
  simp only [hs, splitn2_append_sep 59 _ _ h59, hkv, kittyFields_kPairs id number placement h1 hn h2]
  cases error with
  | none => simp [kMsg, denote]
  | some msg =>
    obtain ⟨ht, hne⟩ := h3 msg rfl
    simp [kMsg, hne, denote, utf8Lossy_valid msg (SurfProofs.ProtoUtf8.textOk_facts msg ht).1]

/-! ## grammars -/

/-- `sep c₁ sep c₂ …` -/
def tailJoin (sep : Nat) (cs : List (List Nat)) : List Nat := cs.flatMap fun c => sep :: c

theorem joinWith_cons_tail (sep : Nat) (c : List Nat) (cs : List (List Nat)) :
    joinWith sep (c :: cs) = c ++ tailJoin sep cs := by
  induction cs generalizing c with
  | nil => simp [joinWith, tailJoin]
  | cons d ds ih =>
    rw [joinWith, ih d]
    · simp [tailJoin]
    · simp

theorem tailJoin_matches (sep : Nat) (e : Re) (cs : List (List Nat)) (h : ∀ c ∈ cs, e.Matches (bytes c)) :
    (Re.star (.seq [lit [sep], e])).Matches (bytes (tailJoin sep cs)) := by
  induction cs with
  | nil => exact Re.Matches.starNil
  | cons c rest ih =>
    have e1 : bytes (tailJoin sep (c :: rest)) = (bytes [sep] ++ (bytes c ++ [])) ++ bytes (tailJoin sep rest) := by
      simp [tailJoin, bytes]
    rw [e1]
    exact Re.Matches.starMore
      (seq_cons_matches (lit_matches _) (seq_cons_matches (h c (by simp)) seq_nil_matches))
      (ih (fun x hx => h x (by simp [hx])))

/-- `e (sep e)*` matches a non-empty `sep`-joined list of strings matched by `e` -/
theorem joined_matches (sep : Nat) (e : Re) (cs : List (List Nat)) (hne : cs ≠ [])
    (h : ∀ c ∈ cs, e.Matches (bytes c)) :
    (Re.seq [e, .star (.seq [lit [sep], e])]).Matches (bytes (joinWith sep cs)) := by
  cases cs with
  | nil => exact absurd rfl hne
  | cons c rest =>
    have e1 : bytes (joinWith sep (c :: rest)) = bytes c ++ (bytes (tailJoin sep rest) ++ []) := by
      rw [joinWith_cons_tail]; simp [bytes]
    rw [e1]
    exact seq_cons_matches (h c (by simp))
      (seq_cons_matches (tailJoin_matches sep e rest (fun x hx => h x (by simp [hx]))) seq_nil_matches)

theorem hexdigit_matches (x : Nat) (h : IsHex x) : hexdigit.Matches (bytes [x]) := by
  unfold IsHex at h
  apply pred_matches _ x (by omega)
  rcases h with h | h | h
  · exact ⟨(48, 57), by simp, by simpa using h⟩
  · exact ⟨(65, 70), by simp, by simpa using h⟩
  · exact ⟨(97, 102), by simp, by simpa using h⟩

theorem hexPair_matches (upper : Bool) (b : Nat) (hb : b < 256) : hexPair.Matches (bytes (hexByte upper b)) := by
  obtain ⟨x, y, he, hx, hy, _, _⟩ := hexByte_eq upper b hb
  have : bytes (hexByte upper b) = bytes [x] ++ (bytes [y] ++ []) := by rw [he]; simp [bytes]
  rw [this]
  exact seq_cons_matches (hexdigit_matches x hx) (seq_cons_matches (hexdigit_matches y hy) seq_nil_matches)

theorem hexString_matches (upper : Bool) (s : List Nat) (hne : s ≠ []) (h : ∀ b ∈ s, b < 256) :
    (Re.plus hexPair).Matches (bytes (hexString upper s)) := by
  induction s with
  | nil => exact absurd rfl hne
  | cons b rest ih =>
    have hb := hexPair_matches upper b (h b (by simp))
    cases rest with
    | nil =>
      have : hexString upper [b] = hexByte upper b := by simp [hexString]
      rw [this]
      exact Re.Matches.plusOne hb
    | cons c cs =>
      have := ih (by simp) (fun x hx => h x (by simp [hx]))
      rw [hexString_cons, bytes_append]
      exact Re.Matches.plusMore hb this

theorem termcapKV_matches (upper : Bool) (k v : List Nat) (hk : k ≠ []) (hv : v ≠ [])
    (hkb : ∀ b ∈ k, b < 256) (hvb : ∀ b ∈ v, b < 256) :
    termcapKV.Matches (bytes (hexString upper k ++ 61 :: hexString upper v)) := by
  have : bytes (hexString upper k ++ 61 :: hexString upper v) =
      bytes (hexString upper k) ++ (bytes [61] ++ (bytes (hexString upper v) ++ [])) := by simp [bytes]
  rw [this]
  exact seq_cons_matches (hexString_matches upper k hk hkb) (seq_cons_matches (lit_matches _)
    (seq_cons_matches (hexString_matches upper v hv hvb) seq_nil_matches))

theorem termcapOk_member (entries : List (List Nat × List Nat)) (upper : Bool) (h : (Msg.termcapOk entries upper).Valid) :
    termcapRe.Matches (bytes (print (.termcapOk entries upper))) := by
  have hv : ∀ e ∈ entries, e.1 ≠ [] ∧ e.2 ≠ [] ∧ (∀ b ∈ e.1, b < 256) ∧ ∀ b ∈ e.2, b < 256 := h
  have : bytes (print (.termcapOk entries upper)) =
      (bytes [27, 80, 49, 43, 114] ++ (bytes (tcOkBody entries upper) ++ [])) ++ (bytes [27, 92] ++ []) := by
    rw [termcapOk_print]; simp [bytes]
  rw [this]
  refine seq_cons_matches ?_ (seq_cons_matches (lit_matches _) seq_nil_matches)
  refine Re.Matches.alt
    (e := .seq [lit [27, 80, 49, 43, 114], .opt (.seq [termcapKV, .star (.seq [lit [59], termcapKV])])])
    (by simp) ?_
  refine seq_cons_matches (lit_matches _) (seq_cons_matches ?_ seq_nil_matches)
  cases hents : entries with
  | nil => simpa [tcOkBody, joinWith, bytes] using (Re.Matches.optNone)
  | cons e0 rest =>
    rw [← hents]
    apply Re.Matches.optSome
    unfold tcOkBody
    apply joined_matches 59 termcapKV _ (by simp [hents])
    intro c hc
    obtain ⟨p, hp, rfl⟩ := List.mem_map.mp hc
    obtain ⟨e, he, rfl⟩ := List.mem_map.mp hp
    obtain ⟨a1, a2, a3, a4⟩ := hv e he
    exact termcapKV_matches upper e.1 e.2 a1 a2 a3 a4

theorem termcapFail_member (names : List (List Nat)) (upper : Bool) (h : (Msg.termcapFail names upper).Valid) :
    termcapRe.Matches (bytes (print (.termcapFail names upper))) := by
  obtain ⟨hne, hv⟩ : names ≠ [] ∧ ∀ n ∈ names, n ≠ [] ∧ ∀ b ∈ n, b < 256 := h
  have : bytes (print (.termcapFail names upper)) =
      (bytes [27, 80, 48, 43, 114] ++ (bytes (tcFailBody names upper) ++ [])) ++ (bytes [27, 92] ++ []) := by
    rw [termcapFail_print]; simp [bytes]
  rw [this]
  refine seq_cons_matches ?_ (seq_cons_matches (lit_matches _) seq_nil_matches)
  refine Re.Matches.alt
    (e := .seq [lit [27, 80, 48, 43, 114], .opt (.seq [.plus hexPair, .star (.seq [lit [59], .plus hexPair])])])
    (by simp) ?_
  refine seq_cons_matches (lit_matches _) (seq_cons_matches ?_ seq_nil_matches)
  apply Re.Matches.optSome
  unfold tcFailBody
  apply joined_matches 59 (.plus hexPair) _ (by simp [hne])
  intro c hc
  obtain ⟨n, hn, rfl⟩ := List.mem_map.mp hc
  exact hexString_matches upper n (hv n hn).1 (hv n hn).2

theorem alnum_showNat (n : Nat) : (Re.plus alnum).Matches (bytes (showNat n)) := by
  apply plus_pred_matches _ _ (showNat_ne_nil n)
  intro b hb
  have := showNat_digits n b hb
  exact ⟨by omega, (48, 57), by simp, by simpa using this⟩

theorem alnum_letter (x : Nat) (h : (97 ≤ x ∧ x ≤ 122) ∨ (65 ≤ x ∧ x ≤ 90)) : (Re.plus alnum).Matches (bytes [x]) := by
  apply Re.Matches.plusOne
  apply pred_matches _ x (by omega)
  rcases h with h | h
  · exact ⟨(97, 122), by simp, by simpa using h⟩
  · exact ⟨(65, 90), by simp, by simpa using h⟩

theorem kittyKV_matches (x n : Nat) (h : (97 ≤ x ∧ x ≤ 122) ∨ (65 ≤ x ∧ x ≤ 90)) :
    kittyKV.Matches (bytes ([x] ++ 61 :: showNat n)) := by
  have : bytes ([x] ++ 61 :: showNat n) = bytes [x] ++ (bytes [61] ++ (bytes (showNat n) ++ [])) := by
    simp [bytes]
  rw [this]
  exact seq_cons_matches (alnum_letter x h) (seq_cons_matches (lit_matches _)
    (seq_cons_matches (alnum_showNat n) seq_nil_matches))

theorem kittyImage_member (id : Nat) (number placement : Option Nat) (error : Option (List Nat))
    (h : (Msg.kittyImage id number placement error).Valid) :
    kittyImageRe.Matches (bytes (print (.kittyImage id number placement error))) := by
  obtain ⟨_, _, _, h3⟩ : id ≤ usizeMax ∧ (∀ n, number = some n → n ≤ usizeMax) ∧
      (∀ p, placement = some p → p ≤ usizeMax) ∧
      ∀ msg, error = some msg → TextOk msg ∧ msg ≠ [79, 75] := h
  have hk : kHead id number placement =
      ([105] ++ 61 :: showNat id) ++ tailJoin 44 ((kTail number placement).map fun p => p.1 ++ 61 :: p.2) := by
    unfold kHead kPairs
    rw [List.map_cons, joinWith_cons_tail]
  have htl : (Re.star (.seq [lit [44], kittyKV])).Matches
      (bytes (tailJoin 44 ((kTail number placement).map fun p => p.1 ++ 61 :: p.2))) := by
    apply tailJoin_matches
    intro c hc
    obtain ⟨p, hp, rfl⟩ := List.mem_map.mp hc
    obtain ⟨x, n, rfl, hx⟩ := kTail_mem _ _ _ hp
    exact kittyKV_matches x n (by omega)
  have hmsg : (Re.star notEsc).Matches (bytes (kMsg error)) := by
    apply star_pred_matches
    intro b hb
    have hb' : b < 256 ∧ b ≠ 27 := by
      cases error with
      | none =>
        simp only [kMsg, List.mem_cons, List.not_mem_nil, or_false] at hb
        omega
      | some msg =>
        obtain ⟨_, h27, hlt⟩ := SurfProofs.ProtoUtf8.textOk_facts msg (h3 msg rfl).1
        exact ⟨hlt b hb, fun e => h27 (e ▸ hb)⟩
    refine ⟨hb'.1, ?_⟩
    by_cases hlo : b ≤ 26
    · exact ⟨(0, 26), by simp, by simpa using hlo⟩
    · exact ⟨(28, 255), by simp, by simp; omega⟩
  have : bytes (print (.kittyImage id number placement error)) =
      bytes [27, 95, 71] ++ (bytes ([105] ++ 61 :: showNat id) ++
        (bytes (tailJoin 44 ((kTail number placement).map fun p => p.1 ++ 61 :: p.2)) ++ (bytes [59] ++
          (bytes (kMsg error) ++ (bytes [27, 92] ++ []))))) := by
    rw [kittyImage_print, hk]; simp [bytes]
  rw [this]
  exact seq_cons_matches (lit_matches _) (seq_cons_matches (kittyKV_matches 105 id (by omega))
    (seq_cons_matches htl (seq_cons_matches (lit_matches _) (seq_cons_matches hmsg
      (seq_cons_matches (lit_matches _) seq_nil_matches)))))

end SurfProofs.ProtoTermcap
