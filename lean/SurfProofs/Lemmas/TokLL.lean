import SurfProofs.Lemmas.Tokenizer
import SurfProofs.Lemmas.TokSpec
/-!
Declarative statement of "leftmost-longest tokenisation" (`LL`), proof that the executable
specification `tokenize` satisfies it, and that it determines the items and the pending rest uniquely.
-/
namespace SurfModel.Tokenizer

variable {σ : Type}

set_option linter.unusedVariables false

/-- the automaton can read all of `w` -/
def Live (A : Auto σ) (w : List UInt8) : Prop := (runA A A.start w).isSome = true

/-- the automaton gets stuck on some prefix of `w` -/
def DiesWithin (A : Auto σ) (w : List UInt8) : Prop :=
  ∃ l, l < w.length ∧ runA A A.start (w.take (l + 1)) = none

/-- `LL A w items rest`: `items` followed by `rest` is the leftmost-longest tokenisation of the
received stream `w` with respect to the sequences recognised by `A`.

* `tok`: the item is the LONGEST non-empty prefix of the remaining input that `A` accepts (no longer prefix
  of the remaining input is accepted), it is emitted once this is decided — a longer candidate failed to
  complete (the automaton gets stuck within the remaining input) or the remaining input is itself a
  complete sequence (accepting state flagged terminal: the convention by which the code knows that nothing
  longer can come) — and the bytes after it are tokenised afresh.
* `raw`: no non-empty prefix of the remaining input is accepted and the automaton gets stuck within it;
  the item is the longest prefix that could be read, but at least one byte (the convention of the code for
  unrecognised input); the bytes after it are tokenised afresh.
* `pending`: nothing is left, or all of the remaining input can be read and is not a complete sequence:
  it may still be extended, no item is due.

Items are consecutive by construction: every item is `take` of the remaining input and the tokenisation
continues on the corresponding `drop`. -/
inductive LL (A : Auto σ) : List UInt8 → List (Item σ) → List UInt8 → Prop
  | pending (w : List UInt8) (h : w = [] ∨ (Live A w ∧ complete A w = false)) : LL A w [] w
  | tok (w : List UInt8) (n : Nat) (q : σ) (items : List (Item σ)) (rest : List UInt8)
      (hn0 : 0 < n) (hn : n ≤ w.length)
      (hrun : runA A A.start (w.take n) = some q) (hacc : A.accepting q = true)
      (hlongest : ∀ k, n < k → k ≤ w.length → ¬ AcceptedFrom A A.start (w.take k))
      (hdecided : DiesWithin A w ∨ complete A w = true)
      (hrest : LL A (w.drop n) items rest) : LL A w (.tok (w.take n) q :: items) rest
  | raw (w : List UInt8) (l : Nat) (items : List (Item σ)) (rest : List UInt8)
      (hnone : ∀ k, 0 < k → k ≤ w.length → ¬ AcceptedFrom A A.start (w.take k))
      (hl : l < w.length) (hlive : Live A (w.take l)) (hdead : runA A A.start (w.take (l + 1)) = none)
      (hrest : LL A (w.drop (max l 1)) items rest) : LL A w (.raw (w.take (max l 1)) :: items) rest

/-- consecutive: the bytes of the items in order followed by the pending rest are the stream -/
theorem LL_cover (A : Auto σ) (w : List UInt8) (items : List (Item σ)) (rest : List UInt8)
    (h : LL A w items rest) : items.flatMap Item.bytes ++ rest = w := by
  induction h with
  | pending w _ => simp
  | tok w n q items rest _ _ _ _ _ _ _ ih =>
    simp only [List.flatMap_cons, Item.bytes, List.append_assoc, ih, List.take_append_drop]
  | raw w l items rest _ _ _ _ _ ih =>
    simp only [List.flatMap_cons, Item.bytes, List.append_assoc, ih, List.take_append_drop]

theorem liveLen_lt_dies (A : Auto σ) (w : List UInt8) (h : liveLen A A.start w < w.length) : DiesWithin A w :=
  ⟨_, h, (liveLen_spec A A.start w).2 h⟩

/-- the executable specification satisfies the declarative one -/
theorem tokenize_LL (A : Auto σ) (w : List UInt8) : LL A w (tokenize A w).1 (tokenize A w).2 := by
  fun_induction tokenize A w with
  | case1 => exact LL.pending [] (Or.inl rfl)
  | case2 input hne hp =>
    refine LL.pending input (Or.inr ⟨?_, hp.2⟩)
    have := (liveLen_spec A A.start input).1
    rw [hp.1, List.take_length] at this
    exact this
  | case3 input hne hd n q hl r ih =>
    have hs := longestAcc_spec A A.start input
    rw [hl] at hs
    obtain ⟨h1, h2, h3, h4, h5⟩ := hs
    refine LL.tok input n q _ _ h1 h2 h3 h4 h5 ?_ ih
    by_cases hc : complete A input = true
    · exact Or.inr hc
    · left
      apply liveLen_lt_dies
      have hle := liveLen_le A A.start input
      rcases Nat.lt_or_eq_of_le hle with h | h
      · exact h
      · exact absurd ⟨h, by simpa using hc⟩ hd
  | case4 input hne hd hl m r ih =>
    have hs := longestAcc_spec A A.start input
    rw [hl] at hs
    have hpos : 0 < input.length := List.length_pos_iff.mpr hne
    have hlt : liveLen A A.start input < input.length := by
      have hle := liveLen_le A A.start input
      rcases Nat.lt_or_eq_of_le hle with h | h
      · exact h
      · exfalso
        -- the whole input would be live and (by `hd`) complete, hence accepted: but nothing is accepted
        have hc : complete A input = true := by
          by_cases hc : complete A input = true
          · exact hc
          · exact absurd ⟨h, by simpa using hc⟩ hd
        unfold complete at hc
        split at hc
        · rename_i q hq
          simp only [Bool.and_eq_true] at hc
          apply hs input.length hpos (Nat.le_refl _)
          rw [List.take_length]
          exact ⟨q, hq, hc.1⟩
        · cases hc
    have hsp := liveLen_spec A A.start input
    exact LL.raw input (liveLen A A.start input) _ _ hs hlt hsp.1 (hsp.2 hlt) ih

/-! ### uniqueness -/

theorem runA_none_append (A : Auto σ) (q : σ) (u v : List UInt8) (h : runA A q u = none) :
    runA A q (u ++ v) = none := by
  rw [runA_append, h]; rfl

theorem runA_take_mono (A : Auto σ) (q : σ) (w : List UInt8) (k k' : Nat) (hk : k ≤ k')
    (h : runA A q (w.take k) = none) : runA A q (w.take k') = none := by
  obtain ⟨d, rfl⟩ := Nat.exists_eq_add_of_le hk
  rw [List.take_add]
  exact runA_none_append A q _ _ h

theorem liveLen_unique (A : Auto σ) (w : List UInt8) (l : Nat) (hl : l < w.length)
    (hlive : Live A (w.take l)) (hdead : runA A A.start (w.take (l + 1)) = none) :
    liveLen A A.start w = l := by
  have hs := liveLen_spec A A.start w
  have hle := liveLen_le A A.start w
  rcases Nat.lt_trichotomy (liveLen A A.start w) l with h | h | h
  · exfalso
    have := runA_take_mono A A.start w _ l (by omega) (hs.2 (by omega))
    unfold Live at hlive
    rw [this] at hlive; cases hlive
  · exact h
  · exfalso
    have := runA_take_mono A A.start w _ (liveLen A A.start w) (by omega) hdead
    rw [this] at hs; cases hs.1

theorem dies_liveLen_lt (A : Auto σ) (w : List UInt8) (h : DiesWithin A w) : liveLen A A.start w < w.length := by
  obtain ⟨l, hl, hd⟩ := h
  have hs := liveLen_spec A A.start w
  have hle := liveLen_le A A.start w
  rcases Nat.lt_or_eq_of_le hle with h | h
  · exact h
  · exfalso
    have := runA_take_mono A A.start w _ (liveLen A A.start w) (by omega) hd
    rw [this] at hs; cases hs.1

theorem longestAcc_unique (A : Auto σ) (w : List UInt8) (n : Nat) (q : σ) (hn0 : 0 < n) (hn : n ≤ w.length)
    (hrun : runA A A.start (w.take n) = some q) (hacc : A.accepting q = true)
    (hlongest : ∀ k, n < k → k ≤ w.length → ¬ AcceptedFrom A A.start (w.take k)) :
    longestAcc A A.start w = some (n, q) := by
  have hs := longestAcc_spec A A.start w
  cases hl : longestAcc A A.start w with
  | none =>
    rw [hl] at hs
    exact absurd ⟨q, hrun, hacc⟩ (hs n hn0 hn)
  | some p =>
    obtain ⟨n', q'⟩ := p
    rw [hl] at hs
    obtain ⟨h1, h2, h3, h4, h5⟩ := hs
    rcases Nat.lt_trichotomy n' n with h | h | h
    · exact absurd ⟨q, hrun, hacc⟩ (h5 n h hn)
    · subst h
      rw [hrun] at h3; cases h3; rfl
    · exact absurd ⟨q', h3, h4⟩ (hlongest n' h h2)

/-- the declarative specification determines the items and the pending rest: they are `tokenize` -/
theorem LL_tokenize (A : Auto σ) (w : List UInt8) (items : List (Item σ)) (rest : List UInt8)
    (h : LL A w items rest) : tokenize A w = (items, rest) := by
  induction h with
  | pending w h =>
    rcases h with rfl | ⟨hl, hc⟩
    · exact tokenize_nil A
    · unfold Live at hl
      cases hr : runA A A.start w with
      | none => rw [hr] at hl; cases hl
      | some q => exact tokenize_pending A w (liveLen_of_run A _ _ _ hr) hc
  | tok w n q items rest hn0 hn hrun hacc hlongest hdecided _ ih =>
    have hne : w ≠ [] := by intro h; subst h; simp at hn; omega
    have hd : ¬ (liveLen A A.start w = w.length ∧ complete A w = false) := by
      intro ⟨h1, h2⟩
      rcases hdecided with hdd | hc
      · have := dies_liveLen_lt A w hdd; omega
      · rw [hc] at h2; cases h2
    rw [tokenize_tok A w n q hne hd (longestAcc_unique A w n q hn0 hn hrun hacc hlongest), ih]
  | raw w l items rest hnone hl hlive hdead _ ih =>
    have hne : w ≠ [] := by intro h; subst h; simp at hl
    have hll := liveLen_unique A w l hl hlive hdead
    have hd : ¬ (liveLen A A.start w = w.length ∧ complete A w = false) := by
      intro ⟨h1, _⟩; omega
    have hacc : longestAcc A A.start w = none := by
      have hs := longestAcc_spec A A.start w
      cases hla : longestAcc A A.start w with
      | none => rfl
      | some p =>
        obtain ⟨n', q'⟩ := p
        rw [hla] at hs
        obtain ⟨h1, h2, h3, h4, _⟩ := hs
        exact absurd ⟨q', h3, h4⟩ (hnone n' h1 h2)
    rw [tokenize_raw A w hne hd hacc, hll, ih]

end SurfModel.Tokenizer
