import SurfModel.Kitty
/-!
`SurfaceIter` (flat index, `Shape::nth`, `data.get`) yields the pixels row by row — for well-formed images.
-/
namespace SurfProofs.Lemmas.KittyIter
open SurfModel.Kitty SurfModel.KittySpec

/-- Images that the crate's constructors produce (`Image::new`, `From<SurfaceOwned>`, `crop`, views and
transposed views of those): every pixel of the shape lies inside the buffer, and `Surface::is_empty`
(`start ≥ end`) says the same as `width = 0 ∨ height = 0`. -/
structure WF (img : Image) : Prop where
  inb : ∀ row col, row < img.shape.height → col < img.shape.width → img.shape.offset row col < img.data.size
  empty_iff : img.isEmpty = true ↔ (img.shape.width = 0 ∨ img.shape.height = 0)

/-- pixel with flat row-major index `j` -/
def flat (img : Image) (j : Nat) : RGBA := img.pixel (j / img.shape.width) (j % img.shape.width)

theorem iterGo_eq (img : Image) (wf : WF img) :
    ∀ k index, index + k = img.shape.width * img.shape.height →
      img.iterGo k index = (List.range k).map (fun i => flat img (index + i)) := by
  intro k
  induction k with
  | zero => intro index _; simp [Image.iterGo]
  | succ k ih =>
    intro index hk
    have hw : 0 < img.shape.width := by
      rcases Nat.eq_zero_or_pos img.shape.width with h | h
      · rw [h] at hk; omega
      · exact h
    have hlt : index < img.shape.width * img.shape.height := by omega
    have hrow : index / img.shape.width < img.shape.height := by
      rw [Nat.div_lt_iff_lt_mul hw, Nat.mul_comm]; exact hlt
    have hcol : index - index / img.shape.width * img.shape.width = index % img.shape.width := by
      have := Nat.div_add_mod index img.shape.width
      rw [Nat.mul_comm] at this
      omega
    have hcol' : index % img.shape.width < img.shape.width := Nat.mod_lt _ hw
    have hin := wf.inb _ _ hrow hcol'
    rw [List.range_succ_eq_map]
    simp only [Image.iterGo, Shape.nth, Nat.ne_of_gt hw, if_false, hrow, if_true, hcol]
    rw [Array.getElem?_eq_getElem hin]
    simp only [List.map_cons, List.map_map, Nat.add_zero]
    congr 1
    · simp [flat, Image.pixel, Array.getD, hin]
    · rw [ih (index + 1) (by omega)]
      apply List.map_congr_left
      intro i _
      simp only [Function.comp, Nat.succ_eq_add_one]
      congr 1
      omega

theorem iter_eq (img : Image) (wf : WF img) :
    img.iter = (List.range (img.shape.width * img.shape.height)).map (flat img) := by
  unfold Image.iter
  rw [iterGo_eq img wf _ 0 (by omega)]
  apply List.map_congr_left
  intro i _
  simp

theorem rows_eq (w : Nat) (f : Nat → Nat → α) : ∀ h,
    (List.range (h * w)).map (fun j => f (j / w) (j % w))
      = (List.range h).flatMap (fun r => (List.range w).map (f r)) := by
  intro h
  induction h with
  | zero => simp
  | succ h ih =>
    rw [Nat.succ_mul, List.range_add, List.map_append, ih, List.range_succ, List.flatMap_append]
    congr 1
    simp only [List.flatMap_cons, List.flatMap_nil, List.append_nil, List.map_map]
    apply List.map_congr_left
    intro c hc
    have hc : c < w := List.mem_range.mp hc
    have hw : 0 < w := by omega
    simp only [Function.comp]
    have e1 : (h * w + c) / w = h := by
      rw [Nat.mul_comm, Nat.mul_add_div hw, Nat.div_eq_of_lt hc]; rfl
    have e2 : (h * w + c) % w = c := by
      rw [Nat.mul_comm, Nat.mul_add_mod, Nat.mod_eq_of_lt hc]
    rw [e1, e2]

/-- C07_iter for images: iteration order is row-major -/
theorem iter_rows (img : Image) (wf : WF img) :
    img.iter = (List.range img.shape.height).flatMap
      (fun r => (List.range img.shape.width).map (fun c => img.pixel r c)) := by
  rw [iter_eq img wf, Nat.mul_comm]
  exact rows_eq img.shape.width (fun r c => img.pixel r c) img.shape.height

theorem iter_bytes (img : Image) (wf : WF img) : img.iter.flatMap RGBA.bytes = (content img).pix := by
  rw [iter_rows img wf]
  simp only [content, List.flatMap_assoc, List.flatMap_map]

theorem iter_length (img : Image) (wf : WF img) : img.iter.length = img.shape.width * img.shape.height := by
  rw [iter_eq img wf]; simp

theorem bytes_length (l : List RGBA) : (l.flatMap RGBA.bytes).length = 4 * l.length := by
  induction l with
  | nil => rfl
  | cons c l ih => simp only [List.flatMap_cons, List.length_append, ih, RGBA.bytes, List.length_cons, List.length_nil]; omega

theorem content_length (img : Image) (wf : WF img) :
    (content img).pix.length = 4 * (img.shape.width * img.shape.height) := by
  rw [← iter_bytes img wf, bytes_length, iter_length img wf]

end SurfProofs.Lemmas.KittyIter
