import SurfModel.Kitty
/-!
`SurfaceIter` (flat index, `Shape::nth`, `data.get`) yields the pixels row by row — for well-formed images.
-/
namespace SurfProofs.Lemmas.KittyIter
open SurfModel.Kitty SurfModel.KittySpec

/-- Images that the crate's constructors produce (`Image::new`, `From<SurfaceOwned>`, `crop`, views and
transposed views of those): every pixel of the shape lies inside the buffer, and `Surface::is_empty`
(`start ≥ end`) says the same as `width = 0 ∨ height = 0`. -/
structure WF (img : Image) : Prop where
  inb : ∀ row col, row < img.shape.height → col < img.shape.width → img.shape.offset row col < img.data.size
  empty_iff : img.isEmpty = true ↔ (img.shape.width = 0 ∨ img.shape.height = 0)

/-- pixel with flat row-major index `j` -/
def flat (img : Image) (j : Nat) : RGBA := img.pixel (j / img.shape.width) (j % img.shape.width)

theorem iterGo_eq (img : Image) (wf : WF img) :
    ∀ k index, index + k = img.shape.width * img.shape.height →
      img.iterGo k index = (List.range k).map (fun i => flat img (index + i)) := by
  intro k
  induction k with
  | zero => intro index _; simp [Image.iterGo]
  | succ k ih =>
    intro index hk
    have hw : 0 < img.shape.width := by
      rcases Nat.eq_zero_or_pos img.shape.width with h | h
      · rw [h] at hk; omega
      · exact h
    have hlt : index < img.shape.width * img.shape.height := by omega
    have hrow : index / img.shape.width < img.shape.height := by
      rw [Nat.div_lt_iff_lt_mul hw, Nat.mul_comm]; exact hlt
    have hcol : index - index / img.shape.width * img.shape.width = index % img.shape.width := by
      have := Nat.div_add_mod index img.shape.width
      rw [Nat.mul_comm] at this
      omega
    have hcol' : index % img.shape.width < img.shape.width := Nat.mod_lt _ hw
    have hin := wf.inb _ _ hrow hcol'
    rw [List.range_succ_eq_map]
    simp only [Image.iterGo, Shape.nth, Nat.ne_of_gt hw, if_false, hrow, if_true, hcol]
    rw [Array.getElem?_eq_getElem hin]
    simp only [List.map_cons, List.map_map, Nat.add_zero]
    congr 1
    · simp [flat, Image.pixel, Array.getD, hin]
    · rw [ih (index + 1) (by omega)]
      apply List.map_congr_left
      intro i _
      simp only [Function.comp, Nat.succ_eq_add_one]
      congr 1
      omega

theorem iter_eq (img : Image) (wf : WF img) :
    img.iter = (List.range (img.shape.width * img.shape.height)).map (flat img) := by
  unfold Image.iter
  rw [iterGo_eq img wf _ 0 (by omega)]
  apply List.map_congr_left
  intro i _
  simp

theorem rows_eq (w : Nat) (f : Nat → Nat → α) : ∀ h,
    (List.range (h * w)).map (fun j => f (j / w) (j % w))
      = (List.range h).flatMap (fun r => (List.range w).map (f r)) := by
  intro h
  induction h with
  | zero => simp
  | succ h ih =>
    rw [Nat.succ_mul, List.range_add, List.map_append, ih, List.range_succ, List.flatMap_append]
    congr 1
    simp only [List.flatMap_cons, List.flatMap_nil, List.append_nil, List.map_map]
    apply List.map_congr_left
    intro c hc
    have hc : c < w := List.mem_range.mp hc
    have hw : 0 < w := by omega
    simp only [Function.comp]
    have e1 : (h * w + c) / w = h := by
      rw [Nat.mul_comm, Nat.mul_add_div hw, Nat.div_eq_of_lt hc]; rfl
    have e2 : (h * w + c) % w = c := by
      rw [Nat.mul_comm, Nat.mul_add_mod, Nat.mod_eq_of_lt hc]
    rw [e1, e2]

/-- C07_iter for images: iteration order is row-major -/
theorem iter_rows (img : Image) (wf : WF img) :
    img.iter = (List.range img.shape.height).flatMap
      (fun r => (List.range img.shape.width).map (fun c => img.pixel r c)) := by
  rw [iter_eq img wf, Nat.mul_comm]
  exact rows_eq img.shape.width (fun r c => img.pixel r c) img.shape.height

theorem iter_bytes (img : Image) (wf : WF img) : img.iter.flatMap RGBA.bytes = (content img).pix := by
  rw [iter_rows img wf]
  simp only [content, List.flatMap_assoc, List.flatMap_map]

theorem iter_length (img : Image) (wf : WF img) : img.iter.length = img.shape.width * img.shape.height := by
  rw [iter_eq img wf]; simp

theorem bytes_length (l : List RGBA) : (l.flatMap RGBA.bytes).length = 4 * l.length := by
  induction l with
  | nil => rfl
  | cons c l ih => simp only [List.flatMap_cons, List.length_append, ih, RGBA.bytes, List.length_cons, List.length_nil]; omega

theorem content_length (img : Image) (wf : WF img) :
    (content img).pix.length = 4 * (img.shape.width * img.shape.height) := by
  rw [← iter_bytes img wf, bytes_length, iter_length img wf]

/-! ## the hypotheses are met by what the constructors build -/

theorem wf_crop (data : Array RGBA) (s : Shape) (wf : WF ⟨data, s⟩) (hcs : 0 < s.colStride)
    (r0 r1 c0 c1 : Nat) (hr : r0 < r1) (hr1 : r1 ≤ s.height) (hc : c0 < c1) (hc1 : c1 ≤ s.width) :
    WF ⟨data, s.crop r0 r1 c0 c1⟩ := by
  constructor
  · intro row col hrow hcol
    simp only [Shape.crop] at hrow hcol
    have := wf.inb (r0 + row) (c0 + col) (by simp only; omega) (by simp only; omega)
    simp only [Shape.offset, Shape.crop] at this ⊢
    rw [Nat.add_mul, Nat.add_mul] at this
    omega
  · simp only [Image.isEmpty, Shape.crop, Shape.offset]
    have h1 : r0 * s.rowStride ≤ (r1 - 1) * s.rowStride := Nat.mul_le_mul_right _ (by omega)
    have h2 : c0 * s.colStride < c1 * s.colStride := Nat.mul_lt_mul_of_pos_right hc hcs
    constructor
    · intro h; simp only [ge_iff_le, decide_eq_true_eq] at h; omega
    · intro h; omega

theorem wf_transpose (data : Array RGBA) (s : Shape) (wf : WF ⟨data, s⟩) : WF ⟨data, s.transpose⟩ := by
  constructor
  · intro row col hrow hcol
    have := wf.inb col row hcol hrow
    simp only [Shape.offset, Shape.transpose] at this ⊢
    omega
  · have := wf.empty_iff
    constructor
    · intro h; exact Or.symm (this.mp h)
    · intro h; exact this.mpr (Or.symm h)

/-- element `4*j + k` of the byte string of a pixel list -/
theorem bytes_getElem (l : List RGBA) (j k : Nat) (hk : k < 4) :
    (l.flatMap RGBA.bytes)[4 * j + k]? = (l[j]?).bind (fun c => c.bytes[k]?) := by
  induction l generalizing j with
  | nil => simp
  | cons c l ih =>
    cases j with
    | zero =>
      simp only [List.flatMap_cons, Nat.mul_zero, Nat.zero_add, List.getElem?_cons_zero, Option.bind_some]
      rw [List.getElem?_append_left (by simp [RGBA.bytes]; omega)]
    | succ j =>
      simp only [List.flatMap_cons, List.getElem?_cons_succ]
      rw [List.getElem?_append_right (by simp [RGBA.bytes]; omega)]
      have : 4 * (j + 1) + k - (RGBA.bytes c).length = 4 * j + k := by simp [RGBA.bytes]; omega
      rw [this, ih]

/-- row-major: byte `k` of pixel (row, col) sits at index `4 * (row * width + col) + k` -/
theorem content_index (img : Image) (wf : WF img) (row col k : Nat) (hr : row < img.shape.height)
    (hc : col < img.shape.width) (hk : k < 4) :
    (content img).pix[4 * (row * img.shape.width + col) + k]? = (img.pixel row col).bytes[k]? := by
  rw [← iter_bytes img wf, bytes_getElem _ _ _ hk, iter_eq img wf]
  have hlt : row * img.shape.width + col < img.shape.width * img.shape.height := by
    have : row * img.shape.width + img.shape.width ≤ img.shape.height * img.shape.width := by
      have := Nat.mul_le_mul_right img.shape.width (Nat.succ_le_of_lt hr)
      rw [Nat.succ_mul] at this; exact this
    rw [Nat.mul_comm img.shape.width]; omega
  have hw : 0 < img.shape.width := by omega
  rw [List.getElem?_map, List.getElem?_range hlt]
  simp only [Option.map_some, Option.bind_some, flat]
  have e1 : (row * img.shape.width + col) / img.shape.width = row := by
    rw [Nat.mul_comm, Nat.mul_add_div hw, Nat.div_eq_of_lt hc]; rfl
  have e2 : (row * img.shape.width + col) % img.shape.width = col := by
    rw [Nat.mul_comm, Nat.mul_add_mod, Nat.mod_eq_of_lt hc]
  rw [e1, e2]

end SurfProofs.Lemmas.KittyIter
