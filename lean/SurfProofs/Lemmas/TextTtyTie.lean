import SurfModel.TextTty
import SurfProofs.Lemmas.SgrWriter
/-!
The payload decoder the C09 driver runs behind `c09 ttys` (`SurfModel.TextTty.ttyInterp`, model files cannot
import proof files) is the one `C06_writer` is stated for (`SurfProofs.Lemmas.SgrWriter.ttyInterp`).
-/
namespace SurfProofs.Lemmas.TextTtyTie

theorem ttyInterp_eq {σ : Type} (A : SurfModel.Stream.TAuto σ) :
    SurfModel.TextTty.ttyInterp A = SurfProofs.Lemmas.SgrWriter.ttyInterp A := by
  funext it
  simp only [SurfModel.TextTty.ttyInterp, SurfProofs.Lemmas.SgrWriter.ttyInterp]
  cases SurfModel.Decoders.commandOfItem A it with
  | error e => rfl
  | ok ev => cases ev <;> rfl

end SurfProofs.Lemmas.TextTtyTie
