import SurfModel.StreamCheck
import SurfProofs.Lemmas.ProtoStream
/-! C04: the documented ambiguities and the exception set of literal keys.

* a key followed by a byte that cannot continue it is that key (`tokenize_dead`, `key_then_dead`);
* `CSI 1 ; n R` (n = 2..8) is a spelling of F3 with modifiers (`cpr_is_key`);
* the driver's check of the exception set is sound (`keysTermCheck_sound`, `prefixExact_sound`);
* self-delimitation, terminality and realisation transfer along observational equality (`Bisim`). -/
namespace SurfProofs.ProtoResolve
open SurfModel SurfModel.Tokenizer SurfModel.Grammar SurfModel.Payload SurfModel.Protocol SurfModel.Automata
open SurfModel.Stream SurfModel.StreamCheck SurfProofs.ProtoStream SurfProofs.ProtoKeyTable SurfProofs.ProtoKeys
open SurfProofs.ProtoBytes SurfProofs.ProtoBasics

variable {σ τ : Type}

/-! ## a key followed by a byte that does not continue it -/

theorem tokenize_dead (A : Auto σ) (w rest : List UInt8) (b : UInt8) (q : σ) (hne : w ≠ [])
    (hrun : runA A A.start w = some q) (hacc : A.accepting q = true) (hdead : A.step q b = none) :
    tokenize A (w ++ b :: rest) = (.tok w q :: (tokenize A (b :: rest)).1, (tokenize A (b :: rest)).2) := by
  have hlive : liveLen A A.start (w ++ b :: rest) = w.length := by
    rw [liveLen_run A _ q w _ hrun]; simp [liveLen, hdead]
  have hlong : longestAcc A A.start (w ++ b :: rest) = some (w.length, q) :=
    longestAcc_run A _ q w _ hne hrun hacc (by simp [longestAcc, hdead])
  have hne' : w ++ b :: rest ≠ [] := by simp
  rw [tokenize]
  simp only [hne', if_false]
  have hcond : ¬ (liveLen A A.start (w ++ b :: rest) = (w ++ b :: rest).length ∧
      complete A (w ++ b :: rest) = false) := by
    rintro ⟨h1, _⟩
    rw [hlive] at h1
    simp at h1
  simp only [hcond, if_false]
  split
  · rename_i n q' hq'
    rw [hlong] at hq'
    cases hq'
    simp
  · rename_i hq'
    rw [hlong] at hq'
    cases hq'

/-- every spelling of the naming table is accepted and the decoder picks the tag of its key -/
theorem key_state (A : TAuto σ) (hR : Realises A) (i : Nat) (hv : (Msg.key i).Valid) :
    ∃ q, runA A.toAuto A.start (bytes (print (.key i))) = some q ∧ A.accepting q = true ∧
      A.leastTag q = some (Msg.tag (.key i)) := by
  have hmem : (grammar (Msg.key i).family).Matches (bytes (print (.key i))) := key_member i hv
  obtain ⟨q, hrun, hacc, htags, hsorted⟩ := realises_accept A hR _ (event_matches _ _ hmem)
  refine ⟨q, hrun, hacc, ?_⟩
  obtain ⟨p, hpk, hl, _⟩ := proto_entry i hv
  obtain ⟨e, he, hw, hcode⟩ := lookup_entry _ _ hl
  have hsmall := key_code_small i p hv hpk
  have hin : p.2.code ∈ A.tags q := by
    rw [htags, event_tags]
    exact Or.inl ⟨e, he, hcode, by rw [key_print i p hpk, hw]⟩
  cases hT : A.tags q with
  | nil => rw [hT] at hin; cases hin
  | cons t0 rest =>
    rw [hT] at hin hsorted
    have hle := head_le_of_sorted t0 rest hsorted _ hin
    have ht0 : t0 ∈ eventDFA.tagsAfter (bytes (print (.key i))) := by rw [← htags, hT]; simp
    rw [event_tags] at ht0
    have heq : t0 = p.2.code := by
      rcases ht0 with ⟨e', he', hc', hw'⟩ | ⟨k, _, hk2, _⟩
      · rw [key_print i p hpk, ← hw] at hw'
        have hee : e.1 = e'.1 := bytes_inj _ _ (entry_B e he) (entry_B e' he') hw'
        have h1 := List.all_eq_true.mp keyTable_functional e he
        have h2 := List.all_eq_true.mp keyTable_functional e' he'
        simp only [beq_iff_eq] at h1 h2
        rw [hee, h2] at h1
        simp only [Option.some.injEq] at h1
        rw [← hc', h1, hcode]
      · have := family_tag_ge k; omega
    simp [TAuto.leastTag, hT, heq, key_tag i p hpk]

/-- one accepted message followed by a byte its state has no edge for -/
theorem msg_then_dead (A : TAuto σ) (hT : A.toAuto.TermOk) (m : Msg) (hv : m.Valid) (q : σ)
    (hrun : runA A.toAuto A.start (bytes (print m)) = some q) (hacc : A.accepting q = true)
    (htag : A.leastTag q = some m.tag) (hpay : decodeTok m.tag (print m) = .ok (some (denote m)))
    (b : UInt8) (rest : List UInt8) (hdead : A.step q b = none) :
    decodeEvents A (bytes (print m) ++ b :: rest) =
      match decodeEvents A (b :: rest) with
      | .ok evs => .ok (denote m :: evs)
      | .error e => .error e := by
  have hne : bytes (print m) ≠ [] := by
    have := print_ne_nil m hv
    intro h; apply this
    cases hpm : print m with
    | nil => rfl
    | cons a l => rw [hpm] at h; simp [bytes] at h
  have hev : eventOfItem A (.tok (bytes (print m)) q) = .ok (denote m) := by
    simp only [eventOfItem, htag, eventOfTok, natBytes_bytes _ (print_lt m hv), hpay]
  rw [decodeEvents_eq A hT, tokenize_dead A.toAuto _ _ b q hne hrun hacc hdead]
  simp only
  rw [eventsOfItems_cons A _ _ _ hev, ← decodeEvents_eq A hT]
  cases decodeEvents A (b :: rest) <;> rfl

/-- **A key followed by input that cannot continue it is that key** — also for the six prefix keys. -/
theorem key_then_dead (A : TAuto σ) (hT : A.toAuto.TermOk) (hR : Realises A) (i : Nat) (hv : (Msg.key i).Valid)
    (b : UInt8) (rest : List UInt8)
    (hdead : ∀ q, runA A.toAuto A.start (bytes (print (.key i))) = some q → A.step q b = none) :
    decodeEvents A (bytes (print (.key i)) ++ b :: rest) =
      match decodeEvents A (b :: rest) with
      | .ok evs => .ok (denote (.key i) :: evs)
      | .error e => .error e := by
  obtain ⟨q, hrun, hacc, htag⟩ := key_state A hR i hv
  exact msg_then_dead A hT (.key i) hv q hrun hacc htag (key_payload i hv) b rest (hdead q hrun)

/-! ## `CSI 1 ; n R` -/

set_option maxRecDepth 100000 in
/-- the cursor position report `CSI 1 ; n R` with `n = 2..8` is, byte for byte, a spelling of F3 with modifier
    mask `n - 1` in the naming table (entry `362 + n`) -/
theorem cpr_is_key (c : Nat) (h : 2 ≤ c ∧ c ≤ 8) :
    362 + c < protoKeys.length ∧ print (.key (362 + c)) = print (.cursor 1 c) ∧
      denote (.key (362 + c)) = .key ⟨.f 3, c - 1⟩ ∧ print (.key (362 + c)) ∉ prefixKeys := by
  have hc : c = 2 ∨ c = 3 ∨ c = 4 ∨ c = 5 ∨ c = 6 ∨ c = 7 ∨ c = 8 := by omega
  have s1 : Vt.showNat 1 = [49] := by rw [Vt.showNat]; simp
  have sd : ∀ d, d < 10 → Vt.showNat d = [48 + d] := by intro d hd; rw [Vt.showNat]; simp [hd]
  have hcur : ∀ d, d < 10 → print (.cursor 1 d) = [27, 91, 49, 59, 48 + d, 82] := by
    intro d hd; simp [print, CSI, s1, sd d hd]
  rcases hc with rfl | rfl | rfl | rfl | rfl | rfl | rfl <;>
    (rw [hcur _ (by omega)]; exact ⟨by decide +kernel, by decide +kernel, by decide +kernel, by decide +kernel⟩)

/-! ## the exception set, checked on a dumped table -/

open Wire in
/-- **The key check is sound**: if the driver's check passes, every spelling of the naming table other than the
    six prefix keys ends in a terminal state of the table, and the six do not. -/
theorem keysTermCheck_sound (rows : Array Row) (h : keysTermCheck rows = true) (i : Nat) (hi : i < protoKeys.length) :
    (print (.key i) ∉ prefixKeys → Terminated (rowsAuto rows) (.key i)) ∧
    (print (.key i) ∈ prefixKeys → ∀ q, runA (rowsAuto rows).toAuto (rowsAuto rows).start (bytes (print (.key i))) = some q →
      (rowsAuto rows).accepting q = true ∧ (rowsAuto rows).terminal q = false) := by
  have hm : protoKeys[i] ∈ protoKeys := List.getElem_mem hi
  have hk := List.all_eq_true.mp h _ hm
  have hp : print (.key i) = protoKeys[i].1 := by simp [print, hi]
  rw [hp]
  unfold runRows at hk
  constructor
  · intro hnp q hq
    rw [hp] at hq
    rw [hq] at hk
    simp only [Bool.and_eq_true, beq_iff_eq] at hk
    rw [hk.2]
    simp [hnp]
  · intro hpk q hq
    rw [hq] at hk
    simp only [Bool.and_eq_true, beq_iff_eq] at hk
    refine ⟨hk.1, ?_⟩
    rw [hk.2]
    simp [hpk]

open Wire in
/-- if the exactness check passes, every accepting non-terminal state of the table is the state of a prefix key -/
theorem prefixExact_sound (rows : Array Row) (h : prefixExactCheck rows = true) (s : Nat) (hs : s < rows.size)
    (hacc : (rowsAuto rows).accepting s = true) (hnt : (rowsAuto rows).terminal s = false) :
    ∃ w ∈ prefixKeys, runRows rows w = some s := by
  unfold prefixExactCheck at h
  simp only [Bool.and_eq_true] at h
  have := List.all_eq_true.mp h.2 s (by simp [List.mem_range]; exact hs)
  simp only [hacc, hnt, Bool.not_false, Bool.and_self, Bool.not_true, Bool.false_or] at this
  have hm : s ∈ prefixKeys.filterMap (runRows rows) := by simpa using this
  obtain ⟨w, hw, hr⟩ := List.mem_filterMap.mp hm
  exact ⟨w, hw, hr⟩

/-! ## observational equality -/

/-- same live words, accepting and terminal flags and tag sets -/
def Bisim (A : TAuto σ) (B : TAuto τ) : Prop :=
  ∀ w, (runA A.toAuto A.start w).map (fun q => (A.accepting q, A.terminal q, A.tags q)) =
    (runA B.toAuto B.start w).map fun q => (B.accepting q, B.terminal q, B.tags q)

theorem Bisim.symm {A : TAuto σ} {B : TAuto τ} (h : Bisim A B) : Bisim B A := fun w => (h w).symm

theorem bisim_obs {A : TAuto σ} {B : TAuto τ} (h : Bisim A B) (w : List UInt8) (q : τ)
    (hq : runA B.toAuto B.start w = some q) :
    ∃ p, runA A.toAuto A.start w = some p ∧ A.accepting p = B.accepting q ∧ A.terminal p = B.terminal q ∧
      A.tags p = B.tags q := by
  have := h w
  rw [hq] at this
  cases hp : runA A.toAuto A.start w with
  | none => rw [hp] at this; simp at this
  | some p =>
    rw [hp] at this
    simp only [Option.map_some, Option.some.injEq, Prod.mk.injEq] at this
    exact ⟨p, rfl, this.1, this.2.1, this.2.2⟩

theorem Bisim.selfDelimiting {A : TAuto σ} {B : TAuto τ} (h : Bisim A B) (H : SelfDelimiting A) : SelfDelimiting B := by
  intro w q hq hacc t ht hge
  obtain ⟨p, hp, h1, h2, h3⟩ := bisim_obs h w q hq
  have := H w p hp (by rw [h1]; exact hacc) t (by simpa [TAuto.leastTag, h3] using ht) hge
  rw [h3, h2] at this
  exact this

theorem Bisim.terminated {A : TAuto σ} {B : TAuto τ} (h : Bisim A B) (m : Msg) (H : Terminated A m) : Terminated B m := by
  intro q hq
  obtain ⟨p, hp, _, h2, _⟩ := bisim_obs h _ q hq
  rw [← h2]; exact H p hp

theorem Bisim.realises {A : TAuto σ} {B : TAuto τ} (h : Bisim A B) (H : Realises B) : Realises A := by
  intro w
  rw [← H w]
  have := h w
  cases hA : runA A.toAuto A.start w <;> cases hB : runA B.toAuto B.start w <;> rw [hA, hB] at this <;> simp_all

end SurfProofs.ProtoResolve
