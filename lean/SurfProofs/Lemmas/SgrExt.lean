import SurfProofs.Lemmas.SgrColorItems
import SurfModel.SgrRef
/-!
Extensions of the C06 item machinery:

* `pad z n` — a number written with `z` leading zeros, read identically by `number_decode` and by the reference;
* `numItem z n` — an SGR parameter that is ONE number `n` (any `n` except 38 / 48 / 58, which open a colour and
  consume what follows), in any spelling: covers every supported single-number parameter, the parameters the
  decoder does not know (2, 6, 8, 10–20, 26, 28, 50–57, 60–89, 98, 99, 108 …: reference `.unknown`, record
  unchanged), 59 (default underline colour: not held by a face), and — for the reference with the
  inexpressible parameters ignored (`refApplyX`) — 7, 27, 39, 49;
* `ItemOkX` / `items_agree_x` — the decoder against `refApplyX`.
-/
set_option linter.unusedSimpArgs false
namespace SurfProofs.Lemmas.SgrSem
open SurfModel.Vt SurfModel.Sgr SurfProofs.Lemmas.Vt SurfProofs.Lemmas.Sgr

/-- a number written with `z` leading zeros -/
def pad (z n : Nat) : List Nat := List.replicate z 48 ++ showNat n

theorem pad_digits (z n : Nat) : ∀ d ∈ pad z n, 48 ≤ d ∧ d ≤ 57 := by
  intro d hd
  simp only [pad, List.mem_append, List.mem_replicate] at hd
  rcases hd with ⟨_, rfl⟩ | hd
  · omega
  · exact showNat_digits n d hd

theorem readDec_zeros (z : Nat) (l : List Nat) : readDec (List.replicate z 48 ++ l) = readDec l := by
  induction z with
  | zero => simp
  | succ z ih =>
    simp only [List.replicate_succ, List.cons_append, readDec, List.foldl_cons] at ih ⊢
    simpa using ih

theorem readDec_pad (z n : Nat) : readDec (pad z n) = n := by
  rw [pad, readDec_zeros, readDec_showNat]

theorem numberDecode_pad (z n : Nat) : numberDecode (pad z n) = some (min usizeMax n) := by
  rw [numberDecode_digits _ (pad_digits z n), readDec_pad]

theorem pad_ne_nil (z n : Nat) : pad z n ≠ [] := by
  simp [pad, showNat_ne_nil]

theorem readNat?_pad (z n : Nat) : readNat? (pad z n) = some (some n) := by
  unfold readNat?
  have hall : (pad z n).all isDigit = true := by
    rw [List.all_eq_true]; intro d hd; have := pad_digits z n d hd; simp [isDigit]; omega
  simp only [pad_ne_nil, if_false, hall, if_true]
  have := readDec_pad z n
  unfold readDec at this
  rw [this]

theorem pad_split (z n : Nat) : splitBy 58 (pad z n) = [pad z n] :=
  splitBy_no_sep 58 _ (by intro h; have := pad_digits z n 58 h; omega)

theorem chunkP_pad (z n : Nat) : chunkP (pad z n) = some [some n] := by
  unfold chunkP; rw [pad_split]; simp [readNat?_pad]


/-! ### a parameter that is a single number, in any spelling -/

/-- reference meaning of the parameter `n` (xterm ctlseqs, SGR) — every number except 38 / 48 / 58, which
introduce a colour and consume what follows -/
def numOp (n : Nat) : SgrOp :=
  if n = 0 then .reset else if n = 1 then .bold else if n = 3 then .italic else if n = 4 then .underline 1
  else if n = 5 then .blink else if n = 7 then .reverse else if n = 9 then .strike else if n = 21 then .underline 2
  else if n = 22 then .normalIntensity else if n = 23 then .noItalic else if n = 24 then .underline 0
  else if n = 25 then .noBlink else if n = 27 then .noReverse else if n = 29 then .noStrike
  else if n = 39 then .fgDefault else if n = 49 then .bgDefault else if n = 59 then .ulDefault
  else if 30 ≤ n ∧ n ≤ 37 then .fgIdx (n - 30) else if 40 ≤ n ∧ n ≤ 47 then .bgIdx (n - 40)
  else if 90 ≤ n ∧ n ≤ 97 then .fgIdx (n - 90 + 8) else if 100 ≤ n ∧ n ≤ 107 then .bgIdx (n - 100 + 8)
  else .unknown [some n]

theorem numOp_sem (n : Nat) (h : n ≠ 38 ∧ n ≠ 48 ∧ n ≠ 58) (rest : List (List (Option Nat))) :
    sgrSem ([some n] :: rest) = numOp n :: sgrSem rest := by
  by_cases h0 : n = 0
  · subst h0; exact sgrSem.eq_9 rest
  by_cases h1 : n = 1
  · subst h1; exact sgrSem.eq_10 rest
  by_cases h3 : n = 3
  · subst h3; exact sgrSem.eq_11 rest
  by_cases h4 : n = 4
  · subst h4; exact sgrSem.eq_12 rest
  by_cases h5 : n = 5
  · subst h5; exact sgrSem.eq_14 rest
  by_cases h7 : n = 7
  · subst h7; exact sgrSem.eq_15 rest
  by_cases h9 : n = 9
  · subst h9; exact sgrSem.eq_16 rest
  by_cases h21 : n = 21
  · subst h21; exact sgrSem.eq_17 rest
  by_cases h22 : n = 22
  · subst h22; exact sgrSem.eq_18 rest
  by_cases h23 : n = 23
  · subst h23; exact sgrSem.eq_19 rest
  by_cases h24 : n = 24
  · subst h24; exact sgrSem.eq_20 rest
  by_cases h25 : n = 25
  · subst h25; exact sgrSem.eq_21 rest
  by_cases h27 : n = 27
  · subst h27; exact sgrSem.eq_22 rest
  by_cases h29 : n = 29
  · subst h29; exact sgrSem.eq_23 rest
  by_cases h39 : n = 39
  · subst h39; exact sgrSem.eq_24 rest
  by_cases h49 : n = 49
  · subst h49; exact sgrSem.eq_25 rest
  by_cases h59 : n = 59
  · subst h59; exact sgrSem.eq_26 rest
  have e : numOp n = (if 30 ≤ n ∧ n ≤ 37 then SgrOp.fgIdx (n - 30) else if 40 ≤ n ∧ n ≤ 47 then .bgIdx (n - 40)
      else if 90 ≤ n ∧ n ≤ 97 then .fgIdx (n - 90 + 8) else if 100 ≤ n ∧ n ≤ 107 then .bgIdx (n - 100 + 8)
      else .unknown [some n]) := by
    delta numOp
    simp only [h0, h1, h3, h4, h5, h7, h9, h21, h22, h23, h24, h25, h27, h29, h39, h49, h59, if_false]
  rw [e, sgrSem.eq_36 rest n]
  all_goals (intros; simp_all)

/-- effect of the parameter `n` on the decoder's record (`sgr_face`, every arm except 38 / 48 / 58);
7, 27, 39, 49 and 59 have no arm: the record is unchanged -/
def numUpd (n : Nat) (fm : FMod) : FMod :=
  if n = 0 then { reset := true }
  else if n = 1 then { fm with bold := some true } else if n = 22 then { fm with bold := some false }
  else if n = 3 then { fm with italic := some true } else if n = 23 then { fm with italic := some false }
  else if n = 5 then { fm with blink := some true } else if n = 25 then { fm with blink := some false }
  else if n = 9 then { fm with strike := some true } else if n = 29 then { fm with strike := some false }
  else if n = 4 then { fm with underline := some 1 } else if n = 21 then { fm with underline := some 2 }
  else if n = 24 then { fm with underline := some 0 }
  else if 30 ≤ n ∧ n ≤ 37 then { fm with fg := palette (n - 30) }
  else if 90 ≤ n ∧ n ≤ 97 then { fm with fg := palette (n - 90 + 8) }
  else if 40 ≤ n ∧ n ≤ 47 then { fm with bg := palette (n - 40) }
  else if 100 ≤ n ∧ n ≤ 107 then { fm with bg := palette (n - 100 + 8) }
  else fm

theorem palette_named (k : Nat) (h : k < 16) : palette k = (SurfModel.Generated.colors16[k]?).map colorOf := by
  simp [palette, h]

/-- the default arm of `sgr_face`'s `match`: a group that is one number `v`, none of the literal arms -/
theorem step_default (g : List Nat) (v : Nat) (fm : FMod) (rest : List (List Nat))
    (hsplit : splitBy 58 g = [g]) (hnum : numberDecode g = some v)
    (h0 : v ≠ 0) (h1 : v ≠ 1) (h22 : v ≠ 22) (h3 : v ≠ 3) (h23 : v ≠ 23) (h5 : v ≠ 5) (h25 : v ≠ 25) (h9 : v ≠ 9)
    (h29 : v ≠ 29) (h4 : v ≠ 4) (h21 : v ≠ 21) (h24 : v ≠ 24) (h38 : v ≠ 38) (h48 : v ≠ 48) (h58 : v ≠ 58) :
    sgrFaceStep fm g rest =
      (if 30 ≤ v ∧ v ≤ 37 then ({ fm with fg := (SurfModel.Generated.colors16[v - 30]?).map colorOf }, rest)
       else if 90 ≤ v ∧ v ≤ 97 then ({ fm with fg := (SurfModel.Generated.colors16[v - 82]?).map colorOf }, rest)
       else if 40 ≤ v ∧ v ≤ 47 then ({ fm with bg := (SurfModel.Generated.colors16[v - 40]?).map colorOf }, rest)
       else if 100 ≤ v ∧ v ≤ 107 then ({ fm with bg := (SurfModel.Generated.colors16[v - 92]?).map colorOf }, rest)
       else (fm, rest)) := by
  unfold sgrFaceStep
  simp only [hsplit, hnum]

/-- `sgr_face` on a group that spells the number `n` (any number of leading zeros): the record changes as
`numUpd n` says and nothing of what follows is consumed -/
theorem num_step (z n : Nat) (h : n ≠ 38 ∧ n ≠ 48 ∧ n ≠ 58) (fm : FMod) (rest : List (List Nat)) :
    sgrFaceStep fm (pad z n) rest = (numUpd n fm, rest) := by
  have hnum := numberDecode_pad z n
  have hsplit := pad_split z n
  by_cases h0 : n = 0
  · subst h0
    have e : min usizeMax 0 = 0 := by decide
    rw [e] at hnum
    simp [sgrFaceStep, hsplit, hnum, nextNum, numUpd]
  by_cases h1 : n = 1
  · subst h1
    have e : min usizeMax 1 = 1 := by decide
    rw [e] at hnum
    simp [sgrFaceStep, hsplit, hnum, nextNum, numUpd]
  by_cases h22 : n = 22
  · subst h22
    have e : min usizeMax 22 = 22 := by decide
    rw [e] at hnum
    simp [sgrFaceStep, hsplit, hnum, nextNum, numUpd]
  by_cases h3 : n = 3
  · subst h3
    have e : min usizeMax 3 = 3 := by decide
    rw [e] at hnum
    simp [sgrFaceStep, hsplit, hnum, nextNum, numUpd]
  by_cases h23 : n = 23
  · subst h23
    have e : min usizeMax 23 = 23 := by decide
    rw [e] at hnum
    simp [sgrFaceStep, hsplit, hnum, nextNum, numUpd]
  by_cases h5 : n = 5
  · subst h5
    have e : min usizeMax 5 = 5 := by decide
    rw [e] at hnum
    simp [sgrFaceStep, hsplit, hnum, nextNum, numUpd]
  by_cases h25 : n = 25
  · subst h25
    have e : min usizeMax 25 = 25 := by decide
    rw [e] at hnum
    simp [sgrFaceStep, hsplit, hnum, nextNum, numUpd]
  by_cases h9 : n = 9
  · subst h9
    have e : min usizeMax 9 = 9 := by decide
    rw [e] at hnum
    simp [sgrFaceStep, hsplit, hnum, nextNum, numUpd]
  by_cases h29 : n = 29
  · subst h29
    have e : min usizeMax 29 = 29 := by decide
    rw [e] at hnum
    simp [sgrFaceStep, hsplit, hnum, nextNum, numUpd]
  by_cases h4 : n = 4
  · subst h4
    have e : min usizeMax 4 = 4 := by decide
    rw [e] at hnum
    simp [sgrFaceStep, hsplit, hnum, nextNum, numUpd]
  by_cases h21 : n = 21
  · subst h21
    have e : min usizeMax 21 = 21 := by decide
    rw [e] at hnum
    simp [sgrFaceStep, hsplit, hnum, nextNum, numUpd]
  by_cases h24 : n = 24
  · subst h24
    have e : min usizeMax 24 = 24 := by decide
    rw [e] at hnum
    simp [sgrFaceStep, hsplit, hnum, nextNum, numUpd]
  by_cases hbig : n ≤ usizeMax
  · rw [Nat.min_eq_right hbig] at hnum
    rw [step_default _ n fm rest hsplit hnum h0 h1 h22 h3 h23 h5 h25 h9 h29 h4 h21 h24 h.1 h.2.1 h.2.2]
    delta numUpd
    simp only [h0, h1, h22, h3, h23, h5, h25, h9, h29, h4, h21, h24, if_false]
    by_cases r1 : 30 ≤ n ∧ n ≤ 37
    · simp only [r1, and_self, if_true]; rw [palette_named _ (by omega)]
    by_cases r2 : 90 ≤ n ∧ n ≤ 97
    · simp only [r1, r2, and_self, if_true, if_false]; rw [palette_named _ (by omega)]
      have : n - 90 + 8 = n - 82 := by omega
      rw [this]
    by_cases r3 : 40 ≤ n ∧ n ≤ 47
    · simp only [r1, r2, r3, and_self, if_true, if_false]; rw [palette_named _ (by omega)]
    by_cases r4 : 100 ≤ n ∧ n ≤ 107
    · simp only [r1, r2, r3, r4, and_self, if_true, if_false]; rw [palette_named _ (by omega)]
      have : n - 100 + 8 = n - 92 := by omega
      rw [this]
    simp only [r1, r2, r3, r4, if_false]
  · have hb : usizeMax < n := by omega
    have hu : usizeMax = 18446744073709551615 := by decide
    rw [Nat.min_eq_left (by omega)] at hnum
    rw [step_default _ usizeMax fm rest hsplit hnum (by omega) (by omega) (by omega) (by omega) (by omega)
      (by omega) (by omega) (by omega) (by omega) (by omega) (by omega) (by omega) (by omega) (by omega) (by omega)]
    have q1 : ¬ (30 ≤ usizeMax ∧ usizeMax ≤ 37) := by omega
    have q2 : ¬ (90 ≤ usizeMax ∧ usizeMax ≤ 97) := by omega
    have q3 : ¬ (40 ≤ usizeMax ∧ usizeMax ≤ 47) := by omega
    have q4 : ¬ (100 ≤ usizeMax ∧ usizeMax ≤ 107) := by omega
    have r1 : ¬ (30 ≤ n ∧ n ≤ 37) := by omega
    have r2 : ¬ (90 ≤ n ∧ n ≤ 97) := by omega
    have r3 : ¬ (40 ≤ n ∧ n ≤ 47) := by omega
    have r4 : ¬ (100 ≤ n ∧ n ≤ 107) := by omega
    delta numUpd
    simp only [h0, h1, h22, h3, h23, h5, h25, h9, h29, h4, h21, h24, q1, q2, q3, q4, r1, r2, r3, r4, if_false]

/-- beyond the last known parameter number everything is unknown to the reference -/
theorem numOp_big (n : Nat) (h : 108 ≤ n) : numOp n = .unknown [some n] := by
  have h0 : ¬ n = 0 := by omega
  have h1 : ¬ n = 1 := by omega
  have h3 : ¬ n = 3 := by omega
  have h4 : ¬ n = 4 := by omega
  have h5 : ¬ n = 5 := by omega
  have h7 : ¬ n = 7 := by omega
  have h9 : ¬ n = 9 := by omega
  have h21 : ¬ n = 21 := by omega
  have h22 : ¬ n = 22 := by omega
  have h23 : ¬ n = 23 := by omega
  have h24 : ¬ n = 24 := by omega
  have h25 : ¬ n = 25 := by omega
  have h27 : ¬ n = 27 := by omega
  have h29 : ¬ n = 29 := by omega
  have h39 : ¬ n = 39 := by omega
  have h49 : ¬ n = 49 := by omega
  have h59 : ¬ n = 59 := by omega
  have r1 : ¬ (30 ≤ n ∧ n ≤ 37) := by omega
  have r2 : ¬ (40 ≤ n ∧ n ≤ 47) := by omega
  have r3 : ¬ (90 ≤ n ∧ n ≤ 97) := by omega
  have r4 : ¬ (100 ≤ n ∧ n ≤ 107) := by omega
  delta numOp
  simp only [h0, h1, h3, h4, h5, h7, h9, h21, h22, h23, h24, h25, h27, h29, h39, h49, h59, r1, r2, r3, r4, if_false]

theorem numOp_small_expressible : ∀ n : Fin 108, n.val ≠ 7 → n.val ≠ 27 → n.val ≠ 39 → n.val ≠ 49 →
    inexpressibleOp (numOp n.val) = false := by decide

/-- only 7, 27, 39, 49 denote an operation the face-modification record cannot express -/
theorem numOp_expressible (n : Nat) (h : n ≠ 7 ∧ n ≠ 27 ∧ n ≠ 39 ∧ n ≠ 49) : inexpressibleOp (numOp n) = false := by
  by_cases hb : n < 108
  · exact numOp_small_expressible ⟨n, hb⟩ h.1 h.2.1 h.2.2.1 h.2.2.2
  · rw [numOp_big n (by omega)]; rfl

theorem numOp_inexpressible (n : Nat) (h : n = 7 ∨ n = 27 ∨ n = 39 ∨ n = 49) : inexpressibleOp (numOp n) = true := by
  rcases h with rfl | rfl | rfl | rfl <;> decide

theorem numUpd_inexpressible (n : Nat) (h : n = 7 ∨ n = 27 ∨ n = 39 ∨ n = 49) (fm : FMod) : numUpd n fm = fm := by
  rcases h with rfl | rfl | rfl | rfl <;> simp [numUpd]

/-- the reference operation of `n` and the record update of `n` have the same effect on what a face shows -/
theorem hom_num (n : Nat) (h : n ≠ 7 ∧ n ≠ 27 ∧ n ≠ 39 ∧ n ≠ 49) (fm : FMod) (a : Attr) (f : DFace)
    (hr : normAttr a = view fm f) : normAttr (applySgr a (numOp n)) = view (numUpd n fm) f := by
  by_cases h0 : n = 0
  · subst h0
    exact (Simple.spec_ok .reset0 trivial).hom fm a f hr
  by_cases h1 : n = 1
  · subst h1
    exact (Simple.spec_ok .bold trivial).hom fm a f hr
  by_cases h22 : n = 22
  · subst h22
    exact (Simple.spec_ok .boldOff trivial).hom fm a f hr
  by_cases h3 : n = 3
  · subst h3
    exact (Simple.spec_ok .italic trivial).hom fm a f hr
  by_cases h23 : n = 23
  · subst h23
    exact (Simple.spec_ok .italicOff trivial).hom fm a f hr
  by_cases h5 : n = 5
  · subst h5
    exact (Simple.spec_ok .blink trivial).hom fm a f hr
  by_cases h25 : n = 25
  · subst h25
    exact (Simple.spec_ok .blinkOff trivial).hom fm a f hr
  by_cases h9 : n = 9
  · subst h9
    exact (Simple.spec_ok .strike trivial).hom fm a f hr
  by_cases h29 : n = 29
  · subst h29
    exact (Simple.spec_ok .strikeOff trivial).hom fm a f hr
  by_cases h4 : n = 4
  · subst h4
    exact (Simple.spec_ok .ul trivial).hom fm a f hr
  by_cases h21 : n = 21
  · subst h21
    exact (Simple.spec_ok .ulDouble trivial).hom fm a f hr
  by_cases h24 : n = 24
  · subst h24
    exact (Simple.spec_ok .ulOff trivial).hom fm a f hr
  by_cases h59 : n = 59
  · subst h59
    have e1 : numOp 59 = .ulDefault := by decide
    have e2 : numUpd 59 fm = fm := by simp [numUpd]
    rw [e1, e2, ← hr]; rfl
  have h7 := h.1
  have h27 := h.2.1
  have h39 := h.2.2.1
  have h49 := h.2.2.2
  have eo : numOp n = (if 30 ≤ n ∧ n ≤ 37 then SgrOp.fgIdx (n - 30) else if 40 ≤ n ∧ n ≤ 47 then .bgIdx (n - 40)
      else if 90 ≤ n ∧ n ≤ 97 then .fgIdx (n - 90 + 8) else if 100 ≤ n ∧ n ≤ 107 then .bgIdx (n - 100 + 8)
      else .unknown [some n]) := by
    delta numOp
    simp only [h0, h1, h3, h4, h5, h7, h9, h21, h22, h23, h24, h25, h27, h29, h39, h49, h59, if_false]
  have eu : numUpd n fm = (if 30 ≤ n ∧ n ≤ 37 then { fm with fg := palette (n - 30) }
      else if 90 ≤ n ∧ n ≤ 97 then { fm with fg := palette (n - 90 + 8) }
      else if 40 ≤ n ∧ n ≤ 47 then { fm with bg := palette (n - 40) }
      else if 100 ≤ n ∧ n ≤ 107 then { fm with bg := palette (n - 100 + 8) }
      else fm) := by
    delta numUpd
    simp only [h0, h1, h22, h3, h23, h5, h25, h9, h29, h4, h21, h24, if_false]
  rw [eo, eu]
  by_cases r1 : 30 ≤ n ∧ n ≤ 37
  · simp only [r1, and_self, if_true]
    exact hom_index .fg (n - 30) (by omega) fm a f hr
  by_cases r2 : 40 ≤ n ∧ n ≤ 47
  · have q : ¬ (90 ≤ n ∧ n ≤ 97) := by omega
    simp only [r1, r2, q, and_self, if_true, if_false]
    exact hom_index .bg (n - 40) (by omega) fm a f hr
  by_cases r3 : 90 ≤ n ∧ n ≤ 97
  · simp only [r1, r2, r3, and_self, if_true, if_false]
    exact hom_index .fg (n - 90 + 8) (by omega) fm a f hr
  by_cases r4 : 100 ≤ n ∧ n ≤ 107
  · simp only [r1, r2, r3, r4, and_self, if_true, if_false]
    exact hom_index .bg (n - 100 + 8) (by omega) fm a f hr
  simp only [r1, r2, r3, r4, if_false]
  exact hr

/-- the item: one group spelling `n` with `z` leading zeros -/
def numItem (z n : Nat) : ItemSpec := ⟨[pad z n], [[some n]], [numOp n], numUpd n⟩

theorem pad_pb (z n : Nat) : PB (pad z n) := by
  intro b hb; have := pad_digits z n b hb; omega

theorem numItem_ok (z n : Nat) (h : n ≠ 38 ∧ n ≠ 48 ∧ n ≠ 58) (hx : n ≠ 7 ∧ n ≠ 27 ∧ n ≠ 39 ∧ n ≠ 49) :
    ItemOk (numItem z n) where
  good := Good.single (pad_pb z n)
  ne := by simp [numItem]
  par := by simp [numItem, chunkP_pad]
  closed := by intro rest; simpa [numItem] using numOp_sem n h rest
  dclosed := DClosed.single _ _ (fun fm rest => num_step z n h fm rest)
  hom := by intro fm a f hr; simpa [numItem] using hom_num n hx fm a f hr

/-! ### the decoder against the reference with the inexpressible parameters ignored -/

structure ItemOkX (s : ItemSpec) : Prop where
  good : Good s.chunks
  ne : s.chunks ≠ []
  par : s.chunks.mapM chunkP = some s.params
  closed : Closed s.params s.ops
  dclosed : DClosed s.chunks s.upd
  hom : ∀ fm a f, normAttr a = view fm f → normAttr (s.ops.foldl applySgrX a) = view (s.upd fm) f

theorem foldl_applySgrX (ops : List SgrOp) (h : ∀ op ∈ ops, inexpressibleOp op = false) (a : Attr) :
    ops.foldl applySgrX a = ops.foldl applySgr a := by
  induction ops generalizing a with
  | nil => rfl
  | cons op ops ih =>
    simp only [List.foldl_cons]
    have : applySgrX a op = applySgr a op := by simp [applySgrX, h op (by simp)]
    rw [this]
    exact ih (fun x hx => h x (by simp [hx])) _

/-- an item without inexpressible operations means the same to both references -/
theorem ItemOk.toX {s : ItemSpec} (h : ItemOk s) (hx : ∀ op ∈ s.ops, inexpressibleOp op = false) : ItemOkX s where
  good := h.good
  ne := h.ne
  par := h.par
  closed := h.closed
  dclosed := h.dclosed
  hom := by intro fm a f hr; rw [foldl_applySgrX _ hx]; exact h.hom fm a f hr

theorem numItem_okX (z n : Nat) (h : n ≠ 38 ∧ n ≠ 48 ∧ n ≠ 58) : ItemOkX (numItem z n) := by
  by_cases hx : n = 7 ∨ n = 27 ∨ n = 39 ∨ n = 49
  · refine ⟨Good.single (pad_pb z n), by simp [numItem], by simp [numItem, chunkP_pad], ?_,
      DClosed.single _ _ (fun fm rest => num_step z n h fm rest), ?_⟩
    · intro rest; simpa [numItem] using numOp_sem n h rest
    · intro fm a f hr
      simp only [numItem, List.foldl_cons, List.foldl_nil, applySgrX, numOp_inexpressible n hx, if_true,
        numUpd_inexpressible n hx]
      exact hr
  · exact (numItem_ok z n h (by omega)).toX (by
      intro op hop
      simp only [numItem, List.mem_singleton] at hop
      subst hop
      exact numOp_expressible n (by omega))

theorem flatX_good (l : List ItemSpec) (h : ∀ s ∈ l, ItemOkX s) : Good (l.flatMap (·.chunks)) := by
  induction l with
  | nil => exact Good.nil
  | cons s l ih =>
    simp only [List.flatMap_cons]
    exact Good.append (h s (by simp)).good (ih (fun x hx => h x (by simp [hx])))

theorem flatX_par (l : List ItemSpec) (h : ∀ s ∈ l, ItemOkX s) :
    (l.flatMap (·.chunks)).mapM chunkP = some (l.flatMap (·.params)) := by
  induction l with
  | nil => rfl
  | cons s l ih =>
    simp only [List.flatMap_cons]
    exact mapM_append_some _ _ _ _ _ (h s (by simp)).par (ih (fun x hx => h x (by simp [hx])))

theorem flatX_closed (l : List ItemSpec) (h : ∀ s ∈ l, ItemOkX s) :
    Closed (l.flatMap (·.params)) (l.flatMap (·.ops)) := by
  induction l with
  | nil => exact Closed.nil
  | cons s l ih =>
    simp only [List.flatMap_cons]
    exact Closed.append (h s (by simp)).closed (ih (fun x hx => h x (by simp [hx])))

theorem flatX_dclosed (l : List ItemSpec) (h : ∀ s ∈ l, ItemOkX s) :
    DClosed (l.flatMap (·.chunks)) (fun fm => l.foldl (fun fm s => s.upd fm) fm) := by
  induction l with
  | nil => exact DClosed.nil
  | cons s l ih =>
    simp only [List.flatMap_cons, List.foldl_cons]
    have := DClosed.append (h s (by simp)).dclosed (ih (fun x hx => h x (by simp [hx])))
    exact this

theorem flatX_hom (l : List ItemSpec) (h : ∀ s ∈ l, ItemOkX s) (fm : FMod) (a : Attr) (f : DFace)
    (hr : normAttr a = view fm f) :
    normAttr ((l.flatMap (·.ops)).foldl applySgrX a) = view (l.foldl (fun fm s => s.upd fm) fm) f := by
  induction l generalizing fm a with
  | nil => simpa using hr
  | cons s l ih =>
    simp only [List.flatMap_cons, List.foldl_append, List.foldl_cons]
    exact ih (fun x hx => h x (by simp [hx])) _ _ ((h s (by simp)).hom fm a f hr)

/-- the whole string against `refApplyX` -/
theorem items_agree_x (l : List ItemSpec) (h : ∀ s ∈ l, ItemOkX s) (hne : l ≠ []) (f : DFace) :
    refApplyX (joinSemi (l.flatMap (·.chunks))) f =
      some (view (sgrFace (joinSemi (l.flatMap (·.chunks)))) f) := by
  have hg := flatX_good l h
  have hcne : l.flatMap (·.chunks) ≠ [] := by
    cases l with
    | nil => exact absurd rfl hne
    | cons s l =>
      simp only [List.flatMap_cons]
      intro e
      have := (h s (by simp)).ne
      cases hc : s.chunks with
      | nil => exact this hc
      | cons c cs => rw [hc] at e; simp at e
  unfold refApplyX sgrFace
  rw [params?_joinSemi _ hcne hg.no59, flatX_par l h, splitBy_joinSemi _ hcne hg.no59,
    (flatX_dclosed l h).eval]
  simp only [Option.map_some, (flatX_closed l h).sem]
  congr 1
  exact flatX_hom l h {} (attrOfDFace f) f (view_init f)

/-! ### colour forms and underline styles with leading zeros in their numbers

`z…` are the numbers of leading zeros; with all of them `0` these are the items of `SgrColorItems` / `SgrItems`. -/

theorem numberDecode_pad_small (z n : Nat) (h : n ≤ 255) : numberDecode (pad z n) = some n := by
  rw [numberDecode_pad, Nat.min_eq_right (u8_small n h)]

theorem pad_no59 (z n : Nat) : 59 ∉ pad z n := by
  intro h; have := pad_digits z n 59 h; omega

theorem roleBytes_pb (role : Role) : PB (roleBytes role) := by
  intro b hb; have := roleBytes_digits role b hb; omega

def rgbSemiP (role : Role) (zr zg zb r g b : Nat) : ItemSpec :=
  ⟨[roleBytes role, [50], pad zr r, pad zg g, pad zb b],
   [[some (roleCode role)], [some 2], [some r], [some g], [some b]],
   [colorOp role (.inl (r, g, b))], setColor role ⟨r, g, b, 255⟩⟩

theorem good_of_all (l : List (List Nat)) (h : ∀ c ∈ l, PB c) : Good l := h

theorem rgbSemiP_ok (role : Role) (zr zg zb r g b : Nat) (hr : r ≤ 255) (hg : g ≤ 255) (hb : b ≤ 255) :
    ItemOk (rgbSemiP role zr zg zb r g b) where
  good := by
    apply good_of_all
    intro c hc
    simp only [rgbSemiP, List.mem_cons, List.not_mem_nil, or_false] at hc
    rcases hc with rfl | rfl | rfl | rfl | rfl
    · exact roleBytes_pb role
    · exact pb_lit _ (by decide)
    · exact pad_pb _ _
    · exact pad_pb _ _
    · exact pad_pb _ _
  ne := by simp [rgbSemiP]
  par := by
    have c2 : chunkP [50] = some [some 2] := by decide
    simp [rgbSemiP, roleBytes_chunkP, c2, chunkP_pad]
  closed := by intro rest; cases role <;> simp [rgbSemiP, roleCode, colorOp, sgrSem]
  dclosed := by
    intro fm rest
    have n2 : numberDecode [50] = some 2 := by decide
    have er := numberDecode_pad_small zr r hr
    have eg := numberDecode_pad_small zg g hg
    have eb := numberDecode_pad_small zb b hb
    have hcode := roleBytes_decode role
    have hsplit := roleBytes_split role
    cases role <;>
      simp [rgbSemiP, sgrFaceLoop_cons, sgrFaceStep, sgrColor, nextNum, toU8, hcode, hsplit, roleCode, n2, er, eg, eb,
        hr, hg, hb, setColor]
  hom := by intro fm a f h; simpa [rgbSemiP] using hom_color role ⟨r, g, b, 255⟩ fm a f h

def idxSemiP (role : Role) (z n : Nat) : ItemSpec :=
  ⟨[roleBytes role, [53], pad z n], [[some (roleCode role)], [some 5], [some n]],
   [colorOp role (.inr n)], setIndex role n⟩

theorem idxSemiP_ok (role : Role) (z n : Nat) (hn : n ≤ 255) : ItemOk (idxSemiP role z n) where
  good := by
    apply good_of_all
    intro c hc
    simp only [idxSemiP, List.mem_cons, List.not_mem_nil, or_false] at hc
    rcases hc with rfl | rfl | rfl
    · exact roleBytes_pb role
    · exact pb_lit _ (by decide)
    · exact pad_pb _ _
  ne := by simp [idxSemiP]
  par := by
    have c5 : chunkP [53] = some [some 5] := by decide
    simp [idxSemiP, roleBytes_chunkP, c5, chunkP_pad]
  closed := by intro rest; cases role <;> simp [idxSemiP, roleCode, colorOp, sgrSem]
  dclosed := by
    intro fm rest
    have n5 : numberDecode [53] = some 5 := by decide
    have en := numberDecode_pad_small z n hn
    have hcode := roleBytes_decode role
    have hsplit := roleBytes_split role
    cases role <;>
      simp [idxSemiP, sgrFaceLoop_cons, sgrFaceStep, sgrColor, hcode, hsplit, roleCode, n5, en, setIndex]
  hom := by
    intro fm a f h
    have := hom_index role n hn fm a f h
    simpa [idxSemiP, setIndex] using this

def rgbColon4P (role : Role) (zr zg zb r g b : Nat) : ItemSpec :=
  ⟨[colonChunk [roleBytes role, [50], [], pad zr r, pad zg g, pad zb b]],
   [[some (roleCode role), some 2, none, some r, some g, some b]],
   [colorOp role (.inl (r, g, b))], setColor role ⟨r, g, b, 255⟩⟩

def rgbColon3P (role : Role) (zr zg zb r g b : Nat) : ItemSpec :=
  ⟨[colonChunk [roleBytes role, [50], pad zr r, pad zg g, pad zb b]],
   [[some (roleCode role), some 2, some r, some g, some b]],
   [colorOp role (.inl (r, g, b))], setColor role ⟨r, g, b, 255⟩⟩

def idxColonP (role : Role) (z n : Nat) : ItemSpec :=
  ⟨[colonChunk [roleBytes role, [53], pad z n]],
   [[some (roleCode role), some 5, some n]],
   [colorOp role (.inr n)], setIndex role n⟩

theorem parts4P_digits (zr zg zb r g b : Nat) :
    ∀ c ∈ [[50], [], pad zr r, pad zg g, pad zb b], ∀ x ∈ c, 48 ≤ x ∧ x ≤ 57 := by
  intro c hc x hx
  simp at hc
  rcases hc with rfl | rfl | rfl | rfl | rfl
  · simp at hx; omega
  · simp at hx
  · exact pad_digits _ _ x hx
  · exact pad_digits _ _ x hx
  · exact pad_digits _ _ x hx

theorem parts3P_digits (zr zg zb r g b : Nat) :
    ∀ c ∈ [[50], pad zr r, pad zg g, pad zb b], ∀ x ∈ c, 48 ≤ x ∧ x ≤ 57 := by
  intro c hc x hx
  simp at hc
  rcases hc with rfl | rfl | rfl | rfl
  · simp at hx; omega
  · exact pad_digits _ _ x hx
  · exact pad_digits _ _ x hx
  · exact pad_digits _ _ x hx

theorem partsIP_digits (z n : Nat) : ∀ c ∈ [[53], pad z n], ∀ x ∈ c, 48 ≤ x ∧ x ≤ 57 := by
  intro c hc x hx
  simp at hc
  rcases hc with rfl | rfl
  · simp at hx; omega
  · exact pad_digits _ _ x hx

theorem rgbColon4P_ok (role : Role) (zr zg zb r g b : Nat) (hr : r ≤ 255) (hg : g ≤ 255) (hb : b ≤ 255) :
    ItemOk (rgbColon4P role zr zg zb r g b) := by
  have hd := digits_of_parts (role := role) (parts4P_digits zr zg zb r g b)
  have hsplit := colon_split _ (by simp) hd
  have n2 : numberDecode [50] = some 2 := by decide
  have n0 : numberDecode [] = some 0 := by decide
  have er := numberDecode_pad_small zr r hr
  have eg := numberDecode_pad_small zg g hg
  have eb := numberDecode_pad_small zb b hb
  refine ⟨Good.single (joinWith_pb _ hd), by simp [rgbColon4P], ?_, ?_, ?_, ?_⟩
  · have r2 : readNat? [50] = some (some 2) := by decide
    have r0 : readNat? [] = some none := by decide
    simp [rgbColon4P, chunkP, hsplit, roleBytes_read, r2, r0, readNat?_pad]
  · intro rest; cases role <;> simp [rgbColon4P, roleCode, colorOp, sgrSem]
  · refine DClosed.single _ _ ?_
    intro fm rest
    have hcode := roleBytes_decode role
    cases role <;>
      simp [rgbColon4P, sgrFaceStep, hsplit, hcode, roleCode, sgrColor, nextNum, toU8, n2, n0, er, eg, eb, hr, hg, hb, setColor]
  · intro fm a f h; simpa [rgbColon4P] using hom_color role ⟨r, g, b, 255⟩ fm a f h

theorem rgbColon3P_ok (role : Role) (zr zg zb r g b : Nat) (hr : r ≤ 255) (hg : g ≤ 255) (hb : b ≤ 255) :
    ItemOk (rgbColon3P role zr zg zb r g b) := by
  have hd := digits_of_parts (role := role) (parts3P_digits zr zg zb r g b)
  have hsplit := colon_split _ (by simp) hd
  have n2 : numberDecode [50] = some 2 := by decide
  have er := numberDecode_pad_small zr r hr
  have eg := numberDecode_pad_small zg g hg
  have eb := numberDecode_pad_small zb b hb
  refine ⟨Good.single (joinWith_pb _ hd), by simp [rgbColon3P], ?_, ?_, ?_, ?_⟩
  · have r2 : readNat? [50] = some (some 2) := by decide
    simp [rgbColon3P, chunkP, hsplit, roleBytes_read, r2, readNat?_pad]
  · intro rest; cases role <;> simp [rgbColon3P, roleCode, colorOp, sgrSem]
  · refine DClosed.single _ _ ?_
    intro fm rest
    have hcode := roleBytes_decode role
    cases role <;>
      simp [rgbColon3P, sgrFaceStep, hsplit, hcode, roleCode, sgrColor, nextNum, toU8, n2, er, eg, eb, hr, hg, hb, setColor]
  · intro fm a f h; simpa [rgbColon3P] using hom_color role ⟨r, g, b, 255⟩ fm a f h

theorem idxColonP_ok (role : Role) (z n : Nat) (hn : n ≤ 255) : ItemOk (idxColonP role z n) := by
  have hd := digits_of_parts (role := role) (partsIP_digits z n)
  have hsplit := colon_split _ (by simp) hd
  have n5 : numberDecode [53] = some 5 := by decide
  have en := numberDecode_pad_small z n hn
  refine ⟨Good.single (joinWith_pb _ hd), by simp [idxColonP], ?_, ?_, ?_, ?_⟩
  · have r5 : readNat? [53] = some (some 5) := by decide
    simp [idxColonP, chunkP, hsplit, roleBytes_read, r5, readNat?_pad]
  · intro rest; cases role <;> simp [idxColonP, roleCode, colorOp, sgrSem]
  · refine DClosed.single _ _ ?_
    intro fm rest
    have hcode := roleBytes_decode role
    cases role <;>
      simp [idxColonP, sgrFaceStep, hsplit, hcode, roleCode, sgrColor, n5, en, setIndex]
  · intro fm a f h
    have := hom_index role n hn fm a f h
    simpa [idxColonP, setIndex] using this

/-- `4:k` with leading zeros in `k` -/
def ulStyleP (z k : Nat) : ItemSpec :=
  ⟨[colonChunk [[52], pad z k]], [[some 4, some k]], [.underline k], fun fm => { fm with underline := some k }⟩

theorem ulStyleP_ok (z k : Nat) (hk : k ≤ 5) : ItemOk (ulStyleP z k) := by
  have hd : ∀ c ∈ [[52], pad z k], ∀ x ∈ c, 48 ≤ x ∧ x ≤ 57 := by
    intro c hc x hx
    simp at hc
    rcases hc with rfl | rfl
    · simp at hx; omega
    · exact pad_digits _ _ x hx
  have hsplit := colon_split _ (by simp) hd
  have n4 : numberDecode [52] = some 4 := by decide
  have ek := numberDecode_pad_small z k (by omega)
  refine ⟨Good.single (joinWith_pb _ hd), by simp [ulStyleP], ?_, ?_, ?_, ?_⟩
  · have r4 : readNat? [52] = some (some 4) := by decide
    simp [ulStyleP, chunkP, hsplit, r4, readNat?_pad]
  · intro rest; simp [ulStyleP, sgrSem, hk]
  · refine DClosed.single _ _ ?_
    intro fm rest
    rcases k with _ | _ | _ | _ | _ | _ | k
    all_goals first
      | omega
      | simp [ulStyleP, sgrFaceStep, hsplit, n4, ek, nextNum]
  · intro fm a f hr
    simp only [ulStyleP, List.foldl_cons, List.foldl_nil]
    rw [view_underline, ← hr]; rfl


end SurfProofs.Lemmas.SgrSem
