import SurfModel.Sixel
/-!
# C12 helper lemmas: the regenerated channel-reduction tables

`SurfModel.Generated.SixelLevel` is rewritten on every run from what the current build of /repo writes
into the palette definition; the theorem below is therefore re-checked against the code each time.
-/
namespace SurfProofs.Lemmas.SixelTable
open SurfModel.Sixel SurfModel.Generated.SixelLevel

/-- sixel's 0-100 resolution of an 8-bit channel value: `100·v/255` rounded to the nearest integer
(no value of `v` falls on a half) -/
def level100 (v : Nat) : Nat := (200 * v + 255) / 510

theorem level_table :
    levelR = (List.range 256).map level100 ∧ levelG = (List.range 256).map level100
      ∧ levelB = (List.range 256).map level100 := by
  decide +kernel

theorem table_getD (v : Nat) : ((List.range 256).map level100).getD v 0 = if v < 256 then level100 v else 0 := by
  by_cases h : v < 256
  · simp [h]
  · simp [h]

theorem level_eq (c : RGB) (h : c.r < 256 ∧ c.g < 256 ∧ c.b < 256) :
    level c = ⟨level100 c.r, level100 c.g, level100 c.b⟩ := by
  obtain ⟨hr, hg, hb⟩ := level_table
  simp only [level, hr, hg, hb, table_getD, h.1, h.2.1, h.2.2, if_true]

theorem level_le (c : RGB) : (level c).r ≤ 100 ∧ (level c).g ≤ 100 ∧ (level c).b ≤ 100 := by
  obtain ⟨hr, hg, hb⟩ := level_table
  simp only [level, hr, hg, hb, table_getD, level100]
  refine ⟨?_, ?_, ?_⟩ <;> split <;> omega

theorem level100_le (v : Nat) (h : v < 256) : level100 v ≤ 100 := by unfold level100; omega

theorem level100_mono {a b : Nat} (h : a ≤ b) : level100 a ≤ level100 b := by
  unfold level100; omega

end SurfProofs.Lemmas.SixelTable
