import SurfProofs.Lemmas.DecoderStream
/-!
Event-level facts for C02: which events the payload decoders can produce.

* no `Matcher::decode` body produces a `Raw` event — so every `Raw` event of the decoders carries exactly the
  bytes of the item it comes from (unrecognised bytes of the tokenizer, or an accepted token whose decoder
  answered `None`);
* the character of every key / character event is a Unicode scalar value.
-/
namespace SurfProofs.DecoderEvents
open SurfModel.Tokenizer SurfModel.Payload SurfModel.Grammar SurfModel.Automata SurfModel.Stream SurfModel.Decoders
open SurfProofs.DecoderStream SurfProofs.ProtoStream

/-- the character an event carries, if any (`Key(KeyName::Char(c))`, `TerminalCommand::Char(c)`) -/
def charOf : Event → Option Nat
  | .key ⟨.char c, _⟩ => some c
  | .char c => some c
  | _ => none

def isRaw : Event → Bool
  | .raw _ => true
  | _ => false

/-- what every successfully decoded event satisfies: it is not `Raw`, and its character is a scalar value -/
def Good (r : Res) : Prop :=
  ∀ e, r = .ok (some e) → isRaw e = false ∧ ∀ c, charOf e = some c → SurfModel.Payload.isScalar c = true

theorem good_none : Good (.ok none) := by intro e h; cases h
theorem good_error (x : Stop) : Good (.error x) := by intro e h; cases h

theorem keyboardDecodeKey_char (code c : Nat) (h : keyboardDecodeKey code = some (.char c)) :
    SurfModel.Payload.isScalar c = true := by
  unfold keyboardDecodeKey at h
  repeat' split at h
  all_goals first
    | (simp at h; done)
    | (simp only [Option.some.injEq, KeyName.char.injEq] at h; subst h; assumption)

theorem decode_good (k : Family) (d : List Nat) : Good (SurfModel.Payload.decode k d) := by
  intro e he
  cases k with
  | keys => simp [SurfModel.Payload.decode] at he
  | cursorPosition =>
    simp only [SurfModel.Payload.decode, decodeCursorPosition] at he
    repeat' split at he
    all_goals first | (simp at he; done) | (simp at he; subst he; simp [isRaw, charOf])
  | decMode =>
    simp only [SurfModel.Payload.decode, decodeDecMode] at he
    repeat' split at he
    all_goals first | (simp at he; done) | (simp at he; subst he; simp [isRaw, charOf])
  | deviceAttrs =>
    simp only [SurfModel.Payload.decode, decodeDeviceAttrs] at he
    repeat' split at he
    all_goals first | (simp at he; done) | (simp at he; subst he; simp [isRaw, charOf])
  | sgr =>
    simp only [SurfModel.Payload.decode, decodeSgr, decodeSgrBody] at he
    repeat' split at he
    all_goals first | (simp at he; done) | (simp at he; subst he; simp [isRaw, charOf])
  | kittyImage =>
    simp only [SurfModel.Payload.decode, decodeKittyImage] at he
    repeat' split at he
    all_goals first | (simp at he; done) | (simp at he; subst he; simp [isRaw, charOf])
  | kittyKeyboard =>
    simp only [SurfModel.Payload.decode, decodeKittyKeyboard] at he
    repeat' split at he
    all_goals first
      | (simp at he; done)
      | (simp at he; subst he; simp [isRaw, charOf]; done)
      | (simp only [Except.ok.injEq, Option.some.injEq] at he; subst he
         refine ⟨rfl, ?_⟩
         intro c hc
         rename_i name hname _ _
         cases name <;> simp [charOf] at hc
         subst hc
         exact keyboardDecodeKey_char _ _ hname)
  | mouse =>
    simp only [SurfModel.Payload.decode, decodeMouse] at he
    repeat' split at he
    all_goals first | (simp at he; done) | (simp at he; subst he; simp [isRaw, charOf])
  | osc =>
    simp only [SurfModel.Payload.decode, decodeOsc] at he
    repeat' split at he
    all_goals first | (simp at he; done) | (simp at he; subst he; simp [isRaw, charOf])
  | reportSetting =>
    simp only [SurfModel.Payload.decode, decodeReportSetting] at he
    repeat' split at he
    all_goals first | (simp at he; done) | (simp at he; subst he; simp [isRaw, charOf])
  | termcap =>
    simp only [SurfModel.Payload.decode, decodeTermcap] at he
    repeat' split at he
    all_goals first | (simp at he; done) | (simp at he; subst he; simp [isRaw, charOf])
  | termSize =>
    simp only [SurfModel.Payload.decode, decodeTermSize] at he
    repeat' split at he
    all_goals first | (simp at he; done) | (simp at he; subst he; simp [isRaw, charOf])
  | utf8 =>
    simp only [SurfModel.Payload.decode, decodeUtf8] at he
    split at he
    · simp at he
    · rename_i c hc
      simp only [Except.ok.injEq, Option.some.injEq] at he
      subst he
      refine ⟨rfl, ?_⟩
      intro c' hc'
      simp only [charOf, Option.some.injEq] at hc'
      subst hc'
      unfold SurfModel.Payload.utf8Decode at hc
      repeat' split at hc
      all_goals first | (simp at hc; done) | (simp only [Except.ok.injEq] at hc; subst hc; assumption)
  | paste =>
    simp only [SurfModel.Payload.decode, decodePaste] at he
    repeat' split at he
    all_goals first | (simp at he; done) | (simp at he; subst he; simp [isRaw, charOf])

end SurfProofs.DecoderEvents
