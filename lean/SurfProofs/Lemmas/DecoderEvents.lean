import SurfProofs.Lemmas.DecoderStream
/-!
Event-level facts for C02: which events the payload decoders can produce.

* no `Matcher::decode` body produces a `Raw` event — so every `Raw` event of the decoders carries exactly the
  bytes of the item it comes from (unrecognised bytes of the tokenizer, or an accepted token whose decoder
  answered `None`);
* the character of every key / character event is a Unicode scalar value.
-/
namespace SurfProofs.DecoderEvents
open SurfModel.Tokenizer SurfModel.Payload SurfModel.Grammar SurfModel.Automata SurfModel.Stream SurfModel.Decoders
open SurfProofs.DecoderStream SurfProofs.ProtoStream

/-- the character an event carries, if any (`Key(KeyName::Char(c))`, `TerminalCommand::Char(c)`) -/
def charOf : Event → Option Nat
  | .key ⟨.char c, _⟩ => some c
  | .char c => some c
  | _ => none

def isRaw : Event → Bool
  | .raw _ => true
  | _ => false

/-- what every successfully decoded event satisfies: it is not `Raw`, and its character is a scalar value -/
def Good (r : Res) : Prop :=
  ∀ e, r = .ok (some e) → isRaw e = false ∧ ∀ c, charOf e = some c → SurfModel.Payload.isScalar c = true

theorem good_none : Good (.ok none) := by intro e h; cases h
theorem good_error (x : Stop) : Good (.error x) := by intro e h; cases h

theorem keyboardDecodeKey_char (code c : Nat) (h : keyboardDecodeKey code = some (.char c)) :
    SurfModel.Payload.isScalar c = true := by
  unfold keyboardDecodeKey at h
  repeat' split at h
  all_goals first
    | (simp at h; done)
    | (simp only [Option.some.injEq, KeyName.char.injEq] at h; subst h; assumption)

theorem utf8Decode_scalar (d : List Nat) (c : Nat) (h : SurfModel.Payload.utf8Decode d = .ok c) :
    SurfModel.Payload.isScalar c = true := by
  unfold SurfModel.Payload.utf8Decode at h
  split at h
  · cases h
  · rename_i first rest
    simp only at h
    split at h
    · cases h
    · rename_i code _
      by_cases hs : SurfModel.Payload.isScalar (List.foldl (fun code byte => code * 64 + byte % 64) code rest) = true
      · rw [if_pos hs] at h
        cases h
        exact hs
      · rw [if_neg hs] at h
        cases h

theorem key_good (name : KeyName) (mode code : Nat) (h : keyboardDecodeKey code = some name) :
    ∀ c, charOf (.key ⟨name, mode⟩) = some c → SurfModel.Payload.isScalar c = true := by
  intro c hc
  cases name <;> simp [charOf] at hc
  subst hc
  exact keyboardDecodeKey_char _ _ h

theorem decode_good (k : Family) (d : List Nat) : Good (SurfModel.Payload.decode k d) := by
  intro e he
  cases k with
  | keys => simp [SurfModel.Payload.decode] at he
  | cursorPosition =>
    simp only [SurfModel.Payload.decode, decodeCursorPosition] at he
    repeat' split at he
    all_goals first | (simp at he; done) | (simp at he; subst he; simp [isRaw, charOf])
  | decMode =>
    simp only [SurfModel.Payload.decode, decodeDecMode] at he
    repeat' split at he
    all_goals first | (simp at he; done) | (simp at he; subst he; simp [isRaw, charOf])
  | deviceAttrs =>
    simp only [SurfModel.Payload.decode, decodeDeviceAttrs] at he
    repeat' split at he
    all_goals first | (simp at he; done) | (simp at he; subst he; simp [isRaw, charOf])
  | sgr =>
    simp only [SurfModel.Payload.decode, decodeSgr, decodeSgrBody] at he
    repeat' split at he
    all_goals first | (simp at he; done) | (simp at he; subst he; simp [isRaw, charOf])
  | kittyImage =>
    simp only [SurfModel.Payload.decode, decodeKittyImage] at he
    repeat' split at he
    all_goals first | (simp at he; done) | (simp at he; subst he; simp [isRaw, charOf])
  | kittyKeyboard =>
    simp only [SurfModel.Payload.decode, decodeKittyKeyboard] at he
    repeat' split at he
    all_goals first
      | (simp at he; done)
      | (simp at he; subst he; simp [isRaw, charOf]; done)
      | (simp only [Except.ok.injEq, Option.some.injEq] at he; subst he
         exact ⟨rfl, key_good _ _ _ (by assumption)⟩)
  | mouse =>
    simp only [SurfModel.Payload.decode, decodeMouse] at he
    repeat' split at he
    all_goals first | (simp at he; done) | (simp at he; subst he; simp [isRaw, charOf])
  | osc =>
    simp only [SurfModel.Payload.decode, decodeOsc] at he
    repeat' split at he
    all_goals first | (simp at he; done) | (simp at he; subst he; simp [isRaw, charOf])
  | reportSetting =>
    simp only [SurfModel.Payload.decode, decodeReportSetting] at he
    repeat' split at he
    all_goals first | (simp at he; done) | (simp at he; subst he; simp [isRaw, charOf])
  | termcap =>
    simp only [SurfModel.Payload.decode, decodeTermcap] at he
    repeat' split at he
    all_goals first | (simp at he; done) | (simp at he; subst he; simp [isRaw, charOf])
  | termSize =>
    simp only [SurfModel.Payload.decode, decodeTermSize] at he
    repeat' split at he
    all_goals first | (simp at he; done) | (simp at he; subst he; simp [isRaw, charOf])
  | utf8 =>
    simp only [SurfModel.Payload.decode, decodeUtf8] at he
    split at he
    · simp at he
    · rename_i c hc
      simp only [Except.ok.injEq, Option.some.injEq] at he
      subst he
      refine ⟨rfl, ?_⟩
      intro c' hc'
      simp only [charOf, Option.some.injEq] at hc'
      subst hc'
      exact utf8Decode_scalar _ _ hc
  | paste =>
    simp only [SurfModel.Payload.decode, decodePaste] at he
    repeat' split at he
    all_goals first | (simp at he; done) | (simp at he; subst he; simp [isRaw, charOf])

theorem decodeCommand_good (i : Nat) (d : List Nat) : Good (decodeCommand i d) := by
  intro e he
  unfold decodeCommand at he
  split at he
  · exact decode_good .sgr d e he
  · split at he
    · cases he
    · rename_i c hc
      simp only [Except.ok.injEq, Option.some.injEq] at he
      subst he
      refine ⟨rfl, ?_⟩
      intro c' hc'
      simp only [charOf, Option.some.injEq] at hc'
      subst hc'
      exact utf8Decode_scalar _ _ hc
  · cases he

/-! ## raw events carry exactly the bytes of their item -/

theorem eventOfItem_raw {σ} (A : TAuto σ) (it : Item σ) (b : List Nat) (h : eventOfItem A it = .ok (.raw b)) :
    b = natBytes it.bytes := by
  cases it with
  | raw bs => simp only [eventOfItem, Except.ok.injEq, Event.raw.injEq] at h; exact h.symm
  | tok bs q =>
    simp only [eventOfItem] at h
    split at h
    · cases h
    · rename_i t _
      simp only [eventOfTok] at h
      split at h
      · cases h
      · rename_i e hd
        simp only [Except.ok.injEq] at h
        subst h
        -- a decoder never answers `Some(Raw(..))`
        exfalso
        unfold decodeTok at hd
        split at hd
        · split at hd
          · simp at hd
          · cases hd
        · split at hd
          · rename_i k _
            have := (decode_good k _ _ hd).1
            simp [isRaw] at this
          · cases hd
      · simp only [Except.ok.injEq, Event.raw.injEq] at h
        exact h.symm

theorem commandOfItem_raw {σ} (A : TAuto σ) (it : Item σ) (b : List Nat) (h : commandOfItem A it = .ok (.raw b)) :
    b = natBytes it.bytes := by
  cases it with
  | raw bs => simp only [commandOfItem, Except.ok.injEq, Event.raw.injEq] at h; exact h.symm
  | tok bs q =>
    simp only [commandOfItem] at h
    split at h
    · cases h
    · rename_i t _
      split at h
      · cases h
      · rename_i e hd
        simp only [Except.ok.injEq] at h
        subst h
        exfalso
        unfold decodeCommandTok at hd
        split at hd
        · cases hd
        · have := (decodeCommand_good _ _ _ hd).1
          simp [isRaw] at this
      · simp only [Except.ok.injEq, Event.raw.injEq] at h
        exact h.symm

/-! ## characters are scalar values -/

def keyScalar (k : Key) : Bool :=
  match k.name with
  | .char c => SurfModel.Payload.isScalar c
  | _ => true

set_option maxRecDepth 100000 in
/-- every character key of the literal table is a scalar value (re-decided on the regenerated table) -/
theorem keyTable_scalar :
    SurfModel.Generated.keyTable.all (fun e =>
      match Key.ofCode (keyCode3 e.2.1 e.2.2.1 e.2.2.2) with
      | some k => keyScalar k
      | none => true) = true := by
  decide +kernel

/-- the least tag of a token of an automaton realising the event grammar: a key of the table spelled by the
    token, or the tag of a family whose grammar matches the token -/
theorem leastTag_spec {σ} (A : TAuto σ) (hR : Realises A) (bs : List UInt8) (q : σ)
    (hrun : runA A.toAuto A.start bs = some q) (hacc : A.accepting q = true) (t : Nat) (ht : A.leastTag q = some t) :
    (∃ e ∈ SurfModel.Generated.keyTable, keyCode3 e.2.1 e.2.2.1 e.2.2.2 = t ∧ bs = bytes e.1) ∨
      (∃ k, k ≠ Family.keys ∧ t = k.tag ∧ (grammar k).Matches bs) := by
  have hr := hR bs
  rw [hrun] at hr
  cases hS : eventDFA.run bs with
  | none => rw [hS] at hr; simp at hr
  | some S =>
    rw [hS] at hr
    simp only [Option.map_some, Option.some.injEq, Prod.mk.injEq] at hr
    have htags : A.tags q = eventDFA.tagsAfter bs := by
      rw [hr.2]; unfold DFA.tagsAfter; rw [hS]
    have hmem : t ∈ eventDFA.tagsAfter bs := by
      rw [← htags]
      unfold TAuto.leastTag at ht
      cases hl : A.tags q with
      | nil => rw [hl] at ht; cases ht
      | cons x r => rw [hl] at ht; simp only [List.head?_cons, Option.some.injEq] at ht; subst ht; simp
    exact (event_tags bs t).mp hmem

theorem eventOfItem_char {σ} (A : TAuto σ) (hR : Realises A) (it : Item σ) (hok : ItemOk A.toAuto it) (e : Event)
    (h : eventOfItem A it = .ok e) (c : Nat) (hc : charOf e = some c) : SurfModel.Payload.isScalar c = true := by
  cases it with
  | raw bs =>
    simp only [eventOfItem, Except.ok.injEq] at h
    subst h
    simp [charOf] at hc
  | tok bs q =>
    obtain ⟨_, hrun, hacc⟩ := hok
    simp only [eventOfItem] at h
    split at h
    · cases h
    · rename_i t ht
      have hspec := leastTag_spec A hR bs q hrun hacc t ht
      simp only [eventOfTok] at h
      split at h
      · cases h
      · rename_i e' hd
        simp only [Except.ok.injEq] at h
        subst h
        unfold decodeTok at hd
        split at hd
        · rename_i hlt
          split at hd
          · rename_i k hk
            simp only [Except.ok.injEq, Option.some.injEq] at hd
            subst hd
            rcases hspec with ⟨ent, hent, hcode, _⟩ | ⟨k', _, hk', _⟩
            · have := List.all_eq_true.mp keyTable_scalar ent hent
              rw [hcode, hk] at this
              simp only at this
              unfold keyScalar at this
              cases hn : k.name with
              | char c' =>
                rw [hn] at this
                simp only at this
                have : k = ⟨.char c', k.mode⟩ := by cases k; simp_all
                rw [this] at hc
                simp only [charOf, Option.some.injEq] at hc
                subst hc
                assumption
              | _ =>
                have : charOf (.key k) = none := by cases k; simp_all [charOf]
                rw [this] at hc; cases hc
            · have := family_tag_ge k'
              omega
          · cases hd
        · split at hd
          · rename_i k _
            exact (decode_good k _ _ hd).2 c hc
          · cases hd
      · simp only [Except.ok.injEq] at h
        subst h
        simp [charOf] at hc

theorem commandOfItem_char {σ} (A : TAuto σ) (it : Item σ) (e : Event)
    (h : commandOfItem A it = .ok e) (c : Nat) (hc : charOf e = some c) : SurfModel.Payload.isScalar c = true := by
  cases it with
  | raw bs =>
    simp only [commandOfItem, Except.ok.injEq] at h
    subst h
    simp [charOf] at hc
  | tok bs q =>
    simp only [commandOfItem] at h
    split at h
    · cases h
    · split at h
      · cases h
      · rename_i e' hd
        simp only [Except.ok.injEq] at h
        subst h
        unfold decodeCommandTok at hd
        split at hd
        · cases hd
        · exact (decodeCommand_good _ _ _ hd).2 c hc
      · simp only [Except.ok.injEq] at h
        subst h
        simp [charOf] at hc

/-! ## modifier words stay inside the defined flags -/

/-- the modifier word of a key or mouse event (`KeyMod::bits`) -/
def modOf : Event → Option Nat
  | .key k => some k.mode
  | .mouse _ m _ _ => some m
  | _ => none

/-- every event a decoder body produces has its modifier word below 512 = inside `KeyMod::ALL` -/
theorem decode_mod (k : Family) (d : List Nat) (e : Event) (he : SurfModel.Payload.decode k d = .ok (some e))
    (m : Nat) (hm : modOf e = some m) : m < 512 := by
  cases k with
  | keys => simp [SurfModel.Payload.decode] at he
  | kittyKeyboard =>
    simp only [SurfModel.Payload.decode, decodeKittyKeyboard] at he
    repeat' split at he
    all_goals first
      | (simp at he; done)
      | (simp only [Except.ok.injEq, Option.some.injEq] at he; subst he
         simp only [modOf, Option.some.injEq] at hm; subst hm; first | omega | (split <;> omega) | (split <;> (try split) <;> omega))
      | (simp only [Except.ok.injEq, Option.some.injEq] at he; subst he; simp [modOf] at hm)
  | mouse =>
    simp only [SurfModel.Payload.decode, decodeMouse] at he
    repeat' split at he
    all_goals first
      | (simp at he; done)
      | (simp only [Except.ok.injEq, Option.some.injEq] at he; subst he
         simp only [modOf, Option.some.injEq] at hm; subst hm; first | omega | (unfold modPress; omega) | (unfold modPress; split <;> omega))
  | utf8 =>
    simp only [SurfModel.Payload.decode, decodeUtf8] at he
    split at he
    · simp at he
    · simp only [Except.ok.injEq, Option.some.injEq] at he; subst he
      simp only [modOf, Option.some.injEq] at hm; omega
  | cursorPosition =>
    simp only [SurfModel.Payload.decode, decodeCursorPosition] at he
    repeat' split at he
    all_goals first | (simp at he; done) | (simp at he; subst he; simp [modOf] at hm)
  | decMode =>
    simp only [SurfModel.Payload.decode, decodeDecMode] at he
    repeat' split at he
    all_goals first | (simp at he; done) | (simp at he; subst he; simp [modOf] at hm)
  | deviceAttrs =>
    simp only [SurfModel.Payload.decode, decodeDeviceAttrs] at he
    repeat' split at he
    all_goals first | (simp at he; done) | (simp at he; subst he; simp [modOf] at hm)
  | sgr =>
    simp only [SurfModel.Payload.decode, decodeSgr, decodeSgrBody] at he
    repeat' split at he
    all_goals first | (simp at he; done) | (simp at he; subst he; simp [modOf] at hm)
  | kittyImage =>
    simp only [SurfModel.Payload.decode, decodeKittyImage] at he
    repeat' split at he
    all_goals first | (simp at he; done) | (simp at he; subst he; simp [modOf] at hm)
  | osc =>
    simp only [SurfModel.Payload.decode, decodeOsc] at he
    repeat' split at he
    all_goals first | (simp at he; done) | (simp at he; subst he; simp [modOf] at hm)
  | reportSetting =>
    simp only [SurfModel.Payload.decode, decodeReportSetting] at he
    repeat' split at he
    all_goals first | (simp at he; done) | (simp at he; subst he; simp [modOf] at hm)
  | termcap =>
    simp only [SurfModel.Payload.decode, decodeTermcap] at he
    repeat' split at he
    all_goals first | (simp at he; done) | (simp at he; subst he; simp [modOf] at hm)
  | termSize =>
    simp only [SurfModel.Payload.decode, decodeTermSize] at he
    repeat' split at he
    all_goals first | (simp at he; done) | (simp at he; subst he; simp [modOf] at hm)
  | paste =>
    simp only [SurfModel.Payload.decode, decodePaste] at he
    repeat' split at he
    all_goals first | (simp at he; done) | (simp at he; subst he; simp [modOf] at hm)

/-- whatever event an item of the event decoder becomes, its modifier word is below 512 (every automaton:
    the key of a literal-table tag is rebuilt from its code, whose modifier part is `code mod 512`) -/
theorem eventOfItem_mod {σ} (A : TAuto σ) (it : Item σ) (e : Event) (h : eventOfItem A it = .ok e)
    (m : Nat) (hm : modOf e = some m) : m < 512 := by
  cases it with
  | raw bs =>
    simp only [eventOfItem, Except.ok.injEq] at h
    subst h
    simp [modOf] at hm
  | tok bs q =>
    simp only [eventOfItem] at h
    split at h
    · cases h
    · simp only [eventOfTok] at h
      split at h
      · cases h
      · rename_i e' hd
        simp only [Except.ok.injEq] at h
        subst h
        unfold decodeTok at hd
        split at hd
        · split at hd
          · rename_i k hk
            simp only [Except.ok.injEq, Option.some.injEq] at hd
            subst hd
            simp only [modOf, Option.some.injEq] at hm
            subst hm
            unfold Key.ofCode at hk
            simp only [Option.map_eq_some_iff] at hk
            obtain ⟨n, _, rfl⟩ := hk
            exact Nat.mod_lt _ (by omega)
          · cases hd
        · split at hd
          · rename_i k _
            exact decode_mod k _ _ hd m hm
          · cases hd
      · simp only [Except.ok.injEq] at h
        subst h
        simp [modOf] at hm

end SurfProofs.DecoderEvents
