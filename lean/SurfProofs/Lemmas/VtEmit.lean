import SurfProofs.Lemmas.VtSgr
/-! `Emits bs seqs`: read from the ground state, `bs` is recognised as exactly `seqs` and the parser
is back in the ground state — whatever follows. -/
namespace SurfProofs.Lemmas.Vt
open SurfModel.Vt

def Emits (bs : List Nat) (seqs : List Seq) : Prop :=
  ∀ rest, run .ground (bs ++ rest) = ((run .ground rest).1, seqs ++ (run .ground rest).2)

theorem Emits.nil : Emits [] [] := by intro rest; simp

theorem Emits.append {a b : List Nat} {sa sb : List Seq} (ha : Emits a sa) (hb : Emits b sb) :
    Emits (a ++ b) (sa ++ sb) := by
  intro rest
  rw [List.append_assoc, ha, hb]
  simp [List.append_assoc]

theorem Emits.csi (ps : List Nat) (fin : Nat) (hp : ∀ d ∈ ps, 0x30 ≤ d ∧ d < 0x40)
    (hf : 0x40 ≤ fin ∧ fin < 0x7f) : Emits (csiB ++ ps ++ [fin]) [.csi ps [] fin] := by
  intro rest
  have := run_csi ps fin rest hp hf
  simp only [List.append_assoc, List.singleton_append, List.cons_append, List.nil_append] at this ⊢
  rw [this]

theorem Emits.csi_inter (ps : List Nat) (i fin : Nat) (hp : ∀ d ∈ ps, 0x30 ≤ d ∧ d < 0x40)
    (hi : 0x20 ≤ i ∧ i < 0x30) (hf : 0x40 ≤ fin ∧ fin < 0x7f) :
    Emits (csiB ++ ps ++ [i, fin]) [.csi ps [i] fin] := by
  intro rest
  have := run_csi_inter ps i fin rest hp hi hf
  simp only [List.append_assoc, List.cons_append, List.nil_append] at this ⊢
  rw [this]

theorem Emits.esc (fin : Nat) (hf : 0x30 ≤ fin ∧ fin < 0x7f) (h1 : fin ≠ 91) (h2 : fin ≠ 93) (h3 : fin ≠ 80) :
    Emits [27, fin] [.esc [] fin] := by
  intro rest
  have a : fin ≠ 27 := by omega
  have b : ¬ (0x20 ≤ fin ∧ fin < 0x30) := by omega
  simp [run, step, stepGround, stepEscape, a, b, h1, h2, h3, hf.1, hf.2]

theorem Emits.osc (data : List Nat) (h : ∀ d ∈ data, d ≠ 7 ∧ d ≠ 27) :
    Emits ([27, 93] ++ data ++ stB) [.osc data] := by
  intro rest
  have e : run .ground ([27, 93] ++ data ++ stB ++ rest) = run (.osc []) (data ++ (stB ++ rest)) := by
    simp [run, step, stepGround, stepEscape, List.append_assoc]
  rw [e, run_osc_data [] data _ h]
  simp [stB, run, step]

theorem Emits.dcs (data : List Nat) (h : ∀ d ∈ data, d ≠ 27) :
    Emits ([27, 80] ++ data ++ stB) [.dcs data] := by
  intro rest
  have e : run .ground ([27, 80] ++ data ++ stB ++ rest) = run (.dcs []) (data ++ (stB ++ rest)) := by
    simp [run, step, stepGround, stepEscape, List.append_assoc]
  rw [e, run_dcs_data [] data _ h]
  simp [stB, run, step]

/-- UTF-8 of a printable code point is read back as that code point -/
theorem Emits.utf8 (cp : Nat) (h : printable cp) : Emits (utf8 cp) [.print cp] := by
  intro rest
  obtain ⟨h1, h2, h3, h4⟩ := h
  unfold SurfModel.Vt.utf8
  split
  · rename_i hlt
    have a : cp ≠ 27 := by omega
    have b : ¬ (cp < 32 ∨ cp = 127) := by omega
    simp [run, step, stepGround, a, b, hlt]
  · split
    · rename_i h80 h800
      simp [run, step, stepGround]
      have a : ¬ (192 + cp / 64 = 27) := by omega
      have b : ¬ (192 + cp / 64 < 32 ∨ 192 + cp / 64 = 127) := by omega
      have c : ¬ (192 + cp / 64 < 128) := by omega
      have d : (192 ≤ 192 + cp / 64 ∧ 192 + cp / 64 < 224) := by omega
      have e : (128 ≤ 128 + cp % 64 ∧ 128 + cp % 64 < 192) := by omega
      simp [a, b, c, d, e]
      omega
    · split
      · rename_i h80 h800 h10000
        simp [run, step, stepGround]
        have a : ¬ (224 + cp / 4096 = 27) := by omega
        have b : ¬ (224 + cp / 4096 < 32 ∨ 224 + cp / 4096 = 127) := by omega
        have c : ¬ (224 + cp / 4096 < 128) := by omega
        have d : ¬ (192 ≤ 224 + cp / 4096 ∧ 224 + cp / 4096 < 224) := by omega
        have d' : (224 ≤ 224 + cp / 4096 ∧ 224 + cp / 4096 < 240) := by omega
        have e : (128 ≤ 128 + cp % 64 ∧ 128 + cp % 64 < 192) := by omega
        have f : (128 ≤ 128 + cp / 64 % 64 ∧ 128 + cp / 64 % 64 < 192) := by omega
        simp [a, b, c, d, d', e, f]
        omega
      · rename_i h80 h800 h10000
        simp [run, step, stepGround]
        have a : ¬ (240 + cp / 262144 = 27) := by omega
        have b : ¬ (240 + cp / 262144 < 32 ∨ 240 + cp / 262144 = 127) := by omega
        have c : ¬ (240 + cp / 262144 < 128) := by omega
        have d : ¬ (192 ≤ 240 + cp / 262144 ∧ 240 + cp / 262144 < 224) := by omega
        have d' : ¬ (224 ≤ 240 + cp / 262144 ∧ 240 + cp / 262144 < 240) := by omega
        have d'' : (240 ≤ 240 + cp / 262144 ∧ 240 + cp / 262144 < 248) := by omega
        have e : (128 ≤ 128 + cp % 64 ∧ 128 + cp % 64 < 192) := by omega
        have f : (128 ≤ 128 + cp / 64 % 64 ∧ 128 + cp / 64 % 64 < 192) := by omega
        have g : (128 ≤ 128 + cp / 4096 % 64 ∧ 128 + cp / 4096 % 64 < 192) := by omega
        simp [a, b, c, d, d', d'', e, f, g]
        omega

end SurfProofs.Lemmas.Vt
