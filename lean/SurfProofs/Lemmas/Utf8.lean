import SurfModel.Utf8
import SurfProofs.Lemmas.ReMatch
/-!
Lemmas for the UTF-8 part of C02:

* `Table37` — "Well-Formed UTF-8 Byte Sequences" (Unicode Standard, Table 3-7) written out over numbers,
  and `utf8Re_matches_iff`: the expression `utf8_nfa` builds matches exactly the rows of the table;
* `utf8Decode_one … utf8Decode_four` — the shift-and-or loop of `utf8_decode` as plain arithmetic;
* `table_decode` — on a row of the table the arithmetic yields a scalar value whose standard encoding
  (`SurfModel.Vt.utf8`, the encoder's side) is the row; `utf8_table` — the converse.
-/
namespace SurfProofs.Utf8
open SurfModel.Automata SurfModel.Utf8 SurfModel.Tokenizer SurfProofs.ReMatch

/-! ## the table -/

/-- continuation byte `80..BF` -/
def Cont (b : Nat) : Prop := 0x80 ≤ b ∧ b ≤ 0xBF

/-- the one-byte row in the three modes of `utf8_nfa` -/
def OneByte (mode : Nat) (a : Nat) : Prop :=
  match mode with
  | 0 => a ≤ 0x7F
  | 1 => 0x20 ≤ a ∧ a ≤ 0x7E
  | _ => a ≤ 0x7F ∧ a ≠ 0x1B

/-- Unicode Standard, Table 3-7 (rows in the order of the table), bytes as numbers -/
def Table37 (mode : Nat) : List Nat → Prop
  | [a] => OneByte mode a
  | [a, b] => 0xC2 ≤ a ∧ a ≤ 0xDF ∧ Cont b
  | [a, b, c] =>
    ((a = 0xE0 ∧ 0xA0 ≤ b ∧ b ≤ 0xBF) ∨ (0xE1 ≤ a ∧ a ≤ 0xEC ∧ Cont b) ∨
     (a = 0xED ∧ 0x80 ≤ b ∧ b ≤ 0x9F) ∨ (0xEE ≤ a ∧ a ≤ 0xEF ∧ Cont b)) ∧ Cont c
  | [a, b, c, d] =>
    ((a = 0xF0 ∧ 0x90 ≤ b ∧ b ≤ 0xBF) ∨ (0xF1 ≤ a ∧ a ≤ 0xF3 ∧ Cont b) ∨
     (a = 0xF4 ∧ 0x80 ≤ b ∧ b ≤ 0x8F)) ∧ Cont c ∧ Cont d
  | _ => False

/-! ## the expression matches exactly the table -/

theorem inRanges_one (lo hi b : UInt8) :
    inRanges [(lo, hi)] b = true ↔ lo.toNat ≤ b.toNat ∧ b.toNat ≤ hi.toNat := by
  simp [inRanges, UInt8.le_iff_toNat_le]

theorem matches_range (lo hi : UInt8) (w : List UInt8) :
    (range lo hi).Matches w ↔ ∃ b, w = [b] ∧ lo.toNat ≤ b.toNat ∧ b.toNat ≤ hi.toNat := by
  unfold range
  rw [matches_pred]
  constructor
  · rintro ⟨b, rfl, h⟩; exact ⟨b, rfl, (inRanges_one lo hi b).mp h⟩
  · rintro ⟨b, rfl, h⟩; exact ⟨b, rfl, (inRanges_one lo hi b).mpr h⟩

theorem matches_one (mode : Nat) (w : List UInt8) :
    (Re.pred (oneRanges mode)).Matches w ↔ ∃ b, w = [b] ∧ OneByte mode b.toNat := by
  rw [matches_pred]
  have key : ∀ b : UInt8, inRanges (oneRanges mode) b = true ↔ OneByte mode b.toNat := by
    intro b
    have hb := b.toNat_lt
    unfold oneRanges OneByte
    split
    · simp [inRanges, UInt8.le_iff_toNat_le]
    · simp [inRanges, UInt8.le_iff_toNat_le]
    · simp [inRanges, UInt8.le_iff_toNat_le]; omega
  constructor
  · rintro ⟨b, rfl, h⟩; exact ⟨b, rfl, (key b).mp h⟩
  · rintro ⟨b, rfl, h⟩; exact ⟨b, rfl, (key b).mpr h⟩

/-- two ranges in sequence -/
theorem matches_seq2 (e1 e2 : Re) (w : List UInt8) :
    (Re.seq [e1, e2]).Matches w ↔ ∃ u v, w = u ++ v ∧ e1.Matches u ∧ e2.Matches v := by
  rw [matches_seq_cons]
  constructor
  · rintro ⟨u, v, rfl, h1, h2⟩
    rw [matches_seq_cons] at h2
    obtain ⟨u2, v2, rfl, h3, h4⟩ := h2
    rw [matches_seq_nil] at h4
    subst h4
    exact ⟨u, u2, by simp, h1, h3⟩
  · rintro ⟨u, v, rfl, h1, h2⟩
    refine ⟨u, v, rfl, h1, ?_⟩
    rw [matches_seq_cons]
    exact ⟨v, [], by simp, h2, matches_seq_nil.mpr rfl⟩

/-- a row of two bytes -/
theorem matches_row2 (l1 h1 l2 h2 : UInt8) (w : List UInt8) :
    (Re.seq [range l1 h1, range l2 h2]).Matches w ↔
      ∃ a b, w = [a, b] ∧ l1.toNat ≤ a.toNat ∧ a.toNat ≤ h1.toNat ∧ l2.toNat ≤ b.toNat ∧ b.toNat ≤ h2.toNat := by
  rw [matches_seq2]
  constructor
  · rintro ⟨u, v, rfl, hu, hv⟩
    obtain ⟨a, rfl, ha⟩ := (matches_range _ _ _).mp hu
    obtain ⟨b, rfl, hb⟩ := (matches_range _ _ _).mp hv
    exact ⟨a, b, rfl, ha.1, ha.2, hb.1, hb.2⟩
  · rintro ⟨a, b, rfl, h⟩
    exact ⟨[a], [b], rfl, (matches_range _ _ _).mpr ⟨a, rfl, h.1, h.2.1⟩,
      (matches_range _ _ _).mpr ⟨b, rfl, h.2.2.1, h.2.2.2⟩⟩

/-- a row of three bytes: `(r1 + r2) + r3` -/
theorem matches_row3 (l1 h1 l2 h2 l3 h3 : UInt8) (w : List UInt8) :
    (Re.seq [.seq [range l1 h1, range l2 h2], range l3 h3]).Matches w ↔
      ∃ a b c, w = [a, b, c] ∧ l1.toNat ≤ a.toNat ∧ a.toNat ≤ h1.toNat ∧ l2.toNat ≤ b.toNat ∧ b.toNat ≤ h2.toNat ∧
        l3.toNat ≤ c.toNat ∧ c.toNat ≤ h3.toNat := by
  rw [matches_seq2]
  constructor
  · rintro ⟨u, v, rfl, hu, hv⟩
    obtain ⟨a, b, rfl, hab⟩ := (matches_row2 _ _ _ _ _).mp hu
    obtain ⟨c, rfl, hc⟩ := (matches_range _ _ _).mp hv
    exact ⟨a, b, c, rfl, hab.1, hab.2.1, hab.2.2.1, hab.2.2.2, hc.1, hc.2⟩
  · rintro ⟨a, b, c, rfl, h⟩
    exact ⟨[a, b], [c], rfl, (matches_row2 _ _ _ _ _).mpr ⟨a, b, rfl, h.1, h.2.1, h.2.2.1, h.2.2.2.1⟩,
      (matches_range _ _ _).mpr ⟨c, rfl, h.2.2.2.2.1, h.2.2.2.2.2⟩⟩

/-- a row of four bytes: `((r1 + r2) + r3) + r4` -/
theorem matches_row4 (l1 h1 l2 h2 l3 h3 l4 h4 : UInt8) (w : List UInt8) :
    (Re.seq [.seq [.seq [range l1 h1, range l2 h2], range l3 h3], range l4 h4]).Matches w ↔
      ∃ a b c d, w = [a, b, c, d] ∧ l1.toNat ≤ a.toNat ∧ a.toNat ≤ h1.toNat ∧ l2.toNat ≤ b.toNat ∧
        b.toNat ≤ h2.toNat ∧ l3.toNat ≤ c.toNat ∧ c.toNat ≤ h3.toNat ∧ l4.toNat ≤ d.toNat ∧ d.toNat ≤ h4.toNat := by
  rw [matches_seq2]
  constructor
  · rintro ⟨u, v, rfl, hu, hv⟩
    obtain ⟨a, b, c, rfl, habc⟩ := (matches_row3 _ _ _ _ _ _ _).mp hu
    obtain ⟨d, rfl, hd⟩ := (matches_range _ _ _).mp hv
    exact ⟨a, b, c, d, rfl, habc.1, habc.2.1, habc.2.2.1, habc.2.2.2.1, habc.2.2.2.2.1, habc.2.2.2.2.2, hd.1, hd.2⟩
  · rintro ⟨a, b, c, d, rfl, h⟩
    exact ⟨[a, b, c], [d], rfl,
      (matches_row3 _ _ _ _ _ _ _).mpr ⟨a, b, c, rfl, h.1, h.2.1, h.2.2.1, h.2.2.2.1, h.2.2.2.2.1, h.2.2.2.2.2.1⟩,
      (matches_range _ _ _).mpr ⟨d, rfl, h.2.2.2.2.2.2.1, h.2.2.2.2.2.2.2⟩⟩

/-- **the expression of `utf8_nfa(mode)` matches exactly the byte sequences of Table 3-7** -/
theorem utf8Re_matches_iff (mode : Nat) (w : List UInt8) :
    (utf8Re mode).Matches w ↔ Table37 mode (w.map UInt8.toNat) := by
  unfold utf8Re
  rw [matches_alt]
  simp only [List.mem_cons, List.not_mem_nil, or_false, exists_eq_or_imp, exists_eq_left, tail]
  rw [matches_one, matches_row2, matches_row3, matches_row3, matches_row3, matches_row3,
    matches_row4, matches_row4, matches_row4]
  constructor
  · rintro (⟨a, rfl, h⟩ | ⟨a, b, rfl, h⟩ | ⟨a, b, c, rfl, h⟩ | ⟨a, b, c, rfl, h⟩ | ⟨a, b, c, rfl, h⟩ |
      ⟨a, b, c, rfl, h⟩ | ⟨a, b, c, d, rfl, h⟩ | ⟨a, b, c, d, rfl, h⟩ | ⟨a, b, c, d, rfl, h⟩) <;>
      simp only [List.map_cons, List.map_nil, Table37, Cont] <;>
      first | exact h | (simp at h; omega)
  · intro h
    match w, h with
    | [a], h => exact Or.inl ⟨a, rfl, h⟩
    | [a, b], h =>
      simp only [List.map_cons, List.map_nil, Table37, Cont] at h
      exact Or.inr (Or.inl ⟨a, b, rfl, by simp; omega⟩)
    | [a, b, c], h =>
      simp only [List.map_cons, List.map_nil, Table37, Cont] at h
      obtain ⟨h1 | h1 | h1 | h1, h2⟩ := h
      · exact Or.inr (Or.inr (Or.inl ⟨a, b, c, rfl, by simp; omega⟩))
      · exact Or.inr (Or.inr (Or.inr (Or.inl ⟨a, b, c, rfl, by simp; omega⟩)))
      · exact Or.inr (Or.inr (Or.inr (Or.inr (Or.inl ⟨a, b, c, rfl, by simp; omega⟩))))
      · exact Or.inr (Or.inr (Or.inr (Or.inr (Or.inr (Or.inl ⟨a, b, c, rfl, by simp; omega⟩)))))
    | [a, b, c, d], h =>
      simp only [List.map_cons, List.map_nil, Table37, Cont] at h
      obtain ⟨h1 | h1 | h1, h2⟩ := h
      · exact Or.inr (Or.inr (Or.inr (Or.inr (Or.inr (Or.inr (Or.inl ⟨a, b, c, d, rfl, by simp; omega⟩))))))
      · exact Or.inr (Or.inr (Or.inr (Or.inr (Or.inr (Or.inr (Or.inr (Or.inl ⟨a, b, c, d, rfl, by simp; omega⟩)))))))
      · exact Or.inr (Or.inr (Or.inr (Or.inr (Or.inr (Or.inr (Or.inr (Or.inr ⟨a, b, c, d, rfl, by simp; omega⟩)))))))
    | [], h => simp [Table37] at h
    | _ :: _ :: _ :: _ :: _ :: _, h => simp [Table37] at h

/-! ## `utf8_decode` as arithmetic -/

theorem and_mask (x k : Nat) : x &&& (2 ^ k - 1) = x % 2 ^ k := Nat.and_two_pow_sub_one_eq_mod x k

theorem pushTail_eq (code : Nat) (b : UInt8) (hc : code < 67108864) :
    pushTail code b = code * 64 + b.toNat % 64 := by
  unfold pushTail u32
  rw [Nat.shiftLeft_eq, Nat.mod_eq_of_lt (by omega)]
  have h1 : b.toNat &&& 63 = b.toNat % 64 := and_mask _ 6
  rw [h1]
  have := Nat.shiftLeft_add_eq_or_of_lt (show b.toNat % 64 < 2 ^ 6 by omega) code
  rw [Nat.shiftLeft_eq] at this
  omega

theorem utf8Decode_one (a : UInt8) : utf8Decode [a] = .ok (a.toNat % 128) := by
  have : a.toNat &&& 127 = a.toNat % 128 := and_mask _ 7
  simp [utf8Decode, this]

theorem utf8Decode_two (a b : UInt8) : utf8Decode [a, b] = .ok (a.toNat % 32 * 64 + b.toNat % 64) := by
  have h : a.toNat &&& 31 = a.toNat % 32 := and_mask _ 5
  simp only [utf8Decode, List.length_cons, List.length_nil, List.foldl_cons, List.foldl_nil, h]
  rw [pushTail_eq _ _ (by omega)]

theorem utf8Decode_three (a b c : UInt8) :
    utf8Decode [a, b, c] = .ok ((a.toNat % 16 * 64 + b.toNat % 64) * 64 + c.toNat % 64) := by
  have h : a.toNat &&& 15 = a.toNat % 16 := and_mask _ 4
  simp only [utf8Decode, List.length_cons, List.length_nil, List.foldl_cons, List.foldl_nil, h]
  rw [pushTail_eq _ b (by omega), pushTail_eq _ c (by omega)]

theorem utf8Decode_four (a b c d : UInt8) :
    utf8Decode [a, b, c, d] =
      .ok (((a.toNat % 8 * 64 + b.toNat % 64) * 64 + c.toNat % 64) * 64 + d.toNat % 64) := by
  have h : a.toNat &&& 7 = a.toNat % 8 := and_mask _ 3
  simp only [utf8Decode, List.length_cons, List.length_nil, List.foldl_cons, List.foldl_nil, h]
  rw [pushTail_eq _ b (by omega), pushTail_eq _ c (by omega), pushTail_eq _ d (by omega)]

/-- `utf8_decode` panics on nothing but the empty slice and slices longer than four bytes -/
theorem utf8Decode_panic_iff (w : List UInt8) : utf8Decode w = .error .panic ↔ w = [] ∨ 4 < w.length := by
  match w with
  | [] => simp [utf8Decode]
  | [a] => simp [utf8Decode_one]
  | [a, b] => simp [utf8Decode_two]
  | [a, b, c] => simp [utf8Decode_three]
  | [a, b, c, d] => simp [utf8Decode_four]
  | a :: b :: c :: d :: e :: r => simp [utf8Decode]

/-! ## scalar values -/

/-- Unicode scalar value: a code point that is not a surrogate (what `char::from_u32_unchecked` requires) -/
def Scalar (c : Nat) : Prop := c < 0x110000 ∧ ¬ (0xD800 ≤ c ∧ c ≤ 0xDFFF)

theorem isScalar_iff (c : Nat) : isScalar c = true ↔ Scalar c := by
  simp only [isScalar, Scalar, Bool.and_eq_true, decide_eq_true_eq, Bool.not_eq_true', Bool.and_eq_false_iff,
    decide_eq_false_iff_not]
  omega

/-- on a row of the table, `utf8_decode` yields a scalar value, and the row is its standard encoding -/
theorem table_decode (mode : Nat) (w : List UInt8) (h : Table37 mode (w.map UInt8.toNat)) :
    ∃ c, utf8Decode w = .ok c ∧ Scalar c ∧ SurfModel.Vt.utf8 c = w.map UInt8.toNat := by
  match w, h with
  | [a], h =>
    refine ⟨a.toNat % 128, utf8Decode_one a, ?_⟩
    simp only [List.map_cons, List.map_nil, Table37] at h
    have h7 : a.toNat ≤ 0x7F := by
      unfold OneByte at h
      split at h <;> omega
    unfold Scalar SurfModel.Vt.utf8
    refine ⟨by omega, ?_⟩
    rw [if_pos (by omega)]
    simp; omega
  | [a, b], h =>
    refine ⟨_, utf8Decode_two a b, ?_⟩
    simp only [List.map_cons, List.map_nil, Table37, Cont] at h
    unfold Scalar SurfModel.Vt.utf8
    refine ⟨by omega, ?_⟩
    rw [if_neg (by omega), if_pos (by omega)]
    simp; omega
  | [a, b, c], h =>
    refine ⟨_, utf8Decode_three a b c, ?_⟩
    simp only [List.map_cons, List.map_nil, Table37, Cont] at h
    unfold Scalar SurfModel.Vt.utf8
    refine ⟨by omega, ?_⟩
    rw [if_neg (by omega), if_neg (by omega), if_pos (by omega)]
    simp; omega
  | [a, b, c, d], h =>
    refine ⟨_, utf8Decode_four a b c d, ?_⟩
    simp only [List.map_cons, List.map_nil, Table37, Cont] at h
    unfold Scalar SurfModel.Vt.utf8
    refine ⟨by omega, ?_⟩
    rw [if_neg (by omega), if_neg (by omega), if_neg (by omega)]
    simp; omega
  | [], h => simp [Table37] at h
  | _ :: _ :: _ :: _ :: _ :: _, h => simp [Table37] at h

/-- the standard encoding of a scalar value is a row of the table (canonical mode) -/
theorem utf8_table (c : Nat) (h : Scalar c) : Table37 0 (SurfModel.Vt.utf8 c) := by
  unfold Scalar at h
  unfold SurfModel.Vt.utf8
  split
  · simp only [Table37, OneByte]; omega
  · split
    · simp only [Table37, Cont]; omega
    · split
      · simp only [Table37, Cont]; omega
      · simp only [Table37, Cont]; omega

/-- every byte of a standard encoding of a code point below `0x200000` is a byte -/
theorem utf8_bytes (c : Nat) (h : c < 0x200000) : ∀ b ∈ SurfModel.Vt.utf8 c, b < 256 := by
  unfold SurfModel.Vt.utf8
  split
  · simp; omega
  · split
    · simp; omega
    · split
      · simp; omega
      · simp; omega

theorem map_toNat_ofNat (l : List Nat) (h : ∀ b ∈ l, b < 256) : (l.map UInt8.ofNat).map UInt8.toNat = l := by
  induction l with
  | nil => rfl
  | cons a r ih =>
    simp only [List.map_cons, List.cons.injEq]
    refine ⟨?_, ih (fun b hb => h b (List.mem_cons_of_mem _ hb))⟩
    have := h a (List.mem_cons_self ..)
    rw [UInt8.toNat_ofNat']; omega

/-- the standard encoding determines the code point -/
theorem utf8_injective (c c' : Nat) (h : Scalar c) (h' : Scalar c') (he : SurfModel.Vt.utf8 c = SurfModel.Vt.utf8 c') :
    c = c' := by
  unfold Scalar at h h'
  unfold SurfModel.Vt.utf8 at he
  split at he <;> split at he <;> (try split at he) <;> (try split at he) <;> (try split at he) <;>
    (try split at he) <;> simp at he <;> omega

end SurfProofs.Utf8
